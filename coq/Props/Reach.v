(* Reachability invariants (support for C05, C10, C16, C19, C20): every blueprint, element and sequence that any
   program of the op language can build satisfies the well-formedness hypotheses those theorems assume.
   Only statements; every proof is `exact <lemma>` into Proofs/ReachFacts.v. *)
From Coq Require Import String List ZArith QArith Bool.
From BB Require Import Base.Names Base.Num Base.PyList Model.Types Model.Blueprint Model.Forge Model.Element
  Model.PyVal Model.Sequence Model.Interp Proofs.BlueprintFacts Proofs.ReachFacts.
Import ListNotations.

Theorem Reach_initial : store_ok store0.
Proof. exact store_ok_initial. Qed.

(* one step, then any history *)
Theorem Reach_step : forall st o, api_op o -> store_ok st -> store_ok (fst (exec st o)).
Proof. exact store_ok_step. Qed.

Theorem Reach_all : forall prog st, Forall api_op prog -> store_ok st -> store_ok (final_store st prog).
Proof. exact store_ok_reachable. Qed.

(* in particular: every reachable blueprint, wherever it is stored, has equally long parallel lists and canonical,
   pairwise distinct names (the hypotheses of C10_shift_blueprint, C19_blueprint_roundtrip, C20_copy_eq) *)
Theorem Reach_blueprints_everywhere : forall prog r s p e c ch b,
  Forall api_op prog -> In (r, s) (sqs (final_store store0 prog)) ->
  In (p, EElem e) (sdata s) -> In (c, ch) (edata e) -> ckind ch = KBp b ->
  Inv b /\ NoDup (names b) /\ length (names b) = length (funs b).
Proof. exact reachable_blueprints_everywhere. Qed.

(* the dictionaries of a reachable sequence have distinct keys (hypotheses of C16_add_assoc / C16_add_sequencing) *)
Theorem Reach_sequence_keys : forall prog r s,
  Forall api_op prog -> In (r, s) (sqs (final_store store0 prog)) ->
  NoDup (akeys (sdata s)) /\ NoDup (akeys (sseq s)) /\ NoDup (akeys (sspecs s)).
Proof. exact reachable_sequence_keys. Qed.

(* without the deprecated setSequenceSettings, sequencing entries exist only at filled positions *)
Theorem Reach_sequencing_at_positions : forall prog r s,
  Forall modern_op prog -> In (r, s) (sqs (final_store store0 prog)) -> seq_keys_sub s.
Proof. exact reachable_sequencing_at_positions. Qed.

Print Assumptions Reach_initial.
Print Assumptions Reach_step.
Print Assumptions Reach_all.
Print Assumptions Reach_blueprints_everywhere.
Print Assumptions Reach_sequence_keys.
Print Assumptions Reach_sequencing_at_positions.

(* ---- reachability discharges the structural hypothesis of the mirror theorems (Props/C15b.v) ---- *)
From BB Require Import Model.Output Proofs.MirrorFacts Proofs.ReachMirrorFacts.

(* for every sequence an API program can build, with non-negative delays: whatever the output path prepares is exactly
   what forge reports (channels, arrays, markers, flags, final plans incl. filter compensation), at every position *)
Theorem Reach_prepare_mirrors_forge : forall prog r s chans out,
  Forall api_op prog -> In (r, s) (sqs (final_store store0 prog)) ->
  delays_nonneg s -> prepare s = Ok (chans, out) ->
  exists sq, mapM (get_sq s) (range1 (length out)) = Ok sq /\ seq_forge s true true false = Ok (mirror_forge sq out).
Proof. exact reachable_prepare_mirrors_forge. Qed.
Print Assumptions Reach_prepare_mirrors_forge.
