(* FloatGap - the binary64 sample count int(round(dur * SR)) equals the exact-rational model's count.
   binary64 is Flocq's FLT format: radix 2, precision 53, emin -1074, round to nearest, ties to even.
   Only statements; every proof is `exact <lemma>` into Numeric/FloatGap.v. *)
From Coq Require Import ZArith QArith Qabs Qreals Reals.
From Flocq Require Import Core.
From BB Require Import Base.Num Numeric.FloatGap.
Open Scope R_scope.

(* x is the exact product dur*SR; if it is within 2/5 of an integer n in [2, 2^49], the binary64
   product fl is within 9/100 of x (the eps of Base/Num.v rnd_robust), strictly within 1/2 of n,
   and its nearest integer (ties to even, as Python's round) is n *)
Theorem binary64_count_robust : forall (x : R) (n : Z),
  (2 <= n)%Z -> IZR n <= 2 ^ 49 -> Rabs (x - IZR n) <= 2 / 5 ->
  Rabs (round radix2 (FLT_exp (-1074) 53) ZnearestE x - x) <= 9 / 100 /\
  Rabs (round radix2 (FLT_exp (-1074) 53) ZnearestE x - IZR n) < / 2 /\
  ZnearestE (round radix2 (FLT_exp (-1074) 53) ZnearestE x) = n.
Proof. exact b64_count_robust. Qed.

(* no tie occurs, so the tie-breaking rule of the final integer rounding is immaterial *)
Theorem binary64_count_any_tiebreak : forall (x : R) (n : Z),
  (2 <= n)%Z -> IZR n <= 2 ^ 49 -> Rabs (x - IZR n) <= 2 / 5 ->
  forall choice : Z -> bool,
  Znearest choice (round radix2 (FLT_exp (-1074) 53) ZnearestE x) = n.
Proof. exact b64_count_any_choice. Qed.

(* the exact model (rnd over Q) and the binary64 implementation compute the same count *)
Theorem binary64_count_matches_model : forall (q : Q) (n : Z),
  (2 <= n <= 2 ^ 49)%Z -> (Qabs (q - inject_Z n) <= 2 # 5)%Q ->
  rnd q = n /\
  ZnearestE (round radix2 (FLT_exp (-1074) 53) ZnearestE (Q2R q)) = n /\
  (forall choice : Z -> bool,
   Znearest choice (round radix2 (FLT_exp (-1074) 53) ZnearestE (Q2R q)) = n).
Proof. exact b64_count_matches_model. Qed.

(* the binary64 product is the exact product plus an eps inside rnd_robust's tolerance *)
Theorem binary64_eps_within_model_tolerance : forall (q : Q) (n : Z),
  (2 <= n <= 2 ^ 49)%Z -> (Qabs (q - inject_Z n) <= 2 # 5)%Q ->
  Rabs (round radix2 (FLT_exp (-1074) 53) ZnearestE (Q2R q) - Q2R q) <= Q2R (9 # 100).
Proof. exact b64_count_eps_Q. Qed.

(* the size bound cannot be dropped: at n = 2^50 + 1, x = n + 2/5 rounds to n + 1/2 in binary64,
   and round-half-even then yields n + 1 *)
Theorem binary64_count_bound_needed :
  let n := (2 ^ 50 + 1)%Z in
  let x := IZR n + 2 / 5 in
  Rabs (x - IZR n) <= 2 / 5 /\
  ZnearestE (round radix2 (FLT_exp (-1074) 53) ZnearestE x) = (n + 1)%Z.
Proof. exact b64_count_tight. Qed.

Theorem binary64_count_bound_needed_half :
  let n := (2 ^ 50 + 1)%Z in
  let x := IZR n + 2 / 5 in
  Rabs (x - IZR n) <= 2 / 5 /\
  ~ Rabs (round radix2 (FLT_exp (-1074) 53) ZnearestE x - IZR n) < / 2.
Proof. exact b64_count_tight_half. Qed.

Print Assumptions binary64_count_robust.
Print Assumptions binary64_count_any_tiebreak.
Print Assumptions binary64_count_matches_model.
Print Assumptions binary64_eps_within_model_tolerance.
Print Assumptions binary64_count_bound_needed.
Print Assumptions binary64_count_bound_needed_half.
