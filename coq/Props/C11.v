(* C11 - placeholder until Proofs/SequenceFacts.v lands. *)
From Coq Require Import List.
From BB Require Import Base.Names.
Theorem C11_placeholder : forall l, NoDup (uniquify l).
Proof. exact uniquify_NoDup. Qed.
Print Assumptions C11_placeholder.
