(* C11 - declared filter compensation = ripasso inverse filter on the forged waveform.
   Only statements; every proof is `exact <lemma>` into Proofs/DelayFacts.v.  The numerics of the inverse
   filter itself are C12/C13 (tie T); here the plan WFilt kind order f_cut SR w stands for
   ripasso.applyInverseRCFilter(w, SR, kind, f_cut, order, DCgain=1) and is materialised by the real function
   in the correspondence check. *)
From Coq Require Import String List ZArith QArith Bool.
From BB Require Import Base.Names Base.Num Base.PyList Model.Types Model.Blueprint Model.Forge Model.Element
  Model.PyVal Model.Sequence Model.Output Proofs.DelayFacts.
Import ListNotations.
Open Scope Q_scope.

(* invalid specifications are rejected when they are set, and leave the settings unchanged *)
Theorem C11_validation : forall s c kind order fc tau,
  (negb (str_eqb kind (S_ "HP") || str_eqb kind (S_ "LP")) = true -> seq_set_filter s c kind order fc tau = (s, Some EValue)) /\
  (order = None -> snd (seq_set_filter s c kind order fc tau) <> None /\ fst (seq_set_filter s c kind order fc tau) = s) /\
  (fc <> VNone -> tau <> VNone -> snd (seq_set_filter s c kind order fc tau) <> None /\ fst (seq_set_filter s c kind order fc tau) = s).
Proof. exact filter_validation. Qed.

(* an accepted declaration is stored verbatim under the channel's key and found again by the forger *)
Theorem C11_declared : forall s c kind o fc tau s',
  seq_set_filter s c kind (Some o) fc tau = (s', None) ->
  spec_get s' (key_filt c) = Some (SFilt kind o fc tau) /\ sdata s' = sdata s /\ sseq s' = sseq s.
Proof. exact filter_declared. Qed.

(* cut-off: f_cut when given, otherwise 1/tau - and 1/(1/f) is f *)
Theorem C11_cutoff : forall s c kind o f t,
  (spec_get s (key_filt c) = Some (SFilt kind o (VNum f) VNone) -> filter_of s c = Ok (Some (kind, o, f))) /\
  (spec_get s (key_filt c) = Some (SFilt kind o VNone (VNum t)) -> ~ t == 0 -> filter_of s c = Ok (Some (kind, o, 1 / t))) /\
  (~ f == 0 -> 1 / (1 / f) == f) /\
  (spec_get s (key_filt c) = None -> filter_of s c = Ok None).
Proof. exact filter_cutoff. Qed.

(* a declared channel's waveform is the inverse filter (same kind and order, that cut-off, the SEQUENCE's sample
   rate) of the plan it is given; an undeclared channel's plan is untouched *)
Theorem C11_wrap : forall k o f SRq w,
  filt_wrap (Some (k, o, f)) (VNum SRq) w = Ok (WFilt k o f SRq w) /\ forall SR, filt_wrap None SR w = Ok w.
Proof. exact filter_wrap. Qed.

(* markers, flags and every other array of the channel do not depend on the waveform plan *)
Theorem C11_markers_untouched : forall o w w' k,
  k <> S_ "wfm" ->
  match pv_of_chout o w, pv_of_chout o w' with
  | PDict l, PDict l' => alookup (fun a b => match a, b with PStr x, PStr y => str_eqb x y | _, _ => false end) (PStr k) l
                        = alookup (fun a b => match a, b with PStr x, PStr y => str_eqb x y | _, _ => false end) (PStr k) l'
  | _, _ => False
  end.
Proof. exact markers_untouched. Qed.

(* forge(filters on) differs from forge(filters off) exactly by that wrapping, channel by channel *)
Theorem C11_forge_element : forall s t e arrs,
  el_get_arrays e t = Ok arrs ->
  (forall p, In p arrs -> exists w flt w', chout_plan (snd p) = Ok w /\ filter_of s (fst p) = Ok flt /\ filt_wrap flt (seq_SR s) w = Ok w') ->
  exists off on,
    forge_elem_data s false t e = Ok (PDict off) /\ forge_elem_data s true t e = Ok (PDict on) /\
    map fst on = map fst off /\
    forall i p, nth_error arrs i = Some p ->
      exists w flt w', chout_plan (snd p) = Ok w /\ filter_of s (fst p) = Ok flt /\ filt_wrap flt (seq_SR s) w = Ok w' /\
        nth_error off i = Some (pv_of_chan (fst p), pv_of_chout (snd p) w) /\
        nth_error on i = Some (pv_of_chan (fst p), pv_of_chout (snd p) w').
Proof. exact forge_element_filters. Qed.

Print Assumptions C11_validation.
Print Assumptions C11_declared.
Print Assumptions C11_cutoff.
Print Assumptions C11_wrap.
Print Assumptions C11_markers_untouched.
Print Assumptions C11_forge_element.
