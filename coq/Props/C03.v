(* C03 - placeholder theorem until the forging proofs land. *)
From Coq Require Import QArith Qabs.
From BB Require Import Base.Num.
Theorem C03_nearest_round : forall N SR t n,
  0 < SR -> (n < N)%nat -> Qabs (t * SR - inject_Z (Z.of_nat n)) < 1#2 -> nearest N SR t = n.
Proof. exact nearest_round. Qed.
Print Assumptions C03_nearest_round.
