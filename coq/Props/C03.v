(* C03 - markers are 0/1 and ON exactly on the union of their specified windows.
   Only statements; every proof is `exact <lemma>` into Proofs/ForgeFacts.v. *)
From Coq Require Import List ZArith QArith Qabs Bool.
From BB Require Import Base.Num Base.PyList Model.Types Model.Blueprint Model.Forge Proofs.ForgeFacts.
Import ListNotations.
Open Scope Q_scope.

(* painting: sample k is ON iff it lies in some window [start, stop); values are booleans by type *)
Theorem C03_paint_spec : forall N ws k,
  (0 <= k < N)%Z ->
  (nth (Z.to_nat k) (paint N ws) false = true <-> exists w, In w ws /\ (fst w <= k < snd w)%Z).
Proof. exact paint_spec. Qed.

Theorem C03_paint_length : forall N ws, length (paint N ws) = Z.to_nat N.
Proof. exact paint_length. Qed.

(* the model's closed-form index is numpy's np.abs(time - t).argmin() with time_k = k/SR,
   ties and clipping at both ends included *)
Theorem C03_nearest_is_argmin : forall (N : nat) SR t,
  0 < SR -> (0 < N)%nat -> nearest_fast (Z.of_nat N) SR t = Z.of_nat (nearest N SR t).
Proof. exact nearest_fast_argmin. Qed.

(* away from ties it is the sample nearest t, i.e. round(t*SR) *)
Theorem C03_nearest_round : forall (N : Z) SR t n,
  0 < SR -> (0 <= n < N)%Z -> Qabs (t * SR - inject_Z n) < 1#2 -> nearest_fast N SR t = n.
Proof. exact nearest_fast_round. Qed.

(* a marker (t_on, len) covers round(len*SR) samples starting at the nearest sample, clipped to the waveform *)
Theorem C03_window : forall (N : Z) SR t len n c,
  0 < SR -> (0 <= n < N)%Z -> Qabs (t * SR - inject_Z n) < 1#2 -> rnd (len * SR) = c -> (0 <= c)%Z ->
  window N SR (t, len) = (n, Z.min (n + c) N).
Proof. exact window_spec. Qed.

(* the forged marker arrays are the paint of the absolute windows and of the segment-bound windows,
   the latter placed at the post-rounding start of their segment plus their delay *)
Theorem C03_windows : forall b SR ds f,
  forge_bp_with b SR ds = Ok f ->
  let ns := map bn (fblocks f) in
  fm1 f = paint (fN f) (map (window (fN f) SR) (am1 b ++ seg_specs SR (starts 0 ns) (sm1 b))) /\
  fm2 f = paint (fN f) (map (window (fN f) SR) (am2 b ++ seg_specs SR (starts 0 ns) (sm2 b))).
Proof. exact forge_markers. Qed.

Theorem C03_segment_start : forall ns i, (i < length ns)%nat ->
  nth_error (starts 0 ns) i = Some (sumZ (firstn i ns)).
Proof. exact starts_nth. Qed.

(* which absolute specs the segment-bound markers turn into: exactly one per segment with non-zero
   length, at (start of segment i)/SR + delay; zero-length (= removed) markers contribute nothing *)
Theorem C03_seg_specs : forall SR sts sm t len,
  length sts = length sm ->
  (In (t, len) (seg_specs SR sts sm) <->
   exists i st dl, nth_error sts i = Some st /\ nth_error sm i = Some (dl, len) /\
                   Qeq_bool len 0 = false /\ t = (inject_Z st / SR + dl)%Q).
Proof. exact seg_specs_spec. Qed.

(* a zero-length window paints nothing *)
Theorem C03_zero_length : forall N SR m k, rnd (snd m * SR) = 0%Z -> in_window k (window N SR m) = false.
Proof. exact zero_window. Qed.

(* marker specifications never change waveform samples ... *)
Theorem C03_markers_do_not_touch_waveform : forall b SR ds x1 x2 y1 y2,
  let b' := mkBp (names b) (funs b) (args b) (durs b) x1 x2 y1 y2 (sr b) in
  match forge_bp_with b SR ds, forge_bp_with b' SR ds with
  | Ok f, Ok f' => fblocks f = fblocks f' /\ fN f = fN f' /\ fnewdurs f = fnewdurs f'
  | Err e, Err e' => e = e'
  | _, _ => False
  end.
Proof. exact markers_noninterference. Qed.

(* ... and the two marker channels do not interfere with each other *)
Theorem C03_channels_independent : forall b SR ds x1 y1 f f',
  forge_bp_with b SR ds = Ok f ->
  forge_bp_with (mkBp (names b) (funs b) (args b) (durs b) x1 (sm2 b) y1 (am2 b) (sr b)) SR ds = Ok f' ->
  fm2 f = fm2 f'.
Proof. exact marker_channels_independent. Qed.

(* segment-bound markers stay attached: inserting or removing another segment moves every parallel
   list in the same way, so each remaining segment keeps its function, arguments, duration and specs *)
Theorem C03_attached_insert : forall b pos f a d nm b' p,
  length (funs b) = length (names b) -> length (args b) = length (names b) -> length (durs b) = length (names b) ->
  length (sm1 b) = length (names b) -> length (sm2 b) = length (names b) ->
  bp_insert b pos f a d nm = (b', None) ->
  p = (if (pos =? -1)%Z then length (names b) else Nat.min (Z.to_nat pos) (length (names b))) ->
  forall k, let k' := if Nat.ltb k p then k else S k in
    nth_error (funs b') k' = nth_error (funs b) k /\ nth_error (args b') k' = nth_error (args b) k /\
    nth_error (durs b') k' = nth_error (durs b) k /\ nth_error (sm1 b') k' = nth_error (sm1 b) k /\
    nth_error (sm2 b') k' = nth_error (sm2 b) k.
Proof. exact attached_insert. Qed.

Theorem C03_attached_remove : forall b n b' p,
  length (funs b) = length (names b) -> length (args b) = length (names b) -> length (durs b) = length (names b) ->
  length (sm1 b) = length (names b) -> length (sm2 b) = length (names b) ->
  bp_remove b n = (b', None) -> name_idx n b = Some p ->
  forall k, k <> p -> let k' := if Nat.ltb k p then k else Nat.pred k in
    nth_error (funs b') k' = nth_error (funs b) k /\ nth_error (args b') k' = nth_error (args b) k /\
    nth_error (durs b') k' = nth_error (durs b) k /\ nth_error (sm1 b') k' = nth_error (sm1 b) k /\
    nth_error (sm2 b') k' = nth_error (sm2 b) k.
Proof. exact attached_remove. Qed.

(* non-vacuity: overlapping windows, one running past the end, one segment-bound with negative delay *)
Example C03_example :
  let b := mkBp [] [Framp; Framp] [[VNum 0; VNum 1]; [VNum 0; VNum 1]] [VNum (1 # 10); VNum (1 # 10)]
                [(0, 0); ((-2) # 100, 5 # 100)]%Q [(0, 0); (0, 0)]%Q [(3 # 100, 4 # 100); (5 # 100, 1)]%Q [] (VNum 100) in
  exists f, forge_bp_with b 100 (durs b) = Ok f /\
    fm1 f = repeat false 3 ++ repeat true 17 /\ fm2 f = repeat false 20.
Proof. exact markers_example. Qed.

Print Assumptions C03_paint_spec.
Print Assumptions C03_paint_length.
Print Assumptions C03_nearest_is_argmin.
Print Assumptions C03_nearest_round.
Print Assumptions C03_window.
Print Assumptions C03_windows.
Print Assumptions C03_segment_start.
Print Assumptions C03_seg_specs.
Print Assumptions C03_zero_length.
Print Assumptions C03_markers_do_not_touch_waveform.
Print Assumptions C03_channels_independent.
Print Assumptions C03_attached_insert.
Print Assumptions C03_attached_remove.
