(* C13 with the discrete Fourier transform itself (Numeric/DFT.v) in place of the abstract fft / ifft. *)
From Coq Require Import Reals ZArith String List.
From Coquelicot Require Import Coquelicot.
From BB Require Import Numeric.NumpyPrims Generated.RipassoGen Numeric.RipassoFacts Numeric.DFT.
Open Scope R_scope.

(* filter then compensation, and compensation then filter, restore every spectral component below Nyquist
   (HP: every one but DC, which bin_freq <> 0 excludes only for j = 0 - not in range here) *)
Theorem C13_round_trip_dft : forall n (x : nat -> R) SR kind f_cut order g j,
  SR <> 0 -> f_cut <> 0 -> (kind = "HP" \/ kind = "LP")%string -> (0 < j < n)%nat -> (2 * j <> n)%nat ->
  bin_freq SR n j <> 0 ->
  let y := applyRCFilter_gen dft idft n x SR kind f_cut order g in
  let z := applyInverseRCFilter_gen dft idft n y SR kind f_cut order g in
  let y' := applyInverseRCFilter_gen dft idft n x SR kind f_cut order g in
  let z' := applyRCFilter_gen dft idft n y' SR kind f_cut order g in
  dft n (fun k => RtoC (z k)) j = dft n (fun k => RtoC (x k)) j /\
  dft n (fun k => RtoC (z' k)) j = dft n (fun k => RtoC (x k)) j.
Proof. exact round_trip_spectrum_dft. Qed.

(* a real signal is determined by its spectrum: when all bins agree the samples agree *)
Theorem C13_spectrum_determines_signal : forall n (x z : nat -> R) m,
  (0 < n)%nat -> (m < n)%nat ->
  (forall j, (j < n)%nat -> dft n (fun k => RtoC (z k)) j = dft n (fun k => RtoC (x k)) j) ->
  z m = x m.
Proof. exact spectrum_determines_signal. Qed.

Print Assumptions C13_round_trip_dft.
Print Assumptions C13_spectrum_determines_signal.
