(* Reachability invariants for EVERY program of the op language, the three ops that read an object back from its
   JSON description (BFromJson, EFromJson, SFromJson) included: Props/Reach.v without the `Forall api_op prog`
   hypothesis.  Only statements; every proof is `exact <lemma>` into Proofs/ReachJsonFacts.v. *)
From Coq Require Import String List ZArith QArith Bool.
From BB Require Import Base.Names Base.Num Base.PyList Model.Types Model.Blueprint Model.Forge Model.Element
  Model.PyVal Model.Sequence Model.Descr Model.Output Model.Interp Proofs.BlueprintFacts Proofs.ReachFacts Proofs.MirrorFacts
  Proofs.ReachMirrorFacts Proofs.ReachJsonFacts.
Import ListNotations.

(* what the readers return for the description of a well-formed object is well-formed again *)
Theorem ReachAll_blueprint_from_json : forall b b',
  Inv b -> bp_from_descr (json_rt (bp_descr b)) = Ok b' -> Inv b'.
Proof. exact bp_from_json_inv. Qed.

Theorem ReachAll_element_from_json : forall x d x',
  el_inv x -> el_descr x = Ok d -> el_from_descr (json_rt d) = Ok x' -> el_inv x'.
Proof. exact el_from_json_inv. Qed.

Theorem ReachAll_sequence_from_json : forall x d x',
  seq_inv x -> seq_descr x = Ok d -> seq_from_descr (json_rt d) = Ok x' -> seq_inv x'.
Proof. exact seq_from_json_inv. Qed.

(* one step of any op, then any history *)
Theorem ReachAll_step : forall st o, store_ok st -> store_ok (fst (exec st o)).
Proof. exact store_ok_step_all. Qed.

Theorem ReachAll_all : forall prog st, store_ok st -> store_ok (final_store st prog).
Proof. exact store_ok_reachable_all. Qed.

(* every reachable blueprint, wherever it is stored, has equally long parallel lists and canonical, pairwise
   distinct names *)
Theorem ReachAll_blueprints_everywhere : forall prog r s p e c ch b,
  In (r, s) (sqs (final_store store0 prog)) ->
  In (p, EElem e) (sdata s) -> In (c, ch) (edata e) -> ckind ch = KBp b ->
  Inv b /\ NoDup (names b) /\ length (names b) = length (funs b).
Proof. exact reachable_blueprints_everywhere_all. Qed.

(* the dictionaries of a reachable sequence have distinct keys *)
Theorem ReachAll_sequence_keys : forall prog r s,
  In (r, s) (sqs (final_store store0 prog)) ->
  NoDup (akeys (sdata s)) /\ NoDup (akeys (sseq s)) /\ NoDup (akeys (sspecs s)).
Proof. exact reachable_sequence_keys_all. Qed.

(* for every sequence ANY program can build, with non-negative delays: whatever the output path prepares is exactly
   what forge reports (Reach_prepare_mirrors_forge without the restriction to programs that never read JSON back) *)
Theorem ReachAll_prepare_mirrors_forge : forall prog r s chans out,
  In (r, s) (sqs (final_store store0 prog)) ->
  delays_nonneg s -> prepare s = Ok (chans, out) ->
  exists sq, mapM (get_sq s) (range1 (length out)) = Ok sq /\ seq_forge s true true false = Ok (mirror_forge sq out).
Proof. exact reachable_prepare_mirrors_forge_all. Qed.

Print Assumptions ReachAll_blueprint_from_json.
Print Assumptions ReachAll_element_from_json.
Print Assumptions ReachAll_sequence_from_json.
Print Assumptions ReachAll_step.
Print Assumptions ReachAll_all.
Print Assumptions ReachAll_blueprints_everywhere.
Print Assumptions ReachAll_sequence_keys.
Print Assumptions ReachAll_prepare_mirrors_forge.
