(* C19 (continued) - element round trip.  Only statements; proofs in Proofs/RoundTripFacts.v. *)
From Coq Require Import String List ZArith QArith Bool.
From BB Require Import Base.Names Base.Num Base.PyList Model.Types Model.Blueprint Model.Forge Model.Element
  Model.PyVal Model.Sequence Model.Descr Proofs.BlueprintFacts Proofs.DescrFacts Proofs.RoundTripFacts.
Import ListNotations.

(* channel ids survive str(key) / int(key) *)
Theorem C19_channel_id_roundtrip : forall z, int_of_str (str_of_chan (CInt z)) = Ok z.
Proof. exact channel_id_roundtrip. Qed.

(* flags survive: stored integers 0..4 are written as a list and read back through addFlags unchanged *)
Theorem C19_flags_roundtrip : forall e c ch l,
  el_lookup e c = Some ch -> length l = 4%nat -> Forall (fun z => (0 <= z <= 4)%Z) l ->
  exists vs, flags_of_pv (json_rt (PList (map PInt l))) = Ok vs /\
             el_add_flags e c vs = (el_set e c (mkCh (ckind ch) (Some l)), None).
Proof. exact flags_roundtrip. Qed.

(* the element read back from its own description has the same channels in the same order, the same blueprints
   (names, functions, arguments, durations, markers of both kinds) and the same flags *)
Theorem C19_element_roundtrip : forall e d,
  el_json_ok e -> el_descr e = Ok d ->
  el_from_descr (json_rt d) = Ok (mkEl (map strip_sr_entry (edata e))).
Proof. exact element_roundtrip. Qed.

(* hence it compares equal to the original and has the same description *)
Theorem C19_element_roundtrip_observations : forall e d e',
  el_json_ok e -> el_descr e = Ok d -> el_from_descr (json_rt d) = Ok e' ->
  el_eqb e e' = Ok true /\ el_descr e' = Ok d.
Proof. exact element_roundtrip_observations. Qed.

Print Assumptions C19_channel_id_roundtrip.
Print Assumptions C19_flags_roundtrip.
Print Assumptions C19_element_roundtrip.
Print Assumptions C19_element_roundtrip_observations.
