(* C14 (numeric part) - the AWG5014 normalisation maps the channel range onto [-1, 1]; the raise conditions of
   both back ends are pinned to the source text.  Statements about Generated/OutputGuardsGen.v. *)
From Coq Require Import Reals ZArith String List.
From BB Require Import Numeric.NumpyPrims Generated.OutputGuardsGen Numeric.Rescale.
Import ListNotations.
Open Scope R_scope.

Theorem C14_rescale_spec : forall v ampl off, ampl <> 0 -> rescaler_gen v ampl off = (v - off) / (ampl / 2).
Proof. exact rescale_spec. Qed.

Theorem C14_rescale_in_range : forall v ampl off,
  ampl > 0 -> off - ampl / 2 <= v <= off + ampl / 2 -> -1 <= rescaler_gen v ampl off <= 1.
Proof. exact rescale_in_range. Qed.

Theorem C14_rescale_edges : forall ampl off, ampl > 0 ->
  rescaler_gen (off + ampl / 2) ampl off = 1 /\ rescaler_gen (off - ampl / 2) ampl off = -1 /\
  rescaler_gen off ampl off = 0.
Proof. exact rescale_edges. Qed.

(* outside the range the normalised value leaves [-1, 1]: nothing is clipped or wrapped *)
Theorem C14_rescale_outside : forall v ampl off,
  ampl > 0 -> (v > off + ampl / 2 -> rescaler_gen v ampl off > 1) /\ (v < off - ampl / 2 -> rescaler_gen v ampl off < -1).
Proof. exact rescale_outside. Qed.

(* the conditions under which the two back ends raise, in source order, with their exception classes *)
Theorem C14_awg_raise_conditions :
  outputForAWGFile_raise_conditions =
  [("offkey not in self._awgspecs.keys()", "ValueError");
   ("wfm.max() > ampl / 2 + off", "ValueError"); ("wfm.min() < -ampl / 2 + off", "ValueError");
   ("twait not in [0, 1]", "SequencingError"); ("nrep not in range(0, 65537)", "SequencingError");
   ("jump_to not in range(-1, seqlen + 1)", "SequencingError"); ("goto not in range(0, seqlen + 1)", "SequencingError")]%string.
Proof. exact awg_raise_conditions. Qed.

Theorem C15_seqx_raise_conditions :
  outputForSEQXFile_raise_conditions =
  [("len(wfm) < 2400", "ValueError"); ("wfm.max() > ampl / 2", "ValueError"); ("wfm.min() < -ampl / 2", "ValueError");
   ("twait not in [0, 1, 2, 3]", "SequencingError"); ("jump_state not in [0, 1, 2, 3]", "SequencingError");
   ("nrep not in range(0, 16384)", "SequencingError"); ("jump_to not in range(-1, seqlen + 1)", "SequencingError");
   ("goto not in range(0, seqlen + 1)", "SequencingError")]%string.
Proof. exact seqx_raise_conditions. Qed.

Print Assumptions C14_rescale_spec.
Print Assumptions C14_rescale_in_range.
Print Assumptions C14_rescale_edges.
Print Assumptions C14_rescale_outside.
Print Assumptions C14_awg_raise_conditions.
Print Assumptions C15_seqx_raise_conditions.

(* ---- the numeric limits of the hand model's sequencing guards are the ones the source states ---- *)
From Coq Require Import Bool.
From BB Require Import Model.Types Model.Sequence Model.Output Numeric.GuardConstants.
Open Scope bool_scope.

Theorem C14_awg_seq_ok_source : forall n q,
  awg_seq_ok n q =
  in_list outputForAWGFile_twait_allowed (twait q)
  && in_pair (outputForAWGFile_nrep_range n) (nrep q)
  && in_pair (outputForAWGFile_jump_to_range n) (jump_target q)
  && in_pair (outputForAWGFile_goto_range n) (goto q).
Proof. exact awg_seq_ok_source. Qed.
Print Assumptions C14_awg_seq_ok_source.

Theorem C15_seqx_seq_ok_source : forall n q,
  seqx_seq_ok n q =
  in_list outputForSEQXFile_twait_allowed (twait q)
  && in_list outputForSEQXFile_jump_state_allowed (jump_input q)
  && in_pair (outputForSEQXFile_nrep_range n) (nrep q)
  && in_pair (outputForSEQXFile_jump_to_range n) (jump_target q)
  && in_pair (outputForSEQXFile_goto_range n) (goto q).
Proof. exact seqx_seq_ok_source. Qed.
Print Assumptions C15_seqx_seq_ok_source.

Theorem C15_seqx_min_points_source : seqx_min_points = outputForSEQXFile_min_points.
Proof. exact seqx_min_points_source. Qed.
Print Assumptions C15_seqx_min_points_source.
