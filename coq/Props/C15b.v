(* C14/C15 (continued) - both output packages mirror the forged sequence.
   Sequence._prepareForOutputting (model: prepare), used by outputForAWGFile and outputForSEQXFile, and
   Sequence.forge (model: seq_forge) are two independent implementations of "apply the channel delays, forge every
   element, apply the filter compensation".  Whenever the output path succeeds, the forge path succeeds and reports
   exactly the prepared content; each back end delivers that content (the AWG5014 one normalised).
   Only statements; proofs in Proofs/MirrorFacts.v, where the definitions used here are:
     elems_nodup s        - no element lists a channel id twice (true of every Python dict; part of seq_inv of
                            Proofs/ReachFacts.v, hence of every state reachable through the API);
     delays_nonneg s      - no channel delay among the settings is negative;
     prep_pv p            - (channel id, {"wfm": PPlan (pplan p), "m1", "m2", [flags]}) of a prepared channel p,
                            i.e. (pv_of_chan (pchan p), pv_of_chout (pout p) (pplan p));
     row_pv row           - PDict (map prep_pv row): the "data" dictionary of one position;
     mirror_forge sq out  - the forge result written from the prepared rows: position k (1-based) maps to
                            {"sequencing": sq[k], "type": "element", "content": {1: {"data": row_pv out[k]}}};
     forge_data fo k      - fo[k]["content"][1]["data"];   forge_lookup fo k c name - ...[c][name];
     chout_flags o        - the flags entry of the SEQX package: the stored flags, [0,0,0,0] without.
   Both hypotheses are needed: each has a computed counterexample below; the one for delays_nonneg is reachable
   through the public API (a real difference between the two implementations).  Nothing is assumed about sample
   rates: both paths pad raw arrays at the rate stored with the arrays, which validateDurations (run by
   checkConsistency on every element) makes equal (Python ==) to the element's rate the forge path uses. *)
From Coq Require Import String List ZArith QArith Bool Permutation.
From BB Require Import Base.Names Base.Num Base.PyList Model.Types Model.Blueprint Model.Forge Model.Element
  Model.PyVal Model.Sequence Model.Output Model.Interp Proofs.OutputFacts Proofs.MirrorFacts.
Import ListNotations.

(* _prepareForOutputting rejects subsequences: when it succeeds every entry is an element *)
Theorem C15b_prepare_only_elements : forall s chans out p x,
  prepare s = Ok (chans, out) -> In (p, x) (sdata s) -> exists e, x = EElem e.
Proof. exact prepare_only_elements. Qed.

Theorem C15b_prepare_length : forall s chans out, prepare s = Ok (chans, out) -> length out = length (sdata s).
Proof. exact prepare_length. Qed.

(* (A) the whole forge result is the prepared content: same positions, per position the same channels in the same
   order with the same forged arrays, markers, flags and final waveform plan (including the WFilt wrapping).
   No hypothesis on the numeric form of the delays: two delays that are equal as rationals but written differently
   (1/2, 2/4) may make the two paths pick differently written maxima; the forged content is still identical. *)
Theorem C15b_prepare_mirrors_forge : forall s chans out,
  elems_nodup s -> delays_nonneg s ->
  prepare s = Ok (chans, out) ->
  exists sq, mapM (get_sq s) (range1 (length out)) = Ok sq /\
    seq_forge s true true false = Ok (mirror_forge sq out).
Proof. exact prepare_mirrors_forge. Qed.

(* ... read position by position: the "data" dictionary of position k+1 is the k-th prepared row, whose channels
   are the sequence's channels up to order *)
Theorem C15b_prepare_mirrors_forge_data : forall s chans out,
  elems_nodup s -> delays_nonneg s ->
  prepare s = Ok (chans, out) ->
  exists fo, seq_forge s true true false = Ok fo /\
    forall k row, nth_error out k = Some row ->
      forge_data fo (Z.of_nat k + 1) = Some (row_pv row) /\ Permutation (map pchan row) chans.
Proof. exact prepare_mirrors_forge_data. Qed.

(* reading one channel of one position out of the mirrored forge result *)
Theorem C15b_mirror_forge_lookup : forall sq out k row c pc w0 m1 m2,
  length sq = length out -> nth_error out k = Some row -> prep_find row c = Ok pc ->
  chout_plan (pout pc) = Ok w0 ->
  chout_marker (pout pc) (S_ "m1") = Ok m1 -> chout_marker (pout pc) (S_ "m2") = Ok m2 ->
  forge_lookup (mirror_forge sq out) (Z.of_nat k + 1) c "wfm" = Some (PPlan (pplan pc)) /\
  forge_lookup (mirror_forge sq out) (Z.of_nat k + 1) c "m1" = Some m1 /\
  forge_lookup (mirror_forge sq out) (Z.of_nat k + 1) c "m2" = Some m2.
Proof. exact mirror_forge_lookup. Qed.

(* rows per position become lists per channel *)
Theorem C15b_transpose_entry : forall (A B : Type) (g : A -> B) nc (rows : list (list A)) i k row a,
  (forall r, In r rows -> length r = nc) -> nth_error rows k = Some row -> nth_error row i = Some a ->
  exists col, nth_error (transpose nc (map (map g) rows)) i = Some col /\ nth_error col k = Some (g a).
Proof. exact @transpose_entry. Qed.

(* (B) the AWG5014 package: the channel list, and for channel i (= c) and position k the normalised final plan of
   the prepared channel and its two markers *)
Theorem C15b_awg_package_content : forall s ranges p chans out,
  output_awg s = Ok (ranges, Ok p) -> prepare s = Ok (chans, out) ->
  a_channels p = chans /\
  forall i k c row, nth_error chans i = Some c -> nth_error out k = Some row ->
    exists pc ampl off m1 m2 cw c1 c2,
      prep_find row c = Ok pc /\
      spec_num s (key_amp c) EKey = Ok ampl /\ spec_num s (key_off c) EKey = Ok off /\
      chout_marker (pout pc) (S_ "m1") = Ok m1 /\ chout_marker (pout pc) (S_ "m2") = Ok m2 /\
      nth_error (a_wfms p) i = Some cw /\ nth_error cw k = Some (PPlan (WScale ampl off (pplan pc))) /\
      nth_error (a_m1s p) i = Some c1 /\ nth_error c1 k = Some m1 /\
      nth_error (a_m2s p) i = Some c2 /\ nth_error c2 k = Some m2.
Proof. exact awg_package_content. Qed.

(* (C) the SEQX package: entry 5 holds, per channel and position, [final plan, m1, m2] of the prepared channel;
   the WithFlags variant appends entry 8 with the flags per channel and position *)
Theorem C15b_seqx_package_content : forall s fl ranges l chans out,
  output_seqx s fl = guarded ranges (PTuple l) -> prepare s = Ok (chans, out) ->
  (exists wfl, nth_error l 5 = Some (PList (map PList wfl)) /\
     forall i k c row, nth_error chans i = Some c -> nth_error out k = Some row ->
       exists pc m1 m2 col,
         prep_find row c = Ok pc /\
         chout_marker (pout pc) (S_ "m1") = Ok m1 /\ chout_marker (pout pc) (S_ "m2") = Ok m2 /\
         nth_error wfl i = Some col /\ nth_error col k = Some (PList [PPlan (pplan pc); m1; m2])) /\
  (fl = true ->
   exists fll, nth_error l 8 = Some (PList (map PList fll)) /\
     forall i k c row, nth_error chans i = Some c -> nth_error out k = Some row ->
       exists pc col, prep_find row c = Ok pc /\ nth_error fll i = Some col /\
                      nth_error col k = Some (chout_flags (pout pc))).
Proof. exact seqx_package_content. Qed.

(* (D) what either back end delivers for channel c at position k+1 is what Sequence.forge reports there: the final
   plan (for the AWG5014: normalised with the channel's amplitude and offset) and the two forged markers *)
Theorem C15b_awg_mirrors_forge : forall s ranges p chans out,
  elems_nodup s -> delays_nonneg s ->
  output_awg s = Ok (ranges, Ok p) -> prepare s = Ok (chans, out) ->
  exists fo, seq_forge s true true false = Ok fo /\ a_channels p = chans /\
    forall i k c, nth_error chans i = Some c -> (k < length out)%nat ->
      exists w m1 m2 ampl off cw c1 c2,
        forge_lookup fo (Z.of_nat k + 1) c "wfm" = Some (PPlan w) /\
        forge_lookup fo (Z.of_nat k + 1) c "m1" = Some m1 /\
        forge_lookup fo (Z.of_nat k + 1) c "m2" = Some m2 /\
        spec_num s (key_amp c) EKey = Ok ampl /\ spec_num s (key_off c) EKey = Ok off /\
        nth_error (a_wfms p) i = Some cw /\ nth_error cw k = Some (PPlan (WScale ampl off w)) /\
        nth_error (a_m1s p) i = Some c1 /\ nth_error c1 k = Some m1 /\
        nth_error (a_m2s p) i = Some c2 /\ nth_error c2 k = Some m2.
Proof. exact awg_mirrors_forge. Qed.

Theorem C15b_seqx_mirrors_forge : forall s fl ranges l chans out,
  elems_nodup s -> delays_nonneg s ->
  output_seqx s fl = guarded ranges (PTuple l) -> prepare s = Ok (chans, out) ->
  exists fo wfl, seq_forge s true true false = Ok fo /\ nth_error l 5 = Some (PList (map PList wfl)) /\
    forall i k c, nth_error chans i = Some c -> (k < length out)%nat ->
      exists w m1 m2 col,
        forge_lookup fo (Z.of_nat k + 1) c "wfm" = Some (PPlan w) /\
        forge_lookup fo (Z.of_nat k + 1) c "m1" = Some m1 /\
        forge_lookup fo (Z.of_nat k + 1) c "m2" = Some m2 /\
        nth_error wfl i = Some col /\ nth_error col k = Some (PList [PPlan w; m1; m2]).
Proof. exact seqx_mirrors_forge. Qed.

(* ---- why the hypotheses: the two implementations really differ outside them ---- *)

(* delays_nonneg.  neg_seq is reached by neg_prog (no call raises): one element, channels 1 and 2 with the same
   0.1 s ramp, setChannelDelay(2, -0.03).  Element._applyDelays raises ValueError("Negative delays not allowed"),
   so forge fails; _prepareForOutputting has no such check, and outputForAWGFile delivers channel 1 with 10 points
   and channel 2 with 13. *)
Example C15b_negative_delay_discrepancy :
  run neg_prog = map (fun _ => PNone) neg_prog /\
  elems_nodup neg_seq /\ ~ delays_nonneg neg_seq /\
  is_ok (prepare neg_seq) = true /\
  (exists ranges p, output_awg neg_seq = Ok (ranges, Ok p) /\
     a_wfms p = [[PPlan (WScale 1 0 (WBlocks [mkBlock Framp [VNum 0; VNum 1] 100 10]))];
                 [PPlan (WScale 1 0 (WBlocks [mkBlock Framp [VNum 0; VNum 1] 100 10;
                                              mkBlock Framp [VNum 0; VNum 0] 100 3]))]]) /\
  seq_forge neg_seq true true false = Err EValue.
Proof. exact negative_delay_discrepancy. Qed.

(* no hypothesis on sample rates.  arr_seq is reached by arr_prog (no call raises): one element with two raw-array
   channels recorded at SR = 50, in a sequence whose SR setting is 100 (checkConsistency compares the elements with
   each other, not with the sequence), setChannelDelay(2, 0.03).  Both paths pad with round(0.03 * 50) = 2 zeros -
   the rate stored with the arrays - and the equality of (A) holds by computation.  (Before the repair of
   _prepareForOutputting the output path padded with round(0.03 * 100) = 3 zeros.) *)
Example C15b_array_rate_agreement :
  run arr_prog = map (fun _ => PNone) arr_prog /\
  elems_nodup arr_seq /\ delays_nonneg arr_seq /\
  seq_SR arr_seq = VNum 100 /\
  (exists e, alookup Z.eqb 1 (sdata arr_seq) = Some (EElem e) /\ el_sr e = Ok (VNum 50)) /\
  exists out sq,
    prepare arr_seq = Ok ([CInt 1; CInt 2], out) /\ mapM (get_sq arr_seq) (range1 1) = Ok sq /\
    seq_forge arr_seq true true false = Ok (mirror_forge sq out) /\
    map (map pplan) out = [[WRle (padded 0 1 10 2); WRle (padded 2 2 10 0)]] /\
    forge_lookup (mirror_forge sq out) 1 (CInt 1) "wfm" = Some (PPlan (WRle (padded 0 1 10 2))) /\
    forge_lookup (mirror_forge sq out) 1 (CInt 2) "wfm" = Some (PPlan (WRle (padded 2 2 10 0))).
Proof. exact array_rate_agreement. Qed.

(* elems_nodup.  A modelling condition only: dup_seq is written down directly with the channel id 1 twice in one
   element, which no Python dict can hold; the output path then delays the first entry only, the forge path both. *)
Example C15b_duplicate_channel_counterexample :
  delays_nonneg dup_seq /\ ~ elems_nodup dup_seq /\
  exists out sq fo,
    prepare dup_seq = Ok ([CInt 1; CInt 1], out) /\ mapM (get_sq dup_seq) (range1 1) = Ok sq /\
    seq_forge dup_seq true true false = Ok fo /\ fo <> mirror_forge sq out.
Proof. exact duplicate_channel_discrepancy. Qed.

(* ---- non-vacuity ---- *)
(* mir_seq is sequence register 0 after running mir_prog through the op-language interpreter (no call raises):
   blueprint 0 = ramp + sine with a segment-bound marker 1 and an absolute marker 2, blueprint 1 = ramp + gaussian,
   both 0.3 s at SR = 100; element 0 adds channel 1 (blueprint 0, with flags) then channel 2 (blueprint 1), element 1
   adds channel 2 (blueprint 0) then channel 1 (blueprint 1); SR, amplitudes, offsets, a delay of 0.03 s = 3 samples
   on channel 2, a first-order high-pass compensation on channel 1; positions 1 and 2.
   The hypotheses hold, both paths succeed - computed - and the equality of (A) holds by computation. *)
Example C15b_example :
  run mir_prog = map (fun _ => PNone) mir_prog /\
  elems_nodup mir_seq /\ delays_nonneg mir_seq /\
  exists out sq,
    prepare mir_seq = Ok ([CInt 1; CInt 2], out) /\
    map (map pchan) out = [[CInt 1; CInt 2]; [CInt 2; CInt 1]] /\
    mapM (get_sq mir_seq) (range1 2) = Ok sq /\
    seq_forge mir_seq true true false = Ok (mirror_forge sq out) /\
    map (fun row => map (fun p => match pout p with OForged f _ _ _ => map bn (fblocks f) | _ => [] end) row) out
      = [[[10; 20; 3]; [3; 10; 20]]; [[3; 10; 20]; [10; 20; 3]]]%Z /\
    map (fun row => map (fun p => match pplan p with WFilt _ _ _ _ _ => true | _ => false end) row) out
      = [[true; false]; [false; true]] /\
    (exists ranges p, output_awg mir_seq = Ok (ranges, Ok p) /\ a_channels p = [CInt 1; CInt 2] /\
                      map (@length pv) (a_wfms p) = [2; 2]%nat).
Proof. exact mirror_example. Qed.

Print Assumptions C15b_prepare_only_elements.
Print Assumptions C15b_prepare_length.
Print Assumptions C15b_prepare_mirrors_forge.
Print Assumptions C15b_prepare_mirrors_forge_data.
Print Assumptions C15b_mirror_forge_lookup.
Print Assumptions C15b_transpose_entry.
Print Assumptions C15b_awg_package_content.
Print Assumptions C15b_seqx_package_content.
Print Assumptions C15b_awg_mirrors_forge.
Print Assumptions C15b_seqx_mirrors_forge.
Print Assumptions C15b_negative_delay_discrepancy.
Print Assumptions C15b_array_rate_agreement.
Print Assumptions C15b_duplicate_channel_counterexample.
Print Assumptions C15b_example.
