(* C13 - filter compensation inverts the filter it is declared for.
   Statements about the GENERATED transfer functions; proofs in Numeric/RipassoFacts.v. *)
From Coq Require Import Reals ZArith String.
From Coquelicot Require Import Coquelicot.
From BB Require Import Numeric.NumpyPrims Generated.RipassoGen Numeric.RipassoFacts.
Open Scope R_scope.

(* filter then compensation (or the other way round) multiplies a bin by exactly 1: every low-pass bin, every
   high-pass bin away from DC, and the DC bin whenever the filter was given a non-zero DC gain *)
Theorem C13_lowpass_cancels : forall SR n f_cut order g g' j,
  f_cut <> 0 ->
  Cmult (_rcFilter_gen SR n f_cut "LP" order g j) (_rcFilter_gen SR n f_cut "LP" (- order) g' j) = RtoC 1.
Proof. exact lowpass_cancels. Qed.

Theorem C13_highpass_cancels : forall SR n f_cut order g g' j,
  f_cut <> 0 -> bin_freq SR n j <> 0 ->
  Cmult (_rcFilter_gen SR n f_cut "HP" order g j) (_rcFilter_gen SR n f_cut "HP" (- order) g' j) = RtoC 1.
Proof. exact highpass_cancels. Qed.

Theorem C13_highpass_dc_cancels : forall SR n f_cut order g j,
  g <> 0 -> bin_freq SR n j = 0 ->
  Cmult (_rcFilter_gen SR n f_cut "HP" order g j) (_rcFilter_gen SR n f_cut "HP" (- order) g j) = RtoC 1.
Proof. exact highpass_dc_cancels. Qed.

(* with the default DC gain 0 on the filter side only the DC bin is lost: the round trip differs from the
   input by a constant offset *)
Theorem C13_highpass_dc_lost : forall SR n f_cut order j,
  (0 < order)%Z -> bin_freq SR n j = 0 -> _rcFilter_gen SR n f_cut "HP" order 0 j = RtoC 0.
Proof. exact highpass_dc_lost. Qed.

(* orders compose additively, and order -n is the compensation of order n *)
Theorem C13_orders_add : forall SR n f_cut kind g j a b,
  _rcFilter_gen SR n f_cut kind 1 g j <> RtoC 0 ->
  Cmult (_rcFilter_gen SR n f_cut kind a g j) (_rcFilter_gen SR n f_cut kind b g j) =
  _rcFilter_gen SR n f_cut kind (a + b) g j.
Proof. exact orders_add. Qed.

Theorem C13_first_order_nonzero : forall SR n f_cut g j,
  f_cut <> 0 ->
  _rcFilter_gen SR n f_cut "LP" 1 g j <> RtoC 0 /\
  (bin_freq SR n j <> 0 \/ g <> 0 -> _rcFilter_gen SR n f_cut "HP" 1 g j <> RtoC 0).
Proof. exact first_order_nonzero. Qed.

(* lifted to signals: below Nyquist the compensated-then-filtered (or filtered-then-compensated) signal has
   the spectrum of the original *)
Theorem C13_round_trip_spectrum : forall fft ifft n (x : nat -> R) SR kind f_cut order g j,
  fft_inverse fft ifft n -> fft_real_part fft n -> fft_real_hermitian fft n ->
  SR <> 0 -> f_cut <> 0 -> (kind = "HP" \/ kind = "LP")%string -> (0 < j < n)%nat -> (2 * j <> n)%nat ->
  bin_freq SR n j <> 0 ->
  let y := applyRCFilter_gen fft ifft n x SR kind f_cut order g in
  let z := applyInverseRCFilter_gen fft ifft n y SR kind f_cut order g in
  let y' := applyInverseRCFilter_gen fft ifft n x SR kind f_cut order g in
  let z' := applyRCFilter_gen fft ifft n y' SR kind f_cut order g in
  fft n (fun k => RtoC (z k)) j = fft n (fun k => RtoC (x k)) j /\
  fft n (fun k => RtoC (z' k)) j = fft n (fun k => RtoC (x k)) j.
Proof. exact round_trip_spectrum. Qed.

(* a custom transfer function applied with invert=True undoes the same function applied without it *)
Theorem C13_custom_inverse : forall t : R, t <> 0 -> Rpowz t 1 * Rpowz t (-1) = 1.
Proof. exact custom_inverse. Qed.

Print Assumptions C13_lowpass_cancels.
Print Assumptions C13_highpass_cancels.
Print Assumptions C13_highpass_dc_cancels.
Print Assumptions C13_highpass_dc_lost.
Print Assumptions C13_orders_add.
Print Assumptions C13_first_order_nonzero.
Print Assumptions C13_round_trip_spectrum.
Print Assumptions C13_custom_inverse.
