(* C02, last sentence - "a user-supplied shape following the (args..., SR, npts) convention is called once per forge
   with exactly the segment's stored arguments, the blueprint's sample rate and the segment's integer sample count":
   the hand-model part (the call log is an observation of the op language, compared with the implementation's real
   call log on every run).  Statements only; proofs in Proofs/CallFacts.v. *)
From Coq Require Import List ZArith QArith Bool.
From BB Require Import Base.Num Model.Types Model.Blueprint Model.Forge Model.PyVal Model.Interp Proofs.CallFacts.
Import ListNotations.

Theorem C02_user_calls : forall b SR ds f,
  forge_bp_with b SR ds = Ok f ->
  length (args b) = length (funs b) -> length ds = length (funs b) ->
  let calls := filter (fun k => is_user_fn (bfn k)) (fblocks f) in
  map (fun k => (bfn k, bargs k)) calls = user_segments (funs b) (args b) /\
  Forall (fun k => bsr k = SR /\ (2 <= bn k)%Z) calls /\
  (forall k, In k calls -> In k (fblocks f) /\ is_user_fn (bfn k) = true).
Proof. exact user_calls. Qed.

Theorem C02_user_calls_repeatable : forall b SR ds f f',
  forge_bp_with b SR ds = Ok f -> forge_bp_with b SR ds = Ok f' ->
  filter (fun k => is_user_fn (bfn k)) (fblocks f) = filter (fun k => is_user_fn (bfn k)) (fblocks f').
Proof. exact user_calls_repeatable. Qed.

(* non-vacuity: a pulse train - the same user shape with equal arguments and equal length twice - gives two calls *)
Example C02_pulse_train :
  user_segments [Fua; Framp; Fua] [[VNum 1]; [VNum 0; VNum 0]; [VNum 1]] = [(Fua, [VNum 1]); (Fua, [VNum 1])].
Proof. reflexivity. Qed.

Print Assumptions C02_user_calls.
Print Assumptions C02_user_calls_repeatable.
