(* C19 - description / JSON round trip loses nothing that affects output.
   Only statements; every proof is `exact <lemma>` into Proofs/DescrFacts.v.
   Partial: the blueprint round trip is proved in full; elements and sequences are covered by the decoding lemmas
   below plus the correspondence check (their readers go through the blueprint reader channel by channel). *)
From Coq Require Import String List ZArith QArith Bool.
From BB Require Import Base.Names Base.Num Base.PyList Model.Types Model.Blueprint Model.Forge Model.Element
  Model.PyVal Model.Sequence Model.Descr Proofs.BlueprintFacts Proofs.DescrFacts.
Import ListNotations.

(* the description is always JSON-serialisable, and what json.load gives back contains no tuples *)
Theorem C19_serialisable : forall b, serialisable (bp_descr b) = true /\ json_value (json_rt (bp_descr b)) = true.
Proof. exact bp_descr_serialisable. Qed.

(* it lists every segment, in order, under the keys segment_01, segment_02, ... followed by the four marker lists *)
Theorem C19_lists_every_segment : forall b, Inv b ->
  exists segs, bp_descr b = PDict (segs ++ [(pstr "marker1_abs", PList (map pv_of_mspec (am1 b)));
                                            (pstr "marker2_abs", PList (map pv_of_mspec (am2 b)));
                                            (pstr "marker1_rel", PList (map pv_of_mspec (sm1 b)));
                                            (pstr "marker2_rel", PList (map pv_of_mspec (sm2 b)))]) /\
    length segs = length (names b) /\
    forall k n, nth_error (names b) k = Some n ->
      exists v, nth_error segs k = Some (PStr (seg_key (Z.of_nat k + 1)), v) /\ pd_get "name" v = Ok (PStr n).
Proof. exact descr_lists_every_segment. Qed.

(* round trip: reading back what was written yields the same blueprint - every name (digits inside names
   included), function, argument, duration, absolute and segment-bound marker - with no sample rate set *)
Theorem C19_blueprint_roundtrip : forall b,
  bp_json_ok b -> bp_from_descr (json_rt (bp_descr b)) = Ok (set_sr b VNone).
Proof. exact bp_roundtrip. Qed.

(* hence it compares equal to the original, has the same description, and forges identically once given the
   same sample rate *)
Theorem C19_roundtrip_observations : forall b b' s,
  bp_json_ok b -> bp_from_descr (json_rt (bp_descr b)) = Ok b' ->
  bp_eqb b b' = true /\ bp_descr b' = bp_descr b /\ forge_bp (set_sr b' s) = forge_bp (set_sr b s).
Proof. exact roundtrip_observations. Qed.

(* decoding of the leaves: numbers, marker tuples (lists after JSON) and flags survive unchanged *)
Theorem C19_leaves : forall (v : val) (m : mspec) (fl : list Z),
  val_of_pv (json_rt (pv_of_val v)) = Ok v /\
  mspec_of_pv (json_rt (pv_of_mspec m)) = Ok m /\
  (Forall (fun z => (0 <= z <= 4)%Z) fl ->
   exists vs, flags_of_pv (json_rt (PList (map PInt fl))) = Ok vs /\ map flag_int vs = map Some fl).
Proof. exact leaves_roundtrip. Qed.

(* sequencing entries and AWG settings (delays and filter compensations included) decode to what was stored *)
Theorem C19_settings_roundtrip : forall v : specval,
  (match v with SVal (VStr _) => False | _ => True end) ->
  specval_of_pv (json_rt (pv_of_specval v)) = Ok v.
Proof. exact settings_roundtrip. Qed.

Theorem C19_sequencing_roundtrip : forall q,
  let d := json_rt (sqing_descr q) in
  exists a b c e f, pd_get "Wait trigger" d = Ok (PInt a) /\ pd_get "Repeat" d = Ok (PInt b) /\
    pd_get "jump_input" d = Ok (PInt c) /\ pd_get "jump_target" d = Ok (PInt e) /\ pd_get "Go to" d = Ok (PInt f) /\
    q = mkSq a b c e f.
Proof. exact sequencing_roundtrip. Qed.

(* non-vacuity: a blueprint with a digit inside a name, a waituntil and both kinds of marker round-trips *)
Example C19_example :
  let b := mkBp [S_ "pi2pulse"; S_ "wait"; S_ "pi2pulse2"] [Fsine; Fwait; Fgauss]
                [[VNum 1; VNum 2; VNum 0; VNum 0]; [VNum (3 # 10)]; [VNum 1; VNum (1 # 100); VNum 0; VNum 0]]
                [VNum (1 # 10); VNone; VNum (1 # 10)] [(0, 0); (0, 0); (1 # 100, 2 # 100)]%Q [(0, 0); (0, 0); (0, 0)]%Q
                [(0, 5 # 100)]%Q [] (VNum 100) in
  bp_json_ok b /\ bp_from_descr (json_rt (bp_descr b)) = Ok (set_sr b VNone).
Proof. exact roundtrip_example. Qed.

Print Assumptions C19_serialisable.
Print Assumptions C19_lists_every_segment.
Print Assumptions C19_blueprint_roundtrip.
Print Assumptions C19_roundtrip_observations.
Print Assumptions C19_leaves.
Print Assumptions C19_settings_roundtrip.
Print Assumptions C19_sequencing_roundtrip.
