(* C19 - placeholder until Proofs/DescrFacts.v lands. *)
From Coq Require Import List.
From BB Require Import Base.Names.
Theorem C19_placeholder : forall l, NoDup (uniquify l).
Proof. exact uniquify_NoDup. Qed.
Print Assumptions C19_placeholder.
