(* C17 - placeholder until Proofs/ToolsFacts.v lands. *)
From Coq Require Import List.
From BB Require Import Base.Names.
Theorem C17_placeholder : forall l, NoDup (uniquify l).
Proof. exact uniquify_NoDup. Qed.
Print Assumptions C17_placeholder.
