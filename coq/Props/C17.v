(* C17 - parameter sweeps change exactly the addressed values, step by step.
   Only statements; every proof is `exact <lemma>` into Proofs/ToolsFacts.v. *)
From Coq Require Import String List ZArith QArith Qabs Bool.
From BB Require Import Base.Names Base.Num Base.PyList Model.Types Model.Blueprint Model.Forge Model.Element
  Model.PyVal Model.Sequence Model.Tools Proofs.ToolsFacts.
Import ListNotations.

(* one variation step is the name-addressed edit of C05 on that channel's blueprint - 'duration' selects
   changeDuration, anything else changeArg - so by C05's frame theorems nothing else changes *)
Theorem C17_step_is_edit : forall e c n a v,
  el_vary e c n a v = (if is_duration a then el_change_dur e c n v false else el_change_arg e c n a v false).
Proof. exact step_is_edit. Qed.

(* makeVaryingSequence: M positions 1..M at the base element's sample rate, consistent, position m+1 being the base
   element with the m-th value of every variation applied (in the order given: for the same address the last wins) *)
Theorem C17_make_varying : forall base cs ns ars its s it0,
  make_varying base cs ns ars its = Ok s -> hd_error its = Some it0 ->
  let vs := combine cs (combine ns (combine ars its)) in
  length (sdata s) = length it0 /\
  seq_check s = Ok true /\
  (exists SR, el_sr base = Ok SR /\ seq_SR s = SR) /\
  forall m, (m < length it0)%nat ->
    exists e, alookup Z.eqb (Z.of_nat m + 1) (sdata s) = Some (EElem e) /\ apply_steps base vs m = Ok e.
Proof. exact make_varying_spec. Qed.

(* mismatched list lengths are rejected with ValueError (after the base element validated) *)
Theorem C17_length_mismatch : forall base cs ns ars its,
  (exists r, el_validate base = Ok r) ->
  (~ (length cs = length ns /\ length ns = length ars /\ length ars = length its) \/
   (exists a b, In a its /\ In b its /\ length a <> length b)) ->
  make_varying base cs ns ars its = Err EValue.
Proof. exact varying_length_mismatch. Qed.

Theorem C17_repeat_length_mismatch : forall sq ps cs ns ars its,
  seq_check sq = Ok true ->
  ~ (length ps = length cs /\ length cs = length ns /\ length ns = length ars /\ length ars = length its) ->
  repeat_and_vary sq ps cs ns ars its = Err EValue.
Proof. exact repeat_length_mismatch. Qed.

(* repeatAndVarySequence: the concatenation over m of copies of seq with the m-th values applied, starting from an
   empty sequence carrying seq's AWG settings *)
Theorem C17_repeat : forall sq ps cs ns ars its r it0,
  repeat_and_vary sq ps cs ns ars its = Ok r -> hd_error its = Some it0 ->
  let vars := map (fun x : Z * (chan * (str * (argref * list val))) =>
                     let '(p, (c, (n, (a, vs)))) := x in mkVar p c n a vs)
                  (combine ps (combine cs (combine ns (combine ars its)))) in
  exists steps, mapM (apply_variations sq vars) (List.seq 0 (length it0)) = Ok steps /\
    fold_left (fun acc t => match acc with Ok x => seq_add x t | Err e => Err e end) steps
              (Ok (mkSeq [] [] (sspecs sq) [])) = Ok r.
Proof. exact repeat_spec. Qed.

(* makeLinearlyVaryingSequence: round(|stop-start|/step)+1 equidistant values from start to stop inclusive *)
Theorem C17_linspace : forall start stop n,
  (2 <= n)%Z ->
  length (linspace start stop n) = Z.to_nat n /\
  (forall k, (k < Z.to_nat n)%nat ->
     exists v, nth_error (linspace start stop n) k = Some v /\
               (v == start + inject_Z (Z.of_nat k) * ((stop - start) / inject_Z (n - 1)))%Q) /\
  (exists v, nth_error (linspace start stop n) 0 = Some v /\ (v == start)%Q) /\
  (exists v, nth_error (linspace start stop n) (Z.to_nat n - 1) = Some v /\ (v == stop)%Q).
Proof. exact linspace_spec. Qed.

Theorem C17_linear_count : forall base c n a start stop stp s,
  make_linear base c n a start stop stp = Ok s ->
  length (sdata s) = length (linspace start stop (rnd (Qabs (stop - start) / stp) + 1)).
Proof. exact linear_count. Qed.

Print Assumptions C17_step_is_edit.
Print Assumptions C17_make_varying.
Print Assumptions C17_length_mismatch.
Print Assumptions C17_repeat_length_mismatch.
Print Assumptions C17_repeat.
Print Assumptions C17_linspace.
Print Assumptions C17_linear_count.
