(* Rejected calls change nothing (every operation of the op language but a replaceeverywhere edit, every store); edits
   through the live handle Sequence.element(pos) touch exactly that entry.
   Only statements; proofs are `exact <lemma>` into Proofs/AtomicFacts.v. *)
From Coq Require Import String List ZArith QArith Bool.
From BB Require Import Base.Names Base.Num Base.PyList Model.Types Model.Blueprint Model.Forge Model.Element
  Model.PyVal Model.Sequence Model.Output Model.Tools Model.Descr Model.Interp Proofs.AtomicFacts Proofs.PartialFacts.
Import ListNotations.

(* the two definitions the statement uses, pinned here so that they cannot be weakened out of sight *)
Theorem Atomic_single_edit_is : forall o,
  single_edit o = match o with
                  | BChangeArg _ _ _ _ true | BChangeDur _ _ _ true
                  | EChangeArg _ _ _ _ _ true | EChangeDur _ _ _ _ true
                  | SElemChangeArg _ _ _ _ _ _ true | SElemChangeDur _ _ _ _ _ true => False
                  | _ => True
                  end.
Proof. reflexivity. Qed.

Theorem Atomic_same_objects_is : forall st st',
  same_objects st st' <->
  (forall r, getB st' r = getB st r) /\ (forall r, getE st' r = getE st r) /\ (forall r, getS st' r = getS st r).
Proof. intros; reflexivity. Qed.

(* For every store and every call of the op language other than a replaceeverywhere edit: if the call raises, every
   blueprint, element and sequence register holds exactly what it held before.  (A replaceeverywhere edit is applied
   segment by segment by the code; C05 states its atomicity clause for single-segment edits only.)
   History: while this was being proved the statement turned out FALSE for Element.addArray with a marker array of
   another length than the waveform (the channel entry was replaced before the check; the ValueError left a channel
   without waveform and SR, on which points / validateDurations raise KeyError).  That was defect D22, repaired in
   /repo; the model follows the repaired code and the exclusion the proof had needed is gone. *)
Theorem Atomic_rejected_call_changes_nothing : forall st o e,
  single_edit o -> snd (exec st o) = PErr e -> same_objects st (fst (exec st o)).
Proof. exact rejected_call_changes_nothing. Qed.

(* An Element mutator applied through Sequence.element(pos) (SElemChangeArg / ChangeDur / AddBp / AddArray / AddFlags):
   sequencing, channel settings, name, the set and order of positions and every other entry are untouched; the entry
   at pos becomes what the mutator makes of it and the outcome is the mutator's. *)
Theorem Atomic_handle_edit_frame : forall q pos f q' o,
  on_seq_elem q pos f = (q', o) ->
  sseq q' = sseq q /\ sspecs q' = sspecs q /\ sname q' = sname q /\ map fst (sdata q') = map fst (sdata q) /\
  (forall p, p <> pos -> alookup Z.eqb p (sdata q') = alookup Z.eqb p (sdata q)) /\
  (forall e, alookup Z.eqb pos (sdata q) = Some (EElem e) ->
     alookup Z.eqb pos (sdata q') = Some (EElem (fst (f e))) /\ o = snd (f e)).
Proof. exact handle_edit_frame. Qed.

(* What a half-failed replaceeverywhere edit leaves behind (the case excluded above): exactly the edits of the matching
   segments in front of the one that was refused - the refused segment itself and everything after it are untouched.
   l is the list of matching segment names in blueprint order (replace_list). *)
Theorem Atomic_everywhere_arg_prefix : forall l b a v b' e,
  change_arg_loop b l a v = (b', Some e) ->
  exists l1 x l2, l = l1 ++ x :: l2 /\
    change_arg_loop b l1 a v = (b', None) /\
    snd (change_arg_one b' x a v) = Some e /\ fst (fst (change_arg_one b' x a v)) = b'.
Proof. exact everywhere_arg_prefix. Qed.

Theorem Atomic_everywhere_dur_prefix : forall l b d b' e,
  change_dur_loop b l d = (b', Some e) ->
  exists l1 x l2, l = l1 ++ x :: l2 /\
    change_dur_loop b l1 d = (b', None) /\
    change_dur_one b' x d = (b', Some e).
Proof. exact everywhere_dur_prefix. Qed.

Print Assumptions Atomic_single_edit_is.
Print Assumptions Atomic_same_objects_is.
Print Assumptions Atomic_rejected_call_changes_nothing.
Print Assumptions Atomic_handle_edit_frame.
Print Assumptions Atomic_everywhere_arg_prefix.
Print Assumptions Atomic_everywhere_dur_prefix.
