(* C10 (continued) - marker arrays under channel delays.  Only statements; proofs in Proofs/DelayMarkerFacts.v.
   Together with C10_shift_blueprint (the delayed blueprint has kd samples in front, kp behind and every original
   segment start moved by kd): segment-bound marker windows move with the waveform, absolute-time windows keep
   their sample positions, and the painted arrays are padded accordingly. *)
From Coq Require Import String List ZArith QArith Qabs Bool.
From BB Require Import Base.Names Base.Num Base.PyList Model.Types Model.Blueprint Model.Forge Model.Element
  Proofs.DelayMarkerFacts.
Import ListNotations.
Open Scope Q_scope.

(* painting windows shifted by kd on an array with kd samples in front and kp behind = the padded painting *)
Theorem C10_paint_shift : forall N ws kd kp,
  (0 <= N)%Z -> (0 <= kd)%Z -> (0 <= kp)%Z -> Forall (inside N) ws ->
  paint (N + kd + kp) (map (shift_window kd) ws) = repeat false (Z.to_nat kd) ++ paint N ws ++ repeat false (Z.to_nat kp).
Proof. exact paint_shift. Qed.

(* painting the same windows on a longer array only appends zeros *)
Theorem C10_paint_extend : forall N ws k,
  (0 <= N)%Z -> (0 <= k)%Z -> Forall (fun w => (snd w <= N)%Z) ws ->
  paint (N + k) ws = paint N ws ++ repeat false (Z.to_nat k).
Proof. exact paint_extend. Qed.

(* a marker that starts d = kd/SR later lands kd samples later; one that keeps its absolute time keeps its samples *)
Theorem C10_window_shift : forall (N : Z) SR t len d n c kd kp,
  0 < SR -> (0 <= n < N)%Z -> Qabs (t * SR - inject_Z n) < 1 # 2 -> rnd (len * SR) = c -> (0 <= c)%Z -> (n + c <= N)%Z ->
  d * SR == inject_Z kd -> (0 <= kd)%Z -> (0 <= kp)%Z ->
  window (N + kd + kp) SR (t + d, len) = (n + kd, n + kd + c)%Z /\
  window (N + kd + kp) SR (t, len) = (n, n + c)%Z /\
  window N SR (t, len) = (n, n + c)%Z.
Proof. exact window_shift. Qed.

(* the absolute specs derived from segment-bound markers move by kd/SR when every segment start moves by kd *)
Theorem C10_seg_specs_shift : forall SR ns sm kd,
  0 < SR ->
  Forall2 (fun a b => fst a == fst b + inject_Z kd / SR /\ snd a = snd b)
          (seg_specs SR (starts kd ns) sm) (seg_specs SR (starts 0 ns) sm).
Proof. exact seg_specs_shift. Qed.

(* raw-array markers are padded like every other stored array: kd zeros in front, kp behind *)
Theorem C10_raw_markers : forall r pre post,
  (0 <= pre)%Z -> (0 <= post)%Z -> Forall (fun p => (0 <= snd p)%Z) r ->
  rle_len (rle_pad pre post r) = (pre + rle_len r + post)%Z.
Proof. exact raw_marker_padding. Qed.

Print Assumptions C10_paint_shift.
Print Assumptions C10_paint_extend.
Print Assumptions C10_window_shift.
Print Assumptions C10_seg_specs_shift.
Print Assumptions C10_raw_markers.
