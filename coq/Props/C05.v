(* C05 - segment names stay unique; name-addressed edits touch only their target.
   Only statements here; every proof is `exact <lemma>` into Proofs/BlueprintFacts.v. *)
From Coq Require Import String List ZArith QArith Bool.
From BB Require Import Base.Names Base.PyList Model.Types Model.Blueprint Model.Element Model.PyVal Model.Interp
  Proofs.BlueprintFacts.
Import ListNotations.

(* 1. naming: pairwise distinct, and the k-th segment sharing a base is base / base ++ str(k) *)
Theorem C05_names_distinct : forall l, NoDup (uniquify l).
Proof. exact uniquify_NoDup. Qed.

Theorem C05_kth_occurrence : forall l i b,
  nth_error (map basename l) i = Some b ->
  nth_error (uniquify l) i = Some (mk b (S (count b (firstn i (map basename l))))).
Proof. exact uniquify_kth. Qed.

(* 2. the invariant: six parallel lists of equal length, names canonical *)
Theorem C05_inv_empty : Inv bp_empty.
Proof. exact Inv_empty. Qed.

(* for every history over the blueprint alphabet (any registers, any interleaving of insert / remove /
   changeArg / changeDuration / set+removeSegmentMarker / setSR / markers / copy / + and observations),
   every blueprint in the store satisfies the invariant, hence has pairwise distinct canonical names *)
Theorem C05_inv_reachable : forall prog st,
  Forall bp_alphabet prog -> store_inv st -> store_inv (final_store st prog).
Proof. exact inv_reachable. Qed.

Theorem C05_reachable_names : forall prog r b,
  Forall bp_alphabet prog -> In (r, b) (bps (final_store store0 prog)) ->
  NoDup (names b) /\ names b = uniquify (names b)
  /\ length (funs b) = length (names b) /\ length (args b) = length (names b) /\ length (durs b) = length (names b)
  /\ length (sm1 b) = length (names b) /\ length (sm2 b) = length (names b).
Proof. exact reachable_names. Qed.

(* 3. frame conditions of the name-addressed edits (single segment) *)
Theorem C05_change_arg_frame : forall b n a v b',
  Inv b -> bp_change_arg b n a v false = (b', None) ->
  exists p f larg i,
    name_idx n b = Some p /\ nth_error (funs b) p = Some f /\ nth_error (args b) p = Some larg /\
    arg_index f a = Some i /\ (i < length larg)%nat /\
    b' = set_args b (upd p (upd i v larg) (args b)).
Proof. exact change_arg_frame. Qed.

Theorem C05_change_arg_only_target : forall b n a v b',
  Inv b -> bp_change_arg b n a v false = (b', None) ->
  names b' = names b /\ funs b' = funs b /\ durs b' = durs b /\ sm1 b' = sm1 b /\ sm2 b' = sm2 b /\
  am1 b' = am1 b /\ am2 b' = am2 b /\ sr b' = sr b /\
  forall p, name_idx n b = Some p -> forall k, k <> p -> nth_error (args b') k = nth_error (args b) k.
Proof. exact change_arg_only_target. Qed.

Theorem C05_change_dur_frame : forall b n d b',
  Inv b -> bp_change_dur b n d false = (b', None) ->
  exists p q, d = VNum q /\ name_idx n b = Some p /\ b' = set_durs b (upd p (VNum q) (durs b)).
Proof. exact change_dur_frame. Qed.

Theorem C05_set_segmarker_frame : forall b n spec id b',
  Inv b -> bp_set_segmarker b n spec id = (b', None) ->
  exists p, name_idx n b = Some p /\
    ((id = 1%Z /\ b' = set_sm1 b (upd p spec (sm1 b))) \/ (id = 2%Z /\ b' = set_sm2 b (upd p spec (sm2 b)))).
Proof. exact set_segmarker_frame. Qed.

Theorem C05_remove_segmarker_frame : forall b n id b',
  Inv b -> bp_remove_segmarker b n id = (b', None) ->
  exists p, name_idx n b = Some p /\
    ((id = 1%Z /\ b' = set_sm1 b (upd p (0, 0)%Q (sm1 b))) \/ (id = 2%Z /\ b' = set_sm2 b (upd p (0, 0)%Q (sm2 b)))).
Proof. exact remove_segmarker_frame. Qed.

(* replaceeverywhere: exactly the segments with the same base name get the new duration *)
Theorem C05_change_dur_everywhere : forall b n q b',
  Inv b -> bp_change_dur b n (VNum q) true = (b', None) ->
  names b' = names b /\ funs b' = funs b /\ args b' = args b /\ sm1 b' = sm1 b /\ sm2 b' = sm2 b /\
  am1 b' = am1 b /\ am2 b' = am2 b /\ sr b' = sr b /\ length (durs b') = length (durs b) /\
  forall k m, nth_error (names b) k = Some m ->
    nth_error (durs b') k = (if str_eqb (basename m) (basename n) then Some (VNum q) else nth_error (durs b) k).
Proof. exact change_dur_everywhere. Qed.

(* 4. rejected single-segment edits leave the blueprint unchanged *)
Theorem C05_reject_atomic : forall b,
  (forall n a v b' e, bp_change_arg b n a v false = (b', Some e) -> b' = b) /\
  (forall n d b' e, bp_change_dur b n d false = (b', Some e) -> b' = b) /\
  (forall n s id b' e, bp_set_segmarker b n s id = (b', Some e) -> b' = b) /\
  (forall n id b' e, bp_remove_segmarker b n id = (b', Some e) -> b' = b) /\
  (forall pos f a d nm b' e, bp_insert b pos f a d nm = (b', Some e) -> b' = b) /\
  (forall n b' e, bp_remove b n = (b', Some e) -> b' = b).
Proof. exact reject_atomic. Qed.

(* 5. what is rejected *)
Theorem C05_rejections : forall b n,
  name_idx n b = None ->
  (forall a v, snd (bp_change_arg b n a v false) <> None) /\
  (forall d, snd (bp_change_dur b n d false) <> None) /\
  (forall s id, snd (bp_set_segmarker b n s id) <> None) /\
  (forall id, snd (bp_remove_segmarker b n id) <> None) /\
  snd (bp_remove b n) <> None.
Proof. exact rejections_unknown_name. Qed.

Theorem C05_bad_durations : forall b n,
  name_idx n b <> None ->
  (forall q, (q <= 0)%Q -> snd (bp_change_dur b n (VNum q) false) <> None) /\
  (forall q s, sr b = VNum s -> (q * s < 1)%Q -> snd (bp_change_dur b n (VNum q) false) <> None) /\
  (forall ev, snd (bp_change_dur b n VNone ev) <> None) /\
  (forall ev x, snd (bp_change_dur b n (VStr x) ev) <> None).
Proof. exact bad_durations. Qed.

Theorem C05_unknown_argument : forall b n p f x v,
  name_idx n b = Some p -> nth_error (funs b) p = Some f -> arg_index f (AStr x) = None ->
  snd (bp_change_arg b n (AStr x) v false) <> None.
Proof. exact unknown_argument. Qed.

(* 6. the same edits issued through an Element act on that channel's blueprint only *)
Theorem C05_element_delegates : forall e c ch b n a v ev,
  el_lookup e c = Some ch -> ckind ch = KBp b ->
  el_change_arg e c n a v ev =
    (el_set e c (mkCh (KBp (fst (bp_change_arg b n a v ev))) (cflags ch)), snd (bp_change_arg b n a v ev)).
Proof. exact element_delegates_arg. Qed.

Theorem C05_element_other_channels : forall e c c' n a v ev,
  chan_eqb c' c = false ->
  el_lookup (fst (el_change_arg e c n a v ev)) c' = el_lookup e c' /\
  el_lookup (fst (el_change_dur e c n v ev)) c' = el_lookup e c'.
Proof. exact element_other_channels. Qed.

(* non-vacuity: a concrete history meets the hypotheses and exercises the renaming *)
Example C05_example :
  let prog := [BNew 0; BInsert 0 (-1) Framp [VNum 0; VNum 1] (VNum 1) None;
               BInsert 0 0 Framp [VNum 0; VNum 1] (VNum 1) (Some (S_ "a1b"));
               BInsert 0 1 Fua [VNum 1] (VNum 1) (Some (S_ "ramp")); BCopy 0 1; BAdd 0 1 2] in
  Forall bp_alphabet prog /\
  (exists b, In (2%nat, b) (bps (final_store store0 prog)) /\
     names b = [S_ "a1b"; S_ "ramp"; S_ "ramp2"; S_ "a1b2"; S_ "ramp3"; S_ "ramp4"]).
Proof. exact example_history. Qed.

Print Assumptions C05_names_distinct.
Print Assumptions C05_kth_occurrence.
Print Assumptions C05_inv_empty.
Print Assumptions C05_inv_reachable.
Print Assumptions C05_reachable_names.
Print Assumptions C05_change_arg_frame.
Print Assumptions C05_change_arg_only_target.
Print Assumptions C05_change_dur_frame.
Print Assumptions C05_set_segmarker_frame.
Print Assumptions C05_remove_segmarker_frame.
Print Assumptions C05_change_dur_everywhere.
Print Assumptions C05_reject_atomic.
Print Assumptions C05_rejections.
Print Assumptions C05_bad_durations.
Print Assumptions C05_unknown_argument.
Print Assumptions C05_element_delegates.
Print Assumptions C05_element_other_channels.
