(* C05 - placeholder until Proofs/BlueprintFacts.v is in place: the naming theorems of Base/Names.v. *)
From BB Require Import Base.Names.
Theorem C05_names_distinct : forall l, List.NoDup (uniquify l).
Proof. exact uniquify_NoDup. Qed.
Print Assumptions C05_names_distinct.
