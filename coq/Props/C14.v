(* C14 - AWG5014 package: normalised in-range samples, faithful sequencing, exact slicing.
   Only statements; proofs in Proofs/OutputFacts.v (the real-number version of the normalisation and the pinned
   raise conditions are in Props/C14n.v, about the re-translated source). *)
From Coq Require Import String List ZArith QArith Bool.
From BB Require Import Base.Names Base.Num Base.PyList Model.Types Model.Blueprint Model.Forge Model.Element
  Model.PyVal Model.Sequence Model.Output Proofs.OutputFacts.
Import ListNotations.

(* inside the channel range the delivered sample lies in [-1, 1]; outside it does not (nothing is clipped) *)
Theorem C14_normalised_range : forall v ampl off : Q,
  (0 < ampl)%Q ->
  ((off - ampl / 2 <= v /\ v <= off + ampl / 2) <-> (-1 <= rescaleQ v ampl off /\ rescaleQ v ampl off <= 1))%Q.
Proof. exact normalised_range. Qed.

(* the voltage guard handed to the back end is exactly [off - ampl/2, off + ampl/2] for every position and channel,
   and the delivered plan is the normalisation of the guarded one *)
Theorem C14_ranges_and_scaling : forall s ranges p,
  output_awg s = Ok (ranges, Ok p) ->
  forall w lo hi, In (w, lo, hi) ranges ->
    exists ch ampl off, spec_num s (key_amp ch) EKey = Ok ampl /\ spec_num s (key_off ch) EKey = Ok off /\
                        lo = (- ampl / 2 + off)%Q /\ hi = (ampl / 2 + off)%Q.
Proof. exact ranges_and_scaling. Qed.

(* sequencing settings: accepted exactly inside the instrument ranges ... *)
Theorem C14_sequencing_ranges : forall n q,
  awg_seq_ok n q = true <->
  ((twait q = 0 \/ twait q = 1) /\ 0 <= nrep q <= 65536 /\ -1 <= jump_target q <= n /\ 0 <= goto q <= n)%Z.
Proof. exact awg_seq_ok_spec. Qed.

(* ... delivered in position order, unmodified; any setting outside them is a SequencingError, never clipped *)
Theorem C14_sequencing_lists : forall s ranges p,
  output_awg s = Ok (ranges, Ok p) ->
  exists sq, mapM (get_sq s) (range1 (length sq)) = Ok sq /\
    Forall (fun q => awg_seq_ok (Z.of_nat (length sq)) q = true) sq /\
    a_nreps p = map nrep sq /\ a_twaits p = map twait sq /\ a_gotos p = map goto sq /\ a_jumps p = map jump_target sq.
Proof. exact awg_sequencing_lists. Qed.

Theorem C14_sequencing_error : forall s chans okf wf els k q,
  nth_error (range1 (length els)) k = Some q -> (exists sqv, get_sq s q = Ok sqv /\ okf sqv = false) ->
  (forall j qj, (j < k)%nat -> nth_error (range1 (length els)) j = Some qj -> exists v, get_sq s qj = Ok v /\ okf v = true) ->
  (forall l c, In l els -> In c chans -> exists p a b, prep_find l c = Ok p /\ chout_marker (pout p) (S_ "m1") = Ok a /\
                                                         chout_marker (pout p) (S_ "m2") = Ok b) ->
  cast_positions s chans okf wf els = Err ESequencing.
Proof. exact cast_sequencing_error. Qed.

(* Python's range(start, stop, step) for a positive step *)
Theorem C14_py_range : forall a b, py_range a b 1 = map (fun k => (a + Z.of_nat k)%Z) (List.seq 0 (Z.to_nat (b - a))).
Proof. exact py_range_step1. Qed.

(* indexing: pkg[i] equals pkg[i:i+1]; pkg[:] is everything, in order; the four sequencing lists stay intact *)
Theorem C14_index_is_slice : forall p i, (0 <= i)%Z ->
  awg_getitem p (IdxInt i) = awg_getitem p (IdxSlice (Some i) (Some (i + 1)%Z) None).
Proof. exact index_is_slice. Qed.

Theorem C14_full_slice : forall p,
  length (a_m1s p) = length (a_wfms p) -> length (a_m2s p) = length (a_wfms p) ->
  awg_getitem p (IdxSlice None None None) =
  Ok (PTuple ([PList (map PList (a_wfms p)); PList (map PList (a_m1s p)); PList (map PList (a_m2s p))] ++ awg_tail p)).
Proof. exact full_slice. Qed.

Theorem C14_slice_selects : forall p st sp i j r,
  (0 <= i <= j)%Z -> st = Some i -> sp = Some j ->
  awg_getitem p (IdxSlice st sp None) = Ok r ->
  exists w a b, select (a_wfms p) (py_range i j 1) = Ok w /\ select (a_m1s p) (py_range i j 1) = Ok a /\
                select (a_m2s p) (py_range i j 1) = Ok b /\
                r = PTuple ([PList (map PList w); PList (map PList a); PList (map PList b)] ++ awg_tail p) /\
                length w = Z.to_nat (j - i) /\
                forall k, (k < Z.to_nat (j - i))%nat -> nth_error w k = nth_error (a_wfms p) (Z.to_nat i + k).
Proof. exact slice_selects. Qed.

Theorem C14_slicing_keeps_sequencing : forall p ix l,
  awg_getitem p ix = Ok (PTuple l) -> skipn 3 l = awg_tail p.
Proof. exact slicing_keeps_sequencing. Qed.

Print Assumptions C14_normalised_range.
Print Assumptions C14_ranges_and_scaling.
Print Assumptions C14_sequencing_ranges.
Print Assumptions C14_sequencing_lists.
Print Assumptions C14_sequencing_error.
Print Assumptions C14_py_range.
Print Assumptions C14_index_is_slice.
Print Assumptions C14_full_slice.
Print Assumptions C14_slice_selects.
Print Assumptions C14_slicing_keeps_sequencing.
