(* C20 - placeholder until Proofs/EqFacts.v lands. *)
From Coq Require Import List.
From BB Require Import Base.Names.
Theorem C20_placeholder : forall l, NoDup (uniquify l).
Proof. exact uniquify_NoDup. Qed.
Print Assumptions C20_placeholder.
