(* C20 - equality is observational: equal objects describe and forge identically.
   Only statements; every proof is `exact <lemma>` into Proofs/EqFacts.v. *)
From Coq Require Import String List ZArith QArith Bool.
From BB Require Import Base.Names Base.Num Base.PyList Model.Types Model.Blueprint Model.Forge Model.Element
  Model.PyVal Model.Sequence Model.Descr Proofs.BlueprintFacts Proofs.EqFacts Proofs.SeqEqFacts.
Import ListNotations.

(* == compares every component: names, functions, arguments, durations, absolute and segment-bound markers *)
Theorem C20_bp_eq_iff : forall a b, bp_eqb a b = true <-> bp_equiv a b.
Proof. exact bp_eq_iff. Qed.

(* ... so blueprints that differ in any single component compare unequal *)
Theorem C20_bp_differs : forall a b,
  (names a <> names b \/ funs a <> funs b \/ length (durs a) <> length (durs b) \/
   (exists k x y, nth_error (durs a) k = Some x /\ nth_error (durs b) k = Some y /\ val_eqb x y = false) \/
   (exists k x y, nth_error (args a) k = Some x /\ nth_error (args b) k = Some y /\ list_eqb val_eqb x y = false) \/
   (exists k x y, nth_error (sm1 a) k = Some x /\ nth_error (sm1 b) k = Some y /\ mspec_eqb x y = false) \/
   (exists k x y, nth_error (sm2 a) k = Some x /\ nth_error (sm2 b) k = Some y /\ mspec_eqb x y = false) \/
   (exists k x y, nth_error (am1 a) k = Some x /\ nth_error (am1 b) k = Some y /\ mspec_eqb x y = false) \/
   (exists k x y, nth_error (am2 a) k = Some x /\ nth_error (am2 b) k = Some y /\ mspec_eqb x y = false)) ->
  bp_eqb a b = false.
Proof. exact bp_differs. Qed.

(* equal blueprints have equal descriptions (up to numeric equality of the numbers in them) ... *)
Theorem C20_bp_eq_descr : forall a b, bp_eqb a b = true -> pv_equiv (bp_descr a) (bp_descr b).
Proof. exact bp_eq_descr. Qed.

(* ... and at equal sample rate forge to the same arrays: same error, or same counts / functions / markers with
   numerically equal arguments *)
Theorem C20_bp_eq_forge : forall a b SR SR',
  bp_eqb a b = true -> (SR == SR')%Q ->
  match forge_bp_with a SR (durs a), forge_bp_with b SR' (durs b) with
  | Ok f, Ok g => forged_equiv f g
  | Err e, Err e' => e = e'
  | _, _ => False
  end.
Proof. exact bp_eq_forge. Qed.

(* reflexive and symmetric (on objects whose numbers are numbers) *)
Theorem C20_bp_eq_refl : forall a, bp_eqb a a = true.
Proof. exact bp_eq_refl. Qed.
Theorem C20_bp_eq_sym : forall a b, bp_eqb a b = bp_eqb b a.
Proof. exact bp_eq_sym. Qed.

(* a copy compares equal to its original (for every blueprint reachable through the public API: Inv) *)
Theorem C20_copy_eq : forall b, Inv b -> bp_copy b = b /\ bp_eqb b (bp_copy b) = true.
Proof. exact copy_eq. Qed.

(* elements: == on blueprint channels is channel-wise blueprint equality plus the flags, whatever the channel order *)
Theorem C20_el_eq : forall a b,
  (forall c ch, In (c, ch) (edata a) -> exists x, ckind ch = KBp x) ->
  (forall c ch, In (c, ch) (edata b) -> exists x, ckind ch = KBp x) ->
  NoDup (map fst (edata a)) -> NoDup (map fst (edata b)) ->
  (el_eqb a b = Ok true <->
   (length (edata a) = length (edata b) /\
    forall c ch, In (c, ch) (edata a) ->
      exists ch' x y, el_lookup b c = Some ch' /\ ckind ch = KBp x /\ ckind ch' = KBp y /\ bp_eqb x y = true /\
                      flags_eqb (cflags ch) (cflags ch') = true)).
Proof. exact el_eq_iff. Qed.

Theorem C20_el_eq_refl : forall a,
  (forall c ch, In (c, ch) (edata a) -> exists x, ckind ch = KBp x) -> NoDup (map fst (edata a)) -> el_eqb a a = Ok true.
Proof. exact el_eq_refl. Qed.

(* sequences: == requires equal sequencing entries and equal AWG settings *)
Theorem C20_seq_eq_components : forall a b,
  seq_eqb a b = Ok true ->
  specs_eqb (sspecs a) (sspecs b) = true /\ length (sseq a) = length (sseq b) /\ length (sdata a) = length (sdata b) /\
  forall p q, In (p, q) (sseq a) -> exists q', alookup Z.eqb p (sseq b) = Some q' /\ sqing_eqb q q' = true.
Proof. exact seq_eq_components. Qed.

Theorem C20_sqing_eq : forall q q', sqing_eqb q q' = true <-> q = q'.
Proof. exact sqing_eq_iff. Qed.

(* ... and equal data: the same positions, holding entries that compare equal; a position filled on one side only
   makes the sequences unequal *)
Theorem C20_seq_eq_data : forall a b,
  seq_eqb a b = Ok true ->
  Nat.eqb (length (sdata a)) (length (sdata b)) = true /\
  forall p x, In (p, x) (sdata a) -> exists y, alookup Z.eqb p (sdata b) = Some y /\ entry_eqb x y = Ok true.
Proof. exact seq_eq_data. Qed.

Theorem C20_seq_eq_missing_position : forall a b p x,
  In (p, x) (sdata a) -> alookup Z.eqb p (sdata b) = None -> seq_eqb a b <> Ok true.
Proof. exact seq_eq_missing_position. Qed.

Print Assumptions C20_bp_eq_iff.
Print Assumptions C20_bp_differs.
Print Assumptions C20_bp_eq_descr.
Print Assumptions C20_bp_eq_forge.
Print Assumptions C20_bp_eq_refl.
Print Assumptions C20_bp_eq_sym.
Print Assumptions C20_copy_eq.
Print Assumptions C20_el_eq.
Print Assumptions C20_el_eq_refl.
Print Assumptions C20_seq_eq_components.
Print Assumptions C20_sqing_eq.
Print Assumptions C20_seq_eq_data.
Print Assumptions C20_seq_eq_missing_position.
