(* C04 - waituntil pads with zeros so that the next segment starts at the stated time.
   Only statements; every proof is `exact <lemma>` into Proofs/WaitFacts.v. *)
From Coq Require Import List ZArith QArith Qabs Bool.
From BB Require Import Base.Num Base.PyList Model.Types Model.Blueprint Model.Forge Proofs.WaitFacts.
Import ListNotations.
Open Scope Q_scope.

(* a waituntil(w) segment ends exactly at absolute time w: elapsed time up to and including it is w *)
Theorem C04_wait_ends_at_target : forall fs ars ds el rs p w rest,
  length ars = length fs -> length ds = length fs ->
  resolve_waits_aux fs ars ds (Some el) = Ok rs ->
  nth_error fs p = Some Fwait -> nth_error ars p = Some (VNum w :: rest) ->
  el + sumQ (firstn (S p) rs) == w.
Proof. exact wait_ends_at_target. Qed.

(* resolution only rewrites the waituntil entries *)
Theorem C04_resolution_frame : forall fs ars ds el rs,
  length ars = length fs -> length ds = length fs ->
  resolve_waits_aux fs ars ds (Some el) = Ok rs ->
  length rs = length fs /\
  forall j f, nth_error fs j = Some f -> fn_eqb f Fwait = false -> nth_error rs j = nth_error ds j.
Proof. exact resolution_frame. Qed.

(* alignment: if everything before the wait is a whole number of samples and the target is not at a
   rounding tie, the segment after the wait starts at sample round(w*SR) - for any number of waits *)
Theorem C04_alignment : forall SR fs ars ds rs ns p w rest k,
  0 < SR -> length ars = length fs -> length ds = length fs ->
  resolve_waits_aux fs ars ds (Some 0) = Ok rs -> int_durs SR rs = Ok ns ->
  nth_error fs p = Some Fwait -> nth_error ars p = Some (VNum w :: rest) ->
  (forall j v, (j < p)%nat -> nth_error rs j = Some v -> whole_samples SR v) ->
  Qabs (w * SR - inject_Z k) < 1 # 2 ->
  sumZ (firstn (S p) ns) = k.
Proof. exact wait_alignment. Qed.

(* ... no matter how the preceding durations are later changed, as long as they stay whole samples *)
Theorem C04_stable : forall SR fs ars ds ds' rs rs' ns ns' p w rest k,
  0 < SR -> length ars = length fs -> length ds = length fs -> length ds' = length fs ->
  resolve_waits_aux fs ars ds (Some 0) = Ok rs -> int_durs SR rs = Ok ns ->
  resolve_waits_aux fs ars ds' (Some 0) = Ok rs' -> int_durs SR rs' = Ok ns' ->
  nth_error fs p = Some Fwait -> nth_error ars p = Some (VNum w :: rest) ->
  (forall j v, (j < p)%nat -> nth_error rs j = Some v -> whole_samples SR v) ->
  (forall j v, (j < p)%nat -> nth_error rs' j = Some v -> whole_samples SR v) ->
  Qabs (w * SR - inject_Z k) < 1 # 2 ->
  sumZ (firstn (S p) ns) = sumZ (firstn (S p) ns').
Proof. exact wait_stable. Qed.

(* overrun: preceding segments extending beyond the target make resolution fail with ValueError ... *)
Theorem C04_overrun_detected : forall fs ars ds el p w rest,
  length ars = length fs -> length ds = length fs ->
  nth_error fs p = Some Fwait -> nth_error ars p = Some (VNum w :: rest) ->
  (forall j, (j < p)%nat -> nth_error fs j <> Some Fwait) ->
  (forall j, (j < p)%nat -> exists q, nth_error ds j = Some (VNum q)) ->
  w < el + sumQ (firstn p ds) ->
  resolve_waits_aux fs ars ds (Some el) = Err EValue.
Proof. exact overrun_detected. Qed.

(* ... and then forging, duration and points all raise that error instead of producing output *)
Theorem C04_overrun_everywhere : forall b SR e,
  resolve_waits b = Err e ->
  forge_bp_with b SR (durs b) = Err e /\
  (has_wait b = true -> bp_duration b = Err e /\ forall s, sr b = VNum s -> bp_points b = Err e).
Proof. exact overrun_everywhere. Qed.

(* duration and points include the filled time *)
Theorem C04_duration_includes_fill : forall b rs,
  has_wait b = true -> resolve_waits b = Ok rs -> bp_duration b = sum_vals rs.
Proof. exact duration_includes_fill. Qed.

Theorem C04_points_equal_forged_length : forall SR rs ns d,
  0 < SR -> int_durs SR rs = Ok ns -> sum_vals rs = Ok d -> Forall (whole_samples SR) rs ->
  rnd (d * SR) = sumZ ns.
Proof. exact points_equal_length. Qed.

(* non-vacuity: two waits, aligned preceding segments; second segment after a wait starts at sample 50 *)
Example C04_example :
  let fs := [Fua; Fwait; Fua; Fua; Fwait; Fua] in
  let ars := [[VNum 1]; [VNum (20 # 100)]; [VNum 2]; [VNum 3]; [VNum (1 # 2)]; [VNum 4]] in
  let ds := [VNum (5 # 100); VNone; VNum (3 # 100); VNum (7 # 100); VNone; VNum (2 # 100)] in
  exists rs ns, resolve_waits_aux fs ars ds (Some 0) = Ok rs /\ int_durs 100 rs = Ok ns /\
                ns = [5; 15; 3; 7; 20; 2]%Z /\ sumZ (firstn 5 ns) = 50%Z.
Proof. exact waits_example. Qed.

Print Assumptions C04_wait_ends_at_target.
Print Assumptions C04_resolution_frame.
Print Assumptions C04_alignment.
Print Assumptions C04_stable.
Print Assumptions C04_overrun_detected.
Print Assumptions C04_overrun_everywhere.
Print Assumptions C04_duration_includes_fill.
Print Assumptions C04_points_equal_forged_length.
