(* C18 - placeholder until Proofs/ForgeSeqFacts.v lands. *)
From Coq Require Import List.
From BB Require Import Base.Names.
Theorem C18_placeholder : forall l, NoDup (uniquify l).
Proof. exact uniquify_NoDup. Qed.
Print Assumptions C18_placeholder.
