(* C18 - forged structure is schema-valid; subsequences forge like stand-alone sequences.
   Only statements; every proof is `exact <lemma>` into Proofs/ForgeSeqFacts.v. *)
From Coq Require Import String List ZArith QArith Bool.
From BB Require Import Base.Names Base.Num Base.PyList Model.Types Model.Blueprint Model.Forge Model.Element
  Model.PyVal Model.Sequence Proofs.ForgeSeqFacts.
Import ListNotations.

(* whatever forge() returns validates against the published forged-sequence schema, flags and time axis included *)
Theorem C18_schema : forall s d f t p, seq_forge s d f t = Ok p -> schema_ok p = true.
Proof. exact forge_schema. Qed.

(* one entry per position 1..N, in order, each with that position's sequencing, its type and its content *)
Theorem C18_positions : forall s d f t p,
  seq_forge s d f t = Ok p ->
  exists out, p = PDict out /\ map fst out = map PInt (range1 (length (sdata s))) /\
    forall k v, In (PInt k, v) out ->
      exists q ty c, alookup Z.eqb k (sseq s) = Some q /\
        v = PDict [(pstr "sequencing", pv_of_sqing q); (pstr "type", ty); (pstr "content", c)].
Proof. exact forge_positions. Qed.

(* an element position: type "element", one content entry 1 holding the per-channel arrays *)
Theorem C18_element_entry : forall s f t e r,
  forge_entry s f t (EElem e) = Ok r ->
  exists dta, forge_elem_data s f t e = Ok dta /\ r = (pstr "element", PDict [(PInt 1, PDict [(pstr "data", dta)])]).
Proof. exact element_entry. Qed.

(* a subsequence position: type "subsequence", one content entry per subsequence position 1..K with that
   position's OWN sequencing and exactly the arrays that the element would forge to stand-alone under the
   parent's settings *)
Theorem C18_subsequence_entry : forall s f t (sb : subseq) r,
  forge_entry s f t (ESub sb) = Ok r ->
  exists l, r = (pstr "subsequence", PDict l) /\ map fst l = map PInt (range1 (length (sdata sb))) /\
    forall k v, In (PInt k, v) l ->
      exists e q dta, alookup Z.eqb k (sdata sb) = Some e /\ alookup Z.eqb k (sseq sb) = Some q /\
        forge_elem_data s f t e = Ok dta /\
        v = PDict [(pstr "data", dta); (pstr "sequencing", pv_of_sqing q)] /\
        forge_entry s f t (EElem e) = Ok (pstr "element", PDict [(PInt 1, PDict [(pstr "data", dta)])]).
Proof. exact subsequence_entry. Qed.

(* time axis and segment durations only when requested; flags only where set *)
Theorem C18_optional_keys : forall o w,
  match pv_of_chout o w with
  | PDict l =>
      (match o with
       | OForged _ fl wt _ =>
           (existsb (fun kv => key_is "time" (fst kv)) l = wt) /\ (existsb (fun kv => key_is "newdurations" (fst kv)) l = wt) /\
           (existsb (fun kv => key_is "flags" (fst kv)) l = match fl with Some _ => true | None => false end)
       | OArr arrs tn => existsb (fun kv => key_is "time" (fst kv)) l =
                         (match tn with Some _ => true | None => false end || existsb (fun p => str_eqb (fst p) (S_ "time")) arrs)
       end)
  | _ => False
  end.
Proof. exact optional_keys. Qed.

(* nested subsequences and subsequences with another sample rate are refused, leaving the sequence unchanged *)
Theorem C18_subsequence_guards : forall s pos sub,
  (existsb (fun p : Z * entry => entry_is_sub (snd p)) (sdata sub) = true -> seq_add_sub s pos sub = (s, Some EValue)) /\
  (val_eqb (seq_SR sub) (seq_SR s) = false -> snd (seq_add_sub s pos sub) = Some EValue /\ fst (seq_add_sub s pos sub) = s).
Proof. exact subsequence_guards. Qed.

(* points and duration account for subsequence content; duration is weighted by the repetitions *)
Theorem C18_points : forall s, seq_points s = sumR entry_points (avals (sdata s)).
Proof. exact points_spec. Qed.
Theorem C18_points_sub : forall sb, entry_points (ESub sb) = sumR el_points (avals (sdata sb)).
Proof. exact points_sub. Qed.
Theorem C18_duration_step : forall (E : Type) (edur : E -> result Q) sq p x l q d r,
  alookup Z.eqb p sq = Some q -> edur x = Ok d -> dur_loop edur sq l = Ok r ->
  dur_loop edur sq ((p, x) :: l) = Ok (inject_Z (nrep q) * d + r)%Q.
Proof. exact duration_step. Qed.

Print Assumptions C18_schema.
Print Assumptions C18_positions.
Print Assumptions C18_element_entry.
Print Assumptions C18_subsequence_entry.
Print Assumptions C18_optional_keys.
Print Assumptions C18_subsequence_guards.
Print Assumptions C18_points.
Print Assumptions C18_points_sub.
Print Assumptions C18_duration_step.
