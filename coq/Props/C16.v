(* C16 - placeholder until Proofs/AddFacts.v lands. *)
From Coq Require Import List.
From BB Require Import Base.Names.
Theorem C16_placeholder : forall l, NoDup (uniquify l).
Proof. exact uniquify_NoDup. Qed.
Print Assumptions C16_placeholder.
