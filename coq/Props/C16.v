(* C16 - sequence concatenation is compositional, associative and retargets jumps.
   Only statements; every proof is `exact <lemma>` into Proofs/AddFacts.v. *)
From Coq Require Import String List ZArith QArith Bool Permutation.
From BB Require Import Base.Names Base.Num Base.PyList Model.Types Model.Blueprint Model.Forge Model.Element
  Model.PyVal Model.Sequence Proofs.AddFacts.
Import ListNotations.
Open Scope Z_scope.

(* a + b succeeds exactly for consistent operands with equal settings, and raises the stated errors otherwise *)
Theorem C16_add_defined : forall a b,
  seq_check a = Ok true -> seq_check b = Ok true ->
  (specs_eqb (sspecs a) (sspecs b) = true -> exists c, seq_add a b = Ok c) /\
  (specs_eqb (sspecs a) (sspecs b) = false -> seq_add a b = Err ESeqCompat).
Proof. exact add_defined. Qed.

Theorem C16_add_inconsistent : forall a b,
  (seq_check a = Ok false -> seq_add a b = Err ESeqConsistency) /\
  (seq_check a = Ok true -> seq_check b = Ok false -> seq_add a b = Err ESeqConsistency).
Proof. exact add_inconsistent. Qed.

(* len(a) + len(b) positions; position p <= len(a) holds a's entry p, position p > len(a) holds b's entry p - len(a) *)
Theorem C16_add_positions : forall a b c,
  seq_add a b = Ok c -> positions_1N a -> positions_1N b ->
  let N := Z.of_nat (length (sdata a)) in
  length (sdata c) = (length (sdata a) + length (sdata b))%nat /\ positions_1N c /\
  (forall p, 1 <= p <= N -> alookup Z.eqb p (sdata c) = alookup Z.eqb p (sdata a)) /\
  (forall p, N < p -> alookup Z.eqb p (sdata c) = alookup Z.eqb (p - N) (sdata b)) /\
  sspecs c = sspecs b.
Proof. exact add_positions. Qed.

(* sequencing: a's entries unchanged; b's with every POSITIVE goto and jump target increased by len(a),
   0 (next / off) and -1 (next) keep their meaning *)
(* CORRECTED (the original statement is false for the model): two well-formedness hypotheses on b's sequencing dict
   are needed by the whole conjunction, not only by the second part.
   - positive keys of sseq b are needed by the FIRST part: a key k <= 0 of b lands on k + N <= N and overwrites a's
     entry (a with 2 positions, sseq b = [(0, q)]: position 2 of a + b carries q, not a's entry);
   - pairwise different keys (always true of a Python dict, not of a raw association list) are needed by the SECOND
     part: dict.update keeps the last of two entries with the same key, alookup finds the first
     (sseq b = [(1, q); (1, q')]: position N + 1 of a + b carries q', alookup 1 (sseq b) is q). *)
Theorem C16_add_sequencing : forall a b c,
  seq_add a b = Ok c -> seq_keys_ok a ->
  (forall k, In k (akeys (sseq b)) -> 1 <= k) -> NoDup (akeys (sseq b)) ->
  let N := Z.of_nat (length (sdata a)) in
  (forall p, 1 <= p <= N -> alookup Z.eqb p (sseq c) = alookup Z.eqb p (sseq a)) /\
  (forall p, N < p ->
     alookup Z.eqb p (sseq c) = option_map (shift_sq N) (alookup Z.eqb (p - N) (sseq b))).
Proof. exact add_sequencing. Qed.

Theorem C16_retarget : forall N q,
  twait (shift_sq N q) = twait q /\ nrep (shift_sq N q) = nrep q /\ jump_input (shift_sq N q) = jump_input q /\
  goto (shift_sq N q) = (if 0 <? goto q then goto q + N else goto q) /\
  jump_target (shift_sq N q) = (if 0 <? jump_target q then jump_target q + N else jump_target q) /\
  (goto q = 0 -> goto (shift_sq N q) = 0) /\ (jump_target q = -1 -> jump_target (shift_sq N q) = -1) /\
  (jump_target q = 0 -> jump_target (shift_sq N q) = 0).
Proof. exact retarget. Qed.

(* forged output: with the operands' settings literally identical, every position of a + b forges exactly as the
   operand's position does (delays, filters, time axis options alike) *)
Theorem C16_add_forge_entry : forall a b c f t x,
  seq_add a b = Ok c -> sspecs a = sspecs b ->
  forge_entry c f t x = forge_entry a f t x /\ forge_entry c f t x = forge_entry b f t x.
Proof. exact add_forge_entry. Qed.

(* associativity: whenever both bracketings are defined they are the same sequence *)
Theorem C16_add_assoc : forall a b c ab bc l r,
  positions_1N a -> positions_1N b -> positions_1N c -> seq_keys_ok a -> seq_keys_ok b -> seq_keys_ok c ->
  (forall k, In k (akeys (sseq b)) -> 1 <= k) -> (forall k, In k (akeys (sseq c)) -> 1 <= k) ->
  NoDup (akeys (sseq a)) -> NoDup (akeys (sseq b)) -> NoDup (akeys (sseq c)) ->
  seq_add a b = Ok ab -> seq_add ab c = Ok l -> seq_add b c = Ok bc -> seq_add a bc = Ok r -> l = r.
Proof. exact add_assoc. Qed.

(* an empty left operand is the identity on data and sequencing *)
Theorem C16_add_empty_left : forall b c,
  seq_add (mkSeq [] [] (sspecs b) []) b = Ok c -> NoDup (akeys (sdata b)) -> NoDup (akeys (sseq b)) ->
  sdata c = sdata b /\ sseq c = map (fun p => (fst p + 0, shift_sq 0 (snd p))) (sseq b).
Proof. exact add_empty_left. Qed.

(* blueprint concatenation: for a second operand without waituntil the forged blocks are the operands' blocks in
   order, and the second operand's segment-bound marker specs are those of b moved by the length of a *)
Theorem C16_bp_add_forge : forall a b SR fa fb,
  length (args a) = length (funs a) -> length (durs a) = length (funs a) ->
  length (args b) = length (funs b) -> length (durs b) = length (funs b) ->
  has_wait b = false ->
  forge_bp_with a SR (durs a) = Ok fa -> forge_bp_with b SR (durs b) = Ok fb ->
  exists f, forge_bp_with (bp_add a b) SR (durs (bp_add a b)) = Ok f /\
    fblocks f = fblocks fa ++ fblocks fb /\ fN f = fN fa + fN fb /\ fnewdurs f = fnewdurs fa ++ fnewdurs fb.
Proof. exact bp_add_forge. Qed.

Theorem C16_bp_add_segment_markers : forall SR na nb (sma smb : list mspec),
  length sma = length na -> length smb = length nb ->
  seg_specs SR (starts 0 (na ++ nb)) (sma ++ smb) =
  seg_specs SR (starts 0 na) sma ++ seg_specs SR (starts (sumZ na) nb) smb.
Proof. exact bp_add_segment_markers. Qed.

Print Assumptions C16_add_defined.
Print Assumptions C16_add_inconsistent.
Print Assumptions C16_add_positions.
Print Assumptions C16_add_sequencing.
Print Assumptions C16_retarget.
Print Assumptions C16_add_forge_entry.
Print Assumptions C16_add_assoc.
Print Assumptions C16_add_empty_left.
Print Assumptions C16_bp_add_forge.
Print Assumptions C16_bp_add_segment_markers.
