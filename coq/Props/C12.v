(* C12 - ripasso filters multiply every DFT bin by the stated transfer function.
   Statements about the GENERATED definitions (Generated/RipassoGen.v, re-translated from the source on every
   run); every proof is `exact <lemma>` into Numeric/RipassoFacts.v.  numpy.fft.fft / ifft and np.interp are
   external code: they appear as universally quantified functions, the DFT facts used are explicit premises. *)
From Coq Require Import Reals ZArith String.
From Coquelicot Require Import Coquelicot.
From BB Require Import Numeric.NumpyPrims Generated.RipassoGen Numeric.RipassoFacts.
Open Scope R_scope.

(* numpy's bin layout, for odd and even lengths alike *)
Theorem C12_bin_layout : forall SR n j, SR <> 0 -> (0 < n)%nat -> (j < n)%nat ->
  ((2 * j < n)%nat -> bin_freq SR n j = INR j * SR / INR n) /\
  ((n <= 2 * j)%nat -> bin_freq SR n j = - (INR (n - j) * SR / INR n)).
Proof. exact bin_layout. Qed.

Theorem C12_bins_mirror : forall SR n j, SR <> 0 -> (0 < j < n)%nat -> (2 * j <> n)%nat ->
  bin_freq SR n (n - j) = - bin_freq SR n j.
Proof. exact bins_mirror. Qed.

(* every bin of the transfer function is H(f)^order, for negative orders (the compensation) too *)
Theorem C12_lowpass_bins : forall SR n f_cut order g j,
  _rcFilter_gen SR n f_cut "LP" order g j = Cpowz (H_LP (bin_freq SR n j) f_cut) order.
Proof. exact lowpass_bins. Qed.

Theorem C12_highpass_bins : forall SR n f_cut order g j,
  f_cut <> 0 -> bin_freq SR n j <> 0 ->
  _rcFilter_gen SR n f_cut "HP" order g j = Cpowz (H_HP (bin_freq SR n j) f_cut) order.
Proof. exact highpass_bins. Qed.

(* at f = 0 the high pass has the stated DC gain *)
Theorem C12_highpass_dc : forall SR n f_cut order g j,
  bin_freq SR n j = 0 -> _rcFilter_gen SR n f_cut "HP" order g j = Cpowz (RtoC g) order.
Proof. exact highpass_dc. Qed.

(* the transfer function of a real filter is Hermitian: bin n-j is the conjugate of bin j *)
Theorem C12_hermitian : forall SR n f_cut kind order g j,
  SR <> 0 -> f_cut <> 0 -> (kind = "HP" \/ kind = "LP")%string -> (0 < j < n)%nat -> (2 * j <> n)%nat ->
  _rcFilter_gen SR n f_cut kind order g (n - j) = Cconj (_rcFilter_gen SR n f_cut kind order g j).
Proof. exact rc_hermitian. Qed.

(* the filters return a real signal of the input length whose DFT bin j (below Nyquist, either side) is the
   input's bin times the transfer function: applyRCFilter with H^order, applyInverseRCFilter with H^-order *)
Theorem C12_filter_spectrum : forall fft ifft n (x : nat -> R) SR kind f_cut order g j,
  fft_inverse fft ifft n -> fft_real_part fft n -> fft_real_hermitian fft n ->
  SR <> 0 -> f_cut <> 0 -> (kind = "HP" \/ kind = "LP")%string -> (0 < j < n)%nat -> (2 * j <> n)%nat ->
  applyRCFilter_len n x SR kind f_cut order g = n /\
  fft n (fun k => RtoC (applyRCFilter_gen fft ifft n x SR kind f_cut order g k)) j =
    Cmult (fft n (fun k => RtoC (x k)) j) (_rcFilter_gen SR n f_cut kind order g j) /\
  fft n (fun k => RtoC (applyInverseRCFilter_gen fft ifft n x SR kind f_cut order g k)) j =
    Cmult (fft n (fun k => RtoC (x k)) j) (_rcFilter_gen SR n f_cut kind (- order) g j).
Proof. exact filter_spectrum. Qed.

(* invalid arguments are rejected: the guards of the two entry points *)
Theorem C12_guards : forall n (x : nat -> R) SR kind f_cut order g,
  (applyRCFilter_guard0 n x SR kind f_cut order g <-> (kind = "HP" \/ kind = "LP")%string) /\
  (applyInverseRCFilter_guard0 n x SR kind f_cut order g <-> (kind = "HP" \/ kind = "LP")%string) /\
  (applyInverseRCFilter_guard1 n x SR kind f_cut order g <-> g > 0) /\
  applyRCFilter_guard0_exn = "ValueError"%string /\ applyInverseRCFilter_guard0_exn = "ValueError"%string /\
  applyInverseRCFilter_guard1_exn = "ValueError"%string.
Proof. exact rc_guards. Qed.

(* custom transfer function: bin j is multiplied by the user's function interpolated at |f_j|
   (divided, with invert=True), for odd and even lengths alike *)
Theorem C12_custom_bins : forall fft ifft interp round6 n (x : nat -> R) SR m tf_freqs tf_amp invert k,
  ext_on ifft n -> SR > 0 -> (0 < n)%nat ->
  applyCustomTransferFunction_gen fft ifft interp round6 n x SR m tf_freqs tf_amp invert k =
  fst (ifft n (fun j => Cmult (fft n (fun i => RtoC (x i)) j)
                              (RtoC (Rpowz (interp m tf_freqs tf_amp (Rabs (bin_freq SR n j)))
                                           (if invert then (-1)%Z else 1%Z)))) k).
Proof. exact custom_bins. Qed.

(* frequency axes that are not strictly increasing (after rounding to 1e-6) or stop short of Nyquist are rejected *)
Theorem C12_custom_guards : forall round6 n (x : nat -> R) SR m tf_freqs tf_amp invert,
  (applyCustomTransferFunction_guard0 round6 n x SR m tf_freqs tf_amp invert <->
   forall i, (i < Nat.pred m)%nat -> round6 (tf_freqs (S i) - tf_freqs i) > 0) /\
  (applyCustomTransferFunction_guard1 n x SR m tf_freqs tf_amp invert <-> tf_freqs (Nat.pred m) >= SR / 2) /\
  applyCustomTransferFunction_guard0_exn = "ValueError"%string /\
  applyCustomTransferFunction_guard1_exn = "MissingFrequenciesError"%string.
Proof. exact custom_guards. Qed.

(* all three are linear in the signal whenever fft and ifft are *)
Theorem C12_linear : forall fft ifft n (x y : nat -> R) (a : R) SR kind f_cut order g k,
  (forall (u v : nat -> C) (c : C) j, fft n (fun i => Cplus (Cmult c (u i)) (v i)) j = Cplus (Cmult c (fft n u j)) (fft n v j)) ->
  (forall (u v : nat -> C) (c : C) j, ifft n (fun i => Cplus (Cmult c (u i)) (v i)) j = Cplus (Cmult c (ifft n u j)) (ifft n v j)) ->
  ext_on fft n -> ext_on ifft n ->
  applyRCFilter_gen fft ifft n (fun i => a * x i + y i) SR kind f_cut order g k =
  a * applyRCFilter_gen fft ifft n x SR kind f_cut order g k + applyRCFilter_gen fft ifft n y SR kind f_cut order g k.
Proof. exact rc_linear. Qed.

Print Assumptions C12_bin_layout.
Print Assumptions C12_bins_mirror.
Print Assumptions C12_lowpass_bins.
Print Assumptions C12_highpass_bins.
Print Assumptions C12_highpass_dc.
Print Assumptions C12_hermitian.
Print Assumptions C12_filter_spectrum.
Print Assumptions C12_guards.
Print Assumptions C12_custom_bins.
Print Assumptions C12_custom_guards.
Print Assumptions C12_linear.
