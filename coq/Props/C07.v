(* C07 - sequence consistency gate: only gap-free, homogeneous sequences produce output.
   Only statements; every proof is `exact <lemma>` into Proofs/SequenceFacts.v. *)
From Coq Require Import String List ZArith QArith Bool Permutation.
From BB Require Import Base.Names Base.Num Base.PyList Model.Types Model.Blueprint Model.Forge Model.Element
  Model.PyVal Model.Sequence Model.Output Model.Tools Proofs.SequenceFacts.
Import ListNotations.

(* the channel sorter (ints before strings) identifies exactly the channel lists that are permutations *)
Theorem C07_sorter_perm : forall a b,
  list_eqb chan_eqb (sort_chans a) (sort_chans b) = true <-> Permutation a b.
Proof. exact sorter_perm. Qed.

(* the position test accepts exactly the gap-free key sets, whatever the insertion order *)
Theorem C07_positions : forall ps, positions_ok ps = true <-> (ps = [] \/ gap_free ps).
Proof. exact positions_ok_spec. Qed.

(* checkConsistency, when it returns, returns True exactly for gap-free, homogeneous sequences *)
Theorem C07_iff : forall (E : Type) (eSR : E -> result val) (eChans : E -> result (list chan)) (s : seqT E) SRs cs b,
  mapM eSR (avals (sdata s)) = Ok SRs -> numeric SRs ->
  mapM eChans (avals (sdata s)) = Ok cs ->
  check_consistency eSR eChans s = Ok b ->
  (b = true <-> (rates_agree SRs /\ channels_agree cs /\ (sdata s = [] \/ gap_free (akeys (sdata s))))).
Proof. exact check_iff. Qed.

(* and it does return whenever a sample rate is set and every entry answers SR and channels *)
Theorem C07_returns : forall (E : Type) (eSR : E -> result val) (eChans : E -> result (list chan)) (s : seqT E) SRs cs,
  spec_get s key_sr <> None ->
  mapM eSR (avals (sdata s)) = Ok SRs -> mapM eChans (avals (sdata s)) = Ok cs ->
  exists b, check_consistency eSR eChans s = Ok b.
Proof. exact check_returns. Qed.

Theorem C07_no_rate_raises : forall (E : Type) (eSR : E -> result val) (eChans : E -> result (list chan)) (s : seqT E),
  spec_get s key_sr = None -> check_consistency eSR eChans s = Err EKey.
Proof. exact check_no_rate. Qed.

(* the gate: on a sequence that is not consistent every producer raises - never partial output *)
Theorem C07_gate : forall s,
  seq_check s = Ok false ->
  (forall d f t, seq_forge s d f t = Err EValue) /\
  seq_channels s = Err ESeqConsistency /\
  (forall t, seq_add s t = Err ESeqConsistency) /\
  (forall t, seq_check t = Ok true -> seq_add t s = Err ESeqConsistency) /\
  (forall ps cs ns ars its, repeat_and_vary s ps cs ns ars its = Err ESeqConsistency) /\
  prepare s = Err EValue /\
  (forall ix, pv_awg s ix = PErr EValue) /\
  (forall fl, output_seqx s fl = PErr EValue).
Proof. exact gate_inconsistent. Qed.

(* a failing check (no rate, an entry that cannot answer) propagates to every producer as well *)
Theorem C07_gate_error : forall s e,
  seq_check s = Err e ->
  (forall d f t, seq_forge s d f t = Err e) /\ seq_channels s = Err e /\ (forall t, seq_add s t = Err e) /\
  (forall ps cs ns ars its, repeat_and_vary s ps cs ns ars its = Err e) /\ prepare s = Err e /\
  (forall ix, pv_awg s ix = PErr e) /\ (forall fl, output_seqx s fl = PErr e).
Proof. exact gate_error. Qed.

(* required settings: a missing amplitude or sequencing entries that do not match the positions stop both
   back ends; a missing offset stops the AWG5014 package *)
Theorem C07_missing_amplitude : forall s chans ch,
  seq_check s = Ok true -> first_channels s = Ok chans ->
  list_eqb Z.eqb (sort_Z (akeys (sseq s))) (range1 (length (sdata s))) = true ->
  In ch chans -> spec_get s (key_amp ch) = None ->
  prepare s = Err EKey /\ (forall ix, pv_awg s ix = PErr EKey) /\ (forall fl, output_seqx s fl = PErr EKey).
Proof. exact missing_amplitude. Qed.

Theorem C07_bad_sequencing_keys : forall s,
  seq_check s = Ok true -> (exists chans, first_channels s = Ok chans) ->
  list_eqb Z.eqb (sort_Z (akeys (sseq s))) (range1 (length (sdata s))) = false ->
  prepare s = Err EValue /\ (forall ix, pv_awg s ix = PErr EValue) /\ (forall fl, output_seqx s fl = PErr EValue).
Proof. exact bad_sequencing_keys. Qed.

Theorem C07_missing_offset : forall s chans els ch,
  prepare s = Ok (chans, els) -> In ch chans -> spec_get s (key_off ch) = None ->
  forall ix, pv_awg s ix = PErr EValue.
Proof. exact missing_offset. Qed.

(* non-vacuity: positions added as 2 then 1 are gap-free; a gap is detected *)
Example C07_example :
  positions_ok [2; 1]%Z = true /\ positions_ok [1; 3]%Z = false /\ gap_free [3; 1; 2]%Z /\
  list_eqb chan_eqb (sort_chans [CStr (S_ "A"); CInt 2; CInt 1]) (sort_chans [CInt 1; CStr (S_ "A"); CInt 2]) = true.
Proof. exact consistency_example. Qed.

Print Assumptions C07_sorter_perm.
Print Assumptions C07_positions.
Print Assumptions C07_iff.
Print Assumptions C07_returns.
Print Assumptions C07_no_rate_raises.
Print Assumptions C07_gate.
Print Assumptions C07_gate_error.
Print Assumptions C07_missing_amplitude.
Print Assumptions C07_bad_sequencing_keys.
Print Assumptions C07_missing_offset.
