(* C10 - placeholder until Proofs/DelayFacts.v lands. *)
From Coq Require Import QArith Qabs.
From BB Require Import Base.Num.
Theorem C10_round_robust : forall (n : Z) (f eps : Q),
  Qabs f <= 2#5 -> Qabs eps <= 9#100 -> rnd (inject_Z n + f + eps) = n.
Proof. exact rnd_robust. Qed.
Print Assumptions C10_round_robust.
