(* C10 - channel delays shift exactly the addressed channel, identically in every path.
   Only statements; every proof is `exact <lemma>` into Proofs/DelayFacts.v.
   Partial: the waveform/count part is proved here; the marker clauses (segment-bound and raw-array markers
   move, absolute markers stay) are covered by the correspondence check and the statement oracle only. *)
From Coq Require Import String List ZArith QArith Qabs Bool Permutation.
From BB Require Import Base.Names Base.Num Base.PyList Model.Types Model.Blueprint Model.Forge Model.Element
  Model.PyVal Model.Sequence Model.Output Proofs.DelayFacts.
Import ListNotations.
Open Scope Q_scope.

(* the delayed blueprint forges to: [waituntil pad of kd samples] ++ the undelayed blocks ++ [ramp(0,0) of kp
   samples]; inner waituntil targets move with the waveform so every original segment keeps its count *)
(* extra hypothesis length (names b) = length (funs b): insertSegment(-1) takes its position from the NAME list and
   bp_wf says nothing about names; with names = [] and one segment the ramp(0,0) pad lands in FRONT of the
   waveform (counterexample in Proofs/DelayFacts.v, delay_needs_names) *)
Theorem C10_shift_blueprint : forall b SR d M f kd kp,
  0 < SR -> bp_wf b -> length (names b) = length (funs b) -> forge_bp_with b SR (durs b) = Ok f ->
  0 <= d -> d <= M ->
  d * SR == inject_Z kd -> (kd = 0 \/ 2 <= kd)%Z ->
  (M - d) * SR == inject_Z kp -> (kp = 0 \/ 2 <= kp)%Z ->
  exists b' f', delay_bp b d M = Ok b' /\ forge_bp_with b' SR (durs b') = Ok f' /\
    map bn (fblocks f') = (if (0 <? kd)%Z then [kd] else []) ++ map bn (fblocks f) ++ (if (0 <? kp)%Z then [kp] else []) /\
    map bfn (fblocks f') = (if (0 <? kd)%Z then [Fwait] else []) ++ map bfn (fblocks f) ++ (if (0 <? kp)%Z then [Framp] else []) /\
    fN f' = (kd + fN f + kp)%Z.
Proof. exact shift_blueprint. Qed.

(* the appended padding is ramp(0, 0): zeros; non-waituntil segments keep their stored arguments *)
(* extra hypotheses on the list lengths, for the same reason as above: the end position comes from len(names) *)
Theorem C10_padding_args : forall b d M b',
  length (names b) = length (funs b) -> length (args b) = length (funs b) ->
  delay_bp b d M = Ok b' ->
  (0 < M - d -> exists pre, args b' = pre ++ [[VNum 0; VNum 0]] /\ funs b' = removelast (funs b') ++ [Framp]) /\
  (forall k f a, nth_error (funs b) k = Some f -> fn_eqb f Fwait = false -> nth_error (args b) k = Some a ->
     nth_error (args b') (if Qlt_le_dec 0 d then S k else k) = Some a).
Proof. exact padding_args. Qed.

(* raw arrays are padded by round(d*SR) zeros in front and round((M-d)*SR) behind, every stored array alike *)
Theorem C10_shift_arrays : forall arrs d M SR n r,
  alookup str_eqb n (delay_arrays arrs d M SR) = Some r ->
  exists r0, alookup str_eqb n arrs = Some r0 /\ r = rle_pad (rnd (d * SR)) (rnd ((M - d) * SR)) r0 /\
             rle_len r = (rnd (d * SR) + rle_len r0 + rnd ((M - d) * SR))%Z.
Proof. exact shift_arrays. Qed.

(* each delay is applied to the channel it was set for, whatever order the element lists its channels in *)
Theorem C10_by_channel : forall dl e e' SRq,
  apply_delays_elem dl e = Ok e' -> el_sr e = Ok (VNum SRq) ->
  map fst (edata e') = map fst (edata e) /\
  exists ds, mapM (fun c => match alookup chan_eqb c dl with Some q => Ok q | None => Err EKey end) (el_channels e) = Ok ds /\
    forall i c ch, nth_error (edata e) i = Some (c, ch) ->
      exists d ch', alookup chan_eqb c dl = Some d /\ nth_error ds i = Some d /\
                    nth_error (edata e') i = Some (c, ch') /\ delayed_entry ch d (qmax ds) SRq ch'.
Proof. exact delays_by_channel. Qed.

(* forge() and the AWG/SEQX preparation treat a blueprint channel identically: same delayed blueprint, which
   forges the same whether or not it went through addBluePrint's copy *)
Theorem C10_paths_agree_blueprint : forall s e M c d ch b b',
  el_lookup e c = Some ch -> ckind ch = KBp b -> delay_bp b d M = Ok b' -> bp_has_empty_list b' = false ->
  prepare_chan s e M (c, d) = Ok (c, mkCh (KBp (bp_copy b')) (cflags ch)) /\
  forall SR ds, forge_bp_with (bp_copy b') SR ds = forge_bp_with b' SR ds.
Proof. exact paths_agree_blueprint. Qed.

Theorem C10_paths_agree_arrays : forall s e M c d ch arrs asr SRq,
  el_lookup e c = Some ch -> ckind ch = KArr arrs asr -> asr = Some (VNum SRq) ->
  prepare_chan s e M (c, d) = Ok (c, mkCh (KArr (delay_arrays arrs d M SRq) asr) (cflags ch)).
Proof. exact paths_agree_arrays. Qed.

(* with all delays zero nothing is inserted and nothing is padded *)
Theorem C10_zero_delay : forall b, bp_wf b -> delay_bp b 0 0 = Ok b.
Proof. exact zero_delay_bp. Qed.

Theorem C10_zero_delay_arrays : forall arrs SR n r,
  alookup str_eqb n (delay_arrays arrs 0 0 SR) = Some r -> exists r0, alookup str_eqb n arrs = Some r0 /\ r = rle_pad 0 0 r0.
Proof. exact zero_delay_arrays. Qed.

(* non-vacuity: 3 samples of delay on a 2-segment blueprint with an inner waituntil, maximum delay 5 samples *)
Example C10_example :
  let b := mkBp [S_ "ramp"; S_ "waituntil"; S_ "ua"] [Framp; Fwait; Fua] [[VNum 0; VNum 1]; [VNum (10 # 100)]; [VNum 1]]
                [VNum (4 # 100); VNone; VNum (3 # 100)] [(0,0); (0,0); (0,0)] [(0,0); (0,0); (0,0)] [] [] (VNum 100) in
  bp_wf b /\
  exists b' f', delay_bp b (3 # 100) (5 # 100) = Ok b' /\ forge_bp_with b' 100 (durs b') = Ok f' /\
                map bn (fblocks f') = [3; 4; 6; 3; 2]%Z /\ map bfn (fblocks f') = [Fwait; Framp; Fwait; Fua; Framp].
Proof. exact delay_example. Qed.

(* The quantifier of C10 ("delays that are whole numbers of samples") also admits paddings of exactly ONE sample,
   which the two theorems above exclude (kd, kp in {0} U [2, oo)).  There the full statement is FALSE of the faithful
   model, and of the code (two open known findings, known_findings.json: one-sample-pre-padding,
   one-sample-post-padding): the padding is a blueprint segment and a segment needs two samples.  Witnesses computed
   in the model; the same inputs are corpus/C10/kf_*.json and are replayed on the implementation by every run. *)
Theorem C10_one_sample_pre_padding_refuted :
  exists b SR d M f, 0 < SR /\ bp_wf b /\ length (names b) = length (funs b) /\ forge_bp_with b SR (durs b) = Ok f /\
    0 <= d /\ d <= M /\ d * SR == inject_Z 1 /\ (M - d) * SR == inject_Z 2 /\
    exists b', delay_bp b d M = Ok b' /\ forge_bp_with b' SR (durs b') = Err ESegDur.
Proof. exact one_sample_pre_padding_refuted. Qed.

Theorem C10_one_sample_post_padding_refuted :
  exists b SR d M f, 0 < SR /\ bp_wf b /\ length (names b) = length (funs b) /\ forge_bp_with b SR (durs b) = Ok f /\
    0 <= d /\ d <= M /\ d * SR == inject_Z 2 /\ (M - d) * SR == inject_Z 1 /\
    exists b', delay_bp b d M = Ok b' /\ forge_bp_with b' SR (durs b') = Err ESegDur.
Proof. exact one_sample_post_padding_refuted. Qed.

Print Assumptions C10_shift_blueprint.
Print Assumptions C10_padding_args.
Print Assumptions C10_shift_arrays.
Print Assumptions C10_by_channel.
Print Assumptions C10_paths_agree_blueprint.
Print Assumptions C10_paths_agree_arrays.
Print Assumptions C10_zero_delay.
Print Assumptions C10_zero_delay_arrays.
Print Assumptions C10_one_sample_pre_padding_refuted.
Print Assumptions C10_one_sample_post_padding_refuted.
