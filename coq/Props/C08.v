(* C08 - forging, output and queries are read-only and repeatable.
   Two layers: (1) in the functional model every observation leaves the store unchanged and commutes with any
   interleaving of observations - the model is tied to the implementation by the correspondence check, so an
   implementation that mutated state in a read-only call would diverge from it; (2) the effect table
   (alias/table.json -> Model/AliasTable.v, checked against the real objects by harness/alias.py): every
   read-only operation writes only validation caches that no observation reads, hence the frame theorem applies.
   Partial: aliasing outside the container schema cannot be exhibited by the model. *)
From Coq Require Import String List Bool.
From BB Require Import Model.AliasTable Model.Alias Model.Interp Proofs.AliasFacts Proofs.InterpFacts.
Import ListNotations.

Theorem C08_observation_pure : forall st o, is_observation o = true -> fst (exec st o) = st.
Proof. exact observation_pure. Qed.

Theorem C08_repeatable_in_model : forall st os o,
  forallb is_observation os = true ->
  snd (exec (fold_left (fun s x => fst (exec s x)) os st) o) = snd (exec st o).
Proof. exact observations_commute. Qed.

Theorem C08_readonly_rows : forall r, In r readonly_ops -> readonly_ok r = true.
Proof. exact readonly_rows. Qed.

Theorem C08_interleavings : forall (V A : Type) recv (tr : list (@event V)) (o : @heap V -> A),
  Forall respects tr ->
  Forall (fun e => exists rname ws, In (rname, recv, ws) readonly_ops /\ ev_writes e = src_cells ws) tr ->
  depends_only_on o (src_cells (observed recv)) ->
  forall h, o (run_trace tr h) = o h.
Proof. intros V A. exact (@readonly_interleavings V A). Qed.

Theorem C08_frame : forall (V A : Type) (tr : list (@event V)) (o : @heap V -> A) reads,
  Forall respects tr -> depends_only_on o reads ->
  Forall (fun e => disjointb (ev_writes e) reads = true) tr ->
  forall h, o (run_trace tr h) = o h.
Proof. intros V A. exact (@frame_trace V A). Qed.

Theorem C08_table_scoped : well_scoped = true.
Proof. exact table_well_scoped. Qed.

Print Assumptions C08_observation_pure.
Print Assumptions C08_repeatable_in_model.
Print Assumptions C08_readonly_rows.
Print Assumptions C08_interleavings.
Print Assumptions C08_frame.
Print Assumptions C08_table_scoped.
