(* C01, source-constant part: the minimum segment length used by the forging model is the one in the source. *)
From Coq Require Import ZArith QArith List.
From BB Require Import Base.Num Model.Types Model.Forge Generated.OutputGuardsGen Numeric.ForgeConstants.
Import ListNotations.
Open Scope Z_scope.

Theorem C01_min_points_source : min_points = forge_min_points.
Proof. exact forge_min_points_source. Qed.
Print Assumptions C01_min_points_source.

Theorem C01_int_durs_source : forall SR d,
  int_durs SR [VNum d] = if rnd (d * SR) <? forge_min_points then Err ESegDur else Ok [rnd (d * SR)].
Proof. exact int_durs_single_source. Qed.
Print Assumptions C01_int_durs_source.
