(* C17 (continued) - the content of makeLinearlyVaryingSequence and repeatAndVarySequence.
   Only statements; every proof is `exact <lemma>` into Proofs/SweepFacts.v (the two closing non-vacuity examples
   are computed).  Read together with Props/C17.v (C17_step_is_edit: what one el_vary step is; C17_linspace: what the
   values are) and Props/C16.v (C16_retarget: what shift_sq does). *)
From Coq Require Import String List ZArith QArith Qabs Bool Permutation.
From BB Require Import Base.Names Base.Num Base.PyList Model.Types Model.Blueprint Model.Forge Model.Element
  Model.PyVal Model.Sequence Model.Tools Model.Interp Proofs.BlueprintFacts Proofs.AddFacts Proofs.ToolsFacts
  Proofs.ReachFacts Proofs.SweepFacts.
Import ListNotations.

(* ================= makeLinearlyVaryingSequence ================= *)

(* the complete behaviour, errors included: after the three guards (the base element's sample rate, step = 0, a
   negative count) every value v of the linspace is applied to the base element (lin_step: the one edit el_vary, then
   addElement's validation); the first failing step's exception is the result (mapM); otherwise the result is lin_seq:
   the edited elements at positions 1..n in order, default sequencing, the sample rate the only setting *)
Theorem C17b_make_linear_eq : forall base c n a start stop stp,
  make_linear base c n a start stop stp =
  (do SR <- el_sr base;
   if Qeq_bool stp 0 then Err EZeroDiv else
   if (rnd (Qabs (stop - start) / stp) + 1 <? 0)%Z then Err EValue else
   do es <- mapM (lin_step base c n a) (linspace start stop (rnd (Qabs (stop - start) / stp) + 1));
   Ok (lin_seq SR es)).
Proof. exact make_linear_eq. Qed.

(* content: as many positions as values, the positions are 1..n in order; position k+1 holds exactly the base element
   with the k-th value applied by the one edit (C17_step_is_edit says which edit), it validates, keeps the base
   element's sample rate and channel ids; default sequencing at every position; the sample rate is the only setting;
   no name; the result is consistent *)
Theorem C17b_make_linear_content : forall base c n a start stop stp s,
  make_linear base c n a start stop stp = Ok s ->
  let vals := linspace start stop (rnd (Qabs (stop - start) / stp) + 1) in
  exists SR, el_sr base = Ok SR /\
  length (sdata s) = length vals /\
  map fst (sdata s) = range1 (length vals) /\
  (forall k v, nth_error vals k = Some v ->
     exists e', el_vary base c n a (VNum v) = (e', None) /\
       nth_error (sdata s) k = Some ((Z.of_nat k + 1)%Z, EElem e') /\
       alookup Z.eqb (Z.of_nat k + 1)%Z (sdata s) = Some (EElem e') /\
       (exists r, el_validate e' = Ok r) /\ el_sr e' = Ok SR /\ el_channels e' = el_channels base) /\
  sseq s = map (fun k : Z => (k, sq_default)) (range1 (length vals)) /\
  (forall p, (1 <= p <= Z.of_nat (length vals))%Z -> alookup Z.eqb p (sseq s) = Some sq_default) /\
  sspecs s = [(key_sr, SVal SR)] /\ seq_SR s = SR /\ sname s = [] /\
  seq_check s = Ok true.
Proof. exact make_linear_content. Qed.

(* the same in closed form: the result IS lin_seq SR es for elements es related value by value to the linspace *)
Theorem C17b_make_linear_closed : forall base c n a start stop stp s,
  make_linear base c n a start stop stp = Ok s ->
  exists SR es,
    el_sr base = Ok SR /\ Qeq_bool stp 0 = false /\ (0 <= rnd (Qabs (stop - start) / stp) + 1)%Z /\
    Forall2 (fun v e' => el_vary base c n a (VNum v) = (e', None) /\ (exists r, el_validate e' = Ok r) /\
                         el_sr e' = Ok SR /\ el_channels e' = el_channels base)
            (linspace start stop (rnd (Qabs (stop - start) / stp) + 1)) es /\
    s = lin_seq SR es /\ seq_check s = Ok true.
Proof. exact make_linear_closed. Qed.

(* the error clause: a step fails with er exactly when its edit raises er or the edited element does not validate
   (er); the first failing step determines the result of the tool *)
Theorem C17b_lin_step_err : forall base c n a v er,
  lin_step base c n a v = Err er <->
  ((exists e_, el_vary base c n a (VNum v) = (e_, Some er)) \/
   (exists e', el_vary base c n a (VNum v) = (e', None) /\ el_validate e' = Err er)).
Proof. exact lin_step_err. Qed.

Theorem C17b_make_linear_first_error : forall base c n a start stop stp SR k v er,
  el_sr base = Ok SR -> Qeq_bool stp 0 = false -> (0 <= rnd (Qabs (stop - start) / stp) + 1)%Z ->
  nth_error (linspace start stop (rnd (Qabs (stop - start) / stp) + 1)) k = Some v ->
  lin_step base c n a v = Err er ->
  (forall j w, (j < k)%nat -> nth_error (linspace start stop (rnd (Qabs (stop - start) / stp) + 1)) j = Some w ->
               exists e', lin_step base c n a w = Ok e') ->
  make_linear base c n a start stop stp = Err er.
Proof. exact make_linear_first_error. Qed.

(* ================= repeatAndVarySequence ================= *)

(* one copy: apply_variations sq vars m = Ok tmp makes tmp a varied_copy of sq - same positions in the same order,
   same sequencing, settings, name; positions no variation addresses hold sq's entry unchanged; addressed positions
   hold elements; every element is sq's element with the m-th values of the variations addressing its position
   applied in order (apply_steps, a chain of el_vary steps) *)
Theorem C17b_apply_variations_content : forall sq vars m tmp,
  apply_variations sq vars m = Ok tmp ->
  akeys (sdata tmp) = akeys (sdata sq) /\ sseq tmp = sseq sq /\ sspecs tmp = sspecs sq /\ sname tmp = sname sq /\
  (forall p, ~ In p (map v_pos vars) -> alookup Z.eqb p (sdata tmp) = alookup Z.eqb p (sdata sq)) /\
  (forall p, In p (map v_pos vars) -> exists e, alookup Z.eqb p (sdata sq) = Some (EElem e)) /\
  (forall p e, alookup Z.eqb p (sdata sq) = Some (EElem e) ->
     exists e', apply_steps e (steps_at p vars) m = Ok e' /\ alookup Z.eqb p (sdata tmp) = Some (EElem e')).
Proof. exact apply_variations_content. Qed.

(* data and settings: the input was consistent; the result has M * L positions, 1..M*L each once, namely the input's
   position list shifted copy by copy (so 1..M*L in order when the input's are 1..L in order); the AWG settings are
   the input's; no name; the entry at position m*L + p is the entry at position p of the m-th varied copy.
   No hypothesis beyond success of the call. *)
Theorem C17b_repeat_content : forall sq ps cs ns ars its r it0,
  repeat_and_vary sq ps cs ns ars its = Ok r -> hd_error its = Some it0 ->
  let vars := map (fun x : Z * (chan * (str * (argref * list val))) =>
                     let '(p, (c, (n, (a, vs)))) := x in mkVar p c n a vs)
                  (combine ps (combine cs (combine ns (combine ars its)))) in
  let M := length it0 in
  let L := length (sdata sq) in
  seq_check sq = Ok true /\ map v_pos vars = ps /\
  length (sdata r) = (M * L)%nat /\ positions_1N r /\
  akeys (sdata r) = flat_map (fun m => map (fun k => (k + Z.of_nat (m * L))%Z) (akeys (sdata sq))) (List.seq 0 M) /\
  (akeys (sdata sq) = range1 L -> akeys (sdata r) = range1 (M * L)) /\
  sspecs r = sspecs sq /\ sname r = [] /\
  forall m, (m < M)%nat ->
    exists tmp, apply_variations sq vars m = Ok tmp /\ varied_copy sq vars m tmp /\ seq_check tmp = Ok true /\
      forall p, (1 <= p <= Z.of_nat L)%Z ->
        alookup Z.eqb (Z.of_nat (m * L) + p)%Z (sdata r) = alookup Z.eqb p (sdata tmp).
Proof. exact repeat_content. Qed.

(* the same without the intermediate copies: at a position not among the addressed ones copy m holds the input's
   entry unchanged; addressed positions hold elements; the element at position p of copy m is the input's with the
   m-th value of every variation addressing p applied in order *)
Theorem C17b_repeat_entries : forall sq ps cs ns ars its r it0,
  repeat_and_vary sq ps cs ns ars its = Ok r -> hd_error its = Some it0 ->
  let vars := sweep_vars ps cs ns ars its in
  let L := length (sdata sq) in
  forall m p, (m < length it0)%nat -> (1 <= p <= Z.of_nat L)%Z ->
    (~ In p ps -> alookup Z.eqb (Z.of_nat (m * L) + p)%Z (sdata r) = alookup Z.eqb p (sdata sq)) /\
    (In p ps -> exists e, alookup Z.eqb p (sdata sq) = Some (EElem e)) /\
    (forall e, alookup Z.eqb p (sdata sq) = Some (EElem e) ->
       exists e', apply_steps e (steps_at p vars) m = Ok e' /\
                  alookup Z.eqb (Z.of_nat (m * L) + p)%Z (sdata r) = Some (EElem e')).
Proof. exact repeat_entries. Qed.

(* sequencing: for an input whose sequencing keys lie in 1..L (seq_keys_ok) and are pairwise different, the result's
   sequencing dict is the input's, copy by copy, with keys moved by m*L and positive goto / jump targets retargeted
   by m*L (shift_sq, see C16_retarget); it again satisfies seq_keys_ok *)
Theorem C17b_repeat_sequencing : forall sq ps cs ns ars its r it0,
  repeat_and_vary sq ps cs ns ars its = Ok r -> hd_error its = Some it0 ->
  seq_keys_ok sq -> NoDup (akeys (sseq sq)) ->
  let M := length it0 in
  let L := length (sdata sq) in
  sseq r = flat_map (fun m => shift_entries (Z.of_nat (m * L)) (sseq sq)) (List.seq 0 M) /\
  seq_keys_ok r /\
  forall m p, (m < M)%nat -> (1 <= p <= Z.of_nat L)%Z ->
    alookup Z.eqb (Z.of_nat (m * L) + p)%Z (sseq r) =
    option_map (shift_sq (Z.of_nat (m * L))) (alookup Z.eqb p (sseq sq)).
Proof. exact repeat_sequencing. Qed.

(* both hypotheses of C17b_repeat_sequencing are needed (checked counterexamples):
   - seq_keys_ok: keys_cx_prog runs without any call raising; the deprecated setSequenceSettings on the unfilled
     position 0 leaves a sequencing entry with key 0, which copy 1 moves onto position 1 of copy 0;
   - pairwise different keys (a modelling condition: always true of a Python dict): dict.update keeps the last of two
     entries with one key, alookup finds the first *)
Theorem C17b_sequencing_needs_keys_ok :
  let sq := seq_of_prog keys_cx_prog 0 in
  let r := seq_of_prog keys_cx_prog 1 in
  run keys_cx_prog = map (fun _ => PNone) keys_cx_prog /\
  repeat_and_vary sq [1%Z] [CInt 1] [S_ "up"] [AStr (S_ "stop")] [[VNum 1; VNum 2]] = Ok r /\
  NoDup (akeys (sseq sq)) /\ ~ seq_keys_ok sq /\
  alookup Z.eqb (Z.of_nat (0 * length (sdata sq)) + 1)%Z (sseq r) <>
  option_map (shift_sq (Z.of_nat (0 * length (sdata sq)))) (alookup Z.eqb 1%Z (sseq sq)).
Proof. exact sequencing_needs_keys_ok. Qed.

Theorem C17b_sequencing_needs_nodup :
  exists r, repeat_and_vary dup_cx_input [2%Z] [CInt 1] [S_ "up"] [AStr (S_ "stop")] [[VNum 1; VNum 2; VNum 3]] = Ok r /\
  seq_keys_ok dup_cx_input /\ ~ NoDup (akeys (sseq dup_cx_input)) /\
  alookup Z.eqb (Z.of_nat (0 * length (sdata dup_cx_input)) + 2)%Z (sseq r) <>
  option_map (shift_sq (Z.of_nat (0 * length (sdata dup_cx_input)))) (alookup Z.eqb 2%Z (sseq dup_cx_input)).
Proof. exact sequencing_needs_nodup. Qed.

(* the input of the repeat example below meets the hypotheses of all three repeat theorems *)
Theorem C17b_repeat_example_hypotheses :
  repeat_and_vary rep_input [2%Z] [CInt 1] [S_ "up"] [AStr (S_ "stop")] [[VNum 1; VNum 2; VNum 3]] = Ok rep_result /\
  seq_keys_ok rep_input /\ NoDup (akeys (sseq rep_input)).
Proof. exact rep_input_hyps. Qed.

(* ================= non-vacuity (computed) ================= *)

(* lin_prog (no call raises): a ramp + sine blueprint at SR = 100 on channels 1 and 2 of one element;
   makeLinearlyVaryingSequence(element, 1, 'up', 'start', 0, 0.3, 0.1): round(0.3 / 0.1) + 1 = 4 positions; the stored
   ramp arguments of channel 1 are [v, 1] for the four linspace values v = 0, 0.1, 0.2, 0.3; the sine segment, channel 2
   and the settings are untouched *)
Example C17b_make_linear_example :
  run lin_prog = map (fun _ => PNone) lin_prog /\
  map fst (sdata lin_result) = [1; 2; 3; 4]%Z /\
  map (fun p => seg_args lin_result p (CInt 1) 0) [1; 2; 3; 4]%Z =
    map (fun v => Some [VNum v; VNum 1]) (linspace 0 (3 # 10) (rnd (Qabs ((3 # 10) - 0) / (1 # 10)) + 1)) /\
  map Qred (linspace 0 (3 # 10) (rnd (Qabs ((3 # 10) - 0) / (1 # 10)) + 1)) = [0; 1 # 10; 1 # 5; 3 # 10]%Q /\
  map (fun p => seg_args lin_result p (CInt 1) 1) [1; 2; 3; 4]%Z =
    [Some [VNum 10; VNum 1; VNum 0; VNum 0]; Some [VNum 10; VNum 1; VNum 0; VNum 0];
     Some [VNum 10; VNum 1; VNum 0; VNum 0]; Some [VNum 10; VNum 1; VNum 0; VNum 0]] /\
  map (fun p => seg_args lin_result p (CInt 2) 0) [1; 2; 3; 4]%Z =
    [Some [VNum 0; VNum 1]; Some [VNum 0; VNum 1]; Some [VNum 0; VNum 1]; Some [VNum 0; VNum 1]] /\
  map (fun p => alookup Z.eqb p (sseq lin_result)) [1; 2; 3; 4]%Z =
    [Some sq_default; Some sq_default; Some sq_default; Some sq_default] /\
  sspecs lin_result = [(key_sr, SVal (VNum 100))] /\
  seq_check lin_result = Ok true.
Proof. vm_compute. repeat split; reflexivity. Qed.

(* rep_prog (no call raises): the same element at positions 1 and 2 of a sequence with goto 1 at position 2 and jump
   target 2 at position 1 and an amplitude setting; repeatAndVarySequence(seq, [2], [1], ['up'], ['stop'], [[1, 2, 3]]):
   6 positions 1..6; the ramp's stop argument at positions 2, 4, 6 is 1, 2, 3 and unchanged (1) at positions 1, 3, 5,
   whose entries are the input's position 1; the goto of the even positions is 1, 3, 5 (retargeted), the jump target of
   the odd positions 2, 4, 6; 0 stays 0; the settings are the input's *)
Example C17b_repeat_example :
  run rep_prog = map (fun _ => PNone) rep_prog /\
  length (sdata rep_input) = 2%nat /\
  length (sdata rep_result) = 6%nat /\
  akeys (sdata rep_result) = [1; 2; 3; 4; 5; 6]%Z /\
  map (fun p => seg_args rep_result p (CInt 1) 0) [2; 4; 6]%Z =
    [Some [VNum 0; VNum 1]; Some [VNum 0; VNum 2]; Some [VNum 0; VNum 3]] /\
  map (fun p => alookup Z.eqb p (sdata rep_result)) [1; 3; 5]%Z =
    [alookup Z.eqb 1%Z (sdata rep_input); alookup Z.eqb 1%Z (sdata rep_input); alookup Z.eqb 1%Z (sdata rep_input)] /\
  map (fun p => option_map goto (alookup Z.eqb p (sseq rep_input))) [1; 2]%Z = [Some 0; Some 1]%Z /\
  map (fun p => option_map goto (alookup Z.eqb p (sseq rep_result))) [1; 2; 3; 4; 5; 6]%Z =
    [Some 0; Some 1; Some 0; Some 3; Some 0; Some 5]%Z /\
  map (fun p => option_map jump_target (alookup Z.eqb p (sseq rep_result))) [1; 2; 3; 4; 5; 6]%Z =
    [Some 2; Some 0; Some 4; Some 0; Some 6; Some 0]%Z /\
  sspecs rep_result = sspecs rep_input /\
  sspecs rep_input = [(key_sr, SVal (VNum 100)); (key_amp (CInt 1), SVal (VNum 1))].
Proof. vm_compute. repeat split; reflexivity. Qed.

Print Assumptions C17b_make_linear_eq.
Print Assumptions C17b_make_linear_content.
Print Assumptions C17b_make_linear_closed.
Print Assumptions C17b_lin_step_err.
Print Assumptions C17b_make_linear_first_error.
Print Assumptions C17b_apply_variations_content.
Print Assumptions C17b_repeat_content.
Print Assumptions C17b_repeat_entries.
Print Assumptions C17b_repeat_sequencing.
Print Assumptions C17b_sequencing_needs_keys_ok.
Print Assumptions C17b_sequencing_needs_nodup.
Print Assumptions C17b_repeat_example_hypotheses.
Print Assumptions C17b_make_linear_example.
Print Assumptions C17b_repeat_example.
