(* C19 (continued) - sequence round trip: Sequence.init_from_json(write_to_json(s)) loses nothing.
   Only statements; proofs in Proofs/SeqRoundTripFacts.v, where the definitions used here are:
     seq_json_ok s   - the sequences the statement is about: only elements (a subsequence cannot be read back),
                       each element one the element round trip (C19b) is about and accepted by validateDurations
                       once its blueprints carry the sequence SR, duplicate-free positions and setting keys, a
                       sequencing entry for every position, and SR plus amplitude and offset of every channel of
                       every element among the settings, as plain values;
     seq_rt s        - the sequence read back: mkSeq (map (stamp_item SR) (sdata s)) (sseq_rt s) (specs_rt s) []
                       with SR = seq_SR s; stamp_item re-stamps every blueprint with SR (set_sr b SR), sseq_rt
                       keeps one sequencing entry per position in position order, specs_rt replays the reader's
                       writes (amplitude and offset of every channel of every position, then every stored key in
                       stored order, then SR) as d[k] = v; the name is the empty default;
     sseq_tight s    - the sequencing dictionary has no duplicate keys and no keys besides the positions;
     seq_read d      - seq_from_descr with its three anonymous loops restated as named Fixpoints. *)
From Coq Require Import String List ZArith QArith Bool.
From BB Require Import Base.Names Base.Num Base.PyList Model.Types Model.Blueprint Model.Forge Model.Element
  Model.PyVal Model.Sequence Model.Output Model.Descr Model.Tools Model.Interp Proofs.BlueprintFacts Proofs.DescrFacts
  Proofs.RoundTripFacts Proofs.SeqRoundTripFacts.
Import ListNotations.

(* the reader, with its loops named, is the reader *)
Theorem C19c_reader_loops : forall d, seq_from_descr d = seq_read d.
Proof. exact seq_from_descr_read. Qed.

(* every setting value survives: numbers, None, strings and filter-compensation records *)
Theorem C19c_specval_roundtrip : forall v : specval, specval_of_pv (json_rt (pv_of_specval v)) = Ok v.
Proof. exact specval_roundtrip. Qed.

(* (1) the reader accepts what the writer wrote and returns the characterised sequence *)
Theorem C19c_sequence_roundtrip : forall s d,
  seq_json_ok s -> seq_descr s = Ok d -> seq_from_descr (json_rt d) = Ok (seq_rt s).
Proof. exact sequence_roundtrip. Qed.

(* what that sequence keeps: the data position by position in the same order, every element with the same
   channels in the same order, the same flags and the same blueprints re-stamped with the sequence SR; the
   sequencing of every position (and nothing else; the same list when the sequencing dictionary lists the
   positions in data order, as addElement builds it); the settings as a dictionary - same answer for every key,
   same number of keys, no duplicates - with the key order of first insertion by the reader *)
Theorem C19c_sequence_roundtrip_keeps : forall s, seq_json_ok s ->
  let s' := seq_rt s in
  sdata s' = map (stamp_item (seq_SR s)) (sdata s) /\
  map fst (sdata s') = map fst (sdata s) /\
  (forall pos e, In (pos, EElem e) (sdata s) -> alookup Z.eqb pos (sdata s') = Some (EElem (stamp_el (seq_SR s) e))) /\
  (forall pos, In pos (map fst (sdata s)) -> alookup Z.eqb pos (sseq s') = alookup Z.eqb pos (sseq s)) /\
  (forall pos, ~ In pos (map fst (sdata s)) -> alookup Z.eqb pos (sseq s') = None) /\
  (sseq_tight s -> forall pos, alookup Z.eqb pos (sseq s') = alookup Z.eqb pos (sseq s)) /\
  (map fst (sseq s) = map fst (sdata s) -> sseq s' = sseq s) /\
  (forall k, spec_get s' k = spec_get s k) /\
  length (sspecs s') = length (sspecs s) /\ NoDup (map fst (sspecs s')) /\
  map fst (sspecs s') = fold_left (fun ks k => key_add str_eqb k ks) (map fst (specs_writes s)) [].
Proof. exact sequence_roundtrip_keeps. Qed.

(* when every blueprint already carries the sequence sample rate the data come back as the very same list *)
Theorem C19c_data_unchanged : forall s, seq_json_ok s -> seq_bps_carry_SR s -> sdata (seq_rt s) = sdata s.
Proof. exact seq_rt_data_id. Qed.

(* (2) whatever the reader returns has the same description up to the order of the awgspecs sub-dictionary
   (identical per-position entries "channels" and "sequencing"; awgspecs answers every key alike and has as many
   keys), and compares equal to the original when the sequencing dictionary is tight.  Blueprint equality does
   not look at the sample rate, so no hypothesis on the blueprints' own SR is needed. *)
Theorem C19c_sequence_roundtrip_observations : forall s d s',
  seq_json_ok s -> seq_descr s = Ok d -> seq_from_descr (json_rt d) = Ok s' ->
  (exists l,
     d = PDict (l ++ [(pstr "awgspecs", specs_descr (sspecs s))]) /\
     seq_descr s' = Ok (PDict (l ++ [(pstr "awgspecs", specs_descr (sspecs s'))])) /\
     (forall k : string, pd_get k (specs_descr (sspecs s')) = pd_get k (specs_descr (sspecs s))) /\
     length (sspecs s') = length (sspecs s)) /\
  (sseq_tight s -> seq_eqb s s' = Ok true).
Proof. exact sequence_roundtrip_observations. Qed.

(* a position without sequencing entry is written as the string "Not set" and can never be read back
   (no well-formedness hypothesis needed) *)
Theorem C19c_roundtrip_needs_sequencing : forall s d pos,
  seq_descr s = Ok d -> In pos (map fst (sdata s)) -> alookup Z.eqb pos (sseq s) = None ->
  exists e, seq_from_descr (json_rt d) = Err e.
Proof. exact seq_roundtrip_needs_sequencing. Qed.

(* counterexample for sseq_tight in the equality statement: ex_seq_extra is ex_seq (below) after
   setSequenceSettings(5, ...) on a position that holds no element; that entry is not written, hence not read
   back, and the result compares unequal although everything else is kept *)
Example C19c_extra_sequencing_counterexample :
  seq_json_ok ex_seq_extra /\ ~ sseq_tight ex_seq_extra /\
  exists d, seq_descr ex_seq_extra = Ok d /\
    seq_from_descr (json_rt d) = Ok (seq_rt ex_seq_extra) /\
    alookup Z.eqb 5 (sseq ex_seq_extra) = Some (mkSq 0 1 0 0 0) /\
    alookup Z.eqb 5 (sseq (seq_rt ex_seq_extra)) = None /\
    seq_eqb ex_seq_extra (seq_rt ex_seq_extra) = Ok false.
Proof. exact seq_roundtrip_extra_sequencing. Qed.

(* non-vacuity: ex_seq is the sequence register 0 after running ex_prog through the op-language interpreter
   (two blueprints: ramp + sine with a segment-bound and an absolute marker, ramp + gaussian; two elements over
   the integer channels 1 and 2, one channel with flags; SR, amplitudes, offsets, a delay and a filter
   compensation; positions 1 and 2; Repeat = 5 and Go to = 1 at position 2; a name).  No call raised, the
   sequence is well-formed, and the reader's result - computed - is the characterised one: data and sequencing
   come back as the same lists, the settings with amplitudes and offsets moved in front of SR, the name is lost,
   and == holds. *)
Example C19c_example :
  run ex_prog = map (fun _ => PNone) ex_prog /\
  seq_json_ok ex_seq /\ sseq_tight ex_seq /\
  exists d, seq_descr ex_seq = Ok d /\
    seq_from_descr (json_rt d) = Ok (seq_rt ex_seq) /\
    sdata (seq_rt ex_seq) = sdata ex_seq /\
    sseq (seq_rt ex_seq) = sseq ex_seq /\
    map fst (sspecs ex_seq)
      = [key_sr; key_amp (CInt 1); key_off (CInt 1); key_amp (CInt 2); key_off (CInt 2); key_delay (CInt 2);
         key_filt (CInt 1)] /\
    map fst (sspecs (seq_rt ex_seq))
      = [key_amp (CInt 1); key_off (CInt 1); key_amp (CInt 2); key_off (CInt 2); key_sr; key_delay (CInt 2);
         key_filt (CInt 1)] /\
    sname ex_seq = S_ "demo" /\ sname (seq_rt ex_seq) = [] /\
    seq_eqb ex_seq (seq_rt ex_seq) = Ok true.
Proof. exact seq_roundtrip_example. Qed.

Print Assumptions C19c_reader_loops.
Print Assumptions C19c_specval_roundtrip.
Print Assumptions C19c_sequence_roundtrip.
Print Assumptions C19c_sequence_roundtrip_keeps.
Print Assumptions C19c_data_unchanged.
Print Assumptions C19c_sequence_roundtrip_observations.
Print Assumptions C19c_roundtrip_needs_sequencing.
Print Assumptions C19c_extra_sequencing_counterexample.
Print Assumptions C19c_example.
