(* C02 - built-in pulse shapes equal their documented closed forms.
   Statements about the GENERATED definitions (Generated/PulseAtomsGen.v, re-translated from the source on
   every run); every proof is `exact <lemma>` into Numeric/Atoms.v.  Real-number theorems: they depend on
   the standard library's axioms of the reals (reported by Print Assumptions, listed in the trusted base). *)
From Coq Require Import Reals ZArith.
From BB Require Import Numeric.NumpyPrims Generated.PulseAtomsGen Numeric.Atoms.
Open Scope R_scope.

(* exactly the requested number of points *)
Theorem C02_lengths : forall (K : Type) f1 f2 f3 f4 SR n (func : (nat -> R) -> K -> nat -> R) kw,
  PA_sine_len f1 f2 f3 f4 SR n = n /\ PA_ramp_len f1 f2 SR n = n /\ PA_waituntil_len f1 SR n = n /\
  PA_gaussian_len f1 f2 f3 f4 SR n = n /\ PA_gaussian_smooth_cutoff_len f1 f2 f3 f4 SR n = n /\
  PA_arb_func_len func kw SR n = n.
Proof. exact atoms_lengths. Qed.

(* sampled at t_k = k/SR, end point excluded *)
Theorem C02_sine : forall freq ampl off phase SR n k,
  SR <> 0 -> (0 < n)%nat ->
  PA_sine_gen freq ampl off phase SR n k = ampl * sin (2 * PI * freq * t_of SR k + phase) + off.
Proof. exact sine_closed. Qed.

Theorem C02_ramp : forall start stop SR n k,
  SR <> 0 -> (0 < n)%nat ->
  PA_ramp_gen start stop SR n k = start + (stop - start) * INR k / INR n.
Proof. exact ramp_closed. Qed.

(* ... so it starts at `start`, moves in equal steps and never reaches `stop` within the n points *)
Theorem C02_ramp_shape : forall start stop SR n,
  SR <> 0 -> (0 < n)%nat ->
  PA_ramp_gen start stop SR n 0 = start /\
  (forall k, PA_ramp_gen start stop SR n (S k) - PA_ramp_gen start stop SR n k = (stop - start) / INR n) /\
  (forall k, (k < n)%nat -> start <> stop -> PA_ramp_gen start stop SR n k <> stop).
Proof. exact ramp_shape. Qed.

Theorem C02_gaussian : forall ampl sigma mu offset SR n k,
  SR <> 0 -> (0 < n)%nat ->
  PA_gaussian_gen ampl sigma mu offset SR n k = ampl * gauss sigma mu SR n (t_of SR k) + offset.
Proof. exact gaussian_closed. Qed.

(* peaks at ampl + offset at the segment centre shifted by mu, and nowhere exceeds it *)
Theorem C02_gaussian_peak : forall ampl sigma mu offset SR n k,
  SR <> 0 -> (0 < n)%nat -> t_of SR k = mu + INR n / SR / 2 ->
  PA_gaussian_gen ampl sigma mu offset SR n k = ampl + offset.
Proof. exact gaussian_peak. Qed.

Theorem C02_gaussian_bound : forall ampl sigma mu offset SR n k,
  SR <> 0 -> (0 < n)%nat -> sigma <> 0 -> 0 <= ampl ->
  PA_gaussian_gen ampl sigma mu offset SR n k <= ampl + offset.
Proof. exact gaussian_bound. Qed.

Theorem C02_gsc : forall ampl sigma mu offset SR n k,
  SR <> 0 -> (0 < n)%nat -> gauss sigma mu SR n 0 <> 1 ->
  PA_gaussian_smooth_cutoff_gen ampl sigma mu offset SR n k =
  ampl * (gauss sigma mu SR n (t_of SR k) - gauss sigma mu SR n 0) / (1 - gauss sigma mu SR n 0) + offset.
Proof. exact gsc_closed. Qed.

(* starts exactly at offset and peaks at ampl + offset *)
Theorem C02_gsc_start : forall ampl sigma mu offset SR n,
  SR <> 0 -> (0 < n)%nat -> gauss sigma mu SR n 0 <> 1 ->
  PA_gaussian_smooth_cutoff_gen ampl sigma mu offset SR n 0 = offset.
Proof. exact gsc_start. Qed.

Theorem C02_gsc_peak : forall ampl sigma mu offset SR n k,
  SR <> 0 -> (0 < n)%nat -> gauss sigma mu SR n 0 <> 1 -> t_of SR k = mu + INR n / SR / 2 ->
  PA_gaussian_smooth_cutoff_gen ampl sigma mu offset SR n k = ampl + offset.
Proof. exact gsc_peak. Qed.

Theorem C02_waituntil : forall dummy SR n k, PA_waituntil_gen dummy SR n k = 0.
Proof. exact waituntil_zero. Qed.

(* arb_func hands the time axis k/SR and the keyword arguments unchanged to the user function
   (for user functions that depend on the values of the array they are given) *)
Theorem C02_arb_func : forall (K : Type) (func : (nat -> R) -> K -> nat -> R) (kw : K) SR n k,
  SR <> 0 -> (0 < n)%nat ->
  (forall t t' : nat -> R, (forall j, t j = t' j) -> forall kw' j, func t kw' j = func t' kw' j) ->
  PA_arb_func_gen func kw SR n k = func (t_of SR) kw k.
Proof. exact arb_func_passthrough. Qed.

Print Assumptions C02_lengths.
Print Assumptions C02_sine.
Print Assumptions C02_ramp.
Print Assumptions C02_ramp_shape.
Print Assumptions C02_gaussian.
Print Assumptions C02_gaussian_peak.
Print Assumptions C02_gaussian_bound.
Print Assumptions C02_gsc.
Print Assumptions C02_gsc_start.
Print Assumptions C02_gsc_peak.
Print Assumptions C02_waituntil.
Print Assumptions C02_arb_func.
