(* C06 - an element is valid iff all channels share sample rate and point count.
   Only statements; every proof is `exact <lemma>` into Proofs/ElementFacts.v. *)
From Coq Require Import String List ZArith QArith Qabs Bool.
From BB Require Import Base.Names Base.Num Base.PyList Model.Types Model.Blueprint Model.Forge Model.Element
  Model.Sequence Proofs.ElementFacts.
Import ListNotations.
Open Scope Q_scope.

(* the duration stage (np.allclose with atol = the common rate S >= 1) can never reject what the
   point-count stage would accept: durations it tells apart round to different counts *)
Theorem C06_stage2_redundant : forall S d d0,
  1 <= S -> ~ (Qabs (d - d0) <= S + (1 # 100000) * Qabs d0) -> rnd (d * S) <> rnd (d0 * S).
Proof. exact stage2_redundant. Qed.

(* both kinds of channel count their points as round(duration * SR) *)
Theorem C06_blueprint_points : forall b s d,
  sr b = VNum s -> bp_duration b = Ok d -> bp_points b = Ok (rnd (d * s)).
Proof. exact blueprint_points. Qed.

Theorem C06_array_points : forall arrs s w,
  arr_wfm arrs = Ok w -> ~ s == 0 -> (0 <= rle_len w)%Z ->
  ch_duration (mkCh (KArr arrs (Some (VNum s))) None) = Ok (inject_Z (rle_len w) / s) /\
  rnd (inject_Z (rle_len w) / s * s) = rle_len w.
Proof. exact array_points. Qed.

(* validation succeeds iff all channels share the sample rate and the point count,
   and raises ElementDurationError otherwise *)
Theorem C06_iff : forall e,
  edata e <> [] -> Forall chan_wf (avals (edata e)) ->
  ((exists r, el_validate e = Ok r) <-> (same_rate (avals (edata e)) /\ same_points (avals (edata e)))) /\
  ((exists r, el_validate e = Ok r) \/ el_validate e = Err EElemDur).
Proof. exact validate_iff. Qed.

(* an accepted element: every channel has Element.points points, Element.SR is the common rate,
   Element.duration is the first channel's duration *)
Theorem C06_accepted : forall e s d,
  el_validate e = Ok (s, d) ->
  exists n, el_points e = Ok n /\ el_sr e = Ok s /\ el_duration e = Ok d /\
    forall c ch, In (c, ch) (edata e) -> ch_points ch = Ok n /\ exists x, ch_sr ch = Ok x /\ val_eqb s x = true.
Proof. exact validate_accepted. Qed.

(* for durations that are whole numbers of samples the forged arrays of a blueprint channel have exactly
   BluePrint.points samples, and duration * SR = points *)
Theorem C06_forged_length : forall b s rs ns d f,
  sr b = VNum s -> 0 < s -> resolve_waits b = Ok rs -> int_durs s rs = Ok ns -> sum_vals rs = Ok d ->
  has_wait b = true \/ rs = durs b ->
  Forall (fun v => exists q m, v = VNum q /\ q * s == inject_Z m) rs ->
  forge_bp_with b s (durs b) = Ok f ->
  bp_points b = Ok (fN f) /\ length (fm1 f) = Z.to_nat (fN f) /\ length (fm2 f) = Z.to_nat (fN f) /\
  d * s == inject_Z (fN f).
Proof. exact forged_length. Qed.

(* raw-array channels come back as stored *)
Theorem C06_arrays_as_stored : forall e c arrs asr fl out,
  In (c, mkCh (KArr arrs asr) fl) (edata e) -> el_get_arrays e false = Ok out -> In (c, OArr arrs None) out.
Proof. exact arrays_as_stored. Qed.

(* addArray refuses a marker array whose length differs from the waveform's *)
Theorem C06_add_array_checks_markers : forall e c w SR ms,
  (exists n a, In (n, a) ms /\ rle_len a <> rle_len w) -> snd (el_add_array e c w SR ms) = Some EValue.
Proof. exact add_array_checks_markers. Qed.

Theorem C06_add_array_ok : forall e c w SR ms,
  Forall (fun p => rle_len (snd p) = rle_len w) ms ->
  exists arrs, el_add_array e c w SR ms = (el_set e c (mkCh (KArr arrs (Some SR)) None), None) /\
               arr_wfm arrs = Ok w /\
               forall n a, alookup str_eqb n arrs = Some a -> rle_len a = rle_len w.
Proof. exact add_array_ok. Qed.

(* a sequence never accepts an element that fails validation *)
Theorem C06_sequence_validates : forall s pos e s' o,
  seq_add_element s pos e = (s', o) ->
  (o = None -> exists r, el_validate e = Ok r) /\ (forall er, o = Some er -> s' = s /\ el_validate e = Err er).
Proof. exact sequence_validates. Qed.

(* non-vacuity: a two-channel element (blueprint + raw array, 10 points at 100 Sa/s) validates *)
Example C06_example :
  let b := mkBp [S_ "ramp"] [Framp] [[VNum 0; VNum 1]] [VNum (1 # 10)] [(0, 0)] [(0, 0)] [] [] (VNum 100) in
  let e := mkEl [(CInt 1, mkCh (KBp b) None);
                 (CStr (S_ "A"), mkCh (KArr [(S_ "wfm", [(1 # 2, 10%Z)])] (Some (VNum 100))) None)] in
  Forall chan_wf (avals (edata e)) /\ el_validate e = Ok (VNum 100, 1 # 10) /\ el_points e = Ok 10%Z.
Proof. exact element_example. Qed.

Print Assumptions C06_stage2_redundant.
Print Assumptions C06_blueprint_points.
Print Assumptions C06_array_points.
Print Assumptions C06_iff.
Print Assumptions C06_accepted.
Print Assumptions C06_forged_length.
Print Assumptions C06_arrays_as_stored.
Print Assumptions C06_add_array_checks_markers.
Print Assumptions C06_add_array_ok.
Print Assumptions C06_sequence_validates.
