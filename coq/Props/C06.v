(* C06 - placeholder theorem until Proofs/ElementFacts.v lands. *)
From Coq Require Import QArith Qabs.
From BB Require Import Base.Num.
Theorem C06_far_apart_rounds_differ : forall x y, 1 < Qabs (x - y) -> rnd x <> rnd y.
Proof. exact rnd_far. Qed.
Print Assumptions C06_far_apart_rounds_differ.
