(* C15 - placeholder until Proofs/OutputFacts.v lands. *)
From Coq Require Import List.
From BB Require Import Base.Names.
Theorem C15_placeholder : forall l, NoDup (uniquify l).
Proof. exact uniquify_NoDup. Qed.
Print Assumptions C15_placeholder.
