(* C15 - SEQX package mirrors the forged sequence and enforces AWG70000A limits.
   Only statements; proofs in Proofs/OutputFacts.v (the pinned raise conditions are in Props/C14n.v). *)
From Coq Require Import String List ZArith QArith Bool.
From BB Require Import Base.Names Base.Num Base.PyList Model.Types Model.Blueprint Model.Forge Model.Element
  Model.PyVal Model.Sequence Model.Output Proofs.OutputFacts.
Import ListNotations.

(* sequencing settings accepted exactly inside the AWG70000A ranges *)
Theorem C15_sequencing_ranges : forall n q,
  seqx_seq_ok n q = true <->
  (0 <= twait q <= 3 /\ 0 <= jump_input q <= 3 /\ 0 <= nrep q <= 16383 /\ -1 <= jump_target q <= n /\ 0 <= goto q <= n)%Z.
Proof. exact seqx_seq_ok_spec. Qed.

(* what the package is, when one is returned: 8 entries (9 with flags); the five sequencing lists in position order,
   the name, the amplitudes in channel order padded with one 0 for a single channel; the voltage guard is +-ampl/2 *)
Theorem C15_package_shape : forall s fl ranges l,
  output_seqx s fl = guarded ranges (PTuple l) ->
  length l = (if fl then 9 else 8)%nat /\
  nth_error l 7 = Some (PStr (sname s)) /\
  (exists chans els ampls, prepare s = Ok (chans, els) /\ mapM (fun ch => spec_num s (key_amp ch) EKey) chans = Ok ampls /\
     nth_error l 6 = Some (PList (match ampls with [a] => [PNum a; PInt 0] | _ => map PNum ampls end)) /\
     (forall w lo hi, In (w, lo, hi) ranges -> exists a, In a ampls /\ lo = (- a / 2)%Q /\ hi = (a / 2)%Q) /\
     exists sq, mapM (get_sq s) (range1 (length els)) = Ok sq /\
       Forall (fun q => seqx_seq_ok (Z.of_nat (length els)) q = true) sq /\
       nth_error l 0 = Some (PList (map (fun q => PInt (twait q)) sq)) /\
       nth_error l 1 = Some (PList (map (fun q => PInt (nrep q)) sq)) /\
       nth_error l 2 = Some (PList (map (fun q => PInt (jump_input q)) sq)) /\
       nth_error l 3 = Some (PList (map (fun q => PInt (jump_target q)) sq)) /\
       nth_error l 4 = Some (PList (map (fun q => PInt (goto q)) sq))).
Proof. exact seqx_package_shape. Qed.

(* fewer than 2400 points on any channel at any position: ValueError, no package *)
Theorem C15_too_short : forall s fl chans els,
  prepare s = Ok (chans, els) ->
  (exists l c p n, In l els /\ In c chans /\ prep_find l c = Ok p /\ chout_len (pout p) = Ok n /\ (n < 2400)%Z) ->
  (forall l c, In l els -> In c chans -> exists p n, prep_find l c = Ok p /\ chout_len (pout p) = Ok n) ->
  (exists ampls, mapM (fun ch => spec_num s (key_amp ch) EKey) chans = Ok ampls) ->
  output_seqx s fl = PErr EValue \/ exists e, output_seqx s fl = PErr e.
Proof. exact seqx_too_short. Qed.

(* flags: the stored integers, [0,0,0,0] where none were set; letter aliases were mapped when they were set *)
Theorem C15_flag_aliases :
  flag_int (VStr []) = Some 0%Z /\ flag_int (VStr (S_ "H")) = Some 1%Z /\ flag_int (VStr (S_ "L")) = Some 2%Z /\
  flag_int (VStr (S_ "T")) = Some 3%Z /\ flag_int (VStr (S_ "P")) = Some 4%Z /\
  (forall z, (0 <= z <= 4)%Z -> flag_int (VNum (inject_Z z)) = Some z) /\
  (forall q, flag_int (VNum q) <> None -> exists z, (0 <= z <= 4)%Z /\ (q == inject_Z z)%Q).
Proof. exact flag_aliases. Qed.

Theorem C15_add_flags : forall e c fl,
  (length fl <> 4%nat -> snd (el_add_flags e c fl) = Some EValue) /\
  ((exists v, In v fl /\ flag_int v = None) -> snd (el_add_flags e c fl) = Some EValue) /\
  (forall ints ch, length fl = 4%nat -> all_some (map flag_int fl) = Some ints -> el_lookup e c = Some ch ->
     el_add_flags e c fl = (el_set e c (mkCh (ckind ch) (Some ints)), None)).
Proof. exact add_flags_spec. Qed.

Print Assumptions C15_sequencing_ranges.
Print Assumptions C15_package_shape.
Print Assumptions C15_too_short.
Print Assumptions C15_flag_aliases.
Print Assumptions C15_add_flags.
