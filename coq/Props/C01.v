(* C01 - forged waveform = in-order concatenation of per-segment samples.
   Only statements; every proof is `exact <lemma>` into Proofs/ForgeFacts.v (and Base/Num.v). *)
From Coq Require Import List ZArith QArith Qabs Bool.
From BB Require Import Base.Num Model.Types Model.Blueprint Model.Forge Proofs.ForgeFacts.
Import ListNotations.
Open Scope Q_scope.

(* every segment gets round(d*SR) >= 2 samples of its own; N is their sum *)
Theorem C01_counts : forall b SR ds f,
  forge_bp_with b SR ds = Ok f ->
  exists rs ns,
    resolve_waits_aux (funs b) (args b) ds (Some 0%Q) = Ok rs /\ int_durs SR rs = Ok ns /\
    counts_of SR rs ns /\ Forall (fun n => 2 <= n)%Z ns /\
    map bn (fblocks f) = ns /\ fN f = sumZ ns /\ fnewdurs f = map (fun n => (inject_Z n / SR)%Q) ns.
Proof. exact forge_counts. Qed.

(* one block per segment, in blueprint order, each calling that segment's function with that segment's
   stored arguments, the blueprint's sample rate and its own sample count (local time zero) *)
Theorem C01_blocks_in_order : forall b SR ds f,
  forge_bp_with b SR ds = Ok f ->
  length (args b) = length (funs b) -> length ds = length (funs b) ->
  map bfn (fblocks f) = funs b /\ map bargs (fblocks f) = args b /\
  Forall (fun k => bsr k = SR) (fblocks f) /\ length (fblocks f) = length (funs b).
Proof. exact forge_blocks_in_order. Qed.

(* waveform, both markers and the time axis have the common length N, for every interpretation of
   the pulse functions that returns the requested number of points *)
Theorem C01_lengths : forall (V : Type) (I : block -> list V) b SR ds f,
  (forall k, length (I k) = Z.to_nat (bn k)) ->
  forge_bp_with b SR ds = Ok f ->
  length (flat_map I (fblocks f)) = Z.to_nat (fN f) /\
  length (fm1 f) = Z.to_nat (fN f) /\ length (fm2 f) = Z.to_nat (fN f) /\
  length (fnewdurs f) = length (fblocks f).
Proof. exact forge_lengths. Qed.

(* a segment that would get fewer than two samples makes forging fail: never dropped, padded or merged *)
Theorem C01_short : forall b SR ds rs,
  resolve_waits_aux (funs b) (args b) ds (Some 0%Q) = Ok rs ->
  Forall is_num rs ->
  (exists q, In (VNum q) rs /\ (rnd (q * SR) < 2)%Z) ->
  forge_bp_with b SR ds = Err ESegDur.
Proof. exact forge_short. Qed.

(* the only successful results are those described above: success implies every count >= 2 *)
Theorem C01_ok_only_if_all_long : forall SR rs ns,
  int_durs SR rs = Ok ns -> Forall is_num rs /\ Forall (fun n => 2 <= n)%Z ns /\ length ns = length rs.
Proof. exact int_durs_ok. Qed.

(* forging factors through the abstract view: two edit histories that end in the same segments,
   markers and sample rate forge identically (names play no role) *)
Theorem C01_history : forall a b SR ds,
  same_view a b -> forge_bp_with a SR ds = forge_bp_with b SR ds.
Proof. exact forge_same_view. Qed.

(* away from rounding ties the count is stable under the binary64 error of dur*SR *)
Theorem C01_round_robust : forall (n : Z) (f eps : Q),
  Qabs f <= 2#5 -> Qabs eps <= 9#100 -> rnd (inject_Z n + f + eps) = n.
Proof. exact rnd_robust. Qed.

(* non-vacuity: a three-segment blueprint with off-grid durations forges to 3 + 29 + 4 samples *)
Example C01_example :
  let b := mkBp [] [Framp; Fwait; Fua] [[VNum 0; VNum 1]; [VNum (32 # 100)]; [VNum 1]]
                [VNum (29 # 1000); VNone; VNum (41 # 1000)] [(0,0); (0,0); (0,0)]%Q [(0,0); (0,0); (0,0)]%Q [] [] (VNum 100) in
  exists f, forge_bp_with b 100 (durs b) = Ok f /\ map bn (fblocks f) = [3; 29; 4]%Z /\ fN f = 36%Z.
Proof. exact forge_example. Qed.

Print Assumptions C01_counts.
Print Assumptions C01_blocks_in_order.
Print Assumptions C01_lengths.
Print Assumptions C01_short.
Print Assumptions C01_ok_only_if_all_long.
Print Assumptions C01_history.
Print Assumptions C01_round_robust.
