(* C12 with the discrete Fourier transform itself in place of the abstract fft / ifft of Props/C12.v:
   dft / idft are the explicit finite sums of Numeric/DFT.v (numpy.fft.fft / ifft are compared with exactly these sums
   on every run), and the three DFT facts that C12_filter_spectrum assumes are theorems about them. *)
From Coq Require Import Reals ZArith String List.
From Coquelicot Require Import Coquelicot.
From BB Require Import Numeric.NumpyPrims Generated.RipassoGen Numeric.RipassoFacts Numeric.DFT.
Open Scope R_scope.

Theorem C12_dft_is_a_transform_pair : forall n, (0 < n)%nat ->
  fft_inverse dft idft n /\ fft_real_part dft n /\ fft_real_hermitian dft n /\ ext_on dft n /\ ext_on idft n /\
  (forall (x : nat -> C) m, (m < n)%nat -> idft n (dft n x) m = x m).
Proof.
  intros n Hn. repeat split.
  - exact (dft_inverse n Hn).
  - exact (dft_real_part n Hn).
  - exact (dft_real_hermitian n Hn).
  - exact (dft_ext n).
  - exact (idft_ext n).
  - intros x m Hm. exact (idft_dft n x m Hn Hm).
Qed.

(* every bin of the filtered (inverse-filtered) real signal is the input bin times H^order (H^-order) *)
Theorem C12_filter_spectrum_dft : forall n (x : nat -> R) SR kind f_cut order g j,
  SR <> 0 -> f_cut <> 0 -> (kind = "HP" \/ kind = "LP")%string -> (0 < j < n)%nat -> (2 * j <> n)%nat ->
  dft n (fun k => RtoC (applyRCFilter_gen dft idft n x SR kind f_cut order g k)) j =
    Cmult (dft n (fun k => RtoC (x k)) j) (_rcFilter_gen SR n f_cut kind order g j) /\
  dft n (fun k => RtoC (applyInverseRCFilter_gen dft idft n x SR kind f_cut order g k)) j =
    Cmult (dft n (fun k => RtoC (x k)) j) (_rcFilter_gen SR n f_cut kind (- order) g j).
Proof. exact filter_spectrum_dft. Qed.

Theorem C12_linear_dft : forall n (x y : nat -> R) (a : R) SR kind f_cut order g k,
  applyRCFilter_gen dft idft n (fun i => a * x i + y i) SR kind f_cut order g k =
  a * applyRCFilter_gen dft idft n x SR kind f_cut order g k + applyRCFilter_gen dft idft n y SR kind f_cut order g k.
Proof. exact rc_linear_dft. Qed.

Theorem C12_custom_bins_dft : forall interp round6 n (x : nat -> R) SR m tf_freqs tf_amp invert k,
  SR > 0 -> (0 < n)%nat ->
  applyCustomTransferFunction_gen dft idft interp round6 n x SR m tf_freqs tf_amp invert k =
  fst (idft n (fun j => Cmult (dft n (fun i => RtoC (x i)) j)
                              (RtoC (Rpowz (interp m tf_freqs tf_amp (Rabs (bin_freq SR n j)))
                                           (if invert then (-1)%Z else 1%Z)))) k).
Proof. exact custom_bins_dft. Qed.

Print Assumptions C12_dft_is_a_transform_pair.
Print Assumptions C12_filter_spectrum_dft.
Print Assumptions C12_linear_dft.
Print Assumptions C12_custom_bins_dft.
