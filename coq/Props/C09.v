(* C09 - copies and stored/derived objects are independent of their source.
   The effect table (alias/table.json -> Model/AliasTable.v) says, for every operation that creates a second
   object, which of its containers may be shared with the source, and for every public mutator which containers
   it writes; harness/alias.py checks both against the real objects (id() graph, contents before/after) on every
   run.  The theorems: for EVERY pair (derive operation) x (mutator) the write set on one side is disjoint from
   what the observations of the other side read, hence (frame) no sequence of mutations on one side changes any
   observation of the other.  Partial: aliasing outside the container schema cannot be exhibited by the model. *)
From Coq Require Import String List Bool.
From BB Require Import Base.Names Model.Types Model.Blueprint Model.Element Model.AliasTable Model.Alias
  Proofs.AliasFacts Proofs.BlueprintFacts Proofs.EqFacts.
Import ListNotations.

Theorem C09_every_pair : forall d m, In d derive_ops -> In m mutators -> pair_ok d m = true.
Proof. exact independent_pairs. Qed.

Theorem C09_derived_unaffected : forall (V A : Type) name src res shared (tr : list (@event V)) (o : @heap V -> A),
  In (name, src, res, shared) derive_ops ->
  Forall respects tr ->
  Forall (fun e => exists mname ws, In (mname, src, ws) mutators /\ ev_writes e = src_cells ws) tr ->
  depends_only_on o (res_cells shared (observed res)) ->
  forall h, o (run_trace tr h) = o h.
Proof. intros V A. exact (@derived_unaffected V A). Qed.

Theorem C09_source_unaffected : forall (V A : Type) name src res shared (tr : list (@event V)) (o : @heap V -> A),
  In (name, src, res, shared) derive_ops ->
  Forall respects tr ->
  Forall (fun e => exists mname ws, In (mname, res, ws) mutators /\ ev_writes e = res_cells shared ws) tr ->
  depends_only_on o (src_cells (observed src)) ->
  forall h, o (run_trace tr h) = o h.
Proof. intros V A. exact (@source_unaffected V A). Qed.

(* the derived object starts out observably equal to its source: copy() of a reachable blueprint IS that blueprint
   (names already canonical), and addBluePrint stores exactly that copy *)
Theorem C09_copy_same : forall b, Inv b -> bp_copy b = b.
Proof. intros b H. exact (proj1 (copy_eq b H)). Qed.

Theorem C09_stored_blueprint : forall e c b, Inv b -> bp_has_empty_list b = false ->
  el_add_bp e c b = (el_set e c (mkCh (KBp b) None), None).
Proof. exact stored_blueprint. Qed.

Print Assumptions C09_every_pair.
Print Assumptions C09_derived_unaffected.
Print Assumptions C09_source_unaffected.
Print Assumptions C09_copy_same.
Print Assumptions C09_stored_blueprint.

(* ---- copies start out observably identical: in every store a program can reach, the copy register holds the same
   value as its source (blueprint copies re-canonicalise names, a no-op on reachable blueprints), so every observation
   of the op language agrees on source and copy until one of them is mutated ---- *)
From BB Require Import Model.Interp Proofs.ReachFacts Proofs.CopyFacts.

Theorem C09_copy_blueprint_register : forall prog r d b,
  Forall api_op prog -> getB (final_store store0 prog) r = Ok b ->
  let st' := fst (exec (final_store store0 prog) (BCopy r d)) in
  getB st' d = Ok b /\ (d <> r -> getB st' r = Ok b).
Proof. exact copy_bp_register. Qed.

Theorem C09_copy_element_register : forall st r d e,
  getE st r = Ok e -> getE (fst (exec st (ECopy r d))) d = Ok e.
Proof. exact copy_el_register. Qed.

(* statement corrected at the end of the build phase: Sequence.copy() does not carry the sequence's name (found by a
   background soak - a follow-up program named a sequence, copied it and exported the copy to SEQX; the model had
   copied the name).  Data, sequencing and channel settings are the source's; the name is empty. *)
Theorem C09_copy_sequence_register : forall st r d s,
  getS st r = Ok s -> getS (fst (exec st (SCopy r d))) d = Ok (mkSeq (sdata s) (sseq s) (sspecs s) []).
Proof. exact copy_seq_register. Qed.

Print Assumptions C09_copy_blueprint_register.
Print Assumptions C09_copy_element_register.
Print Assumptions C09_copy_sequence_register.
