(* C09 - placeholder until Model/Alias.v and its proofs land. *)
From Coq Require Import List.
From BB Require Import Base.Names.
Theorem C09_placeholder : forall l, NoDup (uniquify l).
Proof. exact uniquify_NoDup. Qed.
Print Assumptions C09_placeholder.
