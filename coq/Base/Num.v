From Coq Require Import ZArith QArith Qround Qabs Lia Lqa List.
Import ListNotations.
Open Scope Q_scope.

(* round half to even, as Python's round() and np.round() *)
Definition rnd (q : Q) : Z :=
  let f := Qfloor q in
  match Qcompare (q - inject_Z f) (1#2) with
  | Lt => f
  | Gt => (f + 1)%Z
  | Eq => if Z.even f then f else (f + 1)%Z
  end.

Lemma inject_Z_lt a b : inject_Z a < inject_Z b -> (a < b)%Z.
Proof. rewrite <- Zlt_Qlt. auto. Qed.
Lemma inject_Z_plus1 a : inject_Z (a + 1) == inject_Z a + 1.
Proof. rewrite inject_Z_plus. reflexivity. Qed.

Lemma inject_Z_minus1 a : inject_Z (a - 1) == inject_Z a - 1.
Proof. unfold Zminus. rewrite inject_Z_plus. unfold Qminus. apply Qplus_comp; reflexivity. Qed.

Lemma floor_bounds q : inject_Z (Qfloor q) <= q /\ q < inject_Z (Qfloor q) + 1.
Proof. split; [apply Qfloor_le|]. rewrite <- inject_Z_plus1. apply Qlt_floor. Qed.

Lemma rnd_near q n : Qabs (q - inject_Z n) < 1#2 -> rnd q = n.
Proof.
  intro H. apply Qabs_Qlt_condition in H as [H1 H2].
  destruct (floor_bounds q) as [F1 F2]. unfold rnd.
  remember (Qfloor q) as f eqn:Hf. clear Hf.
  assert (f = n \/ f = (n - 1)%Z) as [-> | ->].
  { assert (inject_Z f < inject_Z (n + 1)) as A by (rewrite inject_Z_plus1; lra).
    assert (inject_Z (n - 1) < inject_Z (f + 1)) as B.
    { rewrite inject_Z_plus1, inject_Z_minus1. lra. }
    apply inject_Z_lt in A, B. lia. }
  - destruct (q - inject_Z n ?= 1#2) eqn:E.
    + apply Qeq_alt in E. lra.
    + reflexivity.
    + apply Qgt_alt in E. lra.
  - pose proof (inject_Z_minus1 n) as IZ.
    destruct (q - inject_Z (n - 1) ?= 1#2) eqn:E.
    + apply Qeq_alt in E. rewrite IZ in E. lra.
    + apply Qlt_alt in E. rewrite IZ in E. lra.
    + lia.
Qed.

(* the float-gap lemma of DESIGN section 4 *)
Lemma rnd_robust (n : Z) (f eps : Q) :
  Qabs f <= 2#5 -> Qabs eps <= 9#100 -> rnd (inject_Z n + f + eps) = n.
Proof.
  intros Hf He. apply rnd_near.
  apply Qabs_Qle_condition in Hf as [? ?]. apply Qabs_Qle_condition in He as [? ?].
  apply Qabs_Qlt_condition. split; lra.
Qed.

(* rounding commutes with integer shifts away from ties *)
Lemma rnd_shift q n (z : Z) : Qabs (q - inject_Z n) < 1#2 -> rnd (q + inject_Z z) = (n + z)%Z.
Proof.
  intro H. apply rnd_near. rewrite inject_Z_plus.
  setoid_replace (q + inject_Z z - (inject_Z n + inject_Z z)) with (q - inject_Z n) by ring. exact H.
Qed.

(* C06: two values more than 1 apart never round to the same integer *)
Lemma rnd_bounds q : inject_Z (rnd q) - (1#2) <= q /\ q <= inject_Z (rnd q) + (1#2).
Proof.
  destruct (floor_bounds q) as [F1 F2]. unfold rnd. remember (Qfloor q) as f eqn:Hf. clear Hf.
  destruct (q - inject_Z f ?= 1#2) eqn:E.
  - apply Qeq_alt in E. destruct (Z.even f); [| rewrite inject_Z_plus1]; lra.
  - apply Qlt_alt in E. lra.
  - apply Qgt_alt in E. rewrite inject_Z_plus1. lra.
Qed.

Lemma rnd_far x y : 1 < Qabs (x - y) -> rnd x <> rnd y.
Proof.
  intros H E. destruct (rnd_bounds x) as [A1 A2], (rnd_bounds y) as [B1 B2]. rewrite E in *.
  assert (Qabs (x - y) <= 1) as C by (apply Qabs_Qle_condition; split; lra). lra.
Qed.

(* ---------- argmin as numpy defines it: first index of the minimum ---------- *)
Fixpoint argmin_aux (bi : nat) (b : Q) (i : nat) (l : list Q) : nat :=
  match l with
  | [] => bi
  | x :: t => if Qlt_le_dec x b then argmin_aux i x (S i) t else argmin_aux bi b (S i) t
  end.
Definition argmin (l : list Q) : nat := match l with [] => 0%nat | x :: t => argmin_aux 0 x 1 t end.

Lemma argmin_aux_spec (g : nat -> Q) n : forall len bi i,
  (forall k, (k <> n)%nat -> g n < g k) ->
  (bi < i)%nat ->
  ((bi = n) \/ (i <= n < i + len)%nat) ->
  argmin_aux bi (g bi) i (map g (seq i len)) = n.
Proof.
  induction len as [|len IH]; intros bi i Hmin Hbi Hn; simpl.
  - destruct Hn as [-> | Hn]; [reflexivity | lia].
  - destruct (Qlt_le_dec (g i) (g bi)) as [Hlt | Hle].
    + apply IH; auto. destruct Hn as [-> | Hn].
      * exfalso. assert (g n < g i) by (apply Hmin; lia). lra.
      * destruct (Nat.eq_dec i n); [left; assumption | right; lia].
    + apply IH; auto. destruct Hn as [-> | Hn]; [left; reflexivity|].
      destruct (Nat.eq_dec i n) as [-> | Hne]; [| right; lia].
      exfalso. assert (g n < g bi) by (apply Hmin; lia). lra.
Qed.

Lemma argmin_unique (g : nat -> Q) N n :
  (n < N)%nat -> (forall k, (k <> n)%nat -> g n < g k) -> argmin (map g (seq 0 N)) = n.
Proof.
  intros Hn Hmin. destruct N as [|N]; [lia|]. simpl.
  apply (argmin_aux_spec g n N 0%nat 1%nat Hmin); [lia|].
  destruct n; [left; reflexivity | right; lia].
Qed.

Lemma int_apart (a b : Z) : a <> b -> inject_Z a - inject_Z b <= - (1) \/ 1 <= inject_Z a - inject_Z b.
Proof.
  intro H. destruct (Z_lt_le_dec a b) as [L|L].
  - left. assert (a <= b - 1)%Z as L' by lia. rewrite Zle_Qle, inject_Z_minus1 in L'. lra.
  - right. assert (b <= a - 1)%Z as L' by lia. rewrite Zle_Qle, inject_Z_minus1 in L'. lra.
Qed.

(* nearest sample index: np.abs(time - t).argmin() with time_k = k/SR *)
Definition nearest (N : nat) (SR t : Q) : nat :=
  argmin (map (fun k => Qabs (inject_Z (Z.of_nat k) / SR - t)) (seq 0 N)).

Lemma Qabs_scale (SR x : Q) : 0 < SR -> Qabs (x / SR) == Qabs x / SR.
Proof.
  intro H. unfold Qdiv. rewrite Qabs_Qmult. rewrite (Qabs_pos (/ SR)); [reflexivity|].
  apply Qlt_le_weak. apply Qinv_lt_0_compat. exact H.
Qed.

Theorem nearest_round N SR t n :
  0 < SR -> (n < N)%nat -> Qabs (t * SR - inject_Z (Z.of_nat n)) < 1#2 -> nearest N SR t = n.
Proof.
  intros HSR Hn Hnear. unfold nearest. apply argmin_unique; [exact Hn|].
  intros k Hk.
  assert (forall j : nat, inject_Z (Z.of_nat j) / SR - t == (inject_Z (Z.of_nat j) - t * SR) / SR) as R
    by (intro j; field; lra).
  rewrite !R, !Qabs_scale by exact HSR.
  apply Qmult_lt_compat_r; [apply Qinv_lt_0_compat; exact HSR|].
  (* |n - tSR| < 1/2 < |k - tSR| because |k - n| >= 1 *)
  assert (Z.of_nat k <> Z.of_nat n) as NE by lia.
  apply int_apart in NE.
  apply Qabs_Qlt_condition in Hnear as [H1 H2].
  apply Qlt_trans with (1#2).
  - apply Qabs_Qlt_condition. split; lra.
  - apply Qabs_case; intro; destruct NE; lra.
Qed.

Example ex_rnd : (rnd (5#2), rnd (7#2), rnd (-5#2), rnd (29#10), nearest 10 100 (349#10000)) = (2, 4, -2, 3, 3%nat)%Z.
Proof. vm_compute. reflexivity. Qed.

(* closed form of [nearest] used by the executable model (equivalence: Proofs/NumFacts.v) *)
Definition nearest_fast (N : Z) (SR t : Q) : Z :=
  let x := t * SR in
  if Qle_bool x 0 then 0%Z else
  let k0 := Qfloor x in
  let c := if Qle_bool (x - inject_Z k0) (1#2) then k0 else (k0 + 1)%Z in
  Z.max 0 (Z.min c (N - 1)).
