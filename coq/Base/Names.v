From Coq Require Import String Ascii List Arith Lia Bool DecimalString DecimalNat DecimalFacts Decimal.
Import ListNotations.

(* names as lists of characters: easier induction than [string] *)
Definition str := list ascii.
Definition is_digit (c : ascii) : bool :=
  let n := nat_of_ascii c in (48 <=? n) && (n <=? 57).

Fixpoint strip (l : str) : str :=           (* on the REVERSED name *)
  match l with
  | c :: t => if is_digit c then strip t else l
  | [] => []
  end.
Definition basename (s : str) : str := List.rev (strip (List.rev s)).
Definition ends_in_digit (s : str) : bool :=
  match List.rev s with c :: _ => is_digit c | [] => false end.

Definition dec (k : nat) : str := list_ascii_of_string (NilEmpty.string_of_uint (Nat.to_uint k)).

Fixpoint count (b : str) (l : list str) : nat :=
  match l with
  | [] => 0
  | x :: t => (if list_eq_dec ascii_dec b x then 1 else 0) + count b t
  end.

Definition mk (b : str) (k : nat) : str := if k =? 1 then b else b ++ dec k.

(* k-th occurrence (in list order) of a base gets base / base++k *)
Fixpoint uniq_aux (seen bases : list str) : list str :=
  match bases with
  | [] => []
  | b :: t => mk b (S (count b seen)) :: uniq_aux (b :: seen) t
  end.
Definition uniquify (l : list str) : list str := uniq_aux [] (map basename l).

(* ---------- digits of the decimal printer ---------- *)
Lemma string_of_uint_digits d :
  forallb is_digit (list_ascii_of_string (NilEmpty.string_of_uint d)) = true.
Proof. induction d; simpl; try rewrite IHd; reflexivity. Qed.

Lemma dec_digits k : forallb is_digit (dec k) = true.
Proof. apply string_of_uint_digits. Qed.

Lemma list_ascii_inj s s' : list_ascii_of_string s = list_ascii_of_string s' -> s = s'.
Proof.
  intro H. rewrite <- (string_of_list_ascii_of_string s), <- (string_of_list_ascii_of_string s').
  now rewrite H.
Qed.

Lemma dec_inj k k' : dec k = dec k' -> k = k'.
Proof.
  unfold dec. intro H. apply list_ascii_inj in H.
  apply Unsigned.to_uint_inj.
  assert (Some (Nat.to_uint k) = Some (Nat.to_uint k')) as E.
  { rewrite <- !NilEmpty.usu. now rewrite H. }
  now inversion E.
Qed.

Lemma dec_nonempty k : dec k <> [].
Proof.
  unfold dec. intro H.
  assert (NilEmpty.string_of_uint (Nat.to_uint k) = EmptyString) as E.
  { apply list_ascii_inj. exact H. }
  pose proof (NilEmpty.usu (Nat.to_uint k)) as U. rewrite E in U. simpl in U.
  inversion U as [U'].
  pose proof (Unsigned.to_of (Nat.to_uint k)) as T. rewrite Unsigned.of_to in T.
  rewrite <- U' in T. symmetry in T. revert T. apply unorm_nonnil.
Qed.

(* ---------- basename ---------- *)
Lemma strip_digits d l : forallb is_digit d = true -> strip (d ++ l) = strip l.
Proof. induction d as [|c d IH]; simpl; intro H; [reflexivity|].
  apply andb_true_iff in H as [Hc Hd]. rewrite Hc. auto. Qed.

Lemma strip_fix l : (match l with c :: _ => is_digit c | [] => false end) = false -> strip l = l.
Proof. destruct l as [|c t]; simpl; intro H; [reflexivity| now rewrite H]. Qed.

Lemma strip_head l : (match strip l with c :: _ => is_digit c | [] => false end) = false.
Proof. induction l as [|c t IH]; simpl; [reflexivity|]. destruct (is_digit c) eqn:E; [exact IH| simpl; exact E]. Qed.

Lemma basename_no_digit s : ends_in_digit (basename s) = false.
Proof. unfold ends_in_digit, basename. rewrite List.rev_involutive. apply strip_head. Qed.

Lemma forallb_rev {A} (f : A -> bool) l : forallb f (List.rev l) = forallb f l.
Proof. induction l; simpl; [reflexivity|]. rewrite forallb_app, IHl. simpl. rewrite andb_true_r. apply andb_comm. Qed.

Lemma basename_app_digits b d :
  ends_in_digit b = false -> forallb is_digit d = true -> basename (b ++ d) = b.
Proof.
  unfold basename, ends_in_digit. intros Hb Hd.
  rewrite List.rev_app_distr, strip_digits by (now rewrite forallb_rev).
  rewrite strip_fix by exact Hb. apply List.rev_involutive.
Qed.

Lemma basename_id b : ends_in_digit b = false -> basename b = b.
Proof. intro H. rewrite <- (List.app_nil_r b) at 1. now apply basename_app_digits. Qed.

Lemma basename_mk b k : ends_in_digit b = false -> basename (mk b k) = b.
Proof. intro H. unfold mk. destruct (k =? 1); [now apply basename_id|].
  apply basename_app_digits; [exact H | apply dec_digits]. Qed.

Lemma mk_inj b b' k k' :
  ends_in_digit b = false -> ends_in_digit b' = false -> 1 <= k -> 1 <= k' ->
  mk b k = mk b' k' -> b = b' /\ k = k'.
Proof.
  intros Hb Hb' Hk Hk' E.
  assert (b = b') as ->.
  { rewrite <- (basename_mk b k Hb), <- (basename_mk b' k' Hb'). now rewrite E. }
  split; [reflexivity|]. unfold mk in E.
  destruct (k =? 1) eqn:E1, (k' =? 1) eqn:E2.
  - apply Nat.eqb_eq in E1, E2. lia.
  - exfalso. rewrite <- (List.app_nil_r b') in E at 1. apply List.app_inv_head in E. symmetry in E. now apply dec_nonempty in E.
  - exfalso. rewrite <- (List.app_nil_r b') in E at 2. apply List.app_inv_head in E. now apply dec_nonempty in E.
  - apply List.app_inv_head in E. now apply dec_inj.
Qed.

(* ---------- uniqueness ---------- *)
Lemma in_uniq_aux seen bases x :
  In x (uniq_aux seen bases) ->
  exists b k, In b bases /\ x = mk b k /\ count b seen < k.
Proof.
  revert seen. induction bases as [|b t IH]; simpl; intros seen H; [contradiction|].
  destruct H as [<- | H].
  - exists b, (S (count b seen)). repeat split; auto.
  - apply IH in H as (b' & k & Hin & -> & Hk). exists b', k. repeat split; auto.
    simpl in Hk. destruct (list_eq_dec ascii_dec b' b); lia.
Qed.

Lemma uniq_aux_NoDup seen bases :
  Forall (fun b => ends_in_digit b = false) bases ->
  NoDup (uniq_aux seen bases).
Proof.
  revert seen. induction bases as [|b t IH]; simpl; intros seen HF; [constructor|].
  inversion HF as [|? ? Hb Ht]; subst. constructor; [| now apply IH].
  intro Hin. apply in_uniq_aux in Hin as (b' & k & Hin' & E & Hk).
  assert (ends_in_digit b' = false) as Hb' by (rewrite Forall_forall in Ht; now apply Ht).
  apply mk_inj in E as [E1 E2]; auto; try lia. subst b' k.
  simpl in Hk. destruct (list_eq_dec ascii_dec b b); [lia | congruence].
Qed.

Theorem uniquify_NoDup l : NoDup (uniquify l).
Proof.
  apply uniq_aux_NoDup. rewrite Forall_forall. intros b Hb.
  apply in_map_iff in Hb as (s & <- & _). apply basename_no_digit.
Qed.

(* idempotence: canonical names are a fixed point (the Inv of C05) *)
Lemma map_basename_uniq_aux seen bases :
  Forall (fun b => ends_in_digit b = false) bases ->
  map basename (uniq_aux seen bases) = bases.
Proof.
  revert seen. induction bases as [|b t IH]; simpl; intros seen HF; [reflexivity|].
  inversion HF; subst. rewrite basename_mk by assumption. f_equal. now apply IH.
Qed.

Theorem uniquify_idem l : uniquify (uniquify l) = uniquify l.
Proof.
  unfold uniquify at 1. unfold uniquify at 1. rewrite map_basename_uniq_aux; [reflexivity|].
  rewrite Forall_forall. intros b Hb. apply in_map_iff in Hb as (s & <- & _). apply basename_no_digit.
Qed.

Example ex_uniquify :
  let s := list_ascii_of_string in
  uniquify [s "ramp"; s "ramp2"; s "a1b"; s "ramp"; s "a1b7"; s "x"]%string =
           [s "ramp"; s "ramp2"; s "a1b"; s "ramp3"; s "a1b2"; s "x"]%string.
Proof. vm_compute. reflexivity. Qed.
