(* Python list operations as the interpreter defines them (executable; lemmas in Proofs/). *)
From Coq Require Import List Arith ZArith Lia Bool.
Import ListNotations.

Section PyList.
Context {A : Type}.

(* list.insert(pos, x) for pos >= 0: clamps at the end *)
Definition ins (p : nat) (x : A) (l : list A) : list A := firstn p l ++ x :: skipn p l.

(* del l[p] for p < len l *)
Definition del (p : nat) (l : list A) : list A := firstn p l ++ skipn (S p) l.

(* l[p] = x for p < len l *)
Definition upd (p : nat) (x : A) (l : list A) : list A :=
  match skipn p l with
  | [] => l
  | _ :: t => firstn p l ++ x :: t
  end.

Fixpoint index_of (eqb : A -> A -> bool) (x : A) (l : list A) : option nat :=
  match l with
  | [] => None
  | y :: t => if eqb x y then Some 0 else option_map S (index_of eqb x t)
  end.

Definition all_eq_first (eqb : A -> A -> bool) (l : list A) : bool :=
  match l with [] => true | x :: _ => forallb (eqb x) l end.

End PyList.

Lemma ins_length {A} p (x : A) l : length (ins p x l) = S (length l).
Proof.
  unfold ins. rewrite app_length. simpl. rewrite firstn_length, skipn_length. lia.
Qed.

Lemma del_length {A} p (l : list A) : p < length l -> length (del p l) = length l - 1.
Proof.
  intro H. unfold del. rewrite app_length, firstn_length, skipn_length. lia.
Qed.

Lemma upd_length {A} p (x : A) l : length (upd p x l) = length l.
Proof.
  unfold upd. destruct (skipn p l) as [|y t] eqn:E; [reflexivity|].
  rewrite app_length. simpl.
  assert (length (skipn p l) = S (length t)) as L by (rewrite E; reflexivity).
  rewrite skipn_length in L. rewrite firstn_length. lia.
Qed.

Lemma nth_error_firstn_lt {A} (l : list A) p k : k < p -> nth_error (firstn p l) k = nth_error l k.
Proof.
  revert p k. induction l as [|a l IH]; intros p k H.
  - rewrite firstn_nil. reflexivity.
  - destruct p as [|p]; [lia|]. destruct k as [|k]; simpl; [reflexivity|]. apply IH. lia.
Qed.

Lemma nth_error_ins_lt {A} p (x : A) l k : k < p -> p <= length l -> nth_error (ins p x l) k = nth_error l k.
Proof.
  intros Hk Hp. unfold ins. rewrite nth_error_app1 by (rewrite firstn_length; lia).
  apply nth_error_firstn_lt; lia.
Qed.

Lemma nth_error_skipn {A} (l : list A) p k : nth_error (skipn p l) k = nth_error l (p + k).
Proof.
  revert l. induction p as [|p IH]; intro l; simpl; [reflexivity|].
  destruct l; [now destruct k | apply IH].
Qed.

Lemma nth_error_ins_eq {A} p (x : A) l : p <= length l -> nth_error (ins p x l) p = Some x.
Proof.
  intro Hp. unfold ins. rewrite nth_error_app2 by (rewrite firstn_length; lia).
  rewrite firstn_length. replace (p - Nat.min p (length l)) with 0 by lia. reflexivity.
Qed.

Lemma nth_error_ins_gt {A} p (x : A) l k : p <= length l -> p < k -> nth_error (ins p x l) k = nth_error l (k - 1).
Proof.
  intros Hp Hk. unfold ins. rewrite nth_error_app2 by (rewrite firstn_length; lia).
  rewrite firstn_length. replace (k - Nat.min p (length l)) with (S (k - 1 - p)) by lia.
  simpl. rewrite nth_error_skipn. f_equal. lia.
Qed.

Lemma nth_error_upd_eq {A} p (x : A) l : p < length l -> nth_error (upd p x l) p = Some x.
Proof.
  intro H. unfold upd. destruct (skipn p l) as [|y t] eqn:E.
  - assert (length (skipn p l) = 0) as L by (rewrite E; reflexivity). rewrite skipn_length in L. lia.
  - rewrite nth_error_app2 by (rewrite firstn_length; lia). rewrite firstn_length.
    replace (p - Nat.min p (length l)) with 0 by lia. reflexivity.
Qed.

Lemma nth_error_upd_neq {A} p (x : A) l k : k <> p -> nth_error (upd p x l) k = nth_error l k.
Proof.
  intro H. unfold upd. destruct (skipn p l) as [|y t] eqn:E; [reflexivity|].
  assert (length (skipn p l) = S (length t)) as L by (rewrite E; reflexivity). rewrite skipn_length in L.
  destruct (Nat.lt_ge_cases k p) as [Hlt|Hge].
  - rewrite nth_error_app1 by (rewrite firstn_length; lia). apply nth_error_firstn_lt. exact Hlt.
  - rewrite nth_error_app2 by (rewrite firstn_length; lia). rewrite firstn_length.
    replace (k - Nat.min p (length l)) with (S (k - p - 1)) by lia. simpl.
    assert (nth_error (skipn p l) (S (k - p - 1)) = nth_error l k) as R.
    { rewrite nth_error_skipn. f_equal. lia. }
    rewrite E in R. simpl in R. exact R.
Qed.

Lemma nth_error_del_lt {A} p (l : list A) k : k < p -> nth_error (del p l) k = nth_error l k.
Proof.
  intro H. unfold del. destruct (Nat.lt_ge_cases k (length l)) as [Hl|Hl].
  - rewrite nth_error_app1 by (rewrite firstn_length; lia). apply nth_error_firstn_lt. exact H.
  - assert (nth_error l k = None) as -> by (apply nth_error_None; lia).
    apply nth_error_None. rewrite app_length, firstn_length, skipn_length. lia.
Qed.

Lemma nth_error_del_ge {A} p (l : list A) k : p < length l -> p <= k -> nth_error (del p l) k = nth_error l (S k).
Proof.
  intros Hp H. unfold del. rewrite nth_error_app2 by (rewrite firstn_length; lia).
  rewrite firstn_length, nth_error_skipn. f_equal. lia.
Qed.

Lemma index_of_Some {A} (eqb : A -> A -> bool) x l i :
  index_of eqb x l = Some i -> i < length l /\ exists y, nth_error l i = Some y /\ eqb x y = true.
Proof.
  revert i. induction l as [|y t IH]; simpl; intros i H; [discriminate|].
  destruct (eqb x y) eqn:E.
  - inversion H; subst. split; [lia|]. exists y. auto.
  - destruct (index_of eqb x t) as [j|]; [|discriminate]. inversion H; subst.
    destruct (IH j eq_refl) as [L (z & N & Ez)]. split; [simpl; lia|]. exists z. auto.
Qed.

Lemma index_of_first {A} (eqb : A -> A -> bool) x l i :
  index_of eqb x l = Some i -> forall k y, k < i -> nth_error l k = Some y -> eqb x y = false.
Proof.
  revert i. induction l as [|z t IH]; simpl; intros i H k y Hk Hn; [discriminate|].
  destruct (eqb x z) eqn:E.
  - inversion H; subst. lia.
  - destruct (index_of eqb x t) as [j|] eqn:Ej; [|discriminate]. inversion H; subst.
    destruct k; simpl in Hn; [inversion Hn; subst; exact E|].
    eapply IH; eauto. lia.
Qed.

Lemma index_of_None {A} (eqb : A -> A -> bool) x l :
  index_of eqb x l = None -> forall y, In y l -> eqb x y = false.
Proof.
  induction l as [|z t IH]; simpl; intros H y Hy; [contradiction|].
  destruct (eqb x z) eqn:E; [discriminate|].
  destruct (index_of eqb x t); [discriminate|].
  destruct Hy as [<-|Hy]; auto.
Qed.
