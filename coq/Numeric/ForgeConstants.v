(* The minimum segment length of the hand-written forging model is the one blueprint._subelementBuilder states
   (`if int_dur < k: raise SegmentDurationError`, k regenerated from the source on every run). *)
From Coq Require Import ZArith QArith List.
From BB Require Import Base.Num Model.Types Model.Forge Generated.OutputGuardsGen.
Import ListNotations.
Open Scope Z_scope.

Lemma forge_min_points_source : min_points = forge_min_points.
Proof. reflexivity. Qed.

(* ... and it is the bound int_durs enforces: a numeric duration is accepted iff it rounds to at least that many points *)
Lemma int_durs_single_source : forall SR d,
  int_durs SR [VNum d] = if rnd (d * SR) <? forge_min_points then Err ESegDur else Ok [rnd (d * SR)].
Proof. intros SR d; cbn [int_durs]; unfold forge_min_points; destruct (rnd (d * SR) <? 2); reflexivity. Qed.
