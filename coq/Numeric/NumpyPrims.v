(* The reading of the numpy primitives used by the translated numeric kernels (tie T).
   Arrays are index functions nat -> R / nat -> C; their lengths are tracked by the translator.
   Each definition below is validated numerically against numpy on every run (harness/numprims.py). *)
From Coq Require Import Reals ZArith Lia String List.
From Coquelicot Require Import Coquelicot.
Open Scope R_scope.

(* np.linspace(a, b, n, endpoint=False)[k] = a + k * ((b - a) / n) *)
Definition linspace_open (a b : R) (n k : nat) : R := a + INR k * ((b - a) / INR n).

(* numpy.fft.fftfreq(n, d)[k]: k/(n d) for k < (n+1)/2 (integer division), (k - n)/(n d) above *)
Definition fftfreq (n : nat) (d : R) (k : nat) : R :=
  if Nat.ltb k ((n + 1) / 2) then INR k / (INR n * d) else (INR k - INR n) / (INR n * d).

(* integer powers of complex numbers: tf ** order with a (possibly negative) Python int *)
Fixpoint Cpow_nat (z : C) (n : nat) : C := match n with O => RtoC 1 | S m => Cmult z (Cpow_nat z m) end.
Definition Cpowz (z : C) (n : Z) : C :=
  match n with
  | Z0 => RtoC 1
  | Zpos p => Cpow_nat z (Pos.to_nat p)
  | Zneg p => Cinv (Cpow_nat z (Pos.to_nat p))
  end.

(* tf[tf == 0] = g *)
Definition Ceq_dec (x y : C) : {x = y} + {x <> y}.
Proof.
  destruct x as [a b], y as [c d].
  destruct (Req_EM_T a c) as [-> | Hn]; [destruct (Req_EM_T b d) as [-> | Hn]|].
  - left; reflexivity.
  - right; intro H; inversion H; contradiction.
  - right; intro H; inversion H; contradiction.
Defined.
Definition mask_zero (tf : nat -> C) (g : C) (k : nat) : C := if Ceq_dec (tf k) (RtoC 0) then g else tf k.

(* x[::-1] for an array of length n; np.concatenate((a, b)) with len a = la *)
Definition rev_arr {A} (x : nat -> A) (n k : nat) : A := x (n - 1 - k)%nat.
Definition concat_arr {A} (a : nat -> A) (la : nat) (b : nat -> A) (k : nat) : A :=
  if Nat.ltb k la then a k else b (k - la)%nat.

(* outcomes of the translated functions that validate their input *)
Inductive outcome (A : Type) := Returns (a : A) | Raises (exc : string).
Arguments Returns {A} a.
Arguments Raises {A} exc.
