(* Closed forms of the built-in pulse shapes, proved about the definitions that translator/py2coq.py
   regenerates from src/broadbean/broadbean.py on every run (Generated/PulseAtomsGen.v). *)
From Coq Require Import Reals ZArith Lia Lra String.
From Coquelicot Require Import Coquelicot.
From BB Require Import Numeric.NumpyPrims Generated.PulseAtomsGen.
Open Scope R_scope.

(* the sample time of index k *)
Definition t_of (SR : R) (k : nat) : R := INR k / SR.

(* the Gaussian factor of the documented forms, centred at mu + (n/SR)/2 *)
Definition gauss (sigma mu SR : R) (n : nat) (t : R) : R :=
  exp (- (t - mu - INR n / SR / 2) ^ 2 / (2 * sigma ^ 2)).

(* ---- lemmas: to be proved (see Props/C02.v for the exact statements needed) ---- *)

Lemma INR_pos_neq0 (n : nat) : (0 < n)%nat -> INR n <> 0.
Proof. intro H. apply not_0_INR. lia. Qed.

Lemma time_axis (SR : R) (n k : nat) :
  SR <> 0 -> (0 < n)%nat -> linspace_open (IZR 0) (INR n / SR) n k = t_of SR k.
Proof.
  intros HSR Hn. pose proof (INR_pos_neq0 n Hn) as HN.
  unfold linspace_open, t_of. field. split; assumption.
Qed.

Lemma time_axis_div (SR : R) (n k : nat) :
  SR <> 0 -> (0 < n)%nat -> linspace_open (IZR 0) (Rdiv (INR n) SR) n k = INR k / SR.
Proof. intros. rewrite time_axis by assumption. reflexivity. Qed.

Lemma INR2 : INR 2%nat = 2. Proof. simpl; lra. Qed.
Lemma INR1 : INR 1%nat = 1. Proof. reflexivity. Qed.
Lemma INR0 : INR 0%nat = 0. Proof. reflexivity. Qed.

(* 1 <= exp x for 0 < x, from the power series (as in the standard library's exp_pos_pos);
   avoids exp_increasing, whose proof depends on Classical_Prop.classic *)
Lemma exp_ge_1_pos (x : R) : 0 < x -> 1 <= exp x.
Proof.
  intro H. set (An := fun N : nat => / INR (fact N) * x ^ N).
  assert (Hcv : Un_cv (fun n : nat => sum_f_R0 An n) (exp x)).
  { unfold exp; unfold projT1; case (exist_exp x); intro.
    unfold exp_in; unfold infinite_sum, Un_cv; trivial. }
  apply Rle_trans with (sum_f_R0 An 0).
  - unfold An; simpl; rewrite Rinv_1; rewrite Rmult_1_r. apply Rle_refl.
  - apply sum_incr.
    + exact Hcv.
    + intro n; unfold An; left; apply Rmult_lt_0_compat.
      * apply Rinv_0_lt_compat; apply INR_fact_lt_0.
      * apply (pow_lt _ n H).
Qed.

Lemma exp_le_1 (x : R) : x <= 0 -> exp x <= 1.
Proof.
  intro H. destruct (Rle_lt_or_eq_dec _ _ H) as [Hlt | Heq].
  - assert (H1 : 1 <= exp (- x)) by (apply exp_ge_1_pos; lra).
    assert (H2 : exp x * exp (- x) = 1).
    { rewrite <- exp_plus. rewrite Rplus_opp_r. apply exp_0. }
    pose proof (exp_pos x) as H3.
    nra.
  - rewrite Heq, exp_0. apply Rle_refl.
Qed.

Lemma atoms_lengths : forall (K : Type) f1 f2 f3 f4 SR n (func : (nat -> R) -> K -> nat -> R) kw,
  PA_sine_len f1 f2 f3 f4 SR n = n /\ PA_ramp_len f1 f2 SR n = n /\ PA_waituntil_len f1 SR n = n /\
  PA_gaussian_len f1 f2 f3 f4 SR n = n /\ PA_gaussian_smooth_cutoff_len f1 f2 f3 f4 SR n = n /\
  PA_arb_func_len func kw SR n = n.
Proof. intros. repeat split; reflexivity. Qed.

Lemma sine_closed : forall freq ampl off phase SR n k,
  SR <> 0 -> (0 < n)%nat ->
  PA_sine_gen freq ampl off phase SR n k = ampl * sin (2 * PI * freq * t_of SR k + phase) + off.
Proof.
  intros freq ampl off phase SR n k HSR Hn.
  unfold PA_sine_gen. cbv zeta.
  rewrite time_axis by assumption. rewrite INR2.
  match goal with |- ?a * sin ?x + ?o = ?a * sin ?y + ?o => replace x with y by ring end. reflexivity.
Qed.

Lemma ramp_closed : forall start stop SR n k,
  SR <> 0 -> (0 < n)%nat ->
  PA_ramp_gen start stop SR n k = start + (stop - start) * INR k / INR n.
Proof.
  intros start stop SR n k HSR Hn. pose proof (INR_pos_neq0 n Hn) as HN.
  unfold PA_ramp_gen. cbv zeta.
  rewrite time_axis by assumption. unfold t_of.
  field. split; assumption.
Qed.

Lemma ramp_shape : forall start stop SR n,
  SR <> 0 -> (0 < n)%nat ->
  PA_ramp_gen start stop SR n 0 = start /\
  (forall k, PA_ramp_gen start stop SR n (S k) - PA_ramp_gen start stop SR n k = (stop - start) / INR n) /\
  (forall k, (k < n)%nat -> start <> stop -> PA_ramp_gen start stop SR n k <> stop).
Proof.
  intros start stop SR n HSR Hn. pose proof (INR_pos_neq0 n Hn) as HN.
  split; [|split].
  - rewrite ramp_closed by assumption. change (INR 0) with 0. field. assumption.
  - intro k. rewrite !ramp_closed by assumption. rewrite S_INR. field. assumption.
  - intros k Hk Hne Heq. rewrite ramp_closed in Heq by assumption.
    assert (H0 : (stop - start) * (INR k - INR n) = 0).
    { apply (Rmult_eq_reg_r (/ INR n)); [| apply Rinv_neq_0_compat; assumption].
      rewrite Rmult_0_l.
      replace ((stop - start) * (INR k - INR n) * / INR n)
        with (start + (stop - start) * INR k / INR n - stop) by (field; assumption).
      rewrite Heq. ring. }
    apply Rmult_integral in H0. destruct H0 as [H0 | H0].
    + apply Hne. lra.
    + apply lt_INR in Hk. lra.
Qed.

Lemma gaussian_closed : forall ampl sigma mu offset SR n k,
  SR <> 0 -> (0 < n)%nat ->
  PA_gaussian_gen ampl sigma mu offset SR n k = ampl * gauss sigma mu SR n (t_of SR k) + offset.
Proof.
  intros ampl sigma mu offset SR n k HSR Hn.
  unfold PA_gaussian_gen, gauss. cbv zeta.
  rewrite time_axis by assumption. rewrite !INR2.
  reflexivity.
Qed.

Lemma gauss_at_centre : forall sigma mu SR n t,
  t = mu + INR n / SR / 2 -> gauss sigma mu SR n t = 1.
Proof.
  intros sigma mu SR n t Ht. unfold gauss. rewrite Ht.
  replace (mu + INR n / SR / 2 - mu - INR n / SR / 2) with 0 by ring.
  replace (- 0 ^ 2 / (2 * sigma ^ 2)) with 0 by (unfold Rdiv; ring).
  apply exp_0.
Qed.

Lemma gauss_le_1 : forall sigma mu SR n t, sigma <> 0 -> gauss sigma mu SR n t <= 1.
Proof.
  intros sigma mu SR n t Hs. unfold gauss. apply exp_le_1.
  assert (Hpos : 0 < 2 * sigma ^ 2).
  { assert (0 < sigma ^ 2) by (apply pow2_gt_0; assumption). lra. }
  unfold Rdiv.
  assert (Hinv : 0 < / (2 * sigma ^ 2)) by (apply Rinv_0_lt_compat; exact Hpos).
  assert (Hsq : 0 <= (t - mu - INR n * / SR * / 2) ^ 2) by apply pow2_ge_0.
  nra.
Qed.

Lemma gaussian_peak : forall ampl sigma mu offset SR n k,
  SR <> 0 -> (0 < n)%nat -> t_of SR k = mu + INR n / SR / 2 ->
  PA_gaussian_gen ampl sigma mu offset SR n k = ampl + offset.
Proof.
  intros ampl sigma mu offset SR n k HSR Hn Ht.
  rewrite gaussian_closed by assumption.
  rewrite gauss_at_centre by assumption. ring.
Qed.

Lemma gaussian_bound : forall ampl sigma mu offset SR n k,
  SR <> 0 -> (0 < n)%nat -> sigma <> 0 -> 0 <= ampl ->
  PA_gaussian_gen ampl sigma mu offset SR n k <= ampl + offset.
Proof.
  intros ampl sigma mu offset SR n k HSR Hn Hs Ha.
  rewrite gaussian_closed by assumption.
  pose proof (gauss_le_1 sigma mu SR n (t_of SR k) Hs) as H1.
  nra.
Qed.

Lemma gsc_closed : forall ampl sigma mu offset SR n k,
  SR <> 0 -> (0 < n)%nat -> gauss sigma mu SR n 0 <> 1 ->
  PA_gaussian_smooth_cutoff_gen ampl sigma mu offset SR n k =
  ampl * (gauss sigma mu SR n (t_of SR k) - gauss sigma mu SR n 0) / (1 - gauss sigma mu SR n 0) + offset.
Proof.
  intros ampl sigma mu offset SR n k HSR Hn Hg.
  unfold PA_gaussian_smooth_cutoff_gen. cbv zeta.
  rewrite time_axis by assumption. rewrite !INR2, !INR1, !INR0.
  unfold gauss in *.
  field. lra.
Qed.

Lemma gsc_start : forall ampl sigma mu offset SR n,
  SR <> 0 -> (0 < n)%nat -> gauss sigma mu SR n 0 <> 1 ->
  PA_gaussian_smooth_cutoff_gen ampl sigma mu offset SR n 0 = offset.
Proof.
  intros ampl sigma mu offset SR n HSR Hn Hg.
  rewrite gsc_closed by assumption.
  replace (t_of SR 0) with 0 by (unfold t_of; change (INR 0) with 0; unfold Rdiv; ring).
  field. lra.
Qed.

Lemma gsc_peak : forall ampl sigma mu offset SR n k,
  SR <> 0 -> (0 < n)%nat -> gauss sigma mu SR n 0 <> 1 -> t_of SR k = mu + INR n / SR / 2 ->
  PA_gaussian_smooth_cutoff_gen ampl sigma mu offset SR n k = ampl + offset.
Proof.
  intros ampl sigma mu offset SR n k HSR Hn Hg Ht.
  rewrite gsc_closed by assumption.
  rewrite (gauss_at_centre sigma mu SR n (t_of SR k)) by assumption.
  field. lra.
Qed.

Lemma waituntil_zero : forall dummy SR n k, PA_waituntil_gen dummy SR n k = 0.
Proof. intros. reflexivity. Qed.

Lemma arb_func_passthrough : forall (K : Type) (func : (nat -> R) -> K -> nat -> R) (kw : K) SR n k,
  SR <> 0 -> (0 < n)%nat ->
  (forall t t' : nat -> R, (forall j, t j = t' j) -> forall kw' j, func t kw' j = func t' kw' j) ->
  PA_arb_func_gen func kw SR n k = func (t_of SR) kw k.
Proof.
  intros K func kw SR n k HSR Hn Hext.
  unfold PA_arb_func_gen. cbv zeta.
  apply Hext. intro j. apply time_axis; assumption.
Qed.
