(* The numeric constants of the hand-written model's guards are the ones the source states: the right-hand sides
   below are regenerated from src/broadbean/sequence.py on every run (Generated/OutputGuardsGen.v),
   so a changed limit in the source breaks these equalities at build time, before any case is run. *)
From Coq Require Import ZArith Bool List.
From BB Require Import Model.Types Model.Sequence Model.Output Generated.OutputGuardsGen.
Import ListNotations.
Open Scope Z_scope.

Definition in_list (l : list Z) (v : Z) : bool := existsb (Z.eqb v) l.          (* v in [c1, c2, ...] *)
Definition in_pair (r : Z * Z) (v : Z) : bool := in_range (fst r) (snd r) v.    (* v in range(lo, hi) *)

Lemma awg_seq_ok_source : forall n q,
  awg_seq_ok n q =
  in_list outputForAWGFile_twait_allowed (twait q)
  && in_pair (outputForAWGFile_nrep_range n) (nrep q)
  && in_pair (outputForAWGFile_jump_to_range n) (jump_target q)
  && in_pair (outputForAWGFile_goto_range n) (goto q).
Proof.
  intros n q; unfold awg_seq_ok, in_list, in_pair, outputForAWGFile_twait_allowed, outputForAWGFile_nrep_range,
    outputForAWGFile_jump_to_range, outputForAWGFile_goto_range; cbn [existsb fst snd].
  rewrite orb_false_r, (Z.eqb_sym (twait q) 0), (Z.eqb_sym (twait q) 1); reflexivity.
Qed.

Lemma seqx_seq_ok_source : forall n q,
  seqx_seq_ok n q =
  in_list outputForSEQXFile_twait_allowed (twait q)
  && in_list outputForSEQXFile_jump_state_allowed (jump_input q)
  && in_pair (outputForSEQXFile_nrep_range n) (nrep q)
  && in_pair (outputForSEQXFile_jump_to_range n) (jump_target q)
  && in_pair (outputForSEQXFile_goto_range n) (goto q).
Proof.
  intros n q; unfold seqx_seq_ok, in_list, in_pair, outputForSEQXFile_twait_allowed, outputForSEQXFile_jump_state_allowed,
    outputForSEQXFile_nrep_range, outputForSEQXFile_jump_to_range, outputForSEQXFile_goto_range; cbn [existsb fst snd].
  assert (H : forall v, in_range 0 4 v = ((v =? 0) || ((v =? 1) || ((v =? 2) || ((v =? 3) || false))))).
  { intro v; unfold in_range.
    destruct (Z.leb_spec 0 v), (Z.ltb_spec v 4), (Z.eqb_spec v 0), (Z.eqb_spec v 1), (Z.eqb_spec v 2), (Z.eqb_spec v 3);
      cbn; try reflexivity; exfalso; Lia.lia. }
  rewrite !H; reflexivity.
Qed.

Lemma seqx_min_points_source : seqx_min_points = outputForSEQXFile_min_points.
Proof. reflexivity. Qed.
