(* The transfer functions of ripasso, proved about the definitions that translator/py2coq.py regenerates
   from src/broadbean/ripasso.py on every run (Generated/RipassoGen.v). *)
From Coq Require Import Reals ZArith Lia Lra String.
From Coquelicot Require Import Coquelicot.
From BB Require Import Numeric.NumpyPrims Generated.RipassoGen.
Open Scope R_scope.

(* i * w * tau with w = 2 pi f and tau = 1 / f_cut *)
Definition iwt (f f_cut : R) : C := Cmult Ci (RtoC (2 * PI * f * (1 / f_cut))).
Definition H_HP (f f_cut : R) : C := Cdiv (iwt f f_cut) (Cplus (RtoC 1) (iwt f f_cut)).
Definition H_LP (f f_cut : R) : C := Cdiv (RtoC 1) (Cplus (RtoC 1) (iwt f f_cut)).

(* frequency of DFT bin j of a length-n signal sampled at SR, in numpy's layout *)
Definition bin_freq (SR : R) (n j : nat) : R := fftfreq n (1 / SR) j.

(* the contract assumed of numpy.fft on length-n arrays (external code, validated numerically each run) *)
Definition fft_inverse (fft ifft : nat -> (nat -> C) -> nat -> C) (n : nat) : Prop :=
  forall X k, (k < n)%nat -> fft n (ifft n X) k = X k.
Definition fft_real_part (fft : nat -> (nat -> C) -> nat -> C) (n : nat) : Prop :=
  forall (y : nat -> C) j, (0 < j < n)%nat ->
    fft n (fun k => RtoC (fst (y k))) j = Cdiv (Cplus (fft n y j) (Cconj (fft n y (n - j)%nat))) (RtoC 2).
Definition fft_real_hermitian (fft : nat -> (nat -> C) -> nat -> C) (n : nat) : Prop :=
  forall (x : nat -> R) j, (0 < j < n)%nat ->
    fft n (fun k => RtoC (x k)) (n - j)%nat = Cconj (fft n (fun k => RtoC (x k)) j).
Definition ext_on (F : nat -> (nat -> C) -> nat -> C) (n : nat) : Prop :=
  forall X X', (forall j, (j < n)%nat -> X j = X' j) -> forall k, F n X k = F n X' k.

(* ---- lemmas: to be proved (see Props/C12.v and Props/C13.v for the exact statements needed) ---- *)

(* ================= complex-number helpers ================= *)

Lemma Ceq_parts : forall z w : C, fst z = fst w -> snd z = snd w -> z = w.
Proof. intros [a b] [c d]; simpl; intros -> ->; reflexivity. Qed.

Lemma RtoC_neq0 : forall r : R, r <> 0 -> RtoC r <> RtoC 0.
Proof. intros r H E; apply H; apply (f_equal fst) in E; exact E. Qed.

Lemma Cconj_RtoC : forall r : R, Cconj (RtoC r) = RtoC r.
Proof. intro r; apply Ceq_parts; simpl; ring. Qed.

Lemma Cconj_conj : forall z, Cconj (Cconj z) = z.
Proof. intros [a b]; apply Ceq_parts; simpl; ring. Qed.

Lemma Cconj_plus : forall z w, Cconj (Cplus z w) = Cplus (Cconj z) (Cconj w).
Proof. intros [a b] [c d]; apply Ceq_parts; simpl; ring. Qed.

Lemma Cconj_mult : forall z w, Cconj (Cmult z w) = Cmult (Cconj z) (Cconj w).
Proof. intros [a b] [c d]; apply Ceq_parts; simpl; ring. Qed.

Lemma Cconj_inv : forall z, Cconj (Cinv z) = Cinv (Cconj z).
Proof.
  intros [a b]; unfold Cinv, Cconj; simpl.
  replace (- b * (- b * 1)) with (b * (b * 1)) by ring.
  apply Ceq_parts; simpl; unfold Rdiv; ring.
Qed.

Lemma Cconj_div : forall z w, Cconj (Cdiv z w) = Cdiv (Cconj z) (Cconj w).
Proof. intros z w; unfold Cdiv; rewrite Cconj_mult, Cconj_inv; reflexivity. Qed.

Lemma Cconj_pow_nat : forall z n, Cconj (Cpow_nat z n) = Cpow_nat (Cconj z) n.
Proof.
  intros z n; induction n as [|n IH]; simpl.
  - apply Cconj_RtoC.
  - rewrite Cconj_mult, IH; reflexivity.
Qed.

Lemma Cconj_powz : forall z a, Cconj (Cpowz z a) = Cpowz (Cconj z) a.
Proof.
  intros z [|p|p]; simpl.
  - apply Cconj_RtoC.
  - apply Cconj_pow_nat.
  - rewrite Cconj_inv, Cconj_pow_nat; reflexivity.
Qed.

Lemma Cconj_eq0 : forall z, Cconj z = RtoC 0 <-> z = RtoC 0.
Proof.
  intros [a b]; split; intro H.
  - apply Ceq_parts; simpl.
    + apply (f_equal fst) in H; exact H.
    + apply (f_equal snd) in H; simpl in H; lra.
  - rewrite H; apply Cconj_RtoC.
Qed.

(* ---- integer powers ---- *)

Lemma Cpow_nat_add : forall z a b, Cpow_nat z (a + b) = Cmult (Cpow_nat z a) (Cpow_nat z b).
Proof.
  intros z a b; induction a as [|a IH]; simpl.
  - rewrite Cmult_1_l; reflexivity.
  - rewrite IH; apply Cmult_assoc.
Qed.

Lemma Cpow_nat_neq0 : forall z n, z <> RtoC 0 -> Cpow_nat z n <> RtoC 0.
Proof.
  intros z n Hz; induction n as [|n IH]; simpl.
  - apply RtoC_neq0; lra.
  - apply Cmult_neq_0; assumption.
Qed.

Lemma Cpow_nat_0 : forall n, (0 < n)%nat -> Cpow_nat (RtoC 0) n = RtoC 0.
Proof. intros [|n] H; [lia|]; simpl; apply Cmult_0_l. Qed.

(* every integer power is a quotient of two natural powers *)
Lemma Cpowz_quot : forall z p q, z <> RtoC 0 ->
  Cpowz z (Z.of_nat p - Z.of_nat q) = Cmult (Cpow_nat z p) (Cinv (Cpow_nat z q)).
Proof.
  intros z p q Hz.
  pose proof (Cpow_nat_neq0 z p Hz) as Hp.
  pose proof (Cpow_nat_neq0 z q Hz) as Hq.
  destruct (Z.of_nat p - Z.of_nat q)%Z as [|r|r] eqn:E; simpl.
  - assert (p = q) by lia; subst q. symmetry; apply Cinv_r; assumption.
  - assert (p = (q + Pos.to_nat r)%nat) as -> by lia.
    rewrite Cpow_nat_add.
    pose proof (Cpow_nat_neq0 z (Pos.to_nat r) Hz) as Hr.
    field; assumption.
  - assert (q = (p + Pos.to_nat r)%nat) as -> by lia.
    rewrite Cpow_nat_add.
    pose proof (Cpow_nat_neq0 z (Pos.to_nat r) Hz) as Hr.
    field; split; assumption.
Qed.

Lemma Cpowz_add : forall z a b, z <> RtoC 0 -> Cmult (Cpowz z a) (Cpowz z b) = Cpowz z (a + b).
Proof.
  intros z a b Hz.
  replace a with (Z.of_nat (Z.to_nat a) - Z.of_nat (Z.to_nat (- a)))%Z at 1 by lia.
  replace b with (Z.of_nat (Z.to_nat b) - Z.of_nat (Z.to_nat (- b)))%Z at 1 by lia.
  replace (a + b)%Z with (Z.of_nat (Z.to_nat a + Z.to_nat b) - Z.of_nat (Z.to_nat (- a) + Z.to_nat (- b)))%Z by lia.
  rewrite !Cpowz_quot by assumption.
  rewrite !Cpow_nat_add.
  pose proof (Cpow_nat_neq0 z (Z.to_nat (- a)) Hz).
  pose proof (Cpow_nat_neq0 z (Z.to_nat (- b)) Hz).
  field; split; assumption.
Qed.

Lemma Cpowz_cancel : forall z a, z <> RtoC 0 -> Cmult (Cpowz z a) (Cpowz z (- a)) = RtoC 1.
Proof.
  intros z a Hz; rewrite Cpowz_add by assumption.
  replace (a + - a)%Z with 0%Z by lia; reflexivity.
Qed.

Lemma Cpowz_1 : forall z, Cpowz z 1 = z.
Proof. intro z; simpl; apply Cmult_1_r. Qed.

(* ---- tf[tf == 0] = g ---- *)

Lemma mask_zero_nz : forall tf g k, tf k <> RtoC 0 -> mask_zero tf g k = tf k.
Proof.
  intros tf g k H; unfold mask_zero.
  destruct (NumpyPrims.Ceq_dec (tf k) (RtoC 0)) as [E|E]; [contradiction|reflexivity].
Qed.

Lemma mask_zero_z : forall tf g k, tf k = RtoC 0 -> mask_zero tf g k = g.
Proof.
  intros tf g k H; unfold mask_zero.
  destruct (NumpyPrims.Ceq_dec (tf k) (RtoC 0)) as [E|E]; [reflexivity|contradiction].
Qed.

(* ---- i w tau ---- *)

Lemma one_plus_iwt_neq0 : forall f fc, Cplus (RtoC 1) (iwt f fc) <> RtoC 0.
Proof.
  intros f fc H; apply (f_equal fst) in H; unfold iwt in H; simpl in H; lra.
Qed.

Lemma iwt_0 : forall fc, iwt 0 fc = RtoC 0.
Proof. intro fc; unfold iwt; apply Ceq_parts; simpl; ring. Qed.

Lemma iwt_neq0 : forall f fc, fc <> 0 -> f <> 0 -> iwt f fc <> RtoC 0.
Proof.
  intros f fc Hfc Hf H; apply (f_equal snd) in H; unfold iwt in H; simpl in H.
  assert (E : 2 * PI * f * (1 / fc) = 0) by lra.
  assert (Hi : 1 / fc <> 0) by (unfold Rdiv; rewrite Rmult_1_l; apply Rinv_neq_0_compat; exact Hfc).
  pose proof PI_neq0 as HPI.
  apply Rmult_integral in E; destruct E as [E|E]; [|contradiction].
  apply Rmult_integral in E; destruct E as [E|E]; [|contradiction].
  apply Rmult_integral in E; destruct E as [E|E]; [lra|contradiction].
Qed.

Lemma iwt_opp : forall f fc, iwt (- f) fc = Cconj (iwt f fc).
Proof. intros f fc; unfold iwt; apply Ceq_parts; simpl; ring. Qed.

Lemma H_LP_neq0 : forall f fc, H_LP f fc <> RtoC 0.
Proof.
  intros f fc; unfold H_LP, Cdiv.
  apply Cmult_neq_0.
  - apply RtoC_neq0; lra.
  - intro E. pose proof (Cinv_r _ (one_plus_iwt_neq0 f fc)) as Hr. rewrite E, Cmult_0_r in Hr.
    apply (f_equal fst) in Hr; simpl in Hr; lra.
Qed.

Lemma H_HP_neq0 : forall f fc, fc <> 0 -> f <> 0 -> H_HP f fc <> RtoC 0.
Proof.
  intros f fc Hfc Hf; unfold H_HP, Cdiv.
  apply Cmult_neq_0.
  - apply iwt_neq0; assumption.
  - intro E. pose proof (Cinv_r _ (one_plus_iwt_neq0 f fc)) as Hr. rewrite E, Cmult_0_r in Hr.
    apply (f_equal fst) in Hr; simpl in Hr; lra.
Qed.

Lemma H_HP_0 : forall fc, H_HP 0 fc = RtoC 0.
Proof. intro fc; unfold H_HP, Cdiv; rewrite iwt_0; apply Cmult_0_l. Qed.

Lemma H_LP_opp : forall f fc, H_LP (- f) fc = Cconj (H_LP f fc).
Proof.
  intros f fc; unfold H_LP; rewrite Cconj_div, Cconj_plus, Cconj_RtoC, iwt_opp; reflexivity.
Qed.

Lemma H_HP_opp : forall f fc, H_HP (- f) fc = Cconj (H_HP f fc).
Proof.
  intros f fc; unfold H_HP; rewrite Cconj_div, Cconj_plus, Cconj_RtoC, iwt_opp; reflexivity.
Qed.

(* ================= the generated transfer function ================= *)

(* the base of the power computed by the generated _rcFilter *)
Definition rc_base (SR : R) (n : nat) (fc : R) (kind : string) (g : R) (k : nat) : C :=
  if String.eqb kind "HP" then mask_zero (fun k => H_HP (bin_freq SR n k) fc) (RtoC g) k
  else if String.eqb kind "LP" then H_LP (bin_freq SR n k) fc
  else RtoC 0.

(* top * tau * freqs[k] of the generated text is i w tau at the bin frequency *)
Ltac fold_iwt SR fc :=
  match goal with
  | |- context [Cmult (Cmult ?top (RtoC ?tau)) (RtoC (fftfreq ?n ?d ?k))] =>
    replace (Cmult (Cmult top (RtoC tau)) (RtoC (fftfreq n d k))) with (iwt (bin_freq SR n k) fc)
      by (unfold iwt, bin_freq; simpl INR; generalize (fftfreq n (1 / SR) k); intro;
          apply Ceq_parts; simpl; ring)
  end.

Lemma rc_gen_eq : forall SR n fc kind order g j,
  _rcFilter_gen SR n fc kind order g j = Cpowz (rc_base SR n fc kind g j) order.
Proof.
  intros SR n fc kind order g j.
  unfold _rcFilter_gen, rc_base; cbv zeta.
  destruct (String.eqb kind "HP"); [|destruct (String.eqb kind "LP")]; f_equal.
  - unfold mask_zero; cbv beta. fold_iwt SR fc. reflexivity.
  - fold_iwt SR fc. reflexivity.
Qed.

Lemma rc_base_LP : forall SR n fc g j, rc_base SR n fc "LP" g j = H_LP (bin_freq SR n j) fc.
Proof. intros; unfold rc_base; reflexivity. Qed.

Lemma rc_base_HP : forall SR n fc g j,
  rc_base SR n fc "HP" g j = mask_zero (fun k => H_HP (bin_freq SR n k) fc) (RtoC g) j.
Proof. intros; unfold rc_base; reflexivity. Qed.

Lemma rc_base_HP_nz : forall SR n fc g j, fc <> 0 -> bin_freq SR n j <> 0 ->
  rc_base SR n fc "HP" g j = H_HP (bin_freq SR n j) fc.
Proof.
  intros SR n fc g j Hfc Hf; rewrite rc_base_HP.
  apply (mask_zero_nz (fun k => H_HP (bin_freq SR n k) fc)).
  apply H_HP_neq0; assumption.
Qed.

Lemma rc_base_HP_dc : forall SR n fc g j, bin_freq SR n j = 0 -> rc_base SR n fc "HP" g j = RtoC g.
Proof.
  intros SR n fc g j Hf; rewrite rc_base_HP.
  apply (mask_zero_z (fun k => H_HP (bin_freq SR n k) fc)).
  rewrite Hf; apply H_HP_0.
Qed.

(* ================= C12 ================= *)

Lemma half_lt : forall n j : nat, (j <? (n + 1) / 2)%nat = true <-> (2 * j < n)%nat.
Proof.
  intros n j; rewrite Nat.ltb_lt.
  pose proof (Nat.div_mod (n + 1) 2 ltac:(lia)) as E.
  pose proof (Nat.mod_upper_bound (n + 1) 2 ltac:(lia)) as B.
  lia.
Qed.

Lemma bin_layout : forall SR n j, SR <> 0 -> (0 < n)%nat -> (j < n)%nat ->
  ((2 * j < n)%nat -> bin_freq SR n j = INR j * SR / INR n) /\
  ((n <= 2 * j)%nat -> bin_freq SR n j = - (INR (n - j) * SR / INR n)).
Proof.
  intros SR n j HSR Hn Hj.
  assert (HnR : INR n <> 0) by (apply not_0_INR; lia).
  unfold bin_freq, fftfreq; split; intro H.
  - destruct (half_lt n j) as [_ Hb]; rewrite (Hb H). field; split; assumption.
  - destruct (j <? (n + 1) / 2)%nat eqn:E.
    + apply half_lt in E; lia.
    + rewrite minus_INR by lia. field; split; assumption.
Qed.

Lemma bins_mirror : forall SR n j, SR <> 0 -> (0 < j < n)%nat -> (2 * j <> n)%nat ->
  bin_freq SR n (n - j) = - bin_freq SR n j.
Proof.
  intros SR n j HSR Hj Hne.
  destruct (bin_layout SR n j HSR ltac:(lia) ltac:(lia)) as [A1 A2].
  destruct (bin_layout SR n (n - j) HSR ltac:(lia) ltac:(lia)) as [B1 B2].
  destruct (Nat.lt_ge_cases (2 * j) n) as [L|G].
  - rewrite (A1 L), (B2 ltac:(lia)). replace (n - (n - j))%nat with j by lia. reflexivity.
  - rewrite (A2 G), (B1 ltac:(lia)). ring.
Qed.

Lemma bin_freq_neq0 : forall SR n j, SR <> 0 -> (0 < j < n)%nat -> bin_freq SR n j <> 0.
Proof.
  intros SR n j HSR Hj.
  destruct (bin_layout SR n j HSR ltac:(lia) ltac:(lia)) as [A1 A2].
  assert (HnR : INR n <> 0) by (apply not_0_INR; lia).
  assert (Hi : / INR n <> 0) by (apply Rinv_neq_0_compat; exact HnR).
  destruct (Nat.lt_ge_cases (2 * j) n) as [L|G].
  - rewrite (A1 L). assert (INR j <> 0) by (apply not_0_INR; lia).
    unfold Rdiv; repeat apply Rmult_integral_contrapositive_currified; assumption.
  - rewrite (A2 G). assert (INR (n - j) <> 0) by (apply not_0_INR; lia).
    apply Ropp_neq_0_compat.
    unfold Rdiv; repeat apply Rmult_integral_contrapositive_currified; assumption.
Qed.

Lemma lowpass_bins : forall SR n f_cut order g j,
  _rcFilter_gen SR n f_cut "LP" order g j = Cpowz (H_LP (bin_freq SR n j) f_cut) order.
Proof. intros; rewrite rc_gen_eq, rc_base_LP; reflexivity. Qed.

Lemma highpass_bins : forall SR n f_cut order g j,
  f_cut <> 0 -> bin_freq SR n j <> 0 ->
  _rcFilter_gen SR n f_cut "HP" order g j = Cpowz (H_HP (bin_freq SR n j) f_cut) order.
Proof. intros; rewrite rc_gen_eq, rc_base_HP_nz by assumption; reflexivity. Qed.

Lemma highpass_dc : forall SR n f_cut order g j,
  bin_freq SR n j = 0 -> _rcFilter_gen SR n f_cut "HP" order g j = Cpowz (RtoC g) order.
Proof. intros; rewrite rc_gen_eq, rc_base_HP_dc by assumption; reflexivity. Qed.

Lemma rc_base_hermitian : forall SR n f_cut kind g j,
  SR <> 0 -> (kind = "HP" \/ kind = "LP")%string -> (0 < j < n)%nat -> (2 * j <> n)%nat ->
  rc_base SR n f_cut kind g (n - j) = Cconj (rc_base SR n f_cut kind g j).
Proof.
  intros SR n fc kind g j HSR Hk Hj Hne.
  pose proof (bins_mirror SR n j HSR Hj Hne) as M.
  destruct Hk as [-> | ->].
  - rewrite !rc_base_HP. unfold mask_zero.
    rewrite M, H_HP_opp.
    destruct (NumpyPrims.Ceq_dec (Cconj (H_HP (bin_freq SR n j) fc)) (RtoC 0)) as [E|E];
    destruct (NumpyPrims.Ceq_dec (H_HP (bin_freq SR n j) fc) (RtoC 0)) as [E'|E'].
    + symmetry; apply Cconj_RtoC.
    + exfalso; apply E'; apply Cconj_eq0; exact E.
    + exfalso; apply E; apply Cconj_eq0; exact E'.
    + reflexivity.
  - rewrite !rc_base_LP, M, H_LP_opp; reflexivity.
Qed.

Lemma rc_hermitian : forall SR n f_cut kind order g j,
  SR <> 0 -> f_cut <> 0 -> (kind = "HP" \/ kind = "LP")%string -> (0 < j < n)%nat -> (2 * j <> n)%nat ->
  _rcFilter_gen SR n f_cut kind order g (n - j) = Cconj (_rcFilter_gen SR n f_cut kind order g j).
Proof.
  intros SR n fc kind order g j HSR Hfc Hk Hj Hne.
  rewrite !rc_gen_eq, Cconj_powz, rc_base_hermitian by assumption; reflexivity.
Qed.

Lemma rc_guards : forall n (x : nat -> R) SR kind f_cut order g,
  (applyRCFilter_guard0 n x SR kind f_cut order g <-> (kind = "HP" \/ kind = "LP")%string) /\
  (applyInverseRCFilter_guard0 n x SR kind f_cut order g <-> (kind = "HP" \/ kind = "LP")%string) /\
  (applyInverseRCFilter_guard1 n x SR kind f_cut order g <-> g > 0) /\
  applyRCFilter_guard0_exn = "ValueError"%string /\ applyInverseRCFilter_guard0_exn = "ValueError"%string /\
  applyInverseRCFilter_guard1_exn = "ValueError"%string.
Proof.
  intros; unfold applyRCFilter_guard0, applyInverseRCFilter_guard0, applyInverseRCFilter_guard1.
  repeat split; auto.
Qed.

Lemma custom_guards : forall round6 n (x : nat -> R) SR m tf_freqs tf_amp invert,
  (applyCustomTransferFunction_guard0 round6 n x SR m tf_freqs tf_amp invert <->
   forall i, (i < Nat.pred m)%nat -> round6 (tf_freqs (S i) - tf_freqs i) > 0) /\
  (applyCustomTransferFunction_guard1 n x SR m tf_freqs tf_amp invert <-> tf_freqs (Nat.pred m) >= SR / 2) /\
  applyCustomTransferFunction_guard0_exn = "ValueError"%string /\
  applyCustomTransferFunction_guard1_exn = "MissingFrequenciesError"%string.
Proof.
  intros; unfold applyCustomTransferFunction_guard0, applyCustomTransferFunction_guard1; cbv zeta.
  repeat split; auto.
Qed.

(* the real part of ifft (X * T), transformed back, is X * T on every bin where T is Hermitian *)
Lemma apply_spectrum_core : forall (fft ifft : nat -> (nat -> C) -> nat -> C) n (x : nat -> R) (T : nat -> C) j,
  fft_inverse fft ifft n -> fft_real_part fft n -> fft_real_hermitian fft n ->
  (0 < j < n)%nat -> T (n - j)%nat = Cconj (T j) ->
  fft n (fun k => RtoC (fst (ifft n (fun k => Cmult (fft n (fun k => RtoC (x k)) k) (T k)) k))) j =
  Cmult (fft n (fun k => RtoC (x k)) j) (T j).
Proof.
  intros fft ifft n x T j Hinv Hre Hherm Hj HT.
  rewrite (Hre (ifft n (fun k => Cmult (fft n (fun k => RtoC (x k)) k) (T k))) j Hj).
  rewrite !Hinv by lia.
  rewrite (Hherm x j Hj), HT.
  rewrite Cconj_mult, !Cconj_conj.
  generalize (Cmult (fft n (fun k => RtoC (x k)) j) (T j)); intros [a b].
  apply Ceq_parts; simpl; field.
Qed.

Lemma filter_spectrum : forall fft ifft n (x : nat -> R) SR kind f_cut order g j,
  fft_inverse fft ifft n -> fft_real_part fft n -> fft_real_hermitian fft n ->
  SR <> 0 -> f_cut <> 0 -> (kind = "HP" \/ kind = "LP")%string -> (0 < j < n)%nat -> (2 * j <> n)%nat ->
  applyRCFilter_len n x SR kind f_cut order g = n /\
  fft n (fun k => RtoC (applyRCFilter_gen fft ifft n x SR kind f_cut order g k)) j =
    Cmult (fft n (fun k => RtoC (x k)) j) (_rcFilter_gen SR n f_cut kind order g j) /\
  fft n (fun k => RtoC (applyInverseRCFilter_gen fft ifft n x SR kind f_cut order g k)) j =
    Cmult (fft n (fun k => RtoC (x k)) j) (_rcFilter_gen SR n f_cut kind (- order) g j).
Proof.
  intros fft ifft n x SR kind fc order g j Hinv Hre Hherm HSR Hfc Hk Hj Hne.
  split; [reflexivity|split].
  - unfold applyRCFilter_gen; cbv zeta.
    apply (apply_spectrum_core fft ifft n x (_rcFilter_gen SR n fc kind order g) j); try assumption.
    apply rc_hermitian; assumption.
  - unfold applyInverseRCFilter_gen; cbv zeta.
    apply (apply_spectrum_core fft ifft n x (_rcFilter_gen SR n fc kind (- order) g) j); try assumption.
    apply rc_hermitian; assumption.
Qed.

Lemma half_ge_0 : forall SR n j, SR > 0 -> (0 < n)%nat -> (j < n)%nat ->
  ((j <? (n + 1) / 2)%nat = true -> bin_freq SR n j >= 0) /\
  ((j <? (n + 1) / 2)%nat = false -> bin_freq SR n j < 0).
Proof.
  intros SR n j HSR Hn Hj.
  destruct (bin_layout SR n j ltac:(lra) Hn Hj) as [A1 A2].
  assert (Hi : 0 < / INR n) by (apply Rinv_0_lt_compat; apply lt_0_INR; lia).
  split; intro E.
  - apply half_lt in E. rewrite (A1 E). apply Rle_ge.
    unfold Rdiv; apply Rmult_le_pos; [apply Rmult_le_pos; [apply pos_INR | lra] | lra].
  - assert (n <= 2 * j)%nat as G.
    { destruct (Nat.lt_ge_cases (2 * j) n) as [L|G]; [|exact G].
      apply half_lt in L; congruence. }
    rewrite (A2 G).
    assert (0 < INR (n - j)) by (apply lt_0_INR; lia).
    assert (0 < INR (n - j) * SR / INR n).
    { unfold Rdiv; apply Rmult_lt_0_compat; [apply Rmult_lt_0_compat; lra | lra]. }
    lra.
Qed.

Lemma custom_bins : forall fft ifft interp round6 n (x : nat -> R) SR m tf_freqs tf_amp invert k,
  ext_on ifft n -> SR > 0 -> (0 < n)%nat ->
  applyCustomTransferFunction_gen fft ifft interp round6 n x SR m tf_freqs tf_amp invert k =
  fst (ifft n (fun j => Cmult (fft n (fun i => RtoC (x i)) j)
                              (RtoC (Rpowz (interp m tf_freqs tf_amp (Rabs (bin_freq SR n j)))
                                           (if invert then (-1)%Z else 1%Z)))) k).
Proof.
  intros fft ifft interp round6 n x SR m tf_freqs tf_amp invert k Hext HSR Hn.
  unfold applyCustomTransferFunction_gen; cbv zeta.
  f_equal. apply Hext. intros j Hj.
  f_equal. f_equal.
  replace (if invert then (-1)%Z else Z.of_nat 1) with (if invert then (-1)%Z else 1%Z)
    by (destruct invert; reflexivity).
  f_equal.
  destruct (half_ge_0 SR n j HSR Hn Hj) as [P N].
  unfold concat_arr.
  destruct (j <? (n + 1) / 2)%nat eqn:E.
  - f_equal. rewrite (Rabs_right _ (P eq_refl)). reflexivity.
  - unfold rev_arr.
    apply Nat.ltb_ge in E.
    match goal with
    | |- context [fftfreq n ?d ?idx] => replace idx with j by lia
    end.
    f_equal. rewrite (Rabs_left _ (N eq_refl)). reflexivity.
Qed.

Lemma lin_core : forall (fft ifft : nat -> (nat -> C) -> nat -> C) n (T : nat -> C) (x y : nat -> R) (a : R) k,
  (forall (u v : nat -> C) (c : C) j, fft n (fun i => Cplus (Cmult c (u i)) (v i)) j = Cplus (Cmult c (fft n u j)) (fft n v j)) ->
  (forall (u v : nat -> C) (c : C) j, ifft n (fun i => Cplus (Cmult c (u i)) (v i)) j = Cplus (Cmult c (ifft n u j)) (ifft n v j)) ->
  ext_on fft n -> ext_on ifft n ->
  fst (ifft n (fun j => Cmult (fft n (fun i => RtoC (a * x i + y i)) j) (T j)) k) =
  a * fst (ifft n (fun j => Cmult (fft n (fun i => RtoC (x i)) j) (T j)) k) +
  fst (ifft n (fun j => Cmult (fft n (fun i => RtoC (y i)) j) (T j)) k).
Proof.
  intros fft ifft n T x y a k Lf Li Ef Ei.
  transitivity (fst (Cplus (Cmult (RtoC a) (ifft n (fun j => Cmult (fft n (fun i => RtoC (x i)) j) (T j)) k))
                           (ifft n (fun j => Cmult (fft n (fun i => RtoC (y i)) j) (T j)) k))).
  - f_equal. rewrite <- Li. apply Ei. intros j Hj. cbv beta.
    rewrite (Ef _ (fun i => Cplus (Cmult (RtoC a) (RtoC (x i))) (RtoC (y i)))).
    + rewrite Lf. ring.
    + intros i Hi. apply Ceq_parts; simpl; ring.
  - generalize (ifft n (fun j => Cmult (fft n (fun i => RtoC (x i)) j) (T j)) k).
    generalize (ifft n (fun j => Cmult (fft n (fun i => RtoC (y i)) j) (T j)) k).
    intros [v1 v2] [u1 u2]; simpl; ring.
Qed.

Lemma rc_linear : forall fft ifft n (x y : nat -> R) (a : R) SR kind f_cut order g k,
  (forall (u v : nat -> C) (c : C) j, fft n (fun i => Cplus (Cmult c (u i)) (v i)) j = Cplus (Cmult c (fft n u j)) (fft n v j)) ->
  (forall (u v : nat -> C) (c : C) j, ifft n (fun i => Cplus (Cmult c (u i)) (v i)) j = Cplus (Cmult c (ifft n u j)) (ifft n v j)) ->
  ext_on fft n -> ext_on ifft n ->
  applyRCFilter_gen fft ifft n (fun i => a * x i + y i) SR kind f_cut order g k =
  a * applyRCFilter_gen fft ifft n x SR kind f_cut order g k + applyRCFilter_gen fft ifft n y SR kind f_cut order g k.
Proof.
  intros fft ifft n x y a SR kind fc order g k Lf Li Ef Ei.
  unfold applyRCFilter_gen; cbv zeta.
  apply (lin_core fft ifft n (_rcFilter_gen SR n fc kind order g) x y a k); assumption.
Qed.

(* ================= C13 ================= *)

Lemma lowpass_cancels : forall SR n f_cut order g g' j,
  f_cut <> 0 ->
  Cmult (_rcFilter_gen SR n f_cut "LP" order g j) (_rcFilter_gen SR n f_cut "LP" (- order) g' j) = RtoC 1.
Proof.
  intros; rewrite !rc_gen_eq, !rc_base_LP. apply Cpowz_cancel, H_LP_neq0.
Qed.

Lemma highpass_cancels : forall SR n f_cut order g g' j,
  f_cut <> 0 -> bin_freq SR n j <> 0 ->
  Cmult (_rcFilter_gen SR n f_cut "HP" order g j) (_rcFilter_gen SR n f_cut "HP" (- order) g' j) = RtoC 1.
Proof.
  intros; rewrite !rc_gen_eq, !rc_base_HP_nz by assumption. apply Cpowz_cancel, H_HP_neq0; assumption.
Qed.

Lemma highpass_dc_cancels : forall SR n f_cut order g j,
  g <> 0 -> bin_freq SR n j = 0 ->
  Cmult (_rcFilter_gen SR n f_cut "HP" order g j) (_rcFilter_gen SR n f_cut "HP" (- order) g j) = RtoC 1.
Proof.
  intros; rewrite !rc_gen_eq, !rc_base_HP_dc by assumption. apply Cpowz_cancel, RtoC_neq0; assumption.
Qed.

Lemma highpass_dc_lost : forall SR n f_cut order j,
  (0 < order)%Z -> bin_freq SR n j = 0 -> _rcFilter_gen SR n f_cut "HP" order 0 j = RtoC 0.
Proof.
  intros SR n fc order j Ho Hf; rewrite rc_gen_eq, rc_base_HP_dc by assumption.
  destruct order as [|p|p]; try lia. simpl. apply Cpow_nat_0, Pos2Nat.is_pos.
Qed.

Lemma orders_add : forall SR n f_cut kind g j a b,
  _rcFilter_gen SR n f_cut kind 1 g j <> RtoC 0 ->
  Cmult (_rcFilter_gen SR n f_cut kind a g j) (_rcFilter_gen SR n f_cut kind b g j) =
  _rcFilter_gen SR n f_cut kind (a + b) g j.
Proof.
  intros SR n fc kind g j a b H; rewrite rc_gen_eq, Cpowz_1 in H.
  rewrite !rc_gen_eq. apply Cpowz_add; exact H.
Qed.

Lemma first_order_nonzero : forall SR n f_cut g j,
  f_cut <> 0 ->
  _rcFilter_gen SR n f_cut "LP" 1 g j <> RtoC 0 /\
  (bin_freq SR n j <> 0 \/ g <> 0 -> _rcFilter_gen SR n f_cut "HP" 1 g j <> RtoC 0).
Proof.
  intros SR n fc g j Hfc; split.
  - rewrite rc_gen_eq, Cpowz_1, rc_base_LP. apply H_LP_neq0.
  - intro H. rewrite rc_gen_eq, Cpowz_1.
    destruct (Req_EM_T (bin_freq SR n j) 0) as [Z|NZ].
    + rewrite rc_base_HP_dc by assumption. destruct H as [H|H]; [contradiction|]. apply RtoC_neq0; exact H.
    + rewrite rc_base_HP_nz by assumption. apply H_HP_neq0; assumption.
Qed.

Lemma rc_cancel_kind : forall SR n f_cut kind order g j,
  f_cut <> 0 -> (kind = "HP" \/ kind = "LP")%string -> bin_freq SR n j <> 0 ->
  Cmult (_rcFilter_gen SR n f_cut kind order g j) (_rcFilter_gen SR n f_cut kind (- order) g j) = RtoC 1.
Proof.
  intros SR n fc kind order g j Hfc [-> | ->] Hf.
  - apply highpass_cancels; assumption.
  - apply lowpass_cancels; assumption.
Qed.

Lemma round_trip_spectrum : forall fft ifft n (x : nat -> R) SR kind f_cut order g j,
  fft_inverse fft ifft n -> fft_real_part fft n -> fft_real_hermitian fft n ->
  SR <> 0 -> f_cut <> 0 -> (kind = "HP" \/ kind = "LP")%string -> (0 < j < n)%nat -> (2 * j <> n)%nat ->
  bin_freq SR n j <> 0 ->
  let y := applyRCFilter_gen fft ifft n x SR kind f_cut order g in
  let z := applyInverseRCFilter_gen fft ifft n y SR kind f_cut order g in
  let y' := applyInverseRCFilter_gen fft ifft n x SR kind f_cut order g in
  let z' := applyRCFilter_gen fft ifft n y' SR kind f_cut order g in
  fft n (fun k => RtoC (z k)) j = fft n (fun k => RtoC (x k)) j /\
  fft n (fun k => RtoC (z' k)) j = fft n (fun k => RtoC (x k)) j.
Proof.
  intros fft ifft n x SR kind fc order g j Hinv Hre Hherm HSR Hfc Hk Hj Hne Hf y z y' z'.
  pose proof (rc_cancel_kind SR n fc kind order g j Hfc Hk Hf) as Hc.
  destruct (filter_spectrum fft ifft n x SR kind fc order g j Hinv Hre Hherm HSR Hfc Hk Hj Hne) as [_ [Fx Ix]].
  destruct (filter_spectrum fft ifft n y SR kind fc order g j Hinv Hre Hherm HSR Hfc Hk Hj Hne) as [_ [_ Iy]].
  destruct (filter_spectrum fft ifft n y' SR kind fc order g j Hinv Hre Hherm HSR Hfc Hk Hj Hne) as [_ [Fy' _]].
  split.
  - unfold z. rewrite Iy. unfold y. rewrite Fx.
    rewrite <- Cmult_assoc, Hc. apply Cmult_1_r.
  - unfold z'. rewrite Fy'. unfold y'. rewrite Ix.
    rewrite <- Cmult_assoc, (Cmult_comm (_rcFilter_gen SR n fc kind (- order) g j)), Hc. apply Cmult_1_r.
Qed.

Lemma custom_inverse : forall t : R, t <> 0 -> Rpowz t 1 * Rpowz t (-1) = 1.
Proof. intros t Ht; unfold Rpowz; simpl; field; exact Ht. Qed.
