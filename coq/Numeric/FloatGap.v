(* The float gap: the sample count int(round(dur * SR)) computed in IEEE binary64
   agrees with the exact-rational model (Base/Num.v, rnd) whenever the exact
   product is within 2/5 of an integer n with 2 <= n <= 2^49. *)
From Coq Require Import ZArith QArith Qround Qabs Qreals Reals Lia Lra.
From Flocq Require Import Core Relative.
From BB Require Import Base.Num.

Open Scope R_scope.

(* binary64: radix 2, precision 53, emin = -1074; round to nearest, ties to even *)
Definition b64_exp : Z -> Z := FLT_exp (-1074) 53.
Definition b64_round (x : R) : R := round radix2 (FLT_exp (-1074) 53) ZnearestE x.

Local Instance prec53_gt_0 : Prec_gt_0 53.
Proof. unfold Prec_gt_0. lia. Qed.

Lemma bpow_m52 : bpow radix2 (Z.opp 53 + 1) = / 4503599627370496.
Proof.
  change (bpow radix2 (Z.opp 53 + 1)) with (/ IZR (Z.pow_pos radix2 52)).
  replace (Z.pow_pos radix2 52) with 4503599627370496%Z by (vm_compute; reflexivity).
  reflexivity.
Qed.

Lemma pow2_49 : 2 ^ 49 = 562949953421312.
Proof.
  rewrite pow_IZR.
  replace (2 ^ Z.of_nat 49)%Z with 562949953421312%Z by (vm_compute; reflexivity).
  reflexivity.
Qed.

(* the error of the binary64 rounding of x, for x within 2/5 of n in [2, 2^49] *)
Lemma b64_count_eps (x : R) (n : Z) :
  (2 <= n)%Z -> IZR n <= 2 ^ 49 -> Rabs (x - IZR n) <= 2 / 5 ->
  Rabs (b64_round x - x) <= 9 / 100.
Proof.
  intros Hn2 Hn49 Hx. rewrite pow2_49 in Hn49.
  apply IZR_le in Hn2.
  apply Rabs_le_inv in Hx.
  assert (Hpos : 0 < x) by lra.
  assert (Hlow : bpow radix2 (-1074 + 53 - 1) <= Rabs x).
  { rewrite Rabs_pos_eq by lra.
    apply Rle_trans with (bpow radix2 0).
    - apply bpow_le. lia.
    - simpl. lra. }
  pose proof (relative_error_N_FLT radix2 (-1074) 53 prec53_gt_0 (fun z => negb (Z.even z)) x Hlow) as H.
  rewrite bpow_m52 in H. rewrite (Rabs_pos_eq x) in H by lra.
  unfold b64_round, ZnearestE.
  eapply Rle_trans; [exact H|]. lra.
Qed.

Lemma b64_count_half (x : R) (n : Z) :
  (2 <= n)%Z -> IZR n <= 2 ^ 49 -> Rabs (x - IZR n) <= 2 / 5 ->
  Rabs (b64_round x - IZR n) < / 2.
Proof.
  intros Hn2 Hn49 Hx.
  pose proof (b64_count_eps x n Hn2 Hn49 Hx) as He.
  apply Rabs_le_inv in Hx. apply Rabs_le_inv in He.
  apply Rabs_lt. lra.
Qed.

Lemma b64_count_any_choice (x : R) (n : Z) :
  (2 <= n)%Z -> IZR n <= 2 ^ 49 -> Rabs (x - IZR n) <= 2 / 5 ->
  forall choice : Z -> bool, Znearest choice (b64_round x) = n.
Proof.
  intros Hn2 Hn49 Hx choice. apply Znearest_imp. now apply b64_count_half.
Qed.

Lemma b64_count_robust (x : R) (n : Z) :
  (2 <= n)%Z -> IZR n <= 2 ^ 49 -> Rabs (x - IZR n) <= 2 / 5 ->
  Rabs (b64_round x - x) <= 9 / 100 /\
  Rabs (b64_round x - IZR n) < / 2 /\
  ZnearestE (b64_round x) = n.
Proof.
  intros Hn2 Hn49 Hx. split; [|split].
  - now apply (b64_count_eps x n).
  - now apply b64_count_half.
  - now apply b64_count_any_choice.
Qed.

(* ---- link to the exact model over Q ---- *)

Lemma Q2R_inject_Z (n : Z) : Q2R (inject_Z n) = IZR n.
Proof. unfold Q2R, inject_Z. simpl. lra. Qed.

Lemma Qabs_le_Rabs (q b : Q) : (Qabs q <= b)%Q -> Rabs (Q2R q) <= Q2R b.
Proof.
  intro H. apply Qabs_Qle_condition in H as [H1 H2].
  apply Qle_Rle in H1, H2. rewrite Q2R_opp in H1.
  apply Rabs_le. lra.
Qed.

Lemma pow2_49_Z (n : Z) : (n <= 2 ^ 49)%Z -> IZR n <= 2 ^ 49.
Proof.
  intro H. apply IZR_le in H. rewrite pow2_49.
  replace (2 ^ 49)%Z with 562949953421312%Z in H by (vm_compute; reflexivity). exact H.
Qed.

Lemma model_count (q : Q) (n : Z) :
  (Qabs (q - inject_Z n) <= 2 # 5)%Q -> rnd q = n.
Proof.
  intro H. apply rnd_near. eapply Qle_lt_trans; [exact H|]. reflexivity.
Qed.

Lemma rnd_Qeq (q q' : Q) : (q == q')%Q -> rnd q = rnd q'.
Proof.
  intro E. unfold rnd. rewrite (Qfloor_comp q q' E).
  assert (C : (q - inject_Z (Qfloor q') ?= 1 # 2)%Q = (q' - inject_Z (Qfloor q') ?= 1 # 2)%Q).
  { apply Qcompare_comp; [rewrite E|]; reflexivity. }
  rewrite C. reflexivity.
Qed.

(* the same through rnd_robust with eps = 0, as the model's argument has it *)
Lemma model_count_via_robust (q : Q) (n : Z) :
  (Qabs (q - inject_Z n) <= 2 # 5)%Q -> rnd q = n.
Proof.
  intro H.
  assert (E : (q == inject_Z n + (q - inject_Z n) + 0)%Q) by ring.
  rewrite (rnd_Qeq _ _ E). apply rnd_robust; [exact H|]. discriminate.
Qed.

Lemma b64_count_matches_model (q : Q) (n : Z) :
  (2 <= n <= 2 ^ 49)%Z -> (Qabs (q - inject_Z n) <= 2 # 5)%Q ->
  rnd q = n /\
  ZnearestE (b64_round (Q2R q)) = n /\
  (forall choice : Z -> bool, Znearest choice (b64_round (Q2R q)) = n).
Proof.
  intros [Hn2 Hn49] Hq.
  assert (Hx : Rabs (Q2R q - IZR n) <= 2 / 5).
  { apply Qabs_le_Rabs in Hq. rewrite Q2R_minus, Q2R_inject_Z in Hq.
    eapply Rle_trans; [exact Hq|]. unfold Q2R. simpl. lra. }
  apply pow2_49_Z in Hn49.
  split; [now apply model_count|]. split.
  - now apply b64_count_any_choice.
  - now apply b64_count_any_choice.
Qed.

(* the model's own eps: the binary64 product is the exact product plus an eps
   within the 9/100 that rnd_robust tolerates *)
Lemma b64_count_eps_Q (q : Q) (n : Z) :
  (2 <= n <= 2 ^ 49)%Z -> (Qabs (q - inject_Z n) <= 2 # 5)%Q ->
  Rabs (b64_round (Q2R q) - Q2R q) <= Q2R (9 # 100).
Proof.
  intros [Hn2 Hn49] Hq.
  assert (Hx : Rabs (Q2R q - IZR n) <= 2 / 5).
  { apply Qabs_le_Rabs in Hq. rewrite Q2R_minus, Q2R_inject_Z in Hq.
    eapply Rle_trans; [exact Hq|]. unfold Q2R. simpl. lra. }
  apply pow2_49_Z in Hn49.
  eapply Rle_trans; [now apply (b64_count_eps _ n)|]. unfold Q2R. simpl. lra.
Qed.

(* ---- the size bound cannot be dropped: at n = 2^50 + 1 the count breaks ---- *)

Lemma pow2_50_Z : (2 ^ 50 = 1125899906842624)%Z.
Proof. vm_compute; reflexivity. Qed.

(* x = n + 2/5 with n = 2^50 + 1 rounds to n + 1/2 (binary64 spacing there is 1/4) *)
Lemma b64_round_tight :
  b64_round (IZR (2 ^ 50 + 1) + 2 / 5) = IZR (2 ^ 50 + 1) + / 2.
Proof.
  rewrite pow2_50_Z. simpl Z.add.
  unfold b64_round, round, F2R, scaled_mantissa, cexp. simpl Fnum. simpl Fexp.
  assert (M : mag radix2 (1125899906842625 + 2 / 5) = 51%Z :> Z).
  { apply mag_unique. rewrite Rabs_pos_eq by lra.
    change (bpow radix2 (51 - 1)) with (IZR (Z.pow_pos radix2 50)).
    change (bpow radix2 51) with (IZR (Z.pow_pos radix2 51)).
    replace (Z.pow_pos radix2 50) with 1125899906842624%Z by (vm_compute; reflexivity).
    replace (Z.pow_pos radix2 51) with 2251799813685248%Z by (vm_compute; reflexivity).
    lra. }
  rewrite M.
  replace (FLT_exp (-1074) 53 51) with (-2)%Z by (vm_compute; reflexivity).
  change (bpow radix2 (- -2)) with 4.
  change (bpow radix2 (-2)) with (/ 4).
  assert (N : ZnearestE ((1125899906842625 + 2 / 5) * 4) = 4503599627370502%Z).
  { apply Znearest_imp. apply Rabs_lt. lra. }
  rewrite N. lra.
Qed.

Lemma b64_count_tight_half :
  let n := (2 ^ 50 + 1)%Z in
  let x := IZR n + 2 / 5 in
  Rabs (x - IZR n) <= 2 / 5 /\ ~ Rabs (b64_round x - IZR n) < / 2.
Proof.
  intros n x. subst x. split.
  - rewrite Rabs_pos_eq by lra. lra.
  - subst n. rewrite b64_round_tight. rewrite Rabs_pos_eq by lra. lra.
Qed.

Lemma b64_count_tight :
  let n := (2 ^ 50 + 1)%Z in
  let x := IZR n + 2 / 5 in
  Rabs (x - IZR n) <= 2 / 5 /\ ZnearestE (b64_round x) = (n + 1)%Z.
Proof.
  intros n x. subst x. split.
  - rewrite Rabs_pos_eq by lra. lra.
  - subst n. rewrite b64_round_tight. rewrite pow2_50_Z. simpl Z.add.
    unfold ZnearestE, Znearest.
    assert (F : Zfloor (1125899906842625 + / 2) = 1125899906842625%Z).
    { apply Zfloor_imp. rewrite plus_IZR. simpl. lra. }
    assert (C : Zceil (1125899906842625 + / 2) = 1125899906842626%Z).
    { apply Zceil_imp. replace (1125899906842626 - 1)%Z with 1125899906842625%Z by reflexivity. lra. }
    rewrite F, C.
    replace (1125899906842625 + / 2 - 1125899906842625) with (/ 2) by lra.
    rewrite Rcompare_Eq by reflexivity. reflexivity.
Qed.
