(* The discrete Fourier transform as an explicit finite sum, and the facts about it that the ripasso theorems use.
   numpy.fft.fft / ifft are validated numerically against exactly these sums on every run (harness/numeric.py,
   validate_prims); with this file the premises fft_inverse / fft_real_part / fft_real_hermitian / ext_on /
   linearity of Numeric/RipassoFacts.v are theorems about `dft` and `idft`, not assumptions. *)
From Coq Require Import Reals ZArith Lia Lra String List.
From Coquelicot Require Import Coquelicot.
From BB Require Import Numeric.NumpyPrims Generated.RipassoGen Numeric.RipassoFacts.
Open Scope R_scope.

Definition cis (t : R) : C := (cos t, sin t).

Fixpoint Csum (f : nat -> C) (n : nat) : C :=
  match n with O => RtoC 0 | S m => Cplus (Csum f m) (f m) end.

(* X_k = sum_{m<n} x_m e^{-2 pi i k m / n};   x_m = 1/n sum_{k<n} X_k e^{+2 pi i k m / n} *)
Definition dft (n : nat) (x : nat -> C) (k : nat) : C :=
  Csum (fun m => Cmult (x m) (cis (- (2 * PI * INR k * INR m / INR n)))) n.
Definition idft (n : nat) (X : nat -> C) (m : nat) : C :=
  Cmult (RtoC (/ INR n)) (Csum (fun k => Cmult (X k) (cis (2 * PI * INR k * INR m / INR n))) n).


(* ================= helper lemmas ================= *)

(* ---- algebra of cis ---- *)

Lemma cis_add : forall a b, cis (a + b) = Cmult (cis a) (cis b).
Proof. intros a b; unfold cis; rewrite cos_plus, sin_plus; apply Ceq_parts; simpl; ring. Qed.

Lemma cis_0 : cis 0 = RtoC 1.
Proof. unfold cis; rewrite cos_0, sin_0; reflexivity. Qed.

Lemma cis_neg : forall a, cis (- a) = Cconj (cis a).
Proof. intro a; unfold cis, Cconj; rewrite cos_neg, sin_neg; reflexivity. Qed.

Lemma cis_2PI_nat : forall k, cis (2 * PI * INR k) = RtoC 1.
Proof.
  induction k as [|k IH].
  - simpl INR. replace (2 * PI * 0) with 0 by ring. apply cis_0.
  - rewrite S_INR. replace (2 * PI * (INR k + 1)) with (2 * PI * INR k + 2 * PI) by ring.
    rewrite cis_add, IH. unfold cis. rewrite cos_2PI, sin_2PI. apply Ceq_parts; simpl; ring.
Qed.

Lemma cis_neq1 : forall t, 0 < t < 2 * PI -> cis t <> RtoC 1.
Proof.
  intros t [H0 H1] E.
  apply (f_equal fst) in E; simpl in E.
  replace t with (2 * (t / 2)) in E by field.
  rewrite cos_2a_sin in E.
  assert (0 < sin (t / 2)) by (apply sin_gt_0; lra).
  nra.
Qed.

(* ---- finite sums ---- *)

Lemma Csum_ext : forall f g n, (forall m, (m < n)%nat -> f m = g m) -> Csum f n = Csum g n.
Proof.
  intros f g n; induction n as [|n IH]; intro H; simpl; [reflexivity|].
  rewrite IH by (intros m Hm; apply H; lia).
  rewrite (H n) by lia. reflexivity.
Qed.

Lemma Csum_zero : forall f n, (forall m, (m < n)%nat -> f m = RtoC 0) -> Csum f n = RtoC 0.
Proof.
  intros f n; induction n as [|n IH]; intro H; simpl; [reflexivity|].
  rewrite IH by (intros m Hm; apply H; lia).
  rewrite (H n) by lia. ring.
Qed.

Lemma Csum_plus : forall f g n, Csum (fun m => Cplus (f m) (g m)) n = Cplus (Csum f n) (Csum g n).
Proof. intros f g n; induction n as [|n IH]; simpl; [ring|]. rewrite IH; ring. Qed.

Lemma Csum_mult_l : forall c f n, Csum (fun m => Cmult c (f m)) n = Cmult c (Csum f n).
Proof. intros c f n; induction n as [|n IH]; simpl; [ring|]. rewrite IH; ring. Qed.

Lemma Csum_scale : forall c c' f g n,
  (forall j, (j < n)%nat -> g j = Cmult c (Cmult (f j) c')) -> Csum g n = Cmult (Cmult c (Csum f n)) c'.
Proof.
  intros c c' f g n; induction n as [|n IH]; intro H; simpl; [ring|].
  rewrite IH by (intros m Hm; apply H; lia).
  rewrite (H n) by lia. ring.
Qed.

Lemma Csum_scale_r : forall c' f g n,
  (forall j, (j < n)%nat -> g j = Cmult (f j) c') -> Csum g n = Cmult (Csum f n) c'.
Proof.
  intros c' f g n; induction n as [|n IH]; intro H; simpl; [ring|].
  rewrite IH by (intros m Hm; apply H; lia).
  rewrite (H n) by lia. ring.
Qed.

Lemma Csum_conj : forall f n, Cconj (Csum f n) = Csum (fun m => Cconj (f m)) n.
Proof.
  intros f n; induction n as [|n IH]; simpl.
  - apply Cconj_RtoC.
  - rewrite Cconj_plus, IH; reflexivity.
Qed.

Lemma Csum_const : forall n, Csum (fun _ => RtoC 1) n = RtoC (INR n).
Proof.
  induction n as [|n IH].
  - reflexivity.
  - cbn [Csum]. rewrite IH, S_INR. apply Ceq_parts; simpl; ring.
Qed.

Lemma Csum_single : forall f n k, (k < n)%nat ->
  (forall j, (j < n)%nat -> j <> k -> f j = RtoC 0) -> Csum f n = f k.
Proof.
  intros f n; induction n as [|n IH]; intros k Hk H; [lia|].
  simpl. destruct (Nat.eq_dec k n) as [E|E].
  - subst k. rewrite Csum_zero by (intros m Hm; apply H; lia). ring.
  - rewrite (IH k) by (try lia; intros j Hj Hjk; apply H; lia).
    rewrite (H n) by lia. ring.
Qed.

Lemma Csum_swap : forall (f : nat -> nat -> C) n1 n2,
  Csum (fun k => Csum (fun m => f k m) n2) n1 = Csum (fun m => Csum (fun k => f k m) n1) n2.
Proof.
  intros f n1 n2; induction n1 as [|n1 IH]; simpl.
  - symmetry; apply Csum_zero; reflexivity.
  - rewrite IH. symmetry.
    apply (Csum_plus (fun m => Csum (fun k => f k m) n1) (fun m => f n1 m)).
Qed.

(* ---- the geometric sum and orthogonality of the characters ---- *)

Lemma geo_sum : forall t n,
  Cmult (Cminus (RtoC 1) (cis t)) (Csum (fun m => cis (INR m * t)) n) = Cminus (RtoC 1) (cis (INR n * t)).
Proof.
  intros t n; induction n as [|n IH].
  - simpl. rewrite Rmult_0_l, cis_0. ring.
  - cbn [Csum]. rewrite S_INR. replace ((INR n + 1) * t) with (INR n * t + t) by ring.
    rewrite cis_add.
    replace (Cmult (Cminus (RtoC 1) (cis t)) (Cplus (Csum (fun m => cis (INR m * t)) n) (cis (INR n * t))))
      with (Cplus (Cmult (Cminus (RtoC 1) (cis t)) (Csum (fun m => cis (INR m * t)) n))
                  (Cmult (Cminus (RtoC 1) (cis t)) (cis (INR n * t)))) by ring.
    rewrite IH. ring.
Qed.

Lemma geo_zero : forall n d, (0 < d < n)%nat ->
  Csum (fun m => cis (INR m * (2 * PI * INR d / INR n))) n = RtoC 0.
Proof.
  intros n d Hd.
  assert (HnR : 0 < INR n) by (apply lt_0_INR; lia).
  assert (HdR : 0 < INR d) by (apply lt_0_INR; lia).
  assert (Hdn : INR d < INR n) by (apply lt_INR; lia).
  pose proof PI_RGT_0 as HPI.
  assert (Ht : 0 < 2 * PI * INR d / INR n < 2 * PI).
  { split.
    - apply Rdiv_lt_0_compat; [|lra]. apply Rmult_lt_0_compat; lra.
    - apply Rlt_div_l; [lra|]. apply Rmult_lt_compat_l; lra. }
  remember (2 * PI * INR d / INR n) as t eqn:Et.
  pose proof (geo_sum t n) as G.
  replace (INR n * t) with (2 * PI * INR d) in G by (rewrite Et; field; lra).
  rewrite cis_2PI_nat in G.
  assert (Hw : Cminus (RtoC 1) (cis t) <> RtoC 0).
  { intro E. apply (cis_neq1 t Ht).
    transitivity (Cminus (RtoC 1) (Cminus (RtoC 1) (cis t))); [ring | rewrite E; ring]. }
  remember (Csum (fun m => cis (INR m * t)) n) as S eqn:ES.
  transitivity (Cmult (Cinv (Cminus (RtoC 1) (cis t))) (Cmult (Cminus (RtoC 1) (cis t)) S)).
  - field; exact Hw.
  - rewrite G. ring.
Qed.

Lemma ortho : forall n a b, (0 < n)%nat -> (a < n)%nat -> (b < n)%nat ->
  Csum (fun m => Cmult (cis (2 * PI * INR a * INR m / INR n)) (cis (- (2 * PI * INR b * INR m / INR n)))) n =
  if Nat.eqb a b then RtoC (INR n) else RtoC 0.
Proof.
  intros n a b Hn Ha Hb.
  assert (HnR : INR n <> 0) by (apply not_0_INR; lia).
  destruct (Nat.eqb a b) eqn:E.
  - apply Nat.eqb_eq in E; subst b.
    rewrite <- Csum_const. apply Csum_ext.
    intros m _. rewrite <- cis_add. rewrite Rplus_opp_r. apply cis_0.
  - apply Nat.eqb_neq in E.
    destruct (Nat.lt_ge_cases b a) as [L|G].
    + transitivity (Csum (fun m => cis (INR m * (2 * PI * INR (a - b) / INR n))) n).
      * apply Csum_ext; intros m _. rewrite <- cis_add. f_equal.
        rewrite minus_INR by lia. field; exact HnR.
      * apply geo_zero; lia.
    + transitivity (Cconj (Csum (fun m => cis (INR m * (2 * PI * INR (b - a) / INR n))) n)).
      * rewrite Csum_conj. apply Csum_ext; intros m _. cbv beta.
        rewrite <- cis_add, <- cis_neg. f_equal.
        rewrite minus_INR by lia. field; exact HnR.
      * rewrite geo_zero by lia. apply Cconj_RtoC.
Qed.

Lemma ortho_scaled : forall n a b (x : C), (0 < n)%nat -> (a < n)%nat -> (b < n)%nat ->
  Csum (fun m => Cmult x (Cmult (cis (2 * PI * INR a * INR m / INR n)) (cis (- (2 * PI * INR b * INR m / INR n))))) n =
  Cmult x (if Nat.eqb a b then RtoC (INR n) else RtoC 0).
Proof.
  intros n a b x Hn Ha Hb. rewrite <- (ortho n a b Hn Ha Hb).
  apply (Csum_mult_l x (fun m => Cmult (cis (2 * PI * INR a * INR m / INR n)) (cis (- (2 * PI * INR b * INR m / INR n))))).
Qed.

Lemma scale_back : forall n (z : C), (0 < n)%nat -> Cmult (Cmult (RtoC (/ INR n)) z) (RtoC (INR n)) = z.
Proof.
  intros n [a b] Hn. assert (INR n <> 0) by (apply not_0_INR; lia).
  apply Ceq_parts; simpl; field; assumption.
Qed.

(* ---- extensionality, linearity ---- *)

Lemma dft_ext0 : forall n, ext_on dft n.
Proof.
  intros n X X' H k; unfold dft. apply Csum_ext; intros m Hm. rewrite (H m Hm); reflexivity.
Qed.

Lemma idft_ext0 : forall n, ext_on idft n.
Proof.
  intros n X X' H k; unfold idft. f_equal. apply Csum_ext; intros m Hm. rewrite (H m Hm); reflexivity.
Qed.

Lemma dft_linear0 : forall n (u v : nat -> C) (c : C) j,
  dft n (fun i => Cplus (Cmult c (u i)) (v i)) j = Cplus (Cmult c (dft n u j)) (dft n v j).
Proof.
  intros n u v c j; unfold dft.
  rewrite <- Csum_mult_l, <- Csum_plus. apply Csum_ext; intros m _; cbv beta; ring.
Qed.

Lemma idft_linear0 : forall n (u v : nat -> C) (c : C) j,
  idft n (fun i => Cplus (Cmult c (u i)) (v i)) j = Cplus (Cmult c (idft n u j)) (idft n v j).
Proof.
  intros n u v c j; unfold idft.
  transitivity (Cmult (RtoC (/ INR n))
    (Cplus (Cmult c (Csum (fun k => Cmult (u k) (cis (2 * PI * INR k * INR j / INR n))) n))
           (Csum (fun k => Cmult (v k) (cis (2 * PI * INR k * INR j / INR n))) n))); [|ring].
  f_equal. rewrite <- Csum_mult_l, <- Csum_plus. apply Csum_ext; intros m _; cbv beta; ring.
Qed.

(* ---- inversion, both directions ---- *)

Lemma dft_inverse0 : forall n, (0 < n)%nat -> fft_inverse dft idft n.
Proof.
  intros n Hn X k Hk. unfold dft, idft.
  assert (HnR : INR n <> 0) by (apply not_0_INR; lia).
  pose (F := fun j m => Cmult (Cmult (RtoC (/ INR n)) (X j))
     (Cmult (cis (2 * PI * INR j * INR m / INR n)) (cis (- (2 * PI * INR k * INR m / INR n))))).
  transitivity (Csum (fun m => Csum (fun j => F j m) n) n).
  { apply Csum_ext; intros m _. symmetry. apply Csum_scale. intros j _. unfold F. ring. }
  etransitivity; [exact (Csum_swap (fun m j => F j m) n n)|]. cbv beta.
  rewrite (Csum_single _ n k Hk).
  - unfold F. rewrite ortho_scaled by assumption. rewrite Nat.eqb_refl. apply scale_back; exact Hn.
  - intros j Hj Hjk. unfold F. rewrite ortho_scaled by assumption.
    destruct (Nat.eqb j k) eqn:E; [apply Nat.eqb_eq in E; contradiction | ring].
Qed.

Lemma idft_dft0 : forall n (x : nat -> C) m, (0 < n)%nat -> (m < n)%nat -> idft n (dft n x) m = x m.
Proof.
  intros n x m Hn Hm. unfold idft, dft.
  assert (HnR : INR n <> 0) by (apply not_0_INR; lia).
  pose (F := fun j k => Cmult (x j)
     (Cmult (cis (2 * PI * INR m * INR k / INR n)) (cis (- (2 * PI * INR j * INR k / INR n))))).
  transitivity (Cmult (RtoC (/ INR n)) (Csum (fun k => Csum (fun j => F j k) n) n)).
  { f_equal. apply Csum_ext; intros k _. symmetry. apply Csum_scale_r. intros j _. unfold F.
    replace (2 * PI * INR m * INR k / INR n) with (2 * PI * INR k * INR m / INR n) by (field; exact HnR).
    replace (2 * PI * INR j * INR k / INR n) with (2 * PI * INR k * INR j / INR n) by (field; exact HnR).
    ring. }
  etransitivity; [apply f_equal; exact (Csum_swap (fun k j => F j k) n n)|]. cbv beta.
  rewrite (Csum_single _ n m Hm).
  - unfold F. rewrite ortho_scaled by assumption. rewrite Nat.eqb_refl.
    rewrite Cmult_assoc. apply scale_back; exact Hn.
  - intros j Hj Hjm. unfold F. rewrite ortho_scaled by assumption.
    destruct (Nat.eqb m j) eqn:E; [apply Nat.eqb_eq in E; symmetry in E; contradiction | ring].
Qed.

(* ---- conjugation: the transform of the conjugate signal is the mirrored conjugate ---- *)

Lemma dft_conj : forall n (y : nat -> C) j, (0 < n)%nat -> (j <= n)%nat ->
  Cconj (dft n y (n - j)) = dft n (fun m => Cconj (y m)) j.
Proof.
  intros n y j Hn Hj. unfold dft.
  assert (HnR : INR n <> 0) by (apply not_0_INR; lia).
  rewrite Csum_conj. apply Csum_ext; intros m _. cbv beta.
  rewrite Cconj_mult. f_equal. rewrite <- cis_neg, Ropp_involutive.
  rewrite minus_INR by lia.
  replace (2 * PI * (INR n - INR j) * INR m / INR n)
    with (2 * PI * INR m + - (2 * PI * INR j * INR m / INR n)) by (field; exact HnR).
  rewrite cis_add, cis_2PI_nat. apply Cmult_1_l.
Qed.

Lemma dft_real_part0 : forall n, (0 < n)%nat -> fft_real_part dft n.
Proof.
  intros n Hn y j Hj. rewrite dft_conj by lia. unfold dft, Cdiv.
  rewrite <- Csum_plus. apply Csum_scale_r. intros m _. cbv beta.
  destruct (y m) as [a b].
  generalize (cis (- (2 * PI * INR j * INR m / INR n))); intros [p q].
  apply Ceq_parts; simpl; field.
Qed.

Lemma dft_real_hermitian0 : forall n, (0 < n)%nat -> fft_real_hermitian dft n.
Proof.
  intros n Hn x j Hj.
  pose proof (dft_conj n (fun k => RtoC (x k)) j Hn ltac:(lia)) as H.
  rewrite <- (Cconj_conj (dft n (fun k => RtoC (x k)) (n - j))). rewrite H. f_equal.
  apply dft_ext0. intros i _. apply Cconj_RtoC.
Qed.

(* ---- lemmas to be proved ---- *)

Lemma dft_inverse : forall n, (0 < n)%nat -> fft_inverse dft idft n.
Proof. exact dft_inverse0. Qed.

Lemma dft_real_part : forall n, (0 < n)%nat -> fft_real_part dft n.
Proof. exact dft_real_part0. Qed.

Lemma dft_real_hermitian : forall n, (0 < n)%nat -> fft_real_hermitian dft n.
Proof. exact dft_real_hermitian0. Qed.

Lemma dft_ext : forall n, ext_on dft n.
Proof. exact dft_ext0. Qed.

Lemma idft_ext : forall n, ext_on idft n.
Proof. exact idft_ext0. Qed.

Lemma dft_linear : forall n (u v : nat -> C) (c : C) j,
  dft n (fun i => Cplus (Cmult c (u i)) (v i)) j = Cplus (Cmult c (dft n u j)) (dft n v j).
Proof. exact dft_linear0. Qed.

Lemma idft_linear : forall n (u v : nat -> C) (c : C) j,
  idft n (fun i => Cplus (Cmult c (u i)) (v i)) j = Cplus (Cmult c (idft n u j)) (idft n v j).
Proof. exact idft_linear0. Qed.

(* the other direction of the inversion, needed to say that the filtered signal IS the inverse transform *)
Lemma idft_dft : forall n (x : nat -> C) m, (0 < n)%nat -> (m < n)%nat -> idft n (dft n x) m = x m.
Proof. exact idft_dft0. Qed.

(* ---- consequences: the ripasso theorems with the DFT itself in place of the abstract fft / ifft ---- *)

Lemma filter_spectrum_dft : forall n (x : nat -> R) SR kind f_cut order g j,
  SR <> 0 -> f_cut <> 0 -> (kind = "HP" \/ kind = "LP")%string -> (0 < j < n)%nat -> (2 * j <> n)%nat ->
  dft n (fun k => RtoC (applyRCFilter_gen dft idft n x SR kind f_cut order g k)) j =
    Cmult (dft n (fun k => RtoC (x k)) j) (_rcFilter_gen SR n f_cut kind order g j) /\
  dft n (fun k => RtoC (applyInverseRCFilter_gen dft idft n x SR kind f_cut order g k)) j =
    Cmult (dft n (fun k => RtoC (x k)) j) (_rcFilter_gen SR n f_cut kind (- order) g j).
Proof.
  intros n x SR kind f_cut order g j HSR Hfc Hk Hj Hne.
  assert (Hn : (0 < n)%nat) by lia.
  destruct (filter_spectrum dft idft n x SR kind f_cut order g j
              (dft_inverse n Hn) (dft_real_part n Hn) (dft_real_hermitian n Hn) HSR Hfc Hk Hj Hne) as [_ H].
  exact H.
Qed.

Lemma round_trip_spectrum_dft : forall n (x : nat -> R) SR kind f_cut order g j,
  SR <> 0 -> f_cut <> 0 -> (kind = "HP" \/ kind = "LP")%string -> (0 < j < n)%nat -> (2 * j <> n)%nat ->
  bin_freq SR n j <> 0 ->
  let y := applyRCFilter_gen dft idft n x SR kind f_cut order g in
  let z := applyInverseRCFilter_gen dft idft n y SR kind f_cut order g in
  let y' := applyInverseRCFilter_gen dft idft n x SR kind f_cut order g in
  let z' := applyRCFilter_gen dft idft n y' SR kind f_cut order g in
  dft n (fun k => RtoC (z k)) j = dft n (fun k => RtoC (x k)) j /\
  dft n (fun k => RtoC (z' k)) j = dft n (fun k => RtoC (x k)) j.
Proof.
  intros n x SR kind f_cut order g j HSR Hfc Hk Hj Hne Hf.
  assert (Hn : (0 < n)%nat) by lia.
  exact (round_trip_spectrum dft idft n x SR kind f_cut order g j
           (dft_inverse n Hn) (dft_real_part n Hn) (dft_real_hermitian n Hn) HSR Hfc Hk Hj Hne Hf).
Qed.

Lemma rc_linear_dft : forall n (x y : nat -> R) (a : R) SR kind f_cut order g k,
  applyRCFilter_gen dft idft n (fun i => a * x i + y i) SR kind f_cut order g k =
  a * applyRCFilter_gen dft idft n x SR kind f_cut order g k + applyRCFilter_gen dft idft n y SR kind f_cut order g k.
Proof.
  intros n x y a SR kind f_cut order g k.
  apply rc_linear.
  - apply dft_linear.
  - apply idft_linear.
  - apply dft_ext.
  - apply idft_ext.
Qed.

Lemma custom_bins_dft : forall interp round6 n (x : nat -> R) SR m tf_freqs tf_amp invert k,
  SR > 0 -> (0 < n)%nat ->
  applyCustomTransferFunction_gen dft idft interp round6 n x SR m tf_freqs tf_amp invert k =
  fst (idft n (fun j => Cmult (dft n (fun i => RtoC (x i)) j)
                              (RtoC (Rpowz (interp m tf_freqs tf_amp (Rabs (bin_freq SR n j)))
                                           (if invert then (-1)%Z else 1%Z)))) k).
Proof.
  intros interp round6 n x SR m tf_freqs tf_amp invert k HSR Hn.
  apply custom_bins; [apply idft_ext | exact HSR | exact Hn].
Qed.

(* time-domain round trip: because every bin 0 < j < n with 2j <> n of z equals that of x, and z, x are real,
   z - x has at most the DC and Nyquist bins: z_m - x_m = a + b (-1)^m for constants a b (b = 0 for odd n).
   Stated for the bins only above; the statement below is the strongest time-domain consequence that holds
   without assumptions on the DC / Nyquist bins: when those two bins agree as well, the signals agree. *)
Lemma spectrum_determines_signal : forall n (x z : nat -> R) m,
  (0 < n)%nat -> (m < n)%nat ->
  (forall j, (j < n)%nat -> dft n (fun k => RtoC (z k)) j = dft n (fun k => RtoC (x k)) j) ->
  z m = x m.
Proof.
  intros n x z m Hn Hm H.
  pose proof (idft_dft n (fun k => RtoC (z k)) m Hn Hm) as Hz.
  pose proof (idft_dft n (fun k => RtoC (x k)) m Hn Hm) as Hx.
  cbv beta in Hz, Hx.
  rewrite (idft_ext n (dft n (fun k => RtoC (z k))) (dft n (fun k => RtoC (x k))) H m) in Hz.
  rewrite Hx in Hz. apply (f_equal fst) in Hz. simpl in Hz. symmetry. exact Hz.
Qed.

