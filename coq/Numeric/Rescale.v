(* The AWG5014 normalisation and the numeric guards of both output back ends, proved about / pinned to the
   definitions regenerated from src/broadbean/sequence.py on every run (Generated/OutputGuardsGen.v). *)
From Coq Require Import Reals ZArith Lra String List.
From Coquelicot Require Import Coquelicot.
From BB Require Import Numeric.NumpyPrims Generated.OutputGuardsGen.
Import ListNotations.
Open Scope R_scope.

(* ---- lemmas: to be proved (see Props/C14n.v for the exact statements needed) ---- *)

Lemma rescaler_unfold : forall v ampl off, rescaler_gen v ampl off = (v - off) / ampl * 2.
Proof. intros; unfold rescaler_gen; simpl; reflexivity. Qed.

Lemma rescale_spec : forall v ampl off, ampl <> 0 -> rescaler_gen v ampl off = (v - off) / (ampl / 2).
Proof. intros v ampl off H; rewrite rescaler_unfold; field; exact H. Qed.

(* (v - off) / ampl * 2 - 1 and + 1 as multiples of the positive number / ampl *)
Lemma rescale_minus_one : forall v ampl off, ampl > 0 ->
  rescaler_gen v ampl off - 1 = 2 * (v - (off + ampl / 2)) * / ampl.
Proof. intros v ampl off H; rewrite rescaler_unfold; field; lra. Qed.

Lemma rescale_plus_one : forall v ampl off, ampl > 0 ->
  rescaler_gen v ampl off + 1 = 2 * (v - (off - ampl / 2)) * / ampl.
Proof. intros v ampl off H; rewrite rescaler_unfold; field; lra. Qed.

Lemma rescale_in_range : forall v ampl off,
  ampl > 0 -> off - ampl / 2 <= v <= off + ampl / 2 -> -1 <= rescaler_gen v ampl off <= 1.
Proof.
  intros v ampl off H [Hl Hu].
  pose proof (rescale_minus_one v ampl off H) as Em.
  pose proof (rescale_plus_one v ampl off H) as Ep.
  assert (Hi : 0 < / ampl) by (apply Rinv_0_lt_compat; lra).
  assert (0 <= 2 * (v - (off - ampl / 2)) * / ampl).
  { apply Rmult_le_pos; lra. }
  assert (0 <= 2 * ((off + ampl / 2) - v) * / ampl).
  { apply Rmult_le_pos; lra. }
  split; lra.
Qed.

Lemma rescale_edges : forall ampl off, ampl > 0 ->
  rescaler_gen (off + ampl / 2) ampl off = 1 /\ rescaler_gen (off - ampl / 2) ampl off = -1 /\
  rescaler_gen off ampl off = 0.
Proof.
  intros ampl off H; rewrite !rescaler_unfold; repeat split; field; lra.
Qed.

Lemma rescale_outside : forall v ampl off,
  ampl > 0 -> (v > off + ampl / 2 -> rescaler_gen v ampl off > 1) /\ (v < off - ampl / 2 -> rescaler_gen v ampl off < -1).
Proof.
  intros v ampl off H.
  pose proof (rescale_minus_one v ampl off H) as Em.
  pose proof (rescale_plus_one v ampl off H) as Ep.
  assert (Hi : 0 < / ampl) by (apply Rinv_0_lt_compat; lra).
  split; intro Hv.
  - assert (0 < 2 * (v - (off + ampl / 2)) * / ampl) by (apply Rmult_lt_0_compat; lra). lra.
  - assert (0 < 2 * ((off - ampl / 2) - v) * / ampl) by (apply Rmult_lt_0_compat; lra). lra.
Qed.

Lemma awg_raise_conditions :
  outputForAWGFile_raise_conditions =
  [("offkey not in self._awgspecs.keys()", "ValueError");
   ("wfm.max() > ampl / 2 + off", "ValueError"); ("wfm.min() < -ampl / 2 + off", "ValueError");
   ("twait not in [0, 1]", "SequencingError"); ("nrep not in range(0, 65537)", "SequencingError");
   ("jump_to not in range(-1, seqlen + 1)", "SequencingError"); ("goto not in range(0, seqlen + 1)", "SequencingError")]%string.
Proof. reflexivity. Qed.

Lemma seqx_raise_conditions :
  outputForSEQXFile_raise_conditions =
  [("len(wfm) < 2400", "ValueError"); ("wfm.max() > ampl / 2", "ValueError"); ("wfm.min() < -ampl / 2", "ValueError");
   ("twait not in [0, 1, 2, 3]", "SequencingError"); ("jump_state not in [0, 1, 2, 3]", "SequencingError");
   ("nrep not in range(0, 16384)", "SequencingError"); ("jump_to not in range(-1, seqlen + 1)", "SequencingError");
   ("goto not in range(0, seqlen + 1)", "SequencingError")]%string.
Proof. reflexivity. Qed.
