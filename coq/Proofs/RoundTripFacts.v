(* Element and Sequence description round trips (extension of C19; Model/Descr.v el_from_descr / seq_from_descr).
   Definitions used by the statements come first; lemmas follow. *)
From Coq Require Import String Ascii List Arith ZArith QArith Bool Lia.
From BB Require Import Base.Names Base.Num Base.PyList Model.Types Model.Blueprint Model.Forge Model.Element
  Model.PyVal Model.Sequence Model.Descr Proofs.BlueprintFacts Proofs.DescrFacts.
Import ListNotations.

(* what an element looks like after the round trip: same channels in the same order, every blueprint without a
   sample rate (the description does not carry one), same flags *)
Definition strip_sr_entry (p : chan * chentry) : chan * chentry :=
  match ckind (snd p) with
  | KBp b => (fst p, mkCh (KBp (set_sr b VNone)) (cflags (snd p)))
  | KArr _ _ => p
  end.

Definition flags_ok (f : option (list Z)) : Prop :=
  match f with None => True | Some l => length l = 4%nat /\ Forall (fun z => (0 <= z <= 4)%Z) l end.

(* an element the writers/readers are specified for: integer channel ids, blueprint channels over the built-in shapes *)
Definition el_json_ok (e : elem) : Prop :=
  NoDup (map fst (edata e)) /\
  forall c ch, In (c, ch) (edata e) ->
    (exists z, c = CInt z) /\ (exists b, ckind ch = KBp b /\ bp_json_ok b /\ bp_has_empty_list b = false) /\ flags_ok (cflags ch).

(* ---- lemmas: to be proved (see Props/C19b.v for the exact statements needed) ---- *)
