(* Element and Sequence description round trips (extension of C19; Model/Descr.v el_from_descr / seq_from_descr).
   Definitions used by the statements come first; lemmas follow. *)
From Coq Require Import String Ascii List Arith ZArith QArith Bool Lia.
From Coq Require Import DecimalString.
From Coq Require Decimal DecimalFacts DecimalPos DecimalZ.
From BB Require Import Base.Names Base.Num Base.PyList Model.Types Model.Blueprint Model.Forge Model.Element
  Model.PyVal Model.Sequence Model.Descr Proofs.BlueprintFacts Proofs.DescrFacts Proofs.EqFacts.
Import ListNotations.

(* what an element looks like after the round trip: same channels in the same order, every blueprint without a
   sample rate (the description does not carry one), same flags *)
Definition strip_sr_entry (p : chan * chentry) : chan * chentry :=
  match ckind (snd p) with
  | KBp b => (fst p, mkCh (KBp (set_sr b VNone)) (cflags (snd p)))
  | KArr _ _ => p
  end.

Definition flags_ok (f : option (list Z)) : Prop :=
  match f with None => True | Some l => length l = 4%nat /\ Forall (fun z => (0 <= z <= 4)%Z) l end.

(* an element the writers/readers are specified for: integer channel ids, blueprint channels over the built-in shapes *)
Definition el_json_ok (e : elem) : Prop :=
  NoDup (map fst (edata e)) /\
  forall c ch, In (c, ch) (edata e) ->
    (exists z, c = CInt z) /\ (exists b, ckind ch = KBp b /\ bp_json_ok b /\ bp_has_empty_list b = false) /\ flags_ok (cflags ch).

(* ---- lemmas: to be proved (see Props/C19b.v for the exact statements needed) ---- *)

(* ---------- channel ids: str(int) then int(str) ---------- *)
Section ChannelId.
Local Open Scope Z_scope.

Definition chars (d : Decimal.uint) : str := list_ascii_of_string (NilEmpty.string_of_uint d).

Lemma digits_val_acc d : forall acc : positive,
  digits_val (Zpos acc) (chars d) = Some (Zpos (Pos.of_uint_acc d acc)).
Proof.
  unfold chars.
  induction d as [|d IH|d IH|d IH|d IH|d IH|d IH|d IH|d IH|d IH|d IH]; intro acc;
    cbn [NilEmpty.string_of_uint list_ascii_of_string digits_val Pos.of_uint_acc]; [reflexivity|..];
    match goal with |- (if is_digit ?c then _ else _) = _ =>
      change (is_digit c) with true; cbv iota;
      let n := eval vm_compute in (Z.of_nat (nat_of_ascii c)) in
      change (Z.of_nat (nat_of_ascii c)) with n end;
    rewrite <- IH; f_equal; lia.
Qed.

Lemma digits_val_uint d : digits_val 0 (chars d) = Some (Z.of_N (Pos.of_uint d)).
Proof.
  unfold chars.
  induction d as [|d IH|d IH|d IH|d IH|d IH|d IH|d IH|d IH|d IH|d IH];
    cbn [NilEmpty.string_of_uint list_ascii_of_string digits_val Pos.of_uint]; [reflexivity|..];
    match goal with |- (if is_digit ?c then _ else _) = _ =>
      change (is_digit c) with true; cbv iota;
      let n := eval vm_compute in (Z.of_nat (nat_of_ascii c)) in
      change (Z.of_nat (nat_of_ascii c)) with n end;
    [exact IH | ..]; cbn [Z.of_N]; rewrite <- (digits_val_acc d); reflexivity.
Qed.

Lemma chars_head d : d <> Decimal.Nil ->
  exists c t, chars d = c :: t /\ Ascii.eqb c "-"%char = false.
Proof.
  intro H. unfold chars. destruct d; [contradiction|..];
    cbn [NilEmpty.string_of_uint list_ascii_of_string]; eexists; eexists; (split; [reflexivity|reflexivity]).
Qed.

Lemma to_uint_nonnil p : Pos.to_uint p <> Decimal.Nil.
Proof. apply DecimalPos.Unsigned.to_uint_nonnil. Qed.

Lemma nilzero_nonnil d : d <> Decimal.Nil -> NilZero.string_of_uint d = NilEmpty.string_of_uint d.
Proof. destruct d; [contradiction|..]; reflexivity. Qed.

Lemma channel_id_roundtrip : forall z, int_of_str (str_of_chan (CInt z)) = Ok z.
Proof.
  intro z. unfold str_of_chan, str_of_Z. destruct z as [|p|p].
  - reflexivity.
  - cbn [Z.to_int NilZero.string_of_int]. rewrite nilzero_nonnil by apply to_uint_nonnil.
    fold (chars (Pos.to_uint p)).
    destruct (chars_head (Pos.to_uint p) (to_uint_nonnil p)) as (c & t & E & Hc).
    pose proof (digits_val_uint (Pos.to_uint p)) as D.
    rewrite DecimalPos.Unsigned.of_to in D. rewrite E in D |- *.
    unfold int_of_str. rewrite Hc, D. reflexivity.
  - cbn [Z.to_int NilZero.string_of_int]. rewrite nilzero_nonnil by apply to_uint_nonnil.
    cbn [list_ascii_of_string]. fold (chars (Pos.to_uint p)).
    destruct (chars_head (Pos.to_uint p) (to_uint_nonnil p)) as (c & t & E & Hc).
    pose proof (digits_val_uint (Pos.to_uint p)) as D.
    rewrite DecimalPos.Unsigned.of_to in D. rewrite E in D |- *.
    unfold int_of_str. change (Ascii.eqb "-" "-") with true. cbv iota. rewrite D. reflexivity.
Qed.
End ChannelId.

(* ---------- flags ---------- *)
Lemma all_some_map_Some {A} (l : list A) : all_some (map Some l) = Some l.
Proof. induction l as [|x t IH]; [reflexivity|]. cbn [map all_some]. rewrite IH. reflexivity. Qed.

Lemma flags_roundtrip : forall e c ch l,
  el_lookup e c = Some ch -> length l = 4%nat -> Forall (fun z => (0 <= z <= 4)%Z) l ->
  exists vs, flags_of_pv (json_rt (PList (map PInt l))) = Ok vs /\
             el_add_flags e c vs = (el_set e c (mkCh (ckind ch) (Some l)), None).
Proof.
  intros e c ch l HL Hlen HF.
  destruct (leaves_roundtrip VNone (0, 0)%Q l) as (_ & _ & H).
  destruct (H HF) as (vs & Hvs & Hmap).
  exists vs. split; [exact Hvs|].
  unfold el_add_flags.
  assert (length vs = 4%nat) as Lvs.
  { rewrite <- Hlen, <- (map_length flag_int vs), Hmap, map_length. reflexivity. }
  rewrite Lvs. cbn [Nat.eqb negb]. rewrite Hmap, all_some_map_Some, HL. reflexivity.
Qed.

(* ---------- the element reader, with its loop named ---------- *)
Definition el_read_one (acc : elem) (k : str) (cd : pv) : result elem :=
  do b <- bp_from_descr cd;
  do c <- int_of_str k;
  do e1 <- step_res (el_add_bp acc (CInt c) b);
  (if pd_has "flags" cd
   then do f <- pd_get "flags" cd; do fl <- flags_of_pv f; step_res (el_add_flags e1 (CInt c) fl)
   else Ok e1).

Fixpoint el_read (l : list (pv * pv)) (acc : elem) : result elem :=
  match l with
  | [] => Ok acc
  | (PStr k, cd) :: t => do e2 <- el_read_one acc k cd; el_read t e2
  | _ :: _ => Err EType
  end.

Lemma el_from_descr_read d : el_from_descr d = do items <- pd_items d; el_read items el_empty.
Proof.
  unfold el_from_descr. destruct (pd_items d) as [items|e]; [|reflexivity]. cbn [bind].
  generalize el_empty. induction items as [|[k cd] t IH]; intro acc; [reflexivity|].
  cbn [el_read]. destruct k; try reflexivity.
  unfold el_read_one.
  destruct (bp_from_descr cd) as [b|e]; [|reflexivity]. cbn [bind].
  destruct (int_of_str x) as [c|e]; [|reflexivity]. cbn [bind].
  destruct (step_res (el_add_bp acc (CInt c) b)) as [e1|e]; [|reflexivity]. cbn [bind].
  match goal with |- bind ?X _ = bind ?X _ => destruct X as [e2|e] end; [|reflexivity].
  cbn [bind]. apply IH.
Qed.

(* ---------- the blueprint reader ignores a trailing "flags" entry ---------- *)
Lemma pd_get_markers_ext b X :
  pd_get "marker1_abs" (PDict (markers_rt b ++ X)) = Ok (PList (map mspec_pl (am1 b))) /\
  pd_get "marker2_abs" (PDict (markers_rt b ++ X)) = Ok (PList (map mspec_pl (am2 b))) /\
  pd_get "marker1_rel" (PDict (markers_rt b ++ X)) = Ok (PList (map mspec_pl (sm1 b))) /\
  pd_get "marker2_rel" (PDict (markers_rt b ++ X)) = Ok (PList (map mspec_pl (sm2 b))).
Proof. repeat split; reflexivity. Qed.

Lemma bp_roundtrip_ext b X :
  bp_json_ok b -> filter seg_filter X = [] ->
  bp_from_descr (PDict (segs_rt 1 (names b) (funs b) (args b) (durs b) ++ markers_rt b ++ X)) = Ok (set_sr b VNone).
Proof.
  intros ((Hf & Ha & Hd & H1 & H2 & Hu) & HN & Hok) HX.
  rewrite bp_from_descr_read. unfold read_bp.
  cbn [pd_items bind]. rewrite !filter_app, filter_segs_rt, filter_markers_rt, HX, !app_nil_r.
  destruct (read_segs_rt (names b) 1 0%Z (funs b) (args b) (durs b) bp_empty) as (s1 & s2 & E);
    try assumption; try reflexivity; try lia.
  rewrite E. cbn [bind].
  rewrite pd_get_behind_segs by exact marker_key_1a.
  rewrite pd_get_behind_segs by exact marker_key_2a.
  rewrite pd_get_behind_segs by exact marker_key_1r.
  rewrite pd_get_behind_segs by exact marker_key_2r.
  destruct (pd_get_markers_ext b X) as (G1 & G2 & G3 & G4).
  rewrite G1. cbn [bind list_of_pv]. rewrite mapM_mspec_pl. cbn [bind].
  rewrite G2. cbn [bind list_of_pv]. rewrite mapM_mspec_pl. cbn [bind].
  rewrite G3. cbn [bind list_of_pv]. rewrite mapM_mspec_pl. cbn [bind].
  rewrite G4. cbn [bind list_of_pv]. rewrite mapM_mspec_pl. cbn [bind].
  unfold set_sm2, set_sm1, set_am2, set_am1, set_sr, bp_empty.
  cbn [names funs args durs sm1 sm2 am1 am2 sr app]. rewrite <- Hu. reflexivity.
Qed.

Lemma flags_key j : str_eqb (S_ "flags") (seg_key j) = false.
Proof. apply seg_key_head. discriminate. Qed.

Lemma existsb_segs_rt_false (key : str) ns : forall k fs ars ds,
  (forall j, str_eqb key (seg_key j) = false) ->
  existsb (fun kv : pv * pv => pv_str_eqb (fst kv) key) (segs_rt k ns fs ars ds) = false.
Proof.
  induction ns as [|n ns IH]; intros k fs ars ds H; [reflexivity|].
  destruct fs as [|f fs]; [reflexivity|]. destruct ars as [|a ars]; [reflexivity|].
  destruct ds as [|d ds]; [reflexivity|].
  cbn [segs_rt existsb fst pv_str_eqb]. rewrite H. now apply IH.
Qed.

Definition flags_entry (l : list Z) : pv * pv := (pstr "flags", PList (map json_rt (map PInt l))).

Lemma pd_has_flags_none b :
  pd_has "flags" (PDict (segs_rt 1 (names b) (funs b) (args b) (durs b) ++ markers_rt b ++ [])) = false.
Proof.
  unfold pd_has. rewrite existsb_app, existsb_segs_rt_false by exact flags_key. reflexivity.
Qed.

Lemma pd_has_flags_some b l :
  pd_has "flags" (PDict (segs_rt 1 (names b) (funs b) (args b) (durs b) ++ markers_rt b ++ [flags_entry l])) = true.
Proof.
  unfold pd_has. rewrite existsb_app, existsb_segs_rt_false by exact flags_key. reflexivity.
Qed.

Lemma pd_get_flags_some b l :
  pd_get "flags" (PDict (segs_rt 1 (names b) (funs b) (args b) (durs b) ++ markers_rt b ++ [flags_entry l]))
  = Ok (PList (map json_rt (map PInt l))).
Proof.
  rewrite pd_get_behind_segs by exact flags_key. reflexivity.
Qed.

(* the two shapes of a channel description after json.load *)
Definition chan_rt (b : bp) (fl : option (list Z)) : pv :=
  PDict (segs_rt 1 (names b) (funs b) (args b) (durs b) ++ markers_rt b ++
         match fl with None => [] | Some l => [flags_entry l] end).

Lemma json_rt_chan_none b : json_rt (bp_descr b) = chan_rt b None.
Proof. rewrite json_rt_bp_descr. unfold chan_rt. rewrite app_nil_r. reflexivity. Qed.

Lemma json_rt_chan_some b d l : bp_descr b = PDict d ->
  json_rt (PDict (d ++ [(pstr "flags", PList (map PInt l))])) = chan_rt b (Some l).
Proof.
  intro E. pose proof (json_rt_bp_descr b) as J. rewrite E in J. cbn [json_rt] in J.
  injection J as J. cbn [json_rt]. rewrite map_app, J. unfold chan_rt. rewrite <- app_assoc. reflexivity.
Qed.

(* ---------- association lists keyed by channels ---------- *)
Lemma chan_eqb_refl c : chan_eqb c c = true.
Proof. now apply chan_eqb_eq. Qed.

Lemma aset_new c (x : chentry) : forall l, ~ In c (map fst l) -> aset chan_eqb c x l = l ++ [(c, x)].
Proof.
  induction l as [|[c' x'] t IH]; intro H; [reflexivity|].
  cbn [aset app]. destruct (chan_eqb c c') eqn:E.
  - apply chan_eqb_eq in E. subst c'. exfalso. apply H. left. reflexivity.
  - rewrite IH; [reflexivity|]. intro Hin. apply H. right. exact Hin.
Qed.

Lemma aset_last c (x y : chentry) : forall l, ~ In c (map fst l) ->
  aset chan_eqb c y (l ++ [(c, x)]) = l ++ [(c, y)].
Proof.
  induction l as [|[c' x'] t IH]; intro H.
  - cbn [aset app]. rewrite chan_eqb_refl. reflexivity.
  - cbn [aset app]. destruct (chan_eqb c c') eqn:E.
    + apply chan_eqb_eq in E. subst c'. exfalso. apply H. left. reflexivity.
    + rewrite IH; [reflexivity|]. intro Hin. apply H. right. exact Hin.
Qed.

Lemma alookup_last c (x : chentry) : forall l, ~ In c (map fst l) ->
  alookup chan_eqb c (l ++ [(c, x)]) = Some x.
Proof.
  induction l as [|[c' x'] t IH]; intro H.
  - cbn [alookup app]. rewrite chan_eqb_refl. reflexivity.
  - cbn [alookup app]. destruct (chan_eqb c c') eqn:E.
    + apply chan_eqb_eq in E. subst c'. exfalso. apply H. left. reflexivity.
    + apply IH. intro Hin. apply H. right. exact Hin.
Qed.

Lemma map_fst_strip l : map fst (map strip_sr_entry l) = map fst l.
Proof.
  rewrite map_map. apply map_ext. intros [c ch]. unfold strip_sr_entry. cbn [fst snd].
  destruct (ckind ch); reflexivity.
Qed.

Lemma Inv_set_sr b v : Inv b -> Inv (set_sr b v).
Proof. intro H. exact H. Qed.

(* ---------- one channel ---------- *)
Lemma el_read_one_ok done z b fl :
  ~ In (CInt z) (map fst done) -> bp_json_ok b -> bp_has_empty_list b = false -> flags_ok fl ->
  el_read_one (mkEl (map strip_sr_entry done)) (str_of_chan (CInt z)) (chan_rt b fl)
  = Ok (mkEl (map strip_sr_entry done ++ [(CInt z, mkCh (KBp (set_sr b VNone)) fl)])).
Proof.
  intros Hnew Hok Hne Hfl. unfold el_read_one.
  assert (bp_from_descr (chan_rt b fl) = Ok (set_sr b VNone)) as ->.
  { unfold chan_rt. apply bp_roundtrip_ext; [exact Hok|]. destruct fl; reflexivity. }
  cbn [bind]. rewrite channel_id_roundtrip. cbn [bind].
  unfold el_add_bp.
  assert (bp_has_empty_list (set_sr b VNone) = false) as -> by exact Hne.
  assert (bp_copy (set_sr b VNone) = set_sr b VNone) as ->.
  { apply copy_eq. apply Inv_set_sr. apply Hok. }
  unfold ok, step_res, el_set. cbn [edata bind].
  assert (~ In (CInt z) (map fst (map strip_sr_entry done))) as Hnew' by (rewrite map_fst_strip; exact Hnew).
  rewrite aset_new by exact Hnew'.
  destruct fl as [l|].
  - unfold chan_rt. rewrite pd_has_flags_some, pd_get_flags_some. cbn [bind].
    destruct Hfl as [Hlen HF].
    set (e1 := mkEl (map strip_sr_entry done ++ [(CInt z, mkCh (KBp (set_sr b VNone)) None)])).
    destruct (flags_roundtrip e1 (CInt z) (mkCh (KBp (set_sr b VNone)) None) l) as (vs & Hvs & Hadd);
      [unfold el_lookup, e1; cbn [edata]; apply alookup_last; exact Hnew' | exact Hlen | exact HF |].
    cbn [json_rt] in Hvs. rewrite Hvs. cbn [bind]. rewrite Hadd. cbn [step_res ckind].
    unfold el_set, e1. cbn [edata]. rewrite aset_last by exact Hnew'. reflexivity.
  - unfold chan_rt. rewrite pd_has_flags_none. reflexivity.
Qed.

(* ---------- the loop over the channels ---------- *)
Definition descr_entry (p : chan * chentry) : result (pv * pv) :=
  let key := PStr (str_of_chan (fst p)) in
  match ckind (snd p), cflags (snd p) with
  | KBp b, None => Ok (key, bp_descr b)
  | KBp b, Some fl =>
      match bp_descr b with
      | PDict d => Ok (key, PDict (d ++ [(pstr "flags", PList (map PInt fl))]))
      | x => Ok (key, x)
      end
  | KArr _ _, None => Ok (key, pstr "array")
  | KArr _ _, Some _ => Err EType
  end.

Lemma el_descr_unfold e : el_descr e = do l <- mapM descr_entry (edata e); Ok (PDict l).
Proof. reflexivity. Qed.

Definition jr (kv : pv * pv) : pv * pv := (json_rt (fst kv), json_rt (snd kv)).

Definition entry_ok (c : chan) (ch : chentry) : Prop :=
  (exists z, c = CInt z) /\ (exists b, ckind ch = KBp b /\ bp_json_ok b /\ bp_has_empty_list b = false) /\ flags_ok (cflags ch).

Lemma descr_entry_ok z ch b : ckind ch = KBp b ->
  exists v, descr_entry (CInt z, ch) = Ok (PStr (str_of_chan (CInt z)), v) /\ json_rt v = chan_rt b (cflags ch).
Proof.
  intro Hk. unfold descr_entry. cbn [fst snd]. rewrite Hk. destruct (cflags ch) as [l|].
  - unfold bp_descr at 1. eexists. split; [reflexivity|]. apply json_rt_chan_some. reflexivity.
  - eexists. split; [reflexivity|]. apply json_rt_chan_none.
Qed.

Lemma el_read_loop : forall entries done l,
  mapM descr_entry entries = Ok l ->
  NoDup (map fst (done ++ entries)) ->
  (forall c ch, In (c, ch) entries -> entry_ok c ch) ->
  el_read (map jr l) (mkEl (map strip_sr_entry done)) = Ok (mkEl (map strip_sr_entry (done ++ entries))).
Proof.
  induction entries as [|[c ch] t IH]; intros done l HM ND Hok.
  - cbn [mapM] in HM. injection HM as <-. rewrite app_nil_r. reflexivity.
  - destruct (Hok c ch (or_introl eq_refl)) as ([z ->] & (b & Hk & Hb & Hne) & Hfl).
    destruct (descr_entry_ok z ch b Hk) as (v & Hv & Hjv).
    cbn [mapM] in HM. rewrite Hv in HM. cbn [bind] in HM.
    destruct (mapM descr_entry t) as [r|e] eqn:Er; [|discriminate]. cbn [bind] in HM. injection HM as <-.
    cbn [map]. unfold jr at 1. cbn [fst snd json_rt el_read]. rewrite Hjv.
    assert (~ In (CInt z) (map fst done)) as Hnew.
    { rewrite map_app in ND. apply NoDup_remove_2 in ND. intro Hin. apply ND. apply in_or_app. left. exact Hin. }
    change (str_of_Z z) with (str_of_chan (CInt z)). rewrite el_read_one_ok by assumption. cbn [bind].
    assert (map strip_sr_entry done ++ [(CInt z, mkCh (KBp (set_sr b VNone)) (cflags ch))]
            = map strip_sr_entry (done ++ [(CInt z, ch)])) as ->.
    { rewrite map_app. cbn [map]. unfold strip_sr_entry at 3. cbn [fst snd]. rewrite Hk. reflexivity. }
    rewrite (IH (done ++ [(CInt z, ch)]) r eq_refl).
    + rewrite <- app_assoc. reflexivity.
    + rewrite <- app_assoc. exact ND.
    + intros c' ch' Hin. apply Hok. right. exact Hin.
Qed.

Lemma element_roundtrip : forall e d,
  el_json_ok e -> el_descr e = Ok d ->
  el_from_descr (json_rt d) = Ok (mkEl (map strip_sr_entry (edata e))).
Proof.
  intros e d [ND Hok] Hd. rewrite el_descr_unfold in Hd.
  destruct (mapM descr_entry (edata e)) as [l|er] eqn:El; [|discriminate]. cbn [bind] in Hd. injection Hd as <-.
  rewrite el_from_descr_read. cbn [json_rt pd_items bind].
  exact (el_read_loop (edata e) [] l El ND Hok).
Qed.

(* ---------- consequences ---------- *)
Lemma descr_entry_strip p : descr_entry (strip_sr_entry p) = descr_entry p.
Proof.
  destruct p as [c ch]. unfold strip_sr_entry. cbn [fst snd].
  destruct (ckind ch) as [b|arrs asr] eqn:Hk; [|reflexivity].
  unfold descr_entry. cbn [fst snd ckind cflags]. rewrite Hk. reflexivity.
Qed.

Lemma mapM_ext {A B} (f g : A -> result B) l : (forall x, f x = g x) -> mapM f l = mapM g l.
Proof. intro H. induction l as [|x t IH]; [reflexivity|]. cbn [mapM]. rewrite H, IH. reflexivity. Qed.

Lemma mapM_map {A B C} (f : B -> result C) (g : A -> B) l : mapM f (map g l) = mapM (fun x => f (g x)) l.
Proof. induction l as [|x t IH]; [reflexivity|]. cbn [map mapM]. rewrite IH. reflexivity. Qed.

Lemma el_descr_strip e : el_descr (mkEl (map strip_sr_entry (edata e))) = el_descr e.
Proof.
  rewrite !el_descr_unfold. cbn [edata]. rewrite mapM_map.
  rewrite (mapM_ext _ descr_entry) by apply descr_entry_strip. reflexivity.
Qed.

Lemma el_eqb_strip e : el_json_ok e -> el_eqb e (mkEl (map strip_sr_entry (edata e))) = Ok true.
Proof.
  intros [ND Hok].
  assert (forall c ch, In (c, ch) (edata e) -> exists x, ckind ch = KBp x) as Ha.
  { intros c ch Hin. destruct (Hok c ch Hin) as (_ & (b & Hk & _) & _). exists b. exact Hk. }
  apply el_eq_iff.
  - exact Ha.
  - cbn [edata]. intros c ch Hin. apply in_map_iff in Hin as ([c0 ch0] & E & Hin0).
    destruct (Ha c0 ch0 Hin0) as [x Hx]. unfold strip_sr_entry in E. cbn [fst snd] in E. rewrite Hx in E.
    injection E as <- <-. eexists. reflexivity.
  - exact ND.
  - cbn [edata]. rewrite map_fst_strip. exact ND.
  - split; [cbn [edata]; rewrite map_length; reflexivity|].
    intros c ch Hin. destruct (Ha c ch Hin) as [x Hx].
    exists (mkCh (KBp (set_sr x VNone)) (cflags ch)), x, (set_sr x VNone).
    split; [|split; [exact Hx|split; [reflexivity|split; [apply bp_eqb_set_sr | apply flags_eqb_refl]]]].
    unfold el_lookup. cbn [edata]. apply alookup_NoDup; [rewrite map_fst_strip; exact ND|].
    apply in_map_iff. exists (c, ch). split; [|exact Hin].
    unfold strip_sr_entry. cbn [fst snd]. rewrite Hx. reflexivity.
Qed.

Lemma element_roundtrip_observations : forall e d e',
  el_json_ok e -> el_descr e = Ok d -> el_from_descr (json_rt d) = Ok e' ->
  el_eqb e e' = Ok true /\ el_descr e' = Ok d.
Proof.
  intros e d e' Hok Hd He'. rewrite (element_roundtrip e d Hok Hd) in He'. injection He' as <-.
  split; [apply el_eqb_strip; exact Hok|]. rewrite el_descr_strip. exact Hd.
Qed.
