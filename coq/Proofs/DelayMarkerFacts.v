(* Marker arrays under channel delays (extension of C10): shifted windows paint the shifted array.
   Definitions used by the statements come first; lemmas follow. *)
From Coq Require Import String Ascii List Arith ZArith QArith Qabs Qround Bool Lia Lqa.
From BB Require Import Base.Names Base.Num Base.PyList Model.Types Model.Blueprint Model.Forge Model.Element.
Import ListNotations.

Definition shift_window (k : Z) (w : Z * Z) : Z * Z := (fst w + k, snd w + k)%Z.
Definition inside (N : Z) (w : Z * Z) : Prop := (0 <= fst w /\ snd w <= N)%Z.

(* ---- lemmas: to be proved (see Props/C10b.v for the exact statements needed) ---- *)
From BB Require Import Proofs.ForgeFacts.
Local Open Scope Q_scope.

(* ---------- painting ---------- *)

Lemma paint_nth : forall N ws i, (i < Z.to_nat N)%nat ->
  nth i (paint N ws) false = existsb (in_window (Z.of_nat i)) ws.
Proof.
  intros N ws i Hi. rewrite paint_unfold.
  set (F := fun k0 : nat => existsb (in_window (Z.of_nat k0)) ws).
  rewrite (nth_indep _ false (F 0%nat)) by (rewrite map_length, seq_length; lia).
  rewrite map_nth. rewrite seq_nth by lia. reflexivity.
Qed.

Lemma in_window_shift : forall k kd w, in_window (k + kd) (shift_window kd w) = in_window k w.
Proof.
  intros k kd w. unfold in_window, shift_window. cbn [fst snd].
  destruct (Z.leb_spec (fst w + kd) (k + kd)), (Z.leb_spec (fst w) k),
           (Z.ltb_spec (k + kd) (snd w + kd)), (Z.ltb_spec k (snd w)); try reflexivity; lia.
Qed.

Lemma existsb_shift_in : forall k kd ws,
  existsb (in_window (k + kd)) (map (shift_window kd) ws) = existsb (in_window k) ws.
Proof.
  intros k kd ws. induction ws as [|w ws IH]; [reflexivity|].
  cbn [map existsb]. rewrite in_window_shift, IH. reflexivity.
Qed.

Lemma existsb_shift_out : forall N k kd ws,
  Forall (inside N) ws -> (k < kd \/ N + kd <= k)%Z ->
  existsb (in_window k) (map (shift_window kd) ws) = false.
Proof.
  intros N k kd ws H Hk. induction H as [|w ws [Hw1 Hw2] _ IH]; [reflexivity|].
  cbn [map existsb]. rewrite IH, orb_false_r.
  unfold in_window, shift_window. cbn [fst snd].
  destruct (Z.leb_spec (fst w + kd) k), (Z.ltb_spec k (snd w + kd)); try reflexivity; lia.
Qed.

Lemma existsb_beyond : forall N k ws,
  Forall (fun w => (snd w <= N)%Z) ws -> (N <= k)%Z -> existsb (in_window k) ws = false.
Proof.
  intros N k ws H Hk. induction H as [|w ws Hw _ IH]; [reflexivity|].
  cbn [existsb]. rewrite IH, orb_false_r. unfold in_window.
  destruct (Z.ltb_spec k (snd w)); [lia | apply andb_false_r].
Qed.

Lemma paint_shift : forall N ws kd kp,
  (0 <= N)%Z -> (0 <= kd)%Z -> (0 <= kp)%Z -> Forall (inside N) ws ->
  paint (N + kd + kp) (map (shift_window kd) ws) = repeat false (Z.to_nat kd) ++ paint N ws ++ repeat false (Z.to_nat kp).
Proof.
  intros N ws kd kp HN Hkd Hkp Hin.
  assert (Z.to_nat (N + kd + kp) = Z.to_nat kd + (Z.to_nat N + Z.to_nat kp))%nat as HL by lia.
  apply nth_ext with (d := false) (d' := false).
  - rewrite paint_length, !app_length, !repeat_length, paint_length. exact HL.
  - intros i Hi. rewrite paint_length in Hi. rewrite paint_nth by exact Hi.
    destruct (Nat.lt_ge_cases i (Z.to_nat kd)) as [L1|L1].
    + rewrite app_nth1 by (rewrite repeat_length; exact L1). rewrite nth_repeat.
      apply (existsb_shift_out N); [exact Hin | lia].
    + rewrite app_nth2 by (rewrite repeat_length; exact L1). rewrite repeat_length.
      destruct (Nat.lt_ge_cases (i - Z.to_nat kd) (Z.to_nat N)) as [L2|L2].
      * rewrite app_nth1 by (rewrite paint_length; exact L2).
        rewrite paint_nth by exact L2.
        replace (Z.of_nat i) with (Z.of_nat (i - Z.to_nat kd) + kd)%Z by lia.
        apply existsb_shift_in.
      * rewrite app_nth2 by (rewrite paint_length; exact L2). rewrite nth_repeat.
        apply (existsb_shift_out N); [exact Hin | lia].
Qed.

Lemma paint_extend : forall N ws k,
  (0 <= N)%Z -> (0 <= k)%Z -> Forall (fun w => (snd w <= N)%Z) ws ->
  paint (N + k) ws = paint N ws ++ repeat false (Z.to_nat k).
Proof.
  intros N ws k HN Hk Hin.
  assert (Z.to_nat (N + k) = Z.to_nat N + Z.to_nat k)%nat as HL by lia.
  apply nth_ext with (d := false) (d' := false).
  - rewrite paint_length, app_length, repeat_length, paint_length. exact HL.
  - intros i Hi. rewrite paint_length in Hi. rewrite paint_nth by exact Hi.
    destruct (Nat.lt_ge_cases i (Z.to_nat N)) as [L|L].
    + rewrite app_nth1 by (rewrite paint_length; exact L). rewrite paint_nth by exact L. reflexivity.
    + rewrite app_nth2 by (rewrite paint_length; exact L). rewrite nth_repeat.
      apply (existsb_beyond N); [exact Hin | lia].
Qed.

(* ---------- windows ---------- *)

Lemma window_shift : forall (N : Z) SR t len d n c kd kp,
  0 < SR -> (0 <= n < N)%Z -> Qabs (t * SR - inject_Z n) < 1 # 2 -> rnd (len * SR) = c -> (0 <= c)%Z -> (n + c <= N)%Z ->
  d * SR == inject_Z kd -> (0 <= kd)%Z -> (0 <= kp)%Z ->
  window (N + kd + kp) SR (t + d, len) = (n + kd, n + kd + c)%Z /\
  window (N + kd + kp) SR (t, len) = (n, n + c)%Z /\
  window N SR (t, len) = (n, n + c)%Z.
Proof.
  intros N SR t len d n c kd kp HSR Hn Hnear Hc Hc0 HnN Hd Hkd Hkp.
  assert (Qabs ((t + d) * SR - inject_Z (n + kd)) < 1 # 2) as Hnear'.
  { assert ((t + d) * SR - inject_Z (n + kd) == t * SR - inject_Z n) as E.
    { rewrite inject_Z_plus, <- Hd. ring. }
    rewrite E. exact Hnear. }
  repeat split.
  - rewrite (window_spec (N + kd + kp) SR (t + d) len (n + kd) c HSR) by (assumption || lia).
    rewrite Z.min_l by lia. reflexivity.
  - rewrite (window_spec (N + kd + kp) SR t len n c HSR) by (assumption || lia).
    rewrite Z.min_l by lia. reflexivity.
  - rewrite (window_spec N SR t len n c HSR) by (assumption || lia).
    rewrite Z.min_l by lia. reflexivity.
Qed.

(* ---------- segment-bound specs ---------- *)

Lemma seg_specs_shift_acc : forall SR kd, 0 < SR -> forall ns sm a,
  Forall2 (fun x y : mspec => fst x == fst y + inject_Z kd / SR /\ snd x = snd y)
          (seg_specs SR (starts (a + kd) ns) sm) (seg_specs SR (starts a ns) sm).
Proof.
  intros SR kd HSR. induction ns as [|n ns IH]; intros sm a; [constructor|].
  cbn [starts]. destruct sm as [|[dl ln] sm]; [constructor|]. cbn [seg_specs].
  replace (a + kd + n)%Z with (a + n + kd)%Z by lia.
  destruct (Qeq_bool ln 0); [apply IH|].
  constructor; [|apply IH]. cbn [fst snd]. split; [|reflexivity].
  rewrite inject_Z_plus. field. lra.
Qed.

Lemma seg_specs_shift : forall SR ns sm kd,
  0 < SR ->
  Forall2 (fun a b => fst a == fst b + inject_Z kd / SR /\ snd a = snd b)
          (seg_specs SR (starts kd ns) sm) (seg_specs SR (starts 0 ns) sm).
Proof.
  intros SR ns sm kd HSR.
  exact (seg_specs_shift_acc SR kd HSR ns sm 0%Z).
Qed.

(* ---------- raw marker arrays ---------- *)

Lemma rle_len_app : forall r s, rle_len (r ++ s) = (rle_len r + rle_len s)%Z.
Proof.
  intros r s. induction r as [|p r IH]; [reflexivity|].
  change (rle_len ((p :: r) ++ s)) with (snd p + rle_len (r ++ s))%Z.
  change (rle_len (p :: r)) with (snd p + rle_len r)%Z. rewrite IH. lia.
Qed.

Lemma raw_marker_padding : forall r pre post,
  (0 <= pre)%Z -> (0 <= post)%Z -> Forall (fun p => (0 <= snd p)%Z) r ->
  rle_len (rle_pad pre post r) = (pre + rle_len r + post)%Z.
Proof.
  intros r pre post _ _ _. unfold rle_pad.
  change (rle_len ((0%Q, pre) :: r ++ [(0%Q, post)])) with (pre + rle_len (r ++ [(0%Q, post)]))%Z.
  rewrite rle_len_app. cbn [rle_len fold_right snd]. lia.
Qed.
