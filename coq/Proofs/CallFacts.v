(* The call convention of user-supplied pulse shapes (second half of C02), derived from the forging theorems:
   the call log of one forge lists exactly the segments that use a user shape, in blueprint order, each with that
   segment's stored arguments, the sample rate handed to the forger and the segment's integer sample count. *)
From Coq Require Import List ZArith QArith Bool Lia.
From BB Require Import Base.Num Model.Types Model.Blueprint Model.Forge Model.PyVal Model.Interp Proofs.ForgeFacts.
Import ListNotations.

Lemma map_filter_comm {A B} (g : A -> B) (p : B -> bool) : forall l,
  map g (filter (fun x => p (g x)) l) = filter p (map g l).
Proof.
  induction l as [|x l IH]; [reflexivity|]. cbn [filter map].
  destruct (p (g x)); cbn [map]; rewrite IH; reflexivity.
Qed.

(* the segments (function, arguments) that use a user shape, in order *)
Fixpoint user_segments (fs : list fn) (ars : list (list val)) : list (fn * list val) :=
  match fs, ars with
  | f :: fs', a :: ars' => (if is_user_fn f then [(f, a)] else []) ++ user_segments fs' ars'
  | _, _ => []
  end.

Lemma user_segments_blocks : forall (l : list block),
  map (fun k => (bfn k, bargs k)) (filter (fun k => is_user_fn (bfn k)) l)
  = user_segments (map bfn l) (map bargs l).
Proof.
  induction l as [|k l IH]; [reflexivity|]. cbn [filter map user_segments].
  destruct (is_user_fn (bfn k)); cbn [map app]; rewrite IH; reflexivity.
Qed.

Lemma user_calls : forall b SR ds f,
  forge_bp_with b SR ds = Ok f ->
  length (args b) = length (funs b) -> length ds = length (funs b) ->
  let calls := filter (fun k => is_user_fn (bfn k)) (fblocks f) in
  (* one call per segment that uses a user shape, in blueprint order, with that segment's stored arguments *)
  map (fun k => (bfn k, bargs k)) calls = user_segments (funs b) (args b) /\
  (* every call gets the forger's sample rate and an integer count of at least two points *)
  Forall (fun k => bsr k = SR /\ (2 <= bn k)%Z) calls /\
  (* and nothing else is called: the log is a sub-list of the blocks that make up the waveform *)
  (forall k, In k calls -> In k (fblocks f) /\ is_user_fn (bfn k) = true).
Proof.
  intros b SR ds f Hf Ha Hd calls.
  destruct (forge_blocks_in_order b SR ds f Hf Ha Hd) as (Hfn & Har & Hsr & _).
  destruct (forge_counts b SR ds f Hf) as (rs & ns & _ & _ & _ & Hge & Hbn & _).
  split; [|split].
  - unfold calls. rewrite user_segments_blocks, Hfn, Har. reflexivity.
  - unfold calls. apply Forall_forall. intros k Hk. apply filter_In in Hk as [Hin _]. split.
    + rewrite Forall_forall in Hsr. apply Hsr, Hin.
    + rewrite Forall_forall in Hge. apply Hge. rewrite <- Hbn. apply in_map, Hin.
  - intros k Hk. unfold calls in Hk. apply filter_In in Hk. exact Hk.
Qed.

(* forging twice gives the same log (forging does not depend on, or leave, state) *)
Lemma user_calls_repeatable : forall b SR ds f f',
  forge_bp_with b SR ds = Ok f -> forge_bp_with b SR ds = Ok f' ->
  filter (fun k => is_user_fn (bfn k)) (fblocks f) = filter (fun k => is_user_fn (bfn k)) (fblocks f').
Proof. intros b SR ds f f' H H'. rewrite H in H'. injection H' as <-. reflexivity. Qed.
