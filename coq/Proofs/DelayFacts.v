(* Facts about channel delays and filter compensation (Model/Element.v, Model/Sequence.v, Model/Output.v)
   behind Props/C10.v and Props/C11.v.  Definitions used by the statements come first; lemmas follow. *)
From Coq Require Import String Ascii List Arith ZArith QArith Qabs Qround Bool Lia Lqa Permutation.
From BB Require Import Base.Names Base.Num Base.PyList Model.Types Model.Blueprint Model.Forge Model.Element
  Model.PyVal Model.Sequence Model.Output.
Import ListNotations.

(* every waituntil segment carries exactly its numeric target; the parallel lists have equal length *)
Definition bp_wf (b : bp) : Prop :=
  length (args b) = length (funs b) /\ length (durs b) = length (funs b) /\
  Forall2 (fun f a => fn_eqb f Fwait = true -> exists w, a = [VNum w]) (funs b) (args b).

(* the channel entry obtained from ch by a delay d when the largest channel delay is M (rate SR) *)
Definition delayed_entry (ch : chentry) (d M SR : Q) (ch' : chentry) : Prop :=
  match ckind ch with
  | KBp b => exists b', delay_bp b d M = Ok b' /\ ch' = mkCh (KBp b') (cflags ch)
  | KArr arrs asr => ch' = mkCh (KArr (delay_arrays arrs d M SR) asr) (cflags ch)
  end.

(* ---- lemmas: to be proved (see Props/C10.v and Props/C11.v for the exact statements needed) ---- *)

From BB Require Import Proofs.ForgeFacts Proofs.WaitFacts Proofs.BlueprintFacts.
Local Open Scope Q_scope.

(* ---------- generic helpers ---------- *)
Lemma rnd_eq x y : x == y -> rnd x = rnd y.
Proof.
  intro H. unfold rnd. rewrite (Qfloor_comp x y H).
  assert (x - inject_Z (Qfloor y) == y - inject_Z (Qfloor y)) as H' by (rewrite H; reflexivity).
  rewrite (Qcompare_comp _ _ H' _ _ (Qeq_refl (1 # 2))). reflexivity.
Qed.

Lemma mapM_nth {A B} (f : A -> result B) : forall l ys, mapM f l = Ok ys ->
  length ys = length l /\
  forall i x, nth_error l i = Some x -> exists y, nth_error ys i = Some y /\ f x = Ok y.
Proof.
  induction l as [|a l IH]; intros ys H.
  - cbn [mapM] in H. injection H as <-. split; [reflexivity|]. intros i x Hi. destruct i; discriminate.
  - cbn [mapM] in H. apply bind_ok_inv in H as (y & Hy & H). cbv beta in H.
    apply bind_ok_inv in H as (r & Hr & H). cbv beta in H. injection H as <-.
    destruct (IH r Hr) as [L N]. split; [cbn [length]; f_equal; exact L|].
    intros i x Hi. destruct i as [|i].
    + cbn in Hi. injection Hi as <-. exists y. split; [reflexivity | exact Hy].
    + cbn in Hi. cbn [nth_error]. apply N. exact Hi.
Qed.

Lemma mapM_map_fst {A B C} (f : A -> result B) (ga : A -> C) (gb : B -> C) :
  (forall x y, f x = Ok y -> gb y = ga x) -> forall l ys, mapM f l = Ok ys -> map gb ys = map ga l.
Proof.
  intros Hf. induction l as [|a l IH]; intros ys H.
  - cbn [mapM] in H. injection H as <-. reflexivity.
  - cbn [mapM] in H. apply bind_ok_inv in H as (y & Hy & H). cbv beta in H.
    apply bind_ok_inv in H as (r & Hr & H). cbv beta in H. injection H as <-.
    cbn [map]. rewrite (Hf _ _ Hy), (IH r Hr). reflexivity.
Qed.

Lemma mapM_total {A B} (f : A -> result B) : forall l,
  (forall x, In x l -> exists y, f x = Ok y) -> exists ys, mapM f l = Ok ys.
Proof.
  induction l as [|a l IH]; intro H.
  - exists []. reflexivity.
  - destruct (H a (or_introl eq_refl)) as (y & Hy).
    destruct IH as (ys & Hys); [intros x Hx; apply H; right; exact Hx|].
    exists (y :: ys). cbn [mapM]. rewrite Hy, Hys. reflexivity.
Qed.

Lemma nth_error_combine {A B} : forall (l1 : list A) (l2 : list B) i a b,
  nth_error l1 i = Some a -> nth_error l2 i = Some b -> nth_error (combine l1 l2) i = Some (a, b).
Proof.
  induction l1 as [|x l1 IH]; intros l2 i a b H1 H2.
  - destruct i; discriminate.
  - destruct l2 as [|y l2]; [destruct i; discriminate|].
    destruct i as [|i]; cbn in H1, H2 |- *.
    + injection H1 as <-. injection H2 as <-. reflexivity.
    + apply IH; assumption.
Qed.

Lemma map_fst_combine {A B} : forall (l1 : list A) (l2 : list B),
  length l2 = length l1 -> map fst (combine l1 l2) = l1.
Proof.
  induction l1 as [|x l1 IH]; intros l2 L; [reflexivity|].
  destruct l2 as [|y l2]; [discriminate|]. cbn [combine map fst]. f_equal. apply IH.
  cbn in L. injection L as L. exact L.
Qed.

Lemma ins_end {A} p (x : A) l : (length l <= p)%nat -> ins p x l = l ++ [x].
Proof. intro H. unfold ins. rewrite firstn_all2 by exact H. rewrite skipn_all2 by exact H. reflexivity. Qed.

(* ---------- raw arrays ---------- *)
Lemma rle_len_app r1 r2 : rle_len (r1 ++ r2) = (rle_len r1 + rle_len r2)%Z.
Proof.
  unfold rle_len. induction r1 as [|p r1 IH]; cbn [app fold_right]; [reflexivity|]. rewrite IH. lia.
Qed.

Lemma rle_len_pad pre post r : rle_len (rle_pad pre post r) = (pre + rle_len r + post)%Z.
Proof.
  unfold rle_pad. change ((0, pre) :: r ++ [(0, post)]) with ([(0, pre)] ++ r ++ [(0, post)]).
  rewrite !rle_len_app. unfold rle_len at 1 3. cbn [fold_right snd]. lia.
Qed.

Lemma alookup_map_snd {V W} (g : V -> W) n : forall l : list (str * V),
  alookup str_eqb n (map (fun p => (fst p, g (snd p))) l) = option_map g (alookup str_eqb n l).
Proof.
  induction l as [|[k v] l IH]; [reflexivity|]. cbn [map alookup fst snd].
  destruct (str_eqb n k); [reflexivity | exact IH].
Qed.

Lemma shift_arrays : forall arrs d M SR n r,
  alookup str_eqb n (delay_arrays arrs d M SR) = Some r ->
  exists r0, alookup str_eqb n arrs = Some r0 /\ r = rle_pad (rnd (d * SR)) (rnd ((M - d) * SR)) r0 /\
             rle_len r = (rnd (d * SR) + rle_len r0 + rnd ((M - d) * SR))%Z.
Proof.
  intros arrs d M SR n r H. unfold delay_arrays in H.
  rewrite (alookup_map_snd (rle_pad (rnd (d * SR)) (rnd ((M - d) * SR)))) in H.
  destruct (alookup str_eqb n arrs) as [r0|]; [|discriminate]. cbn in H. injection H as <-.
  exists r0. split; [reflexivity|]. split; [reflexivity|]. apply rle_len_pad.
Qed.

Lemma zero_delay_arrays : forall arrs SR n r,
  alookup str_eqb n (delay_arrays arrs 0 0 SR) = Some r -> exists r0, alookup str_eqb n arrs = Some r0 /\ r = rle_pad 0 0 r0.
Proof.
  intros arrs SR n r H. apply shift_arrays in H as (r0 & H0 & -> & _).
  exists r0. split; [exact H0|].
  rewrite (rnd_eq (0 * SR) 0) by ring. rewrite (rnd_eq ((0 - 0) * SR) 0) by ring. reflexivity.
Qed.

Lemma paths_agree_arrays : forall s e M c d ch arrs asr SRq,
  el_lookup e c = Some ch -> ckind ch = KArr arrs asr -> asr = Some (VNum SRq) ->
  prepare_chan s e M (c, d) = Ok (c, mkCh (KArr (delay_arrays arrs d M SRq) asr) (cflags ch)).
Proof. intros s e M c d ch arrs asr SRq H1 H2 H3. unfold prepare_chan. rewrite H1, H2, H3. reflexivity. Qed.

Lemma paths_agree_blueprint : forall s e M c d ch b b',
  el_lookup e c = Some ch -> ckind ch = KBp b -> delay_bp b d M = Ok b' -> bp_has_empty_list b' = false ->
  prepare_chan s e M (c, d) = Ok (c, mkCh (KBp (bp_copy b')) (cflags ch)) /\
  forall SR ds, forge_bp_with (bp_copy b') SR ds = forge_bp_with b' SR ds.
Proof.
  intros s e M c d ch b b' H1 H2 H3 H4. split.
  - unfold prepare_chan. rewrite H1, H2, H3. cbn [bind]. rewrite H4. reflexivity.
  - intros SR ds. apply forge_same_view. unfold same_view, bp_copy. cbn. repeat split; reflexivity.
Qed.

(* ---------- delays, channel by channel ---------- *)
Lemma delays_by_channel : forall dl e e' SRq,
  apply_delays_elem dl e = Ok e' -> el_sr e = Ok (VNum SRq) ->
  map fst (edata e') = map fst (edata e) /\
  exists ds, mapM (fun c => match alookup chan_eqb c dl with Some q => Ok q | None => Err EKey end) (el_channels e) = Ok ds /\
    forall i c ch, nth_error (edata e) i = Some (c, ch) ->
      exists d ch', alookup chan_eqb c dl = Some d /\ nth_error ds i = Some d /\
                    nth_error (edata e') i = Some (c, ch') /\ delayed_entry ch d (qmax ds) SRq ch'.
Proof.
  intros dl e e' SRq H Hsr. unfold apply_delays_elem in H.
  apply bind_ok_inv in H as (ds & Hds & H). unfold el_apply_delays in H.
  destruct (negb (length ds =? length (edata e))%nat) eqn:EL; [discriminate|].
  destruct (negb (forallb (fun d => Qle_bool 0 d) ds)) eqn:EP; [discriminate|].
  rewrite Hsr in H. cbn [bind] in H.
  apply negb_false_iff, Nat.eqb_eq in EL.
  destruct ds as [|d0 dt]; [discriminate|]. set (ds := d0 :: dt) in *.
  apply bind_ok_inv in H as (chs & Hc & Hk). injection Hk as <-. cbn [edata].
  split.
  - assert (map fst chs = map (fun p : chan * chentry * Q => fst (fst p)) (combine (edata e) ds)) as ->.
    { eapply mapM_map_fst; [|exact Hc].
      intros [[c ch] d] y Hy. cbn [fst]. destruct (ckind ch) as [b|arrs asr].
      * apply bind_ok_inv in Hy as (b' & _ & Hy). injection Hy as <-. reflexivity.
      * injection Hy as <-. reflexivity. }
    rewrite <- (map_map fst fst). rewrite map_fst_combine by exact EL. reflexivity.
  - exists ds. split; [exact Hds|]. intros i c ch Hi.
    destruct (mapM_nth _ _ _ Hds) as [_ Nd]. destruct (mapM_nth _ _ _ Hc) as [_ Nc].
    assert (nth_error (el_channels e) i = Some c) as Hic.
    { unfold el_channels, akeys. rewrite nth_error_map, Hi. reflexivity. }
    destruct (Nd i c Hic) as (d & Hd & Hdl).
    destruct (alookup chan_eqb c dl) as [q|] eqn:Eq; [|discriminate]. injection Hdl as ->.
    destruct (Nc i (c, ch, d) (nth_error_combine _ _ _ _ _ Hi Hd)) as (y & Hy & Hfy).
    cbv beta iota in Hfy. unfold delayed_entry.
    destruct (ckind ch) as [b|arrs asr].
    + apply bind_ok_inv in Hfy as (b' & Hb' & Hfy). injection Hfy as <-.
      exists d, (mkCh (KBp b') (cflags ch)). repeat split; auto. exists b'. split; [exact Hb' | reflexivity].
    + injection Hfy as <-.
      exists d, (mkCh (KArr (delay_arrays arrs d (qmax ds) SRq) asr) (cflags ch)). repeat split; auto.
Qed.

(* ---------- C11 ---------- *)
Lemma filter_validation : forall s c kind order fc tau,
  (negb (str_eqb kind (S_ "HP") || str_eqb kind (S_ "LP")) = true -> seq_set_filter s c kind order fc tau = (s, Some EValue)) /\
  (order = None -> snd (seq_set_filter s c kind order fc tau) <> None /\ fst (seq_set_filter s c kind order fc tau) = s) /\
  (fc <> VNone -> tau <> VNone -> snd (seq_set_filter s c kind order fc tau) <> None /\ fst (seq_set_filter s c kind order fc tau) = s).
Proof.
  intros s c kind order fc tau. unfold seq_set_filter, fail, ok. split; [|split].
  - intro H. rewrite H. reflexivity.
  - intros ->. destruct (negb _); cbn [fst snd]; split; try discriminate; reflexivity.
  - intros Hf Ht. destruct (negb _); [cbn [fst snd]; split; [discriminate | reflexivity]|].
    destruct order as [o|]; [|cbn [fst snd]; split; [discriminate | reflexivity]].
    destruct fc as [f|x|]; destruct tau as [t|y|]; try congruence; cbn [val_is_none negb andb fst snd];
      (split; [discriminate | reflexivity]).
Qed.

Lemma alookup_aset_str {V} k (v : V) : forall l, alookup str_eqb k (aset str_eqb k v l) = Some v.
Proof.
  induction l as [|[k' v'] l IH]; cbn [aset alookup].
  - rewrite str_eqb_refl. reflexivity.
  - destruct (str_eqb k k') eqn:E; cbn [alookup]; rewrite ?str_eqb_refl, ?E; [reflexivity | exact IH].
Qed.

Lemma filter_declared : forall s c kind o fc tau s',
  seq_set_filter s c kind (Some o) fc tau = (s', None) ->
  spec_get s' (key_filt c) = Some (SFilt kind o fc tau) /\ sdata s' = sdata s /\ sseq s' = sseq s.
Proof.
  intros s c kind o fc tau s' H. unfold seq_set_filter, fail, ok in H.
  destruct (negb _); [discriminate|]. destruct (negb (val_is_none fc) && negb (val_is_none tau)); [discriminate|].
  injection H as <-. unfold spec_get, spec_set. cbn [sspecs sdata sseq].
  split; [apply alookup_aset_str | split; reflexivity].
Qed.

Lemma filter_cutoff : forall s c kind o f t,
  (spec_get s (key_filt c) = Some (SFilt kind o (VNum f) VNone) -> filter_of s c = Ok (Some (kind, o, f))) /\
  (spec_get s (key_filt c) = Some (SFilt kind o VNone (VNum t)) -> ~ t == 0 -> filter_of s c = Ok (Some (kind, o, 1 / t))) /\
  (~ f == 0 -> 1 / (1 / f) == f) /\
  (spec_get s (key_filt c) = None -> filter_of s c = Ok None).
Proof.
  intros s c kind o f t. unfold filter_of. split; [|split; [|split]].
  - intros ->. reflexivity.
  - intros -> Ht. destruct (Qeq_bool t 0) eqn:E; [apply Qeq_bool_iff in E; contradiction | reflexivity].
  - intro Hf. field. repeat split; try exact Hf; try discriminate.
  - intros ->. reflexivity.
Qed.

Lemma filter_wrap : forall k o f SRq w,
  filt_wrap (Some (k, o, f)) (VNum SRq) w = Ok (WFilt k o f SRq w) /\ forall SR, filt_wrap None SR w = Ok w.
Proof. intros. split; [reflexivity | intro; reflexivity]. Qed.

Lemma markers_untouched : forall o w w' k,
  k <> S_ "wfm" ->
  match pv_of_chout o w, pv_of_chout o w' with
  | PDict l, PDict l' => alookup (fun a b => match a, b with PStr x, PStr y => str_eqb x y | _, _ => false end) (PStr k) l
                        = alookup (fun a b => match a, b with PStr x, PStr y => str_eqb x y | _, _ => false end) (PStr k) l'
  | _, _ => False
  end.
Proof.
  intros o w w' k Hk. destruct o as [arrs timeN | f fl wt SR]; cbn [pv_of_chout].
  - induction arrs as [|p arrs IH]; cbn [map app].
    + reflexivity.
    + cbn [alookup]. destruct (str_eqb k (fst p)) eqn:E.
      * apply str_eqb_eq in E. subst k.
        destruct (str_eqb (fst p) (S_ "wfm")) eqn:E2; [apply str_eqb_eq in E2; contradiction | reflexivity].
      * exact IH.
  - unfold pstr. cbn [app alookup].
    assert (str_eqb k (S_ "wfm") = false) as -> by (apply str_eqb_neq; exact Hk). reflexivity.
Qed.

Definition chan_pv (s : seq) (filters : bool) (p : chan * chout) : result (pv * pv) :=
  do w <- chout_plan (snd p);
  do flt <- (if filters then filter_of s (fst p) else Ok None);
  do w' <- filt_wrap flt (seq_SR s) w;
  Ok (pv_of_chan (fst p), pv_of_chout (snd p) w').

Lemma chan_pv_fst s fl p y : chan_pv s fl p = Ok y -> fst y = pv_of_chan (fst p).
Proof.
  unfold chan_pv. intro H. apply bind_ok_inv in H as (w & _ & H). apply bind_ok_inv in H as (flt & _ & H).
  apply bind_ok_inv in H as (w' & _ & H). injection H as <-. reflexivity.
Qed.

Lemma forge_element_filters : forall s t e arrs,
  el_get_arrays e t = Ok arrs ->
  (forall p, In p arrs -> exists w flt w', chout_plan (snd p) = Ok w /\ filter_of s (fst p) = Ok flt /\ filt_wrap flt (seq_SR s) w = Ok w') ->
  exists off on,
    forge_elem_data s false t e = Ok (PDict off) /\ forge_elem_data s true t e = Ok (PDict on) /\
    map fst on = map fst off /\
    forall i p, nth_error arrs i = Some p ->
      exists w flt w', chout_plan (snd p) = Ok w /\ filter_of s (fst p) = Ok flt /\ filt_wrap flt (seq_SR s) w = Ok w' /\
        nth_error off i = Some (pv_of_chan (fst p), pv_of_chout (snd p) w) /\
        nth_error on i = Some (pv_of_chan (fst p), pv_of_chout (snd p) w').
Proof.
  intros s t e arrs Ha Hall.
  assert (forall fl, forge_elem_data s fl t e = do chs <- mapM (chan_pv s fl) arrs; Ok (PDict chs)) as FE.
  { intro fl. unfold forge_elem_data. rewrite Ha. reflexivity. }
  destruct (mapM_total (chan_pv s false) arrs) as (off & Hoff).
  { intros p Hp. destruct (Hall p Hp) as (w & flt & w' & A & B & C). unfold chan_pv. rewrite A. cbn [bind filt_wrap].
    eexists. reflexivity. }
  destruct (mapM_total (chan_pv s true) arrs) as (on & Hon).
  { intros p Hp. destruct (Hall p Hp) as (w & flt & w' & A & B & C). unfold chan_pv. rewrite A. cbn [bind].
    rewrite B. cbn [bind]. rewrite C. cbn [bind]. eexists. reflexivity. }
  exists off, on. rewrite !FE, Hoff, Hon. cbn [bind].
  split; [reflexivity|]. split; [reflexivity|]. split.
  - rewrite (mapM_map_fst _ (fun p => pv_of_chan (fst p)) fst (chan_pv_fst s true) _ _ Hon).
    rewrite (mapM_map_fst _ (fun p => pv_of_chan (fst p)) fst (chan_pv_fst s false) _ _ Hoff). reflexivity.
  - intros i p Hi. destruct (Hall p (nth_error_In _ _ Hi)) as (w & flt & w' & A & B & C).
    exists w, flt, w'. repeat split; auto.
    + destruct (mapM_nth _ _ _ Hoff) as [_ N]. destruct (N i p Hi) as (y & Hy & Hf).
      unfold chan_pv in Hf. rewrite A in Hf. cbn [bind filt_wrap] in Hf. injection Hf as <-. exact Hy.
    + destruct (mapM_nth _ _ _ Hon) as [_ N]. destruct (N i p Hi) as (y & Hy & Hf).
      unfold chan_pv in Hf. rewrite A in Hf. cbn [bind] in Hf. rewrite B in Hf. cbn [bind] in Hf.
      rewrite C in Hf. cbn [bind] in Hf. injection Hf as <-. exact Hy.
Qed.

(* ---------- the blueprint part of a delay ---------- *)
(* what shift_waits computes when it succeeds *)
Fixpoint shift_args (fs : list fn) (ars : list (list val)) (d : Q) : list (list val) :=
  match fs, ars with
  | f :: fs', a :: ars' =>
      (if fn_eqb f Fwait then match a with VNum w :: _ => [VNum (w + d)] | _ => a end else a)
      :: shift_args fs' ars' d
  | _, _ => ars
  end.

Lemma shift_waits_spec : forall fs ars d r, shift_waits fs ars d = Ok r -> r = shift_args fs ars d.
Proof.
  induction fs as [|f fs IH]; intros ars d r H.
  - cbn in H. injection H as <-. reflexivity.
  - destruct ars as [|a ars]; [cbn in H; injection H as <-; reflexivity|].
    cbn [shift_waits] in H. apply bind_ok_inv in H as (r0 & Hr0 & H). apply IH in Hr0. subst r0.
    cbn [shift_args]. destruct (fn_eqb f Fwait).
    + destruct a as [|[w|x|] rest]; try discriminate. injection H as <-. reflexivity.
    + injection H as <-. reflexivity.
Qed.

Lemma shift_waits_ok : forall fs ars d,
  Forall2 (fun f a => fn_eqb f Fwait = true -> exists w, a = [VNum w]) fs ars ->
  shift_waits fs ars d = Ok (shift_args fs ars d).
Proof.
  intros fs ars d H. induction H as [|f a fs ars Hfa HF IH]; [reflexivity|].
  cbn [shift_waits shift_args]. rewrite IH. cbn [bind].
  destruct (fn_eqb f Fwait) eqn:E; [|reflexivity].
  destruct (Hfa eq_refl) as (w & ->). reflexivity.
Qed.

Lemma shift_args_length : forall fs ars d, length (shift_args fs ars d) = length ars.
Proof.
  induction fs as [|f fs IH]; intros ars d; [reflexivity|].
  destruct ars as [|a ars]; [reflexivity|]. cbn [shift_args length]. rewrite IH. reflexivity.
Qed.

Lemma shift_args_nth_nowait : forall fs ars d k f a,
  nth_error fs k = Some f -> fn_eqb f Fwait = false -> nth_error ars k = Some a ->
  nth_error (shift_args fs ars d) k = Some a.
Proof.
  induction fs as [|f0 fs IH]; intros ars d k f a Hf Hn Ha; [destruct k; discriminate|].
  destruct ars as [|a0 ars]; [destruct k; discriminate|].
  cbn [shift_args]. destruct k as [|k]; cbn in Hf, Ha |- *.
  - injection Hf as ->. injection Ha as ->. rewrite Hn. reflexivity.
  - eapply IH; eauto.
Qed.

Lemma Qplus_0_r_eq (w : Q) : (w + 0)%Q = w.
Proof.
  destruct w as [n p]. unfold Qplus. cbn [Qnum Qden]. rewrite Z.mul_1_r, Z.add_0_r, Pos.mul_1_r. reflexivity.
Qed.

Lemma shift_args_zero : forall fs ars,
  Forall2 (fun f a => fn_eqb f Fwait = true -> exists w, a = [VNum w]) fs ars -> shift_args fs ars 0 = ars.
Proof.
  intros fs ars H. induction H as [|f a fs ars Hfa HF IH]; [reflexivity|].
  cbn [shift_args]. rewrite IH. destruct (fn_eqb f Fwait) eqn:E; [|reflexivity].
  destruct (Hfa eq_refl) as (w & ->). rewrite Qplus_0_r_eq. reflexivity.
Qed.

Lemma set_args_same b : set_args b (args b) = b.
Proof. destruct b. reflexivity. Qed.

Lemma zero_delay_bp : forall b, bp_wf b -> delay_bp b 0 0 = Ok b.
Proof.
  intros b (La & Ld & HF). unfold delay_bp. rewrite (shift_waits_ok _ _ _ HF), (shift_args_zero _ _ HF).
  cbn [bind]. destruct (Qlt_le_dec 0 0) as [L|L]; [exfalso; lra|].
  destruct (Qlt_le_dec 0 (0 - 0)) as [L'|L']; [exfalso; lra|].
  rewrite set_args_same. reflexivity.
Qed.

(* insertSegment at the front and at the end, on the three lists that forging reads *)
Lemma bp_insert_front b f a dv :
  let b' := fst (bp_insert b 0 f a dv None) in
  funs b' = f :: funs b /\ args b' = a :: args b /\ durs b' = dv :: durs b /\
  length (names b') = S (length (names b)).
Proof.
  cbv zeta. repeat split.
  change (names (fst (bp_insert b 0 f a dv None))) with (uniquify (ins 0 (fn_name f) (names b))).
  rewrite uniquify_length, ins_length. reflexivity.
Qed.

Lemma bp_insert_back b f a dv :
  let b' := fst (bp_insert b (-1) f a dv None) in
  ((length (funs b) <= length (names b))%nat -> funs b' = funs b ++ [f]) /\
  ((length (args b) <= length (names b))%nat -> args b' = args b ++ [a]) /\
  ((length (durs b) <= length (names b))%nat -> durs b' = durs b ++ [dv]).
Proof.
  cbv zeta. repeat split; intro L.
  - change (funs (fst (bp_insert b (-1) f a dv None))) with (ins (length (names b)) f (funs b)).
    apply ins_end. exact L.
  - change (args (fst (bp_insert b (-1) f a dv None))) with (ins (length (names b)) a (args b)).
    apply ins_end. exact L.
  - change (durs (fst (bp_insert b (-1) f a dv None))) with (ins (length (names b)) dv (durs b)).
    apply ins_end. exact L.
Qed.

Lemma delay_bp_lists : forall b d M ars',
  shift_waits (funs b) (args b) d = Ok ars' ->
  (length (funs b) <= length (names b))%nat -> (length ars' <= length (names b))%nat ->
  exists b', delay_bp b d M = Ok b' /\
    funs b' = (if Qlt_le_dec 0 d then [Fwait] else []) ++ funs b
              ++ (if Qlt_le_dec 0 (M - d) then [Framp] else []) /\
    args b' = (if Qlt_le_dec 0 d then [[VNum d]] else []) ++ ars'
              ++ (if Qlt_le_dec 0 (M - d) then [[VNum 0; VNum 0]] else []) /\
    ((length (durs b) <= length (names b))%nat ->
     durs b' = (if Qlt_le_dec 0 d then [VStr (S_ "waituntil")] else []) ++ durs b
               ++ (if Qlt_le_dec 0 (M - d) then [VNum (M - d)] else [])).
Proof.
  intros b d M ars' Hs Lf La. unfold delay_bp. rewrite Hs. cbn [bind].
  eexists. split; [reflexivity|].
  set (b1 := set_args b ars').
  assert (funs b1 = funs b /\ args b1 = ars' /\ durs b1 = durs b /\ names b1 = names b) as (F1 & A1 & D1 & N1)
    by (repeat split; reflexivity).
  set (b2 := if Qlt_le_dec 0 d then fst (bp_insert b1 0 Fwait [VNum d] (VStr (S_ "waituntil")) None) else b1).
  assert (funs b2 = (if Qlt_le_dec 0 d then [Fwait] else []) ++ funs b /\
          args b2 = (if Qlt_le_dec 0 d then [[VNum d]] else []) ++ ars' /\
          durs b2 = (if Qlt_le_dec 0 d then [VStr (S_ "waituntil")] else []) ++ durs b /\
          (length (funs b2) <= length (names b2))%nat /\ (length (args b2) <= length (names b2))%nat /\
          ((length (durs b) <= length (names b))%nat -> (length (durs b2) <= length (names b2))%nat))
    as (F2 & A2 & D2 & Lf2 & La2 & Ld2).
  { subst b2. destruct (Qlt_le_dec 0 d) as [L|L].
    - destruct (bp_insert_front b1 Fwait [VNum d] (VStr (S_ "waituntil"))) as (F & A & D & N).
      rewrite F, A, D, N, F1, A1, D1, N1. cbn [app length]. repeat split; lia.
    - rewrite F1, A1, D1, N1. cbn [app]. repeat split; try reflexivity; auto. }
  destruct (Qlt_le_dec 0 (M - d)) as [L|L].
  - destruct (bp_insert_back b2 Framp [VNum 0; VNum 0] (VNum (M - d))) as (F & A & D).
    rewrite (F Lf2), (A La2), F2, A2, <- !app_assoc. repeat split; try reflexivity.
    intro Ld. rewrite (D (Ld2 Ld)), D2, <- !app_assoc. reflexivity.
  - rewrite F2, A2, D2, !app_nil_r. repeat split; reflexivity.
Qed.

Lemma padding_args : forall b d M b',
  length (names b) = length (funs b) -> length (args b) = length (funs b) ->
  delay_bp b d M = Ok b' ->
  (0 < M - d -> exists pre, args b' = pre ++ [[VNum 0; VNum 0]] /\ funs b' = removelast (funs b') ++ [Framp]) /\
  (forall k f a, nth_error (funs b) k = Some f -> fn_eqb f Fwait = false -> nth_error (args b) k = Some a ->
     nth_error (args b') (if Qlt_le_dec 0 d then S k else k) = Some a).
Proof.
  intros b d M b' Ln La H.
  assert (exists ars', shift_waits (funs b) (args b) d = Ok ars') as (ars' & Hs).
  { unfold delay_bp in H. apply bind_ok_inv in H as (ars' & Hs & _). exists ars'. exact Hs. }
  pose proof (shift_waits_spec _ _ _ _ Hs) as Ea.
  assert (length ars' = length (args b)) as La' by (rewrite Ea; apply shift_args_length).
  destruct (delay_bp_lists b d M ars' Hs) as (b'' & Hb & F & A & _); try lia.
  rewrite H in Hb. injection Hb as <-. split.
  - intro HM. destruct (Qlt_le_dec 0 (M - d)) as [L|L]; [|exfalso; lra].
    exists ((if Qlt_le_dec 0 d then [[VNum d]] else []) ++ ars'). split.
    + rewrite A, app_assoc. reflexivity.
    + rewrite F, !app_assoc, removelast_last. reflexivity.
  - intros k f a Hf Hn Ha.
    assert (nth_error ars' k = Some a) as Hk by (rewrite Ea; eapply shift_args_nth_nowait; eauto).
    assert (k < length ars')%nat as Hlt by (apply nth_error_Some; congruence).
    rewrite A. destruct (Qlt_le_dec 0 d) as [L|L]; cbn [app nth_error]; rewrite nth_error_app1 by exact Hlt; exact Hk.
Qed.

Lemma delay_example :
  let b := mkBp [S_ "ramp"; S_ "waituntil"; S_ "ua"] [Framp; Fwait; Fua] [[VNum 0; VNum 1]; [VNum (10 # 100)]; [VNum 1]]
                [VNum (4 # 100); VNone; VNum (3 # 100)] [(0,0); (0,0); (0,0)] [(0,0); (0,0); (0,0)] [] [] (VNum 100) in
  bp_wf b /\
  exists b' f', delay_bp b (3 # 100) (5 # 100) = Ok b' /\ forge_bp_with b' 100 (durs b') = Ok f' /\
                map bn (fblocks f') = [3; 4; 6; 3; 2]%Z /\ map bfn (fblocks f') = [Fwait; Framp; Fwait; Fua; Framp].
Proof.
  intro b. split.
  - unfold bp_wf. split; [reflexivity|]. split; [reflexivity|].
    repeat constructor; cbn [fn_eqb]; intro H; try discriminate H. exists (10 # 100). reflexivity.
  - eexists. eexists. split; [vm_compute; reflexivity|]. split; [vm_compute; reflexivity|].
    split; vm_compute; reflexivity.
Qed.

(* ---------- forging the delayed blueprint ---------- *)
(* durations that agree up to == on Q *)
Definition veq (v v' : val) : Prop :=
  match v, v' with VNum q, VNum q' => q == q' | _, _ => v = v' end.

Definition acc_shift (d : Q) (o o' : option Q) : Prop :=
  match o, o' with Some el, Some el' => el' == el + d | None, None => True | _, _ => False end.

(* waituntil resolution is invariant under a common shift of targets and elapsed time *)
Lemma resolve_shift : forall d fs ars ds o o' rs,
  acc_shift d o o' -> resolve_waits_aux fs ars ds o = Ok rs ->
  exists rs', resolve_waits_aux fs (shift_args fs ars d) ds o' = Ok rs' /\ Forall2 veq rs rs'.
Proof.
  intros d. induction fs as [|f fs IH]; intros ars ds o o' rs Ho H.
  - cbn in H |- *. injection H as <-. exists []. split; [reflexivity | constructor].
  - destruct ars as [|a ars].
    { cbn in H |- *. injection H as <-. exists []. split; [reflexivity | constructor]. }
    destruct ds as [|d0 ds].
    { cbn in H |- *. injection H as <-. exists []. split; [reflexivity | constructor]. }
    cbn [resolve_waits_aux shift_args] in H |- *. destruct (fn_eqb f Fwait) eqn:Ef.
    + destruct o as [el|]; [|discriminate]. destruct o' as [el'|]; [|contradiction]. cbn in Ho.
      destruct a as [|v rest]; [discriminate|]. destruct v as [w|x|]; try discriminate.
      destruct (Qlt_le_dec (w - el) 0) as [L|L]; [discriminate|].
      apply bind_ok_inv in H as (r & Hr & Hk). injection Hk as <-.
      destruct (IH ars ds (Some w) (Some (w + d)) r) as (r' & Hr' & HF); [cbn; reflexivity | exact Hr |].
      destruct (Qlt_le_dec (w + d - el') 0) as [L'|L']; [exfalso; lra|].
      rewrite Hr'. cbn [bind]. exists (VNum (w + d - el') :: r'). split; [reflexivity|].
      constructor; [cbn; lra | exact HF].
    + apply bind_ok_inv in H as (r & Hr & Hk). injection Hk as <-.
      assert (acc_shift d (match o, d0 with Some el, VNum q => Some (el + q) | _, _ => None end)
                          (match o', d0 with Some el, VNum q => Some (el + q) | _, _ => None end)) as Ho'.
      { destruct o as [el|], o' as [el'|]; cbn in Ho |- *; try contradiction; destruct d0; cbn; auto. lra. }
      destruct (IH ars ds _ _ r Ho' Hr) as (r' & Hr' & HF).
      rewrite Hr'. cbn [bind]. exists (d0 :: r'). split; [reflexivity|].
      constructor; [destruct d0; cbn; reflexivity | exact HF].
Qed.

Lemma int_durs_veq SR : forall rs rs' ns, Forall2 veq rs rs' -> int_durs SR rs = Ok ns -> int_durs SR rs' = Ok ns.
Proof.
  intros rs rs' ns HF. revert ns. induction HF as [|v v' rs rs' Hv HF IH]; intros ns H; [exact H|].
  destruct v as [q|x|]; cbn [int_durs] in H; try discriminate.
  destruct v' as [q'|x'|]; cbn in Hv; try discriminate.
  cbn [int_durs]. rewrite <- (rnd_eq (q * SR) (q' * SR)) by (rewrite Hv; reflexivity).
  destruct (rnd (q * SR) <? 2)%Z; [discriminate|].
  apply bind_ok_inv in H as (r & Hr & Hk). rewrite (IH r Hr). exact Hk.
Qed.

Lemma mk_blocks_shift : forall fs ars ns SR bl d, mk_blocks fs ars ns SR = Ok bl ->
  exists bl', mk_blocks fs (shift_args fs ars d) ns SR = Ok bl'.
Proof.
  induction fs as [|f fs IH]; intros ars ns SR bl d H.
  - exists []. reflexivity.
  - destruct ars as [|a ars]; [exists []; reflexivity|].
    destruct ns as [|n ns]; [exists []; reflexivity|].
    cbn [mk_blocks shift_args] in H |- *.
    destruct (Nat.eqb (length a) (fn_arity f)) eqn:E; [|discriminate].
    apply bind_ok_inv in H as (r & Hr & _). destruct (IH ars ns SR r d Hr) as (r' & Hr').
    assert (Nat.eqb (length (if fn_eqb f Fwait then match a with VNum w :: _ => [VNum (w + d)] | _ => a end else a))
                    (fn_arity f) = true) as ->.
    { destruct (fn_eqb f Fwait) eqn:Ef; [|exact E]. apply fn_eqb_wait_true in Ef. subst f.
      destruct a as [|[w|x|] rest]; try exact E. reflexivity. }
    rewrite Hr'. cbn [bind]. eexists. reflexivity.
Qed.

Lemma middle_shift : forall SR d fs ars ds rs ns bl el',
  el' == 0 + d ->
  resolve_waits_aux fs ars ds (Some 0) = Ok rs -> int_durs SR rs = Ok ns -> mk_blocks fs ars ns SR = Ok bl ->
  exists rs' bl', resolve_waits_aux fs (shift_args fs ars d) ds (Some el') = Ok rs' /\ int_durs SR rs' = Ok ns /\
     mk_blocks fs (shift_args fs ars d) ns SR = Ok bl'.
Proof.
  intros SR d fs ars ds rs ns bl el' He H1 H2 H3.
  destruct (resolve_shift d fs ars ds (Some 0) (Some el') rs He H1) as (rs' & Hr' & HF).
  destruct (mk_blocks_shift fs ars ns SR bl d H3) as (bl' & Hb').
  exists rs', bl'. split; [exact Hr'|]. split; [eapply int_durs_veq; eauto | exact Hb'].
Qed.

(* a non-negative time that is a whole number k of samples is positive iff k is *)
Lemma pos_count : forall SR q k, 0 < SR -> 0 <= q -> q * SR == inject_Z k ->
  (0 < q -> (0 < k)%Z) /\ (q <= 0 -> k = 0%Z).
Proof.
  intros SR q k HSR Hq Hk. split; intro L.
  - assert (0 < q * SR) as P by (apply Qmult_lt_0_compat; assumption).
    rewrite Hk in P. change 0 with (inject_Z 0) in P. rewrite <- Zlt_Qlt in P. exact P.
  - assert (q == 0) as Z0 by lra. rewrite Z0 in Hk.
    assert (inject_Z 0 == inject_Z k) as E by (rewrite <- Hk; change (inject_Z 0) with 0; ring).
    symmetry. apply (proj1 (inject_Z_injective 0 k)). exact E.
Qed.

Lemma stage_front : forall SR d kd fs ars ds rs ns bl,
  0 < SR -> 0 <= d -> d * SR == inject_Z kd -> (kd = 0 \/ 2 <= kd)%Z ->
  resolve_waits_aux fs ars ds (Some 0) = Ok rs -> int_durs SR rs = Ok ns -> mk_blocks fs ars ns SR = Ok bl ->
  exists rs' bl',
    resolve_waits_aux ((if Qlt_le_dec 0 d then [Fwait] else []) ++ fs)
                      ((if Qlt_le_dec 0 d then [[VNum d]] else []) ++ shift_args fs ars d)
                      ((if Qlt_le_dec 0 d then [VStr (S_ "waituntil")] else []) ++ ds) (Some 0) = Ok rs' /\
    int_durs SR rs' = Ok ((if (0 <? kd)%Z then [kd] else []) ++ ns) /\
    mk_blocks ((if Qlt_le_dec 0 d then [Fwait] else []) ++ fs)
              ((if Qlt_le_dec 0 d then [[VNum d]] else []) ++ shift_args fs ars d)
              ((if (0 <? kd)%Z then [kd] else []) ++ ns) SR = Ok bl' /\
    (if Qlt_le_dec 0 d then true else false) = (0 <? kd)%Z.
Proof.
  intros SR d kd fs ars ds rs ns bl HSR Hd Hkd Hkd2 H1 H2 H3.
  destruct (pos_count SR d kd HSR Hd Hkd) as [Ppos Pzero].
  destruct (Qlt_le_dec 0 d) as [L|L].
  - assert (0 < kd)%Z as K by (apply Ppos; exact L).
    assert ((0 <? kd)%Z = true) as -> by (apply Z.ltb_lt; exact K).
    destruct (middle_shift SR d fs ars ds rs ns bl d) as (rs' & bl' & Hr' & Hi' & Hb'); auto; [ring|].
    exists (VNum (d - 0) :: rs'), (mkBlock Fwait [VNum d] SR kd :: bl'). cbn [app].
    split; [|split; [|split; [|reflexivity]]].
    + cbn [resolve_waits_aux fn_eqb]. destruct (Qlt_le_dec (d - 0) 0) as [L'|L']; [exfalso; lra|].
      rewrite Hr'. reflexivity.
    + cbn [int_durs].
      assert (rnd ((d - 0) * SR) = kd) as ->.
      { rewrite (rnd_eq ((d - 0) * SR) (d * SR)) by ring. apply rnd_whole. exact Hkd. }
      destruct (kd <? 2)%Z eqn:E; [apply Z.ltb_lt in E; lia|]. rewrite Hi'. reflexivity.
    + cbn [mk_blocks length fn_arity Nat.eqb]. rewrite Hb'. reflexivity.
  - assert (kd = 0%Z) as -> by (apply Pzero; exact L). cbn [Z.ltb Z.compare app].
    destruct (middle_shift SR d fs ars ds rs ns bl 0) as (rs' & bl' & Hr' & Hi' & Hb'); auto; [lra|].
    exists rs', bl'. auto.
Qed.

Lemma resolve_app_nowait : forall fs ars ds o rs f a x,
  length ars = length fs -> length ds = length fs -> fn_eqb f Fwait = false ->
  resolve_waits_aux fs ars ds o = Ok rs ->
  resolve_waits_aux (fs ++ [f]) (ars ++ [a]) (ds ++ [x]) o = Ok (rs ++ [x]).
Proof.
  induction fs as [|f0 fs IH]; intros ars ds o rs f a x La Ld Hf H.
  - destruct ars; [|discriminate]. destruct ds; [|discriminate]. cbn in H. injection H as <-.
    cbn [app resolve_waits_aux]. rewrite Hf. reflexivity.
  - destruct ars as [|a0 ars]; [discriminate|]. destruct ds as [|d0 ds]; [discriminate|].
    cbn in La, Ld. injection La as La. injection Ld as Ld.
    cbn [app resolve_waits_aux] in H |- *. destruct (fn_eqb f0 Fwait).
    + destruct o as [el|]; [|discriminate]. destruct a0 as [|v rest]; [discriminate|].
      destruct v as [w|y|]; try discriminate. destruct (Qlt_le_dec (w - el) 0); [discriminate|].
      apply bind_ok_inv in H as (r & Hr & Hk). injection Hk as <-.
      rewrite (IH ars ds _ r f a x La Ld Hf Hr). reflexivity.
    + apply bind_ok_inv in H as (r & Hr & Hk). injection Hk as <-.
      rewrite (IH ars ds _ r f a x La Ld Hf Hr). reflexivity.
Qed.

Lemma int_durs_app SR : forall rs ns q, int_durs SR rs = Ok ns -> (2 <= rnd (q * SR))%Z ->
  int_durs SR (rs ++ [VNum q]) = Ok (ns ++ [rnd (q * SR)]).
Proof.
  induction rs as [|v rs IH]; intros ns q H Hq.
  - cbn in H. injection H as <-. cbn [app int_durs].
    destruct (rnd (q * SR) <? 2)%Z eqn:E; [apply Z.ltb_lt in E; lia | reflexivity].
  - destruct v as [q0|y|]; cbn [int_durs] in H; try discriminate. cbn [app int_durs].
    destruct (rnd (q0 * SR) <? 2)%Z; [discriminate|].
    apply bind_ok_inv in H as (r & Hr & Hk). injection Hk as <-.
    rewrite (IH r q Hr Hq). reflexivity.
Qed.

Lemma mk_blocks_app : forall fs ars ns SR bl f a n,
  length ars = length fs -> length ns = length fs ->
  mk_blocks fs ars ns SR = Ok bl -> length a = fn_arity f ->
  mk_blocks (fs ++ [f]) (ars ++ [a]) (ns ++ [n]) SR = Ok (bl ++ [mkBlock f a SR n]).
Proof.
  induction fs as [|f0 fs IH]; intros ars ns SR bl f a n La Ln H Ha.
  - destruct ars; [|discriminate]. destruct ns; [|discriminate]. cbn in H. injection H as <-.
    cbn [app mk_blocks]. rewrite Ha, Nat.eqb_refl. reflexivity.
  - destruct ars as [|a0 ars]; [discriminate|]. destruct ns as [|n0 ns]; [discriminate|].
    cbn in La, Ln. injection La as La. injection Ln as Ln.
    cbn [app mk_blocks] in H |- *. destruct (Nat.eqb (length a0) (fn_arity f0)); [|discriminate].
    apply bind_ok_inv in H as (r & Hr & Hk). injection Hk as <-.
    rewrite (IH ars ns SR r f a n La Ln Hr Ha). reflexivity.
Qed.

Lemma stage_back : forall SR q kp fs ars ds rs ns bl,
  0 < SR -> 0 <= q -> q * SR == inject_Z kp -> (kp = 0 \/ 2 <= kp)%Z ->
  length ars = length fs -> length ds = length fs ->
  resolve_waits_aux fs ars ds (Some 0) = Ok rs -> int_durs SR rs = Ok ns -> mk_blocks fs ars ns SR = Ok bl ->
  exists rs' bl',
    resolve_waits_aux (fs ++ (if Qlt_le_dec 0 q then [Framp] else []))
                      (ars ++ (if Qlt_le_dec 0 q then [[VNum 0; VNum 0]] else []))
                      (ds ++ (if Qlt_le_dec 0 q then [VNum q] else [])) (Some 0) = Ok rs' /\
    int_durs SR rs' = Ok (ns ++ (if (0 <? kp)%Z then [kp] else [])) /\
    mk_blocks (fs ++ (if Qlt_le_dec 0 q then [Framp] else []))
              (ars ++ (if Qlt_le_dec 0 q then [[VNum 0; VNum 0]] else []))
              (ns ++ (if (0 <? kp)%Z then [kp] else [])) SR = Ok bl' /\
    (if Qlt_le_dec 0 q then true else false) = (0 <? kp)%Z.
Proof.
  intros SR q kp fs ars ds rs ns bl HSR Hq Hkp Hkp2 La Ld H1 H2 H3.
  destruct (pos_count SR q kp HSR Hq Hkp) as [Ppos Pzero].
  destruct (Qlt_le_dec 0 q) as [L|L].
  - assert (0 < kp)%Z as K by (apply Ppos; exact L).
    assert ((0 <? kp)%Z = true) as -> by (apply Z.ltb_lt; exact K).
    assert (rnd (q * SR) = kp) as Ek by (apply rnd_whole; exact Hkp).
    assert (length ns = length fs) as Ln.
    { destruct (int_durs_ok _ _ _ H2) as (_ & _ & Ln). rewrite Ln, (resolve_waits_length _ _ _ _ _ H1). lia. }
    exists (rs ++ [VNum q]), (bl ++ [mkBlock Framp [VNum 0; VNum 0] SR kp]).
    split; [|split; [|split; [|reflexivity]]].
    + apply resolve_app_nowait; auto.
    + rewrite <- Ek. apply int_durs_app; [exact H2 | lia].
    + apply mk_blocks_app; auto.
  - assert (kp = 0%Z) as -> by (apply Pzero; exact L). cbn [Z.ltb Z.compare]. rewrite !app_nil_r.
    exists rs, bl. auto.
Qed.

Lemma sumZ_app l1 l2 : sumZ (l1 ++ l2) = (sumZ l1 + sumZ l2)%Z.
Proof. unfold sumZ. induction l1 as [|x l1 IH]; cbn [app fold_right]; [reflexivity|]. rewrite IH. lia. Qed.

Lemma shift_blueprint : forall b SR d M f kd kp,
  0 < SR -> bp_wf b -> length (names b) = length (funs b) -> forge_bp_with b SR (durs b) = Ok f ->
  0 <= d -> d <= M ->
  d * SR == inject_Z kd -> (kd = 0 \/ 2 <= kd)%Z ->
  (M - d) * SR == inject_Z kp -> (kp = 0 \/ 2 <= kp)%Z ->
  exists b' f', delay_bp b d M = Ok b' /\ forge_bp_with b' SR (durs b') = Ok f' /\
    map bn (fblocks f') = (if (0 <? kd)%Z then [kd] else []) ++ map bn (fblocks f) ++ (if (0 <? kp)%Z then [kp] else []) /\
    map bfn (fblocks f') = (if (0 <? kd)%Z then [Fwait] else []) ++ map bfn (fblocks f) ++ (if (0 <? kp)%Z then [Framp] else []) /\
    fN f' = (kd + fN f + kp)%Z.
Proof.
  intros b SR d M f kd kp HSR (La & Ld & HF2) Ln Hf Hd HM Hkd Hkd2 Hkp Hkp2.
  (* the undelayed forging *)
  destruct (forge_blocks_in_order _ _ _ _ Hf La Ld) as (Bfn & _).
  destruct (forge_inv _ _ _ _ Hf) as (rs & ns & bl & H1 & H2 & H3 & Ef).
  assert (map bn (fblocks f) = ns /\ fN f = sumZ ns) as (Bn & BN).
  { destruct (forge_counts _ _ _ _ Hf) as (rs0 & ns0 & R1 & R2 & _ & _ & A & B & _).
    rewrite H1 in R1. injection R1 as <-. rewrite H2 in R2. injection R2 as <-. auto. }
  (* the delayed blueprint *)
  pose proof (shift_waits_ok _ _ d HF2) as Hs.
  destruct (delay_bp_lists b d M _ Hs) as (b' & Hb' & F & A & D);
    [lia | rewrite shift_args_length; lia |].
  specialize (D ltac:(lia)).
  (* front, then back *)
  destruct (stage_front SR d kd _ _ _ _ _ _ HSR Hd Hkd Hkd2 H1 H2 H3) as (rs1 & bl1 & R1 & I1 & B1 & T1).
  assert (0 <= M - d) as Hq by lra.
  assert (length ((if Qlt_le_dec 0 d then [[VNum d]] else []) ++ shift_args (funs b) (args b) d)
          = length ((if Qlt_le_dec 0 d then [Fwait] else []) ++ funs b)) as La1.
  { rewrite !app_length, shift_args_length. destruct (Qlt_le_dec 0 d); cbn [length]; lia. }
  assert (length ((if Qlt_le_dec 0 d then [VStr (S_ "waituntil")] else []) ++ durs b)
          = length ((if Qlt_le_dec 0 d then [Fwait] else []) ++ funs b)) as Ld1.
  { rewrite !app_length. destruct (Qlt_le_dec 0 d); cbn [length]; lia. }
  destruct (stage_back SR (M - d) kp _ _ _ _ _ _ HSR Hq Hkp Hkp2 La1 Ld1 R1 I1 B1)
    as (rs2 & bl2 & R2 & I2 & B2 & T2).
  repeat rewrite <- app_assoc in R2. repeat rewrite <- app_assoc in I2. repeat rewrite <- app_assoc in B2.
  assert (exists f', forge_bp_with b' SR (durs b') = Ok f') as (f' & Hf').
  { unfold forge_bp_with. rewrite F, A, D, R2. cbn [bind]. rewrite I2. cbn [bind]. rewrite B2. cbn [bind].
    eexists. reflexivity. }
  exists b', f'. split; [exact Hb'|]. split; [exact Hf'|].
  assert (length (args b') = length (funs b') /\ length (durs b') = length (funs b')) as (La' & Ld').
  { rewrite F, A, D, !app_length, shift_args_length.
    destruct (Qlt_le_dec 0 d), (Qlt_le_dec 0 (M - d)); cbn [length]; lia. }
  destruct (forge_blocks_in_order _ _ _ _ Hf' La' Ld') as (Bfn' & _).
  destruct (forge_counts _ _ _ _ Hf') as (rs0 & ns0 & Q1 & Q2 & _ & _ & Bn' & BN' & _).
  rewrite F, A, D, R2 in Q1. injection Q1 as <-. rewrite I2 in Q2. injection Q2 as <-.
  split; [rewrite Bn', Bn; reflexivity|]. split.
  - rewrite Bfn', Bfn, F. rewrite <- T1, <- T2.
    destruct (Qlt_le_dec 0 d), (Qlt_le_dec 0 (M - d)); reflexivity.
  - rewrite BN', BN, !sumZ_app.
    assert (forall k, (k = 0 \/ 2 <= k)%Z -> sumZ (if (0 <? k)%Z then [k] else []) = k) as S1.
    { intros k Hk. destruct (0 <? k)%Z eqn:E; [cbn; lia|]. apply Z.ltb_ge in E. cbn. lia. }
    rewrite (S1 kd Hkd2), (S1 kp Hkp2). lia.
Qed.

(* why C10_shift_blueprint and C10_padding_args carry length (names b) = length (funs b): insertSegment(-1) inserts at
   len(names); on a blueprint whose name list is shorter than its segment lists the padding lands in front *)
Lemma delay_needs_names :
  let b := mkBp [] [Fua] [[VNum 1]] [VNum 1] [(0,0)] [(0,0)] [] [] (VNum 100) in
  bp_wf b /\
  exists b' f f', forge_bp_with b 100 (durs b) = Ok f /\ delay_bp b 0 1 = Ok b' /\
    forge_bp_with b' 100 (durs b') = Ok f' /\
    map bfn (fblocks f) = [Fua] /\ map bfn (fblocks f') = [Framp; Fua] /\
    args b' = [[VNum 0; VNum 0]; [VNum 1]].
Proof.
  intro b. split.
  - unfold bp_wf. split; [reflexivity|]. split; [reflexivity|].
    repeat constructor; cbn [fn_eqb]; intro H; discriminate H.
  - eexists. eexists. eexists. split; [vm_compute; reflexivity|]. split; [vm_compute; reflexivity|].
    split; [vm_compute; reflexivity|]. repeat split; vm_compute; reflexivity.
Qed.

(* ---------- the quantifier's blind corner: paddings of exactly ONE sample (two open known findings) ----------
   C10 speaks of delays that are "whole numbers of samples"; `shift_blueprint` needs kd, kp in {0} U [2, oo).  For kd = 1
   or kp = 1 the statement is false of the faithful model - and of the code: the padding is built from blueprint
   segments and a segment needs at least two samples. *)
Definition one_sample_bp :=
  mkBp [S_ "ramp"] [Framp] [[VNum 0; VNum 1]] [VNum (4 # 100)] [(0,0)] [(0,0)] [] [] (VNum 100).

Lemma one_sample_bp_ok :
  bp_wf one_sample_bp /\ length (names one_sample_bp) = length (funs one_sample_bp) /\
  exists f, forge_bp_with one_sample_bp 100 (durs one_sample_bp) = Ok f.
Proof.
  split; [|split; [reflexivity|]].
  - unfold bp_wf. split; [reflexivity|]. split; [reflexivity|].
    repeat constructor; cbn [fn_eqb]; intro H; discriminate H.
  - eexists. vm_compute. reflexivity.
Qed.

(* delay of exactly one sample (d*SR = 1): the prepended waituntil(d) is one sample long *)
Lemma one_sample_pre_padding_refuted :
  exists b SR d M f, 0 < SR /\ bp_wf b /\ length (names b) = length (funs b) /\ forge_bp_with b SR (durs b) = Ok f /\
    0 <= d /\ d <= M /\ d * SR == inject_Z 1 /\ (M - d) * SR == inject_Z 2 /\
    exists b', delay_bp b d M = Ok b' /\ forge_bp_with b' SR (durs b') = Err ESegDur.
Proof.
  destruct one_sample_bp_ok as (W & L & f & Hf).
  exists one_sample_bp, 100, (1 # 100), (3 # 100), f.
  repeat (split; [first [exact W | exact L | exact Hf | reflexivity | discriminate]|]).
  eexists. split; vm_compute; reflexivity.
Qed.

(* delay exactly one sample below the maximum ((M-d)*SR = 1): the appended ramp(0,0) is one sample long *)
Lemma one_sample_post_padding_refuted :
  exists b SR d M f, 0 < SR /\ bp_wf b /\ length (names b) = length (funs b) /\ forge_bp_with b SR (durs b) = Ok f /\
    0 <= d /\ d <= M /\ d * SR == inject_Z 2 /\ (M - d) * SR == inject_Z 1 /\
    exists b', delay_bp b d M = Ok b' /\ forge_bp_with b' SR (durs b') = Err ESegDur.
Proof.
  destruct one_sample_bp_ok as (W & L & f & Hf).
  exists one_sample_bp, 100, (2 # 100), (3 # 100), f.
  repeat (split; [first [exact W | exact L | exact Hf | reflexivity | discriminate]|]).
  eexists. split; vm_compute; reflexivity.
Qed.
