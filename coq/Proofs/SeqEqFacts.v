(* Sequence equality also pins the data: equal sequences hold, at the same positions, entries that compare equal. *)
From Coq Require Import List ZArith QArith Bool Arith.
From BB Require Import Base.Num Model.Types Model.Blueprint Model.Element Model.Sequence Proofs.EqFacts.
Import ListNotations.

Lemma data_eqb_aux_true {E} (eeq : E -> E -> result bool) : forall l b,
  data_eqb_aux eeq l b = Ok true ->
  forall p x, In (p, x) l -> exists y, alookup Z.eqb p b = Some y /\ eeq x y = Ok true.
Proof.
  induction l as [|[p0 x0] t IH]; intros b H p x Hin; [contradiction|].
  cbn [data_eqb_aux] in H.
  destruct (alookup Z.eqb p0 b) as [y0|] eqn:EL; [|discriminate].
  destruct (eeq x0 y0) as [r|e] eqn:EE; unfold bind in H; [|discriminate].
  destruct r; [|discriminate].
  destruct Hin as [Heq | Hin].
  - injection Heq as <- <-. exists y0. split; [exact EL | exact EE].
  - exact (IH b H p x Hin).
Qed.

Lemma seq_eq_data : forall a b,
  seq_eqb a b = Ok true ->
  Nat.eqb (length (sdata a)) (length (sdata b)) = true /\
  forall p x, In (p, x) (sdata a) -> exists y, alookup Z.eqb p (sdata b) = Some y /\ entry_eqb x y = Ok true.
Proof.
  intros a b H. unfold seq_eqb, seqT_eqb in H.
  destruct (Nat.eqb (length (sdata a)) (length (sdata b))) eqn:EL.
  2:{ cbn in H. discriminate. }
  destruct (data_eqb_aux entry_eqb (sdata a) (sdata b)) as [d|e] eqn:ED; unfold bind in H; [|discriminate].
  destruct d; cbn [negb] in H; [|discriminate].
  split; [reflexivity|].
  exact (data_eqb_aux_true entry_eqb _ _ ED).
Qed.

(* in particular: a position filled on one side only makes the sequences unequal, whatever else agrees *)
Lemma seq_eq_missing_position : forall a b p x,
  In (p, x) (sdata a) -> alookup Z.eqb p (sdata b) = None -> seq_eqb a b <> Ok true.
Proof.
  intros a b p x Hin Hnone H. destruct (seq_eq_data a b H) as [_ Hd].
  destruct (Hd p x Hin) as (y & Hy & _). rewrite Hnone in Hy. discriminate.
Qed.
