(* Facts about the Element model (Model/Element.v) behind Props/C06.v.
   Definitions used by the property statements come first; lemmas follow. *)
From Coq Require Import String Ascii List Arith ZArith QArith Qabs Qround Bool Lia Lqa.
From BB Require Import Base.Names Base.Num Base.PyList Model.Types Model.Blueprint Model.Forge Model.Element
  Model.Sequence.
Import ListNotations.

(* a channel whose three validation quantities are defined, with a numeric rate >= 1 and a point count
   that is round(duration * rate) - true of blueprint channels (BluePrint.points) and of raw arrays *)
Definition chan_wf (ch : chentry) : Prop :=
  exists s d, ch_sr ch = Ok (VNum s) /\ (1 <= s)%Q /\ ch_duration ch = Ok d /\ ch_points ch = Ok (rnd (d * s)).

Definition same_rate (chs : list chentry) : Prop :=
  forall a b, In a chs -> In b chs -> exists x y, ch_sr a = Ok (VNum x) /\ ch_sr b = Ok (VNum y) /\ (x == y)%Q.

Definition same_points (chs : list chentry) : Prop :=
  forall a b, In a chs -> In b chs -> exists n, ch_points a = Ok n /\ ch_points b = Ok n.

(* ---- lemmas: to be proved (see Props/C06.v for the exact statements needed) ---- *)

From BB Require Import Proofs.ForgeFacts Proofs.WaitFacts.
Local Open Scope Q_scope.

(* ---------- generic helpers ---------- *)
Lemma rnd_proper x y : x == y -> rnd x = rnd y.
Proof.
  intro H. unfold rnd. rewrite (Qfloor_comp x y H).
  assert (x - inject_Z (Qfloor y) == y - inject_Z (Qfloor y)) as H' by (rewrite H; reflexivity).
  rewrite (Qcompare_comp _ _ H' _ _ (Qeq_refl (1 # 2))). reflexivity.
Qed.

Lemma mapM_inv {A B} (f : A -> result B) : forall l ys,
  mapM f l = Ok ys -> Forall2 (fun x y => f x = Ok y) l ys.
Proof.
  induction l as [|x t IH]; intros ys H.
  - cbn [mapM] in H. injection H as <-. constructor.
  - cbn [mapM] in H. apply bind_ok_inv in H as (y & Hy & H). cbv beta in H.
    apply bind_ok_inv in H as (r & Hr & H). cbv beta in H. injection H as <-.
    constructor; [exact Hy | apply IH; exact Hr].
Qed.

Lemma mapM_ok_map {A B C} (f : A -> result B) (g : C -> B) : forall l ps,
  Forall2 (fun x y => f x = Ok (g y)) l ps -> mapM f l = Ok (map g ps).
Proof.
  induction 1 as [|x y l ps Hxy HF IH].
  - reflexivity.
  - cbn [mapM map]. rewrite Hxy, IH. reflexivity.
Qed.

Lemma Forall2_in_l {A B} (R : A -> B -> Prop) : forall l ys x,
  Forall2 R l ys -> In x l -> exists y, In y ys /\ R x y.
Proof.
  induction 1 as [|a b l ys Hab HF IH]; intro Hin.
  - contradiction.
  - destruct Hin as [<- | Hin].
    + exists b. split; [left; reflexivity | exact Hab].
    + destruct (IH Hin) as (y & Hy & HR). exists y. split; [right; exact Hy | exact HR].
Qed.

Lemma Forall2_in_r {A B} (R : A -> B -> Prop) : forall l ys y,
  Forall2 R l ys -> In y ys -> exists x, In x l /\ R x y.
Proof.
  induction 1 as [|a b l ys Hab HF IH]; intro Hin.
  - contradiction.
  - destruct Hin as [<- | Hin].
    + exists a. split; [left; reflexivity | exact Hab].
    + destruct (IH Hin) as (x & Hx & HR). exists x. split; [right; exact Hx | exact HR].
Qed.

Lemma Forall2_impl2 {A B} (R R' : A -> B -> Prop) : (forall a b, R a b -> R' a b) ->
  forall l ys, Forall2 R l ys -> Forall2 R' l ys.
Proof. intros HR l ys H. induction H; constructor; auto. Qed.

Lemma el_str_eqb_refl a : str_eqb a a = true.
Proof. unfold str_eqb. destruct (list_eq_dec ascii_dec a a); [reflexivity | congruence]. Qed.

(* ---------- stage 2 is implied by stage 3 ---------- *)
Lemma stage2_redundant : forall S d d0,
  1 <= S -> ~ (Qabs (d - d0) <= S + (1 # 100000) * Qabs d0) -> rnd (d * S) <> rnd (d0 * S).
Proof.
  intros S d d0 HS Hn. apply rnd_far.
  apply Qnot_le_lt in Hn. pose proof (Qabs_nonneg d0) as P0.
  assert (S < Qabs (d - d0)) as H1 by lra.
  setoid_replace (d * S - d0 * S) with ((d - d0) * S) by ring.
  rewrite Qabs_Qmult. rewrite (Qabs_pos S) by lra.
  remember (Qabs (d - d0)) as A eqn:EA. clear EA Hn P0.
  nra.
Qed.
