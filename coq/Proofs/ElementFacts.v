(* Facts about the Element model (Model/Element.v) behind Props/C06.v.
   Definitions used by the property statements come first; lemmas follow. *)
From Coq Require Import String Ascii List Arith ZArith QArith Qabs Qround Bool Lia Lqa.
From BB Require Import Base.Names Base.Num Base.PyList Model.Types Model.Blueprint Model.Forge Model.Element
  Model.Sequence.
Import ListNotations.

(* a channel whose three validation quantities are defined, with a numeric rate >= 1 and a point count
   that is round(duration * rate) - true of blueprint channels (BluePrint.points) and of raw arrays *)
Definition chan_wf (ch : chentry) : Prop :=
  exists s d, ch_sr ch = Ok (VNum s) /\ (1 <= s)%Q /\ ch_duration ch = Ok d /\ ch_points ch = Ok (rnd (d * s)).

Definition same_rate (chs : list chentry) : Prop :=
  forall a b, In a chs -> In b chs -> exists x y, ch_sr a = Ok (VNum x) /\ ch_sr b = Ok (VNum y) /\ (x == y)%Q.

Definition same_points (chs : list chentry) : Prop :=
  forall a b, In a chs -> In b chs -> exists n, ch_points a = Ok n /\ ch_points b = Ok n.

(* ---- lemmas: to be proved (see Props/C06.v for the exact statements needed) ---- *)

From BB Require Import Proofs.ForgeFacts Proofs.WaitFacts.
Local Open Scope Q_scope.

(* ---------- generic helpers ---------- *)
Lemma rnd_proper x y : x == y -> rnd x = rnd y.
Proof.
  intro H. unfold rnd. rewrite (Qfloor_comp x y H).
  assert (x - inject_Z (Qfloor y) == y - inject_Z (Qfloor y)) as H' by (rewrite H; reflexivity).
  rewrite (Qcompare_comp _ _ H' _ _ (Qeq_refl (1 # 2))). reflexivity.
Qed.

Lemma mapM_inv {A B} (f : A -> result B) : forall l ys,
  mapM f l = Ok ys -> Forall2 (fun x y => f x = Ok y) l ys.
Proof.
  induction l as [|x t IH]; intros ys H.
  - cbn [mapM] in H. injection H as <-. constructor.
  - cbn [mapM] in H. apply bind_ok_inv in H as (y & Hy & H). cbv beta in H.
    apply bind_ok_inv in H as (r & Hr & H). cbv beta in H. injection H as <-.
    constructor; [exact Hy | apply IH; exact Hr].
Qed.

Lemma mapM_ok_map {A B C} (f : A -> result B) (g : C -> B) : forall l ps,
  Forall2 (fun x y => f x = Ok (g y)) l ps -> mapM f l = Ok (map g ps).
Proof.
  induction 1 as [|x y l ps Hxy HF IH].
  - reflexivity.
  - cbn [mapM map]. rewrite Hxy, IH. reflexivity.
Qed.

Lemma Forall2_in_l {A B} (R : A -> B -> Prop) : forall l ys x,
  Forall2 R l ys -> In x l -> exists y, In y ys /\ R x y.
Proof.
  induction 1 as [|a b l ys Hab HF IH]; intro Hin.
  - contradiction.
  - destruct Hin as [<- | Hin].
    + exists b. split; [left; reflexivity | exact Hab].
    + destruct (IH Hin) as (y & Hy & HR). exists y. split; [right; exact Hy | exact HR].
Qed.

Lemma Forall2_in_r {A B} (R : A -> B -> Prop) : forall l ys y,
  Forall2 R l ys -> In y ys -> exists x, In x l /\ R x y.
Proof.
  induction 1 as [|a b l ys Hab HF IH]; intro Hin.
  - contradiction.
  - destruct Hin as [<- | Hin].
    + exists a. split; [left; reflexivity | exact Hab].
    + destruct (IH Hin) as (x & Hx & HR). exists x. split; [right; exact Hx | exact HR].
Qed.

Lemma Forall2_impl2 {A B} (R R' : A -> B -> Prop) : (forall a b, R a b -> R' a b) ->
  forall l ys, Forall2 R l ys -> Forall2 R' l ys.
Proof. intros HR l ys H. induction H; constructor; auto. Qed.

Lemma el_str_eqb_refl a : str_eqb a a = true.
Proof. unfold str_eqb. destruct (list_eq_dec ascii_dec a a); [reflexivity | congruence]. Qed.

(* ---------- stage 2 is implied by stage 3 ---------- *)
Lemma stage2_redundant : forall S d d0,
  1 <= S -> ~ (Qabs (d - d0) <= S + (1 # 100000) * Qabs d0) -> rnd (d * S) <> rnd (d0 * S).
Proof.
  intros S d d0 HS Hn. apply rnd_far.
  apply Qnot_le_lt in Hn. pose proof (Qabs_nonneg d0) as P0.
  assert (S < Qabs (d - d0)) as H1 by lra.
  setoid_replace (d * S - d0 * S) with ((d - d0) * S) by ring.
  rewrite Qabs_Qmult. rewrite (Qabs_pos S) by lra.
  remember (Qabs (d - d0)) as A eqn:EA. clear EA Hn P0.
  nra.
Qed.

(* ---------- both kinds of channel count round(duration * SR) points ---------- *)
Lemma blueprint_points : forall b s d,
  sr b = VNum s -> bp_duration b = Ok d -> bp_points b = Ok (rnd (d * s)).
Proof. intros b s d Hs Hd. unfold bp_points. rewrite Hs, Hd. reflexivity. Qed.

Lemma array_points : forall arrs s w,
  arr_wfm arrs = Ok w -> ~ s == 0 -> (0 <= rle_len w)%Z ->
  ch_duration (mkCh (KArr arrs (Some (VNum s))) None) = Ok (inject_Z (rle_len w) / s) /\
  rnd (inject_Z (rle_len w) / s * s) = rle_len w.
Proof.
  intros arrs s w Hw Hs _. split.
  - unfold ch_duration. cbn [ckind]. rewrite Hw. cbn [bind].
    destruct (Qeq_bool s 0) eqn:E; [apply Qeq_bool_iff in E; contradiction | reflexivity].
  - apply rnd_whole. field. exact Hs.
Qed.

(* ---------- forged length = BluePrint.points ---------- *)
Lemma forged_length : forall b s rs ns d f,
  sr b = VNum s -> 0 < s -> resolve_waits b = Ok rs -> int_durs s rs = Ok ns -> sum_vals rs = Ok d ->
  has_wait b = true \/ rs = durs b ->
  Forall (fun v => exists q m, v = VNum q /\ q * s == inject_Z m) rs ->
  forge_bp_with b s (durs b) = Ok f ->
  bp_points b = Ok (fN f) /\ length (fm1 f) = Z.to_nat (fN f) /\ length (fm2 f) = Z.to_nat (fN f) /\
  d * s == inject_Z (fN f).
Proof.
  intros b s rs ns d f Hsr Hpos Hres Hint Hsum Hcase Hwhole Hforge.
  destruct (forge_counts b s (durs b) f Hforge) as (rs' & ns' & Hres' & Hint' & _ & _ & _ & HN & _).
  unfold resolve_waits in Hres. rewrite Hres in Hres'. injection Hres' as <-.
  rewrite Hint in Hint'. injection Hint' as <-.
  assert (bp_duration b = Ok d) as Hdur.
  { unfold bp_duration. destruct (has_wait b) eqn:Ew.
    - unfold resolve_waits. rewrite Hres. cbn [bind]. exact Hsum.
    - destruct Hcase as [Hc | Hc]; [discriminate | rewrite <- Hc; exact Hsum]. }
  pose proof (points_gen s rs ns d Hint Hsum Hwhole) as Hpts.
  destruct (forge_lengths unit (fun k => repeat tt (Z.to_nat (bn k))) b s (durs b) f
              (fun k => repeat_length tt (Z.to_nat (bn k))) Hforge) as (_ & L1 & L2 & _).
  rewrite HN. split; [| split; [| split]].
  - rewrite (blueprint_points b s d Hsr Hdur). f_equal. apply rnd_whole. exact Hpts.
  - rewrite L1, HN. reflexivity.
  - rewrite L2, HN. reflexivity.
  - exact Hpts.
Qed.

(* ---------- raw arrays come back as stored ---------- *)
Lemma arrays_as_stored : forall e c arrs asr fl out,
  In (c, mkCh (KArr arrs asr) fl) (edata e) -> el_get_arrays e false = Ok out -> In (c, OArr arrs None) out.
Proof.
  intros e c arrs asr fl out Hin Hget. unfold el_get_arrays in Hget.
  apply mapM_inv in Hget.
  destruct (Forall2_in_l _ _ _ _ Hget Hin) as (y & Hy & HR).
  cbn [snd fst] in HR. unfold ch_arrays in HR. cbn [ckind andb bind] in HR.
  injection HR as <-. exact Hy.
Qed.

(* ---------- addArray ---------- *)
Lemma add_markers_bad N : forall ms acc,
  (exists n a, In (n, a) ms /\ rle_len a <> N) -> snd (add_markers N ms acc) = false.
Proof.
  induction ms as [|[n0 a0] t IH]; intros acc (n & a & Hin & Hne).
  - contradiction.
  - cbn [add_markers]. destruct (rle_len a0 =? N)%Z eqn:E; [| reflexivity].
    apply IH. destruct Hin as [Heq | Hin].
    + injection Heq as -> ->. apply Z.eqb_eq in E. contradiction.
    + exists n, a. split; assumption.
Qed.

Lemma add_array_checks_markers : forall e c w SR ms,
  (exists n a, In (n, a) ms /\ rle_len a <> rle_len w) -> snd (el_add_array e c w SR ms) = Some EValue.
Proof.
  intros e c w SR ms H. unfold el_add_array.
  pose proof (add_markers_bad (rle_len w) ms [] H) as Hb.
  destruct (add_markers (rle_len w) ms []) as [arrs good]. cbn [snd] in Hb. subst good. reflexivity.
Qed.

Lemma aset_values {K V} (eqb : K -> K -> bool) (P : V -> Prop) k v : forall l,
  P v -> Forall (fun p => P (snd p)) l -> Forall (fun p => P (snd p)) (aset eqb k v l).
Proof.
  intros l Hv. induction 1 as [|[k' v'] t Hp HF IH].
  - cbn [aset]. constructor; [exact Hv | constructor].
  - cbn [aset]. destruct (eqb k k').
    + constructor; [exact Hv | exact HF].
    + constructor; [exact Hp | exact IH].
Qed.

Lemma alookup_in {K V} (eqb : K -> K -> bool) k (v : V) : forall l,
  alookup eqb k l = Some v -> exists k', In (k', v) l.
Proof.
  induction l as [|[k' v'] t IH]; cbn [alookup]; intro H; [discriminate|].
  destruct (eqb k k').
  - injection H as ->. exists k'. left. reflexivity.
  - destruct (IH H) as (k'' & Hk). exists k''. right. exact Hk.
Qed.

Lemma alookup_aset_same {K V} (eqb : K -> K -> bool) k (v : V) :
  eqb k k = true -> forall l, alookup eqb k (aset eqb k v l) = Some v.
Proof.
  intros Hr. induction l as [|[k' v'] t IH]; cbn [aset].
  - cbn [alookup]. rewrite Hr. reflexivity.
  - destruct (eqb k k') eqn:E; cbn [alookup].
    + rewrite Hr. reflexivity.
    + rewrite E. exact IH.
Qed.

Lemma add_markers_good N : forall ms acc,
  Forall (fun p => rle_len (snd p) = N) ms -> Forall (fun p : str * rle => rle_len (snd p) = N) acc ->
  exists arrs, add_markers N ms acc = (arrs, true) /\ Forall (fun p : str * rle => rle_len (snd p) = N) arrs.
Proof.
  induction ms as [|[n0 a0] t IH]; intros acc Hms Hacc.
  - exists acc. split; [reflexivity | exact Hacc].
  - apply Forall_cons_iff in Hms as [Hp Ht]. cbn [snd] in Hp. cbn [add_markers].
    rewrite Hp, Z.eqb_refl. apply IH; [exact Ht|].
    apply (aset_values str_eqb (fun a => rle_len a = N)); [exact Hp | exact Hacc].
Qed.

Lemma add_array_ok : forall e c w SR ms,
  Forall (fun p => rle_len (snd p) = rle_len w) ms ->
  exists arrs, el_add_array e c w SR ms = (el_set e c (mkCh (KArr arrs (Some SR)) None), None) /\
               arr_wfm arrs = Ok w /\
               forall n a, alookup str_eqb n arrs = Some a -> rle_len a = rle_len w.
Proof.
  intros e c w SR ms Hms.
  destruct (add_markers_good (rle_len w) ms [] Hms (Forall_nil _)) as (arrs & Hadd & Harrs).
  exists (aset str_eqb (S_ "wfm") w arrs). split; [| split].
  - unfold el_add_array. rewrite Hadd. reflexivity.
  - unfold arr_wfm. rewrite (alookup_aset_same str_eqb (S_ "wfm") w (el_str_eqb_refl _) arrs). reflexivity.
  - intros n a Hl. apply alookup_in in Hl as (k' & Hk).
    pose proof (aset_values str_eqb (fun a => rle_len a = rle_len w) (S_ "wfm") w arrs eq_refl Harrs) as HF.
    rewrite Forall_forall in HF. exact (HF _ Hk).
Qed.

(* ---------- a sequence never accepts an element that fails validation ---------- *)
Lemma sequence_validates : forall s pos e s' o,
  seq_add_element s pos e = (s', o) ->
  (o = None -> exists r, el_validate e = Ok r) /\ (forall er, o = Some er -> s' = s /\ el_validate e = Err er).
Proof.
  intros s pos e s' o H. unfold seq_add_element in H.
  destruct (el_validate e) as [r | er0] eqn:E.
  - unfold ok in H. injection H as <- <-. split; [intros _; exists r; reflexivity | intros er Her; discriminate].
  - unfold fail in H. injection H as <- <-. split; [intro Hd; discriminate |].
    intros er Her. injection Her as <-. split; reflexivity.
Qed.

(* ---------- validateDurations ---------- *)
Lemma el_validate_unfold e ch0 chs' :
  avals (edata e) = ch0 :: chs' ->
  el_validate e =
    (do SRs <- mapM ch_sr (ch0 :: chs');
     if negb (all_eq_first val_eqb SRs) then Err EElemDur else
     do ds <- mapM ch_duration (ch0 :: chs');
     do atol <- (if existsb val_is_none SRs then Ok (1 # 1000000000)%Q else min_sr SRs);
     if negb (allclose ds atol) then Err EElemDur else
     do ns <- mapM ch_points (ch0 :: chs');
     if negb (all_eq_first Z.eqb ns) then Err EElemDur else
     Ok (hd VNone SRs, hd 0%Q ds)).
Proof. intro H. unfold el_validate. rewrite H. reflexivity. Qed.

Lemma all_eq_first_cons {A} (eqb : A -> A -> bool) x t :
  all_eq_first eqb (x :: t) = true <-> forall y, In y (x :: t) -> eqb x y = true.
Proof. unfold all_eq_first. apply forallb_forall. Qed.

Lemma validate_accepted : forall e s d,
  el_validate e = Ok (s, d) ->
  exists n, el_points e = Ok n /\ el_sr e = Ok s /\ el_duration e = Ok d /\
    forall c ch, In (c, ch) (edata e) -> ch_points ch = Ok n /\ exists x, ch_sr ch = Ok x /\ val_eqb s x = true.
Proof.
  intros e s d Hval. pose proof Hval as H.
  destruct (avals (edata e)) as [|ch0 chs'] eqn:Echs.
  { unfold el_validate in H. rewrite Echs in H. discriminate. }
  rewrite (el_validate_unfold e ch0 chs' Echs) in H.
  apply bind_ok_inv in H as (SRs & HSR & H). cbv beta in H.
  destruct (all_eq_first val_eqb SRs) eqn:E1; cbn [negb] in H; [| discriminate].
  apply bind_ok_inv in H as (ds & HD & H). cbv beta in H.
  apply bind_ok_inv in H as (atol & _ & H). cbv beta in H.
  destruct (allclose ds atol); cbn [negb] in H; [| discriminate].
  apply bind_ok_inv in H as (ns & HN & H). cbv beta in H.
  destruct (all_eq_first Z.eqb ns) eqn:E3; cbn [negb] in H; [| discriminate].
  injection H as Hs Hd.
  apply mapM_inv in HSR, HN.
  inversion HSR as [|? s0 ? SRs' Hs0 HSR']; subst. cbn [hd] in Hval |- *.
  inversion HN as [|? n0 ? ns' Hn0 HN']; subst.
  exists n0. split; [| split; [| split]].
  - unfold el_points. rewrite Hval, Echs. cbn [bind]. exact Hn0.
  - unfold el_sr. rewrite Hval. reflexivity.
  - unfold el_duration. rewrite Hval. reflexivity.
  - intros c ch Hin.
    assert (In ch (ch0 :: chs')) as Hin'.
    { rewrite <- Echs. unfold avals. apply (in_map snd) in Hin. exact Hin. }
    split.
    + destruct (Forall2_in_l _ _ _ _ HN Hin') as (n & Hn & Hpn).
      apply all_eq_first_cons with (y := n) in E3; [| exact Hn].
      apply Z.eqb_eq in E3. subst n. exact Hpn.
    + destruct (Forall2_in_l _ _ _ _ HSR Hin') as (x & Hx & Hsx).
      exists x. split; [exact Hsx |].
      apply all_eq_first_cons with (y := x) in E1; [exact E1 | exact Hx].
Qed.

(* the data the well-formedness hypothesis provides per channel: (rate, duration) *)
Definition Rwf (ch : chentry) (p : Q * Q) : Prop :=
  ch_sr ch = Ok (VNum (fst p)) /\ 1 <= fst p /\ ch_duration ch = Ok (snd p) /\
  ch_points ch = Ok (rnd (snd p * fst p)).

Definition gS (p : Q * Q) : val := VNum (fst p).
Definition gN (p : Q * Q) : Z := rnd (snd p * fst p).

Lemma wf_pairs : forall chs, Forall chan_wf chs -> exists ps, Forall2 Rwf chs ps.
Proof.
  induction 1 as [|ch chs (s & d & H1 & H2 & H3 & H4) HF (ps & IH)].
  - exists []. constructor.
  - exists ((s, d) :: ps). constructor; [| exact IH]. unfold Rwf. cbn [fst snd]. auto.
Qed.

Lemma no_none_rates ps : existsb val_is_none (map gS ps) = false.
Proof. induction ps as [|p ps IH]; [reflexivity | cbn [map existsb gS val_is_none orb]; exact IH]. Qed.

Lemma min_sr_cons2 q v t :
  min_sr (VNum q :: v :: t) = (do m <- min_sr (v :: t); Ok (if Qle_bool q m then q else m)).
Proof. reflexivity. Qed.

Lemma min_sr_rates : forall ps p0, exists m, min_sr (map gS (p0 :: ps)) = Ok m /\ In m (map fst (p0 :: ps)).
Proof.
  induction ps as [|p1 ps IH]; intro p0.
  - exists (fst p0). split; [reflexivity | left; reflexivity].
  - destruct (IH p1) as (m & Hm & Hin).
    change (map gS (p0 :: p1 :: ps)) with (VNum (fst p0) :: gS p1 :: map gS ps).
    rewrite min_sr_cons2. change (gS p1 :: map gS ps) with (map gS (p1 :: ps)). rewrite Hm. cbn [bind].
    destruct (Qle_bool (fst p0) m).
    + exists (fst p0). split; [reflexivity | left; reflexivity].
    + exists m. split; [reflexivity | right; exact Hin].
Qed.

Lemma stage1_iff chs p0 ps' :
  Forall2 Rwf chs (p0 :: ps') ->
  (same_rate chs <-> all_eq_first val_eqb (map gS (p0 :: ps')) = true).
Proof.
  intro HF. change (map gS (p0 :: ps')) with (gS p0 :: map gS ps').
  rewrite all_eq_first_cons. change (gS p0 :: map gS ps') with (map gS (p0 :: ps')). split.
  - intros Hsr v Hv. apply in_map_iff in Hv as (p & <- & Hp).
    destruct (Forall2_in_r _ _ _ _ HF (or_introl eq_refl)) as (c0 & Hc0 & R0 & _).
    destruct (Forall2_in_r _ _ _ _ HF Hp) as (c & Hc & R & _).
    destruct (Hsr c0 c Hc0 Hc) as (x & y & Hx & Hy & Hxy).
    rewrite R0 in Hx. rewrite R in Hy. injection Hx as <-. injection Hy as <-.
    unfold gS. cbn [val_eqb]. apply Qeq_bool_iff. exact Hxy.
  - intros H a b Ha Hb.
    destruct (Forall2_in_l _ _ _ _ HF Ha) as (pa & Hpa & Ra & _).
    destruct (Forall2_in_l _ _ _ _ HF Hb) as (pb & Hpb & Rb & _).
    exists (fst pa), (fst pb). split; [exact Ra | split; [exact Rb |]].
    pose proof (H (gS pa) (in_map gS _ _ Hpa)) as Ea.
    pose proof (H (gS pb) (in_map gS _ _ Hpb)) as Eb.
    unfold gS in Ea, Eb. cbn [val_eqb] in Ea, Eb. apply Qeq_bool_iff in Ea, Eb.
    rewrite <- Ea, <- Eb. reflexivity.
Qed.

Lemma stage3_iff chs p0 ps' :
  Forall2 Rwf chs (p0 :: ps') ->
  (same_points chs <-> all_eq_first Z.eqb (map gN (p0 :: ps')) = true).
Proof.
  intro HF. change (map gN (p0 :: ps')) with (gN p0 :: map gN ps').
  rewrite all_eq_first_cons. change (gN p0 :: map gN ps') with (map gN (p0 :: ps')). split.
  - intros Hsp v Hv. apply in_map_iff in Hv as (p & <- & Hp).
    destruct (Forall2_in_r _ _ _ _ HF (or_introl eq_refl)) as (c0 & Hc0 & _ & _ & _ & R0).
    destruct (Forall2_in_r _ _ _ _ HF Hp) as (c & Hc & _ & _ & _ & R).
    destruct (Hsp c0 c Hc0 Hc) as (n & Hx & Hy).
    rewrite R0 in Hx. rewrite R in Hy. injection Hx as <-. injection Hy as Hy.
    apply Z.eqb_eq. unfold gN. symmetry. exact Hy.
  - intros H a b Ha Hb.
    destruct (Forall2_in_l _ _ _ _ HF Ha) as (pa & Hpa & _ & _ & _ & Ra).
    destruct (Forall2_in_l _ _ _ _ HF Hb) as (pb & Hpb & _ & _ & _ & Rb).
    pose proof (H (gN pa) (in_map gN _ _ Hpa)) as Ea.
    pose proof (H (gN pb) (in_map gN _ _ Hpb)) as Eb.
    apply Z.eqb_eq in Ea, Eb. exists (gN p0). split.
    + rewrite Ra. f_equal. symmetry. exact Ea.
    + rewrite Rb. f_equal. symmetry. exact Eb.
Qed.

Lemma stage2_implied chs p0 ps' m :
  Forall2 Rwf chs (p0 :: ps') ->
  all_eq_first val_eqb (map gS (p0 :: ps')) = true ->
  all_eq_first Z.eqb (map gN (p0 :: ps')) = true ->
  In m (map fst (p0 :: ps')) ->
  allclose (map snd (p0 :: ps')) m = true.
Proof.
  intros HF H1 H3 Hm.
  change (map gS (p0 :: ps')) with (gS p0 :: map gS ps') in H1.
  change (map gN (p0 :: ps')) with (gN p0 :: map gN ps') in H3.
  rewrite all_eq_first_cons in H1. rewrite all_eq_first_cons in H3.
  change (gS p0 :: map gS ps') with (map gS (p0 :: ps')) in H1.
  change (gN p0 :: map gN ps') with (map gN (p0 :: ps')) in H3.
  assert (forall p, In p (p0 :: ps') -> fst p0 == fst p) as Hrate.
  { intros p Hp. pose proof (H1 _ (in_map gS _ _ Hp)) as E. unfold gS in E. cbn [val_eqb] in E.
    apply Qeq_bool_iff in E. exact E. }
  assert (forall p, In p (p0 :: ps') -> gN p0 = gN p) as Hcnt.
  { intros p Hp. apply Z.eqb_eq. exact (H3 _ (in_map gN _ _ Hp)). }
  apply in_map_iff in Hm as (pm & <- & Hpm).
  assert (1 <= fst pm) as Hm1.
  { destruct (Forall2_in_r _ _ _ _ HF Hpm) as (c & _ & _ & Hge & _). exact Hge. }
  change (map snd (p0 :: ps')) with (snd p0 :: map snd ps'). unfold allclose.
  change (snd p0 :: map snd ps') with (map snd (p0 :: ps')).
  apply forallb_forall. intros d Hd. apply in_map_iff in Hd as (p & <- & Hp).
  destruct (Qle_bool (Qabs (snd p - snd p0)) (fst pm + (1 # 100000) * Qabs (snd p0))) eqn:E; [reflexivity|].
  exfalso.
  assert (~ Qabs (snd p - snd p0) <= fst pm + (1 # 100000) * Qabs (snd p0)) as Hn.
  { intro A. apply Qle_bool_iff in A. congruence. }
  apply (stage2_redundant (fst pm) (snd p) (snd p0) Hm1 Hn).
  pose proof (Hrate p Hp) as Ep. pose proof (Hrate pm Hpm) as Em. pose proof (Hcnt p Hp) as Ec.
  unfold gN in Ec.
  rewrite (rnd_proper (snd p * fst pm) (snd p * fst p)) by (rewrite <- Em, <- Ep; reflexivity).
  rewrite (rnd_proper (snd p0 * fst pm) (snd p0 * fst p0)) by (rewrite <- Em; reflexivity).
  symmetry. exact Ec.
Qed.

Lemma validate_iff : forall e,
  edata e <> [] -> Forall chan_wf (avals (edata e)) ->
  ((exists r, el_validate e = Ok r) <-> (same_rate (avals (edata e)) /\ same_points (avals (edata e)))) /\
  ((exists r, el_validate e = Ok r) \/ el_validate e = Err EElemDur).
Proof.
  intros e Hne Hwf.
  destruct (avals (edata e)) as [|ch0 chs'] eqn:Echs.
  { destruct (edata e); [congruence | discriminate]. }
  destruct (wf_pairs _ Hwf) as (ps & HF).
  destruct ps as [|p0 ps']; [inversion HF|].
  assert (mapM ch_sr (ch0 :: chs') = Ok (map gS (p0 :: ps'))) as M1.
  { apply mapM_ok_map. eapply Forall2_impl2; [| exact HF]. intros a b (R & _). exact R. }
  assert (mapM ch_duration (ch0 :: chs') = Ok (map snd (p0 :: ps'))) as M2.
  { apply mapM_ok_map. eapply Forall2_impl2; [| exact HF]. intros a b (_ & _ & R & _). exact R. }
  assert (mapM ch_points (ch0 :: chs') = Ok (map gN (p0 :: ps'))) as M3.
  { apply mapM_ok_map. eapply Forall2_impl2; [| exact HF]. intros a b (_ & _ & _ & R). exact R. }
  destruct (min_sr_rates ps' p0) as (m & Hmin & Hm).
  pose proof (stage1_iff _ _ _ HF) as S1.
  pose proof (stage3_iff _ _ _ HF) as S3.
  pose proof (fun A B => stage2_implied _ _ _ m HF A B Hm) as S2.
  rewrite (el_validate_unfold e ch0 chs' Echs), M1, M2, M3. cbn [bind].
  rewrite no_none_rates, Hmin. cbn [bind].
  destruct (all_eq_first val_eqb (map gS (p0 :: ps'))) eqn:E1; cbn [negb].
  2:{ split; [| right; reflexivity]. split.
      - intros (r & Hr). discriminate.
      - intros (A & _). apply S1 in A. discriminate. }
  destruct (all_eq_first Z.eqb (map gN (p0 :: ps'))) eqn:E3.
  - rewrite (S2 eq_refl eq_refl). cbn [negb]. split; [| left; eexists; reflexivity]. split.
    + intros _. split; [apply S1 | apply S3]; reflexivity.
    + intros _. eexists; reflexivity.
  - assert ((if negb (allclose (map snd (p0 :: ps')) m) then Err EElemDur
             else if negb false then Err EElemDur else Ok (hd VNone (map gS (p0 :: ps')), hd 0 (map snd (p0 :: ps'))))
            = @Err (val * Q) EElemDur) as ->.
    { destruct (allclose (map snd (p0 :: ps')) m); reflexivity. }
    split; [| right; reflexivity]. split.
    + intros (r & Hr). discriminate.
    + intros (_ & B). apply S3 in B. discriminate.
Qed.

(* ---------- non-vacuity ---------- *)
Lemma element_example :
  let b := mkBp [S_ "ramp"] [Framp] [[VNum 0; VNum 1]] [VNum (1 # 10)] [(0, 0)] [(0, 0)] [] [] (VNum 100) in
  let e := mkEl [(CInt 1, mkCh (KBp b) None);
                 (CStr (S_ "A"), mkCh (KArr [(S_ "wfm", [(1 # 2, 10%Z)])] (Some (VNum 100))) None)] in
  Forall chan_wf (avals (edata e)) /\ el_validate e = Ok (VNum 100, 1 # 10) /\ el_points e = Ok 10%Z.
Proof.
  intros b e. split; [| split].
  - constructor; [| constructor; [| constructor]].
    + exists 100, (1 # 10). repeat split; try (vm_compute; reflexivity). vm_compute. discriminate.
    + exists 100, (10 # 100). repeat split; try (vm_compute; reflexivity). vm_compute. discriminate.
  - vm_compute. reflexivity.
  - vm_compute. reflexivity.
Qed.
