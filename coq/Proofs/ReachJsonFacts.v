(* The reachability invariants of Proofs/ReachFacts.v without the exclusion of the three ops that read an object
   back from its JSON description (BFromJson, EFromJson, SFromJson): whatever the readers return with Ok, when
   applied to the description of a well-formed object, is well-formed again.
   The readers do not produce well-formed objects from arbitrary descriptions (the segment-bound marker lists are
   taken from the description as they are, so their length need not match the number of segments); what is used
   here is the shape of the descriptions the writers produce from well-formed objects. *)
From Coq Require Import String Ascii List Arith ZArith QArith Bool Lia.
From BB Require Import Base.Names Base.Num Base.PyList Model.Types Model.Blueprint Model.Forge Model.Element
  Model.PyVal Model.Sequence Model.Output Model.Descr Model.Tools Model.Interp Proofs.BlueprintFacts
  Proofs.DescrFacts Proofs.RoundTripFacts Proofs.SeqRoundTripFacts Proofs.ReachFacts.
Import ListNotations.

(* ================= generic helpers ================= *)
Lemma rj_mapM_length {A B} (f : A -> result B) : forall l ys, mapM f l = Ok ys -> length ys = length l.
Proof.
  induction l as [|x t IH]; intros ys H; cbn [mapM] in H.
  - injection H as <-. reflexivity.
  - destruct (f x) as [y|e]; cbn [bind] in H; [|discriminate H].
    destruct (mapM f t) as [r|e] eqn:Et; cbn [bind] in H; [|discriminate H].
    injection H as <-. cbn [length]. f_equal. apply IH. reflexivity.
Qed.

Lemma rj_mapM_In {A B} (f : A -> result B) : forall l ys y,
  mapM f l = Ok ys -> In y ys -> exists x, In x l /\ f x = Ok y.
Proof.
  induction l as [|x t IH]; intros ys y H Hin; cbn [mapM] in H.
  - injection H as <-. destruct Hin.
  - destruct (f x) as [y0|e] eqn:Ex; cbn [bind] in H; [|discriminate H].
    destruct (mapM f t) as [r|e] eqn:Et; cbn [bind] in H; [|discriminate H].
    injection H as <-. destruct Hin as [<-|Hin].
    + exists x. split; [left; reflexivity|exact Ex].
    + destruct (IH r y eq_refl Hin) as (x' & Hx' & Hf). exists x'. split; [right; exact Hx'|exact Hf].
Qed.

(* ================= the blueprint reader ================= *)
(* one segment: a one-segment well-formed blueprint *)
Lemma insert_empty_inv i f a d nm one :
  step_res (bp_insert bp_empty i f a d nm) = Ok one -> Inv one /\ length (names one) = 1%nat.
Proof.
  intro H. split.
  - apply step_res_fst in H. subst one. apply Inv_insert. exact Inv_empty.
  - unfold step_res, bp_insert, fail, ok in H. cbv zeta in H.
    destruct (i <? -1)%Z; [discriminate H|].
    match type of H with context [if ?c then (bp_empty, Some EValue) else _] => destruct c end; [discriminate H|].
    injection H as <-. cbn [names bp_empty]. rewrite uniquify_length. unfold ins.
    rewrite firstn_nil, skipn_nil. reflexivity.
Qed.

Lemma read_one_inv i sd one : read_one i sd = Ok one -> Inv one /\ length (names one) = 1%nat.
Proof.
  unfold read_one. intro H.
  destruct (pd_get "function" sd) as [fnm|e]; cbn [bind] in H; [|discriminate H].
  destruct (pd_get "name" sd) as [nm|e]; cbn [bind] in H; [|discriminate H].
  destruct (pd_get "arguments" sd) as [ar|e]; cbn [bind] in H; [|discriminate H].
  destruct (pd_items ar) as [aritems|e]; cbn [bind] in H; [|discriminate H].
  destruct nm as [ | |n| | | | | | | | | ]; try discriminate H.
  destruct (pv_str_eqb fnm (S_ "waituntil")).
  - destruct aritems as [|[k0 first] rest]; [discriminate H|].
    destruct (list_of_pv first) as [l0|e]; cbn [bind] in H; [|discriminate H].
    destruct l0 as [|x l0]; [discriminate H|].
    destruct (val_of_pv x) as [v|e]; cbn [bind] in H; [|discriminate H].
    eapply insert_empty_inv. exact H.
  - destruct fnm as [ | |fs| | | | | | | | | ]; try discriminate H.
    destruct (known_function fs) as [f|e]; cbn [bind] in H; [|discriminate H].
    destruct (mapM (fun kv : pv * pv => val_of_pv (snd kv)) aritems) as [vs|e]; cbn [bind] in H; [|discriminate H].
    destruct (pd_get "durations" sd) as [du|e]; cbn [bind] in H; [|discriminate H].
    destruct (val_of_pv du) as [dv|e]; cbn [bind] in H; [|discriminate H].
    eapply insert_empty_inv. exact H.
Qed.

Lemma names_add_length a b : length (names (bp_add a b)) = (length (names a) + length (names b))%nat.
Proof. unfold bp_add. cbn [names]. rewrite uniquify_length, app_length, !map_length. reflexivity. Qed.

(* the loop over the segments: as many segments as entries, all parallel lists in step *)
Lemma read_segs_inv l : forall i acc b,
  Inv acc -> read_segs i l acc = Ok b -> Inv b /\ length (names b) = (length (names acc) + length l)%nat.
Proof.
  induction l as [|[k sd] t IH]; intros i acc b Hacc H.
  - cbn [read_segs] in H. injection H as <-. split; [exact Hacc|]. cbn [length]. lia.
  - cbn [read_segs] in H.
    destruct (read_one i sd) as [one|e] eqn:E1; cbn [bind] in H; [|discriminate H].
    destruct (read_one_inv _ _ _ E1) as [Hone Hlen].
    destruct (IH (i + 1)%Z (bp_add acc one) b (Inv_add _ _ Hacc Hone) H) as [Hb Hn].
    split; [exact Hb|]. rewrite Hn, names_add_length, Hlen. cbn [length]. lia.
Qed.

(* the reader returns a well-formed blueprint exactly when the two segment-bound marker lists of the description
   are as long as the list of segment entries *)
Lemma read_bp_inv d items b :
  read_bp d = Ok b -> pd_items d = Ok items ->
  (forall r k, pd_get "marker1_rel" d = Ok r -> list_of_pv r = Ok k -> length k = length (filter seg_filter items)) ->
  (forall r k, pd_get "marker2_rel" d = Ok r -> list_of_pv r = Ok k -> length k = length (filter seg_filter items)) ->
  Inv b.
Proof.
  intros H Hi H1 H2. unfold read_bp in H. rewrite Hi in H. cbn [bind] in H.
  destruct (read_segs 0 (filter seg_filter items) bp_empty) as [b0|e] eqn:E0; cbn [bind] in H; [|discriminate H].
  destruct (pd_get "marker1_abs" d) as [m1|e]; cbn [bind] in H; [|discriminate H].
  destruct (list_of_pv m1) as [l1|e]; cbn [bind] in H; [|discriminate H].
  destruct (mapM mspec_of_pv l1) as [a1|e]; cbn [bind] in H; [|discriminate H].
  destruct (pd_get "marker2_abs" d) as [m2|e]; cbn [bind] in H; [|discriminate H].
  destruct (list_of_pv m2) as [l2|e]; cbn [bind] in H; [|discriminate H].
  destruct (mapM mspec_of_pv l2) as [a2|e]; cbn [bind] in H; [|discriminate H].
  destruct (pd_get "marker1_rel" d) as [r1|e] eqn:G1; cbn [bind] in H; [|discriminate H].
  destruct (list_of_pv r1) as [k1|e] eqn:L1; cbn [bind] in H; [|discriminate H].
  destruct (mapM mspec_of_pv k1) as [s1|e] eqn:M1; cbn [bind] in H; [|discriminate H].
  destruct (pd_get "marker2_rel" d) as [r2|e] eqn:G2; cbn [bind] in H; [|discriminate H].
  destruct (list_of_pv r2) as [k2|e] eqn:L2; cbn [bind] in H; [|discriminate H].
  destruct (mapM mspec_of_pv k2) as [s2|e] eqn:M2; cbn [bind] in H; [|discriminate H].
  injection H as <-.
  destruct (read_segs_inv _ _ _ _ Inv_empty E0) as [Hb0 Hn]. cbn [names bp_empty length] in Hn.
  pose proof (H1 _ _ eq_refl L1) as Hk1. pose proof (H2 _ _ eq_refl L2) as Hk2.
  apply rj_mapM_length in M1. apply rj_mapM_length in M2.
  pose proof Hb0 as (_ & _ & _ & Hs1 & Hs2 & _).
  apply Inv_set_sm2; [apply Inv_set_sm1; [apply Inv_set_am2, Inv_set_am1; exact Hb0|]|].
  - unfold set_am2, set_am1. cbn [sm1]. lia.
  - unfold set_sm1, set_am2, set_am1. cbn [sm2]. lia.
Qed.

(* the reader insists on a "marker1_abs" entry that is a list *)
Lemma read_bp_needs_marker d b :
  read_bp d = Ok b -> exists m1 l1, pd_get "marker1_abs" d = Ok m1 /\ list_of_pv m1 = Ok l1.
Proof.
  unfold read_bp. intro H.
  destruct (pd_items d) as [items|e]; cbn [bind] in H; [|discriminate H].
  destruct (read_segs 0 (filter seg_filter items) bp_empty) as [b0|e]; cbn [bind] in H; [|discriminate H].
  destruct (pd_get "marker1_abs" d) as [m1|e] eqn:G; cbn [bind] in H; [|discriminate H].
  destruct (list_of_pv m1) as [l1|e] eqn:L; cbn [bind] in H; [|discriminate H].
  exists m1, l1. split; [reflexivity|exact L].
Qed.

Lemma segs_rt_length ns : forall k fs ars ds,
  length fs = length ns -> length ars = length ns -> length ds = length ns ->
  length (segs_rt k ns fs ars ds) = length ns.
Proof.
  induction ns as [|n ns IH]; intros k fs ars ds Hf Ha Hd; [reflexivity|].
  destruct fs as [|f fs]; [discriminate|]. destruct ars as [|a ars]; [discriminate|].
  destruct ds as [|d ds]; [discriminate|].
  cbn [segs_rt length]. f_equal. apply IH; cbn [length] in *; congruence.
Qed.

(* a description is "good" when the blueprint reader, if it accepts it, returns a well-formed blueprint *)
Definition good_cd (cd : pv) : Prop := forall b, bp_from_descr cd = Ok b -> Inv b.

(* what json.load returns for the description of a well-formed blueprint, possibly followed by further entries
   that are not segments (the "flags" entry of a channel) *)
Lemma good_cd_descr b X :
  Inv b -> filter seg_filter X = [] ->
  good_cd (PDict (segs_rt 1 (names b) (funs b) (args b) (durs b) ++ markers_rt b ++ X)).
Proof.
  intros HI HX b' H. rewrite bp_from_descr_read in H.
  destruct HI as (Hf & Ha & Hd & Hs1 & Hs2 & Hu).
  assert (length (filter seg_filter (segs_rt 1 (names b) (funs b) (args b) (durs b) ++ markers_rt b ++ X))
          = length (names b)) as HL.
  { rewrite !filter_app, filter_segs_rt, filter_markers_rt, HX, !app_nil_r.
    apply segs_rt_length; assumption. }
  destruct (pd_get_markers_ext b X) as (_ & _ & G3 & G4).
  eapply read_bp_inv; [exact H|reflexivity| |].
  - intros r k Hg Hl. rewrite pd_get_behind_segs in Hg by exact marker_key_1r. rewrite G3 in Hg.
    injection Hg as <-. cbn [list_of_pv] in Hl. injection Hl as <-. rewrite map_length, HL. exact Hs1.
  - intros r k Hg Hl. rewrite pd_get_behind_segs in Hg by exact marker_key_2r. rewrite G4 in Hg.
    injection Hg as <-. cbn [list_of_pv] in Hl. injection Hl as <-. rewrite map_length, HL. exact Hs2.
Qed.

Lemma good_cd_chan_rt b fl : Inv b -> good_cd (chan_rt b fl).
Proof.
  intro HI. unfold chan_rt. apply good_cd_descr; [exact HI|]. destruct fl; reflexivity.
Qed.

(* BFromJson *)
Lemma bp_from_json_inv b b' : Inv b -> bp_from_descr (json_rt (bp_descr b)) = Ok b' -> Inv b'.
Proof.
  intros HI H. rewrite json_rt_chan_none in H. exact (good_cd_chan_rt b None HI b' H).
Qed.

(* descriptions the blueprint reader always rejects *)
Lemma good_cd_no_marker d :
  (forall m1 l1, pd_get "marker1_abs" d = Ok m1 -> list_of_pv m1 = Ok l1 -> False) -> good_cd d.
Proof.
  intros Hno b H. rewrite bp_from_descr_read in H.
  destruct (read_bp_needs_marker _ _ H) as (m1 & l1 & Hg & Hl). exfalso. exact (Hno _ _ Hg Hl).
Qed.

Lemma good_cd_array : good_cd (pstr "array").
Proof. intros b H. discriminate H. Qed.

Lemma good_cd_pos_entry x y : good_cd (PDict [(pstr "channels", x); (pstr "sequencing", y)]).
Proof. apply good_cd_no_marker. intros m1 l1 Hg _. discriminate Hg. Qed.

Lemma list_of_specval v : list_of_pv (json_rt (pv_of_specval v)) = Err EType.
Proof. destruct v as [[q|x|]|k o f t]; reflexivity. Qed.

Lemma good_cd_specs L : good_cd (PDict (map jrs L)).
Proof.
  apply good_cd_no_marker. intros m1 l1 Hg Hl.
  change "marker1_abs"%string with (string_of_list_ascii (S_ "marker1_abs")) in Hg.
  rewrite pd_get_specs in Hg.
  destruct (alookup str_eqb (S_ "marker1_abs") L) as [v|]; [|discriminate Hg].
  injection Hg as <-. rewrite list_of_specval in Hl. discriminate Hl.
Qed.

(* ================= the element reader ================= *)
Lemma el_read_one_inv acc k cd e : good_cd cd -> el_inv acc -> el_read_one acc k cd = Ok e -> el_inv e.
Proof.
  intros Hg Hacc H. unfold el_read_one in H.
  destruct (bp_from_descr cd) as [b|er] eqn:Eb; cbn [bind] in H; [|discriminate H].
  destruct (int_of_str k) as [c|er]; cbn [bind] in H; [|discriminate H].
  destruct (step_res (el_add_bp acc (CInt c) b)) as [e1|er] eqn:E1; cbn [bind] in H; [|discriminate H].
  apply step_res_fst in E1.
  assert (el_inv e1) as He1 by (subst e1; apply el_add_bp_inv; [exact (Hg b Eb)|exact Hacc]).
  destruct (pd_has "flags" cd).
  - destruct (pd_get "flags" cd) as [f|er]; cbn [bind] in H; [|discriminate H].
    destruct (flags_of_pv f) as [fl|er]; cbn [bind] in H; [|discriminate H].
    apply step_res_fst in H. subst e. apply el_add_flags_inv. exact He1.
  - injection H as <-. exact He1.
Qed.

Lemma el_read_inv l : forall acc e,
  (forall k cd, In (k, cd) l -> good_cd cd) -> el_inv acc -> el_read l acc = Ok e -> el_inv e.
Proof.
  induction l as [|[k cd] t IH]; intros acc e Hg Hacc H.
  - cbn [el_read] in H. injection H as <-. exact Hacc.
  - cbn [el_read] in H. destruct k as [ | |k| | | | | | | | | ]; try discriminate H.
    destruct (el_read_one acc k cd) as [e2|er] eqn:E2; cbn [bind] in H; [|discriminate H].
    apply (IH e2 e); [intros k' cd' Hin; apply (Hg k' cd'); right; exact Hin| |exact H].
    apply (el_read_one_inv acc k cd e2); [apply (Hg (PStr k) cd); left; reflexivity|exact Hacc|exact E2].
Qed.

(* every channel description written for a well-formed element is good *)
Lemma descr_entry_good p kv :
  (forall b, ckind (snd p) = KBp b -> Inv b) -> descr_entry p = Ok kv -> good_cd (snd (jr kv)).
Proof.
  destruct p as [c ch]. cbn [snd]. intros Hb H. unfold descr_entry in H. cbn [fst snd] in H.
  destruct (ckind ch) as [b|arrs asr] eqn:Hk; destruct (cflags ch) as [fl|].
  - unfold bp_descr at 1 in H. injection H as <-. unfold jr. cbn [snd].
    rewrite (json_rt_chan_some b _ fl eq_refl). apply good_cd_chan_rt. apply Hb. reflexivity.
  - injection H as <-. unfold jr. cbn [snd]. rewrite json_rt_chan_none. apply good_cd_chan_rt. apply Hb. reflexivity.
  - discriminate H.
  - injection H as <-. unfold jr. cbn [snd]. exact good_cd_array.
Qed.

Lemma el_descr_items_good e d :
  el_inv e -> el_descr e = Ok d ->
  exists l, json_rt d = PDict l /\ forall k cd, In (k, cd) l -> good_cd cd.
Proof.
  intros [_ Hbp] Hd. rewrite el_descr_unfold in Hd.
  destruct (mapM descr_entry (edata e)) as [l|er] eqn:El; cbn [bind] in Hd; [|discriminate Hd].
  injection Hd as <-. exists (map jr l). split; [reflexivity|].
  intros k cd Hin. apply in_map_iff in Hin as (kv & Hkv & Hin).
  destruct (rj_mapM_In _ _ _ _ El Hin) as ([c ch] & Hp & Hde).
  assert (cd = snd (jr kv)) as -> by (rewrite Hkv; reflexivity).
  apply (descr_entry_good (c, ch) kv); [|exact Hde].
  cbn [snd]. intros b Hk. exact (Hbp c ch b Hp Hk).
Qed.

(* EFromJson *)
Lemma el_from_json_inv x d x' : el_inv x -> el_descr x = Ok d -> el_from_descr (json_rt d) = Ok x' -> el_inv x'.
Proof.
  intros Hx Hd H. destruct (el_descr_items_good x d Hx Hd) as (l & Hl & Hg).
  rewrite el_from_descr_read, Hl in H. cbn [pd_items bind] in H.
  exact (el_read_inv l el_empty x' Hg el_inv_empty H).
Qed.

(* ================= the sequence reader ================= *)
Section SeqReader.
Variables (specs : pv) (SR : val).

Lemma seq_read_chan_inv el sq ck cd r :
  good_cd cd -> el_inv el -> seq_inv sq -> seq_read_chan specs SR el sq ck cd = Ok r ->
  el_inv (fst r) /\ seq_inv (snd r).
Proof.
  intros Hg Hel Hsq H. unfold seq_read_chan in H.
  destruct (bp_from_descr cd) as [b|er] eqn:Eb; cbn [bind] in H; [|discriminate H].
  destruct (int_of_str ck) as [c|er]; cbn [bind] in H; [|discriminate H].
  destruct (step_res (el_add_bp el (CInt c) (set_sr b SR))) as [e1|er] eqn:E1; cbn [bind] in H; [|discriminate H].
  apply step_res_fst in E1.
  assert (el_inv e1) as He1.
  { subst e1. apply el_add_bp_inv; [|exact Hel]. apply BlueprintFacts.Inv_set_sr. exact (Hg b Eb). }
  match type of H with bind ?X _ = _ => destruct X as [e2|er] eqn:E2 end; cbn [bind] in H; [|discriminate H].
  assert (el_inv e2) as He2.
  { destruct (pd_has "flags" cd).
    - destruct (pd_get "flags" cd) as [f|er]; cbn [bind] in E2; [|discriminate E2].
      destruct (flags_of_pv f) as [fl|er]; cbn [bind] in E2; [|discriminate E2].
      apply step_res_fst in E2. subst e2. apply el_add_flags_inv. exact He1.
    - injection E2 as <-. exact He1. }
  match type of H with bind ?X _ = _ => destruct X as [amp|er] end; cbn [bind] in H; [|discriminate H].
  destruct (val_of_pv amp) as [ampv|er]; cbn [bind] in H; [|discriminate H].
  match type of H with bind ?X _ = _ => destruct X as [off|er] end; cbn [bind] in H; [|discriminate H].
  destruct (val_of_pv off) as [offv|er]; cbn [bind] in H; [|discriminate H].
  injection H as <-. cbn [fst snd]. split; [exact He2|].
  unfold seq_set_off, seq_set_amp. apply seq_inv_spec_set, seq_inv_spec_set. exact Hsq.
Qed.

Lemma seq_read_chans_inv cl : forall el sq r,
  (forall k cd, In (k, cd) cl -> good_cd cd) -> el_inv el -> seq_inv sq ->
  seq_read_chans specs SR cl el sq = Ok r -> el_inv (fst r) /\ seq_inv (snd r).
Proof.
  induction cl as [|[k cd] ct IH]; intros el sq r Hg Hel Hsq H.
  - cbn [seq_read_chans] in H. injection H as <-. split; assumption.
  - cbn [seq_read_chans] in H. destruct k as [ | |ck| | | | | | | | | ]; try discriminate H.
    destruct (seq_read_chan specs SR el sq ck cd) as [r1|er] eqn:E1; cbn [bind] in H; [|discriminate H].
    destruct (seq_read_chan_inv el sq ck cd r1 (Hg (PStr ck) cd (or_introl eq_refl)) Hel Hsq E1) as [H1 H2].
    apply (IH (fst r1) (snd r1) r); [intros k' cd' Hin; apply (Hg k' cd'); right; exact Hin|exact H1|exact H2|exact H].
Qed.

(* the description of one position is good when all its channel descriptions are *)
Definition good_ed (ed : pv) : Prop :=
  forall chd chitems, pd_get "channels" ed = Ok chd -> pd_items chd = Ok chitems ->
  forall k cd, In (k, cd) chitems -> good_cd cd.

Lemma seq_read_pos_inv acc k ed a : good_ed ed -> seq_inv acc -> seq_read_pos specs SR acc k ed = Ok a -> seq_inv a.
Proof.
  intros Hg Hacc H. unfold seq_read_pos in H.
  destruct (pd_get "channels" ed) as [chd|er] eqn:Ec; cbn [bind] in H; [|discriminate H].
  destruct (pd_items chd) as [chitems|er] eqn:Ei; cbn [bind] in H; [|discriminate H].
  destruct (seq_read_chans specs SR chitems el_empty acc) as [r|er] eqn:Er; cbn [bind] in H; [|discriminate H].
  destruct (seq_read_chans_inv chitems el_empty acc r (Hg chd chitems Ec Ei) el_inv_empty Hacc Er) as [H1 H2].
  destruct (int_of_str k) as [pos|er]; cbn [bind] in H; [|discriminate H].
  destruct (step_res (seq_add_element (snd r) pos (fst r))) as [sq1|er] eqn:Ea; cbn [bind] in H; [|discriminate H].
  apply step_res_fst in Ea.
  assert (seq_inv sq1) as Hsq1 by (subst sq1; apply seq_inv_add_element; assumption).
  destruct (pd_get "sequencing" ed) as [sd|er]; cbn [bind] in H; [|discriminate H].
  destruct (pd_get "Wait trigger" sd) as [tw|er]; cbn [bind] in H; [|discriminate H].
  destruct (int_of_pv tw) as [twz|er]; cbn [bind] in H; [|discriminate H].
  destruct (pd_get "Repeat" sd) as [nr|er]; cbn [bind] in H; [|discriminate H].
  destruct (int_of_pv nr) as [nrz|er]; cbn [bind] in H; [|discriminate H].
  destruct (pd_get "jump_input" sd) as [ji|er]; cbn [bind] in H; [|discriminate H].
  destruct (int_of_pv ji) as [jiz|er]; cbn [bind] in H; [|discriminate H].
  destruct (pd_get "jump_target" sd) as [jt|er]; cbn [bind] in H; [|discriminate H].
  destruct (int_of_pv jt) as [jtz|er]; cbn [bind] in H; [|discriminate H].
  destruct (pd_get "Go to" sd) as [gt|er]; cbn [bind] in H; [|discriminate H].
  destruct (int_of_pv gt) as [gtz|er]; cbn [bind] in H; [|discriminate H].
  injection H as <-. apply seq_inv_set_sseq. exact Hsq1.
Qed.

Lemma seq_read_items_inv l : forall acc s,
  (forall k ed, In (k, ed) l -> good_ed ed) -> seq_inv acc -> seq_read_items specs SR l acc = Ok s -> seq_inv s.
Proof.
  induction l as [|[k ed] t IH]; intros acc s Hg Hacc H.
  - cbn [seq_read_items] in H. injection H as <-. exact Hacc.
  - cbn [seq_read_items] in H. destruct k as [ | |k| | | | | | | | | ]; try discriminate H.
    destruct (seq_read_pos specs SR acc k ed) as [a|er] eqn:Ea; cbn [bind] in H; [|discriminate H].
    apply (IH a s); [intros k' ed' Hin; apply (Hg k' ed'); right; exact Hin| |exact H].
    apply (seq_read_pos_inv acc k ed a); [apply (Hg (PStr k) ed); left; reflexivity|exact Hacc|exact Ea].
Qed.
End SeqReader.

Lemma seq_read_specs_inv l : forall acc s, seq_inv acc -> seq_read_specs l acc = Ok s -> seq_inv s.
Proof.
  induction l as [|[k v] t IH]; intros acc s Hacc H.
  - cbn [seq_read_specs] in H. injection H as <-. exact Hacc.
  - cbn [seq_read_specs] in H. destruct k as [ | |k| | | | | | | | | ]; try discriminate H.
    destruct (specval_of_pv v) as [sv|er]; cbn [bind] in H; [|discriminate H].
    apply (IH (spec_set acc k sv) s); [|exact H]. apply seq_inv_spec_set. exact Hacc.
Qed.

Lemma seq_read_inv d s :
  (forall items k ed, pd_items d = Ok items -> In (k, ed) (removelast items) -> good_ed ed) ->
  seq_read d = Ok s -> seq_inv s.
Proof.
  intros Hg H. unfold seq_read in H.
  destruct (pd_get "awgspecs" d) as [specs|er]; cbn [bind] in H; [|discriminate H].
  destruct (pd_get "SR" specs) as [SRp|er]; cbn [bind] in H; [|discriminate H].
  destruct (val_of_pv SRp) as [SR|er]; cbn [bind] in H; [|discriminate H].
  destruct (pd_items d) as [items|er] eqn:Ei; cbn [bind] in H; [|discriminate H].
  destruct (seq_read_items specs SR (removelast items) seq_empty) as [s1|er] eqn:E1; cbn [bind] in H; [|discriminate H].
  destruct (pd_items specs) as [spitems|er]; cbn [bind] in H; [|discriminate H].
  destruct (seq_read_specs spitems s1) as [s2|er] eqn:E2; cbn [bind] in H; [|discriminate H].
  injection H as <-. unfold seq_set_sr. apply seq_inv_spec_set.
  apply (seq_read_specs_inv spitems s1 s2); [|exact E2].
  apply (seq_read_items_inv specs SR (removelast items) seq_empty s1); [|exact seq_inv_empty|exact E1].
  intros k ed Hin. exact (Hg items k ed eq_refl Hin).
Qed.

(* ---- the descriptions written for a well-formed sequence ---- *)
Lemma sub_descr_items_good (sb : subseq) dd :
  seqT_descr el_descr sb = Ok dd ->
  exists l, json_rt dd = PDict l /\ forall k cd, In (k, cd) l -> good_cd cd.
Proof.
  unfold seqT_descr. intro H.
  match type of H with bind (mapM ?f ?l) _ = _ => destruct (mapM f l) as [l0|er] eqn:El end;
    cbn [bind] in H; [|discriminate H].
  injection H as <-.
  exists (map jr (l0 ++ [(pstr "awgspecs", specs_descr (sspecs sb))])). split; [reflexivity|].
  intros k cd Hin. apply in_map_iff in Hin as (kv & Hkv & Hin).
  assert (cd = json_rt (snd kv)) as -> by (unfold jr in Hkv; injection Hkv as _ <-; reflexivity).
  clear Hkv. apply in_app_or in Hin as [Hin|Hin].
  - destruct (rj_mapM_In _ _ _ _ El Hin) as (p & _ & Hp).
    destruct (el_descr (snd p)) as [d0|er]; cbn [bind] in Hp; [|discriminate Hp].
    injection Hp as <-. cbn [snd].
    exact (good_cd_pos_entry (json_rt d0) (json_rt _)).
  - destruct Hin as [<-|[]]. cbn [snd].
    rewrite json_rt_specs_descr. apply good_cd_specs.
Qed.

Lemma entry_descr_items_good x dd :
  entry_inv x -> entry_descr x = Ok dd ->
  exists l, json_rt dd = PDict l /\ forall k cd, In (k, cd) l -> good_cd cd.
Proof.
  destruct x as [e|sb]; cbn [entry_inv entry_descr]; intros Hx H.
  - exact (el_descr_items_good e dd Hx H).
  - exact (sub_descr_items_good sb dd H).
Qed.

Lemma pos_descr_good Q p kv : entry_inv (snd p) -> pos_descr Q p = Ok kv -> good_ed (snd (jr kv)).
Proof.
  intros Hx H. unfold pos_descr in H.
  destruct (entry_descr (snd p)) as [dd|er] eqn:Ed; cbn [bind] in H; [|discriminate H].
  injection H as <-. unfold jr. cbn [snd].
  destruct (entry_descr_items_good _ _ Hx Ed) as (l & Hl & Hg).
  intros chd chitems Hc Hi.
  match type of Hc with pd_get _ (json_rt (PDict [(_, _); (_, ?y)])) = _ =>
    change (pd_get "channels" (PDict [(pstr "channels", json_rt dd); (pstr "sequencing", json_rt y)]) = Ok chd) in Hc
  end.
  rewrite pd_get_pos_channels in Hc. injection Hc as <-.
  rewrite Hl in Hi. cbn [pd_items] in Hi. injection Hi as <-. exact Hg.
Qed.

(* SFromJson *)
Lemma seq_from_json_inv x d x' : seq_inv x -> seq_descr x = Ok d -> seq_from_descr (json_rt d) = Ok x' -> seq_inv x'.
Proof.
  intros (_ & _ & _ & H4) Hd H. rewrite seq_descr_unfold in Hd.
  destruct (mapM (pos_descr (sseq x)) (sdata x)) as [l|er] eqn:El; cbn [bind] in Hd; [|discriminate Hd].
  injection Hd as <-. rewrite seq_from_descr_read in H.
  apply (seq_read_inv _ _) in H; [exact H|].
  intros items k ed Hi Hin. cbn [json_rt pd_items] in Hi. injection Hi as <-.
  rewrite map_app in Hin. cbn [map] in Hin. rewrite removelast_last in Hin.
  apply in_map_iff in Hin as (kv & Hkv & Hin).
  destruct (rj_mapM_In _ _ _ _ El Hin) as ([pos y] & Hp & Hpd).
  assert (ed = snd (jr kv)) as -> by (unfold jr; rewrite Hkv; reflexivity).
  apply (pos_descr_good (sseq x) (pos, y) kv); [|exact Hpd]. cbn [snd]. exact (H4 pos y Hp).
Qed.

(* ================= the store, every op ================= *)
Lemma store_ok_step_all : forall st o, store_ok st -> store_ok (fst (exec st o)).
Proof.
  intros st o Hs.
  destruct o; try (apply store_ok_step; [exact I|exact Hs]); unfold exec.
  - (* BFromJson *) destruct (getB st r) as [b|er] eqn:E; [|exact Hs].
    destruct (bp_from_descr (json_rt (bp_descr b))) as [b'|er] eqn:Eb; [|exact Hs].
    cbn [fst]. apply putB_ok; [exact Hs|]. apply (bp_from_json_inv b b'); [eapply getB_ok; eassumption|exact Eb].
  - (* EFromJson *) destruct (getE st e) as [x|er] eqn:E; [|exact Hs].
    destruct (el_descr x) as [d|er] eqn:Ed; cbn [bind]; [|exact Hs].
    destruct (el_from_descr (json_rt d)) as [x'|er] eqn:Ex; [|exact Hs].
    cbn [fst]. apply putE_ok; [exact Hs|]. apply (el_from_json_inv x d x'); [eapply getE_ok; eassumption|exact Ed|exact Ex].
  - (* SFromJson *) destruct (getS st s) as [x|er] eqn:E; [|exact Hs].
    destruct (seq_descr x) as [d|er] eqn:Ed; cbn [bind]; [|exact Hs].
    destruct (seq_from_descr (json_rt d)) as [x'|er] eqn:Ex; [|exact Hs].
    cbn [fst]. apply putS_ok; [exact Hs|]. apply (seq_from_json_inv x d x'); [eapply getS_ok; eassumption|exact Ed|exact Ex].
Qed.

Lemma store_ok_reachable_all : forall prog st, store_ok st -> store_ok (final_store st prog).
Proof.
  induction prog as [|o t IH]; intros st Hs; cbn [final_store]; [exact Hs|].
  apply IH. apply store_ok_step_all. exact Hs.
Qed.

Lemma reachable_blueprints_everywhere_all : forall prog r s p e c ch b,
  In (r, s) (sqs (final_store store0 prog)) ->
  In (p, EElem e) (sdata s) -> In (c, ch) (edata e) -> ckind ch = KBp b ->
  Inv b /\ NoDup (names b) /\ length (names b) = length (funs b).
Proof.
  intros prog r s p e c ch b Hin Hp Hc Hk.
  destruct (store_ok_reachable_all prog store0 store_ok_initial) as (_ & _ & HS).
  destruct (HS _ _ Hin) as (_ & _ & _ & H4).
  pose proof (H4 _ _ Hp) as He. cbn [entry_inv] in He. destruct He as [_ Hbp].
  pose proof (Hbp _ _ _ Hc Hk) as HI.
  split; [exact HI|]. split; [apply Inv_NoDup; exact HI|].
  destruct HI as (H1 & _). symmetry. exact H1.
Qed.

Lemma reachable_sequence_keys_all : forall prog r s,
  In (r, s) (sqs (final_store store0 prog)) ->
  NoDup (akeys (sdata s)) /\ NoDup (akeys (sseq s)) /\ NoDup (akeys (sspecs s)).
Proof.
  intros prog r s Hin.
  destruct (store_ok_reachable_all prog store0 store_ok_initial) as (_ & _ & HS).
  destruct (HS _ _ Hin) as (H1 & H2 & H3 & _). repeat split; assumption.
Qed.

(* Why the proofs go through the shape of the written descriptions: on a hand-made description (not the output of
   any writer, hence not reachable through the *FromJson ops) the blueprint reader does return an ill-formed
   blueprint - one segment-bound marker for zero segments. *)
Example reader_not_total_on_arbitrary_descriptions :
  let d := PDict [(pstr "marker1_abs", PList []); (pstr "marker2_abs", PList []);
                  (pstr "marker1_rel", PList [PList [PInt 0; PInt 0]]); (pstr "marker2_rel", PList [])] in
  exists b, bp_from_descr d = Ok b /\ names b = [] /\ length (sm1 b) = 1%nat /\ ~ Inv b.
Proof.
  eexists. split; [vm_compute; reflexivity|]. split; [reflexivity|]. split; [reflexivity|].
  intros (_ & _ & _ & H & _). discriminate H.
Qed.

(* ---- and therefore the mirror theorem for every program of the op language, reading JSON back included ---- *)
From BB Require Import Model.Output Proofs.MirrorFacts Proofs.ReachMirrorFacts.

Lemma reachable_prepare_mirrors_forge_all : forall prog r s chans out,
  In (r, s) (sqs (final_store store0 prog)) ->
  delays_nonneg s -> prepare s = Ok (chans, out) ->
  exists sq, mapM (get_sq s) (range1 (length out)) = Ok sq /\ seq_forge s true true false = Ok (mirror_forge sq out).
Proof.
  intros prog r s chans out Hin Hd Hprep.
  pose proof (store_ok_reachable_all prog store0 store_ok_initial) as (_ & _ & Hs).
  exact (prepare_mirrors_forge s chans out (seq_inv_elems_nodup s (Hs r s Hin)) Hd Hprep).
Qed.
