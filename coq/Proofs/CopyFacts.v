(* "The derived object initially has the same description and forged output as its source" (C09, first sentence), for
   the copy operations, in every store a program can reach: the copy register holds the same value as the source
   register, so every observation of the op language (description, forge, points, ==, ...) agrees on the two. *)
From Coq Require Import List ZArith QArith Bool Arith.
From BB Require Import Base.Num Model.Types Model.Blueprint Model.Forge Model.Element Model.PyVal Model.Sequence
  Model.Interp Proofs.BlueprintFacts Proofs.ElementFacts Proofs.EqFacts Proofs.ReachFacts.
Import ListNotations.

Lemma nat_eqb_refl_l : forall k : nat, Nat.eqb k k = true.
Proof. intro k; apply Nat.eqb_refl. Qed.

Lemma copy_bp_register : forall prog r d b,
  Forall api_op prog -> getB (final_store store0 prog) r = Ok b ->
  let st' := fst (exec (final_store store0 prog) (BCopy r d)) in
  getB st' d = Ok b /\ (d <> r -> getB st' r = Ok b).
Proof.
  intros prog r d b Hp Hg st'.
  pose proof (store_ok_reachable prog store0 Hp store_ok_initial) as Hok.
  pose proof (getB_ok _ _ _ Hok Hg) as Hinv.
  unfold st'. cbn [exec]. rewrite Hg. cbn [fst].
  rewrite (proj1 (copy_eq b Hinv)).
  unfold getB, putB. cbn [bps].
  split.
  - rewrite (alookup_aset_same Nat.eqb d b (nat_eqb_refl_l d)). reflexivity.
  - intro Hne. unfold getB in Hg.
    rewrite (alookup_aset_other Nat.eqb d r b (bps (final_store store0 prog))).
    + exact Hg.
    + intros x y; split; [apply Nat.eqb_eq | intros ->; apply Nat.eqb_refl].
    + apply Nat.eqb_neq. intro E. apply Hne. symmetry. exact E.
Qed.

Lemma copy_el_register : forall st r d e,
  getE st r = Ok e -> getE (fst (exec st (ECopy r d))) d = Ok e.
Proof.
  intros st r d e Hg. cbn [exec]. rewrite Hg. cbn [fst]. unfold getE, putE. cbn [els].
  rewrite (alookup_aset_same Nat.eqb d e (nat_eqb_refl_l d)). reflexivity.
Qed.

(* Sequence.copy() copies data, sequencing and channel settings; the copy's name is empty (the name is part of no
   description and of no forged output - only outputForSEQXFile reports it) *)
Lemma copy_seq_register : forall st r d s,
  getS st r = Ok s -> getS (fst (exec st (SCopy r d))) d = Ok (mkSeq (sdata s) (sseq s) (sspecs s) []).
Proof.
  intros st r d s Hg. cbn [exec]. rewrite Hg. cbn [fst]. unfold getS, putS. cbn [sqs].
  rewrite (alookup_aset_same Nat.eqb d _ (nat_eqb_refl_l d)). reflexivity.
Qed.
