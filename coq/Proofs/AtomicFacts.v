(* Rejected calls change nothing; edits through Sequence.element(pos) touch exactly that entry. *)
From Coq Require Import String List ZArith QArith Bool Lia.
From BB Require Import Base.Names Base.Num Base.PyList Model.Types Model.Blueprint Model.Forge Model.Element
  Model.PyVal Model.Sequence Model.Output Model.Tools Model.Descr Model.Interp
  Proofs.BlueprintFacts Proofs.ElementFacts Proofs.SequenceFacts.
Import ListNotations.

(* the calls whose rejection is all-or-nothing: everything except a replaceeverywhere edit, which the code applies
   segment by segment (an earlier segment may already be changed when a later one is refused) *)
Definition single_edit (o : op) : Prop :=
  match o with
  | BChangeArg _ _ _ _ true | BChangeDur _ _ _ true
  | EChangeArg _ _ _ _ _ true | EChangeDur _ _ _ _ true
  | SElemChangeArg _ _ _ _ _ _ true | SElemChangeDur _ _ _ _ _ true => False
  | _ => True
  end.

Definition same_objects (st st' : store) : Prop :=
  (forall r, getB st' r = getB st r) /\ (forall r, getE st' r = getE st r) /\ (forall r, getS st' r = getS st r).


(* ---------- association lists with a key test that decides equality ---------- *)
Section AssocFacts.
Context {K V : Type} (eqb : K -> K -> bool) (Heq : forall a b, eqb a b = true <-> a = b).

Lemma af_aset_same k (v : V) : forall l, alookup eqb k l = Some v -> aset eqb k v l = l.
Proof.
  induction l as [|[k0 v0] t IH]; cbn [alookup aset]; intro H; [discriminate|].
  destruct (eqb k k0) eqn:E.
  - apply Heq in E. subst k0. injection H as ->. reflexivity.
  - rewrite (IH H). reflexivity.
Qed.

Lemma af_lookup_aset_eq k (v : V) : forall l, alookup eqb k (aset eqb k v l) = Some v.
Proof.
  assert (eqb k k = true) as Hr by (apply Heq; reflexivity).
  induction l as [|[k0 v0] t IH]; cbn [aset].
  - cbn [alookup]. rewrite Hr. reflexivity.
  - destruct (eqb k k0) eqn:E; cbn [alookup]; [rewrite Hr; reflexivity | rewrite E; exact IH].
Qed.

Lemma af_lookup_aset_neq k k' (v : V) : k' <> k -> forall l, alookup eqb k' (aset eqb k v l) = alookup eqb k' l.
Proof.
  intro Hne. assert (eqb k' k = false) as Hf.
  { destruct (eqb k' k) eqn:E; [apply Heq in E; contradiction | reflexivity]. }
  induction l as [|[k0 v0] t IH]; cbn [aset alookup].
  - rewrite Hf. reflexivity.
  - destruct (eqb k k0) eqn:E; cbn [alookup].
    + apply Heq in E. subst k0. rewrite Hf. reflexivity.
    + destruct (eqb k' k0); [reflexivity | exact IH].
Qed.

Lemma af_keys_aset k (v v0 : V) : forall l, alookup eqb k l = Some v0 -> map fst (aset eqb k v l) = map fst l.
Proof.
  induction l as [|[k1 v1] t IH]; cbn [alookup aset]; intro H; [discriminate|].
  destruct (eqb k k1) eqn:E; cbn [map fst].
  - apply Heq in E. subst k1. reflexivity.
  - rewrite (IH H). reflexivity.
Qed.
End AssocFacts.

(* ---------- writing back what a register already holds ---------- *)
Lemma putB_same st r b : getB st r = Ok b -> putB st r b = st.
Proof.
  unfold getB, putB. destruct (alookup Nat.eqb r (bps st)) as [b0|] eqn:E; [|discriminate].
  intro H. injection H as ->. rewrite (af_aset_same Nat.eqb Nat.eqb_eq _ _ _ E). destruct st; reflexivity.
Qed.
Lemma putE_same st r x : getE st r = Ok x -> putE st r x = st.
Proof.
  unfold getE, putE. destruct (alookup Nat.eqb r (els st)) as [b0|] eqn:E; [|discriminate].
  intro H. injection H as ->. rewrite (af_aset_same Nat.eqb Nat.eqb_eq _ _ _ E). destruct st; reflexivity.
Qed.
Lemma putS_same st r x : getS st r = Ok x -> putS st r x = st.
Proof.
  unfold getS, putS. destruct (alookup Nat.eqb r (sqs st)) as [b0|] eqn:E; [|discriminate].
  intro H. injection H as ->. rewrite (af_aset_same Nat.eqb Nat.eqb_eq _ _ _ E). destruct st; reflexivity.
Qed.

Lemma outcome_err o e : outcome o = PErr e -> o = Some e.
Proof. destruct o as [x|]; cbn [outcome]; intro H; [injection H as ->; reflexivity | discriminate]. Qed.

(* a mutator that hands back the object it was given whenever it raises *)
Definition rejects_cleanly {A} (f : A -> step A) : Prop := forall x x' e, f x = (x', Some e) -> x' = x.

Lemma onB_rej st r f e : rejects_cleanly f -> snd (onB st r f) = PErr e -> fst (onB st r f) = st.
Proof.
  intros Hf. unfold onB. destruct (getB st r) as [b|er] eqn:G; [|reflexivity].
  destruct (f b) as [b' o] eqn:F. cbn [fst snd]. intro H. apply outcome_err in H. subst o.
  apply Hf in F. subst b'. apply putB_same. exact G.
Qed.
Lemma onE_rej st r f e : rejects_cleanly f -> snd (onE st r f) = PErr e -> fst (onE st r f) = st.
Proof.
  intros Hf. unfold onE. destruct (getE st r) as [b|er] eqn:G; [|reflexivity].
  destruct (f b) as [b' o] eqn:F. cbn [fst snd]. intro H. apply outcome_err in H. subst o.
  apply Hf in F. subst b'. apply putE_same. exact G.
Qed.
Lemma onS_rej st r f e : rejects_cleanly f -> snd (onS st r f) = PErr e -> fst (onS st r f) = st.
Proof.
  intros Hf. unfold onS. destruct (getS st r) as [b|er] eqn:G; [|reflexivity].
  destruct (f b) as [b' o] eqn:F. cbn [fst snd]. intro H. apply outcome_err in H. subst o.
  apply Hf in F. subst b'. apply putS_same. exact G.
Qed.

Lemma ok_clean {A} (g : A -> A) : rejects_cleanly (fun x => ok (g x)).
Proof. intros x x' e H. discriminate H. Qed.

(* ---------- BluePrint mutators (Proofs/BlueprintFacts.v, reject_atomic) ---------- *)
Lemma bp_insert_clean pos f a d nm : rejects_cleanly (fun b => bp_insert b pos f a d nm).
Proof. intros b b' e H. destruct (reject_atomic b) as (_ & _ & _ & _ & R & _). eapply R. exact H. Qed.
Lemma bp_remove_clean n : rejects_cleanly (fun b => bp_remove b n).
Proof. intros b b' e H. destruct (reject_atomic b) as (_ & _ & _ & _ & _ & R). eapply R. exact H. Qed.
Lemma bp_change_arg_clean n a v : rejects_cleanly (fun b => bp_change_arg b n a v false).
Proof. intros b b' e H. destruct (reject_atomic b) as (R & _). eapply R. exact H. Qed.
Lemma bp_change_dur_clean n d : rejects_cleanly (fun b => bp_change_dur b n d false).
Proof. intros b b' e H. destruct (reject_atomic b) as (_ & R & _). eapply R. exact H. Qed.
Lemma bp_set_segmarker_clean n sp id : rejects_cleanly (fun b => bp_set_segmarker b n sp id).
Proof. intros b b' e H. destruct (reject_atomic b) as (_ & _ & R & _). eapply R. exact H. Qed.
Lemma bp_remove_segmarker_clean n id : rejects_cleanly (fun b => bp_remove_segmarker b n id).
Proof. intros b b' e H. destruct (reject_atomic b) as (_ & _ & _ & R & _). eapply R. exact H. Qed.

(* ---------- Element mutators ---------- *)
Lemma el_add_bp_clean c b : rejects_cleanly (fun x => el_add_bp x c b).
Proof.
  intros x x' e H. unfold el_add_bp in H. destruct (bp_has_empty_list b); [|discriminate H].
  unfold fail in H. injection H as <- _. reflexivity.
Qed.

Lemma el_add_flags_clean c fl : rejects_cleanly (fun x => el_add_flags x c fl).
Proof.
  intros x x' e H. unfold el_add_flags, fail in H.
  destruct (negb (Nat.eqb (length fl) 4)); [injection H as <- _; reflexivity|].
  destruct (all_some (map flag_int fl)) as [ints|]; [|injection H as <- _; reflexivity].
  destruct (el_lookup x c) as [ch|]; [discriminate H | injection H as <- _; reflexivity].
Qed.

Lemma el_on_bp_clean c f : rejects_cleanly f -> rejects_cleanly (fun x => el_on_bp x c f).
Proof.
  intros Hf x x' e H. unfold el_on_bp, fail in H.
  destruct (el_lookup x c) as [ch|] eqn:L; [|injection H as <- _; reflexivity].
  destruct ch as [k fl]. cbn [ckind cflags] in H.
  destruct k as [b|arrs asr]; [|injection H as <- _; reflexivity].
  destruct (f b) as [b' r] eqn:F. injection H as <- ->. apply Hf in F. subst b'.
  unfold el_set. unfold el_lookup in L. rewrite (af_aset_same chan_eqb chan_eqb_spec _ _ _ L).
  destruct x; reflexivity.
Qed.
Lemma el_change_arg_clean c n a v : rejects_cleanly (fun x => el_change_arg x c n a v false).
Proof. unfold el_change_arg. apply el_on_bp_clean. apply bp_change_arg_clean. Qed.
Lemma el_change_dur_clean c n d : rejects_cleanly (fun x => el_change_dur x c n d false).
Proof. unfold el_change_dur. apply el_on_bp_clean. apply bp_change_dur_clean. Qed.

(* ---------- Sequence mutators ---------- *)
Lemma seq_set_filter_clean c k o f t : rejects_cleanly (fun x => seq_set_filter x c k o f t).
Proof.
  intros x x' e H. unfold seq_set_filter, fail in H.
  destruct (negb (str_eqb k (S_ "HP") || str_eqb k (S_ "LP"))); [injection H as <- _; reflexivity|].
  destruct o as [o|]; [|injection H as <- _; reflexivity].
  destruct (negb (val_is_none f) && negb (val_is_none t)); [injection H as <- _; reflexivity | discriminate H].
Qed.
Lemma seq_add_element_clean pos x : rejects_cleanly (fun q => seq_add_element q pos x).
Proof.
  intros q q' e H. unfold seq_add_element, fail in H.
  destruct (el_validate x); [discriminate H | injection H as <- _; reflexivity].
Qed.
Lemma seq_add_sub_clean pos x : rejects_cleanly (fun q => seq_add_sub q pos x).
Proof.
  intros q q' e H. unfold seq_add_sub, fail in H.
  destruct (existsb (fun p : Z * entry => entry_is_sub (snd p)) (sdata x)); [injection H as <- _; reflexivity|].
  destruct (negb (val_eqb (seq_SR x) (seq_SR q))); [injection H as <- _; reflexivity | discriminate H].
Qed.
Lemma seq_set_sequencing_clean pos f v : rejects_cleanly (fun q => seq_set_sequencing q pos f v).
Proof.
  intros q q' e H. unfold seq_set_sequencing, fail in H.
  destruct (alookup Z.eqb pos (sseq q)); [discriminate H | injection H as <- _; reflexivity].
Qed.

(* an Element mutator through Sequence.element(pos) *)
Lemma on_seq_elem_clean pos f : rejects_cleanly f -> rejects_cleanly (fun q => on_seq_elem q pos f).
Proof.
  intros Hf q q' e H. unfold on_seq_elem, fail in H.
  destruct (alookup Z.eqb pos (sdata q)) as [[x|sb]|] eqn:L; try (injection H as <- _; reflexivity).
  destruct (f x) as [x' o] eqn:F. injection H as <- ->. apply Hf in F. subst x'.
  rewrite (af_aset_same Z.eqb Z.eqb_eq _ _ _ L). destruct q; reflexivity.
Qed.


(* Element.addArray: since the repair of D22 (known_findings.json) the marker lengths are checked before the channel
   entry is replaced.  Before it this lemma was FALSE in the model and in the code: with a marker array of another
   length the entry was replaced first and the ValueError left a half-built channel (no waveform, no SR) - found while
   proving rejected_call_changes_nothing, which then needed an exclusion for exactly that call. *)
Lemma el_add_array_clean c w SR ms : rejects_cleanly (fun x => el_add_array x c w SR ms).
Proof.
  intros x x' e H. unfold el_add_array in H.
  destruct (add_markers (rle_len w) ms []) as [arrs good]. destruct good; unfold ok, fail in H.
  - discriminate H.
  - injection H as <- _. reflexivity.
Qed.

Lemma same_objects_refl st : same_objects st st.
Proof. repeat split. Qed.

Lemma rejected_call_changes_nothing : forall st o e,
  single_edit o -> snd (exec st o) = PErr e -> same_objects st (fst (exec st o)).
Proof.
  intros st o e Hs He.
  assert (fst (exec st o) = st) as ->; [|apply same_objects_refl].
  destruct o; unfold exec in He |- *; cbn [single_edit] in Hs;
    (* observations *)
    try reflexivity.
  - (* BNew *) discriminate He.
  - (* BInsert *) eapply onB_rej; [apply bp_insert_clean | exact He].
  - (* BRemove *) eapply onB_rej; [apply bp_remove_clean | exact He].
  - (* BChangeArg *) destruct ev; [contradiction|]. eapply onB_rej; [apply bp_change_arg_clean | exact He].
  - (* BChangeDur *) destruct ev; [contradiction|]. eapply onB_rej; [apply bp_change_dur_clean | exact He].
  - (* BSetSegMarker *) eapply onB_rej; [apply bp_set_segmarker_clean | exact He].
  - (* BRemoveSegMarker *) eapply onB_rej; [apply bp_remove_segmarker_clean | exact He].
  - (* BSetSR *) eapply onB_rej; [apply (ok_clean (fun b => set_sr b v)) | exact He].
  - (* BSetMarker *)
    eapply onB_rej; [apply (ok_clean (fun b => if (id =? 1)%Z then set_am1 b l else set_am2 b l)) | exact He].
  - (* BCopy *) destruct (getB st r); [discriminate He | reflexivity].
  - (* BAdd *) destruct (getB st r1); [|reflexivity]. destruct (getB st r2); [discriminate He | reflexivity].
  - (* BFromJson *)
    destruct (getB st r) as [b|]; [|reflexivity].
    destruct (bp_from_descr (json_rt (bp_descr b))); [discriminate He | reflexivity].
  - (* ENew *) discriminate He.
  - (* EAddBp *) destruct (getB st r) as [b|]; [|reflexivity]. eapply onE_rej; [apply el_add_bp_clean | exact He].
  - (* EAddArray *) eapply onE_rej; [apply el_add_array_clean | exact He].
  - (* EAddFlags *) eapply onE_rej; [apply el_add_flags_clean | exact He].
  - (* EChangeArg *) destruct ev; [contradiction|]. eapply onE_rej; [apply el_change_arg_clean | exact He].
  - (* EChangeDur *) destruct ev; [contradiction|]. eapply onE_rej; [apply el_change_dur_clean | exact He].
  - (* ECopy *) destruct (getE st e0); [discriminate He | reflexivity].
  - (* EFromJson *)
    destruct (getE st e0) as [x|]; [|reflexivity].
    destruct (do d <- el_descr x; el_from_descr (json_rt d)); [discriminate He | reflexivity].
  - (* SNew *) discriminate He.
  - (* SSetSR *) eapply onS_rej; [apply (ok_clean (fun x => seq_set_sr x v)) | exact He].
  - (* SSetAmp *) eapply onS_rej; [apply (ok_clean (fun x => seq_set_amp x c v)) | exact He].
  - (* SSetOff *) eapply onS_rej; [apply (ok_clean (fun x => seq_set_off x c v)) | exact He].
  - (* SSetDelay *) eapply onS_rej; [apply (ok_clean (fun x => seq_set_delay x c v)) | exact He].
  - (* SSetFilter *) eapply onS_rej; [apply seq_set_filter_clean | exact He].
  - (* SAddElement *)
    destruct (getE st e0) as [x|]; [|reflexivity]. eapply onS_rej; [apply seq_add_element_clean | exact He].
  - (* SAddSub *)
    destruct (getS st s2) as [x|]; [|reflexivity]. eapply onS_rej; [apply seq_add_sub_clean | exact He].
  - (* SSetSequencing *) eapply onS_rej; [apply seq_set_sequencing_clean | exact He].
  - (* SSetSettings *) eapply onS_rej; [apply (ok_clean (fun q => seq_set_settings q pos w n j g)) | exact He].
  - (* SSetName *) eapply onS_rej; [apply (ok_clean (fun q : seq => mkSeq (sdata q) (sseq q) (sspecs q) n)) | exact He].
  - (* SAdd *)
    destruct (getS st s1) as [a|]; [|reflexivity]. destruct (getS st s2) as [b|]; [|reflexivity].
    destruct (seq_add a b); [discriminate He | reflexivity].
  - (* SCopy *) destruct (getS st s); [discriminate He | reflexivity].
  - (* SFromJson *)
    destruct (getS st s) as [x|]; [|reflexivity].
    destruct (do d <- seq_descr x; seq_from_descr (json_rt d)); [discriminate He | reflexivity].
  - (* SElemChangeArg *)
    destruct ev; [contradiction|].
    eapply onS_rej; [apply on_seq_elem_clean; apply el_change_arg_clean | exact He].
  - (* SElemChangeDur *)
    destruct ev; [contradiction|].
    eapply onS_rej; [apply on_seq_elem_clean; apply el_change_dur_clean | exact He].
  - (* SElemAddBp *)
    destruct (getB st r) as [b|]; [|reflexivity].
    eapply onS_rej; [apply on_seq_elem_clean; apply el_add_bp_clean | exact He].
  - (* SElemAddArray *) eapply onS_rej; [apply on_seq_elem_clean; apply el_add_array_clean | exact He].
  - (* SElemAddFlags *) eapply onS_rej; [apply on_seq_elem_clean; apply el_add_flags_clean | exact He].
  - (* TVarying *)
    destruct (getE st e0) as [x|]; [|reflexivity].
    destruct (make_varying x cs ns ars its); [discriminate He | reflexivity].
  - (* TRepeat *)
    destruct (getS st s) as [x|]; [|reflexivity].
    destruct (repeat_and_vary x ps cs ns ars its); [discriminate He | reflexivity].
  - (* TLinear *)
    destruct (getE st e0) as [x|]; [|reflexivity].
    destruct (make_linear x c n a start stop stp); [discriminate He | reflexivity].
Qed.

Lemma handle_edit_frame : forall q pos f q' o,
  on_seq_elem q pos f = (q', o) ->
  sseq q' = sseq q /\ sspecs q' = sspecs q /\ sname q' = sname q /\ map fst (sdata q') = map fst (sdata q) /\
  (forall p, p <> pos -> alookup Z.eqb p (sdata q') = alookup Z.eqb p (sdata q)) /\
  (forall e, alookup Z.eqb pos (sdata q) = Some (EElem e) ->
     alookup Z.eqb pos (sdata q') = Some (EElem (fst (f e))) /\ o = snd (f e)).
Proof.
  intros q pos f q' o H. unfold on_seq_elem, fail in H.
  destruct (alookup Z.eqb pos (sdata q)) as [[x|sb]|] eqn:L.
  - destruct (f x) as [x' o'] eqn:F. injection H as <- <-. unfold set_sdata. cbn [sdata sseq sspecs sname].
    split; [reflexivity|]. split; [reflexivity|]. split; [reflexivity|].
    split; [exact (af_keys_aset Z.eqb Z.eqb_eq _ _ _ _ L)|].
    split.
    + intros p Hp. apply (af_lookup_aset_neq Z.eqb Z.eqb_eq). exact Hp.
    + intros e He. injection He as <-. rewrite F. cbn [fst snd].
      split; [apply (af_lookup_aset_eq Z.eqb Z.eqb_eq) | reflexivity].
  - injection H as <- <-. do 4 (split; [reflexivity|]). split; [intros p Hp; reflexivity|].
    intros e He. discriminate He.
  - injection H as <- <-. do 4 (split; [reflexivity|]). split; [intros p Hp; reflexivity|].
    intros e He. discriminate He.
Qed.
