(* Facts about the sweep tools (Model/Tools.v) behind Props/C17.v.
   Definitions used by the statements come first; lemmas follow. *)
From Coq Require Import String Ascii List Arith ZArith QArith Qabs Bool Lia Lqa FinFun.
From BB Require Import Base.Names Base.Num Base.PyList Model.Types Model.Blueprint Model.Forge Model.Element
  Model.PyVal Model.Sequence Model.Tools.
Import ListNotations.

(* the m-th values of all variations applied, in order, to one element *)
Fixpoint apply_steps (e : elem) (vs : list (chan * (str * (argref * list val)))) (m : nat) : result elem :=
  match vs with
  | [] => Ok e
  | (c, (n, (a, vals))) :: t =>
      match nth_error vals m with
      | None => Err EIndex
      | Some v => match el_vary e c n a v with
                  | (e', None) => apply_steps e' t m
                  | (_, Some er) => Err er
                  end
      end
  end.

(* ---- lemmas: to be proved (see Props/C17.v for the exact statements needed) ---- *)

(* ---- generic helpers ---- *)
Lemma str_eqb_refl a : str_eqb a a = true.
Proof. unfold str_eqb. destruct (list_eq_dec ascii_dec a a) as [e|n]; [reflexivity|contradiction]. Qed.

Lemma alookup_aset_eq {V} k (v : V) l : alookup Z.eqb k (aset Z.eqb k v l) = Some v.
Proof.
  induction l as [|[k' v'] t IH]; cbn [aset alookup].
  - rewrite Z.eqb_refl. reflexivity.
  - destruct (Z.eqb k k') eqn:E; cbn [alookup].
    + rewrite Z.eqb_refl. reflexivity.
    + rewrite E. exact IH.
Qed.

Lemma alookup_aset_neq {V} k0 k (v : V) l : k0 <> k -> alookup Z.eqb k0 (aset Z.eqb k v l) = alookup Z.eqb k0 l.
Proof.
  intro Hne. induction l as [|[k' v'] t IH]; cbn [aset alookup].
  - destruct (Z.eqb k0 k) eqn:E; [apply Z.eqb_eq in E; contradiction|reflexivity].
  - destruct (Z.eqb k k') eqn:E; cbn [alookup].
    + apply Z.eqb_eq in E. subst k'.
      destruct (Z.eqb k0 k) eqn:E2; [apply Z.eqb_eq in E2; contradiction|reflexivity].
    + rewrite IH. reflexivity.
Qed.

Lemma alookup_in_keys {V} k (v : V) l : alookup Z.eqb k l = Some v -> In k (akeys l).
Proof.
  unfold akeys. induction l as [|[k' v'] t IH]; cbn [alookup map fst]; intro H; [discriminate|].
  destruct (Z.eqb k k') eqn:E.
  - apply Z.eqb_eq in E. left. symmetry. exact E.
  - right. apply IH. exact H.
Qed.

Lemma akeys_aset_in {V} k (v : V) l : In k (akeys l) -> akeys (aset Z.eqb k v l) = akeys l.
Proof.
  unfold akeys. induction l as [|[k' v'] t IH]; cbn [aset map fst]; intro H; [contradiction|].
  destruct (Z.eqb k k') eqn:E; cbn [map fst].
  - apply Z.eqb_eq in E. subst k'. reflexivity.
  - f_equal. apply IH. destruct H as [H|H]; [subst k'; rewrite Z.eqb_refl in E; discriminate|exact H].
Qed.

Lemma akeys_aset_new {V} k (v : V) l : ~ In k (akeys l) -> akeys (aset Z.eqb k v l) = akeys l ++ [k].
Proof.
  unfold akeys. induction l as [|[k' v'] t IH]; cbn [aset map fst app]; intro H; [reflexivity|].
  destruct (Z.eqb k k') eqn:E; cbn [map fst].
  - apply Z.eqb_eq in E. subst k'. exfalso. apply H. left. reflexivity.
  - f_equal. apply IH. intro Hin. apply H. right. exact Hin.
Qed.

Lemma range1_length n : length (range1 n) = n.
Proof. unfold range1. rewrite map_length, seq_length. reflexivity. Qed.

Lemma range1_NoDup n : NoDup (range1 n).
Proof.
  unfold range1. apply FinFun.Injective_map_NoDup; [|apply seq_NoDup].
  intros x y Hxy. lia.
Qed.

Lemma map_fst_combine {A B} (l : list A) (l' : list B) : length l = length l' -> map fst (combine l l') = l.
Proof.
  revert l'. induction l as [|x t IH]; intros [|y t'] H; cbn [combine map fst]; try reflexivity; try discriminate.
  f_equal. apply IH. cbn [length] in H. lia.
Qed.

Lemma in_combine_seq {B} (g : nat -> Z) : forall (vals : list B) a m v,
  nth_error vals m = Some v -> In (g (a + m)%nat, v) (combine (map g (List.seq a (length vals))) vals).
Proof.
  induction vals as [|x t IH]; intros a m v H.
  - destruct m; discriminate.
  - cbn [length List.seq map combine]. destruct m as [|m]; cbn [nth_error] in H.
    + injection H as ->. left. rewrite Nat.add_0_r. reflexivity.
    + right. replace (a + S m)%nat with (S a + m)%nat by lia. apply IH. exact H.
Qed.

Lemma in_combine_range1 (vals : list val) m v :
  nth_error vals m = Some v -> In ((Z.of_nat m + 1)%Z, v) (combine (range1 (length vals)) vals).
Proof.
  intro H. unfold range1. exact (in_combine_seq (fun k => (Z.of_nat k + 1)%Z) vals 0%nat m v H).
Qed.

Lemma nth_error_map_seq {B} (f : nat -> B) : forall N a k,
  (k < N)%nat -> nth_error (map f (List.seq a N)) k = Some (f (a + k)%nat).
Proof.
  induction N as [|N IH]; intros a k H; [lia|].
  cbn [List.seq map]. destruct k as [|k]; cbn [nth_error].
  - rewrite Nat.add_0_r. reflexivity.
  - replace (a + S k)%nat with (S a + k)%nat by lia. apply IH. lia.
Qed.

(* ---- step_is_edit ---- *)
Lemma step_is_edit : forall e c n a v,
  el_vary e c n a v = (if is_duration a then el_change_dur e c n v false else el_change_arg e c n a v false).
Proof. reflexivity. Qed.

(* ---- same_len ---- *)
Lemma same_len4 a b c d : same_len [a; b; c; d] = true <-> (a = b /\ b = c /\ c = d).
Proof.
  unfold same_len, all_eq_first. cbn [forallb]. rewrite !andb_true_iff, !Nat.eqb_eq. lia.
Qed.

Lemma same_len5 a b c d e : same_len [a; b; c; d; e] = true <-> (a = b /\ b = c /\ c = d /\ d = e).
Proof.
  unfold same_len, all_eq_first. cbn [forallb]. rewrite !andb_true_iff, !Nat.eqb_eq. lia.
Qed.

(* ---- the loops of the definitions, named ---- *)
Definition fill_loop (base : elem) : list Z -> seq -> result seq :=
  fix fill (ks : list Z) (acc : seq) : result seq :=
    match ks with
    | [] => Ok acc
    | k :: t => do a <- step_res (seq_add_element acc k base); fill t a
    end.

Definition inner_loop (c : chan) (n : str) (a : argref) : list (Z * val) -> seq -> result seq :=
  fix inner (kv : list (Z * val)) (sq : seq) : result seq :=
    match kv with
    | [] => Ok sq
    | (k, v) :: kt =>
        match alookup Z.eqb k (sdata sq) with
        | Some (EElem e) =>
            match el_vary e c n a v with
            | (e', None) => inner kt (set_sdata sq (aset Z.eqb k (EElem e') (sdata sq)))
            | (_, Some er) => Err er
            end
        | Some (ESub _) => Err EAttr
        | None => Err EKey
        end
    end.

Definition outer_loop : list (chan * (str * (argref * list val))) -> seq -> result seq :=
  fix outer (vs : list (chan * (str * (argref * list val)))) (acc : seq) : result seq :=
    match vs with
    | [] => Ok acc
    | (c, (n, (a, vals))) :: t =>
        do acc' <- inner_loop c n a (combine (range1 (length vals)) vals) acc;
        outer t acc'
    end.

Lemma make_varying_eq base channels nms ars iters :
  make_varying base channels nms ars iters =
  (do _ <- el_validate base;
   if negb (same_len [length channels; length nms; length ars; length iters]) then Err EValue else
   match iters with
   | [] => Err EIndex
   | it0 :: _ =>
     if negb (forallb (fun it => Nat.eqb (length it) (length it0)) iters) then Err EValue else
     do SR <- el_sr base;
     do s0 <- fill_loop base (range1 (length it0)) (seq_set_sr seq_empty SR);
     do s1 <- outer_loop (combine channels (combine nms (combine ars iters))) s0;
     do c <- seq_check s1;
     if c then Ok s1 else Err ESeqConsistency
   end).
Proof. reflexivity. Qed.

Lemma fill_loop_cons base k t acc :
  fill_loop base (k :: t) acc = (do a <- step_res (seq_add_element acc k base); fill_loop base t a).
Proof. reflexivity. Qed.

Lemma outer_loop_cons c n a vals t acc :
  outer_loop ((c, (n, (a, vals))) :: t) acc =
  (do acc' <- inner_loop c n a (combine (range1 (length vals)) vals) acc; outer_loop t acc').
Proof. reflexivity. Qed.

Lemma inner_loop_cons c n a k v kt sq :
  inner_loop c n a ((k, v) :: kt) sq =
  match alookup Z.eqb k (sdata sq) with
  | Some (EElem e) =>
      match el_vary e c n a v with
      | (e', None) => inner_loop c n a kt (set_sdata sq (aset Z.eqb k (EElem e') (sdata sq)))
      | (_, Some er) => Err er
      end
  | Some (ESub _) => Err EAttr
  | None => Err EKey
  end.
Proof. reflexivity. Qed.

(* ---- length mismatches ---- *)
Lemma varying_length_mismatch : forall base cs ns ars its,
  (exists r, el_validate base = Ok r) ->
  (~ (length cs = length ns /\ length ns = length ars /\ length ars = length its) \/
   (exists a b, In a its /\ In b its /\ length a <> length b)) ->
  make_varying base cs ns ars its = Err EValue.
Proof.
  intros base cs ns ars its [r Hr] H. rewrite make_varying_eq. rewrite Hr. cbn [bind].
  destruct (same_len [length cs; length ns; length ars; length its]) eqn:Esl; cbn [negb]; [|reflexivity].
  apply same_len4 in Esl.
  destruct H as [H|(a & b & Ha & Hb & Hab)]; [contradiction|].
  destruct its as [|it0 itt]; [contradiction|].
  destruct (forallb (fun it => Nat.eqb (length it) (length it0)) (it0 :: itt)) eqn:Efa; cbn [negb]; [|reflexivity].
  rewrite forallb_forall in Efa.
  pose proof (Efa a Ha) as Ea. pose proof (Efa b Hb) as Eb.
  apply Nat.eqb_eq in Ea, Eb. exfalso. apply Hab. lia.
Qed.

Lemma repeat_length_mismatch : forall sq ps cs ns ars its,
  seq_check sq = Ok true ->
  ~ (length ps = length cs /\ length cs = length ns /\ length ns = length ars /\ length ars = length its) ->
  repeat_and_vary sq ps cs ns ars its = Err EValue.
Proof.
  intros sq ps cs ns ars its Hc H. unfold repeat_and_vary. rewrite Hc. cbn [bind negb].
  destruct (same_len [length ps; length cs; length ns; length ars; length its]) eqn:Esl; cbn [negb]; [|reflexivity].
  apply same_len5 in Esl. contradiction.
Qed.

(* ---- repeat_and_vary ---- *)
Definition repeat_loop (f : nat -> result seq) : list nat -> seq -> result seq :=
  fix go (ms : list nat) (acc : seq) : result seq :=
    match ms with
    | [] => Ok acc
    | m :: t => do tmp <- f m; do acc' <- seq_add acc tmp; go t acc'
    end.

Lemma repeat_loop_spec (f : nat -> result seq) : forall ms acc r,
  repeat_loop f ms acc = Ok r ->
  exists steps, mapM f ms = Ok steps /\
    fold_left (fun acc t => match acc with Ok x => seq_add x t | Err e => Err e end) steps (Ok acc) = Ok r.
Proof.
  induction ms as [|m t IH]; intros acc r H.
  - cbn [repeat_loop] in H. injection H as <-. exists []. split; reflexivity.
  - change (repeat_loop f (m :: t) acc) with (do tmp <- f m; do acc' <- seq_add acc tmp; repeat_loop f t acc') in H.
    destruct (f m) as [tmp|er] eqn:Ef; cbn [bind] in H; [|discriminate].
    destruct (seq_add acc tmp) as [acc'|er] eqn:Ea; cbn [bind] in H; [|discriminate].
    destruct (IH acc' r H) as (steps & Hm & Hf).
    exists (tmp :: steps). split.
    + cbn [mapM]. rewrite Ef. cbn [bind]. rewrite Hm. reflexivity.
    + cbn [fold_left]. rewrite Ea. exact Hf.
Qed.

Lemma repeat_spec : forall sq ps cs ns ars its r it0,
  repeat_and_vary sq ps cs ns ars its = Ok r -> hd_error its = Some it0 ->
  let vars := map (fun x : Z * (chan * (str * (argref * list val))) =>
                     let '(p, (c, (n, (a, vs)))) := x in mkVar p c n a vs)
                  (combine ps (combine cs (combine ns (combine ars its)))) in
  exists steps, mapM (apply_variations sq vars) (List.seq 0 (length it0)) = Ok steps /\
    fold_left (fun acc t => match acc with Ok x => seq_add x t | Err e => Err e end) steps
              (Ok (mkSeq [] [] (sspecs sq) [])) = Ok r.
Proof.
  intros sq ps cs ns ars its r it0 H Hhd vars.
  unfold repeat_and_vary in H.
  destruct (seq_check sq) as [c|er] eqn:Ec; cbn [bind] in H; [|discriminate].
  destruct (negb c); [discriminate|].
  destruct (negb (same_len [length ps; length cs; length ns; length ars; length its])); [discriminate|].
  destruct its as [|it0' itt]; [discriminate|].
  cbn [hd_error] in Hhd. injection Hhd as ->.
  destruct (negb (forallb (fun it => Nat.eqb (length it) (length it0)) (it0 :: itt))); [discriminate|].
  apply (repeat_loop_spec (apply_variations sq vars)). exact H.
Qed.

(* ---- linspace ---- *)
Lemma linspace_spec : forall start stop n,
  (2 <= n)%Z ->
  length (linspace start stop n) = Z.to_nat n /\
  (forall k, (k < Z.to_nat n)%nat ->
     exists v, nth_error (linspace start stop n) k = Some v /\
               (v == start + inject_Z (Z.of_nat k) * ((stop - start) / inject_Z (n - 1)))%Q) /\
  (exists v, nth_error (linspace start stop n) 0 = Some v /\ (v == start)%Q) /\
  (exists v, nth_error (linspace start stop n) (Z.to_nat n - 1) = Some v /\ (v == stop)%Q).
Proof.
  intros start stop n Hn. unfold linspace.
  destruct (n <=? 1)%Z eqn:E; [apply Z.leb_le in E; lia|].
  set (f := fun k : nat => (start + inject_Z (Z.of_nat k) * ((stop - start) / inject_Z (n - 1)))%Q).
  split; [rewrite map_length, seq_length; reflexivity|].
  split; [|split].
  - intros k Hk. exists (f k). split; [|reflexivity].
    rewrite (nth_error_map_seq f (Z.to_nat n) 0 k Hk). reflexivity.
  - exists (f 0%nat). split.
    + rewrite (nth_error_map_seq f (Z.to_nat n) 0 0) by lia. reflexivity.
    + unfold f. cbn [Z.of_nat]. set (x := ((stop - start) / inject_Z (n - 1))%Q).
      change (inject_Z 0) with 0%Q. ring.
  - exists (f (Z.to_nat n - 1)%nat). split.
    + rewrite (nth_error_map_seq f (Z.to_nat n) 0 (Z.to_nat n - 1)) by lia. reflexivity.
    + unfold f. replace (Z.of_nat (Z.to_nat n - 1)) with (n - 1)%Z by lia.
      assert (Hnz : ~ (inject_Z (n - 1) == 0)%Q).
      { unfold Qeq. cbn [Qnum Qden inject_Z]. lia. }
      field. exact Hnz.
Qed.

(* ---- make_linear ---- *)
Definition linear_loop (base : elem) (c : chan) (n : str) (a : argref) : list (Z * Q) -> seq -> result seq :=
  fix go (kv : list (Z * Q)) (acc : seq) : result seq :=
    match kv with
    | [] => Ok acc
    | (k, v) :: t =>
        match el_vary base c n a (VNum v) with
        | (e', None) => do acc' <- step_res (seq_add_element acc k e'); go t acc'
        | (_, Some er) => Err er
        end
    end.

Lemma linear_loop_cons base c n a k v t acc :
  linear_loop base c n a ((k, v) :: t) acc =
  match el_vary base c n a (VNum v) with
  | (e', None) => do acc' <- step_res (seq_add_element acc k e'); linear_loop base c n a t acc'
  | (_, Some er) => Err er
  end.
Proof. reflexivity. Qed.

Lemma add_element_ok acc k e a :
  step_res (seq_add_element acc k e) = Ok a ->
  sdata a = aset Z.eqb k (EElem e) (sdata acc) /\ sspecs a = sspecs acc.
Proof.
  unfold seq_add_element. destruct (el_validate e) as [r|er]; cbn [step_res fail ok]; intro H; [|discriminate].
  injection H as <-. split; reflexivity.
Qed.

Lemma linear_loop_keys base c n a : forall kv acc s,
  linear_loop base c n a kv acc = Ok s ->
  NoDup (akeys (sdata acc) ++ map fst kv) ->
  akeys (sdata s) = akeys (sdata acc) ++ map fst kv.
Proof.
  induction kv as [|[k v] t IH]; intros acc s H Hnd.
  - cbn [linear_loop] in H. injection H as <-. cbn [map]. rewrite app_nil_r. reflexivity.
  - rewrite linear_loop_cons in H.
    destruct (el_vary base c n a (VNum v)) as [e' [er|]]; [discriminate|].
    destruct (step_res (seq_add_element acc k e')) as [acc'|er] eqn:Ea; cbn [bind] in H; [|discriminate].
    apply add_element_ok in Ea. destruct Ea as [Ed _].
    cbn [map fst] in Hnd |- *.
    assert (Hk : akeys (sdata acc') = akeys (sdata acc) ++ [k]).
    { rewrite Ed. apply akeys_aset_new. intro Hin. apply NoDup_remove_2 in Hnd. apply Hnd.
      apply in_or_app. left. exact Hin. }
    rewrite (IH acc' s H).
    + rewrite Hk, <- app_assoc. reflexivity.
    + rewrite Hk, <- app_assoc. exact Hnd.
Qed.

Lemma linear_count : forall base c n a start stop stp s,
  make_linear base c n a start stop stp = Ok s ->
  length (sdata s) = length (linspace start stop (rnd (Qabs (stop - start) / stp) + 1)).
Proof.
  intros base c n a start stop stp s H. unfold make_linear in H.
  destruct (el_sr base) as [SR|er]; cbn [bind] in H; [|discriminate].
  destruct (Qeq_bool stp 0); [discriminate|].
  destruct (rnd (Qabs (stop - start) / stp) + 1 <? 0)%Z; [discriminate|].
  set (vals := linspace start stop (rnd (Qabs (stop - start) / stp) + 1)) in *.
  change (linear_loop base c n a (combine (range1 (length vals)) vals) (seq_set_sr seq_empty SR) = Ok s) in H.
  apply linear_loop_keys in H.
  - change (sdata (seq_set_sr seq_empty SR)) with (@nil (Z * entry)) in H. cbn [akeys map app] in H.
    rewrite map_fst_combine in H by apply range1_length.
    rewrite <- (map_length fst (sdata s)). change (map fst (sdata s)) with (akeys (sdata s)).
    rewrite H. apply range1_length.
  - change (sdata (seq_set_sr seq_empty SR)) with (@nil (Z * entry)). cbn [akeys map app].
    rewrite map_fst_combine by apply range1_length. apply range1_NoDup.
Qed.

(* ---- make_varying ---- *)
Lemma apply_steps_app : forall vs1 vs2 e m,
  apply_steps e (vs1 ++ vs2) m =
  match apply_steps e vs1 m with Ok e' => apply_steps e' vs2 m | Err er => Err er end.
Proof.
  induction vs1 as [|[c [n [a vals]]] t IH]; intros vs2 e m.
  - reflexivity.
  - cbn [app apply_steps]. destruct (nth_error vals m) as [v|]; [|reflexivity].
    destruct (el_vary e c n a v) as [e' [er|]]; [reflexivity|]. apply IH.
Qed.

Lemma fill_loop_spec base : forall ks acc s,
  fill_loop base ks acc = Ok s ->
  NoDup (akeys (sdata acc) ++ ks) ->
  akeys (sdata s) = akeys (sdata acc) ++ ks /\ sspecs s = sspecs acc /\
  (forall k, In k ks \/ alookup Z.eqb k (sdata acc) = Some (EElem base) ->
             alookup Z.eqb k (sdata s) = Some (EElem base)).
Proof.
  induction ks as [|k t IH]; intros acc s H Hnd.
  - cbn [fill_loop] in H. injection H as <-. rewrite app_nil_r.
    split; [reflexivity|]. split; [reflexivity|]. intros k [Hk|Hk]; [contradiction|exact Hk].
  - rewrite fill_loop_cons in H.
    destruct (step_res (seq_add_element acc k base)) as [acc'|er] eqn:Ea; cbn [bind] in H; [|discriminate].
    apply add_element_ok in Ea. destruct Ea as [Ed Es].
    assert (Hk : akeys (sdata acc') = akeys (sdata acc) ++ [k]).
    { rewrite Ed. apply akeys_aset_new. intro Hin. apply NoDup_remove_2 in Hnd. apply Hnd.
      apply in_or_app. left. exact Hin. }
    destruct (IH acc' s H) as (Hkeys & Hspecs & Hlk).
    { rewrite Hk, <- app_assoc. exact Hnd. }
    split; [rewrite Hkeys, Hk, <- app_assoc; reflexivity|].
    split; [rewrite Hspecs; exact Es|].
    intros k0 Hk0. apply Hlk.
    destruct (Z.eq_dec k0 k) as [->|Hne].
    + right. rewrite Ed. apply alookup_aset_eq.
    + destruct Hk0 as [[Heq|Hin]|Hl].
      * exfalso. apply Hne. symmetry. exact Heq.
      * left. exact Hin.
      * right. rewrite Ed, alookup_aset_neq by exact Hne. exact Hl.
Qed.

Lemma inner_loop_spec c n a : forall kv sq sq',
  inner_loop c n a kv sq = Ok sq' ->
  NoDup (map fst kv) ->
  akeys (sdata sq') = akeys (sdata sq) /\ sspecs sq' = sspecs sq /\
  (forall k, ~ In k (map fst kv) -> alookup Z.eqb k (sdata sq') = alookup Z.eqb k (sdata sq)) /\
  (forall k v, In (k, v) kv -> exists e e',
     alookup Z.eqb k (sdata sq) = Some (EElem e) /\ el_vary e c n a v = (e', None) /\
     alookup Z.eqb k (sdata sq') = Some (EElem e')).
Proof.
  induction kv as [|[k v] kt IH]; intros sq sq' H Hnd.
  - cbn [inner_loop] in H. injection H as <-.
    split; [reflexivity|]. split; [reflexivity|]. split; [reflexivity|].
    intros k v Hin. contradiction.
  - rewrite inner_loop_cons in H.
    destruct (alookup Z.eqb k (sdata sq)) as [[e|sb]|] eqn:El; [|discriminate|discriminate].
    destruct (el_vary e c n a v) as [e' [er|]] eqn:Ev; [discriminate|].
    cbn [map fst] in Hnd. apply NoDup_cons_iff in Hnd. destruct Hnd as [Hnin Hnd].
    destruct (IH _ sq' H Hnd) as (Hkeys & Hspecs & Hother & Hin).
    cbn [set_sdata sdata sspecs] in Hkeys, Hspecs, Hother, Hin.
    split; [|split; [|split]].
    + rewrite Hkeys. apply akeys_aset_in. apply (alookup_in_keys k (EElem e)). exact El.
    + exact Hspecs.
    + intros k0 Hk0. cbn [map fst] in Hk0.
      rewrite Hother by (intro Hx; apply Hk0; right; exact Hx).
      apply alookup_aset_neq. intro Heq. apply Hk0. left. symmetry. exact Heq.
    + intros k0 v0 [Heq|Hk0].
      * injection Heq as <- <-. exists e, e'. split; [exact El|]. split; [exact Ev|].
        rewrite Hother by exact Hnin. apply alookup_aset_eq.
      * destruct (Hin k0 v0 Hk0) as (e1 & e1' & Hl1 & Hv1 & Hl1').
        assert (Hne : k0 <> k).
        { intro Heq. subst k0. apply Hnin. apply (in_map fst) in Hk0. exact Hk0. }
        rewrite alookup_aset_neq in Hl1 by exact Hne.
        exists e1, e1'. split; [exact Hl1|]. split; [exact Hv1|exact Hl1'].
Qed.

(* the state of the sequence after the variations vs' have been applied *)
Definition varied (base : elem) (M : nat) (specs : list (str * specval))
    (vs' : list (chan * (str * (argref * list val)))) (s : seq) : Prop :=
  akeys (sdata s) = range1 M /\ sspecs s = specs /\
  forall m, (m < M)%nat ->
    exists e, alookup Z.eqb (Z.of_nat m + 1) (sdata s) = Some (EElem e) /\ apply_steps base vs' m = Ok e.

Lemma outer_loop_spec base M specs : forall t vs' acc s1,
  outer_loop t acc = Ok s1 ->
  (forall c n a vals, In (c, (n, (a, vals))) t -> length vals = M) ->
  varied base M specs vs' acc -> varied base M specs (vs' ++ t) s1.
Proof.
  induction t as [|[c [n [a vals]]] t IH]; intros vs' acc s1 H Hlen Hinv.
  - cbn [outer_loop] in H. injection H as <-. rewrite app_nil_r. exact Hinv.
  - rewrite outer_loop_cons in H.
    destruct (inner_loop c n a (combine (range1 (length vals)) vals) acc) as [acc'|er] eqn:Ei;
      cbn [bind] in H; [|discriminate].
    assert (HM : length vals = M) by (apply (Hlen c n a vals); left; reflexivity).
    assert (Hfst : map fst (combine (range1 (length vals)) vals) = range1 M).
    { rewrite map_fst_combine by apply range1_length. rewrite HM. reflexivity. }
    apply inner_loop_spec in Ei; [|rewrite Hfst; apply range1_NoDup].
    destruct Ei as (Hkeys & Hspecs & _ & Hin).
    destruct Hinv as (Ikeys & Ispecs & Ilk).
    replace (vs' ++ (c, (n, (a, vals))) :: t) with ((vs' ++ [(c, (n, (a, vals)))]) ++ t)
      by (rewrite <- app_assoc; reflexivity).
    apply (IH _ acc' s1 H).
    + intros c0 n0 a0 vals0 Hx. apply (Hlen c0 n0 a0 vals0). right. exact Hx.
    + split; [rewrite Hkeys; exact Ikeys|]. split; [rewrite Hspecs; exact Ispecs|].
      intros m Hm.
      destruct (nth_error vals m) as [v|] eqn:Env; [|apply nth_error_None in Env; lia].
      destruct (Hin _ v (in_combine_range1 vals m v Env)) as (e & e' & Hl & Hv & Hl').
      destruct (Ilk m Hm) as (e0 & Hl0 & Ha0).
      rewrite Hl in Hl0. injection Hl0 as <-.
      exists e'. split; [exact Hl'|].
      rewrite apply_steps_app, Ha0. cbn [apply_steps]. rewrite Env, Hv. reflexivity.
Qed.

Lemma in_vs_in_its : forall (cs : list chan) (ns : list str) (ars : list argref) (its : list (list val)) c n a vals,
  In (c, (n, (a, vals))) (combine cs (combine ns (combine ars its))) -> In vals its.
Proof.
  intros cs ns ars its c n a vals H.
  apply in_combine_r in H. apply in_combine_r in H. apply in_combine_r in H. exact H.
Qed.

Lemma make_varying_spec : forall base cs ns ars its s it0,
  make_varying base cs ns ars its = Ok s -> hd_error its = Some it0 ->
  let vs := combine cs (combine ns (combine ars its)) in
  length (sdata s) = length it0 /\
  seq_check s = Ok true /\
  (exists SR, el_sr base = Ok SR /\ seq_SR s = SR) /\
  forall m, (m < length it0)%nat ->
    exists e, alookup Z.eqb (Z.of_nat m + 1) (sdata s) = Some (EElem e) /\ apply_steps base vs m = Ok e.
Proof.
  intros base cs ns ars its s it0 H Hhd vs.
  rewrite make_varying_eq in H.
  destruct (el_validate base) as [r0|er] eqn:Eval; cbn [bind] in H; [|discriminate].
  destruct (negb (same_len [length cs; length ns; length ars; length its])); [discriminate|].
  destruct its as [|it0' itt]; [discriminate|].
  cbn [hd_error] in Hhd. injection Hhd as ->.
  destruct (forallb (fun it => Nat.eqb (length it) (length it0)) (it0 :: itt)) eqn:Efa; cbn [negb] in H; [|discriminate].
  destruct (el_sr base) as [SR|er] eqn:Esr; cbn [bind] in H; [|discriminate].
  destruct (fill_loop base (range1 (length it0)) (seq_set_sr seq_empty SR)) as [s0|er] eqn:Ef;
    cbn [bind] in H; [|discriminate].
  destruct (outer_loop (combine cs (combine ns (combine ars (it0 :: itt)))) s0) as [s1|er] eqn:Eo;
    cbn [bind] in H; [|discriminate].
  destruct (seq_check s1) as [chk|er] eqn:Ec; cbn [bind] in H; [|discriminate].
  destruct chk; [|discriminate]. injection H as <-.
  apply fill_loop_spec in Ef; [|apply range1_NoDup].
  change (sdata (seq_set_sr seq_empty SR)) with (@nil (Z * entry)) in Ef. cbn [akeys map app] in Ef.
  destruct Ef as (Fkeys & Fspecs & Flk).
  assert (Hinit : varied base (length it0) (sspecs (seq_set_sr seq_empty SR)) [] s0).
  { split; [exact Fkeys|]. split; [exact Fspecs|]. intros m Hm. exists base. split; [|reflexivity].
    apply Flk. left. unfold range1. apply in_map_iff. exists m. split; [reflexivity|]. apply in_seq. lia. }
  apply (outer_loop_spec base (length it0) (sspecs (seq_set_sr seq_empty SR)) _ [] s0 s1) in Eo; [|
    intros c n a vals Hx; apply in_vs_in_its in Hx; rewrite forallb_forall in Efa;
    apply Nat.eqb_eq; exact (Efa vals Hx) | exact Hinit].
  cbn [app] in Eo. destruct Eo as (Okeys & Ospecs & Olk).
  split; [|split; [exact Ec|split; [|exact Olk]]].
  - rewrite <- (map_length fst (sdata s1)). change (map fst (sdata s1)) with (akeys (sdata s1)).
    rewrite Okeys. apply range1_length.
  - exists SR. split; [reflexivity|]. unfold seq_SR, spec_get. rewrite Ospecs.
    unfold seq_set_sr, spec_set. cbn [sspecs seq_empty aset alookup]. rewrite str_eqb_refl. reflexivity.
Qed.
