(* Sequence description round trip (extension of C19 / C19b; Model/Descr.v seq_descr / seq_from_descr).
   Definitions used by the statements of Props/C19c.v come first in each part; lemmas follow. *)
From Coq Require Import String Ascii List Arith ZArith QArith Bool Lia.
From BB Require Import Base.Names Base.Num Base.PyList Model.Types Model.Blueprint Model.Forge Model.Element
  Model.PyVal Model.Sequence Model.Output Model.Descr Model.Tools Model.Interp Proofs.BlueprintFacts Proofs.DescrFacts
  Proofs.EqFacts Proofs.RoundTripFacts.
Import ListNotations.

(* ====================================================================================================== *)
(* Part 0: insertion-ordered dictionaries (association lists written through aset)                         *)
(* ====================================================================================================== *)
Section AssocFacts.
Context {K V : Type} (eqb : K -> K -> bool) (eqb_eq : forall a b, eqb a b = true <-> a = b).

Lemma al_eqb_refl k : eqb k k = true.
Proof. apply eqb_eq. reflexivity. Qed.

Lemma al_eqb_neq a b : a <> b -> eqb a b = false.
Proof. intro H. destruct (eqb a b) eqn:E; [|reflexivity]. apply eqb_eq in E. contradiction. Qed.

Lemma al_lookup_aset k k' (v : V) : forall l,
  alookup eqb k (aset eqb k' v l) = if eqb k k' then Some v else alookup eqb k l.
Proof.
  induction l as [|[k0 v0] t IH]; [reflexivity|].
  cbn [aset alookup]. destruct (eqb k' k0) eqn:E0.
  - apply eqb_eq in E0. subst k0. cbn [alookup]. destruct (eqb k k'); reflexivity.
  - cbn [alookup]. destruct (eqb k k0) eqn:E1.
    + apply eqb_eq in E1. subst k0. destruct (eqb k k') eqn:E2; [|reflexivity].
      apply eqb_eq in E2. subst k'. rewrite al_eqb_refl in E0. discriminate.
    + exact IH.
Qed.

Lemma al_lookup_none k : forall l : list (K * V), alookup eqb k l = None <-> ~ In k (map fst l).
Proof.
  induction l as [|[k0 v0] t IH]; cbn [alookup map fst In].
  - split; [intros _ []|reflexivity].
  - destruct (eqb k k0) eqn:E.
    + apply eqb_eq in E. subst k0. split; [discriminate|]. intro H. exfalso. apply H. left. reflexivity.
    + rewrite IH. split.
      * intros H [H1|H1]; [subst k0; rewrite al_eqb_refl in E; discriminate|contradiction].
      * intros H H1. apply H. right. exact H1.
Qed.

Lemma al_lookup_in k (v : V) : forall l, alookup eqb k l = Some v -> In (k, v) l.
Proof.
  induction l as [|[k0 v0] t IH]; cbn [alookup]; [discriminate|].
  destruct (eqb k k0) eqn:E.
  - apply eqb_eq in E. subst k0. intro H. injection H as ->. left. reflexivity.
  - intro H. right. apply IH. exact H.
Qed.

Lemma al_lookup_nodup k (v : V) : forall l, NoDup (map fst l) -> In (k, v) l -> alookup eqb k l = Some v.
Proof.
  induction l as [|[k0 v0] t IH]; intros ND Hin; [destruct Hin|].
  cbn [map fst] in ND. inversion ND as [|? ? Hnin ND']; subst. cbn [alookup].
  destruct Hin as [E|Hin].
  - injection E as -> ->. rewrite al_eqb_refl. reflexivity.
  - destruct (eqb k k0) eqn:EC.
    + apply eqb_eq in EC. subst k0. exfalso. apply Hnin.
      apply in_map_iff. exists (k, v). split; [reflexivity | exact Hin].
    + apply IH; assumption.
Qed.

Lemma al_aset_fresh k (v : V) : forall l, ~ In k (map fst l) -> aset eqb k v l = l ++ [(k, v)].
Proof.
  induction l as [|[k0 v0] t IH]; intro H; [reflexivity|].
  cbn [aset app]. destruct (eqb k k0) eqn:E.
  - apply eqb_eq in E. subst k0. exfalso. apply H. left. reflexivity.
  - rewrite IH; [reflexivity|]. intro Hin. apply H. right. exact Hin.
Qed.

Lemma al_aset_last k (v w : V) : forall l, ~ In k (map fst l) -> aset eqb k w (l ++ [(k, v)]) = l ++ [(k, w)].
Proof.
  induction l as [|[k0 v0] t IH]; intro H.
  - cbn [aset app]. rewrite al_eqb_refl. reflexivity.
  - cbn [aset app]. destruct (eqb k k0) eqn:E.
    + apply eqb_eq in E. subst k0. exfalso. apply H. left. reflexivity.
    + rewrite IH; [reflexivity|]. intro Hin. apply H. right. exact Hin.
Qed.

(* the key order after d[k] = v: unchanged when k is present, k appended otherwise *)
Definition key_add (k : K) (ks : list K) : list K := if existsb (eqb k) ks then ks else ks ++ [k].

Lemma al_keys_aset k (v : V) : forall l, map fst (aset eqb k v l) = key_add k (map fst l).
Proof.
  unfold key_add. induction l as [|[k0 v0] t IH]; [reflexivity|].
  cbn [aset map fst existsb]. destruct (eqb k k0) eqn:E.
  - apply eqb_eq in E. subst k0. reflexivity.
  - cbn [map fst orb]. rewrite IH. destruct (existsb (eqb k) (map fst t)); reflexivity.
Qed.

Lemma al_existsb_in k ks : existsb (eqb k) ks = true <-> In k ks.
Proof.
  rewrite existsb_exists. split.
  - intros (x & Hx & E). apply eqb_eq in E. subst x. exact Hx.
  - intro H. exists k. split; [exact H | apply al_eqb_refl].
Qed.

Lemma al_nodup_key_add k ks : NoDup ks -> NoDup (key_add k ks).
Proof.
  intro ND. unfold key_add. destruct (existsb (eqb k) ks) eqn:E; [exact ND|].
  assert (~ In k ks) as Hn. { intro H. apply al_existsb_in in H. rewrite H in E. discriminate. }
  clear E. induction ks as [|x t IH]; cbn [app].
  - constructor; [intros []|constructor].
  - inversion ND as [|? ? Hx ND']; subst. constructor.
    + intro H. apply in_app_or in H as [H|[H|[]]]; [contradiction|]. subst x. apply Hn. left. reflexivity.
    + apply IH; [exact ND'|]. intro H. apply Hn. right. exact H.
Qed.

Lemma al_nodup_aset k (v : V) l : NoDup (map fst l) -> NoDup (map fst (aset eqb k v l)).
Proof. intro H. rewrite al_keys_aset. apply al_nodup_key_add. exact H. Qed.

Definition aset_all (L : list (K * V)) (acc : list (K * V)) : list (K * V) :=
  fold_left (fun a p => aset eqb (fst p) (snd p) a) L acc.

Lemma al_nodup_aset_all : forall L acc, NoDup (map fst acc) -> NoDup (map fst (aset_all L acc)).
Proof.
  unfold aset_all. induction L as [|[k v] t IH]; intros acc H; [exact H|].
  cbn [fold_left fst snd]. apply IH. apply al_nodup_aset. exact H.
Qed.

Lemma al_keys_aset_all : forall L acc,
  map fst (aset_all L acc) = fold_left (fun ks k => key_add k ks) (map fst L) (map fst acc).
Proof.
  unfold aset_all. induction L as [|[k v] t IH]; intro acc; [reflexivity|].
  cbn [fold_left fst snd map]. rewrite IH, al_keys_aset. reflexivity.
Qed.

(* writing a duplicate-free dictionary over another one: its entries win, the rest is kept *)
Lemma al_lookup_aset_all : forall L acc, NoDup (map fst L) -> forall k,
  alookup eqb k (aset_all L acc) = match alookup eqb k L with Some v => Some v | None => alookup eqb k acc end.
Proof.
  unfold aset_all. induction L as [|[k0 v0] t IH]; intros acc ND k; [reflexivity|].
  cbn [map fst] in ND. inversion ND as [|? ? Hnin ND']; subst.
  cbn [fold_left fst snd alookup]. rewrite (IH _ ND'), al_lookup_aset.
  destruct (eqb k k0) eqn:E; [|reflexivity].
  apply eqb_eq in E. subst k0. apply al_lookup_none in Hnin. rewrite Hnin. reflexivity.
Qed.

Lemma al_in_keys_lookup k (l : list (K * V)) : In k (map fst l) <-> alookup eqb k l <> None.
Proof.
  split.
  - intros H E. apply al_lookup_none in E. contradiction.
  - intro H. destruct (in_dec (fun a b => match bool_dec (eqb a b) true with
                                          | left e => left (proj1 (eqb_eq a b) e)
                                          | right n => right (fun e => n (proj2 (eqb_eq a b) e)) end) k (map fst l))
      as [Hin|Hnin]; [exact Hin|]. apply al_lookup_none in Hnin. contradiction.
Qed.

(* two duplicate-free dictionaries with the same lookups have the same number of keys *)
Lemma al_same_lookup_length (l1 l2 : list (K * V)) :
  NoDup (map fst l1) -> NoDup (map fst l2) -> (forall k, alookup eqb k l1 = alookup eqb k l2) ->
  length l1 = length l2.
Proof.
  intros N1 N2 H. rewrite <- (map_length fst l1), <- (map_length fst l2).
  apply Nat.le_antisymm; apply NoDup_incl_length; try assumption;
    intros k Hk; apply al_in_keys_lookup; apply al_in_keys_lookup in Hk; [rewrite <- H | rewrite H]; exact Hk.
Qed.
End AssocFacts.

Lemma Z_eqb_eq a b : Z.eqb a b = true <-> a = b.
Proof. apply Z.eqb_eq. Qed.

(* ====================================================================================================== *)
(* Part 1: the sequence reader, with its three loops named                                                 *)
(* ====================================================================================================== *)
Section Loops.
Variables (specs : pv) (SR : val).

(* one channel of one position: the blueprint (stamped with the sequence SR), its flags, and the amplitude /
   offset of that channel copied from the awgspecs into the sequence being built *)
Definition seq_read_chan (el : elem) (sq : seq) (ck : str) (cd : pv) : result (elem * seq) :=
  do b <- bp_from_descr cd;
  do c <- int_of_str ck;
  do e1 <- step_res (el_add_bp el (CInt c) (set_sr b SR));
  do e2 <- (if pd_has "flags" cd
            then do f <- pd_get "flags" cd; do fl <- flags_of_pv f; step_res (el_add_flags e1 (CInt c) fl)
            else Ok e1);
  do amp <- pd_get (string_of_list_ascii (S_ "channel" ++ ck ++ S_ "_amplitude")) specs;
  do ampv <- val_of_pv amp;
  do off <- pd_get (string_of_list_ascii (S_ "channel" ++ ck ++ S_ "_offset")) specs;
  do offv <- val_of_pv off;
  Ok (e2, seq_set_off (seq_set_amp sq (CInt c) ampv) (CInt c) offv).

Fixpoint seq_read_chans (cl : list (pv * pv)) (el : elem) (sq : seq) : result (elem * seq) :=
  match cl with
  | [] => Ok (el, sq)
  | (PStr ck, cd) :: ct => do r <- seq_read_chan el sq ck cd; seq_read_chans ct (fst r) (snd r)
  | _ :: _ => Err EType
  end.

Definition seq_read_pos (acc : seq) (k : str) (ed : pv) : result seq :=
  do chd <- pd_get "channels" ed;
  do chitems <- pd_items chd;
  do r <- seq_read_chans chitems el_empty acc;
  do pos <- int_of_str k;
  do sq1 <- step_res (seq_add_element (snd r) pos (fst r));
  do sd <- pd_get "sequencing" ed;
  do tw <- pd_get "Wait trigger" sd; do twz <- int_of_pv tw;
  do nr <- pd_get "Repeat" sd; do nrz <- int_of_pv nr;
  do ji <- pd_get "jump_input" sd; do jiz <- int_of_pv ji;
  do jt <- pd_get "jump_target" sd; do jtz <- int_of_pv jt;
  do gt <- pd_get "Go to" sd; do gtz <- int_of_pv gt;
  Ok (set_sseq sq1 (aset Z.eqb pos (mkSq twz nrz jiz jtz gtz) (sseq sq1))).

Fixpoint seq_read_items (l : list (pv * pv)) (acc : seq) : result seq :=
  match l with
  | [] => Ok acc
  | (PStr k, ed) :: t => do a <- seq_read_pos acc k ed; seq_read_items t a
  | _ :: _ => Err EType
  end.

(* the anonymous loops of seq_from_descr, verbatim *)
Definition seq_goc_loop :=
  fix goc (cl : list (pv * pv)) (el : elem) (sq : seq) : result (elem * seq) :=
    match cl with
    | [] => Ok (el, sq)
    | (PStr ck, cd) :: ct =>
        do b <- bp_from_descr cd;
        do c <- int_of_str ck;
        do e1 <- step_res (el_add_bp el (CInt c) (set_sr b SR));
        do e2 <- (if pd_has "flags" cd
                  then do f <- pd_get "flags" cd; do fl <- flags_of_pv f;
                       step_res (el_add_flags e1 (CInt c) fl)
                  else Ok e1);
        do amp <- pd_get (string_of_list_ascii (S_ "channel" ++ ck ++ S_ "_amplitude")) specs;
        do ampv <- val_of_pv amp;
        do off <- pd_get (string_of_list_ascii (S_ "channel" ++ ck ++ S_ "_offset")) specs;
        do offv <- val_of_pv off;
        goc ct e2 (seq_set_off (seq_set_amp sq (CInt c) ampv) (CInt c) offv)
    | _ :: _ => Err EType
    end.

Definition seq_go_loop :=
  fix go (l : list (pv * pv)) (acc : seq) : result seq :=
     match l with
     | [] => Ok acc
     | (PStr k, ed) :: t =>
         do chd <- pd_get "channels" ed;
         do chitems <- pd_items chd;
         do r <- seq_goc_loop chitems el_empty acc;
         let '(el, sq) := r in
         do pos <- int_of_str k;
         do sq1 <- step_res (seq_add_element sq pos el);
         do sd <- pd_get "sequencing" ed;
         do tw <- pd_get "Wait trigger" sd; do twz <- int_of_pv tw;
         do nr <- pd_get "Repeat" sd; do nrz <- int_of_pv nr;
         do ji <- pd_get "jump_input" sd; do jiz <- int_of_pv ji;
         do jt <- pd_get "jump_target" sd; do jtz <- int_of_pv jt;
         do gt <- pd_get "Go to" sd; do gtz <- int_of_pv gt;
         go t (set_sseq sq1 (aset Z.eqb pos (mkSq twz nrz jiz jtz gtz) (sseq sq1)))
     | _ :: _ => Err EType
     end.

Lemma seq_goc_loop_eq cl : forall el sq, seq_goc_loop cl el sq = seq_read_chans cl el sq.
Proof.
  induction cl as [|[k cd] ct IH]; intros el sq; [reflexivity|].
  cbn [seq_goc_loop seq_read_chans]. fold seq_goc_loop. destruct k; try reflexivity.
  unfold seq_read_chan.
  destruct (bp_from_descr cd) as [b|e]; [|reflexivity]. cbn [bind].
  destruct (int_of_str x) as [c|e]; [|reflexivity]. cbn [bind].
  destruct (step_res (el_add_bp el (CInt c) (set_sr b SR))) as [e1|e]; [|reflexivity]. cbn [bind].
  match goal with |- bind ?X _ = bind (bind ?X _) _ => destruct X as [e2|e] end; [|reflexivity]. cbn [bind].
  match goal with |- bind ?X _ = bind (bind ?X _) _ => destruct X as [amp|e] end; [|reflexivity]. cbn [bind].
  destruct (val_of_pv amp) as [ampv|e]; [|reflexivity]. cbn [bind].
  match goal with |- bind ?X _ = bind (bind ?X _) _ => destruct X as [off|e] end; [|reflexivity]. cbn [bind].
  destruct (val_of_pv off) as [offv|e]; [|reflexivity]. cbn [bind fst snd]. apply IH.
Qed.

Lemma seq_go_loop_eq l : forall acc, seq_go_loop l acc = seq_read_items l acc.
Proof.
  induction l as [|[k ed] t IH]; intro acc; [reflexivity|].
  cbn [seq_go_loop seq_read_items]. fold seq_go_loop. destruct k; try reflexivity.
  unfold seq_read_pos.
  destruct (pd_get "channels" ed) as [chd|e]; [|reflexivity]. cbn [bind].
  destruct (pd_items chd) as [chitems|e]; [|reflexivity]. cbn [bind].
  rewrite seq_goc_loop_eq.
  destruct (seq_read_chans chitems el_empty acc) as [[el sq]|e]; [|reflexivity]. cbn [bind fst snd].
  destruct (int_of_str x) as [pos|e]; [|reflexivity]. cbn [bind].
  destruct (step_res (seq_add_element sq pos el)) as [sq1|e]; [|reflexivity]. cbn [bind].
  destruct (pd_get "sequencing" ed) as [sd|e]; [|reflexivity]. cbn [bind].
  destruct (pd_get "Wait trigger" sd) as [tw|e]; [|reflexivity]. cbn [bind].
  destruct (int_of_pv tw) as [twz|e]; [|reflexivity]. cbn [bind].
  destruct (pd_get "Repeat" sd) as [nr|e]; [|reflexivity]. cbn [bind].
  destruct (int_of_pv nr) as [nrz|e]; [|reflexivity]. cbn [bind].
  destruct (pd_get "jump_input" sd) as [ji|e]; [|reflexivity]. cbn [bind].
  destruct (int_of_pv ji) as [jiz|e]; [|reflexivity]. cbn [bind].
  destruct (pd_get "jump_target" sd) as [jt|e]; [|reflexivity]. cbn [bind].
  destruct (int_of_pv jt) as [jtz|e]; [|reflexivity]. cbn [bind].
  destruct (pd_get "Go to" sd) as [gt|e]; [|reflexivity]. cbn [bind].
  destruct (int_of_pv gt) as [gtz|e]; [|reflexivity]. cbn [bind].
  apply IH.
Qed.
End Loops.

(* the loop over the settings *)
Fixpoint seq_read_specs (l : list (pv * pv)) (acc : seq) : result seq :=
  match l with
  | [] => Ok acc
  | (PStr k, v) :: t => do sv <- specval_of_pv v; seq_read_specs t (spec_set acc k sv)
  | _ :: _ => Err EType
  end.

Definition seq_gos_loop :=
  fix gos (l : list (pv * pv)) (acc : seq) : result seq :=
     match l with
     | [] => Ok acc
     | (PStr k, v) :: t => do sv <- specval_of_pv v; gos t (spec_set acc k sv)
     | _ :: _ => Err EType
     end.

Lemma seq_gos_loop_eq l acc : seq_gos_loop l acc = seq_read_specs l acc.
Proof. reflexivity. Qed.

(* Sequence.sequence_from_description with the loops named *)
Definition seq_read (d : pv) : result seq :=
  do specs <- pd_get "awgspecs" d;
  do SRp <- pd_get "SR" specs;
  do SR <- val_of_pv SRp;
  do items <- pd_items d;
  do s1 <- seq_read_items specs SR (removelast items) seq_empty;
  do spitems <- pd_items specs;
  do s2 <- seq_read_specs spitems s1;
  Ok (seq_set_sr s2 SR).

Lemma seq_from_descr_read d : seq_from_descr d = seq_read d.
Proof.
  change (seq_from_descr d) with
    (do specs <- pd_get "awgspecs" d;
     do SRp <- pd_get "SR" specs;
     do SR <- val_of_pv SRp;
     do items <- pd_items d;
     do s1 <- seq_go_loop specs SR (removelast items) seq_empty;
     do spitems <- pd_items specs;
     do s2 <- seq_gos_loop spitems s1;
     Ok (seq_set_sr s2 SR)).
  unfold seq_read.
  destruct (pd_get "awgspecs" d) as [specs|e]; [|reflexivity]. cbn [bind].
  destruct (pd_get "SR" specs) as [SRp|e]; [|reflexivity]. cbn [bind].
  destruct (val_of_pv SRp) as [SR|e]; [|reflexivity]. cbn [bind].
  destruct (pd_items d) as [items|e]; [|reflexivity]. cbn [bind].
  rewrite seq_go_loop_eq. reflexivity.
Qed.

(* ====================================================================================================== *)
(* Part 2: what a sequence looks like after the round trip, and the sequences the statement is about       *)
(* ====================================================================================================== *)

(* every blueprint re-stamped with the sequence sample rate (the reader does set_sr b SR); channels, their
   order and the flags unchanged *)
Definition stamp_entry (SR : val) (p : chan * chentry) : chan * chentry :=
  match ckind (snd p) with
  | KBp b => (fst p, mkCh (KBp (set_sr b SR)) (cflags (snd p)))
  | KArr _ _ => p
  end.
Definition stamp_el (SR : val) (e : elem) : elem := mkEl (map (stamp_entry SR) (edata e)).
Definition stamp_item (SR : val) (p : Z * entry) : Z * entry :=
  match snd p with EElem e => (fst p, EElem (stamp_el SR e)) | ESub _ => p end.

(* sequencing: exactly one entry per position, in position order *)
Definition sq_at (Q : list (Z * sqing)) (pos : Z) : sqing :=
  match alookup Z.eqb pos Q with Some q => q | None => sq_default end.
Definition sseq_rt (s : seq) : list (Z * sqing) := map (fun p : Z * entry => (fst p, sq_at (sseq s) (fst p))) (sdata s).

(* settings: the reader first writes amplitude and offset of every channel of every position (in that order),
   then every stored key in stored order, then SR; each write is d[k] = v (overwrite in place or append) *)
Definition spec_val (L : list (str * specval)) (k : str) : val :=
  match alookup str_eqb k L with Some (SVal v) => v | _ => VNone end.
Definition chan_specs (L : list (str * specval)) (c : chan) : list (str * specval) :=
  [(key_amp c, SVal (spec_val L (key_amp c))); (key_off c, SVal (spec_val L (key_off c)))].
Definition entry_chans (x : entry) : list chan := match x with EElem e => map fst (edata e) | ESub _ => [] end.
Definition seq_chans (s : seq) : list chan := flat_map (fun p : Z * entry => entry_chans (snd p)) (sdata s).
Definition specs_writes (s : seq) : list (str * specval) :=
  flat_map (chan_specs (sspecs s)) (seq_chans s) ++ sspecs s ++ [(key_sr, SVal (seq_SR s))].
Definition specs_rt (s : seq) : list (str * specval) := aset_all str_eqb (specs_writes s) [].

(* the sequence read back; its name is the empty default (the description does not carry the name) *)
Definition seq_rt (s : seq) : seq :=
  mkSeq (map (stamp_item (seq_SR s)) (sdata s)) (sseq_rt s) (specs_rt s) [].

(* The sequences the round trip is specified for.
   - only elements: a subsequence is written as a nested sequence description, which the reader hands to the
     blueprint reader channel by channel, so it cannot be read back;
   - each element is one the element round trip is specified for (integer channel ids, blueprints over the
     built-in shapes) and is accepted by validateDurations once its blueprints carry the sequence SR, because
     the reader stamps them and then calls addElement, which validates;
   - every position has a sequencing entry (otherwise the writer emits the string "Not set");
   - the settings contain SR and, for every channel of every element, amplitude and offset, all as plain values;
   - positions and setting keys are duplicate-free (always true of dictionaries). *)
Definition seq_json_ok (s : seq) : Prop :=
  NoDup (map fst (sdata s)) /\
  NoDup (map fst (sspecs s)) /\
  (exists v, spec_get s key_sr = Some (SVal v)) /\
  forall pos x, In (pos, x) (sdata s) ->
    exists e, x = EElem e /\ el_json_ok e /\
      (exists r, el_validate (stamp_el (seq_SR s) e) = Ok r) /\
      (exists q, alookup Z.eqb pos (sseq s) = Some q) /\
      forall c, In c (map fst (edata e)) ->
        exists a o, spec_get s (key_amp c) = Some (SVal a) /\ spec_get s (key_off c) = Some (SVal o).

(* the sequencing dictionary has no entries besides those of the positions *)
Definition sseq_tight (s : seq) : Prop :=
  NoDup (map fst (sseq s)) /\ incl (map fst (sseq s)) (map fst (sdata s)).

(* the description of one position *)
Definition pos_descr (Q : list (Z * sqing)) (p : Z * entry) : result (pv * pv) :=
  do d <- entry_descr (snd p);
  Ok (PStr (str_of_Z (fst p)),
      PDict [(pstr "channels", d);
             (pstr "sequencing", match alookup Z.eqb (fst p) Q with
                                 | Some q => sqing_descr q | None => pstr "Not set" end)]).

Lemma seq_descr_unfold s :
  seq_descr s = do l <- mapM (pos_descr (sseq s)) (sdata s);
                Ok (PDict (l ++ [(pstr "awgspecs", specs_descr (sspecs s))])).
Proof. reflexivity. Qed.

(* ---------- settings values ---------- *)
Lemma specval_roundtrip : forall v : specval, specval_of_pv (json_rt (pv_of_specval v)) = Ok v.
Proof.
  intros [x | k o f t].
  - destruct x; reflexivity.
  - destruct f, t; reflexivity.
Qed.

Definition jrs (p : str * specval) : pv * pv := (PStr (fst p), json_rt (pv_of_specval (snd p))).

Lemma json_rt_specs_descr L : json_rt (specs_descr L) = PDict (map jrs L).
Proof. unfold specs_descr. cbn [json_rt]. rewrite map_map. reflexivity. Qed.

Lemma pd_get_specs (k : str) : forall L,
  pd_get (string_of_list_ascii k) (PDict (map jrs L))
  = match alookup str_eqb k L with Some v => Ok (json_rt (pv_of_specval v)) | None => Err EKey end.
Proof.
  unfold pd_get, S_. rewrite list_ascii_of_string_of_list_ascii.
  induction L as [|[k0 v0] t IH]; [reflexivity|].
  cbn [map find alookup]. unfold jrs at 1. cbn [fst snd pv_str_eqb].
  destruct (str_eqb k k0); [reflexivity | exact IH].
Qed.

Lemma pd_get_specs_val (k : str) L v : alookup str_eqb k L = Some (SVal v) ->
  (do p <- pd_get (string_of_list_ascii k) (PDict (map jrs L)); val_of_pv p) = Ok v.
Proof. intro H. rewrite pd_get_specs, H. cbn [bind pv_of_specval]. apply val_rt. Qed.

Lemma spec_val_eq (k : str) L v : alookup str_eqb k L = Some (SVal v) -> spec_val L k = v.
Proof. intro H. unfold spec_val. rewrite H. reflexivity. Qed.

(* ---------- one channel ---------- *)
Definition set_chan_specs (L : list (str * specval)) (sq : seq) (c : chan) : seq :=
  seq_set_off (seq_set_amp sq c (spec_val L (key_amp c))) c (spec_val L (key_off c)).

Lemma map_fst_stamp SR l : map fst (map (stamp_entry SR) l) = map fst l.
Proof.
  rewrite map_map. apply map_ext. intros [c ch]. unfold stamp_entry. cbn [fst snd].
  destruct (ckind ch); reflexivity.
Qed.

Lemma seq_read_chan_ok L SR done sq z b fl a o :
  ~ In (CInt z) (map fst done) -> bp_json_ok b -> bp_has_empty_list b = false -> flags_ok fl ->
  alookup str_eqb (key_amp (CInt z)) L = Some (SVal a) ->
  alookup str_eqb (key_off (CInt z)) L = Some (SVal o) ->
  seq_read_chan (PDict (map jrs L)) SR (mkEl (map (stamp_entry SR) done)) sq (str_of_chan (CInt z)) (chan_rt b fl)
  = Ok (mkEl (map (stamp_entry SR) done ++ [(CInt z, mkCh (KBp (set_sr b SR)) fl)]), set_chan_specs L sq (CInt z)).
Proof.
  intros Hnew Hok Hne Hfl Ha Ho. unfold seq_read_chan.
  assert (bp_from_descr (chan_rt b fl) = Ok (set_sr b VNone)) as ->.
  { unfold chan_rt. apply bp_roundtrip_ext; [exact Hok|]. destruct fl; reflexivity. }
  cbn [bind]. rewrite channel_id_roundtrip. cbn [bind].
  change (set_sr (set_sr b VNone) SR) with (set_sr b SR).
  unfold el_add_bp.
  assert (bp_has_empty_list (set_sr b SR) = false) as -> by exact Hne.
  assert (bp_copy (set_sr b SR) = set_sr b SR) as ->.
  { apply copy_eq. apply (Inv_set_sr b SR). apply Hok. }
  unfold ok, step_res, el_set. cbn [edata bind].
  assert (~ In (CInt z) (map fst (map (stamp_entry SR) done))) as Hnew' by (rewrite map_fst_stamp; exact Hnew).
  rewrite aset_new by exact Hnew'.
  change (S_ "channel" ++ str_of_chan (CInt z) ++ S_ "_amplitude") with (key_amp (CInt z)).
  change (S_ "channel" ++ str_of_chan (CInt z) ++ S_ "_offset") with (key_off (CInt z)).
  assert (forall (e2 : elem),
    (do amp <- pd_get (string_of_list_ascii (key_amp (CInt z))) (PDict (map jrs L));
     do ampv <- val_of_pv amp;
     do off <- pd_get (string_of_list_ascii (key_off (CInt z))) (PDict (map jrs L));
     do offv <- val_of_pv off;
     Ok (e2, seq_set_off (seq_set_amp sq (CInt z) ampv) (CInt z) offv))
    = Ok (e2, set_chan_specs L sq (CInt z))) as Hspecs.
  { intro e2. rewrite !pd_get_specs, Ha, Ho. cbn [bind pv_of_specval]. rewrite !val_rt. cbn [bind].
    unfold set_chan_specs. rewrite (spec_val_eq _ _ _ Ha), (spec_val_eq _ _ _ Ho). reflexivity. }
  destruct fl as [l|].
  - unfold chan_rt. rewrite pd_has_flags_some, pd_get_flags_some. cbn [bind].
    destruct Hfl as [Hlen HF].
    set (e1 := mkEl (map (stamp_entry SR) done ++ [(CInt z, mkCh (KBp (set_sr b SR)) None)])).
    destruct (flags_roundtrip e1 (CInt z) (mkCh (KBp (set_sr b SR)) None) l) as (vs & Hvs & Hadd);
      [unfold el_lookup, e1; cbn [edata]; apply alookup_last; exact Hnew' | exact Hlen | exact HF |].
    cbn [json_rt] in Hvs. rewrite Hvs. cbn [bind]. rewrite Hadd. cbn [step_res ckind bind].
    unfold el_set, e1. cbn [edata]. rewrite aset_last by exact Hnew'. apply Hspecs.
  - unfold chan_rt. rewrite pd_has_flags_none. cbn [bind]. apply Hspecs.
Qed.

(* ---------- the loop over the channels of one position ---------- *)
Lemma seq_read_chans_ok L SR : forall entries done l sq,
  mapM descr_entry entries = Ok l ->
  NoDup (map fst (done ++ entries)) ->
  (forall c ch, In (c, ch) entries -> entry_ok c ch) ->
  (forall c, In c (map fst entries) ->
     exists a o, alookup str_eqb (key_amp c) L = Some (SVal a) /\ alookup str_eqb (key_off c) L = Some (SVal o)) ->
  seq_read_chans (PDict (map jrs L)) SR (map jr l) (mkEl (map (stamp_entry SR) done)) sq
  = Ok (mkEl (map (stamp_entry SR) (done ++ entries)), fold_left (set_chan_specs L) (map fst entries) sq).
Proof.
  induction entries as [|[c ch] t IH]; intros done l sq HM ND Hok Hsp.
  - cbn [mapM] in HM. injection HM as <-. rewrite app_nil_r. reflexivity.
  - destruct (Hok c ch (or_introl eq_refl)) as ([z ->] & (b & Hk & Hb & Hne) & Hfl).
    destruct (Hsp (CInt z) (or_introl eq_refl)) as (a & o & Ha & Ho).
    destruct (descr_entry_ok z ch b Hk) as (v & Hv & Hjv).
    cbn [mapM] in HM. rewrite Hv in HM. cbn [bind] in HM.
    destruct (mapM descr_entry t) as [r|e] eqn:Er; [|discriminate]. cbn [bind] in HM. injection HM as <-.
    cbn [map]. unfold jr at 1. cbn [fst snd json_rt seq_read_chans]. rewrite Hjv.
    assert (~ In (CInt z) (map fst done)) as Hnew.
    { rewrite map_app in ND. apply NoDup_remove_2 in ND. intro Hin. apply ND. apply in_or_app. left. exact Hin. }
    change (str_of_Z z) with (str_of_chan (CInt z)).
    rewrite (seq_read_chan_ok L SR done sq z b (cflags ch) a o) by assumption. cbn [bind fst snd].
    assert (map (stamp_entry SR) done ++ [(CInt z, mkCh (KBp (set_sr b SR)) (cflags ch))]
            = map (stamp_entry SR) (done ++ [(CInt z, ch)])) as ->.
    { rewrite map_app. cbn [map]. unfold stamp_entry at 3. cbn [fst snd]. rewrite Hk. reflexivity. }
    rewrite (IH (done ++ [(CInt z, ch)]) r _ eq_refl).
    + rewrite <- app_assoc. reflexivity.
    + rewrite <- app_assoc. exact ND.
    + intros c' ch' Hin. apply Hok. right. exact Hin.
    + intros c' Hin. apply Hsp. right. exact Hin.
Qed.

(* ---------- one position ---------- *)
Lemma pd_get_pos_channels x y : pd_get "channels" (PDict [(pstr "channels", x); (pstr "sequencing", y)]) = Ok x.
Proof. reflexivity. Qed.
Lemma pd_get_pos_sequencing x y : pd_get "sequencing" (PDict [(pstr "channels", x); (pstr "sequencing", y)]) = Ok y.
Proof. reflexivity. Qed.
Lemma json_rt_sqing q : json_rt (sqing_descr q) = sqing_descr q.
Proof. reflexivity. Qed.
Lemma pd_get_sq_tw q : pd_get "Wait trigger" (sqing_descr q) = Ok (PInt (twait q)).
Proof. reflexivity. Qed.
Lemma pd_get_sq_nr q : pd_get "Repeat" (sqing_descr q) = Ok (PInt (nrep q)).
Proof. reflexivity. Qed.
Lemma pd_get_sq_ji q : pd_get "jump_input" (sqing_descr q) = Ok (PInt (jump_input q)).
Proof. reflexivity. Qed.
Lemma pd_get_sq_jt q : pd_get "jump_target" (sqing_descr q) = Ok (PInt (jump_target q)).
Proof. reflexivity. Qed.
Lemma pd_get_sq_gt q : pd_get "Go to" (sqing_descr q) = Ok (PInt (goto q)).
Proof. reflexivity. Qed.

(* the state change of the reader at one position, without the parsing *)
Definition rt_pos (SR : val) (L : list (str * specval)) (Q : list (Z * sqing)) (acc : seq) (p : Z * entry) : seq :=
  match snd p with
  | EElem e =>
      let sq := fold_left (set_chan_specs L) (map fst (edata e)) acc in
      mkSeq (aset Z.eqb (fst p) (EElem (stamp_el SR e)) (sdata sq))
            (aset Z.eqb (fst p) (sq_at Q (fst p)) (aset Z.eqb (fst p) sq_default (sseq sq)))
            (sspecs sq) (sname sq)
  | ESub _ => acc
  end.

Definition pos_ok (SR : val) (L : list (str * specval)) (Q : list (Z * sqing)) (pos : Z) (x : entry) : Prop :=
  exists e, x = EElem e /\ el_json_ok e /\
    (exists r, el_validate (stamp_el SR e) = Ok r) /\
    (exists q, alookup Z.eqb pos Q = Some q) /\
    forall c, In c (map fst (edata e)) ->
      exists a o, alookup str_eqb (key_amp c) L = Some (SVal a) /\ alookup str_eqb (key_off c) L = Some (SVal o).

Lemma seq_read_pos_ok SR L Q acc pos x kv :
  pos_ok SR L Q pos x -> pos_descr Q (pos, x) = Ok kv ->
  exists ed, jr kv = (PStr (str_of_Z pos), ed) /\
    seq_read_pos (PDict (map jrs L)) SR acc (str_of_Z pos) ed = Ok (rt_pos SR L Q acc (pos, x)).
Proof.
  intros (e & -> & [ND Hok] & [r Hval] & [q Hq] & Hsp) Hd.
  unfold pos_descr in Hd. cbn [fst snd entry_descr] in Hd. rewrite el_descr_unfold in Hd.
  destruct (mapM descr_entry (edata e)) as [lch|er] eqn:El; [|discriminate].
  cbn [bind] in Hd. rewrite Hq in Hd. injection Hd as <-.
  unfold jr. cbn [fst snd json_rt map pstr]. eexists. split; [reflexivity|].
  unfold seq_read_pos. fold (pstr "channels") (pstr "sequencing").
  rewrite pd_get_pos_channels. cbn [bind pd_items].
  pose proof (seq_read_chans_ok L SR (edata e) [] lch acc El ND Hok Hsp) as Hch.
  cbn [map app] in Hch. unfold jr in Hch. fold el_empty in Hch. rewrite Hch. cbn [bind fst snd].
  change (str_of_Z pos) with (str_of_chan (CInt pos)). rewrite channel_id_roundtrip. cbn [bind].
  fold (stamp_el SR e). unfold seq_add_element. rewrite Hval. unfold ok. cbn [step_res bind].
  rewrite pd_get_pos_sequencing, json_rt_sqing. cbn [bind].
  rewrite pd_get_sq_tw, pd_get_sq_nr, pd_get_sq_ji, pd_get_sq_jt, pd_get_sq_gt. cbn [bind int_of_pv].
  unfold rt_pos, set_sseq, sq_at. cbn [fst snd sdata sseq sspecs sname]. rewrite Hq.
  destruct q; reflexivity.
Qed.

(* ---------- the loop over the positions ---------- *)
Lemma seq_read_items_ok SR L Q : forall items l acc,
  mapM (pos_descr Q) items = Ok l ->
  (forall pos x, In (pos, x) items -> pos_ok SR L Q pos x) ->
  seq_read_items (PDict (map jrs L)) SR (map jr l) acc = Ok (fold_left (rt_pos SR L Q) items acc).
Proof.
  induction items as [|[pos x] t IH]; intros l acc HM Hok.
  - cbn [mapM] in HM. injection HM as <-. reflexivity.
  - cbn [mapM] in HM. destruct (pos_descr Q (pos, x)) as [kv|er] eqn:Ekv; [|discriminate]. cbn [bind] in HM.
    destruct (mapM (pos_descr Q) t) as [r|er] eqn:Er; [|discriminate]. cbn [bind] in HM. injection HM as <-.
    destruct (seq_read_pos_ok SR L Q acc pos x kv (Hok pos x (or_introl eq_refl)) Ekv) as (ed & Ejr & Hread).
    cbn [map]. rewrite Ejr. cbn [seq_read_items]. rewrite Hread. cbn [bind fold_left].
    apply (IH r _ eq_refl). intros pos' x' Hin. apply Hok. right. exact Hin.
Qed.

(* ---------- the loop over the settings ---------- *)
Lemma seq_read_specs_ok : forall L acc,
  seq_read_specs (map jrs L) acc = Ok (fold_left (fun a (p : str * specval) => spec_set a (fst p) (snd p)) L acc).
Proof.
  induction L as [|[k v] t IH]; intro acc; [reflexivity|].
  cbn [map seq_read_specs fold_left]. unfold jrs at 1. cbn [fst snd].
  rewrite specval_roundtrip. cbn [bind]. apply IH.
Qed.

(* ---------- the top-level keys ---------- *)
Lemma str_of_Z_not_awgspecs z : str_eqb (S_ "awgspecs") (str_of_Z z) = false.
Proof.
  apply str_eqb_neq. intro E. pose proof (channel_id_roundtrip z) as H.
  unfold str_of_chan in H. rewrite <- E in H. vm_compute in H. discriminate.
Qed.

Lemma pos_descr_key Q p kv : pos_descr Q p = Ok kv -> fst (jr kv) = PStr (str_of_Z (fst p)).
Proof.
  unfold pos_descr. destruct (entry_descr (snd p)) as [d|e]; [|discriminate]. cbn [bind].
  intro H. injection H as <-. reflexivity.
Qed.

Lemma find_awgspecs_items Q : forall items l, mapM (pos_descr Q) items = Ok l ->
  find (fun kv : pv * pv => pv_str_eqb (fst kv) (S_ "awgspecs")) (map jr l) = None.
Proof.
  induction items as [|p t IH]; intros l HM.
  - cbn [mapM] in HM. injection HM as <-. reflexivity.
  - cbn [mapM] in HM. destruct (pos_descr Q p) as [kv|er] eqn:Ekv; [|discriminate]. cbn [bind] in HM.
    destruct (mapM (pos_descr Q) t) as [r|er] eqn:Er; [|discriminate]. cbn [bind] in HM. injection HM as <-.
    cbn [map find]. rewrite (pos_descr_key Q p kv Ekv). cbn [pv_str_eqb].
    rewrite str_of_Z_not_awgspecs. apply (IH r eq_refl).
Qed.

(* ---------- the reader on a written sequence: success, and the state it builds (as a fold) ---------- *)
Definition seq_rt_fold (s : seq) : seq :=
  let SR := seq_SR s in
  seq_set_sr (fold_left (fun a (p : str * specval) => spec_set a (fst p) (snd p)) (sspecs s)
                (fold_left (rt_pos SR (sspecs s) (sseq s)) (sdata s) seq_empty)) SR.

Lemma seq_roundtrip_fold : forall s d,
  seq_json_ok s -> seq_descr s = Ok d -> seq_from_descr (json_rt d) = Ok (seq_rt_fold s).
Proof.
  intros s d (_ & _ & [v Hsr] & Hpos) Hd. rewrite seq_descr_unfold in Hd.
  destruct (mapM (pos_descr (sseq s)) (sdata s)) as [l|er] eqn:El; [|discriminate]. cbn [bind] in Hd.
  injection Hd as <-. rewrite seq_from_descr_read. unfold seq_read.
  cbn [json_rt]. rewrite map_app. cbn [map fst snd pstr json_rt]. fold (pstr "awgspecs").
  change (map (fun kv : pv * pv => (json_rt (fst kv), json_rt (snd kv))) l) with (map jr l).
  change (PDict (map (fun kv : pv * pv => (json_rt (fst kv), json_rt (snd kv)))
                   (map (fun p : str * specval => (PStr (fst p), pv_of_specval (snd p))) (sspecs s))))
    with (json_rt (specs_descr (sspecs s))).
  rewrite json_rt_specs_descr.
  assert (pd_get "awgspecs" (PDict (map jr l ++ [(pstr "awgspecs", PDict (map jrs (sspecs s)))]))
          = Ok (PDict (map jrs (sspecs s)))) as ->.
  { unfold pd_get. rewrite find_app, (find_awgspecs_items (sseq s) (sdata s) l El). reflexivity. }
  cbn [bind]. unfold spec_get in Hsr.
  assert (seq_SR s = v) as HSR by (unfold seq_SR, spec_get; rewrite Hsr; reflexivity).
  change "SR"%string with (string_of_list_ascii key_sr).
  rewrite pd_get_specs, Hsr. cbn [bind pv_of_specval]. rewrite val_rt. cbn [bind pd_items].
  rewrite removelast_last.
  rewrite (seq_read_items_ok v (sspecs s) (sseq s) (sdata s) l seq_empty El).
  - cbn [bind]. rewrite seq_read_specs_ok. cbn [bind]. unfold seq_rt_fold. rewrite HSR. reflexivity.
  - intros pos x Hin. destruct (Hpos pos x Hin) as (e & Hx & Hel & Hv & Hq & Hsp).
    exists e. rewrite <- HSR. split; [exact Hx|]. split; [exact Hel|]. split; [exact Hv|]. split; [exact Hq|exact Hsp].
Qed.

(* ====================================================================================================== *)
(* Part 3: the fold in closed form                                                                          *)
(* ====================================================================================================== *)
Lemma aset_all_app {K V} (eqb : K -> K -> bool) (l1 l2 acc : list (K * V)) :
  aset_all eqb (l1 ++ l2) acc = aset_all eqb l2 (aset_all eqb l1 acc).
Proof. unfold aset_all. apply fold_left_app. Qed.

Lemma set_chan_specs_fold L : forall cs acc,
  let r := fold_left (set_chan_specs L) cs acc in
  sdata r = sdata acc /\ sseq r = sseq acc /\ sname r = sname acc /\
  sspecs r = aset_all str_eqb (flat_map (chan_specs L) cs) (sspecs acc).
Proof.
  induction cs as [|c t IH]; intro acc; [cbn; auto|].
  cbn [fold_left flat_map]. destruct (IH (set_chan_specs L acc c)) as (H1 & H2 & H3 & H4).
  cbv zeta. rewrite H1, H2, H3, H4, aset_all_app. repeat split.
Qed.

Lemma spec_set_fold : forall L (acc : seq),
  let r := fold_left (fun a (p : str * specval) => spec_set a (fst p) (snd p)) L acc in
  sdata r = sdata acc /\ sseq r = sseq acc /\ sname r = sname acc /\ sspecs r = aset_all str_eqb L (sspecs acc).
Proof.
  induction L as [|[k v] t IH]; intro acc; [cbn; auto|].
  cbn [fold_left fst snd]. destruct (IH (spec_set acc k v)) as (H1 & H2 & H3 & H4).
  cbv zeta. rewrite H1, H2, H3, H4. repeat split.
Qed.

Lemma NoDup_app_mid {A} (a : A) l1 l2 : NoDup (l1 ++ a :: l2) -> ~ In a l1.
Proof. intros H Hin. apply NoDup_remove_2 in H. apply H. apply in_or_app. left. exact Hin. Qed.

Lemma rt_items_char SR L Q : forall items acc,
  (forall p, In p items -> exists e, snd p = EElem e) ->
  NoDup (map fst (sdata acc) ++ map fst items) ->
  map fst (sseq acc) = map fst (sdata acc) ->
  let r := fold_left (rt_pos SR L Q) items acc in
  sdata r = sdata acc ++ map (stamp_item SR) items /\
  sseq r = sseq acc ++ map (fun p : Z * entry => (fst p, sq_at Q (fst p))) items /\
  sspecs r = aset_all str_eqb (flat_map (chan_specs L) (flat_map (fun p : Z * entry => entry_chans (snd p)) items))
               (sspecs acc) /\
  sname r = sname acc.
Proof.
  induction items as [|[pos x] t IH]; intros acc Hel ND Hk.
  - cbn. rewrite !app_nil_r. auto.
  - destruct (Hel (pos, x) (or_introl eq_refl)) as [e He]. cbn [snd] in He. subst x.
    cbn [map fst] in ND. pose proof (NoDup_app_mid _ _ _ ND) as Hnew.
    cbn [fold_left]. set (acc1 := rt_pos SR L Q acc (pos, EElem e)).
    destruct (set_chan_specs_fold L (map fst (edata e)) acc) as (F1 & F2 & F3 & F4).
    assert (sdata acc1 = sdata acc ++ [(pos, EElem (stamp_el SR e))]) as D1.
    { unfold acc1, rt_pos. cbn [fst snd sdata]. rewrite F1. apply (al_aset_fresh Z.eqb Z_eqb_eq). exact Hnew. }
    assert (sseq acc1 = sseq acc ++ [(pos, sq_at Q pos)]) as D2.
    { unfold acc1, rt_pos. cbn [fst snd sseq]. rewrite F2.
      rewrite (al_aset_fresh Z.eqb Z_eqb_eq pos sq_default (sseq acc)) by (rewrite Hk; exact Hnew).
      apply (al_aset_last Z.eqb Z_eqb_eq). rewrite Hk. exact Hnew. }
    assert (sspecs acc1 = aset_all str_eqb (flat_map (chan_specs L) (map fst (edata e))) (sspecs acc)) as D3.
    { unfold acc1, rt_pos. cbn [fst snd sspecs]. exact F4. }
    assert (sname acc1 = sname acc) as D4.
    { unfold acc1, rt_pos. cbn [fst snd sname]. exact F3. }
    destruct (IH acc1) as (R1 & R2 & R3 & R4).
    + intros p Hp. apply Hel. right. exact Hp.
    + rewrite D1, map_app, <- app_assoc. exact ND.
    + rewrite D1, D2, !map_app, Hk. reflexivity.
    + cbv zeta. rewrite R1, R2, R3, R4, D1, D2, D3, D4, <- !app_assoc.
      cbn [flat_map snd entry_chans map app]. rewrite flat_map_app, aset_all_app.
      unfold stamp_item at 2. cbn [fst snd]. repeat split.
Qed.

Lemma seq_rt_fold_eq s :
  NoDup (map fst (sdata s)) -> (forall pos x, In (pos, x) (sdata s) -> exists e, x = EElem e) ->
  seq_rt_fold s = seq_rt s.
Proof.
  intros ND Hel. unfold seq_rt_fold, seq_rt, seq_set_sr. cbv zeta.
  set (SR := seq_SR s).
  destruct (rt_items_char SR (sspecs s) (sseq s) (sdata s) seq_empty) as (R1 & R2 & R3 & R4).
  - intros [pos x] Hin. apply (Hel pos x Hin).
  - exact ND.
  - reflexivity.
  - destruct (spec_set_fold (sspecs s) (fold_left (rt_pos SR (sspecs s) (sseq s)) (sdata s) seq_empty))
      as (S1 & S2 & S3 & S4).
    unfold spec_set at 1. rewrite S1, S2, S3, S4, R1, R2, R3, R4. cbn [seq_empty sdata sseq sspecs sname app].
    f_equal. unfold specs_rt, specs_writes, seq_chans. rewrite !aset_all_app. reflexivity.
Qed.

(* ---------- (1) the sequence round trip ---------- *)
Lemma seq_json_ok_elems s : seq_json_ok s -> forall pos x, In (pos, x) (sdata s) -> exists e, x = EElem e.
Proof.
  intros (_ & _ & _ & H) pos x Hin. destruct (H pos x Hin) as (e & He & _). exists e. exact He.
Qed.

Lemma sequence_roundtrip : forall s d,
  seq_json_ok s -> seq_descr s = Ok d -> seq_from_descr (json_rt d) = Ok (seq_rt s).
Proof.
  intros s d Hok Hd. rewrite (seq_roundtrip_fold s d Hok Hd). f_equal.
  apply seq_rt_fold_eq; [apply Hok | apply seq_json_ok_elems; exact Hok].
Qed.

(* ====================================================================================================== *)
(* Part 4: what the characterised sequence keeps                                                            *)
(* ====================================================================================================== *)

(* ---------- data ---------- *)
Lemma seq_rt_positions s : map fst (sdata (seq_rt s)) = map fst (sdata s).
Proof.
  unfold seq_rt. cbn [sdata]. rewrite map_map. apply map_ext. intros [pos x]. unfold stamp_item. cbn [fst snd].
  destruct x; reflexivity.
Qed.

Lemma seq_rt_data s pos e : seq_json_ok s -> In (pos, EElem e) (sdata s) ->
  alookup Z.eqb pos (sdata (seq_rt s)) = Some (EElem (stamp_el (seq_SR s) e)).
Proof.
  intros Hok Hin. apply (al_lookup_nodup Z.eqb Z_eqb_eq).
  - rewrite seq_rt_positions. apply Hok.
  - unfold seq_rt. cbn [sdata]. apply in_map_iff. exists (pos, EElem e). split; [reflexivity | exact Hin].
Qed.

(* when the blueprints already carry the sequence sample rate nothing is re-stamped *)
Lemma stamp_el_id SR e :
  (forall c ch, In (c, ch) (edata e) -> match ckind ch with KBp b => sr b = SR | KArr _ _ => True end) ->
  stamp_el SR e = e.
Proof.
  intro H. unfold stamp_el. destruct e as [l]. cbn [edata] in *. f_equal.
  induction l as [|[c ch] t IH]; [reflexivity|]. cbn [map]. rewrite IH by (intros c' ch' Hin; apply (H c' ch'); right; exact Hin).
  f_equal. specialize (H c ch (or_introl eq_refl)). unfold stamp_entry. cbn [fst snd].
  destruct ch as [k fl]. cbn [ckind cflags] in *. destruct k as [b|arrs asr]; [|reflexivity].
  destruct b as [bn bf ba bd bs1 bs2 ba1 ba2 bsr]. cbn [sr] in H. subst bsr. reflexivity.
Qed.

(* ---------- sequencing ---------- *)
Lemma sseq_rt_keys s : map fst (sseq_rt s) = map fst (sdata s).
Proof. unfold sseq_rt. rewrite map_map. reflexivity. Qed.

Lemma sseq_rt_lookup_in s pos : NoDup (map fst (sdata s)) -> In pos (map fst (sdata s)) ->
  alookup Z.eqb pos (sseq_rt s) = Some (sq_at (sseq s) pos).
Proof.
  intros ND Hin. apply (al_lookup_nodup Z.eqb Z_eqb_eq); [rewrite sseq_rt_keys; exact ND|].
  apply in_map_iff in Hin as ([p x] & E & Hin). cbn [fst] in E. subst p.
  unfold sseq_rt. apply in_map_iff. exists (pos, x). split; [reflexivity | exact Hin].
Qed.

Lemma sseq_rt_lookup_pos s pos : seq_json_ok s -> In pos (map fst (sdata s)) ->
  alookup Z.eqb pos (sseq (seq_rt s)) = alookup Z.eqb pos (sseq s).
Proof.
  intros Hok Hin. cbn [seq_rt sseq]. rewrite sseq_rt_lookup_in by (try apply Hok; exact Hin).
  apply in_map_iff in Hin as ([p x] & E & Hin). cbn [fst] in E. subst p.
  destruct Hok as (_ & _ & _ & H). destruct (H pos x Hin) as (e & _ & _ & _ & [q Hq] & _).
  unfold sq_at. rewrite Hq. reflexivity.
Qed.

Lemma sseq_rt_lookup_out s pos : ~ In pos (map fst (sdata s)) -> alookup Z.eqb pos (sseq (seq_rt s)) = None.
Proof. intro H. apply (al_lookup_none Z.eqb Z_eqb_eq). cbn [seq_rt sseq]. rewrite sseq_rt_keys. exact H. Qed.

Lemma sseq_rt_lookup_tight s : seq_json_ok s -> sseq_tight s ->
  forall pos, alookup Z.eqb pos (sseq (seq_rt s)) = alookup Z.eqb pos (sseq s).
Proof.
  intros Hok [_ Hincl] pos. destruct (in_dec Z.eq_dec pos (map fst (sdata s))) as [Hin|Hout].
  - apply sseq_rt_lookup_pos; assumption.
  - rewrite sseq_rt_lookup_out by exact Hout. symmetry. apply (al_lookup_none Z.eqb Z_eqb_eq).
    intro H. apply Hout. apply Hincl. exact H.
Qed.

Lemma sseq_rt_same_order_aux (Q : list (Z * sqing)) : forall (D : list (Z * entry)) Qs,
  map fst Qs = map fst D -> (forall p q, In (p, q) Qs -> sq_at Q p = q) ->
  map (fun p : Z * entry => (fst p, sq_at Q (fst p))) D = Qs.
Proof.
  induction D as [|[pos x] t IH]; intros Qs Hk Hq.
  - destruct Qs; [reflexivity|discriminate].
  - destruct Qs as [|[p q] Qs]; [discriminate|]. cbn [map fst] in Hk. injection Hk as -> Hk.
    cbn [map fst]. rewrite (Hq pos q (or_introl eq_refl)). f_equal.
    apply IH; [exact Hk|]. intros p' q' Hin. apply Hq. right. exact Hin.
Qed.

(* when the sequencing dictionary lists the positions in the order of the data (as addElement builds it),
   it is read back as the same list *)
Lemma sseq_rt_same_order s : NoDup (map fst (sdata s)) -> map fst (sseq s) = map fst (sdata s) ->
  sseq (seq_rt s) = sseq s.
Proof.
  intros ND Hk. cbn [seq_rt sseq]. unfold sseq_rt. apply sseq_rt_same_order_aux; [exact Hk|].
  intros p q Hin. unfold sq_at. rewrite (al_lookup_nodup Z.eqb Z_eqb_eq p q (sseq s)); [reflexivity| |exact Hin].
  rewrite Hk. exact ND.
Qed.

(* ---------- settings ---------- *)
Lemma str_eqb_eq' a b : str_eqb a b = true <-> a = b.
Proof. apply str_eqb_eq. Qed.

Definition specs_sub (acc L : list (str * specval)) : Prop :=
  forall k v, alookup str_eqb k acc = Some v -> alookup str_eqb k L = Some v.

Lemma chan_writes_sub L : forall cs acc,
  (forall c, In c cs ->
     exists a o, alookup str_eqb (key_amp c) L = Some (SVal a) /\ alookup str_eqb (key_off c) L = Some (SVal o)) ->
  specs_sub acc L -> specs_sub (aset_all str_eqb (flat_map (chan_specs L) cs) acc) L.
Proof.
  induction cs as [|c t IH]; intros acc Hc Hs; [exact Hs|].
  cbn [flat_map]. rewrite aset_all_app. apply IH; [intros c' Hin; apply Hc; right; exact Hin|].
  destruct (Hc c (or_introl eq_refl)) as (a & o & Ha & Ho).
  unfold chan_specs, aset_all. cbn [fold_left fst snd]. intros k v.
  rewrite !(al_lookup_aset str_eqb str_eqb_eq').
  destruct (str_eqb k (key_off c)) eqn:E1.
  - apply str_eqb_eq in E1. subst k. intro H. injection H as <-. rewrite (spec_val_eq _ _ _ Ho). exact Ho.
  - destruct (str_eqb k (key_amp c)) eqn:E2.
    + apply str_eqb_eq in E2. subst k. intro H. injection H as <-. rewrite (spec_val_eq _ _ _ Ha). exact Ha.
    + apply Hs.
Qed.

Lemma seq_json_ok_chans s : seq_json_ok s -> forall c, In c (seq_chans s) ->
  exists a o, alookup str_eqb (key_amp c) (sspecs s) = Some (SVal a) /\
              alookup str_eqb (key_off c) (sspecs s) = Some (SVal o).
Proof.
  intros (_ & _ & _ & H) c Hin. unfold seq_chans in Hin. apply in_flat_map in Hin as ([pos x] & Hp & Hc).
  destruct (H pos x Hp) as (e & -> & _ & _ & _ & Hsp). cbn [snd entry_chans] in Hc. apply (Hsp c Hc).
Qed.

Lemma seq_json_ok_SR s : seq_json_ok s -> alookup str_eqb key_sr (sspecs s) = Some (SVal (seq_SR s)).
Proof.
  intros (_ & _ & [v Hv] & _). unfold seq_SR. rewrite Hv. exact Hv.
Qed.

(* the settings are the same dictionary *)
Lemma specs_rt_lookup s : seq_json_ok s -> forall k, spec_get (seq_rt s) k = spec_get s k.
Proof.
  intros Hok k. unfold spec_get. cbn [seq_rt sspecs]. unfold specs_rt, specs_writes.
  rewrite !aset_all_app. unfold aset_all at 1. cbn [fold_left fst snd].
  rewrite (al_lookup_aset str_eqb str_eqb_eq').
  destruct (str_eqb k key_sr) eqn:E.
  - apply str_eqb_eq in E. subst k. symmetry. apply seq_json_ok_SR. exact Hok.
  - rewrite (al_lookup_aset_all str_eqb str_eqb_eq') by apply Hok.
    destruct (alookup str_eqb k (sspecs s)) as [v|] eqn:El; [reflexivity|].
    destruct (alookup str_eqb k (aset_all str_eqb (flat_map (chan_specs (sspecs s)) (seq_chans s)) [])) as [v|] eqn:Ep;
      [|reflexivity].
    apply (chan_writes_sub (sspecs s) (seq_chans s) [] (seq_json_ok_chans s Hok)) in Ep; [|intros k' v' H'; discriminate].
    rewrite El in Ep. discriminate.
Qed.

Lemma specs_rt_nodup s : NoDup (map fst (sspecs (seq_rt s))).
Proof. cbn [seq_rt sspecs]. unfold specs_rt. apply (al_nodup_aset_all str_eqb str_eqb_eq'). constructor. Qed.

Lemma specs_rt_length s : seq_json_ok s -> length (sspecs (seq_rt s)) = length (sspecs s).
Proof.
  intro Hok. apply (al_same_lookup_length str_eqb str_eqb_eq'); [apply specs_rt_nodup | apply Hok|].
  intro k. apply (specs_rt_lookup s Hok k).
Qed.

(* ... and the order of its keys is the order of first insertion by the reader *)
Lemma specs_rt_key_order s :
  map fst (sspecs (seq_rt s)) = fold_left (fun ks k => key_add str_eqb k ks) (map fst (specs_writes s)) [].
Proof. cbn [seq_rt sspecs]. unfold specs_rt. exact (al_keys_aset_all str_eqb str_eqb_eq' (specs_writes s) []). Qed.

(* the characterisation, in one statement *)
Lemma sequence_roundtrip_keeps : forall s, seq_json_ok s ->
  let s' := seq_rt s in
  sdata s' = map (stamp_item (seq_SR s)) (sdata s) /\
  map fst (sdata s') = map fst (sdata s) /\
  (forall pos e, In (pos, EElem e) (sdata s) -> alookup Z.eqb pos (sdata s') = Some (EElem (stamp_el (seq_SR s) e))) /\
  (forall pos, In pos (map fst (sdata s)) -> alookup Z.eqb pos (sseq s') = alookup Z.eqb pos (sseq s)) /\
  (forall pos, ~ In pos (map fst (sdata s)) -> alookup Z.eqb pos (sseq s') = None) /\
  (sseq_tight s -> forall pos, alookup Z.eqb pos (sseq s') = alookup Z.eqb pos (sseq s)) /\
  (map fst (sseq s) = map fst (sdata s) -> sseq s' = sseq s) /\
  (forall k, spec_get s' k = spec_get s k) /\
  length (sspecs s') = length (sspecs s) /\ NoDup (map fst (sspecs s')) /\
  map fst (sspecs s') = fold_left (fun ks k => key_add str_eqb k ks) (map fst (specs_writes s)) [].
Proof.
  intros s Hok s'. split; [reflexivity|]. split; [apply seq_rt_positions|].
  split; [intros pos e; apply seq_rt_data; exact Hok|].
  split; [intros pos; apply sseq_rt_lookup_pos; exact Hok|].
  split; [apply sseq_rt_lookup_out|].
  split; [apply sseq_rt_lookup_tight; exact Hok|].
  split; [apply sseq_rt_same_order; apply Hok|].
  split; [apply specs_rt_lookup; exact Hok|].
  split; [apply specs_rt_length; exact Hok|].
  split; [apply specs_rt_nodup | apply specs_rt_key_order].
Qed.

(* when every blueprint already carries the sequence sample rate, the data come back as the very same list *)
Definition seq_bps_carry_SR (s : seq) : Prop :=
  forall pos e c ch b, In (pos, EElem e) (sdata s) -> In (c, ch) (edata e) -> ckind ch = KBp b -> sr b = seq_SR s.

Lemma seq_rt_data_id s : seq_json_ok s -> seq_bps_carry_SR s -> sdata (seq_rt s) = sdata s.
Proof.
  intros Hok Hsr. cbn [seq_rt sdata]. rewrite <- (map_id (sdata s)) at 2. apply map_ext_in. intros [pos x] Hin.
  destruct (seq_json_ok_elems s Hok pos x Hin) as [e ->]. unfold stamp_item. cbn [fst snd].
  rewrite stamp_el_id; [reflexivity|]. intros c ch Hc. destruct (ckind ch) as [b|arrs asr] eqn:Hk; [|exact I].
  apply (Hsr pos e c ch b Hin Hc Hk).
Qed.

(* ====================================================================================================== *)
(* Part 5: observational consequences                                                                       *)
(* ====================================================================================================== *)

(* ---------- the description ---------- *)
Lemma descr_entry_stamp SR p : descr_entry (stamp_entry SR p) = descr_entry p.
Proof.
  destruct p as [c ch]. unfold stamp_entry. cbn [fst snd].
  destruct (ckind ch) as [b|arrs asr] eqn:Hk; [|reflexivity].
  unfold descr_entry. cbn [fst snd ckind cflags]. rewrite Hk. reflexivity.
Qed.

Lemma el_descr_stamp SR e : el_descr (stamp_el SR e) = el_descr e.
Proof.
  rewrite !el_descr_unfold. unfold stamp_el. cbn [edata]. rewrite mapM_map.
  rewrite (mapM_ext _ descr_entry) by apply descr_entry_stamp. reflexivity.
Qed.

Lemma mapM_ext_in {A B} (f g : A -> result B) l : (forall x, In x l -> f x = g x) -> mapM f l = mapM g l.
Proof.
  induction l as [|x t IH]; intro H; [reflexivity|]. cbn [mapM].
  rewrite (H x (or_introl eq_refl)), IH; [reflexivity|]. intros y Hy. apply H. right. exact Hy.
Qed.

Lemma seq_rt_pos_descr s : seq_json_ok s ->
  mapM (pos_descr (sseq (seq_rt s))) (sdata (seq_rt s)) = mapM (pos_descr (sseq s)) (sdata s).
Proof.
  intro Hok. unfold seq_rt at 2. cbn [sdata]. rewrite mapM_map. apply mapM_ext_in. intros [pos x] Hin.
  destruct (seq_json_ok_elems s Hok pos x Hin) as [e ->].
  unfold stamp_item, pos_descr. cbn [fst snd entry_descr]. rewrite el_descr_stamp.
  rewrite (sseq_rt_lookup_pos s pos Hok); [reflexivity|].
  apply in_map_iff. exists (pos, EElem e). split; [reflexivity|exact Hin].
Qed.

(* reading a settings dictionary by key *)
Lemma pd_get_specs_descr (k : string) : forall L,
  pd_get k (specs_descr L) = match alookup str_eqb (S_ k) L with Some v => Ok (pv_of_specval v) | None => Err EKey end.
Proof.
  unfold pd_get, specs_descr.
  induction L as [|[k0 v0] t IH]; [reflexivity|].
  cbn [map find alookup fst snd pv_str_eqb]. destruct (str_eqb (S_ k) k0); [reflexivity | exact IH].
Qed.

Lemma pd_items_specs_descr L : exists items, pd_items (specs_descr L) = Ok items /\ length items = length L.
Proof. unfold specs_descr. eexists. split; [reflexivity|]. apply map_length. Qed.

(* the description of the sequence read back: the per-position entries are identical, the awgspecs
   sub-dictionary answers every key alike and has as many keys *)
Lemma sequence_roundtrip_descr : forall s d, seq_json_ok s -> seq_descr s = Ok d ->
  exists l,
    d = PDict (l ++ [(pstr "awgspecs", specs_descr (sspecs s))]) /\
    seq_descr (seq_rt s) = Ok (PDict (l ++ [(pstr "awgspecs", specs_descr (sspecs (seq_rt s)))])) /\
    (forall k : string, pd_get k (specs_descr (sspecs (seq_rt s))) = pd_get k (specs_descr (sspecs s))) /\
    length (sspecs (seq_rt s)) = length (sspecs s).
Proof.
  intros s d Hok Hd. rewrite seq_descr_unfold in Hd.
  destruct (mapM (pos_descr (sseq s)) (sdata s)) as [l|er] eqn:El; [|discriminate]. cbn [bind] in Hd.
  injection Hd as <-. exists l. split; [reflexivity|]. split.
  - rewrite seq_descr_unfold, (seq_rt_pos_descr s Hok), El. reflexivity.
  - split; [|apply specs_rt_length; exact Hok].
    intro k. rewrite !pd_get_specs_descr. fold (spec_get (seq_rt s) (S_ k)) (spec_get s (S_ k)).
    rewrite (specs_rt_lookup s Hok). reflexivity.
Qed.

(* ---------- Sequence.__eq__ ---------- *)
Lemma el_eqb_stamp SR e : el_json_ok e -> el_eqb e (stamp_el SR e) = Ok true.
Proof.
  intros [ND Hok].
  assert (forall c ch, In (c, ch) (edata e) -> exists x, ckind ch = KBp x) as Ha.
  { intros c ch Hin. destruct (Hok c ch Hin) as (_ & (b & Hk & _) & _). exists b. exact Hk. }
  apply el_eq_iff.
  - exact Ha.
  - unfold stamp_el. cbn [edata]. intros c ch Hin. apply in_map_iff in Hin as ([c0 ch0] & E & Hin0).
    destruct (Ha c0 ch0 Hin0) as [x Hx]. unfold stamp_entry in E. cbn [fst snd] in E. rewrite Hx in E.
    injection E as <- <-. eexists. reflexivity.
  - exact ND.
  - unfold stamp_el. cbn [edata]. rewrite map_fst_stamp. exact ND.
  - split; [unfold stamp_el; cbn [edata]; rewrite map_length; reflexivity|].
    intros c ch Hin. destruct (Ha c ch Hin) as [x Hx].
    exists (mkCh (KBp (set_sr x SR)) (cflags ch)), x, (set_sr x SR).
    split; [|split; [exact Hx|split; [reflexivity|split; [apply bp_eqb_set_sr | apply flags_eqb_refl]]]].
    unfold el_lookup, stamp_el. cbn [edata]. apply alookup_NoDup; [rewrite map_fst_stamp; exact ND|].
    apply in_map_iff. exists (c, ch). split; [|exact Hin].
    unfold stamp_entry. cbn [fst snd]. rewrite Hx. reflexivity.
Qed.

Lemma data_eqb_aux_true (B : list (Z * entry)) : forall l,
  (forall p x, In (p, x) l -> exists y, alookup Z.eqb p B = Some y /\ entry_eqb x y = Ok true) ->
  data_eqb_aux entry_eqb l B = Ok true.
Proof.
  induction l as [|[p x] t IH]; intro H; [reflexivity|].
  cbn [data_eqb_aux]. destruct (H p x (or_introl eq_refl)) as (y & Hy & He). rewrite Hy, He. cbn [bind].
  apply IH. intros p' x' Hin. apply H. right. exact Hin.
Qed.

Lemma specval_eqb_refl v : specval_eqb v v = true.
Proof.
  destruct v as [x|k o f t]; cbn [specval_eqb]; [apply val_eqb_refl|].
  rewrite str_eqb_refl, Z.eqb_refl, !val_eqb_refl. reflexivity.
Qed.

Lemma specs_eqb_same_dict (a b : list (str * specval)) :
  NoDup (map fst a) -> length a = length b -> (forall k, alookup str_eqb k b = alookup str_eqb k a) ->
  specs_eqb a b = true.
Proof.
  intros ND Hl Hk. unfold specs_eqb. rewrite Hl, Nat.eqb_refl. cbn [andb].
  apply forallb_forall. intros [k v] Hin. cbn [fst snd].
  rewrite Hk, (al_lookup_nodup str_eqb str_eqb_eq' k v a ND Hin). apply specval_eqb_refl.
Qed.

Lemma sqing_eqb_refl q : sqing_eqb q q = true.
Proof. apply sqing_eq_iff. reflexivity. Qed.

Lemma sseq_tight_length s : seq_json_ok s -> sseq_tight s -> length (sseq s) = length (sdata s).
Proof.
  intros (ND & _ & _ & H) [NQ Hincl]. rewrite <- (map_length fst (sseq s)), <- (map_length fst (sdata s)).
  apply Nat.le_antisymm; apply NoDup_incl_length; try assumption.
  intros pos Hin. apply in_map_iff in Hin as ([p x] & E & Hin). cbn [fst] in E. subst p.
  destruct (H pos x Hin) as (e & _ & _ & _ & [q Hq] & _).
  apply (al_lookup_in Z.eqb Z_eqb_eq) in Hq. apply in_map_iff. exists (pos, q). split; [reflexivity|exact Hq].
Qed.

(* the sequence read back compares equal to the original (blueprint equality does not look at the sample
   rate, so no hypothesis on the blueprints' own SR is needed) *)
Lemma sequence_roundtrip_eq : forall s, seq_json_ok s -> sseq_tight s -> seq_eqb s (seq_rt s) = Ok true.
Proof.
  intros s Hok Ht. unfold seq_eqb, seqT_eqb.
  assert (length (sdata s) = length (sdata (seq_rt s))) as -> by (cbn [seq_rt sdata]; rewrite map_length; reflexivity).
  rewrite Nat.eqb_refl.
  rewrite (data_eqb_aux_true (sdata (seq_rt s)) (sdata s)).
  2:{ intros pos x Hin. destruct Hok as (ND & NS & HS & H). destruct (H pos x Hin) as (e & -> & Hel & _).
      exists (EElem (stamp_el (seq_SR s) e)). split.
      - apply seq_rt_data; [exact (conj ND (conj NS (conj HS H))) | exact Hin].
      - cbn [entry_eqb]. apply el_eqb_stamp. exact Hel. }
  cbn [bind negb].
  rewrite (specs_eqb_same_dict (sspecs s) (sspecs (seq_rt s))).
  2:{ apply Hok. }
  2:{ symmetry. apply specs_rt_length. exact Hok. }
  2:{ intro k. apply (specs_rt_lookup s Hok k). }
  cbn [negb]. f_equal. apply andb_true_iff. split.
  - apply Nat.eqb_eq. rewrite (sseq_tight_length s Hok Ht). cbn [seq_rt sseq]. unfold sseq_rt.
    rewrite map_length. reflexivity.
  - apply forallb_forall. intros [p q] Hin. cbn [fst snd].
    rewrite (sseq_rt_lookup_tight s Hok Ht p).
    rewrite (al_lookup_nodup Z.eqb Z_eqb_eq p q (sseq s) (proj1 Ht) Hin). apply sqing_eqb_refl.
Qed.

(* (2) in the form "whatever the reader returns" *)
Lemma sequence_roundtrip_observations : forall s d s',
  seq_json_ok s -> seq_descr s = Ok d -> seq_from_descr (json_rt d) = Ok s' ->
  (exists l,
     d = PDict (l ++ [(pstr "awgspecs", specs_descr (sspecs s))]) /\
     seq_descr s' = Ok (PDict (l ++ [(pstr "awgspecs", specs_descr (sspecs s'))])) /\
     (forall k : string, pd_get k (specs_descr (sspecs s')) = pd_get k (specs_descr (sspecs s))) /\
     length (sspecs s') = length (sspecs s)) /\
  (sseq_tight s -> seq_eqb s s' = Ok true).
Proof.
  intros s d s' Hok Hd Hs'. rewrite (sequence_roundtrip s d Hok Hd) in Hs'. injection Hs' as <-.
  split; [apply (sequence_roundtrip_descr s d Hok Hd) | apply sequence_roundtrip_eq; exact Hok].
Qed.

(* ---------- a position without sequencing entry cannot be read back ---------- *)
Definition not_set_item (kv : pv * pv) : Prop :=
  exists k x, kv = (PStr k, PDict [(pstr "channels", x); (pstr "sequencing", pstr "Not set")]).

Lemma seq_read_pos_not_set specs SR acc k x :
  exists e, seq_read_pos specs SR acc k (PDict [(pstr "channels", x); (pstr "sequencing", pstr "Not set")]) = Err e.
Proof.
  unfold seq_read_pos. rewrite pd_get_pos_channels. cbn [bind].
  destruct (pd_items x) as [chitems|e]; [|eexists; reflexivity]. cbn [bind].
  destruct (seq_read_chans specs SR chitems el_empty acc) as [[el sq]|e]; [|eexists; reflexivity]. cbn [bind fst snd].
  destruct (int_of_str k) as [pos|e]; [|eexists; reflexivity]. cbn [bind].
  destruct (step_res (seq_add_element sq pos el)) as [sq1|e]; [|eexists; reflexivity]. cbn [bind].
  rewrite pd_get_pos_sequencing. cbn [bind]. eexists. reflexivity.
Qed.

Lemma seq_read_items_not_set specs SR : forall l acc, Exists not_set_item l ->
  exists e, seq_read_items specs SR l acc = Err e.
Proof.
  induction l as [|[k ed] t IH]; intros acc Hex; [inversion Hex|].
  cbn [seq_read_items]. destruct k; try (eexists; reflexivity).
  destruct (seq_read_pos specs SR acc x ed) as [a|e] eqn:Er; [|eexists; reflexivity]. cbn [bind].
  inversion Hex as [? ? Hbad|? ? Htail]; subst.
  - destruct Hbad as (k' & x' & E). injection E as -> ->.
    destruct (seq_read_pos_not_set specs SR acc k' x') as [e He]. rewrite He in Er. discriminate.
  - apply IH. exact Htail.
Qed.

Lemma pos_descr_not_set Q : forall items l pos x,
  mapM (pos_descr Q) items = Ok l -> In (pos, x) items -> alookup Z.eqb pos Q = None ->
  Exists not_set_item (map jr l).
Proof.
  induction items as [|p t IH]; intros l pos x HM Hin Hq; [destruct Hin|].
  cbn [mapM] in HM. destruct (pos_descr Q p) as [kv|er] eqn:Ekv; [|discriminate]. cbn [bind] in HM.
  destruct (mapM (pos_descr Q) t) as [r|er] eqn:Er; [|discriminate]. cbn [bind] in HM. injection HM as <-.
  cbn [map]. destruct Hin as [->|Hin].
  - apply Exists_cons_hd. unfold pos_descr in Ekv. cbn [fst snd] in Ekv.
    destruct (entry_descr x) as [d|er']; [|discriminate]. cbn [bind] in Ekv. rewrite Hq in Ekv. injection Ekv as <-.
    eexists. eexists. reflexivity.
  - apply Exists_cons_tl. apply (IH r pos x eq_refl Hin Hq).
Qed.

Lemma seq_roundtrip_needs_sequencing : forall s d pos,
  seq_descr s = Ok d -> In pos (map fst (sdata s)) -> alookup Z.eqb pos (sseq s) = None ->
  exists e, seq_from_descr (json_rt d) = Err e.
Proof.
  intros s d pos Hd Hin Hq. rewrite seq_descr_unfold in Hd.
  destruct (mapM (pos_descr (sseq s)) (sdata s)) as [l|er] eqn:El; [|discriminate]. cbn [bind] in Hd.
  injection Hd as <-. rewrite seq_from_descr_read. unfold seq_read.
  cbn [json_rt]. rewrite map_app. cbn [map fst snd].
  change (map (fun kv : pv * pv => (json_rt (fst kv), json_rt (snd kv))) l) with (map jr l).
  match goal with |- context [PDict (map jr l ++ [?X])] => set (last := X) end.
  destruct (pd_get "awgspecs" (PDict (map jr l ++ [last]))) as [specs|e]; [|eexists; reflexivity]. cbn [bind].
  destruct (pd_get "SR" specs) as [SRp|e]; [|eexists; reflexivity]. cbn [bind].
  destruct (val_of_pv SRp) as [SR|e]; [|eexists; reflexivity]. cbn [bind pd_items].
  rewrite removelast_last.
  apply in_map_iff in Hin as ([p x] & E & Hin). cbn [fst] in E. subst p.
  destruct (seq_read_items_not_set specs SR (map jr l) seq_empty (pos_descr_not_set _ _ _ _ _ El Hin Hq)) as [e He].
  rewrite He. eexists. reflexivity.
Qed.

(* ====================================================================================================== *)
(* Part 6: a concrete sequence built through the API (non-vacuity), and a counterexample                    *)
(* ====================================================================================================== *)
Local Open Scope Z_scope.

(* two blueprints (ramp + sine with a segment-bound marker and an absolute marker; ramp + gaussian), two
   elements over the integer channels 1 and 2 (one channel with flags), a sequence with SR, amplitudes, offsets,
   a delay and a filter compensation, two positions, non-default sequencing at position 2 *)
Definition ex_prog : list op :=
  [ BNew 0;
    BInsert 0 0 Framp [VNum 0; VNum 1] (VNum (1 # 10)) (Some (S_ "up"));
    BInsert 0 1 Fsine [VNum 10; VNum 1; VNum 0; VNum 0] (VNum (2 # 10)) (Some (S_ "osc"));
    BSetSegMarker 0 (S_ "osc") (1 # 100, 2 # 100)%Q 1;
    BSetMarker 0 2 [(0, 5 # 100)%Q];
    BSetSR 0 (VNum 100);
    BNew 1;
    BInsert 1 0 Framp [VNum 0; VNum 0] (VNum (1 # 10)) (Some (S_ "lo"));
    BInsert 1 1 Fgauss [VNum 1; VNum (1 # 100); VNum 0; VNum 0] (VNum (2 # 10)) (Some (S_ "bump"));
    BSetSR 1 (VNum 100);
    ENew 0; EAddBp 0 (CInt 1) 0; EAddBp 0 (CInt 2) 1;
    EAddFlags 0 (CInt 1) [VNum 0; VNum 1; VStr (S_ "L"); VNum 3];
    ENew 1; EAddBp 1 (CInt 1) 1; EAddBp 1 (CInt 2) 0;
    SNew 0; SSetSR 0 (VNum 100);
    SSetAmp 0 (CInt 1) (VNum 1); SSetOff 0 (CInt 1) (VNum 0);
    SSetAmp 0 (CInt 2) (VNum (1 # 2)); SSetOff 0 (CInt 2) (VNum (1 # 10));
    SSetDelay 0 (CInt 2) (VNum (1 # 100));
    SSetFilter 0 (CInt 1) (S_ "HP") (Some 1) (VNum 1000) VNone;
    SAddElement 0 1 0; SAddElement 0 2 1;
    SSetSequencing 0 2 FNrep 5; SSetSequencing 0 2 FGoto 1;
    SSetName 0 (S_ "demo") ].

Definition seq_of_prog (p : list op) : seq :=
  match getS (final_store store0 p) 0%nat with Ok s => s | Err _ => seq_empty end.
Definition ex_seq : seq := seq_of_prog ex_prog.

(* the same sequence after the deprecated setSequenceSettings(5, ...) on a position that holds no element *)
Definition ex_seq_extra : seq := seq_of_prog (ex_prog ++ [SSetSettings 0 5 0 1 0 0]).

Fixpoint nodupb {A} (eqb : A -> A -> bool) (l : list A) : bool :=
  match l with [] => true | x :: t => negb (existsb (eqb x) t) && nodupb eqb t end.

Lemma nodupb_sound {A} (eqb : A -> A -> bool) (eqb_eq : forall a b, eqb a b = true <-> a = b) l :
  nodupb eqb l = true -> NoDup l.
Proof.
  induction l as [|x t IH]; intro H; [constructor|].
  cbn [nodupb] in H. apply andb_true_iff in H as [H1 H2]. constructor; [|apply IH; exact H2].
  intro Hin. apply (al_existsb_in eqb eqb_eq) in Hin. rewrite Hin in H1. discriminate.
Qed.

Ltac solve_bp_json_ok :=
  split; [unfold Inv; repeat split; vm_compute; reflexivity|];
  split; [repeat constructor; vm_compute; discriminate|];
  let k := fresh "k" in let f := fresh "f" in let a := fresh "a" in let d := fresh "d" in
  let Hf := fresh "Hf" in let Ha := fresh "Ha" in let Hd := fresh "Hd" in
  intros k f a d Hf Ha Hd;
  repeat (destruct k as [|k];
          [cbn in Hf, Ha, Hd; inversion Hf; inversion Ha; inversion Hd; subst;
           split; [reflexivity|]; cbn; split; [reflexivity|]; eexists; reflexivity |]);
  try (destruct k; discriminate).

Ltac solve_ex_chan Hfl :=
  split; [eexists; reflexivity|]; split;
  [eexists; split; [reflexivity|]; split; [|reflexivity]; solve_bp_json_ok | Hfl].

Ltac solve_ex_pos Hfl1 :=
  eexists; split; [reflexivity|]; split;
  [ split; [apply (nodupb_sound chan_eqb chan_eqb_eq); vm_compute; reflexivity|];
    let c := fresh "c" in let ch := fresh "ch" in let Hc := fresh "Hc" in let E := fresh "E" in
    intros c ch Hc; cbn [edata] in Hc; destruct Hc as [E|[E|[]]]; injection E as <- <-;
    [solve_ex_chan Hfl1 | solve_ex_chan ltac:(exact I)]
  | split; [eexists; vm_compute; reflexivity|];
    split; [eexists; vm_compute; reflexivity|];
    let c := fresh "c" in let Hc := fresh "Hc" in
    intros c Hc; cbn [edata map fst] in Hc;
    destruct Hc as [<-|[<-|[]]]; eexists; eexists; split; vm_compute; reflexivity ].

Ltac solve_ex_seq_ok :=
  split; [apply (nodupb_sound Z.eqb Z_eqb_eq); vm_compute; reflexivity|];
  split; [apply (nodupb_sound str_eqb str_eqb_eq'); vm_compute; reflexivity|];
  split; [eexists; vm_compute; reflexivity|];
  let pos := fresh "pos" in let x := fresh "x" in let Hin := fresh "Hin" in let E := fresh "E" in
  intros pos x Hin; vm_compute in Hin;
  destruct Hin as [E|[E|[]]]; injection E as <- <-;
  [ solve_ex_pos ltac:(cbn; split; [reflexivity|]; repeat constructor; lia)
  | solve_ex_pos ltac:(exact I) ].

Lemma ex_seq_ok : seq_json_ok ex_seq.
Proof. solve_ex_seq_ok. Qed.

Lemma ex_seq_extra_ok : seq_json_ok ex_seq_extra.
Proof. solve_ex_seq_ok. Qed.

Lemma ex_seq_tight : sseq_tight ex_seq.
Proof.
  split; [apply (nodupb_sound Z.eqb Z_eqb_eq); vm_compute; reflexivity|].
  intros p Hp. vm_compute in Hp. vm_compute. exact Hp.
Qed.

(* non-vacuity: no call of the program raised; the sequence is well-formed; the reader's result is computed and
   is the characterised one; here data and sequencing come back as the very same lists, the settings come back
   with their keys in another order (amplitudes and offsets first), the name is lost, and == holds *)
Lemma seq_roundtrip_example :
  run ex_prog = map (fun _ => PNone) ex_prog /\
  seq_json_ok ex_seq /\ sseq_tight ex_seq /\
  exists d, seq_descr ex_seq = Ok d /\
    seq_from_descr (json_rt d) = Ok (seq_rt ex_seq) /\
    sdata (seq_rt ex_seq) = sdata ex_seq /\
    sseq (seq_rt ex_seq) = sseq ex_seq /\
    map fst (sspecs ex_seq)
      = [key_sr; key_amp (CInt 1); key_off (CInt 1); key_amp (CInt 2); key_off (CInt 2); key_delay (CInt 2);
         key_filt (CInt 1)] /\
    map fst (sspecs (seq_rt ex_seq))
      = [key_amp (CInt 1); key_off (CInt 1); key_amp (CInt 2); key_off (CInt 2); key_sr; key_delay (CInt 2);
         key_filt (CInt 1)] /\
    sname ex_seq = S_ "demo" /\ sname (seq_rt ex_seq) = [] /\
    seq_eqb ex_seq (seq_rt ex_seq) = Ok true.
Proof.
  split; [vm_compute; reflexivity|]. split; [exact ex_seq_ok|]. split; [exact ex_seq_tight|].
  destruct (seq_descr ex_seq) as [d|e] eqn:Ed; [|vm_compute in Ed; discriminate].
  exists d. split; [reflexivity|]. split.
  - vm_compute in Ed. injection Ed as <-. vm_compute. reflexivity.
  - repeat split; vm_compute; reflexivity.
Qed.

(* counterexample for the hypothesis sseq_tight of the equality statement: a sequencing entry for a position
   that holds no element is not written, so it is not read back, and the result compares unequal *)
Lemma seq_roundtrip_extra_sequencing :
  seq_json_ok ex_seq_extra /\ ~ sseq_tight ex_seq_extra /\
  exists d, seq_descr ex_seq_extra = Ok d /\
    seq_from_descr (json_rt d) = Ok (seq_rt ex_seq_extra) /\
    alookup Z.eqb 5 (sseq ex_seq_extra) = Some (mkSq 0 1 0 0 0) /\
    alookup Z.eqb 5 (sseq (seq_rt ex_seq_extra)) = None /\
    seq_eqb ex_seq_extra (seq_rt ex_seq_extra) = Ok false.
Proof.
  split; [exact ex_seq_extra_ok|]. split.
  - intros [_ Hincl]. specialize (Hincl 5). vm_compute in Hincl.
    destruct Hincl as [H|[H|[]]]; [right; right; left; reflexivity | discriminate | discriminate].
  - destruct (seq_descr ex_seq_extra) as [d|e] eqn:Ed; [|vm_compute in Ed; discriminate].
    exists d. split; [reflexivity|]. split.
    + vm_compute in Ed. injection Ed as <-. vm_compute. reflexivity.
    + repeat split; vm_compute; reflexivity.
Qed.
