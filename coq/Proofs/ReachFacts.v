(* Invariants of every state reachable through the public API (the op language of Model/Interp.v):
   they discharge, for reachable states, the well-formedness hypotheses used by the theorems of C10, C16, C19, C20.
   Definitions used by the statements come first; lemmas follow. *)
From Coq Require Import String Ascii List Arith ZArith QArith Bool Lia.
From BB Require Import Base.Names Base.Num Base.PyList Model.Types Model.Blueprint Model.Forge Model.Element
  Model.PyVal Model.Sequence Model.Output Model.Descr Model.Tools Model.Interp Proofs.BlueprintFacts.
Import ListNotations.

(* an element: distinct channel ids, every blueprint channel holds a well-formed blueprint *)
Definition el_inv (e : elem) : Prop :=
  NoDup (map fst (edata e)) /\ forall c ch b, In (c, ch) (edata e) -> ckind ch = KBp b -> Inv b.

Definition sub_inv (sb : subseq) : Prop :=
  NoDup (akeys (sdata sb)) /\ NoDup (akeys (sseq sb)) /\ NoDup (akeys (sspecs sb)) /\
  forall p e, In (p, e) (sdata sb) -> el_inv e.

Definition entry_inv (x : entry) : Prop := match x with EElem e => el_inv e | ESub sb => sub_inv sb end.

(* a sequence: the three dicts have distinct keys, every entry is well-formed *)
Definition seq_inv (s : seq) : Prop :=
  NoDup (akeys (sdata s)) /\ NoDup (akeys (sseq s)) /\ NoDup (akeys (sspecs s)) /\
  forall p x, In (p, x) (sdata s) -> entry_inv x.

Definition store_ok (st : store) : Prop :=
  (forall r b, In (r, b) (bps st) -> Inv b) /\
  (forall r e, In (r, e) (els st) -> el_inv e) /\
  (forall r s, In (r, s) (sqs st) -> seq_inv s).

(* every op except reading an object back from JSON (C19's business) *)
Definition api_op (o : op) : Prop :=
  match o with BFromJson _ _ | EFromJson _ _ | SFromJson _ _ => False | _ => True end.

(* sequencing entries only at filled positions: holds as long as the deprecated setSequenceSettings is not used *)
Definition seq_keys_sub (s : seq) : Prop := forall k, In k (akeys (sseq s)) -> In k (akeys (sdata s)).
Definition modern_op (o : op) : Prop :=
  match o with BFromJson _ _ | EFromJson _ _ | SFromJson _ _ | SSetSettings _ _ _ _ _ _ => False | _ => True end.

(* ---- lemmas: to be proved (see Props/Reach.v for the exact statements needed) ---- *)
From BB Require Import Proofs.ToolsFacts.

(* ================= association lists ================= *)
Section AL.
Context {K V : Type} (eqb : K -> K -> bool) (eqb_eq : forall a b, eqb a b = true <-> a = b).
Implicit Types (l : list (K * V)).

Lemma al_keys_sub k v l x : In x (akeys (aset eqb k v l)) -> x = k \/ In x (akeys l).
Proof.
  unfold akeys. intro H. apply in_map_iff in H as ([k0 v0] & Hf & Hin). cbn [fst] in Hf. subst k0.
  apply In_aset in Hin as [E|Hin].
  - left. inversion E; reflexivity.
  - right. apply in_map_iff. exists (x, v0). split; [reflexivity|exact Hin].
Qed.

Lemma al_NoDup_aset k v l : NoDup (akeys l) -> NoDup (akeys (aset eqb k v l)).
Proof.
  induction l as [|[k' v'] t IH]; cbn [aset]; intro H.
  - cbn [akeys map fst]. constructor; [intros []|constructor].
  - cbn [akeys map fst] in H. inversion H as [|? ? Hn Ht]; subst.
    destruct (eqb k k') eqn:E.
    + apply eqb_eq in E. subst k'. cbn [akeys map fst]. constructor; assumption.
    + cbn [akeys map fst]. constructor.
      * intro Hin. apply al_keys_sub in Hin as [->|Hin]; [|exact (Hn Hin)].
        assert (eqb k k = true) as Hr by (apply eqb_eq; reflexivity). congruence.
      * apply IH; exact Ht.
Qed.

Lemma al_keys_self k v l : In k (akeys (aset eqb k v l)).
Proof.
  induction l as [|[k' v'] t IH]; cbn [aset].
  - left; reflexivity.
  - destruct (eqb k k'); cbn [akeys map fst]; [left; reflexivity|right; exact IH].
Qed.

Lemma al_keys_mono k v l x : In x (akeys l) -> In x (akeys (aset eqb k v l)).
Proof.
  induction l as [|[k' v'] t IH]; cbn [aset]; intro H; [destruct H|].
  cbn [akeys map fst] in H.
  destruct (eqb k k') eqn:E; cbn [akeys map fst].
  - apply eqb_eq in E. subst k'. exact H.
  - destruct H as [H|H]; [left; exact H|right; apply IH; exact H].
Qed.
End AL.

Section MS.
Context {V : Type}.
Implicit Types (a b : list (Z * V)).

Lemma ms_NoDup N : forall b a, NoDup (akeys a) -> NoDup (akeys (merge_shift N a b)).
Proof.
  unfold merge_shift. induction b as [|[k v] b IH]; intros a H; cbn [fold_left]; [exact H|].
  apply IH. apply (al_NoDup_aset Z.eqb Z.eqb_eq). exact H.
Qed.

Lemma ms_In N : forall b a k v, In (k, v) (merge_shift N a b) ->
  In (k, v) a \/ exists k', In (k', v) b /\ k = (k' + N)%Z.
Proof.
  unfold merge_shift. induction b as [|[k0 v0] b IH]; intros a k v H; cbn [fold_left] in H; [left; exact H|].
  apply IH in H as [H|(k' & H & E)].
  - cbn [fst snd] in H. apply In_aset in H as [E|H].
    + inversion E; subst. right. exists k0. split; [left; reflexivity|reflexivity].
    + left; exact H.
  - right. exists k'. split; [right; exact H|exact E].
Qed.

Lemma ms_keys_sub N b a k : In k (akeys (merge_shift N a b)) ->
  In k (akeys a) \/ exists k', In k' (akeys b) /\ k = (k' + N)%Z.
Proof.
  unfold akeys at 1. intro H. apply in_map_iff in H as ([k0 v0] & Hf & Hin). cbn [fst] in Hf. subst k0.
  apply ms_In in Hin as [Hin|(k' & Hin & E)].
  - left. unfold akeys. apply in_map_iff. exists (k, v0). split; [reflexivity|exact Hin].
  - right. exists k'. split; [|exact E]. unfold akeys. apply in_map_iff. exists (k', v0). split; [reflexivity|exact Hin].
Qed.

Lemma ms_keys_l N : forall b a k, In k (akeys a) -> In k (akeys (merge_shift N a b)).
Proof.
  unfold merge_shift. induction b as [|[k0 v0] b IH]; intros a k H; cbn [fold_left]; [exact H|].
  apply IH. apply (al_keys_mono Z.eqb Z.eqb_eq). exact H.
Qed.

Lemma ms_keys_r N : forall b a k', In k' (akeys b) -> In (k' + N)%Z (akeys (merge_shift N a b)).
Proof.
  induction b as [|[k0 v0] b IH]; intros a k' H; [destruct H|].
  cbn [akeys map fst] in H. unfold merge_shift. cbn [fold_left fst snd]. destruct H as [<-|H].
  - apply ms_keys_l. apply al_keys_self.
  - apply IH. exact H.
Qed.
End MS.

(* ================= elements ================= *)
Lemma el_inv_empty : el_inv el_empty.
Proof. split; [constructor|intros c ch b []]. Qed.

Lemma el_inv_set e c x :
  el_inv e -> (forall b, ckind x = KBp b -> Inv b) -> el_inv (el_set e c x).
Proof.
  intros [Hnd Hbp] Hx. unfold el_set. split; cbn [edata].
  - apply (al_NoDup_aset chan_eqb chan_eqb_eq). exact Hnd.
  - intros c0 ch b Hin Hk. apply In_aset in Hin as [E|Hin].
    + inversion E; subst. apply Hx. exact Hk.
    + eapply Hbp; eassumption.
Qed.

Lemma el_inv_lookup e c ch b : el_inv e -> el_lookup e c = Some ch -> ckind ch = KBp b -> Inv b.
Proof.
  intros [_ Hbp] Hl Hk. unfold el_lookup in Hl. apply alookup_In in Hl as (c' & Hin).
  eapply Hbp; eassumption.
Qed.

Lemma el_add_bp_inv e c b : Inv b -> el_inv e -> el_inv (fst (el_add_bp e c b)).
Proof.
  intros Hb He. unfold el_add_bp. destruct (bp_has_empty_list b); [exact He|].
  unfold ok; cbn [fst]. apply el_inv_set; [exact He|].
  cbn [ckind]. intros b' E. inversion E; subst. apply Inv_copy. exact Hb.
Qed.

Lemma el_add_array_inv e c w SR ms : el_inv e -> el_inv (fst (el_add_array e c w SR ms)).
Proof.
  intro He. unfold el_add_array. destruct (add_markers (rle_len w) ms []) as [arrs good].
  destruct good; unfold ok, fail; cbn [fst]; [|exact He].
  (apply el_inv_set; [exact He|]); cbn [ckind]; intros b' E; discriminate E.
Qed.

Lemma el_add_flags_inv e c fl : el_inv e -> el_inv (fst (el_add_flags e c fl)).
Proof.
  intro He. unfold el_add_flags.
  destruct (negb (Nat.eqb (length fl) 4)); [exact He|].
  destruct (all_some (map flag_int fl)) as [ints|]; [|exact He].
  destruct (el_lookup e c) as [ch|] eqn:El; [|exact He].
  unfold ok; cbn [fst]. apply el_inv_set; [exact He|]. cbn [ckind]. intros b Hk.
  eapply el_inv_lookup; eassumption.
Qed.

Lemma el_on_bp_inv e c f :
  (forall b, Inv b -> Inv (fst (f b))) -> el_inv e -> el_inv (fst (el_on_bp e c f)).
Proof.
  intros Hf He. unfold el_on_bp.
  destruct (el_lookup e c) as [ch|] eqn:El; [|exact He].
  destruct (ckind ch) as [b|arrs asr] eqn:Ek; [|exact He].
  pose proof (Hf b (el_inv_lookup _ _ _ _ He El Ek)) as Hb.
  destruct (f b) as [b' r]. cbn [fst] in *. apply el_inv_set; [exact He|].
  cbn [ckind]. intros b0 E. inversion E; subst. exact Hb.
Qed.

Lemma el_change_arg_inv e c n a v ev : el_inv e -> el_inv (fst (el_change_arg e c n a v ev)).
Proof. intro He. unfold el_change_arg. apply el_on_bp_inv; [|exact He]. intros b Hb. apply Inv_change_arg. exact Hb. Qed.

Lemma el_change_dur_inv e c n d ev : el_inv e -> el_inv (fst (el_change_dur e c n d ev)).
Proof. intro He. unfold el_change_dur. apply el_on_bp_inv; [|exact He]. intros b Hb. apply Inv_change_dur. exact Hb. Qed.

Lemma el_vary_inv e c n a v : el_inv e -> el_inv (fst (el_vary e c n a v)).
Proof.
  intro He. unfold el_vary. destruct (is_duration a); [apply el_change_dur_inv|apply el_change_arg_inv]; exact He.
Qed.

(* ================= sequences: seq_inv ================= *)
Lemma seq_inv_empty : seq_inv seq_empty.
Proof. unfold seq_inv, seq_empty; cbn [sdata sseq sspecs akeys map]. repeat split; try constructor. intros p x []. Qed.

Lemma seq_inv_spec_set s k v : seq_inv s -> seq_inv (spec_set s k v).
Proof.
  intros (H1 & H2 & H3 & H4). unfold spec_set, seq_inv; cbn [sdata sseq sspecs].
  repeat split; try assumption. apply (al_NoDup_aset str_eqb str_eqb_eq). exact H3.
Qed.

Lemma seq_inv_set_sseq s k q : seq_inv s -> seq_inv (set_sseq s (aset Z.eqb k q (sseq s))).
Proof.
  intros (H1 & H2 & H3 & H4). unfold set_sseq, seq_inv; cbn [sdata sseq sspecs].
  repeat split; try assumption. apply (al_NoDup_aset Z.eqb Z.eqb_eq). exact H2.
Qed.

Lemma seq_inv_set_name s n : seq_inv s -> seq_inv (mkSeq (sdata s) (sseq s) (sspecs s) n).
Proof. intro H. exact H. Qed.

Lemma seq_inv_set_filter s c k o f t : seq_inv s -> seq_inv (fst (seq_set_filter s c k o f t)).
Proof.
  intro H. unfold seq_set_filter.
  destruct (negb (str_eqb k (S_ "HP") || str_eqb k (S_ "LP"))); [exact H|].
  destruct o as [o|]; [|exact H].
  destruct (negb (val_is_none f) && negb (val_is_none t)); [exact H|].
  unfold ok; cbn [fst]. apply seq_inv_spec_set. exact H.
Qed.

Lemma seq_inv_set_sequencing s pos f v : seq_inv s -> seq_inv (fst (seq_set_sequencing s pos f v)).
Proof.
  intro H. unfold seq_set_sequencing. destruct (alookup Z.eqb pos (sseq s)) as [q|]; [|exact H].
  unfold ok; cbn [fst]. apply seq_inv_set_sseq. exact H.
Qed.

Lemma seq_inv_put s pos x nm :
  seq_inv s -> entry_inv x ->
  seq_inv (mkSeq (aset Z.eqb pos x (sdata s)) (aset Z.eqb pos sq_default (sseq s)) (sspecs s) nm).
Proof.
  intros (H1 & H2 & H3 & H4) Hx. unfold seq_inv; cbn [sdata sseq sspecs].
  split; [apply (al_NoDup_aset Z.eqb Z.eqb_eq); exact H1|].
  split; [apply (al_NoDup_aset Z.eqb Z.eqb_eq); exact H2|].
  split; [exact H3|].
  intros p y Hin. apply In_aset in Hin as [E|Hin]; [inversion E; subst; exact Hx|eapply H4; exact Hin].
Qed.

Lemma seq_inv_add_element s pos e : seq_inv s -> el_inv e -> seq_inv (fst (seq_add_element s pos e)).
Proof.
  intros Hs He. unfold seq_add_element. destruct (el_validate e); [|exact Hs].
  unfold ok; cbn [fst]. apply seq_inv_put; [exact Hs|exact He].
Qed.

Lemma to_sub_data_In : forall l p e, In (p, e) (to_sub_data l) -> In (p, EElem e) l.
Proof.
  induction l as [|[p0 [e0|sb]] t IH]; intros p e H; cbn [to_sub_data] in H.
  - destruct H.
  - destruct H as [E|H]; [inversion E; subst; left; reflexivity|right; apply IH; exact H].
  - right. apply IH. exact H.
Qed.

Lemma to_sub_data_NoDup : forall l, NoDup (akeys l) -> NoDup (akeys (to_sub_data l)).
Proof.
  induction l as [|[p0 [e0|sb]] t IH]; intro H; cbn [to_sub_data]; [constructor| |];
    cbn [akeys map fst] in H; inversion H as [|? ? Hn Ht]; subst.
  - cbn [akeys map fst]. constructor; [|apply IH; exact Ht].
    intro Hin. apply Hn. unfold akeys in Hin |- *. apply in_map_iff in Hin as ([p e] & Hf & Hin). cbn [fst] in Hf. subst p.
    apply to_sub_data_In in Hin. apply in_map_iff. exists (p0, EElem e). split; [reflexivity|exact Hin].
  - apply IH. exact Ht.
Qed.

Lemma seq_inv_add_sub s pos sub : seq_inv s -> seq_inv sub -> seq_inv (fst (seq_add_sub s pos sub)).
Proof.
  intros Hs (B1 & B2 & B3 & B4). unfold seq_add_sub.
  destruct (existsb (fun p : Z * entry => entry_is_sub (snd p)) (sdata sub)); [exact Hs|].
  destruct (negb (val_eqb (seq_SR sub) (seq_SR s))); [exact Hs|].
  unfold ok; cbn [fst]. apply seq_inv_put; [exact Hs|].
  unfold entry_inv, sub_inv; cbn [sdata sseq sspecs].
  split; [apply to_sub_data_NoDup; exact B1|]. split; [exact B2|]. split; [exact B3|].
  intros p e Hin. apply to_sub_data_In in Hin. exact (B4 _ _ Hin).
Qed.

Lemma seq_add_form a b c :
  seq_add a b = Ok c ->
  c = mkSeq (merge_shift (Z.of_nat (length (sdata a))) (sdata a) (sdata b))
            (merge_shift (Z.of_nat (length (sdata a))) (sseq a)
               (map (fun p : Z * sqing => (fst p, shift_sq (Z.of_nat (length (sdata a))) (snd p))) (sseq b)))
            (sspecs b) [].
Proof.
  unfold seq_add. intro H.
  destruct (seq_check a) as [[|]|ea]; cbn [bind negb] in H; try discriminate.
  destruct (seq_check b) as [[|]|eb]; cbn [bind negb] in H; try discriminate.
  destruct (specs_eqb (sspecs a) (sspecs b)); cbn [negb] in H; try discriminate.
  cbv zeta in H. injection H as <-. reflexivity.
Qed.

Lemma akeys_valmap' {W W'} (f : W -> W') (l : list (Z * W)) : akeys (map (fun p => (fst p, f (snd p))) l) = akeys l.
Proof. unfold akeys. rewrite map_map. reflexivity. Qed.

Lemma seq_inv_add a b c : seq_inv a -> seq_inv b -> seq_add a b = Ok c -> seq_inv c.
Proof.
  intros (A1 & A2 & A3 & A4) (B1 & B2 & B3 & B4) H. apply seq_add_form in H. subst c.
  unfold seq_inv; cbn [sdata sseq sspecs].
  split; [apply ms_NoDup; exact A1|]. split; [apply ms_NoDup; exact A2|]. split; [exact B3|].
  intros p x Hin. apply ms_In in Hin as [Hin|(k' & Hin & _)]; [exact (A4 _ _ Hin)|exact (B4 _ _ Hin)].
Qed.

Lemma seq_inv_upd s k e e' :
  seq_inv s -> alookup Z.eqb k (sdata s) = Some (EElem e) -> (el_inv e -> el_inv e') ->
  seq_inv (set_sdata s (aset Z.eqb k (EElem e') (sdata s))).
Proof.
  intros (H1 & H2 & H3 & H4) Hl He. unfold set_sdata, seq_inv; cbn [sdata sseq sspecs].
  split; [apply (al_NoDup_aset Z.eqb Z.eqb_eq); exact H1|]. split; [exact H2|]. split; [exact H3|].
  intros p y Hin. apply In_aset in Hin as [E|Hin]; [|exact (H4 _ _ Hin)].
  inversion E; subst. apply alookup_In in Hl as (k' & Hl). apply He. exact (H4 _ _ Hl).
Qed.

Lemma on_seq_elem_pres (P : seq -> Prop) (Q : elem -> Prop) s pos f :
  (forall s k e e', P s -> alookup Z.eqb k (sdata s) = Some (EElem e) -> (Q e -> Q e') ->
                    P (set_sdata s (aset Z.eqb k (EElem e') (sdata s)))) ->
  (forall e, Q e -> Q (fst (f e))) -> P s -> P (fst (on_seq_elem s pos f)).
Proof.
  intros Hupd Hf Hs. unfold on_seq_elem.
  destruct (alookup Z.eqb pos (sdata s)) as [[e|sb]|] eqn:El; [|exact Hs|exact Hs].
  pose proof (Hf e) as Hfe. destruct (f e) as [e' o]. cbn [fst] in *.
  apply (Hupd s pos e e' Hs El Hfe).
Qed.

(* ================= the sweep tools preserve any predicate closed under the sequence primitives ================= *)
Definition av_loop (m : nat) : list variation -> seq -> result seq :=
  fix go (vs : list variation) (acc : seq) : result seq :=
    match vs with
    | [] => Ok acc
    | v :: t =>
        match alookup Z.eqb (v_pos v) (sdata acc) with
        | None => Err EKey
        | Some (ESub _) => Err EAttr
        | Some (EElem e) =>
            match nth_error (v_vals v) m with
            | None => Err EIndex
            | Some x =>
                match el_vary e (v_chan v) (v_name v) (v_arg v) x with
                | (e', None) => go t (set_sdata acc (aset Z.eqb (v_pos v) (EElem e') (sdata acc)))
                | (_, Some er) => Err er
                end
            end
        end
    end.

Lemma apply_variations_eq sq vars m : apply_variations sq vars m = av_loop m vars sq.
Proof. reflexivity. Qed.

Lemma av_loop_cons m v t acc :
  av_loop m (v :: t) acc =
  match alookup Z.eqb (v_pos v) (sdata acc) with
  | None => Err EKey
  | Some (ESub _) => Err EAttr
  | Some (EElem e) =>
      match nth_error (v_vals v) m with
      | None => Err EIndex
      | Some x =>
          match el_vary e (v_chan v) (v_name v) (v_arg v) x with
          | (e', None) => av_loop m t (set_sdata acc (aset Z.eqb (v_pos v) (EElem e') (sdata acc)))
          | (_, Some er) => Err er
          end
      end
  end.
Proof. reflexivity. Qed.

Section ToolsPres.
Variable P : seq -> Prop.
Variable Q : elem -> Prop.
Hypothesis H_setsr : forall SR, P (seq_set_sr seq_empty SR).
Hypothesis H_blank : forall s, P s -> P (mkSeq [] [] (sspecs s) []).
Hypothesis H_addE : forall s k e, P s -> Q e -> P (fst (seq_add_element s k e)).
Hypothesis H_upd : forall s k e e', P s -> alookup Z.eqb k (sdata s) = Some (EElem e) -> (Q e -> Q e') ->
                                    P (set_sdata s (aset Z.eqb k (EElem e') (sdata s))).
Hypothesis H_add : forall a b c, P a -> P b -> seq_add a b = Ok c -> P c.
Hypothesis H_vary : forall e c n a v, Q e -> Q (fst (el_vary e c n a v)).

Lemma step_res_fst {A} (x : step A) a : step_res x = Ok a -> a = fst x.
Proof. destruct x as [y [er|]]; cbn [step_res fst]; intro H; [discriminate|]. injection H as <-. reflexivity. Qed.

Lemma fill_loop_pres base : Q base -> forall ks acc s, fill_loop base ks acc = Ok s -> P acc -> P s.
Proof.
  intro Hb. induction ks as [|k t IH]; intros acc s H Hacc.
  - cbn [fill_loop] in H. injection H as <-. exact Hacc.
  - rewrite fill_loop_cons in H.
    destruct (step_res (seq_add_element acc k base)) as [acc'|er] eqn:Ea; cbn [bind] in H; [|discriminate].
    apply step_res_fst in Ea. subst acc'. apply (IH _ _ H). apply H_addE; assumption.
Qed.

Lemma inner_loop_pres c n a : forall kv sq sq', inner_loop c n a kv sq = Ok sq' -> P sq -> P sq'.
Proof.
  induction kv as [|[k v] kt IH]; intros sq sq' H Hsq.
  - cbn [inner_loop] in H. injection H as <-. exact Hsq.
  - rewrite inner_loop_cons in H.
    destruct (alookup Z.eqb k (sdata sq)) as [[e|sb]|] eqn:El; [|discriminate|discriminate].
    pose proof (H_vary e c n a v) as Hv.
    destruct (el_vary e c n a v) as [e' [er|]]; [discriminate|]. cbn [fst] in Hv.
    apply (IH _ _ H). apply (H_upd sq k e e' Hsq El Hv).
Qed.

Lemma outer_loop_pres : forall vs acc s, outer_loop vs acc = Ok s -> P acc -> P s.
Proof.
  induction vs as [|[c [n [a vals]]] t IH]; intros acc s H Hacc.
  - cbn [outer_loop] in H. injection H as <-. exact Hacc.
  - rewrite outer_loop_cons in H.
    destruct (inner_loop c n a (combine (range1 (length vals)) vals) acc) as [acc'|er] eqn:Ei;
      cbn [bind] in H; [|discriminate].
    apply (IH _ _ H). apply (inner_loop_pres _ _ _ _ _ _ Ei). exact Hacc.
Qed.

Lemma make_varying_pres base cs ns ars its s : Q base -> make_varying base cs ns ars its = Ok s -> P s.
Proof.
  intros Hb H. rewrite make_varying_eq in H.
  destruct (el_validate base) as [r0|er]; cbn [bind] in H; [|discriminate].
  destruct (negb (same_len [length cs; length ns; length ars; length its])); [discriminate|].
  destruct its as [|it0 itt]; [discriminate|].
  destruct (negb (forallb (fun it => Nat.eqb (length it) (length it0)) (it0 :: itt))); [discriminate|].
  destruct (el_sr base) as [SR|er]; cbn [bind] in H; [|discriminate].
  destruct (fill_loop base (range1 (length it0)) (seq_set_sr seq_empty SR)) as [s0|er] eqn:Ef;
    cbn [bind] in H; [|discriminate].
  destruct (outer_loop (combine cs (combine ns (combine ars (it0 :: itt)))) s0) as [s1|er] eqn:Eo;
    cbn [bind] in H; [|discriminate].
  destruct (seq_check s1) as [chk|er]; cbn [bind] in H; [|discriminate].
  destruct chk; [|discriminate]. injection H as <-.
  apply (outer_loop_pres _ _ _ Eo). apply (fill_loop_pres base Hb _ _ _ Ef). apply H_setsr.
Qed.

Lemma linear_loop_pres base c n a : Q base -> forall kv acc s, linear_loop base c n a kv acc = Ok s -> P acc -> P s.
Proof.
  intro Hb. induction kv as [|[k v] t IH]; intros acc s H Hacc.
  - cbn [linear_loop] in H. injection H as <-. exact Hacc.
  - rewrite linear_loop_cons in H.
    pose proof (H_vary base c n a (VNum v) Hb) as Hv.
    destruct (el_vary base c n a (VNum v)) as [e' [er|]]; [discriminate|]. cbn [fst] in Hv.
    destruct (step_res (seq_add_element acc k e')) as [acc'|er] eqn:Ea; cbn [bind] in H; [|discriminate].
    apply step_res_fst in Ea. subst acc'. apply (IH _ _ H). apply H_addE; assumption.
Qed.

Lemma make_linear_pres base c n a start stop stp s : Q base -> make_linear base c n a start stop stp = Ok s -> P s.
Proof.
  intros Hb H. unfold make_linear in H.
  destruct (el_sr base) as [SR|er]; cbn [bind] in H; [|discriminate].
  destruct (Qeq_bool stp 0); [discriminate|].
  destruct (rnd (Qabs.Qabs (stop - start) / stp) + 1 <? 0)%Z; [discriminate|].
  set (vals := linspace start stop (rnd (Qabs.Qabs (stop - start) / stp) + 1)) in *.
  change (linear_loop base c n a (combine (range1 (length vals)) vals) (seq_set_sr seq_empty SR) = Ok s) in H.
  apply (linear_loop_pres base c n a Hb _ _ _ H). apply H_setsr.
Qed.

Lemma av_loop_pres m : forall vs acc r, av_loop m vs acc = Ok r -> P acc -> P r.
Proof.
  induction vs as [|v t IH]; intros acc r H Hacc.
  - cbn [av_loop] in H. injection H as <-. exact Hacc.
  - rewrite av_loop_cons in H.
    destruct (alookup Z.eqb (v_pos v) (sdata acc)) as [[e|sb]|] eqn:El; [|discriminate|discriminate].
    destruct (nth_error (v_vals v) m) as [x|]; [|discriminate].
    pose proof (H_vary e (v_chan v) (v_name v) (v_arg v) x) as Hv.
    destruct (el_vary e (v_chan v) (v_name v) (v_arg v) x) as [e' [er|]]; [discriminate|]. cbn [fst] in Hv.
    apply (IH _ _ H). apply (H_upd acc (v_pos v) e e' Hacc El Hv).
Qed.

Lemma repeat_loop_pres (f : nat -> result seq) :
  (forall m t, f m = Ok t -> P t) -> forall ms acc r, repeat_loop f ms acc = Ok r -> P acc -> P r.
Proof.
  intro Hf. induction ms as [|m t IH]; intros acc r H Hacc.
  - cbn [repeat_loop] in H. injection H as <-. exact Hacc.
  - change (repeat_loop f (m :: t) acc) with (do tmp <- f m; do acc' <- seq_add acc tmp; repeat_loop f t acc') in H.
    destruct (f m) as [tmp|er] eqn:Ef; cbn [bind] in H; [|discriminate].
    destruct (seq_add acc tmp) as [acc'|er] eqn:Ea; cbn [bind] in H; [|discriminate].
    apply (IH _ _ H). apply (H_add acc tmp acc' Hacc (Hf _ _ Ef) Ea).
Qed.

Lemma repeat_and_vary_pres sq ps cs ns ars its r : P sq -> repeat_and_vary sq ps cs ns ars its = Ok r -> P r.
Proof.
  intros Hsq H. unfold repeat_and_vary in H.
  destruct (seq_check sq) as [c|er]; cbn [bind] in H; [|discriminate].
  destruct (negb c); [discriminate|].
  destruct (negb (same_len [length ps; length cs; length ns; length ars; length its])); [discriminate|].
  destruct its as [|it0 itt]; [discriminate|].
  destruct (negb (forallb (fun it => Nat.eqb (length it) (length it0)) (it0 :: itt))); [discriminate|].
  set (vars := map (fun x : Z * (chan * (str * (argref * list val))) =>
                       let '(p, (c, (n, (a, vs)))) := x in mkVar p c n a vs)
                    (combine ps (combine cs (combine ns (combine ars (it0 :: itt)))))) in *.
  apply (repeat_loop_pres (apply_variations sq vars)) in H.
  - exact H.
  - intros m t Ht. rewrite apply_variations_eq in Ht. apply (av_loop_pres m _ _ _ Ht). exact Hsq.
  - apply H_blank. exact Hsq.
Qed.
End ToolsPres.

(* instances for seq_inv *)
Lemma seq_inv_setsr SR : seq_inv (seq_set_sr seq_empty SR).
Proof. unfold seq_set_sr. apply seq_inv_spec_set. exact seq_inv_empty. Qed.

Lemma seq_inv_blank s : seq_inv s -> seq_inv (mkSeq [] [] (sspecs s) []).
Proof.
  intros (_ & _ & H3 & _). unfold seq_inv; cbn [sdata sseq sspecs akeys map].
  repeat split; try constructor; try exact H3. intros p x [].
Qed.

Lemma make_varying_inv base cs ns ars its s : el_inv base -> make_varying base cs ns ars its = Ok s -> seq_inv s.
Proof.
  apply (make_varying_pres seq_inv el_inv seq_inv_setsr).
  - intros s0 k e Hs He. apply seq_inv_add_element; assumption.
  - exact seq_inv_upd.
  - exact el_vary_inv.
Qed.

Lemma make_linear_inv base c n a start stop stp s :
  el_inv base -> make_linear base c n a start stop stp = Ok s -> seq_inv s.
Proof.
  apply (make_linear_pres seq_inv el_inv seq_inv_setsr).
  - intros s0 k e Hs He. apply seq_inv_add_element; assumption.
  - exact el_vary_inv.
Qed.

Lemma repeat_and_vary_inv sq ps cs ns ars its r : seq_inv sq -> repeat_and_vary sq ps cs ns ars its = Ok r -> seq_inv r.
Proof.
  apply (repeat_and_vary_pres seq_inv el_inv seq_inv_blank seq_inv_upd seq_inv_add el_vary_inv).
Qed.

(* ================= the store ================= *)
Lemma store_ok_initial : store_ok store0.
Proof. unfold store_ok, store0; cbn [bps els sqs]. split; [|split]; intros r x []. Qed.

Lemma putB_ok st r b : store_ok st -> Inv b -> store_ok (putB st r b).
Proof.
  intros (HB & HE & HS) Hb. unfold store_ok, putB; cbn [bps els sqs]. split; [|split]; try assumption.
  intros r' b' Hin. apply In_aset in Hin as [E|Hin]; [inversion E; subst; exact Hb | eapply HB; exact Hin].
Qed.

Lemma putE_ok st r e : store_ok st -> el_inv e -> store_ok (putE st r e).
Proof.
  intros (HB & HE & HS) He. unfold store_ok, putE; cbn [bps els sqs]. split; [|split]; try assumption.
  intros r' e' Hin. apply In_aset in Hin as [E|Hin]; [inversion E; subst; exact He | eapply HE; exact Hin].
Qed.

Lemma putS_ok st r s : store_ok st -> seq_inv s -> store_ok (putS st r s).
Proof.
  intros (HB & HE & HS) Hs. unfold store_ok, putS; cbn [bps els sqs]. split; [|split]; try assumption.
  intros r' s' Hin. apply In_aset in Hin as [E|Hin]; [inversion E; subst; exact Hs | eapply HS; exact Hin].
Qed.

Lemma getB_ok st r b : store_ok st -> getB st r = Ok b -> Inv b.
Proof.
  intros (HB & _ & _) H. unfold getB in H.
  destruct (alookup Nat.eqb r (bps st)) as [b0|] eqn:E; [|discriminate H].
  inversion H; subst. apply alookup_In in E as (k & Hin). eapply HB; exact Hin.
Qed.

Lemma getE_ok st r e : store_ok st -> getE st r = Ok e -> el_inv e.
Proof.
  intros (_ & HE & _) H. unfold getE in H.
  destruct (alookup Nat.eqb r (els st)) as [b0|] eqn:E; [|discriminate H].
  inversion H; subst. apply alookup_In in E as (k & Hin). eapply HE; exact Hin.
Qed.

Lemma getS_ok st r s : store_ok st -> getS st r = Ok s -> seq_inv s.
Proof.
  intros (_ & _ & HS) H. unfold getS in H.
  destruct (alookup Nat.eqb r (sqs st)) as [b0|] eqn:E; [|discriminate H].
  inversion H; subst. apply alookup_In in E as (k & Hin). eapply HS; exact Hin.
Qed.

Lemma onB_ok st r f : store_ok st -> (forall b, Inv b -> Inv (fst (f b))) -> store_ok (fst (onB st r f)).
Proof.
  intros Hs Hf. unfold onB. destruct (getB st r) as [b|e] eqn:E; [|exact Hs].
  pose proof (Hf b (getB_ok _ _ _ Hs E)) as Hb.
  destruct (f b) as [b' o]. cbn [fst] in *. apply putB_ok; assumption.
Qed.

Lemma onE_ok st r f : store_ok st -> (forall e, el_inv e -> el_inv (fst (f e))) -> store_ok (fst (onE st r f)).
Proof.
  intros Hs Hf. unfold onE. destruct (getE st r) as [b|e] eqn:E; [|exact Hs].
  pose proof (Hf b (getE_ok _ _ _ Hs E)) as Hb.
  destruct (f b) as [b' o]. cbn [fst] in *. apply putE_ok; assumption.
Qed.

Lemma onS_ok st r f : store_ok st -> (forall s, seq_inv s -> seq_inv (fst (f s))) -> store_ok (fst (onS st r f)).
Proof.
  intros Hs Hf. unfold onS. destruct (getS st r) as [b|e] eqn:E; [|exact Hs].
  pose proof (Hf b (getS_ok _ _ _ Hs E)) as Hb.
  destruct (f b) as [b' o]. cbn [fst] in *. apply putS_ok; assumption.
Qed.

Lemma store_ok_step : forall st o, api_op o -> store_ok st -> store_ok (fst (exec st o)).
Proof.
  intros st o Ha Hs. destruct o; unfold exec; try exact Hs.
  - (* BNew *) apply putB_ok; [exact Hs|exact Inv_empty].
  - apply onB_ok; [exact Hs | intros b Hb; apply Inv_insert; exact Hb].
  - apply onB_ok; [exact Hs | intros b Hb; apply Inv_remove; exact Hb].
  - apply onB_ok; [exact Hs | intros b Hb; apply Inv_change_arg; exact Hb].
  - apply onB_ok; [exact Hs | intros b Hb; apply Inv_change_dur; exact Hb].
  - apply onB_ok; [exact Hs | intros b Hb; apply Inv_set_segmarker; exact Hb].
  - apply onB_ok; [exact Hs | intros b Hb; apply Inv_remove_segmarker; exact Hb].
  - apply onB_ok; [exact Hs | intros b Hb; apply Inv_set_sr; exact Hb].
  - apply onB_ok; [exact Hs | intros b Hb].
    unfold ok; cbn [fst]. destruct (id =? 1)%Z; [apply Inv_set_am1 | apply Inv_set_am2]; exact Hb.
  - (* BCopy *) destruct (getB st r) as [b|e] eqn:E; [|exact Hs].
    apply putB_ok; [exact Hs | apply Inv_copy; eapply getB_ok; eassumption].
  - (* BAdd *) destruct (getB st r1) as [a|e] eqn:E1; [|exact Hs].
    destruct (getB st r2) as [b|e] eqn:E2; [|exact Hs].
    apply putB_ok; [exact Hs | apply Inv_add; eapply getB_ok; eassumption].
  - (* BFromJson *) destruct Ha.
  - (* ENew *) apply putE_ok; [exact Hs|exact el_inv_empty].
  - (* EAddBp *) destruct (getB st r) as [b|er] eqn:E; [|exact Hs].
    apply onE_ok; [exact Hs|]. intros x Hx. apply el_add_bp_inv; [eapply getB_ok; eassumption|exact Hx].
  - apply onE_ok; [exact Hs|]. intros x Hx. apply el_add_array_inv; exact Hx.
  - apply onE_ok; [exact Hs|]. intros x Hx. apply el_add_flags_inv; exact Hx.
  - apply onE_ok; [exact Hs|]. intros x Hx. apply el_change_arg_inv; exact Hx.
  - apply onE_ok; [exact Hs|]. intros x Hx. apply el_change_dur_inv; exact Hx.
  - (* ECopy *) destruct (getE st e) as [x|er] eqn:E; [|exact Hs].
    apply putE_ok; [exact Hs|eapply getE_ok; eassumption].
  - (* EFromJson *) destruct Ha.
  - (* SNew *) apply putS_ok; [exact Hs|exact seq_inv_empty].
  - apply onS_ok; [exact Hs|]. intros x Hx. unfold ok; cbn [fst]. apply seq_inv_spec_set; exact Hx.
  - apply onS_ok; [exact Hs|]. intros x Hx. unfold ok; cbn [fst]. apply seq_inv_spec_set; exact Hx.
  - apply onS_ok; [exact Hs|]. intros x Hx. unfold ok; cbn [fst]. apply seq_inv_spec_set; exact Hx.
  - apply onS_ok; [exact Hs|]. intros x Hx. unfold ok; cbn [fst]. apply seq_inv_spec_set; exact Hx.
  - apply onS_ok; [exact Hs|]. intros x Hx. apply seq_inv_set_filter; exact Hx.
  - (* SAddElement *) destruct (getE st e) as [x|er] eqn:E; [|exact Hs].
    apply onS_ok; [exact Hs|]. intros q Hq. apply seq_inv_add_element; [exact Hq|eapply getE_ok; eassumption].
  - (* SAddSub *) destruct (getS st s2) as [x|er] eqn:E; [|exact Hs].
    apply onS_ok; [exact Hs|]. intros q Hq. apply seq_inv_add_sub; [exact Hq|eapply getS_ok; eassumption].
  - apply onS_ok; [exact Hs|]. intros q Hq. apply seq_inv_set_sequencing; exact Hq.
  - (* SSetSettings *) apply onS_ok; [exact Hs|]. intros q Hq. unfold ok, seq_set_settings; cbn [fst].
    apply seq_inv_set_sseq; exact Hq.
  - (* SSetName *) apply onS_ok; [exact Hs|]. intros q Hq. unfold ok; cbn [fst]. exact Hq.
  - (* SAdd *) destruct (getS st s1) as [a|er] eqn:E1; [|exact Hs].
    destruct (getS st s2) as [b|er] eqn:E2; [|exact Hs].
    destruct (seq_add a b) as [c|er] eqn:Ea; [|exact Hs].
    apply putS_ok; [exact Hs|]. eapply seq_inv_add; [eapply getS_ok; [exact Hs|exact E1]|eapply getS_ok; [exact Hs|exact E2]|exact Ea].
  - (* SCopy *) destruct (getS st s) as [x|er] eqn:E; [|exact Hs].
    apply putS_ok; [exact Hs|]. exact (getS_ok _ _ _ Hs E).
  - (* SFromJson *) destruct Ha.
  - (* SElemChangeArg *) apply onS_ok; [exact Hs|]. intros q Hq.
    apply (on_seq_elem_pres seq_inv el_inv); [exact seq_inv_upd| |exact Hq].
    intros e He. apply el_change_arg_inv; exact He.
  - apply onS_ok; [exact Hs|]. intros q Hq.
    apply (on_seq_elem_pres seq_inv el_inv); [exact seq_inv_upd| |exact Hq].
    intros e He. apply el_change_dur_inv; exact He.
  - (* SElemAddBp *) destruct (getB st r) as [b|er] eqn:E; [|exact Hs].
    apply onS_ok; [exact Hs|]. intros q Hq.
    apply (on_seq_elem_pres seq_inv el_inv); [exact seq_inv_upd| |exact Hq].
    intros e He. apply el_add_bp_inv; [eapply getB_ok; eassumption|exact He].
  - (* SElemAddArray *) apply onS_ok; [exact Hs|]. intros q Hq.
    apply (on_seq_elem_pres seq_inv el_inv); [exact seq_inv_upd| |exact Hq].
    intros e He. apply el_add_array_inv; exact He.
  - (* SElemAddFlags *) apply onS_ok; [exact Hs|]. intros q Hq.
    apply (on_seq_elem_pres seq_inv el_inv); [exact seq_inv_upd| |exact Hq].
    intros e He. apply el_add_flags_inv; exact He.
  - (* TVarying *) destruct (getE st e) as [x|er] eqn:E; [|exact Hs].
    destruct (make_varying x cs ns ars its) as [q|er] eqn:Em; [|exact Hs].
    apply putS_ok; [exact Hs|]. eapply make_varying_inv; [eapply getE_ok; eassumption|exact Em].
  - (* TRepeat *) destruct (getS st s) as [x|er] eqn:E; [|exact Hs].
    destruct (repeat_and_vary x ps cs ns ars its) as [q|er] eqn:Em; [|exact Hs].
    apply putS_ok; [exact Hs|]. eapply repeat_and_vary_inv; [eapply getS_ok; eassumption|exact Em].
  - (* TLinear *) destruct (getE st e) as [x|er] eqn:E; [|exact Hs].
    destruct (make_linear x c n a start stop stp) as [q|er] eqn:Em; [|exact Hs].
    apply putS_ok; [exact Hs|]. eapply make_linear_inv; [eapply getE_ok; eassumption|exact Em].
Qed.

Lemma store_ok_reachable : forall prog st, Forall api_op prog -> store_ok st -> store_ok (final_store st prog).
Proof.
  induction prog as [|o t IH]; intros st HF Hs; cbn [final_store]; [exact Hs|].
  inversion HF as [|? ? Ho Ht]; subst. apply IH; [exact Ht|]. apply store_ok_step; assumption.
Qed.

Lemma reachable_blueprints_everywhere : forall prog r s p e c ch b,
  Forall api_op prog -> In (r, s) (sqs (final_store store0 prog)) ->
  In (p, EElem e) (sdata s) -> In (c, ch) (edata e) -> ckind ch = KBp b ->
  Inv b /\ NoDup (names b) /\ length (names b) = length (funs b).
Proof.
  intros prog r s p e c ch b HF Hin Hp Hc Hk.
  destruct (store_ok_reachable prog store0 HF store_ok_initial) as (_ & _ & HS).
  destruct (HS _ _ Hin) as (_ & _ & _ & H4).
  pose proof (H4 _ _ Hp) as He. cbn [entry_inv] in He. destruct He as [_ Hbp].
  pose proof (Hbp _ _ _ Hc Hk) as HI.
  split; [exact HI|]. split; [apply Inv_NoDup; exact HI|].
  destruct HI as (H1 & _). symmetry. exact H1.
Qed.

Lemma reachable_sequence_keys : forall prog r s,
  Forall api_op prog -> In (r, s) (sqs (final_store store0 prog)) ->
  NoDup (akeys (sdata s)) /\ NoDup (akeys (sseq s)) /\ NoDup (akeys (sspecs s)).
Proof.
  intros prog r s HF Hin.
  destruct (store_ok_reachable prog store0 HF store_ok_initial) as (_ & _ & HS).
  destruct (HS _ _ Hin) as (H1 & H2 & H3 & _). repeat split; assumption.
Qed.

(* ================= sequencing entries only at filled positions ================= *)
Definition keys_ok (st : store) : Prop := forall r s, In (r, s) (sqs st) -> seq_keys_sub s.

Lemma ks_empty : seq_keys_sub seq_empty.
Proof. intros k []. Qed.

Lemma ks_same (s s' : seq) : sdata s' = sdata s -> sseq s' = sseq s -> seq_keys_sub s -> seq_keys_sub s'.
Proof. unfold seq_keys_sub. intros -> ->. exact (fun H => H). Qed.

Lemma ks_setsr SR : seq_keys_sub (seq_set_sr seq_empty SR).
Proof. intros k []. Qed.

Lemma ks_blank s : seq_keys_sub s -> seq_keys_sub (mkSeq [] [] (sspecs s) []).
Proof. intros _ k []. Qed.

Lemma ks_put s pos (x : entry) q sp nm :
  seq_keys_sub s -> seq_keys_sub (mkSeq (aset Z.eqb pos x (sdata s)) (aset Z.eqb pos q (sseq s)) sp nm).
Proof.
  unfold seq_keys_sub; cbn [sdata sseq]. intros H k Hin.
  apply al_keys_sub in Hin as [->|Hin].
  - apply al_keys_self.
  - apply (al_keys_mono Z.eqb Z.eqb_eq). apply H. exact Hin.
Qed.

Lemma ks_addE s k e : seq_keys_sub s -> seq_keys_sub (fst (seq_add_element s k e)).
Proof.
  intro H. unfold seq_add_element. destruct (el_validate e); [|exact H].
  unfold ok; cbn [fst]. apply ks_put. exact H.
Qed.

Lemma ks_add_sub s pos sub : seq_keys_sub s -> seq_keys_sub (fst (seq_add_sub s pos sub)).
Proof.
  intro H. unfold seq_add_sub.
  destruct (existsb (fun p : Z * entry => entry_is_sub (snd p)) (sdata sub)); [exact H|].
  destruct (negb (val_eqb (seq_SR sub) (seq_SR s))); [exact H|].
  unfold ok; cbn [fst]. apply ks_put. exact H.
Qed.

Lemma ks_upd_any s k (x : entry) : seq_keys_sub s -> seq_keys_sub (set_sdata s (aset Z.eqb k x (sdata s))).
Proof.
  unfold seq_keys_sub, set_sdata; cbn [sdata sseq]. intros H k0 Hin.
  apply (al_keys_mono Z.eqb Z.eqb_eq). apply H. exact Hin.
Qed.

Lemma ks_upd s k e e' :
  seq_keys_sub s -> alookup Z.eqb k (sdata s) = Some (EElem e) -> (True -> True) ->
  seq_keys_sub (set_sdata s (aset Z.eqb k (EElem e') (sdata s))).
Proof. intros H _ _. apply ks_upd_any. exact H. Qed.

Lemma ks_set_sequencing s pos f v : seq_keys_sub s -> seq_keys_sub (fst (seq_set_sequencing s pos f v)).
Proof.
  intro H. unfold seq_set_sequencing. destruct (alookup Z.eqb pos (sseq s)) as [q|] eqn:El; [|exact H].
  unfold ok, set_sseq, seq_keys_sub; cbn [fst sdata sseq]. intros k Hin.
  apply al_keys_sub in Hin as [->|Hin]; apply H; [|exact Hin].
  apply (alookup_in_keys pos q). exact El.
Qed.

Lemma ks_set_filter s c k o f t : seq_keys_sub s -> seq_keys_sub (fst (seq_set_filter s c k o f t)).
Proof.
  intro H. unfold seq_set_filter.
  destruct (negb (str_eqb k (S_ "HP") || str_eqb k (S_ "LP"))); [exact H|].
  destruct o as [o|]; [|exact H].
  destruct (negb (val_is_none f) && negb (val_is_none t)); exact H.
Qed.

Lemma ks_add a b c : seq_keys_sub a -> seq_keys_sub b -> seq_add a b = Ok c -> seq_keys_sub c.
Proof.
  intros Ha Hb H. apply seq_add_form in H. subst c. unfold seq_keys_sub; cbn [sdata sseq]. intros k Hin.
  apply ms_keys_sub in Hin as [Hin|(k' & Hin & ->)].
  - apply ms_keys_l. apply Ha. exact Hin.
  - rewrite akeys_valmap' in Hin. apply ms_keys_r. apply Hb. exact Hin.
Qed.

Lemma ks_on_seq_elem s pos f : seq_keys_sub s -> seq_keys_sub (fst (on_seq_elem s pos f)).
Proof.
  intro H. apply (on_seq_elem_pres seq_keys_sub (fun _ => True)); [exact ks_upd|intros; exact I|exact H].
Qed.

Lemma make_varying_ks base cs ns ars its s : make_varying base cs ns ars its = Ok s -> seq_keys_sub s.
Proof.
  apply (make_varying_pres seq_keys_sub (fun _ => True) ks_setsr); [|exact ks_upd|intros; exact I|exact I].
  intros s0 k e Hs _. apply ks_addE. exact Hs.
Qed.

Lemma make_linear_ks base c n a start stop stp s : make_linear base c n a start stop stp = Ok s -> seq_keys_sub s.
Proof.
  apply (make_linear_pres seq_keys_sub (fun _ => True) ks_setsr); [|intros; exact I|exact I].
  intros s0 k e Hs _. apply ks_addE. exact Hs.
Qed.

Lemma repeat_and_vary_ks sq ps cs ns ars its r :
  seq_keys_sub sq -> repeat_and_vary sq ps cs ns ars its = Ok r -> seq_keys_sub r.
Proof.
  apply (repeat_and_vary_pres seq_keys_sub (fun _ => True) ks_blank ks_upd ks_add). intros; exact I.
Qed.

Lemma keys_ok_initial : keys_ok store0.
Proof. intros r s []. Qed.

Lemma keys_eq st st' : sqs st' = sqs st -> keys_ok st -> keys_ok st'.
Proof. unfold keys_ok. intros E Hs r s Hin. rewrite E in Hin. eapply Hs; exact Hin. Qed.

Lemma onB_sqs st r f : sqs (fst (onB st r f)) = sqs st.
Proof. unfold onB. destruct (getB st r) as [x|e]; [destruct (f x)|]; reflexivity. Qed.

Lemma onE_sqs st r f : sqs (fst (onE st r f)) = sqs st.
Proof. unfold onE. destruct (getE st r) as [x|e]; [destruct (f x)|]; reflexivity. Qed.

Lemma putS_keys st r s : keys_ok st -> seq_keys_sub s -> keys_ok (putS st r s).
Proof.
  unfold keys_ok, putS; cbn [sqs]. intros HS Hs r' s' Hin.
  apply In_aset in Hin as [E|Hin]; [inversion E; subst; exact Hs | eapply HS; exact Hin].
Qed.

Lemma getS_keys st r s : keys_ok st -> getS st r = Ok s -> seq_keys_sub s.
Proof.
  intros HS H. unfold getS in H.
  destruct (alookup Nat.eqb r (sqs st)) as [b0|] eqn:E; [|discriminate H].
  inversion H; subst. apply alookup_In in E as (k & Hin). eapply HS; exact Hin.
Qed.

Lemma onS_keys st r f :
  keys_ok st -> (forall s, seq_keys_sub s -> seq_keys_sub (fst (f s))) -> keys_ok (fst (onS st r f)).
Proof.
  intros Hs Hf. unfold onS. destruct (getS st r) as [b|e] eqn:E; [|exact Hs].
  pose proof (Hf b (getS_keys _ _ _ Hs E)) as Hb.
  destruct (f b) as [b' o]. cbn [fst] in *. apply putS_keys; assumption.
Qed.

Ltac frame_sqs :=
  first [ apply onB_sqs | apply onE_sqs | reflexivity
        | match goal with |- context [match ?x with _ => _ end] => destruct x end; frame_sqs ].

Lemma keys_ok_step : forall st o, modern_op o -> keys_ok st -> keys_ok (fst (exec st o)).
Proof.
  intros st o Ha Hs. destruct o; try (destruct Ha; fail); unfold exec; try exact Hs;
    try (apply (keys_eq st); [frame_sqs | exact Hs]).
  - (* SNew *) apply putS_keys; [exact Hs|exact ks_empty].
  - apply onS_keys; [exact Hs|]. intros x Hx. exact Hx.
  - apply onS_keys; [exact Hs|]. intros x Hx. exact Hx.
  - apply onS_keys; [exact Hs|]. intros x Hx. exact Hx.
  - apply onS_keys; [exact Hs|]. intros x Hx. exact Hx.
  - apply onS_keys; [exact Hs|]. intros x Hx. apply ks_set_filter; exact Hx.
  - (* SAddElement *) destruct (getE st e) as [x|er]; [|exact Hs].
    apply onS_keys; [exact Hs|]. intros q Hq. apply ks_addE; exact Hq.
  - (* SAddSub *) destruct (getS st s2) as [x|er]; [|exact Hs].
    apply onS_keys; [exact Hs|]. intros q Hq. apply ks_add_sub; exact Hq.
  - apply onS_keys; [exact Hs|]. intros q Hq. apply ks_set_sequencing; exact Hq.
  - (* SSetName *) apply onS_keys; [exact Hs|]. intros q Hq. exact Hq.
  - (* SAdd *) destruct (getS st s1) as [a|er] eqn:E1; [|exact Hs].
    destruct (getS st s2) as [b|er] eqn:E2; [|exact Hs].
    destruct (seq_add a b) as [c|er] eqn:Ea; [|exact Hs].
    apply putS_keys; [exact Hs|].
    eapply ks_add; [eapply getS_keys; [exact Hs|exact E1]|eapply getS_keys; [exact Hs|exact E2]|exact Ea].
  - (* SCopy *) destruct (getS st s) as [x|er] eqn:E; [|exact Hs].
    apply putS_keys; [exact Hs|]. exact (getS_keys _ _ _ Hs E).
  - apply onS_keys; [exact Hs|]. intros q Hq. apply ks_on_seq_elem; exact Hq.
  - apply onS_keys; [exact Hs|]. intros q Hq. apply ks_on_seq_elem; exact Hq.
  - (* SElemAddBp *) destruct (getB st r) as [b|er]; [|exact Hs].
    apply onS_keys; [exact Hs|]. intros q Hq. apply ks_on_seq_elem; exact Hq.
  - apply onS_keys; [exact Hs|]. intros q Hq. apply ks_on_seq_elem; exact Hq.
  - apply onS_keys; [exact Hs|]. intros q Hq. apply ks_on_seq_elem; exact Hq.
  - (* TVarying *) destruct (getE st e) as [x|er]; [|exact Hs].
    destruct (make_varying x cs ns ars its) as [q|er] eqn:Em; [|exact Hs].
    apply putS_keys; [exact Hs|]. eapply make_varying_ks; exact Em.
  - (* TRepeat *) destruct (getS st s) as [x|er] eqn:E; [|exact Hs].
    destruct (repeat_and_vary x ps cs ns ars its) as [q|er] eqn:Em; [|exact Hs].
    apply putS_keys; [exact Hs|]. eapply repeat_and_vary_ks; [eapply getS_keys; eassumption|exact Em].
  - (* TLinear *) destruct (getE st e) as [x|er]; [|exact Hs].
    destruct (make_linear x c n a start stop stp) as [q|er] eqn:Em; [|exact Hs].
    apply putS_keys; [exact Hs|]. eapply make_linear_ks; exact Em.
Qed.

Lemma keys_ok_reachable : forall prog st, Forall modern_op prog -> keys_ok st -> keys_ok (final_store st prog).
Proof.
  induction prog as [|o t IH]; intros st HF Hs; cbn [final_store]; [exact Hs|].
  inversion HF as [|? ? Ho Ht]; subst. apply IH; [exact Ht|]. apply keys_ok_step; assumption.
Qed.

Lemma reachable_sequencing_at_positions : forall prog r s,
  Forall modern_op prog -> In (r, s) (sqs (final_store store0 prog)) -> seq_keys_sub s.
Proof.
  intros prog r s HF Hin. exact (keys_ok_reachable prog store0 HF keys_ok_initial r s Hin).
Qed.
