(* Invariants of every state reachable through the public API (the op language of Model/Interp.v):
   they discharge, for reachable states, the well-formedness hypotheses used by the theorems of C10, C16, C19, C20.
   Definitions used by the statements come first; lemmas follow. *)
From Coq Require Import String Ascii List Arith ZArith QArith Bool Lia.
From BB Require Import Base.Names Base.Num Base.PyList Model.Types Model.Blueprint Model.Forge Model.Element
  Model.PyVal Model.Sequence Model.Output Model.Descr Model.Tools Model.Interp Proofs.BlueprintFacts.
Import ListNotations.

(* an element: distinct channel ids, every blueprint channel holds a well-formed blueprint *)
Definition el_inv (e : elem) : Prop :=
  NoDup (map fst (edata e)) /\ forall c ch b, In (c, ch) (edata e) -> ckind ch = KBp b -> Inv b.

Definition sub_inv (sb : subseq) : Prop :=
  NoDup (akeys (sdata sb)) /\ NoDup (akeys (sseq sb)) /\ NoDup (akeys (sspecs sb)) /\
  forall p e, In (p, e) (sdata sb) -> el_inv e.

Definition entry_inv (x : entry) : Prop := match x with EElem e => el_inv e | ESub sb => sub_inv sb end.

(* a sequence: the three dicts have distinct keys, every entry is well-formed *)
Definition seq_inv (s : seq) : Prop :=
  NoDup (akeys (sdata s)) /\ NoDup (akeys (sseq s)) /\ NoDup (akeys (sspecs s)) /\
  forall p x, In (p, x) (sdata s) -> entry_inv x.

Definition store_ok (st : store) : Prop :=
  (forall r b, In (r, b) (bps st) -> Inv b) /\
  (forall r e, In (r, e) (els st) -> el_inv e) /\
  (forall r s, In (r, s) (sqs st) -> seq_inv s).

(* every op except reading an object back from JSON (C19's business) *)
Definition api_op (o : op) : Prop :=
  match o with BFromJson _ _ | EFromJson _ _ | SFromJson _ _ => False | _ => True end.

(* sequencing entries only at filled positions: holds as long as the deprecated setSequenceSettings is not used *)
Definition seq_keys_sub (s : seq) : Prop := forall k, In k (akeys (sseq s)) -> In k (akeys (sdata s)).
Definition modern_op (o : op) : Prop :=
  match o with BFromJson _ _ | EFromJson _ _ | SFromJson _ _ | SSetSettings _ _ _ _ _ _ => False | _ => True end.

(* ---- lemmas: to be proved (see Props/Reach.v for the exact statements needed) ---- *)
From BB Require Import Proofs.ToolsFacts.

(* ================= association lists ================= *)
Section AL.
Context {K V : Type} (eqb : K -> K -> bool) (eqb_eq : forall a b, eqb a b = true <-> a = b).
Implicit Types (l : list (K * V)).

Lemma al_keys_sub k v l x : In x (akeys (aset eqb k v l)) -> x = k \/ In x (akeys l).
Proof.
  unfold akeys. intro H. apply in_map_iff in H as ([k0 v0] & Hf & Hin). cbn [fst] in Hf. subst k0.
  apply In_aset in Hin as [E|Hin].
  - left. inversion E; reflexivity.
  - right. apply in_map_iff. exists (x, v0). split; [reflexivity|exact Hin].
Qed.

Lemma al_NoDup_aset k v l : NoDup (akeys l) -> NoDup (akeys (aset eqb k v l)).
Proof.
  induction l as [|[k' v'] t IH]; cbn [aset]; intro H.
  - cbn [akeys map fst]. constructor; [intros []|constructor].
  - cbn [akeys map fst] in H. inversion H as [|? ? Hn Ht]; subst.
    destruct (eqb k k') eqn:E.
    + apply eqb_eq in E. subst k'. cbn [akeys map fst]. constructor; assumption.
    + cbn [akeys map fst]. constructor.
      * intro Hin. apply al_keys_sub in Hin as [->|Hin]; [|exact (Hn Hin)].
        assert (eqb k k = true) as Hr by (apply eqb_eq; reflexivity). congruence.
      * apply IH; exact Ht.
Qed.

Lemma al_keys_self k v l : In k (akeys (aset eqb k v l)).
Proof.
  induction l as [|[k' v'] t IH]; cbn [aset].
  - left; reflexivity.
  - destruct (eqb k k'); cbn [akeys map fst]; [left; reflexivity|right; exact IH].
Qed.

Lemma al_keys_mono k v l x : In x (akeys l) -> In x (akeys (aset eqb k v l)).
Proof.
  induction l as [|[k' v'] t IH]; cbn [aset]; intro H; [destruct H|].
  cbn [akeys map fst] in H.
  destruct (eqb k k') eqn:E; cbn [akeys map fst].
  - apply eqb_eq in E. subst k'. exact H.
  - destruct H as [H|H]; [left; exact H|right; apply IH; exact H].
Qed.
End AL.

Section MS.
Context {V : Type}.
Implicit Types (a b : list (Z * V)).

Lemma ms_NoDup N : forall b a, NoDup (akeys a) -> NoDup (akeys (merge_shift N a b)).
Proof.
  unfold merge_shift. induction b as [|[k v] b IH]; intros a H; cbn [fold_left]; [exact H|].
  apply IH. apply (al_NoDup_aset Z.eqb Z.eqb_eq). exact H.
Qed.

Lemma ms_In N : forall b a k v, In (k, v) (merge_shift N a b) ->
  In (k, v) a \/ exists k', In (k', v) b /\ k = (k' + N)%Z.
Proof.
  unfold merge_shift. induction b as [|[k0 v0] b IH]; intros a k v H; cbn [fold_left] in H; [left; exact H|].
  apply IH in H as [H|(k' & H & E)].
  - cbn [fst snd] in H. apply In_aset in H as [E|H].
    + inversion E; subst. right. exists k0. split; [left; reflexivity|reflexivity].
    + left; exact H.
  - right. exists k'. split; [right; exact H|exact E].
Qed.

Lemma ms_keys_sub N b a k : In k (akeys (merge_shift N a b)) ->
  In k (akeys a) \/ exists k', In k' (akeys b) /\ k = (k' + N)%Z.
Proof.
  unfold akeys at 1. intro H. apply in_map_iff in H as ([k0 v0] & Hf & Hin). cbn [fst] in Hf. subst k0.
  apply ms_In in Hin as [Hin|(k' & Hin & E)].
  - left. unfold akeys. apply in_map_iff. exists (k, v0). split; [reflexivity|exact Hin].
  - right. exists k'. split; [|exact E]. unfold akeys. apply in_map_iff. exists (k', v0). split; [reflexivity|exact Hin].
Qed.

Lemma ms_keys_l N : forall b a k, In k (akeys a) -> In k (akeys (merge_shift N a b)).
Proof.
  unfold merge_shift. induction b as [|[k0 v0] b IH]; intros a k H; cbn [fold_left]; [exact H|].
  apply IH. apply (al_keys_mono Z.eqb Z.eqb_eq). exact H.
Qed.

Lemma ms_keys_r N : forall b a k', In k' (akeys b) -> In (k' + N)%Z (akeys (merge_shift N a b)).
Proof.
  induction b as [|[k0 v0] b IH]; intros a k' H; [destruct H|].
  cbn [akeys map fst] in H. unfold merge_shift. cbn [fold_left fst snd]. destruct H as [<-|H].
  - apply ms_keys_l. apply al_keys_self.
  - apply IH. exact H.
Qed.
End MS.

(* ================= elements ================= *)
Lemma el_inv_empty : el_inv el_empty.
Proof. split; [constructor|intros c ch b []]. Qed.

Lemma el_inv_set e c x :
  el_inv e -> (forall b, ckind x = KBp b -> Inv b) -> el_inv (el_set e c x).
Proof.
  intros [Hnd Hbp] Hx. unfold el_set. split; cbn [edata].
  - apply (al_NoDup_aset chan_eqb chan_eqb_eq). exact Hnd.
  - intros c0 ch b Hin Hk. apply In_aset in Hin as [E|Hin].
    + inversion E; subst. apply Hx. exact Hk.
    + eapply Hbp; eassumption.
Qed.

Lemma el_inv_lookup e c ch b : el_inv e -> el_lookup e c = Some ch -> ckind ch = KBp b -> Inv b.
Proof.
  intros [_ Hbp] Hl Hk. unfold el_lookup in Hl. apply alookup_In in Hl as (c' & Hin).
  eapply Hbp; eassumption.
Qed.

Lemma el_add_bp_inv e c b : Inv b -> el_inv e -> el_inv (fst (el_add_bp e c b)).
Proof.
  intros Hb He. unfold el_add_bp. destruct (bp_has_empty_list b); [exact He|].
  unfold ok; cbn [fst]. apply el_inv_set; [exact He|].
  cbn [ckind]. intros b' E. inversion E; subst. apply Inv_copy. exact Hb.
Qed.

Lemma el_add_array_inv e c w SR ms : el_inv e -> el_inv (fst (el_add_array e c w SR ms)).
Proof.
  intro He. unfold el_add_array. destruct (add_markers (rle_len w) ms []) as [arrs good].
  destruct good; unfold ok, fail; cbn [fst]; (apply el_inv_set; [exact He|]); cbn [ckind]; intros b' E; discriminate E.
Qed.

Lemma el_add_flags_inv e c fl : el_inv e -> el_inv (fst (el_add_flags e c fl)).
Proof.
  intro He. unfold el_add_flags.
  destruct (negb (Nat.eqb (length fl) 4)); [exact He|].
  destruct (all_some (map flag_int fl)) as [ints|]; [|exact He].
  destruct (el_lookup e c) as [ch|] eqn:El; [|exact He].
  unfold ok; cbn [fst]. apply el_inv_set; [exact He|]. cbn [ckind]. intros b Hk.
  eapply el_inv_lookup; eassumption.
Qed.

Lemma el_on_bp_inv e c f :
  (forall b, Inv b -> Inv (fst (f b))) -> el_inv e -> el_inv (fst (el_on_bp e c f)).
Proof.
  intros Hf He. unfold el_on_bp.
  destruct (el_lookup e c) as [ch|] eqn:El; [|exact He].
  destruct (ckind ch) as [b|arrs asr] eqn:Ek; [|exact He].
  pose proof (Hf b (el_inv_lookup _ _ _ _ He El Ek)) as Hb.
  destruct (f b) as [b' r]. cbn [fst] in *. apply el_inv_set; [exact He|].
  cbn [ckind]. intros b0 E. inversion E; subst. exact Hb.
Qed.

Lemma el_change_arg_inv e c n a v ev : el_inv e -> el_inv (fst (el_change_arg e c n a v ev)).
Proof. intro He. unfold el_change_arg. apply el_on_bp_inv; [|exact He]. intros b Hb. apply Inv_change_arg. exact Hb. Qed.

Lemma el_change_dur_inv e c n d ev : el_inv e -> el_inv (fst (el_change_dur e c n d ev)).
Proof. intro He. unfold el_change_dur. apply el_on_bp_inv; [|exact He]. intros b Hb. apply Inv_change_dur. exact Hb. Qed.

Lemma el_vary_inv e c n a v : el_inv e -> el_inv (fst (el_vary e c n a v)).
Proof.
  intro He. unfold el_vary. destruct (is_duration a); [apply el_change_dur_inv|apply el_change_arg_inv]; exact He.
Qed.
