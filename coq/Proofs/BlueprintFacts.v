(* Facts about the BluePrint model (Model/Blueprint.v, Model/Interp.v) behind Props/C05.v.
   Definitions used by the property statements come first; lemmas follow. *)
From Coq Require Import String Ascii List Arith ZArith QArith Bool Lia.
From BB Require Import Base.Names Base.Num Base.PyList Model.Types Model.Blueprint Model.Forge
  Model.Element Model.PyVal Model.Sequence Model.Output Model.Descr Model.Tools Model.Interp.
Import ListNotations.

(* the invariant of C05: parallel lists of equal length, names in canonical (uniquified) form *)
Definition Inv (b : bp) : Prop :=
  length (funs b) = length (names b) /\ length (args b) = length (names b) /\
  length (durs b) = length (names b) /\ length (sm1 b) = length (names b) /\
  length (sm2 b) = length (names b) /\ names b = uniquify (names b).

Definition store_inv (st : store) : Prop := forall r b, In (r, b) (bps st) -> Inv b.

Fixpoint final_store (st : store) (l : list op) : store :=
  match l with [] => st | o :: t => final_store (fst (exec st o)) t end.

(* every op of the language except reading a blueprint back from JSON (that one is C19's business) *)
Definition bp_alphabet (o : op) : Prop := match o with BFromJson _ _ => False | _ => True end.

(* which positional argument an argument reference denotes for function f *)
Definition arg_index (f : fn) (a : argref) : option nat :=
  match a with
  | AStr x => index_of str_eqb x (fn_params f)
  | AInt z => if ((0 <=? z) && (z <? Z.of_nat (length (fn_params f)) - 2))%Z then Some (Z.to_nat z) else None
  end.

(* ---- lemmas: to be proved (see Props/C05.v for the exact statements needed) ---- *)

Local Open Scope nat_scope.

(* ---------- basic facts about the decidable equalities ---------- *)
Lemma str_eqb_eq a b : str_eqb a b = true <-> a = b.
Proof.
  unfold str_eqb. destruct (list_eq_dec ascii_dec a b) as [E|E]; split; intro H; auto; try discriminate; try contradiction.
Qed.

Lemma str_eqb_refl a : str_eqb a a = true.
Proof. apply str_eqb_eq. reflexivity. Qed.

Lemma str_eqb_neq a b : str_eqb a b = false <-> a <> b.
Proof.
  split; intro H.
  - intro E. apply str_eqb_eq in E. congruence.
  - destruct (str_eqb a b) eqn:E; [|reflexivity]. apply str_eqb_eq in E. contradiction.
Qed.

Lemma chan_eqb_eq a b : chan_eqb a b = true <-> a = b.
Proof.
  destruct a as [x|x], b as [y|y]; unfold chan_eqb; split; intro H; try discriminate.
  - apply Z.eqb_eq in H. now subst.
  - inversion H; subst. apply Z.eqb_refl.
  - apply str_eqb_eq in H. now subst.
  - inversion H; subst. apply str_eqb_refl.
Qed.

(* ---------- count ---------- *)
Lemma count_cons b x l :
  count b (x :: l) = (if list_eq_dec ascii_dec b x then 1 else 0) + count b l.
Proof. reflexivity. Qed.

Lemma count_app b l1 l2 : count b (l1 ++ l2) = count b l1 + count b l2.
Proof.
  induction l1 as [|x t IH]; [reflexivity|].
  rewrite <- List.app_comm_cons, !count_cons, IH. lia.
Qed.

(* ---------- the k-th occurrence of a base ---------- *)
Lemma uniq_aux_kth bases : forall seen i b,
  nth_error bases i = Some b ->
  nth_error (uniq_aux seen bases) i = Some (mk b (S (count b seen + count b (firstn i bases)))).
Proof.
  induction bases as [|b0 t IH]; intros seen i b H.
  - destruct i; discriminate H.
  - destruct i as [|i].
    + cbn [nth_error] in H. inversion H; subst b0.
      cbn [uniq_aux nth_error firstn count]. rewrite Nat.add_0_r. reflexivity.
    + cbn [nth_error] in H. cbn [uniq_aux nth_error firstn].
      rewrite (IH (b0 :: seen) i b H). rewrite !count_cons.
      do 2 f_equal. lia.
Qed.

Lemma uniquify_kth : forall l i b,
  nth_error (map basename l) i = Some b ->
  nth_error (uniquify l) i = Some (mk b (S (count b (firstn i (map basename l))))).
Proof.
  intros l i b H. unfold uniquify. rewrite (uniq_aux_kth _ [] i b H). reflexivity.
Qed.

Lemma uniq_aux_length bases : forall seen, length (uniq_aux seen bases) = length bases.
Proof.
  induction bases as [|b t IH]; intro seen; [reflexivity|].
  cbn [uniq_aux length]. now rewrite IH.
Qed.

Lemma uniquify_length l : length (uniquify l) = length l.
Proof. unfold uniquify. now rewrite uniq_aux_length, map_length. Qed.

Lemma uniquify_fix l : uniquify l = uniquify (uniquify l).
Proof. symmetry. apply uniquify_idem. Qed.

(* ---------- the invariant ---------- *)
Lemma Inv_empty : Inv bp_empty.
Proof. unfold Inv, bp_empty. cbn. repeat split; reflexivity. Qed.

Lemma Inv_NoDup b : Inv b -> NoDup (names b).
Proof. intros (_ & _ & _ & _ & _ & H). rewrite H. apply uniquify_NoDup. Qed.

Ltac inv_fields := unfold Inv; cbn [names funs args durs sm1 sm2 am1 am2 sr].

Lemma Inv_set_args b l : Inv b -> length l = length (args b) -> Inv (set_args b l).
Proof.
  unfold set_args. inv_fields. intros (H1 & H2 & H3 & H4 & H5 & H6) L.
  repeat split; try assumption. congruence.
Qed.

Lemma Inv_set_durs b l : Inv b -> length l = length (durs b) -> Inv (set_durs b l).
Proof.
  unfold set_durs. inv_fields. intros (H1 & H2 & H3 & H4 & H5 & H6) L.
  repeat split; try assumption. congruence.
Qed.

Lemma Inv_set_sm1 b l : Inv b -> length l = length (sm1 b) -> Inv (set_sm1 b l).
Proof.
  unfold set_sm1. inv_fields. intros (H1 & H2 & H3 & H4 & H5 & H6) L.
  repeat split; try assumption. congruence.
Qed.

Lemma Inv_set_sm2 b l : Inv b -> length l = length (sm2 b) -> Inv (set_sm2 b l).
Proof.
  unfold set_sm2. inv_fields. intros (H1 & H2 & H3 & H4 & H5 & H6) L.
  repeat split; try assumption. congruence.
Qed.

Lemma Inv_set_am1 b l : Inv b -> Inv (set_am1 b l).
Proof. unfold set_am1. inv_fields. auto. Qed.

Lemma Inv_set_am2 b l : Inv b -> Inv (set_am2 b l).
Proof. unfold set_am2. inv_fields. auto. Qed.

Lemma Inv_set_sr b v : Inv b -> Inv (set_sr b v).
Proof. unfold set_sr. inv_fields. auto. Qed.

Lemma name_idx_lt n b p : name_idx n b = Some p -> p < length (names b).
Proof. unfold name_idx. intro H. apply index_of_Some in H. tauto. Qed.

Lemma Inv_insert b pos f a d nm : Inv b -> Inv (fst (bp_insert b pos f a d nm)).
Proof.
  intros HI. unfold bp_insert. cbv zeta.
  destruct (pos <? -1)%Z eqn:E1; [exact HI|].
  match goal with |- context [if ?c then fail b EValue else _] => destruct c eqn:E2 end; [exact HI|].
  unfold ok. cbn [fst]. destruct HI as (H1 & H2 & H3 & H4 & H5 & H6).
  inv_fields. rewrite uniquify_length, !ins_length.
  repeat split; try congruence. apply uniquify_fix.
Qed.

Lemma Inv_remove b n : Inv b -> Inv (fst (bp_remove b n)).
Proof.
  intros HI. unfold bp_remove. destruct (name_idx n b) as [p|] eqn:E; [|exact HI].
  apply name_idx_lt in E. unfold ok. cbn [fst]. destruct HI as (H1 & H2 & H3 & H4 & H5 & H6).
  inv_fields. rewrite uniquify_length, !del_length by lia.
  repeat split; try congruence. apply uniquify_fix.
Qed.

(* ---------- one step of changeArg ---------- *)
Lemma change_arg_one_ok b n a v b' a' :
  change_arg_one b n a v = ((b', a'), None) ->
  exists p f larg i,
    name_idx n b = Some p /\ nth_error (funs b) p = Some f /\ nth_error (args b) p = Some larg /\
    arg_index f a = Some i /\ i < length larg /\
    b' = set_args b (upd p (upd i v larg) (args b)).
Proof.
  unfold change_arg_one. intro H.
  destruct (name_idx n b) as [p|] eqn:En; [|discriminate H].
  destruct (nth_error (funs b) p) as [f|] eqn:Ef; [|discriminate H].
  destruct (nth_error (args b) p) as [larg|] eqn:Ea; [|discriminate H].
  destruct (fn_eqb f Fwait) eqn:Ew; [discriminate H|].
  cbv zeta in H. exists p, f, larg.
  destruct a as [z|x].
  - destruct ((0 <=? z) && (z <? Z.of_nat (length (fn_params f)) - 2))%Z eqn:Ez; [|discriminate H].
    destruct (Nat.ltb (Z.to_nat z) (length larg)) eqn:El; [|discriminate H].
    exists (Z.to_nat z). apply Nat.ltb_lt in El. inversion H; subst.
    unfold arg_index. rewrite Ez. auto 10.
  - destruct (index_of str_eqb x (fn_params f)) as [i|] eqn:Ei; [|discriminate H].
    destruct (Nat.ltb i (length larg)) eqn:El; [|discriminate H].
    exists i. apply Nat.ltb_lt in El. inversion H; subst.
    unfold arg_index. auto 10.
Qed.

Lemma change_arg_one_err b n a v b' a' e :
  change_arg_one b n a v = ((b', a'), Some e) -> b' = b.
Proof.
  unfold change_arg_one. intro H.
  destruct (name_idx n b) as [p|] eqn:En; [|now inversion H].
  destruct (nth_error (funs b) p) as [f|] eqn:Ef; [|now inversion H].
  destruct (nth_error (args b) p) as [larg|] eqn:Ea; [|now inversion H].
  destruct (fn_eqb f Fwait) eqn:Ew; [now inversion H|].
  cbv zeta in H.
  destruct a as [z|x].
  - destruct ((0 <=? z) && (z <? Z.of_nat (length (fn_params f)) - 2))%Z eqn:Ez; [|now inversion H].
    destruct (Nat.ltb (Z.to_nat z) (length larg)) eqn:El; [discriminate H|now inversion H].
  - destruct (index_of str_eqb x (fn_params f)) as [i|] eqn:Ei; [|now inversion H].
    destruct (Nat.ltb i (length larg)) eqn:El; [discriminate H|now inversion H].
Qed.

Lemma Inv_change_arg_one b n a v : Inv b -> Inv (fst (fst (change_arg_one b n a v))).
Proof.
  intro HI. destruct (change_arg_one b n a v) as [[b' a'] [e|]] eqn:E; cbn [fst].
  - apply change_arg_one_err in E. now subst.
  - apply change_arg_one_ok in E as (p & f & larg & i & _ & _ & _ & _ & _ & ->).
    apply Inv_set_args; [exact HI | apply upd_length].
Qed.

Lemma Inv_change_arg_loop v l : forall b a, Inv b -> Inv (fst (change_arg_loop b l a v)).
Proof.
  induction l as [|n t IH]; intros b a HI; cbn [change_arg_loop]; [exact HI|].
  pose proof (Inv_change_arg_one b n a v HI) as H1.
  destruct (change_arg_one b n a v) as [[b' a'] [e|]]; cbn [fst] in H1.
  - exact H1.
  - apply IH. exact H1.
Qed.

Lemma Inv_change_arg b n a v ev : Inv b -> Inv (fst (bp_change_arg b n a v ev)).
Proof.
  intro HI. unfold bp_change_arg. destruct (replace_list b n ev) as [n' l].
  destruct (name_idx n' b); [|exact HI]. apply Inv_change_arg_loop. exact HI.
Qed.

(* ---------- one step of changeDuration ---------- *)
Lemma change_dur_one_ok b n d b' :
  change_dur_one b n d = (b', None) ->
  exists p, name_idx n b = Some p /\ b' = set_durs b (upd p (VNum d) (durs b)).
Proof.
  unfold change_dur_one. intro H.
  destruct (name_idx n b) as [p|] eqn:En; [|discriminate H].
  destruct (Qle_bool d 0) eqn:Ed; [discriminate H|].
  cbv zeta in H.
  match type of H with (if ?c then _ else _) = _ => destruct c eqn:Es end; [discriminate H|].
  exists p. inversion H; subst. auto.
Qed.

Lemma change_dur_one_err b n d b' e :
  change_dur_one b n d = (b', Some e) -> b' = b.
Proof.
  unfold change_dur_one. intro H.
  destruct (name_idx n b) as [p|] eqn:En; [|now inversion H].
  destruct (Qle_bool d 0) eqn:Ed; [now inversion H|].
  cbv zeta in H.
  match type of H with (if ?c then _ else _) = _ => destruct c eqn:Es end; [now inversion H|discriminate H].
Qed.

Lemma Inv_change_dur_one b n d : Inv b -> Inv (fst (change_dur_one b n d)).
Proof.
  intro HI. destruct (change_dur_one b n d) as [b' [e|]] eqn:E; cbn [fst].
  - apply change_dur_one_err in E. now subst.
  - apply change_dur_one_ok in E as (p & _ & ->).
    apply Inv_set_durs; [exact HI | apply upd_length].
Qed.

Lemma Inv_change_dur_loop d l : forall b, Inv b -> Inv (fst (change_dur_loop b l d)).
Proof.
  induction l as [|n t IH]; intros b HI; cbn [change_dur_loop]; [exact HI|].
  pose proof (Inv_change_dur_one b n d HI) as H1.
  destruct (change_dur_one b n d) as [b' [e|]]; cbn [fst] in H1.
  - exact H1.
  - apply IH. exact H1.
Qed.

Lemma Inv_change_dur b n d ev : Inv b -> Inv (fst (bp_change_dur b n d ev)).
Proof.
  intro HI. unfold bp_change_dur. destruct d as [q|x|]; try exact HI.
  destruct (replace_list b n ev) as [n' l].
  destruct (name_idx n' b); [|exact HI]. apply Inv_change_dur_loop. exact HI.
Qed.

Lemma Inv_set_segmarker b n spec id : Inv b -> Inv (fst (bp_set_segmarker b n spec id)).
Proof.
  intro HI. unfold bp_set_segmarker.
  destruct (negb ((id =? 1)%Z || (id =? 2)%Z)); [exact HI|].
  destruct (name_idx n b) as [p|]; [|exact HI].
  destruct (id =? 1)%Z; unfold ok; cbn [fst].
  - apply Inv_set_sm1; [exact HI | apply upd_length].
  - apply Inv_set_sm2; [exact HI | apply upd_length].
Qed.

Lemma Inv_remove_segmarker b n id : Inv b -> Inv (fst (bp_remove_segmarker b n id)).
Proof.
  intro HI. unfold bp_remove_segmarker.
  destruct (negb ((id =? 1)%Z || (id =? 2)%Z)); [exact HI|].
  destruct (name_idx n b) as [p|]; [|exact HI].
  destruct (id =? 1)%Z; unfold ok; cbn [fst].
  - apply Inv_set_sm1; [exact HI | apply upd_length].
  - apply Inv_set_sm2; [exact HI | apply upd_length].
Qed.

Lemma Inv_copy b : Inv b -> Inv (bp_copy b).
Proof.
  intros (H1 & H2 & H3 & H4 & H5 & H6). unfold bp_copy. inv_fields.
  rewrite uniquify_length, map_length. repeat split; try assumption. apply uniquify_fix.
Qed.

Lemma Inv_add a b : Inv a -> Inv b -> Inv (bp_add a b).
Proof.
  intros (A1 & A2 & A3 & A4 & A5 & A6) (B1 & B2 & B3 & B4 & B5 & B6). unfold bp_add. inv_fields.
  rewrite uniquify_length, !app_length, !map_length.
  repeat split; try congruence. apply uniquify_fix.
Qed.

(* ---------- the register file ---------- *)
Lemma In_aset {K V} (eqb : K -> K -> bool) k (v : V) l x :
  In x (aset eqb k v l) -> x = (k, v) \/ In x l.
Proof.
  induction l as [|[k' v'] t IH]; cbn [aset]; intro H.
  - destruct H as [<-|[]]. left; reflexivity.
  - destruct (eqb k k').
    + destruct H as [<-|H]; [left; reflexivity | right; right; exact H].
    + destruct H as [<-|H]; [right; left; reflexivity|].
      apply IH in H as [->|H]; [left; reflexivity | right; right; exact H].
Qed.

Lemma alookup_In {K V} (eqb : K -> K -> bool) k (v : V) l :
  alookup eqb k l = Some v -> exists k', In (k', v) l.
Proof.
  induction l as [|[k' v'] t IH]; cbn [alookup]; intro H; [discriminate H|].
  destruct (eqb k k').
  - inversion H; subst. exists k'. left; reflexivity.
  - apply IH in H as (k0 & H). exists k0. right; exact H.
Qed.

Lemma store_inv_putB st r b : store_inv st -> Inv b -> store_inv (putB st r b).
Proof.
  unfold store_inv, putB. cbn [bps]. intros Hs Hb r' b' Hin.
  apply In_aset in Hin as [E|Hin]; [inversion E; subst; exact Hb | eapply Hs; exact Hin].
Qed.

Lemma getB_inv st r b : store_inv st -> getB st r = Ok b -> Inv b.
Proof.
  unfold store_inv, getB. intros Hs H.
  destruct (alookup Nat.eqb r (bps st)) as [b0|] eqn:E; [|discriminate H].
  inversion H; subst. apply alookup_In in E as (k & Hin). eapply Hs; exact Hin.
Qed.

Lemma onB_inv st r f :
  store_inv st -> (forall b, Inv b -> Inv (fst (f b))) -> store_inv (fst (onB st r f)).
Proof.
  intros Hs Hf. unfold onB. destruct (getB st r) as [b|e] eqn:E; [|exact Hs].
  pose proof (Hf b (getB_inv _ _ _ Hs E)) as Hb.
  destruct (f b) as [b' o]. cbn [fst] in *. apply store_inv_putB; assumption.
Qed.

Lemma store_inv_eq st st' : bps st' = bps st -> store_inv st -> store_inv st'.
Proof. unfold store_inv. intros E Hs r b Hin. rewrite E in Hin. eapply Hs; exact Hin. Qed.

Lemma onE_bps st r f : bps (fst (onE st r f)) = bps st.
Proof. unfold onE. destruct (getE st r) as [x|e]; [destruct (f x)|]; reflexivity. Qed.

Lemma onS_bps st r f : bps (fst (onS st r f)) = bps st.
Proof. unfold onS. destruct (getS st r) as [x|e]; [destruct (f x)|]; reflexivity. Qed.

Lemma obs_bps st r : bps (fst (obs st r)) = bps st.
Proof. reflexivity. Qed.

Ltac frame_bps :=
  first [ apply obs_bps | apply onE_bps | apply onS_bps | reflexivity
        | match goal with |- context [match ?x with _ => _ end] => destruct x end; frame_bps ].

Lemma exec_inv st o : bp_alphabet o -> store_inv st -> store_inv (fst (exec st o)).
Proof.
  intros Ha Hs.
  destruct o; unfold exec;
    try (apply (store_inv_eq st); [frame_bps | exact Hs]).
  - apply store_inv_putB; [exact Hs | exact Inv_empty].
  - apply onB_inv; [exact Hs | intros b Hb; apply Inv_insert; exact Hb].
  - apply onB_inv; [exact Hs | intros b Hb; apply Inv_remove; exact Hb].
  - apply onB_inv; [exact Hs | intros b Hb; apply Inv_change_arg; exact Hb].
  - apply onB_inv; [exact Hs | intros b Hb; apply Inv_change_dur; exact Hb].
  - apply onB_inv; [exact Hs | intros b Hb; apply Inv_set_segmarker; exact Hb].
  - apply onB_inv; [exact Hs | intros b Hb; apply Inv_remove_segmarker; exact Hb].
  - apply onB_inv; [exact Hs | intros b Hb; apply Inv_set_sr; exact Hb].
  - apply onB_inv; [exact Hs | intros b Hb].
    unfold ok; cbn [fst]. destruct (id =? 1)%Z; [apply Inv_set_am1 | apply Inv_set_am2]; exact Hb.
  - destruct (getB st r) as [b|e] eqn:E; [|exact Hs].
    apply store_inv_putB; [exact Hs | apply Inv_copy; eapply getB_inv; eassumption].
  - destruct (getB st r1) as [a|e] eqn:E1; [|exact Hs].
    destruct (getB st r2) as [b|e] eqn:E2; [|exact Hs].
    apply store_inv_putB; [exact Hs | apply Inv_add; eapply getB_inv; eassumption].
  - destruct Ha.
Qed.

Lemma inv_reachable : forall prog st,
  Forall bp_alphabet prog -> store_inv st -> store_inv (final_store st prog).
Proof.
  induction prog as [|o t IH]; intros st HF Hs; cbn [final_store]; [exact Hs|].
  inversion HF as [|? ? Ho Ht]; subst. apply IH; [exact Ht|]. apply exec_inv; assumption.
Qed.

Lemma store_inv0 : store_inv store0.
Proof. intros r b H. destruct H. Qed.

Lemma reachable_names : forall prog r b,
  Forall bp_alphabet prog -> In (r, b) (bps (final_store store0 prog)) ->
  NoDup (names b) /\ names b = uniquify (names b)
  /\ length (funs b) = length (names b) /\ length (args b) = length (names b) /\ length (durs b) = length (names b)
  /\ length (sm1 b) = length (names b) /\ length (sm2 b) = length (names b).
Proof.
  intros prog r b HF Hin.
  assert (Inv b) as HI by (eapply (inv_reachable prog store0 HF store_inv0); exact Hin).
  pose proof (Inv_NoDup b HI) as ND. destruct HI as (H1 & H2 & H3 & H4 & H5 & H6).
  repeat split; assumption.
Qed.

(* ---------- frame conditions of the single-segment edits ---------- *)
Lemma change_arg_single b n a v :
  bp_change_arg b n a v false =
  match name_idx n b with
  | None => fail b EValue
  | Some _ => match change_arg_one b n a v with
              | ((b', _), None) => ok b'
              | ((b', _), Some e) => fail b' e
              end
  end.
Proof. reflexivity. Qed.

Lemma change_dur_single b n q :
  bp_change_dur b n (VNum q) false =
  match name_idx n b with
  | None => fail b EValue
  | Some _ => match change_dur_one b n q with
              | (b', None) => ok b'
              | (b', Some e) => fail b' e
              end
  end.
Proof. reflexivity. Qed.

Lemma change_arg_frame : forall b n a v b',
  Inv b -> bp_change_arg b n a v false = (b', None) ->
  exists p f larg i,
    name_idx n b = Some p /\ nth_error (funs b) p = Some f /\ nth_error (args b) p = Some larg /\
    arg_index f a = Some i /\ (i < length larg)%nat /\
    b' = set_args b (upd p (upd i v larg) (args b)).
Proof.
  intros b n a v b' _ H. rewrite change_arg_single in H.
  destruct (name_idx n b) as [p0|] eqn:En; [|discriminate H].
  destruct (change_arg_one b n a v) as [[b1 a1] [e|]] eqn:E; [discriminate H|].
  unfold ok in H. inversion H; subst b1.
  rewrite <- En. eapply change_arg_one_ok. exact E.
Qed.

Lemma change_arg_only_target : forall b n a v b',
  Inv b -> bp_change_arg b n a v false = (b', None) ->
  names b' = names b /\ funs b' = funs b /\ durs b' = durs b /\ sm1 b' = sm1 b /\ sm2 b' = sm2 b /\
  am1 b' = am1 b /\ am2 b' = am2 b /\ sr b' = sr b /\
  forall p, name_idx n b = Some p -> forall k, k <> p -> nth_error (args b') k = nth_error (args b) k.
Proof.
  intros b n a v b' HI H.
  destruct (change_arg_frame b n a v b' HI H) as (p & f & larg & i & Hn & Hf & Ha & Hi & Hl & ->).
  unfold set_args. cbn [names funs args durs sm1 sm2 am1 am2 sr].
  repeat split; try reflexivity.
  intros p0 Hp0 k Hk. rewrite Hn in Hp0. inversion Hp0; subst p0.
  apply nth_error_upd_neq. exact Hk.
Qed.

Lemma change_dur_frame : forall b n d b',
  Inv b -> bp_change_dur b n d false = (b', None) ->
  exists p q, d = VNum q /\ name_idx n b = Some p /\ b' = set_durs b (upd p (VNum q) (durs b)).
Proof.
  intros b n d b' _ H. destruct d as [q|x|]; try discriminate H.
  rewrite change_dur_single in H.
  destruct (name_idx n b) as [p0|] eqn:En; [|discriminate H].
  destruct (change_dur_one b n q) as [b1 [e|]] eqn:E; [discriminate H|].
  unfold ok in H. inversion H; subst b1.
  apply change_dur_one_ok in E as (p & Hp & ->). exists p, q.
  rewrite <- En. auto.
Qed.

Lemma segmarker_id id : negb ((id =? 1)%Z || (id =? 2)%Z) = false ->
  ((id =? 1)%Z = true /\ id = 1%Z) \/ ((id =? 1)%Z = false /\ id = 2%Z).
Proof.
  intro H. destruct (id =? 1)%Z eqn:E1.
  - left. split; [reflexivity | now apply Z.eqb_eq].
  - right. split; [reflexivity|]. destruct (id =? 2)%Z eqn:E2; [now apply Z.eqb_eq | discriminate H].
Qed.

Lemma set_segmarker_frame : forall b n spec id b',
  Inv b -> bp_set_segmarker b n spec id = (b', None) ->
  exists p, name_idx n b = Some p /\
    ((id = 1%Z /\ b' = set_sm1 b (upd p spec (sm1 b))) \/ (id = 2%Z /\ b' = set_sm2 b (upd p spec (sm2 b)))).
Proof.
  intros b n spec id b' _ H. unfold bp_set_segmarker in H.
  destruct (negb ((id =? 1)%Z || (id =? 2)%Z)) eqn:Eid; [discriminate H|].
  destruct (name_idx n b) as [p|] eqn:En; [|discriminate H].
  exists p. split; [reflexivity|].
  destruct (segmarker_id id Eid) as [[E ->]|[E ->]]; rewrite E in H; unfold ok in H; inversion H; auto.
Qed.

Lemma remove_segmarker_frame : forall b n id b',
  Inv b -> bp_remove_segmarker b n id = (b', None) ->
  exists p, name_idx n b = Some p /\
    ((id = 1%Z /\ b' = set_sm1 b (upd p (0, 0)%Q (sm1 b))) \/ (id = 2%Z /\ b' = set_sm2 b (upd p (0, 0)%Q (sm2 b)))).
Proof.
  intros b n id b' _ H. unfold bp_remove_segmarker in H.
  destruct (negb ((id =? 1)%Z || (id =? 2)%Z)) eqn:Eid; [discriminate H|].
  destruct (name_idx n b) as [p|] eqn:En; [|discriminate H].
  exists p. split; [reflexivity|].
  destruct (segmarker_id id Eid) as [[E ->]|[E ->]]; rewrite E in H; unfold ok in H; inversion H; auto.
Qed.

(* ---------- replaceeverywhere ---------- *)
Lemma index_of_NoDup (l : list str) : forall k m,
  NoDup l -> nth_error l k = Some m -> index_of str_eqb m l = Some k.
Proof.
  induction l as [|y t IH]; intros k m ND H.
  - destruct k; discriminate H.
  - inversion ND as [|? ? Hy Ht]; subst. destruct k as [|k]; cbn [nth_error] in H; cbn [index_of].
    + inversion H; subst. now rewrite str_eqb_refl.
    + assert (str_eqb m y = false) as ->.
      { apply str_eqb_neq. intro E. subst y. apply Hy. eapply nth_error_In. exact H. }
      rewrite (IH k m Ht H). reflexivity.
Qed.

Definition same_but_durs (b b' : bp) : Prop :=
  names b' = names b /\ funs b' = funs b /\ args b' = args b /\ sm1 b' = sm1 b /\ sm2 b' = sm2 b /\
  am1 b' = am1 b /\ am2 b' = am2 b /\ sr b' = sr b /\ length (durs b') = length (durs b).

Lemma name_idx_set_durs m b l : name_idx m (set_durs b l) = name_idx m b.
Proof. reflexivity. Qed.

Lemma durs_set_durs b l : durs (set_durs b l) = l.
Proof. reflexivity. Qed.

Lemma dur_loop_frame q l : forall b b',
  change_dur_loop b l q = (b', None) -> same_but_durs b b'.
Proof.
  induction l as [|m t IH]; intros b b' H; cbn [change_dur_loop] in H.
  - unfold ok in H. inversion H; subst. unfold same_but_durs. repeat split; reflexivity.
  - destruct (change_dur_one b m q) as [b1 [e|]] eqn:E; [discriminate H|].
    apply change_dur_one_ok in E as (p & Hp & ->).
    apply IH in H. unfold same_but_durs in *.
    destruct H as (F1 & F2 & F3 & F4 & F5 & F6 & F7 & F8 & F9).
    unfold set_durs in *. cbn [names funs args durs sm1 sm2 am1 am2 sr] in *.
    rewrite upd_length in F9. repeat split; assumption.
Qed.

Lemma dur_loop_keeps q l : forall b b' k,
  change_dur_loop b l q = (b', None) ->
  nth_error (durs b) k = Some (VNum q) -> nth_error (durs b') k = Some (VNum q).
Proof.
  induction l as [|m t IH]; intros b b' k H Hk; cbn [change_dur_loop] in H.
  - unfold ok in H. inversion H; subst. exact Hk.
  - destruct (change_dur_one b m q) as [b1 [e|]] eqn:E; [discriminate H|].
    apply change_dur_one_ok in E as (p & Hp & ->).
    apply (IH _ _ k H). rewrite durs_set_durs.
    destruct (Nat.eq_dec k p) as [->|Hne].
    + apply nth_error_upd_eq. apply nth_error_Some. congruence.
    + rewrite nth_error_upd_neq by exact Hne. exact Hk.
Qed.

Lemma dur_loop_hit q l : forall b b' m k,
  change_dur_loop b l q = (b', None) -> In m l -> name_idx m b = Some k -> k < length (durs b) ->
  nth_error (durs b') k = Some (VNum q).
Proof.
  induction l as [|m0 t IH]; intros b b' m k H Hin Hm Hk; [destruct Hin|].
  cbn [change_dur_loop] in H.
  destruct (change_dur_one b m0 q) as [b1 [e|]] eqn:E; [discriminate H|].
  apply change_dur_one_ok in E as (p & Hp & ->).
  destruct Hin as [->|Hin].
  - rewrite Hm in Hp. inversion Hp; subst p.
    apply (dur_loop_keeps q t _ _ k H). rewrite durs_set_durs. apply nth_error_upd_eq. exact Hk.
  - apply (IH _ _ m k H Hin).
    + rewrite name_idx_set_durs. exact Hm.
    + rewrite durs_set_durs, upd_length. exact Hk.
Qed.

Lemma dur_loop_miss q l : forall b b' k,
  change_dur_loop b l q = (b', None) -> (forall m, In m l -> name_idx m b <> Some k) ->
  nth_error (durs b') k = nth_error (durs b) k.
Proof.
  induction l as [|m0 t IH]; intros b b' k H Hm; cbn [change_dur_loop] in H.
  - unfold ok in H. inversion H; subst. reflexivity.
  - destruct (change_dur_one b m0 q) as [b1 [e|]] eqn:E; [discriminate H|].
    apply change_dur_one_ok in E as (p & Hp & ->).
    rewrite (IH _ _ k H).
    + rewrite durs_set_durs. apply nth_error_upd_neq.
      intro Ekp. subst k. apply (Hm m0); [left; reflexivity | exact Hp].
    + intros m Hin. rewrite name_idx_set_durs. apply Hm. right; exact Hin.
Qed.

Lemma change_dur_everywhere : forall b n q b',
  Inv b -> bp_change_dur b n (VNum q) true = (b', None) ->
  names b' = names b /\ funs b' = funs b /\ args b' = args b /\ sm1 b' = sm1 b /\ sm2 b' = sm2 b /\
  am1 b' = am1 b /\ am2 b' = am2 b /\ sr b' = sr b /\ length (durs b') = length (durs b) /\
  forall k m, nth_error (names b) k = Some m ->
    nth_error (durs b') k = (if str_eqb (basename m) (basename n) then Some (VNum q) else nth_error (durs b) k).
Proof.
  intros b n q b' HI H. unfold bp_change_dur in H.
  destruct (replace_list b n true) as [n' l] eqn:ER.
  unfold replace_list in ER. cbv zeta in ER. inversion ER; subst n' l. clear ER.
  destruct (name_idx (basename n) b) as [p0|] eqn:En; [|discriminate H].
  destruct (dur_loop_frame _ _ _ _ H) as (F1 & F2 & F3 & F4 & F5 & F6 & F7 & F8 & F9).
  repeat (split; [assumption|]).
  intros k m Hk.
  pose proof (Inv_NoDup b HI) as ND.
  assert (name_idx m b = Some k) as Hidx by (apply index_of_NoDup; assumption).
  assert (k < length (durs b)) as Hlen.
  { destruct HI as (_ & _ & H3 & _). rewrite H3. apply nth_error_Some. congruence. }
  destruct (str_eqb (basename m) (basename n)) eqn:Eb.
  - eapply dur_loop_hit; [exact H | | exact Hidx | exact Hlen].
    apply filter_In. split; [eapply nth_error_In; exact Hk | exact Eb].
  - eapply dur_loop_miss; [exact H|].
    intros m' Hin Hm'. apply filter_In in Hin as [_ Hb'].
    unfold name_idx in Hm'. apply index_of_Some in Hm' as (_ & y & Hy & Hey).
    apply str_eqb_eq in Hey. subst y. rewrite Hk in Hy. inversion Hy; subst m'. congruence.
Qed.

(* ---------- rejected edits ---------- *)
Lemma reject_atomic : forall b,
  (forall n a v b' e, bp_change_arg b n a v false = (b', Some e) -> b' = b) /\
  (forall n d b' e, bp_change_dur b n d false = (b', Some e) -> b' = b) /\
  (forall n s id b' e, bp_set_segmarker b n s id = (b', Some e) -> b' = b) /\
  (forall n id b' e, bp_remove_segmarker b n id = (b', Some e) -> b' = b) /\
  (forall pos f a d nm b' e, bp_insert b pos f a d nm = (b', Some e) -> b' = b) /\
  (forall n b' e, bp_remove b n = (b', Some e) -> b' = b).
Proof.
  intro b. repeat split.
  - intros n a v b' e H. rewrite change_arg_single in H.
    destruct (name_idx n b) as [p|]; [|now inversion H].
    destruct (change_arg_one b n a v) as [[b1 a1] [e1|]] eqn:E; [|discriminate H].
    apply change_arg_one_err in E. unfold fail in H. inversion H; subst. reflexivity.
  - intros n d b' e H. destruct d as [q|x|]; try (now inversion H).
    rewrite change_dur_single in H.
    destruct (name_idx n b) as [p|]; [|now inversion H].
    destruct (change_dur_one b n q) as [b1 [e1|]] eqn:E; [|discriminate H].
    apply change_dur_one_err in E. unfold fail in H. inversion H; subst. reflexivity.
  - intros n s id b' e H. unfold bp_set_segmarker in H.
    destruct (negb ((id =? 1)%Z || (id =? 2)%Z)); [now inversion H|].
    destruct (name_idx n b) as [p|]; [|now inversion H].
    destruct (id =? 1)%Z; discriminate H.
  - intros n id b' e H. unfold bp_remove_segmarker in H.
    destruct (negb ((id =? 1)%Z || (id =? 2)%Z)); [now inversion H|].
    destruct (name_idx n b) as [p|]; [|now inversion H].
    destruct (id =? 1)%Z; discriminate H.
  - intros pos f a d nm b' e H. unfold bp_insert in H. cbv zeta in H.
    destruct (pos <? -1)%Z; [now inversion H|].
    match type of H with (if ?c then _ else _) = _ => destruct c end; [now inversion H | discriminate H].
  - intros n b' e H. unfold bp_remove in H.
    destruct (name_idx n b) as [p|]; [discriminate H | now inversion H].
Qed.

Lemma rejections_unknown_name : forall b n,
  name_idx n b = None ->
  (forall a v, snd (bp_change_arg b n a v false) <> None) /\
  (forall d, snd (bp_change_dur b n d false) <> None) /\
  (forall s id, snd (bp_set_segmarker b n s id) <> None) /\
  (forall id, snd (bp_remove_segmarker b n id) <> None) /\
  snd (bp_remove b n) <> None.
Proof.
  intros b n Hn. repeat split.
  - intros a v. rewrite change_arg_single, Hn. discriminate.
  - intros d. destruct d as [q|x|]; try (cbn; discriminate).
    rewrite change_dur_single, Hn. discriminate.
  - intros s id. unfold bp_set_segmarker. rewrite Hn.
    destruct (negb ((id =? 1)%Z || (id =? 2)%Z)); discriminate.
  - intros id. unfold bp_remove_segmarker. rewrite Hn.
    destruct (negb ((id =? 1)%Z || (id =? 2)%Z)); discriminate.
  - unfold bp_remove. rewrite Hn. discriminate.
Qed.

Lemma bad_durations : forall b n,
  name_idx n b <> None ->
  (forall q, (q <= 0)%Q -> snd (bp_change_dur b n (VNum q) false) <> None) /\
  (forall q s, sr b = VNum s -> (q * s < 1)%Q -> snd (bp_change_dur b n (VNum q) false) <> None) /\
  (forall ev, snd (bp_change_dur b n VNone ev) <> None) /\
  (forall ev x, snd (bp_change_dur b n (VStr x) ev) <> None).
Proof.
  intros b n Hn. destruct (name_idx n b) as [p|] eqn:En; [clear Hn | congruence].
  repeat split.
  - intros q Hq. rewrite change_dur_single, En. unfold change_dur_one. rewrite En.
    apply Qle_bool_iff in Hq. rewrite Hq. discriminate.
  - intros q s Hs Hq. rewrite change_dur_single, En. unfold change_dur_one. rewrite En.
    destruct (Qle_bool q 0); [discriminate|]. cbv zeta. rewrite Hs.
    destruct (Qle_bool 1 (q * s)) eqn:E.
    + exfalso. apply Qle_bool_iff in E. eapply Qlt_not_le; eassumption.
    + discriminate.
  - intros ev. discriminate.
  - intros ev x. discriminate.
Qed.

Lemma unknown_argument : forall b n p f x v,
  name_idx n b = Some p -> nth_error (funs b) p = Some f -> arg_index f (AStr x) = None ->
  snd (bp_change_arg b n (AStr x) v false) <> None.
Proof.
  intros b n p f x v Hn Hf Ha. rewrite change_arg_single, Hn.
  unfold change_arg_one. rewrite Hn, Hf. cbv zeta. unfold arg_index in Ha. rewrite Ha.
  destruct (nth_error (args b) p) as [larg|]; [|discriminate].
  destruct (fn_eqb f Fwait); discriminate.
Qed.

(* ---------- through an Element ---------- *)
Lemma element_delegates_arg : forall e c ch b n a v ev,
  el_lookup e c = Some ch -> ckind ch = KBp b ->
  el_change_arg e c n a v ev =
    (el_set e c (mkCh (KBp (fst (bp_change_arg b n a v ev))) (cflags ch)), snd (bp_change_arg b n a v ev)).
Proof.
  intros e c ch b n a v ev Hl Hk. unfold el_change_arg, el_on_bp. rewrite Hl, Hk.
  destruct (bp_change_arg b n a v ev) as [b' r]. reflexivity.
Qed.

Lemma alookup_aset_other {K V} (eqb : K -> K -> bool) k k' (v : V) l :
  (forall a b, eqb a b = true <-> a = b) -> eqb k' k = false ->
  alookup eqb k' (aset eqb k v l) = alookup eqb k' l.
Proof.
  intros Heq Hne. induction l as [|[k0 v0] t IH]; cbn [aset alookup].
  - rewrite Hne. reflexivity.
  - destruct (eqb k k0) eqn:E; cbn [alookup].
    + apply Heq in E. subst k0. rewrite Hne. reflexivity.
    + destruct (eqb k' k0); [reflexivity | exact IH].
Qed.

Lemma el_on_bp_other e c c' f :
  chan_eqb c' c = false -> el_lookup (fst (el_on_bp e c f)) c' = el_lookup e c'.
Proof.
  intro Hne. unfold el_on_bp. destruct (el_lookup e c) as [ch|]; [|reflexivity].
  destruct (ckind ch) as [b|arrs asr]; [|reflexivity].
  destruct (f b) as [b' r]. cbn [fst]. unfold el_lookup, el_set. cbn [edata].
  apply alookup_aset_other; [exact chan_eqb_eq | exact Hne].
Qed.

(* note: the duration of changeDuration is a [val]; it is the [v] below *)
Lemma element_other_channels : forall e c c' n a v ev,
  chan_eqb c' c = false ->
  el_lookup (fst (el_change_arg e c n a v ev)) c' = el_lookup e c' /\
  el_lookup (fst (el_change_dur e c n v ev)) c' = el_lookup e c'.
Proof.
  intros e c c' n a v ev Hne. unfold el_change_arg, el_change_dur.
  split; apply el_on_bp_other; exact Hne.
Qed.

(* ---------- a concrete history ---------- *)
Lemma example_history :
  let prog := [BNew 0; BInsert 0 (-1) Framp [VNum 0; VNum 1] (VNum 1) None;
               BInsert 0 0 Framp [VNum 0; VNum 1] (VNum 1) (Some (S_ "a1b"));
               BInsert 0 1 Fua [VNum 1] (VNum 1) (Some (S_ "ramp")); BCopy 0 1; BAdd 0 1 2] in
  Forall bp_alphabet prog /\
  (exists b, In (2%nat, b) (bps (final_store store0 prog)) /\
     names b = [S_ "a1b"; S_ "ramp"; S_ "ramp2"; S_ "a1b2"; S_ "ramp3"; S_ "ramp4"]).
Proof.
  intro prog. split.
  - unfold prog. repeat constructor.
  - eexists. split.
    + vm_compute. right. right. left. reflexivity.
    + vm_compute. reflexivity.
Qed.
