(* Frame theorems of the effect model (Model/Alias.v) and their instantiation on the table. *)
From Coq Require Import String List Bool Arith Lia.
From BB Require Import Model.AliasTable Model.Alias.
Import ListNotations.

Lemma cell_eqb_eq a b : cell_eqb a b = true <-> a = b.
Proof.
  destruct a as [n k], b as [m j]. unfold cell_eqb; simpl. rewrite andb_true_iff, Nat.eqb_eq, String.eqb_eq.
  split; [intros [-> ->]; reflexivity | intro H; inversion H; auto].
Qed.

Lemma memb_In x l : memb x l = true <-> In x l.
Proof.
  unfold memb. rewrite existsb_exists. split.
  - intros (y & Hy & E). apply cell_eqb_eq in E. now subst.
  - intro H. exists x. split; [exact H | now apply cell_eqb_eq].
Qed.

Lemma disjointb_spec a b : disjointb a b = true <-> forall x, In x a -> ~ In x b.
Proof.
  unfold disjointb. rewrite forallb_forall. split.
  - intros H x Hx Hb. specialize (H x Hx). apply negb_true_iff in H. apply memb_In in Hb. congruence.
  - intros H x Hx. apply negb_true_iff. destruct (memb x b) eqn:E; [|reflexivity].
    apply memb_In in E. exfalso. exact (H x Hx E).
Qed.

Section FrameFacts.
Context {V A : Type}.

(* one event that does not write any cell the observation reads leaves the observation unchanged *)
Lemma frame_step (e : @event V) (o : @heap V -> A) reads :
  respects e -> depends_only_on o reads -> disjointb (ev_writes e) reads = true ->
  forall h, o (ev_run e h) = o h.
Proof.
  intros He Ho Hd h. apply Ho. intros c Hc. apply He.
  destruct (memb c (ev_writes e)) eqn:E; [|reflexivity].
  apply memb_In in E, Hc. rewrite disjointb_spec in Hd. exfalso. exact (Hd c E Hc).
Qed.

(* any trace of such events - any interleaving, any length - leaves it unchanged *)
Theorem frame_trace (tr : list (@event V)) (o : @heap V -> A) reads :
  Forall respects tr -> depends_only_on o reads ->
  Forall (fun e => disjointb (ev_writes e) reads = true) tr ->
  forall h, o (run_trace tr h) = o h.
Proof.
  intros Hr Ho Hd. unfold run_trace. induction tr as [|e tr IH]; intro h; simpl; [reflexivity|].
  inversion Hr; subst. inversion Hd; subst. rewrite IH by assumption. now apply frame_step with (reads := reads).
Qed.

(* repeated read-only calls agree: the observation after any such trace is the observation before *)
Corollary repeatable (tr1 tr2 : list (@event V)) (o : @heap V -> A) reads :
  Forall respects (tr1 ++ tr2) -> depends_only_on o reads ->
  Forall (fun e => disjointb (ev_writes e) reads = true) (tr1 ++ tr2) ->
  forall h, o (run_trace tr1 h) = o (run_trace (tr1 ++ tr2) h).
Proof.
  intros Hr Ho Hd h. rewrite (frame_trace (tr1 ++ tr2) o reads) by assumption.
  apply Forall_app in Hr as [Hr1 _]. apply Forall_app in Hd as [Hd1 _]. now apply frame_trace with (reads := reads).
Qed.
End FrameFacts.

(* ---- the table (finite: checked by computation, lifted with forallb_forall) ---- *)
Lemma c09_table : c09_table_ok = true.
Proof. vm_compute. reflexivity. Qed.
Lemma c08_table : c08_table_ok = true.
Proof. vm_compute. reflexivity. Qed.
Lemma table_well_scoped : well_scoped = true.
Proof. vm_compute. reflexivity. Qed.

(* C09: for EVERY pair (operation that creates the second object) x (public mutator), on whichever side the
   mutator is applied, its write set is disjoint from what the other side's observations read - sharing included *)
Theorem independent_pairs : forall d m, In d derive_ops -> In m mutators -> pair_ok d m = true.
Proof.
  intros d m Hd Hm. pose proof c09_table as H. unfold c09_table_ok in H.
  rewrite forallb_forall in H. specialize (H d Hd). rewrite forallb_forall in H. exact (H m Hm).
Qed.

(* ... hence any sequence of mutators on the source leaves every observation of the derived object unchanged,
   and vice versa *)
Theorem derived_unaffected {V A : Type} :
  forall name src res shared (tr : list (@event V)) (o : @heap V -> A),
    In (name, src, res, shared) derive_ops ->
    Forall respects tr ->
    Forall (fun e => exists mname ws, In (mname, src, ws) mutators /\ ev_writes e = src_cells ws) tr ->
    depends_only_on o (res_cells shared (observed res)) ->
    forall h, o (run_trace tr h) = o h.
Proof.
  intros name src res shared tr o Hd Hr Hm Ho. apply frame_trace with (reads := res_cells shared (observed res)); auto.
  rewrite Forall_forall in *. intros e He. destruct (Hm e He) as (mname & ws & Hin & ->).
  pose proof (independent_pairs _ _ Hd Hin) as P. unfold pair_ok in P. rewrite String.eqb_refl in P.
  apply andb_true_iff in P as [P _]. exact P.
Qed.

Theorem source_unaffected {V A : Type} :
  forall name src res shared (tr : list (@event V)) (o : @heap V -> A),
    In (name, src, res, shared) derive_ops ->
    Forall respects tr ->
    Forall (fun e => exists mname ws, In (mname, res, ws) mutators /\ ev_writes e = res_cells shared ws) tr ->
    depends_only_on o (src_cells (observed src)) ->
    forall h, o (run_trace tr h) = o h.
Proof.
  intros name src res shared tr o Hd Hr Hm Ho. apply frame_trace with (reads := src_cells (observed src)); auto.
  rewrite Forall_forall in *. intros e He. destruct (Hm e He) as (mname & ws & Hin & ->).
  pose proof (independent_pairs _ _ Hd Hin) as P. unfold pair_ok in P. rewrite String.eqb_refl in P.
  apply andb_true_iff in P as [_ P]. exact P.
Qed.

(* C08: every read-only operation writes only cells no observation reads (validation caches) ... *)
Theorem readonly_rows : forall r, In r readonly_ops -> readonly_ok r = true.
Proof. intros r Hr. pose proof c08_table as H. unfold c08_table_ok in H. rewrite forallb_forall in H. exact (H r Hr). Qed.

(* ... hence any finite interleaving of read-only calls leaves every observation unchanged, and repeating a call
   after such an interleaving gives the same result *)
Theorem readonly_interleavings {V A : Type} :
  forall recv (tr : list (@event V)) (o : @heap V -> A),
    Forall respects tr ->
    Forall (fun e => exists rname ws, In (rname, recv, ws) readonly_ops /\ ev_writes e = src_cells ws) tr ->
    depends_only_on o (src_cells (observed recv)) ->
    forall h, o (run_trace tr h) = o h.
Proof.
  intros recv tr o Hr Hm Ho. apply frame_trace with (reads := src_cells (observed recv)); auto.
  rewrite Forall_forall in *. intros e He. destruct (Hm e He) as (rname & ws & Hin & ->).
  pose proof (readonly_rows _ Hin) as P. exact P.
Qed.

(* the one place where containers ARE shared: Sequence.__add__ shares the nested filter dictionaries with its
   right operand - and no mutator's write set contains that kind *)
Example shared_filter_dicts_never_written :
  In ("sq.+", "sq", "sq", [("_awgspecs.*", "_awgspecs.*")]) derive_ops /\
  forallb (fun m : string * string * list string => negb (existsb (String.eqb "_awgspecs.*") (snd m))) mutators = true.
Proof. split; [vm_compute; tauto | vm_compute; reflexivity]. Qed.

(* the functional side of "initially the same": what addBluePrint stores *)
From BB Require Import Base.Names Model.Types Model.Blueprint Model.Element Proofs.BlueprintFacts Proofs.EqFacts.
Lemma stored_blueprint : forall e c b, Inv b -> bp_has_empty_list b = false ->
  el_add_bp e c b = (el_set e c (mkCh (KBp b) None), None).
Proof.
  intros e c b HI Hne. unfold el_add_bp. rewrite Hne. unfold ok. now rewrite (proj1 (copy_eq b HI)).
Qed.
