(* Both output packages mirror the forged sequence: Sequence._prepareForOutputting (Model/Output.v: prepare) and
   Sequence.forge (Model/Sequence.v: seq_forge) are two independent implementations of "apply the channel delays,
   forge every element, apply the filter compensation".  This file proves that, whenever the output path succeeds,
   the forge path succeeds with the very same content, and characterises what the two back ends (outputForAWGFile,
   outputForSEQXFile) deliver in terms of it.  Statements: Props/C15b.v.
   Definitions used by the statements come first; lemmas follow. *)
From Coq Require Import String Ascii List Arith ZArith QArith Qabs Qround Bool Lia Lqa Permutation.
From BB Require Import Base.Names Base.Num Base.PyList Model.Types Model.Blueprint Model.Forge Model.Element
  Model.PyVal Model.Sequence Model.Output Model.Descr Model.Tools Model.Interp.
From BB Require Import Proofs.BlueprintFacts Proofs.ForgeFacts Proofs.DelayFacts Proofs.SequenceFacts
  Proofs.OutputFacts.
Import ListNotations.

(* ================= definitions used by the statements ================= *)

(* ---- hypotheses ---- *)
(* distinct channel ids inside every element (a Python dict cannot have it otherwise; part of seq_inv of
   Proofs/ReachFacts.v, hence true of every state reachable through the API) *)
Definition elems_nodup (s : seq) : Prop :=
  forall p e, In (p, EElem e) (sdata s) -> NoDup (el_channels e).

(* no negative channel delay among the settings *)
Definition delays_nonneg (s : seq) : Prop :=
  forall c q, spec_get s (key_delay c) = Some (SVal (VNum q)) -> (0 <= q)%Q.

(* ---- the forged sequence written from the prepared rows ---- *)
(* one prepared channel as Sequence.forge reports it: channel id -> {"wfm": final plan, "m1", "m2", ...} *)
Definition prep_pv (p : prepch) : pv * pv := (pv_of_chan (pchan p), pv_of_chout (pout p) (pplan p)).
Definition row_pv (row : list prepch) : pv := PDict (map prep_pv row).

(* position k of the forge result for an element position *)
Definition mirror_pos (x : Z * sqing * list prepch) : pv * pv :=
  let '(k, q, row) := x in
  (PInt k, PDict [(pstr "sequencing", pv_of_sqing q); (pstr "type", pstr "element");
                  (pstr "content", PDict [(PInt 1, PDict [(pstr "data", row_pv row)])])]).
Definition mirror_forge (sq : list sqing) (out : list (list prepch)) : pv :=
  PDict (map mirror_pos (combine (combine (range1 (length out)) sq) out)).

(* ---- reading a forge result ---- *)
Definition key_eqb (a b : pv) : bool :=
  match a, b with
  | PInt x, PInt y => Z.eqb x y
  | PStr x, PStr y => str_eqb x y
  | _, _ => false
  end.
Definition pget (k : pv) (d : pv) : option pv :=
  match d with PDict l => alookup key_eqb k l | _ => None end.
Definition obind {A B} (o : option A) (f : A -> option B) : option B :=
  match o with Some a => f a | None => None end.

(* fo[k]["content"][1]["data"] *)
Definition forge_data (fo : pv) (k : Z) : option pv :=
  obind (pget (PInt k) fo) (fun x => obind (pget (pstr "content") x) (fun y =>
  obind (pget (PInt 1) y) (fun z => pget (pstr "data") z))).
(* fo[k]["content"][1]["data"][c][name] *)
Definition forge_lookup (fo : pv) (k : Z) (c : chan) (name : string) : option pv :=
  obind (forge_data fo k) (fun d => obind (pget (pv_of_chan c) d) (fun x => pget (pstr name) x)).

(* the flags entry outputForSEQXFileWithFlags delivers for one channel of one position *)
Definition chout_flags (o : chout) : pv :=
  match o with
  | OForged _ (Some fl) _ _ => PList (map PInt fl)
  | _ => PList [PInt 0; PInt 0; PInt 0; PInt 0]
  end.

(* ================= lemmas ================= *)
Local Open Scope Q_scope.

(* ---------- generic helpers ---------- *)
Lemma mf_bind_ok {A B} (r : result A) (k : A -> result B) b :
  bind r k = Ok b -> exists a, r = Ok a /\ k a = Ok b.
Proof. destruct r as [a|e]; cbn [bind]; intro H; [exists a; auto | discriminate]. Qed.

Lemma mf_mapM_cons {A B} (f : A -> result B) x t ys :
  mapM f (x :: t) = Ok ys -> exists y r, f x = Ok y /\ mapM f t = Ok r /\ ys = y :: r.
Proof.
  cbn [mapM]. intro H. apply mf_bind_ok in H as (y & Hy & H). apply mf_bind_ok in H as (r & Hr & H).
  injection H as <-. exists y, r. auto.
Qed.

Lemma mf_mapM_map {A B C} (f : B -> result C) (g : A -> B) : forall l,
  mapM f (map g l) = mapM (fun x => f (g x)) l.
Proof. induction l as [|a l IH]; [reflexivity|]. cbn [map mapM]. rewrite IH. reflexivity. Qed.

Lemma mf_mapM_ext {A B} (f g : A -> result B) : forall l,
  (forall x, In x l -> f x = g x) -> mapM f l = mapM g l.
Proof.
  induction l as [|a l IH]; intro H; [reflexivity|]. cbn [mapM].
  rewrite (H a (or_introl eq_refl)), IH; [reflexivity|]. intros x Hx. apply H. right. exact Hx.
Qed.

(* every item that the first loop accepts is accepted, with a related result, by a two-stage loop *)
Lemma mf_mapM_two_stage {A B C} (F : A -> result C) (G : A -> result B) (H : B -> result C) : forall l ys,
  (forall x y, In x l -> F x = Ok y -> exists z, G x = Ok z /\ H z = Ok y) ->
  mapM F l = Ok ys -> exists zs, mapM G l = Ok zs /\ mapM H zs = Ok ys.
Proof.
  induction l as [|a l IH]; intros ys Hx Hm.
  - cbn [mapM] in Hm. injection Hm as <-. exists []. split; reflexivity.
  - apply mf_mapM_cons in Hm as (y & r & Hy & Hr & ->).
    destruct (Hx a y (or_introl eq_refl) Hy) as (z & Hz & Hh).
    destruct (IH r) as (zs & Hzs & Hhs); [intros x y' Hin; apply Hx; right; exact Hin | exact Hr |].
    exists (z :: zs). cbn [mapM]. rewrite Hz, Hzs, Hh, Hhs. split; reflexivity.
Qed.

Lemma mf_mapM_image {A B C} (P : A -> result B) (Fg : A -> result C) (h : B -> C) : forall l ys,
  (forall x y, In x l -> P x = Ok y -> Fg x = Ok (h y)) ->
  mapM P l = Ok ys -> mapM Fg l = Ok (map h ys).
Proof.
  induction l as [|a l IH]; intros ys Hx Hm.
  - cbn [mapM] in Hm. injection Hm as <-. reflexivity.
  - apply mf_mapM_cons in Hm as (y & r & Hy & Hr & ->).
    cbn [mapM map]. rewrite (Hx a y (or_introl eq_refl) Hy).
    rewrite (IH r); [reflexivity | intros x y' Hin; apply Hx; right; exact Hin | exact Hr].
Qed.

Lemma mf_Forall2_compose {A B C} (R : A -> B -> Prop) (S : B -> C -> Prop) : forall l1 l2 l3,
  Forall2 R l1 l2 -> Forall2 S l2 l3 -> Forall2 (fun a c => exists b, R a b /\ S b c) l1 l3.
Proof.
  intros l1 l2 l3 H. revert l3. induction H as [|a b l1 l2 Hab HF IH]; intros l3 H2.
  - inversion H2. constructor.
  - inversion H2 as [|b' c l2' l3' Hbc HF2]; subst. constructor; [exists b; auto | apply IH; exact HF2].
Qed.

Lemma mf_Forall2_impl {A B} (R R' : A -> B -> Prop) : (forall a b, R a b -> R' a b) ->
  forall l l', Forall2 R l l' -> Forall2 R' l l'.
Proof. intros H l l' HF. induction HF; constructor; auto. Qed.

Lemma mf_Forall2_length {A B} (R : A -> B -> Prop) l1 l2 : Forall2 R l1 l2 -> length l1 = length l2.
Proof. induction 1; cbn [length]; congruence. Qed.

Lemma mf_Forall2_combine_r {A B C} (R : A * B -> C -> Prop) : forall (a : list A) (b : list B) c,
  length a = length b -> Forall2 R (combine a b) c -> Forall2 (fun y z => exists x, R (x, y) z) b c.
Proof.
  induction a as [|x a IH]; intros [|y b] c L H; try discriminate.
  - inversion H. constructor.
  - cbn [combine] in H. inversion H as [|p z l c' Hp HF]; subst.
    constructor; [exists x; exact Hp | apply IH; [injection L as L; exact L | exact HF]].
Qed.

Lemma mf_Forall2_nth {A B} (R : A -> B -> Prop) : forall l ys,
  Forall2 R l ys -> forall k x, nth_error l k = Some x -> exists y, nth_error ys k = Some y /\ R x y.
Proof. exact (@o_Forall2_nth_l A B R). Qed.

Lemma mf_Forall2_nth_r {A B} (R : A -> B -> Prop) : forall l ys,
  Forall2 R l ys -> forall k y, nth_error ys k = Some y -> exists x, nth_error l k = Some x /\ R x y.
Proof.
  induction 1 as [|a b l ys Hab HF IH]; intros k y Hk.
  - destruct k; discriminate.
  - destruct k as [|k]; cbn [nth_error] in *.
    + injection Hk as <-. exists a. auto.
    + apply IH. exact Hk.
Qed.

(* ---------- association lists ---------- *)
Lemma mf_alookup_in_vals {K V} (eqb : K -> K -> bool) k (v : V) : forall l,
  alookup eqb k l = Some v -> In v (avals l).
Proof.
  induction l as [|[k' v'] t IH]; cbn [alookup]; intro H; [discriminate|].
  destruct (eqb k k'); [injection H as ->; left; reflexivity | right; apply IH; exact H].
Qed.

Lemma mf_alookup_in_Z {V} k (v : V) : forall l, alookup Z.eqb k l = Some v -> In (k, v) l.
Proof.
  induction l as [|[k' v'] t IH]; cbn [alookup]; intro H; [discriminate|].
  destruct (Z.eqb k k') eqn:E; [|right; apply IH; exact H].
  apply Z.eqb_eq in E. subst k'. injection H as ->. left. reflexivity.
Qed.

Lemma mf_chan_eqb_refl c : chan_eqb c c = true.
Proof. apply chan_eqb_eq. reflexivity. Qed.

Lemma mf_alookup_nodup {V} c (v : V) : forall l,
  NoDup (map fst l) -> In (c, v) l -> alookup chan_eqb c l = Some v.
Proof.
  induction l as [|[c' v'] t IH]; intros Hnd Hin; [contradiction|].
  cbn [map fst] in Hnd. inversion Hnd as [|? ? Hni Hnd']; subst. cbn [alookup].
  destruct Hin as [E|Hin].
  - injection E as -> ->. rewrite mf_chan_eqb_refl. reflexivity.
  - destruct (chan_eqb c c') eqn:E.
    + apply chan_eqb_eq in E. subst c'. exfalso. apply Hni. apply in_map_iff. exists (c, v). auto.
    + apply IH; assumption.
Qed.

Lemma mf_alookup_some_in {V} c (v : V) : forall l, alookup chan_eqb c l = Some v -> In (c, v) l.
Proof.
  induction l as [|[c' v'] t IH]; cbn [alookup]; intro H; [discriminate|].
  destruct (chan_eqb c c') eqn:E; [|right; apply IH; exact H].
  apply chan_eqb_eq in E. subst c'. injection H as ->. left. reflexivity.
Qed.

(* d[c] = x on a dict with distinct keys that has the key: the entry is replaced in place *)
Lemma mf_aset_map {V} c (x : V) : forall d,
  NoDup (map fst d) -> In c (map fst d) ->
  aset chan_eqb c x d = map (fun p => if chan_eqb c (fst p) then (c, x) else p) d.
Proof.
  induction d as [|[c' v'] t IH]; intros Hnd Hin; [contradiction|].
  cbn [map fst] in Hnd, Hin. inversion Hnd as [|? ? Hni Hnd']; subst.
  cbn [aset map fst]. destruct (chan_eqb c c') eqn:E.
  - apply chan_eqb_eq in E. subst c'. f_equal.
    rewrite <- (map_id t) at 1. apply map_ext_in. intros [c2 v2] H2. cbn [fst].
    destruct (chan_eqb c c2) eqn:E2; [|reflexivity].
    apply chan_eqb_eq in E2. subst c2. exfalso. apply Hni. apply in_map_iff. exists (c, v2). auto.
  - f_equal. apply IH; [exact Hnd'|]. destruct Hin as [->|Hin]; [|exact Hin].
    rewrite mf_chan_eqb_refl in E. discriminate.
Qed.

Lemma mf_replace_chans_spec : forall (upd d : list (chan * chentry)),
  NoDup (map fst upd) -> NoDup (map fst d) -> (forall c, In c (map fst upd) -> In c (map fst d)) ->
  replace_chans d upd =
  map (fun p => (fst p, match alookup chan_eqb (fst p) upd with Some x => x | None => snd p end)) d.
Proof.
  induction upd as [|[c x] t IH]; intros d Hu Hd Hsub.
  - cbn [replace_chans alookup]. rewrite <- (map_id d) at 1. apply map_ext. intros [a b]. reflexivity.
  - cbn [map fst] in Hu. inversion Hu as [|? ? Hni Hu']; subst. cbn [replace_chans].
    assert (In c (map fst d)) as Hc by (apply Hsub; left; reflexivity).
    rewrite (mf_aset_map c x d Hd Hc).
    assert (map fst (map (fun p : chan * chentry => if chan_eqb c (fst p) then (c, x) else p) d) = map fst d) as Ek.
    { rewrite map_map. apply map_ext. intros [c2 v2]. cbn [fst]. destruct (chan_eqb c c2) eqn:E; [|reflexivity].
      apply chan_eqb_eq in E. subst c2. reflexivity. }
    rewrite IH; [| exact Hu' | rewrite Ek; exact Hd | rewrite Ek; intros c' Hc'; apply Hsub; right; exact Hc'].
    rewrite map_map. apply map_ext. intros [c2 v2]. cbn [fst snd alookup].
    destruct (chan_eqb c c2) eqn:E.
    + apply chan_eqb_eq in E. subst c2. cbn [fst snd]. rewrite mf_chan_eqb_refl.
      destruct (alookup chan_eqb c t) as [y|] eqn:Ey; [|reflexivity].
      exfalso. apply Hni. apply mf_alookup_some_in in Ey. apply in_map_iff. exists (c, y). auto.
    + cbn [fst snd].
      assert (chan_eqb c2 c = false) as ->.
      { destruct (chan_eqb c2 c) eqn:E2; [|reflexivity]. apply chan_eqb_eq in E2. subst c2.
        rewrite mf_chan_eqb_refl in E. discriminate. }
      reflexivity.
Qed.

Lemma mf_combine_map_self {A B} (g : A -> B) : forall l : list A,
  combine l (map g l) = map (fun x => (x, g x)) l.
Proof. induction l as [|a l IH]; [reflexivity|]. cbn [map combine]. rewrite IH. reflexivity. Qed.

Lemma mf_nodup_combine {V} : forall (cs : list chan) (vs : list V),
  NoDup cs -> NoDup (map fst (combine cs vs)).
Proof.
  intros cs vs Hnd. revert vs. induction Hnd as [|c0 cs Hni Hnd IH]; intros vs; [constructor|].
  destruct vs as [|v0 vs]; [constructor|]. cbn [combine map fst]. constructor; [|apply IH].
  intro H. apply Hni. apply in_map_iff in H as ([c1 v1] & E & H1). cbn [fst] in E. subst c1.
  eapply in_combine_l. exact H1.
Qed.

Lemma mf_in_combine_nodup {V} : forall (cs : list chan) (vs : list V) c v,
  NoDup cs -> In (c, v) (combine cs vs) -> alookup chan_eqb c (combine cs vs) = Some v.
Proof.
  intros cs vs c v Hnd Hin. apply mf_alookup_nodup; [apply mf_nodup_combine; exact Hnd | exact Hin].
Qed.

(* ---------- the largest delay does not depend on the channel order (up to == on Q) ---------- *)
Definition qstep (m y : Q) : Q := if Qle_bool m y then y else m.

Lemma mf_qmax_fold : forall t x,
  x <= fold_left qstep t x /\ (forall y, In y t -> y <= fold_left qstep t x) /\
  (fold_left qstep t x = x \/ In (fold_left qstep t x) t).
Proof.
  induction t as [|a t IH]; intro x; cbn [fold_left].
  - split; [lra|]. split; [intros y []|left; reflexivity].
  - destruct (IH (qstep x a)) as (H1 & H2 & H3).
    assert (x <= qstep x a /\ a <= qstep x a /\ (qstep x a = x \/ qstep x a = a)) as (Hx & Ha & Hc).
    { unfold qstep. destruct (Qle_bool x a) eqn:E.
      - apply Qle_bool_iff in E. repeat split; try lra. right. reflexivity.
      - apply Qle_bool_false in E. repeat split; try lra. left. reflexivity. }
    split; [lra|]. split.
    + intros y [<-|Hy]; [lra | apply H2; exact Hy].
    + destruct H3 as [H3|H3]; [|right; right; exact H3].
      rewrite H3. destruct Hc as [->| ->]; [left; reflexivity | right; left; reflexivity].
Qed.

Lemma mf_qmax_unfold x t : qmax (x :: t) = fold_left qstep t x.
Proof. reflexivity. Qed.

Lemma mf_qmax_ub l y : In y l -> y <= qmax l.
Proof.
  destruct l as [|x t]; [intros []|]. rewrite mf_qmax_unfold. destruct (mf_qmax_fold t x) as (H1 & H2 & _).
  intros [<-|Hy]; [exact H1 | apply H2; exact Hy].
Qed.

Lemma mf_qmax_in l : l <> [] -> In (qmax l) l.
Proof.
  destruct l as [|x t]; [congruence|]. intros _. rewrite mf_qmax_unfold.
  destruct (mf_qmax_fold t x) as (_ & _ & [H|H]); [left; symmetry; exact H | right; exact H].
Qed.

Lemma mf_qmax_perm l l' : Permutation l l' -> qmax l == qmax l'.
Proof.
  intro P. destruct l as [|x t].
  - apply Permutation_nil in P. subst l'. reflexivity.
  - assert (l' <> []) as Hne.
    { intro E. subst l'. apply Permutation_sym, Permutation_nil in P. discriminate. }
    assert (qmax (x :: t) <= qmax l') as A.
    { apply mf_qmax_ub. apply (Permutation_in _ P). apply mf_qmax_in. discriminate. }
    assert (qmax l' <= qmax (x :: t)) as B.
    { apply mf_qmax_ub. apply (Permutation_in _ (Permutation_sym P)). apply mf_qmax_in. exact Hne. }
    lra.
Qed.

(* ---------- forging only looks at durations up to == ---------- *)
Definition oeq (o o' : option Q) : Prop :=
  match o, o' with Some a, Some b => a == b | None, None => True | _, _ => False end.

Lemma mf_veq_refl v : veq v v.
Proof. destruct v; cbn; reflexivity. Qed.

Lemma mf_veq_all_refl l : Forall2 veq l l.
Proof. induction l; constructor; [apply mf_veq_refl | assumption]. Qed.

Lemma mf_resolve_veq : forall fs ars ds ds' o o' rs,
  Forall2 veq ds ds' -> oeq o o' -> resolve_waits_aux fs ars ds o = Ok rs ->
  exists rs', resolve_waits_aux fs ars ds' o' = Ok rs' /\ Forall2 veq rs rs'.
Proof.
  induction fs as [|f fs IH]; intros ars ds ds' o o' rs HF Ho H.
  - cbn in H |- *. injection H as <-. exists []. split; [reflexivity | constructor].
  - destruct ars as [|a ars].
    { cbn in H |- *. injection H as <-. exists []. split; [reflexivity | constructor]. }
    destruct HF as [|d0 d0' ds ds' Hd HF].
    { cbn in H |- *. injection H as <-. exists []. split; [reflexivity | constructor]. }
    cbn [resolve_waits_aux] in H |- *. destruct (fn_eqb f Fwait) eqn:Ef.
    + destruct o as [el|]; [|discriminate]. destruct o' as [el'|]; [|contradiction]. cbn in Ho.
      destruct a as [|v rest]; [discriminate|]. destruct v as [w|x|]; try discriminate.
      destruct (Qlt_le_dec (w - el) 0) as [L|L]; [discriminate|].
      apply mf_bind_ok in H as (r & Hr & Hk). injection Hk as <-.
      destruct (IH ars ds ds' (Some w) (Some w) r HF) as (r' & Hr' & HF'); [cbn; reflexivity | exact Hr |].
      destruct (Qlt_le_dec (w - el') 0) as [L'|L']; [exfalso; lra|].
      rewrite Hr'. cbn [bind]. exists (VNum (w - el') :: r'). split; [reflexivity|].
      constructor; [cbn; lra | exact HF'].
    + apply mf_bind_ok in H as (r & Hr & Hk). injection Hk as <-.
      assert (oeq (match o, d0 with Some el, VNum q => Some (el + q) | _, _ => None end)
                  (match o', d0' with Some el, VNum q => Some (el + q) | _, _ => None end)) as Ho'.
      { destruct o as [el|], o' as [el'|]; cbn in Ho |- *; try contradiction;
          destruct d0 as [q|x|], d0' as [q'|x'|]; cbn in Hd |- *; try discriminate; auto. lra. }
      destruct (IH ars ds ds' _ _ r HF Ho' Hr) as (r' & Hr' & HF').
      rewrite Hr'. cbn [bind]. exists (d0' :: r'). split; [reflexivity|].
      constructor; [exact Hd | exact HF'].
Qed.

Lemma mf_forge_with_veq b SR ds ds' f :
  Forall2 veq ds ds' -> forge_bp_with b SR ds = Ok f -> forge_bp_with b SR ds' = Ok f.
Proof.
  intros HF H. unfold forge_bp_with in *.
  apply mf_bind_ok in H as (rs & Hrs & H). apply mf_bind_ok in H as (ns & Hns & H).
  destruct (mf_resolve_veq _ _ _ _ (Some 0) (Some 0) _ HF ltac:(cbn; reflexivity) Hrs) as (rs' & Hrs' & HF').
  rewrite Hrs'. cbn [bind]. rewrite (int_durs_veq SR rs rs' ns HF' Hns). cbn [bind]. exact H.
Qed.

Lemma mf_forge_bp_veq b1 b2 f :
  same_view b1 b2 -> (names b1 = [] -> names b2 = []) -> (names b2 = [] -> names b1 = []) -> sr b1 = sr b2 ->
  Forall2 veq (durs b1) (durs b2) ->
  forge_bp b1 = Ok f -> forge_bp b2 = Ok f.
Proof.
  intros Hv Hn1 Hn2 Hsr Hd H. unfold forge_bp in *. rewrite <- Hsr.
  destruct (names b1) as [|n1 t1]; [discriminate|].
  destruct (names b2) as [|n2 t2]; [specialize (Hn2 eq_refl); discriminate|].
  destruct (sr b1) as [SR| |]; try discriminate.
  rewrite <- (forge_same_view b1 b2 SR (durs b2) Hv). eapply mf_forge_with_veq; eauto.
Qed.

Lemma mf_Forall2_veq_ins p x x' l : veq x x' -> Forall2 veq (ins p x l) (ins p x' l).
Proof.
  intro H. unfold ins. apply Forall2_app; [apply mf_veq_all_refl|].
  constructor; [exact H | apply mf_veq_all_refl].
Qed.

(* the blueprint part of a delay for two equal (==) values of the largest delay *)
Lemma mf_delay_bp_M : forall b d M1 M2 b1,
  M1 == M2 -> delay_bp b d M1 = Ok b1 ->
  exists b2, delay_bp b d M2 = Ok b2 /\ same_view b1 b2 /\ names b1 = names b2 /\ sr b1 = sr b2 /\
             Forall2 veq (durs b1) (durs b2).
Proof.
  intros b d M1 M2 b1 HM H. unfold delay_bp in *.
  apply mf_bind_ok in H as (ars & Hs & H). rewrite Hs. cbn [bind]. injection H as <-.
  eexists. split; [reflexivity|].
  set (b2 := if Qlt_le_dec 0 d
             then fst (bp_insert (set_args b ars) 0 Fwait [VNum d] (VStr (S_ "waituntil")) None)
             else set_args b ars).
  destruct (Qlt_le_dec 0 (M1 - d)) as [L1|L1], (Qlt_le_dec 0 (M2 - d)) as [L2|L2]; try (exfalso; lra).
  - unfold bp_insert. cbn [Z.ltb Z.compare Z.eqb andb fst ok].
    unfold same_view. cbn [funs args sm1 sm2 am1 am2 names sr durs].
    repeat split; try reflexivity. apply mf_Forall2_veq_ins. cbn. lra.
  - unfold same_view. repeat split; try reflexivity. apply mf_veq_all_refl.
Qed.

(* ---------- one channel of one element ---------- *)
(* what _prepareForOutputting stores for a channel with entry ch, delay d, largest delay M *)
Definition prep_entry (s : seq) (M d : Q) (ch chP : chentry) : Prop :=
  match ckind ch with
  | KBp b => exists b', delay_bp b d M = Ok b' /\ chP = mkCh (KBp (bp_copy b')) (cflags ch)
  | KArr arrs asr => exists sr, asr = Some (VNum sr) /\ chP = mkCh (KArr (delay_arrays arrs d M sr) asr) (cflags ch)
  end.

Lemma mf_prepare_chan_inv s e M c d y ch :
  el_lookup e c = Some ch -> prepare_chan s e M (c, d) = Ok y ->
  exists chP, y = (c, chP) /\ prep_entry s M d ch chP.
Proof.
  intros Hl H. unfold prepare_chan in H. rewrite Hl in H. unfold prep_entry.
  destruct (ckind ch) as [b|arrs asr].
  - apply mf_bind_ok in H as (b' & Hb & H). destruct (bp_has_empty_list b'); [discriminate|].
    injection H as <-. eexists. split; [reflexivity|]. exists b'. auto.
  - destruct asr as [[sr| |]|]; try discriminate. injection H as <-.
    eexists. split; [reflexivity|]. exists sr. auto.
Qed.

(* the loop body of Element._applyDelays *)
Definition fdelay (SRv : val) (M : Q) (p : (chan * chentry) * Q) : result (chan * chentry) :=
  let '((c, ch), d) := p in
  match ckind ch with
  | KBp b => do b' <- delay_bp b d M; Ok (c, mkCh (KBp b') (cflags ch))
  | KArr arrs asr =>
      match SRv with
      | VNum s => Ok (c, mkCh (KArr (delay_arrays arrs d M s) asr) (cflags ch))
      | _ => Err EType
      end
  end.

Lemma mf_apply_delays_unfold e ds :
  el_apply_delays e ds =
  if negb (Nat.eqb (length ds) (length (edata e))) then Err EValue else
  if negb (forallb (fun d => Qle_bool 0 d) ds) then Err EValue else
  do SRv <- el_sr e;
  match ds with
  | [] => Err EValue
  | _ => do chs <- mapM (fdelay SRv (qmax ds)) (combine (edata e) ds); Ok (mkEl chs)
  end.
Proof. reflexivity. Qed.

(* the loop body of Element.getArrays(includetime=False) *)
Definition chan_get (p : chan * chentry) : result (chan * chout) :=
  do o <- ch_arrays false (snd p); Ok (fst p, o).

Lemma mf_get_arrays_unfold e : el_get_arrays e false = mapM chan_get (edata e).
Proof. reflexivity. Qed.

Lemma mf_copy_view b : same_view (bp_copy b) b.
Proof. unfold same_view, bp_copy. cbn. repeat split; reflexivity. Qed.

Lemma mf_copy_names_nil b : names (bp_copy b) = [] <-> names b = [].
Proof.
  unfold bp_copy. cbn [names]. split; intro H.
  - apply length_zero_iff_nil. apply (f_equal (@length _)) in H.
    rewrite uniquify_length, map_length in H. exact H.
  - rewrite H. reflexivity.
Qed.

Lemma mf_delay_arrays_eq arrs d M1 M2 s1 s2 :
  M1 == M2 -> s1 == s2 -> delay_arrays arrs d M1 s1 = delay_arrays arrs d M2 s2.
Proof.
  intros HM Hs. unfold delay_arrays. apply map_ext. intros [n r]. cbn [fst snd].
  rewrite (rnd_eq (d * s1) (d * s2)) by (rewrite Hs; reflexivity).
  rewrite (rnd_eq ((M1 - d) * s1) ((M2 - d) * s2)) by (rewrite HM, Hs; reflexivity). reflexivity.
Qed.

(* both implementations forge the same arrays for the channel *)
Lemma mf_chan_agree s M1 M2 d c ch chP SRv y :
  M1 == M2 -> prep_entry s M1 d ch chP ->
  (forall arrs sr, ckind ch = KArr arrs (Some (VNum sr)) -> exists q, SRv = VNum q /\ q == sr) ->
  chan_get (c, chP) = Ok y ->
  exists z, fdelay SRv M2 ((c, ch), d) = Ok z /\ chan_get z = Ok y.
Proof.
  intros HM HP HSR Hy. unfold prep_entry in HP. unfold fdelay.
  destruct (ckind ch) as [b|arrs asr] eqn:Ek.
  - destruct HP as (b1 & Hb1 & ->).
    destruct (mf_delay_bp_M b d M1 M2 b1 HM Hb1) as (b2 & Hb2 & Hv & Hn & Hsr & Hd).
    rewrite Hb2. cbn [bind]. eexists. split; [reflexivity|].
    unfold chan_get in *. cbn [fst snd] in *. unfold ch_arrays in *. cbn [ckind cflags] in *.
    apply mf_bind_ok in Hy as (o & Ho & Hy). apply mf_bind_ok in Ho as (f & Hf & Ho).
    assert (forge_bp b2 = Ok f) as ->.
    { apply (mf_forge_bp_veq (bp_copy b1) b2 f).
      - destruct Hv as (E1 & E2 & E3 & E4 & E5 & E6). unfold same_view, bp_copy.
        cbn [funs args sm1 sm2 am1 am2]. repeat split; assumption.
      - intro H. rewrite <- Hn. exact (proj1 (mf_copy_names_nil b1) H).
      - intro H. apply (proj2 (mf_copy_names_nil b1)). rewrite Hn. exact H.
      - exact Hsr.
      - exact Hd.
      - exact Hf. }
    cbn [bind]. change (sr (bp_copy b1)) with (sr b1) in Ho. rewrite <- Hsr.
    destruct (sr b1) as [q| |]; try discriminate. injection Ho as <-. exact Hy.
  - destruct HP as (sr & -> & ->).
    destruct (HSR arrs sr eq_refl) as (q & -> & Hq).
    eexists. split; [reflexivity|].
    unfold chan_get in *. cbn [fst snd] in *. unfold ch_arrays in *. cbn [ckind cflags andb] in *.
    rewrite <- (mf_delay_arrays_eq arrs d M1 M2 sr q HM); [exact Hy | symmetry; exact Hq].
Qed.

(* ---------- one element ---------- *)
Lemma mf_prepare_chan_fst s e M x y : prepare_chan s e M x = Ok y -> fst y = fst x.
Proof.
  destruct x as [c d]. unfold prepare_chan. destruct (el_lookup e c) as [ch|]; [|discriminate].
  destruct (ckind ch) as [b|arrs asr].
  - intro H. apply mf_bind_ok in H as (b' & _ & H). destruct (bp_has_empty_list b'); [discriminate|].
    injection H as <-. reflexivity.
  - destruct asr as [[sr| |]|]; try discriminate. intro H. injection H as <-. reflexivity.
Qed.

Lemma mf_chan_get_fst x y : chan_get x = Ok y -> fst y = fst x.
Proof. unfold chan_get. intro H. apply mf_bind_ok in H as (o & _ & H). injection H as <-. reflexivity. Qed.

(* the delay of channel c in the delay dictionary of Sequence.forge *)
Definition dly (dl : list (chan * Q)) (c : chan) : Q :=
  match alookup chan_eqb c dl with Some q => q | None => 0 end.

Lemma mf_dly_combine : forall cs vs, NoDup cs -> length vs = length cs -> map (dly (combine cs vs)) cs = vs.
Proof.
  intros cs vs Hnd. revert vs. induction Hnd as [|c0 cs Hni Hnd IH]; intros vs L.
  - destruct vs; [reflexivity | discriminate].
  - destruct vs as [|v0 vs]; [discriminate|]. cbn [combine map]. f_equal.
    + unfold dly. cbn [alookup]. rewrite mf_chan_eqb_refl. reflexivity.
    + rewrite <- (IH vs) at 2 by (injection L as L; exact L). apply map_ext_in. intros c Hc.
      unfold dly. cbn [alookup]. destruct (chan_eqb c c0) eqn:E; [|reflexivity].
      apply chan_eqb_eq in E. subst c0. contradiction.
Qed.

Lemma mf_lookup_all dl : forall l, (forall c, In c l -> exists q, alookup chan_eqb c dl = Some q) ->
  mapM (fun c => match alookup chan_eqb c dl with Some q => Ok q | None => Err EKey end) l = Ok (map (dly dl) l).
Proof.
  induction l as [|c l IH]; intro H; [reflexivity|]. cbn [mapM map].
  destruct (H c (or_introl eq_refl)) as (q & Hq). unfold dly at 1. rewrite Hq. cbn [bind].
  rewrite IH; [reflexivity | intros c' Hc'; apply H; right; exact Hc'].
Qed.

(* validateDurations: the element's rate is (Python ==) the rate stored with each of its raw-array channels *)
Lemma mf_el_sr_array e SRv c ch arrs sr :
  el_sr e = Ok SRv -> In (c, ch) (edata e) -> ckind ch = KArr arrs (Some (VNum sr)) ->
  exists q, SRv = VNum q /\ q == sr.
Proof.
  intros H Hin Hk. unfold el_sr in H. apply mf_bind_ok in H as (r & Hv & H). injection H as <-.
  unfold el_validate in Hv.
  assert (In ch (avals (edata e))) as Hch by (apply in_map_iff; exists (c, ch); auto).
  destruct (avals (edata e)) as [|ch0 chs] eqn:Ea; [discriminate|]. rewrite <- Ea in *.
  apply mf_bind_ok in Hv as (SRs & HSRs & Hv).
  destruct (all_eq_first val_eqb SRs) eqn:Eall; cbn [negb] in Hv; [|discriminate].
  apply mf_bind_ok in Hv as (ds & _ & Hv). apply mf_bind_ok in Hv as (atol & _ & Hv).
  destruct (negb (allclose ds atol)); [discriminate|].
  apply mf_bind_ok in Hv as (ns & _ & Hv). destruct (negb (all_eq_first Z.eqb ns)); [discriminate|].
  injection Hv as <-. cbn [fst].
  apply o_mapM_inv in HSRs. destruct (o_Forall2_in_l _ _ _ _ HSRs Hch) as (v & Hvin & Hv).
  unfold ch_sr in Hv. rewrite Hk in Hv. injection Hv as <-.
  destruct SRs as [|x SRs']; [contradiction|]. cbn [hd all_eq_first] in *.
  rewrite forallb_forall in Eall. specialize (Eall _ Hvin).
  destruct x as [q|y|]; cbn [val_eqb] in Eall; try discriminate.
  exists q. split; [reflexivity | apply Qeq_bool_iff; exact Eall].
Qed.

Lemma mf_elem_agree s chans delays e ep arrs SRv :
  NoDup (el_channels e) -> Permutation (el_channels e) chans ->
  length delays = length chans -> delays <> [] ->
  Forall (fun q => 0 <= q) delays ->
  el_sr e = Ok SRv ->
  prepare_elem s chans delays (EElem e) = Ok ep ->
  el_get_arrays ep false = Ok arrs ->
  exists e', apply_delays_elem (combine chans delays) e = Ok e' /\ el_get_arrays e' false = Ok arrs /\
             map fst arrs = el_channels e.
Proof.
  intros Hnd Hperm Hlen Hne Hpos Hsr Hp Ha.
  cbn [prepare_elem] in Hp. apply mf_bind_ok in Hp as (ups & Hups & Hp). injection Hp as <-.
  rewrite mf_get_arrays_unfold in Ha. cbn [edata] in Ha.
  set (dl := combine chans delays) in *.
  assert (NoDup chans) as Hndc by (eapply Permutation_NoDup; eauto).
  assert (forall c, In c chans -> exists d, In (c, d) dl /\ alookup chan_eqb c dl = Some d) as F1.
  { intros c Hc. destruct (o_in_combine_l chans delays c Hc (eq_sym Hlen)) as (d & Hd).
    exists d. split; [exact Hd | apply mf_in_combine_nodup; assumption]. }
  assert (forall c, In c (el_channels e) -> In c chans) as Hsub1 by (intros c; apply Permutation_in; exact Hperm).
  assert (forall c, In c chans -> In c (el_channels e)) as Hsub2
    by (intros c; apply Permutation_in; apply Permutation_sym; exact Hperm).
  assert (map fst ups = chans) as Hk.
  { rewrite (mapM_map_fst _ fst fst (mf_prepare_chan_fst s e (qmax delays)) _ _ Hups).
    apply map_fst_combine. exact Hlen. }
  pose proof (o_mapM_inv _ _ _ Hups) as Fups.
  (* the delayed copy, entry by entry *)
  rewrite (mf_replace_chans_spec ups (edata e)) in Ha;
    [| rewrite Hk; exact Hndc | exact Hnd | rewrite Hk; exact Hsub2].
  rewrite mf_mapM_map in Ha.
  set (ds := map (dly dl) (el_channels e)).
  assert (qmax delays == qmax ds) as HM.
  { apply mf_qmax_perm. rewrite <- (mf_dly_combine chans delays Hndc Hlen). fold dl.
    apply Permutation_map. apply Permutation_sym. exact Hperm. }
  assert (forall (x : chan * chentry) y, In x (edata e) ->
            chan_get (fst x, match alookup chan_eqb (fst x) ups with Some x1 => x1 | None => snd x end) = Ok y ->
            exists z, fdelay SRv (qmax ds) (x, dly dl (fst x)) = Ok z /\ chan_get z = Ok y) as Hstage.
  { intros [c ch] y Hin Hy. cbn [fst snd] in Hy |- *.
    assert (In c (el_channels e)) as Hc by (apply in_map_iff; exists (c, ch); auto).
    destruct (F1 c (Hsub1 c Hc)) as (d & Hd & Hdl).
    assert (dly dl c = d) as -> by (unfold dly; rewrite Hdl; reflexivity).
    assert (el_lookup e c = Some ch) as Hl by (apply mf_alookup_nodup; assumption).
    destruct (o_Forall2_in_l _ _ _ _ Fups Hd) as (y' & Hy' & Hpc).
    destruct (mf_prepare_chan_inv s e _ c d y' ch Hl Hpc) as (chP & -> & HPE).
    assert (alookup chan_eqb c ups = Some chP) as Hu by (apply mf_alookup_nodup; [rewrite Hk|]; assumption).
    rewrite Hu in Hy.
    apply (mf_chan_agree s (qmax delays) (qmax ds) d c ch chP SRv y HM HPE); [|exact Hy].
    intros arrs0 sr Ek. exact (mf_el_sr_array e SRv c ch arrs0 sr Hsr Hin Ek). }
  destruct (mf_mapM_two_stage _ (fun p => fdelay SRv (qmax ds) (p, dly dl (fst p))) chan_get _ _ Hstage Ha)
    as (zs & Hzs & Hget).
  exists (mkEl zs). split; [|split].
  - unfold apply_delays_elem. rewrite (mf_lookup_all dl).
    2:{ intros c Hc. destruct (F1 c (Hsub1 c Hc)) as (d & _ & Hd). exists d. exact Hd. }
    cbn [bind]. fold ds. rewrite mf_apply_delays_unfold.
    assert (length ds = length (edata e)) as Lds by (unfold ds, el_channels, akeys; rewrite !map_length; reflexivity).
    rewrite Lds, Nat.eqb_refl. cbn [negb].
    assert (forallb (fun d => Qle_bool 0 d) ds = true) as ->.
    { apply forallb_forall. intros x Hx. apply in_map_iff in Hx as (c & <- & Hc).
      destruct (F1 c (Hsub1 c Hc)) as (d & Hd & Hdl). unfold dly. rewrite Hdl.
      apply Qle_bool_iff. rewrite Forall_forall in Hpos. apply Hpos. eapply in_combine_r. exact Hd. }
    cbn [negb]. rewrite Hsr. cbn [bind].
    assert (combine (edata e) ds = map (fun p => (p, dly dl (fst p))) (edata e)) as Ec.
    { unfold ds, el_channels, akeys. rewrite map_map. apply mf_combine_map_self. }
    destruct ds as [|d0 dt] eqn:Eds.
    + exfalso. apply Hne. apply length_zero_iff_nil. rewrite Hlen.
      cbn [length] in Lds. symmetry in Lds. apply length_zero_iff_nil in Lds.
      assert (el_channels e = []) as E0 by (unfold el_channels, akeys; rewrite Lds; reflexivity).
      rewrite E0 in Hperm. apply Permutation_nil in Hperm. rewrite Hperm. reflexivity.
    + rewrite Ec, mf_mapM_map, Hzs. reflexivity.
  - rewrite mf_get_arrays_unfold. exact Hget.
  - unfold el_channels, akeys. eapply mapM_map_fst; [|exact Ha].
    intros x y H. apply mf_chan_get_fst in H. exact H.
Qed.

(* ---------- one forged row: filter compensation ---------- *)
(* the loop body of the last stage of _prepareForOutputting *)
Definition prep_item (s : seq) (chans : list chan) (p : chan * chout) : result prepch :=
  do w <- chout_plan (snd p);
  do flt <- (if existsb (chan_eqb (fst p)) chans then filter_of s (fst p) else Ok None);
  do w' <- filt_wrap flt (seq_SR s) w;
  Ok (mkPrep (fst p) (snd p) w').

Lemma mf_forge_elem_unfold s e :
  forge_elem_data s true false e = do arrs <- el_get_arrays e false; do chs <- mapM (chan_pv s true) arrs; Ok (PDict chs).
Proof. reflexivity. Qed.

Lemma mf_row_agree s chans arrs row :
  (forall c, In c (map fst arrs) -> In c chans) ->
  mapM (prep_item s chans) arrs = Ok row -> mapM (chan_pv s true) arrs = Ok (map prep_pv row).
Proof.
  intros Hsub H. eapply mf_mapM_image; [|exact H].
  intros [c o] y Hin Hy. unfold prep_item in Hy. unfold chan_pv. cbn [fst snd] in *.
  assert (existsb (chan_eqb c) chans = true) as E.
  { apply existsb_exists. exists c. split; [|apply mf_chan_eqb_refl].
    apply Hsub. apply in_map_iff. exists (c, o). auto. }
  rewrite E in Hy.
  apply mf_bind_ok in Hy as (w & Hw & Hy). apply mf_bind_ok in Hy as (flt & Hflt & Hy).
  apply mf_bind_ok in Hy as (w' & Hw' & Hy). injection Hy as <-.
  rewrite Hw. cbn [bind]. rewrite Hflt. cbn [bind]. rewrite Hw'. reflexivity.
Qed.

(* ---------- what a successful _prepareForOutputting went through ---------- *)
Definition prep_row (s : seq) (chans : list chan) (delays : list Q) (k : Z) (row : list prepch) : Prop :=
  exists x ep arrs, alookup Z.eqb k (sdata s) = Some x /\ prepare_elem s chans delays x = Ok ep /\
                    el_get_arrays ep false = Ok arrs /\ mapM (prep_item s chans) arrs = Ok row.

Lemma mf_prepare_inv s chans out :
  prepare s = Ok (chans, out) ->
  seq_check s = Ok true /\ first_channels s = Ok chans /\
  list_eqb Z.eqb (sort_Z (akeys (sseq s))) (range1 (length (sdata s))) = true /\
  (forall c, In c chans -> spec_get s (key_amp c) <> None) /\
  exists delays, mapM (delay_of s) chans = Ok delays /\ delays <> [] /\
    Forall2 (prep_row s chans delays) (range1 (length (sdata s))) out.
Proof.
  intro H. unfold prepare in H.
  apply mf_bind_ok in H as (c & Hc & H). destruct c; cbn [negb] in H; [|discriminate].
  apply mf_bind_ok in H as (chans' & Hfc & H). cbv zeta in H.
  destruct (list_eqb Z.eqb (sort_Z (akeys (sseq s))) (range1 (length (sdata s)))) eqn:Hpos; cbn [negb] in H; [|discriminate].
  apply mf_bind_ok in H as (u & Hamp & H).
  apply mf_bind_ok in H as (delays & Hdel & H).
  destruct delays as [|d0 dt] eqn:Ed; [discriminate|]. rewrite <- Ed in *.
  apply mf_bind_ok in H as (els & Hels & H).
  apply mf_bind_ok in H as (forged & Hforged & H).
  apply mf_bind_ok in H as (out' & Hout & H). injection H as <- <-.
  split; [exact Hc|]. split; [exact Hfc|]. split; [reflexivity|]. split.
  - intros c Hin E. apply o_mapM_inv in Hamp.
    destruct (o_Forall2_in_l _ _ _ _ Hamp Hin) as (y & _ & Hy). rewrite E in Hy. discriminate.
  - exists delays. split; [exact Hdel|]. split; [rewrite Ed; discriminate|].
    apply o_mapM_inv in Hels. apply o_mapM_inv in Hforged. apply o_mapM_inv in Hout.
    pose proof (mf_Forall2_compose _ _ _ _ _ (mf_Forall2_compose _ _ _ _ _ Hels Hforged) Hout) as HF.
    eapply mf_Forall2_impl; [|exact HF].
    intros k row (arrs & (ep & Hk & Ha) & Hr). cbv beta in Hk.
    destruct (alookup Z.eqb k (sdata s)) as [x|] eqn:Ex; [|discriminate].
    exists x, ep, arrs. auto.
Qed.

(* ---------- what checkConsistency() = True establishes ---------- *)
Lemma mf_check_facts s : seq_check s = Ok true ->
  (forall x, In x (avals (sdata s)) -> exists v, entry_SR x = Ok v) /\
  (forall x y, In x (avals (sdata s)) -> In y (avals (sdata s)) ->
     exists cx cy, entry_channels x = Ok cx /\ entry_channels y = Ok cy /\ Permutation cx cy).
Proof.
  unfold seq_check, check_consistency. intro H.
  destruct (spec_get s key_sr) as [v0|]; [|discriminate].
  apply mf_bind_ok in H as (SRs & HSR & H).
  destruct (negb (all_eq_first val_eqb SRs)); [discriminate|].
  apply mf_bind_ok in H as (chs & Hchs & H). cbv zeta in H.
  destruct (negb (forallb (list_eqb chan_eqb (last chs [])) chs)) eqn:Ef; [discriminate|].
  apply negb_false_iff in Ef. rewrite forallb_forall in Ef.
  apply o_mapM_inv in HSR. apply o_mapM_inv in Hchs.
  assert (forall x, In x (avals (sdata s)) -> exists c, entry_channels x = Ok c /\ sort_chans c = last chs []) as Hone.
  { intros x Hx. destruct (o_Forall2_in_l _ _ _ _ Hchs Hx) as (y & Hy & Hxy).
    apply mf_bind_ok in Hxy as (c & Hcx & Hxy). injection Hxy as <-.
    exists c. split; [exact Hcx|]. symmetry. apply (list_eqb_spec chan_eqb chan_eqb_spec). apply Ef. exact Hy. }
  split.
  - intros x Hx. destruct (o_Forall2_in_l _ _ _ _ HSR Hx) as (v & _ & Hv). exists v. exact Hv.
  - intros x y Hx Hy. destruct (Hone x Hx) as (cx & Hcx & Ex). destruct (Hone y Hy) as (cy & Hcy & Ey).
    exists cx, cy. split; [exact Hcx|]. split; [exact Hcy|]. apply sort_chans_eq_iff. congruence.
Qed.

(* ---------- assembling Sequence.forge ---------- *)
Lemma mf_mapM_chain {A B C} (G : A -> result B) (H : B -> result C) : forall l ts,
  Forall2 (fun k t => exists y, G k = Ok y /\ H y = Ok t) l ts ->
  exists ys, mapM G l = Ok ys /\ mapM H ys = Ok ts.
Proof.
  induction 1 as [|k t l ts (y & Hy & Ht) HF (ys & Hys & Hts)].
  - exists []. split; reflexivity.
  - exists (y :: ys). cbn [mapM]. rewrite Hy, Hys, Ht, Hts. split; reflexivity.
Qed.

Lemma mf_Forall2_zip3 {A B C D} (P : A -> B -> Prop) (Q : A -> C -> Prop) (f : A * B * C -> D) : forall l a b,
  Forall2 P l a -> Forall2 Q l b ->
  Forall2 (fun x t => exists y z, P x y /\ Q x z /\ t = f (x, y, z)) l (map f (combine (combine l a) b)).
Proof.
  intros l a b HP. revert b. induction HP as [|x y l a Hxy HP IH]; intros b HQ.
  - inversion HQ. constructor.
  - inversion HQ as [|x' z l' b' Hxz HQ']; subst. cbn [combine map]. constructor; [|apply IH; exact HQ'].
    exists y, z. auto.
Qed.

Lemma mf_mapM_pair {A B} (f : A -> result B) : forall l ys,
  mapM f l = Ok ys -> mapM (fun x => do q <- f x; Ok (x, q)) l = Ok (combine l ys).
Proof.
  induction l as [|a l IH]; intros ys H.
  - cbn [mapM] in H. injection H as <-. reflexivity.
  - apply mf_mapM_cons in H as (y & r & Hy & Hr & ->). cbn [mapM combine]. rewrite Hy. cbn [bind].
    rewrite (IH r Hr). reflexivity.
Qed.

Lemma mf_alookup_key {V} k : forall l : list (Z * V), In k (akeys l) -> exists v, alookup Z.eqb k l = Some v.
Proof.
  induction l as [|[k' v'] t IH]; intro H; [contradiction|]. cbn [alookup].
  destruct (Z.eqb k k') eqn:E; [exists v'; reflexivity|].
  destruct H as [H|H]; [cbn [fst] in H; subst k'; rewrite Z.eqb_refl in E; discriminate | apply IH; exact H].
Qed.

Lemma mf_delays_nonneg s chans delays :
  delays_nonneg s -> mapM (delay_of s) chans = Ok delays -> Forall (fun q => 0 <= q) delays.
Proof.
  intros Hn H. apply o_mapM_inv in H. induction H as [|c q cs qs Hcq HF IH]; constructor; [|exact IH].
  unfold delay_of in Hcq. destruct (spec_get s (key_delay c)) as [[[q'|x|]|k o f t]|] eqn:E; try discriminate.
  - injection Hcq as <-. apply (Hn c q' E).
  - injection Hcq as <-. lra.
Qed.

Theorem prepare_mirrors_forge : forall s chans out,
  elems_nodup s -> delays_nonneg s ->
  prepare s = Ok (chans, out) ->
  exists sq, mapM (get_sq s) (range1 (length out)) = Ok sq /\
    seq_forge s true true false = Ok (mirror_forge sq out).
Proof.
  intros s chans out Hnd Hnn Hp.
  destruct (mf_prepare_inv s chans out Hp) as (Hc & Hfc & Hpos & _ & delays & Hdel & Hne & HF).
  destruct (mf_check_facts s Hc) as (HSRs & Hchs).
  set (n := length (sdata s)) in *.
  assert (length out = n) as Lout by (rewrite <- (mf_Forall2_length _ _ _ HF); apply o_range1_length).
  assert (length delays = length chans) as Ldel by (eapply o_mapM_length; exact Hdel).
  pose proof (mf_delays_nonneg s chans delays Hnn Hdel) as Hpos_d.
  (* the sequencing of every position exists *)
  assert (exists sq, mapM (get_sq s) (range1 n) = Ok sq) as (sq & Hsq).
  { apply o_mapM_all_ok. intros k Hk. apply sort_Z_range in Hpos.
    destruct (mf_alookup_key k (sseq s)) as (q & Hq).
    { eapply Permutation_in; [apply Permutation_sym; exact Hpos | exact Hk]. }
    exists q. unfold get_sq. rewrite Hq. reflexivity. }
  exists sq. rewrite Lout. split; [exact Hsq|].
  (* the first element fixes the channel list *)
  unfold first_channels in Hfc. destruct (alookup Z.eqb 1%Z (sdata s)) as [x1|] eqn:E1; [|discriminate].
  pose proof (mf_alookup_in_vals _ _ _ _ E1) as Hx1.
  unfold seq_forge. rewrite Hc. cbn [bind negb]. unfold seq_channels. rewrite Hc. cbn [bind]. rewrite E1, Hfc.
  cbn [bind]. rewrite (mf_mapM_pair (delay_of s) chans delays Hdel). cbn [bind].
  set (dl := combine chans delays).
  unfold mirror_forge. rewrite Lout.
  pose proof (mf_Forall2_zip3 _ _ mirror_pos _ _ _ (o_mapM_inv _ _ _ Hsq) HF) as HZ.
  match goal with |- bind (mapM ?G _) (fun data => bind (mapM ?H data) _) = _ =>
    destruct (mf_mapM_chain G H (range1 n) (map mirror_pos (combine (combine (range1 n) sq) out))) as (ys & Hys & Hts)
  end.
  2:{ fold n. rewrite Hys. cbn [bind]. rewrite Hts. reflexivity. }
  eapply mf_Forall2_impl; [|exact HZ].
  intros k t (q & row & Hq & (x & ep & arrs & Hx & Hpe & Hga & Hrow) & ->). cbv beta.
  destruct x as [e|sb]; [|discriminate].
  pose proof (mf_alookup_in_Z _ _ _ Hx) as Hin.
  pose proof (mf_alookup_in_vals _ _ _ _ Hx) as Hinv.
  destruct (HSRs _ Hinv) as (v & Hv). cbn [entry_SR] in Hv.
  destruct (Hchs _ _ Hinv Hx1) as (cx & cy & Hcx & Hcy & Hperm).
  cbn [entry_channels] in Hcx. injection Hcx as <-. rewrite Hfc in Hcy. injection Hcy as <-.
  destruct (mf_elem_agree s chans delays e ep arrs v (Hnd k e Hin) Hperm Ldel Hne Hpos_d Hv Hpe Hga)
    as (e' & He' & Hga' & Hkeys).
  exists (k, EElem e'). split.
  - rewrite Hx. cbn [apply_delays_entry]. fold dl in He'. rewrite He'. reflexivity.
  - cbn [fst snd]. unfold get_sq in Hq. destruct (alookup Z.eqb k (sseq s)) as [q'|]; [|discriminate].
    injection Hq as ->. cbn [forge_entry]. rewrite mf_forge_elem_unfold, Hga'. cbn [bind].
    rewrite (mf_row_agree s chans arrs row); [reflexivity | | exact Hrow].
    intros c Hc'. rewrite Hkeys in Hc'. eapply Permutation_in; [exact Hperm | exact Hc'].
Qed.

(* ---------- _prepareForOutputting rejects subsequences ---------- *)
Lemma mf_check_positions s : seq_check s = Ok true -> positions_ok (akeys (sdata s)) = true.
Proof.
  unfold seq_check, check_consistency. intro H.
  destruct (spec_get s key_sr) as [v0|]; [|discriminate].
  apply mf_bind_ok in H as (SRs & HSR & H).
  destruct (negb (all_eq_first val_eqb SRs)); [discriminate|].
  apply mf_bind_ok in H as (chs & Hchs & H). cbv zeta in H.
  destruct (negb (forallb (list_eqb chan_eqb (last chs [])) chs)); [discriminate|].
  injection H as H. exact H.
Qed.

Lemma mf_range1_nodup n : NoDup (range1 n).
Proof.
  unfold range1. apply FinFun.Injective_map_NoDup; [|apply seq_NoDup].
  intros a b H. lia.
Qed.

Lemma mf_nodup_keys_fun {V} : forall (l : list (Z * V)) k v v',
  NoDup (akeys l) -> In (k, v) l -> In (k, v') l -> v = v'.
Proof.
  induction l as [|[k0 v0] t IH]; intros k v v' Hnd H1 H2; [contradiction|].
  cbn [akeys map fst] in Hnd. inversion Hnd as [|? ? Hni Hnd']; subst.
  assert (forall w, In (k0, w) t -> False) as Hno.
  { intros w Hw. apply Hni. apply in_map_iff. exists (k0, w). auto. }
  destruct H1 as [E1|H1], H2 as [E2|H2].
  - congruence.
  - injection E1 as -> ->. exfalso. eapply Hno. exact H2.
  - injection E2 as -> ->. exfalso. eapply Hno. exact H1.
  - eapply IH; eauto.
Qed.

Lemma prepare_only_elements : forall s chans out p x,
  prepare s = Ok (chans, out) -> In (p, x) (sdata s) -> exists e, x = EElem e.
Proof.
  intros s chans out p x Hp Hin.
  destruct (mf_prepare_inv s chans out Hp) as (Hc & _ & _ & _ & delays & _ & _ & HF).
  pose proof (mf_check_positions s Hc) as Hpos. apply positions_ok_spec in Hpos.
  destruct Hpos as [Hnil|Hgap].
  { apply akeys_nil in Hnil. rewrite Hnil in Hin. contradiction. }
  unfold gap_free in Hgap. unfold akeys in Hgap at 2. rewrite map_length in Hgap.
  assert (NoDup (akeys (sdata s))) as Hnd.
  { eapply Permutation_NoDup; [apply Permutation_sym; exact Hgap | apply mf_range1_nodup]. }
  assert (In p (range1 (length (sdata s)))) as Hpr.
  { eapply Permutation_in; [exact Hgap|]. apply in_map_iff. exists (p, x). auto. }
  destruct (o_Forall2_in_l _ _ _ _ HF Hpr) as (row & _ & (x' & ep & arrs & Hx' & Hpe & _)).
  destruct x' as [e|sb]; [|discriminate].
  exists e. apply mf_alookup_in_Z in Hx'. eapply mf_nodup_keys_fun; eauto.
Qed.

(* ---------- reading the forge result ---------- *)
Lemma mf_mirror_lookup : forall out sq off k row,
  length sq = length out -> nth_error out k = Some row ->
  exists q, nth_error sq k = Some q /\
    alookup key_eqb (PInt (Z.of_nat (off + k) + 1))
      (map mirror_pos (combine (combine (map (fun i => (Z.of_nat i + 1)%Z) (List.seq off (length out))) sq) out))
    = Some (PDict [(pstr "sequencing", pv_of_sqing q); (pstr "type", pstr "element");
                   (pstr "content", PDict [(PInt 1, PDict [(pstr "data", row_pv row)])])]).
Proof.
  induction out as [|r out IH]; intros sq off k row L Hk; [destruct k; discriminate|].
  destruct sq as [|q0 sq]; [discriminate|]. cbn [length] in L. injection L as L.
  cbn [length List.seq map combine mirror_pos alookup key_eqb].
  destruct k as [|k]; cbn [nth_error] in Hk |- *.
  - injection Hk as <-. exists q0. rewrite Nat.add_0_r, Z.eqb_refl. split; reflexivity.
  - destruct (IH sq (S off) k row L Hk) as (q & Hq & Hl). exists q. split; [exact Hq|].
    assert ((Z.of_nat (off + S k) + 1 =? Z.of_nat off + 1)%Z = false) as -> by (apply Z.eqb_neq; lia).
    replace (off + S k)%nat with (S off + k)%nat by lia. exact Hl.
Qed.

Lemma mirror_forge_data : forall sq out k row,
  length sq = length out -> nth_error out k = Some row ->
  forge_data (mirror_forge sq out) (Z.of_nat k + 1) = Some (row_pv row).
Proof.
  intros sq out k row L Hk. destruct (mf_mirror_lookup out sq 0 k row L Hk) as (q & _ & Hl).
  unfold forge_data, mirror_forge, pget at 1, range1. cbn [Nat.add] in Hl. rewrite Hl. reflexivity.
Qed.

Lemma mf_key_eqb_chan a b : key_eqb (pv_of_chan a) (pv_of_chan b) = chan_eqb a b.
Proof. destruct a, b; reflexivity. Qed.

Lemma mf_chan_eqb_sym a b : chan_eqb a b = chan_eqb b a.
Proof.
  destruct (chan_eqb a b) eqn:E1, (chan_eqb b a) eqn:E2; try reflexivity.
  - apply chan_eqb_eq in E1. subst b. rewrite mf_chan_eqb_refl in E2. discriminate.
  - apply chan_eqb_eq in E2. subst b. rewrite mf_chan_eqb_refl in E1. discriminate.
Qed.

Lemma row_pv_lookup : forall row c pc,
  prep_find row c = Ok pc -> pget (pv_of_chan c) (row_pv row) = Some (pv_of_chout (pout pc) (pplan pc)).
Proof.
  intros row c pc H. unfold prep_find in H. unfold row_pv, pget.
  induction row as [|p row IH]; [discriminate|].
  cbn [find map alookup prep_pv] in H |- *. unfold prep_pv at 1. rewrite mf_key_eqb_chan, mf_chan_eqb_sym.
  destruct (chan_eqb (pchan p) c); [injection H as <-; reflexivity | apply IH; exact H].
Qed.

Lemma chan_dict_wfm : forall o w w',
  chout_plan o = Ok w -> pget (pstr "wfm") (pv_of_chout o w') = Some (PPlan w').
Proof.
  intros [arrs tn|f fl wt SR] w w' H; cbn [pv_of_chout pget]; [|reflexivity].
  cbn [chout_plan] in H. apply mf_bind_ok in H as (r & Hr & _). unfold arr_wfm in Hr.
  destruct (alookup str_eqb (S_ "wfm") arrs) as [r'|] eqn:E; [|discriminate]. clear Hr.
  induction arrs as [|[n a] arrs IH]; [discriminate|].
  cbn [alookup] in E. cbn [map app alookup fst snd]. unfold pstr at 1. cbn [key_eqb].
  destruct (str_eqb (S_ "wfm") n) eqn:En.
  - apply str_eqb_eq in En. subst n. rewrite str_eqb_refl. reflexivity.
  - apply IH. exact E.
Qed.

Lemma chan_dict_marker : forall o w' (m : string) v,
  m = "m1"%string \/ m = "m2"%string ->
  chout_marker o (S_ m) = Ok v -> pget (pstr m) (pv_of_chout o w') = Some v.
Proof.
  intros [arrs tn|f fl wt SR] w' m v Hm H; cbn [pv_of_chout pget chout_marker] in *.
  - destruct (alookup str_eqb (S_ m) arrs) as [r|] eqn:E; [|discriminate]. injection H as <-.
    assert (str_eqb (S_ m) (S_ "wfm") = false) as Hw by (destruct Hm as [-> | ->]; reflexivity).
    induction arrs as [|[n a] arrs IH]; [discriminate|].
    cbn [alookup] in E. cbn [map app alookup fst snd]. unfold pstr at 1. cbn [key_eqb].
    destruct (str_eqb (S_ m) n) eqn:En.
    + apply str_eqb_eq in En. subst n. rewrite Hw. congruence.
    + apply IH. exact E.
  - injection H as <-. destruct Hm as [-> | ->]; reflexivity.
Qed.

(* the three arrays Sequence.forge reports for channel c at position k+1 *)
Lemma mirror_forge_lookup : forall sq out k row c pc w0 m1 m2,
  length sq = length out -> nth_error out k = Some row -> prep_find row c = Ok pc ->
  chout_plan (pout pc) = Ok w0 ->
  chout_marker (pout pc) (S_ "m1") = Ok m1 -> chout_marker (pout pc) (S_ "m2") = Ok m2 ->
  forge_lookup (mirror_forge sq out) (Z.of_nat k + 1) c "wfm" = Some (PPlan (pplan pc)) /\
  forge_lookup (mirror_forge sq out) (Z.of_nat k + 1) c "m1" = Some m1 /\
  forge_lookup (mirror_forge sq out) (Z.of_nat k + 1) c "m2" = Some m2.
Proof.
  intros sq out k row c pc w0 m1 m2 L Hk Hf Hw H1 H2. unfold forge_lookup.
  rewrite (mirror_forge_data sq out k row L Hk). cbn [obind]. rewrite (row_pv_lookup row c pc Hf). cbn [obind].
  split; [eapply chan_dict_wfm; exact Hw|].
  split; apply chan_dict_marker; auto.
Qed.

(* every prepared channel has a plan: it came out of prep_item *)
Lemma mf_prep_row_plans s chans delays k row :
  prep_row s chans delays k row -> forall pc, In pc row -> exists w0, chout_plan (pout pc) = Ok w0.
Proof.
  intros (x & ep & arrs & _ & _ & _ & Hrow) pc Hin. apply o_mapM_inv in Hrow.
  destruct (o_Forall2_in_r _ _ _ _ Hrow Hin) as (a & _ & Ha). unfold prep_item in Ha.
  apply mf_bind_ok in Ha as (w & Hw & Ha). apply mf_bind_ok in Ha as (flt & _ & Ha).
  apply mf_bind_ok in Ha as (w' & _ & Ha). injection Ha as <-. exists w. exact Hw.
Qed.

Lemma mf_prep_find_in row c pc : prep_find row c = Ok pc -> In pc row /\ pchan pc = c.
Proof.
  unfold prep_find. destruct (find (fun p => chan_eqb (pchan p) c) row) as [p|] eqn:E; [|discriminate].
  intro H. injection H as <-. apply find_some in E as (Hin & Hc). split; [exact Hin | apply chan_eqb_eq; exact Hc].
Qed.

(* ---------- rows per position -> lists per channel ---------- *)
Lemma mf_column_nth {A} i : forall (rows : list (list A)) k,
  (forall r, In r rows -> (i < length r)%nat) ->
  nth_error (column i rows) k = match nth_error rows k with Some r => nth_error r i | None => None end.
Proof.
  induction rows as [|r rows IH]; intros k Hlen.
  - destruct k; reflexivity.
  - cbn [column]. destruct (nth_error r i) as [a|] eqn:Ea.
    2:{ apply nth_error_None in Ea. specialize (Hlen r (or_introl eq_refl)). lia. }
    destruct k as [|k]; cbn [nth_error]; [symmetry; exact Ea|].
    apply IH. intros r' Hr'. apply Hlen. right. exact Hr'.
Qed.

Lemma mf_transpose_nth {A} nc (rows : list (list A)) i :
  (i < nc)%nat -> nth_error (transpose nc rows) i = Some (column i rows).
Proof.
  intro H. unfold transpose. rewrite nth_error_map.
  rewrite (nth_error_nth' _ 0%nat) by (rewrite seq_length; exact H). rewrite seq_nth by exact H. reflexivity.
Qed.

Lemma transpose_entry {A B} (g : A -> B) nc (rows : list (list A)) i k row a :
  (forall r, In r rows -> length r = nc) -> nth_error rows k = Some row -> nth_error row i = Some a ->
  exists col, nth_error (transpose nc (map (map g) rows)) i = Some col /\ nth_error col k = Some (g a).
Proof.
  intros Hlen Hk Hi.
  assert (i < nc)%nat as Hinc.
  { rewrite <- (Hlen row (nth_error_In _ _ Hk)). apply nth_error_Some. rewrite Hi. discriminate. }
  exists (column i (map (map g) rows)). split; [apply mf_transpose_nth; exact Hinc|].
  rewrite mf_column_nth.
  - rewrite nth_error_map, Hk. cbn [option_map]. rewrite nth_error_map, Hi. reflexivity.
  - intros r Hr. apply in_map_iff in Hr as (r0 & <- & Hr0). rewrite map_length, (Hlen r0 Hr0). exact Hinc.
Qed.

(* ---------- the casting loop, row by row ---------- *)
Definition cast_item (wf : chan -> prepch -> pv) (l : list prepch) (c : chan) : result (pv * pv * pv) :=
  do p <- prep_find l c;
  do a <- chout_marker (pout p) (S_ "m1");
  do b <- chout_marker (pout p) (S_ "m2");
  Ok (wf c p, a, b).

Lemma mf_Forall2_map_r {A B C} (R : A -> C -> Prop) (f : B -> C) : forall l l',
  Forall2 (fun a b => R a (f b)) l l' -> Forall2 R l (map f l').
Proof. induction 1; cbn [map]; constructor; assumption. Qed.

Lemma mf_cast_rows s chans okf wf els rows sq :
  cast_positions s chans okf wf els = Ok (rows, sq) ->
  Forall2 (fun l row => mapM (cast_item wf l) chans = Ok row) els rows.
Proof.
  unfold cast_positions. intro H. apply mf_bind_ok in H as (per & Hper & H). injection H as <- _.
  apply o_mapM_inv in Hper. apply mf_Forall2_combine_r in Hper; [|apply o_range1_length].
  apply mf_Forall2_map_r. eapply mf_Forall2_impl; [|exact Hper].
  intros l y (k & Hy). cbn [fst snd] in Hy.
  apply mf_bind_ok in Hy as (row & Hrow & Hy). apply mf_bind_ok in Hy as (q & _ & Hy).
  destruct (okf q); [|discriminate]. injection Hy as <-. exact Hrow.
Qed.

Lemma mf_cast_entry wf l chans row i c :
  mapM (cast_item wf l) chans = Ok row -> nth_error chans i = Some c ->
  length row = length chans /\
  exists pc m1 m2, prep_find l c = Ok pc /\ chout_marker (pout pc) (S_ "m1") = Ok m1 /\
                   chout_marker (pout pc) (S_ "m2") = Ok m2 /\ nth_error row i = Some (wf c pc, m1, m2).
Proof.
  intros H Hi. destruct (mapM_nth _ _ _ H) as (L & N). split; [exact L|].
  destruct (N i c Hi) as (y & Hy & Hc). unfold cast_item in Hc.
  apply mf_bind_ok in Hc as (pc & Hpc & Hc). apply mf_bind_ok in Hc as (m1 & Hm1 & Hc).
  apply mf_bind_ok in Hc as (m2 & Hm2 & Hc). injection Hc as <-.
  exists pc, m1, m2. auto.
Qed.

Lemma mf_seq_channels s : seq_check s = Ok true -> seq_channels s = first_channels s.
Proof. intro H. unfold seq_channels, first_channels. rewrite H. reflexivity. Qed.

(* ---------- outputForAWGFile ---------- *)
Definition awg_item (s : seq) (l : list prepch) (ch : chan) : result (chan * (prepch * Q * Q)) :=
  do p <- prep_find l ch;
  do ampl <- spec_num s (key_amp ch) EKey;
  do off <- spec_num s (key_off ch) EKey;
  Ok (ch, (p, ampl, off)).

Lemma mf_scale_lookup s l : forall chans r0,
  mapM (awg_item s l) chans = Ok r0 ->
  forall c, In c chans -> exists ampl off,
    spec_num s (key_amp c) EKey = Ok ampl /\ spec_num s (key_off c) EKey = Ok off /\
    alookup chan_eqb c (map (fun x : chan * (prepch * Q * Q) => let '(c, (_, ampl, off)) := x in (c, (ampl, off))) r0)
    = Some (ampl, off).
Proof.
  induction chans as [|c0 chans IH]; intros r0 H c Hin; [contradiction|].
  apply mf_mapM_cons in H as (y & r & Hy & Hr & ->). unfold awg_item in Hy.
  apply mf_bind_ok in Hy as (p & _ & Hy). apply mf_bind_ok in Hy as (ampl & Ha & Hy).
  apply mf_bind_ok in Hy as (off & Ho & Hy). injection Hy as <-.
  cbn [map alookup]. destruct (chan_eqb c c0) eqn:E.
  - apply chan_eqb_eq in E. subst c0. exists ampl, off. auto.
  - destruct Hin as [->|Hin]; [rewrite mf_chan_eqb_refl in E; discriminate|]. apply IH; assumption.
Qed.

Theorem awg_package_content : forall s ranges p chans out,
  output_awg s = Ok (ranges, Ok p) -> prepare s = Ok (chans, out) ->
  a_channels p = chans /\
  forall i k c row, nth_error chans i = Some c -> nth_error out k = Some row ->
    exists pc ampl off m1 m2 cw c1 c2,
      prep_find row c = Ok pc /\
      spec_num s (key_amp c) EKey = Ok ampl /\ spec_num s (key_off c) EKey = Ok off /\
      chout_marker (pout pc) (S_ "m1") = Ok m1 /\ chout_marker (pout pc) (S_ "m2") = Ok m2 /\
      nth_error (a_wfms p) i = Some cw /\ nth_error cw k = Some (PPlan (WScale ampl off (pplan pc))) /\
      nth_error (a_m1s p) i = Some c1 /\ nth_error c1 k = Some m1 /\
      nth_error (a_m2s p) i = Some c2 /\ nth_error c2 k = Some m2.
Proof.
  intros s ranges p chans out H Hp.
  destruct (mf_prepare_inv s chans out Hp) as (Hc & Hfc & _).
  unfold output_awg in H. rewrite Hp in H. cbn [bind] in H. cbv beta iota zeta in H.
  apply mf_bind_ok in H as (u & _ & H).
  apply mf_bind_ok in H as (per & Hper & H). injection H as _ Hres.
  apply mf_bind_ok in Hres as ([rows sq] & Hcast & Hres). cbv beta iota zeta in Hres.
  apply mf_bind_ok in Hres as (chs & Hchs & Hres). injection Hres as <-. cbn [a_channels a_wfms a_m1s a_m2s].
  rewrite (mf_seq_channels s Hc), Hfc in Hchs. injection Hchs as <-.
  split; [reflexivity|].
  intros i k c row Hi Hk.
  pose proof (mf_cast_rows _ _ _ _ _ _ _ Hcast) as HR.
  destruct (mf_Forall2_nth _ _ _ HR k row Hk) as (crow & Hcrow & Hm).
  destruct (mf_cast_entry _ _ _ _ i c Hm Hi) as (_ & pc & m1 & m2 & Hpc & Hm1 & Hm2 & Hent).
  assert (forall r, In r rows -> length r = length chans) as Hlen.
  { intros r Hr. destruct (In_nth_error _ _ Hr) as (j & Hj).
    destruct (mf_Forall2_nth_r _ _ _ HR j r Hj) as (l & _ & Hl). eapply o_mapM_length. exact Hl. }
  (* the scaling of channel c, read from the first position *)
  assert (exists ampl off, spec_num s (key_amp c) EKey = Ok ampl /\ spec_num s (key_off c) EKey = Ok off /\
            (match alookup chan_eqb c (hd [] (map (fun l : list (chan * (prepch * Q * Q)) =>
                   map (fun x : chan * (prepch * Q * Q) => let '(c, (_, ampl, off)) := x in (c, (ampl, off))) l) per))
             with Some (ampl, off) => PPlan (WScale ampl off (pplan pc)) | None => PNone end)
            = PPlan (WScale ampl off (pplan pc))) as (ampl & off & Ha & Ho & Hwf).
  { destruct out as [|l0 out']; [destruct k; discriminate|].
    apply mf_mapM_cons in Hper as (r0 & rest & Hr0 & _ & ->). cbn [map hd].
    destruct (mf_scale_lookup s l0 chans r0 Hr0 c (nth_error_In _ _ Hi)) as (ampl & off & Ha & Ho & Hl).
    exists ampl, off. rewrite Hl. auto. }
  rewrite Hwf in Hent.
  destruct (transpose_entry (fun x : pv * pv * pv => fst (fst x)) _ rows i k crow _ Hlen Hcrow Hent) as (cw & Hcw & Hcwk).
  destruct (transpose_entry (fun x : pv * pv * pv => snd (fst x)) _ rows i k crow _ Hlen Hcrow Hent) as (c1 & Hc1 & Hc1k).
  destruct (transpose_entry (fun x : pv * pv * pv => snd x) _ rows i k crow _ Hlen Hcrow Hent) as (c2 & Hc2 & Hc2k).
  exists pc, ampl, off, m1, m2, cw, c1, c2. cbn [fst snd] in Hcwk, Hc1k, Hc2k. repeat split; assumption.
Qed.

(* ---------- outputForSEQXFile ---------- *)
Theorem seqx_package_content : forall s fl ranges l chans out,
  output_seqx s fl = guarded ranges (PTuple l) -> prepare s = Ok (chans, out) ->
  (exists wfl, nth_error l 5 = Some (PList (map PList wfl)) /\
     forall i k c row, nth_error chans i = Some c -> nth_error out k = Some row ->
       exists pc m1 m2 col,
         prep_find row c = Ok pc /\
         chout_marker (pout pc) (S_ "m1") = Ok m1 /\ chout_marker (pout pc) (S_ "m2") = Ok m2 /\
         nth_error wfl i = Some col /\ nth_error col k = Some (PList [PPlan (pplan pc); m1; m2])) /\
  (fl = true ->
   exists fll, nth_error l 8 = Some (PList (map PList fll)) /\
     forall i k c row, nth_error chans i = Some c -> nth_error out k = Some row ->
       exists pc col, prep_find row c = Ok pc /\ nth_error fll i = Some col /\
                      nth_error col k = Some (chout_flags (pout pc))).
Proof.
  intros s fl ranges l chans out H Hp. unfold output_seqx in H. rewrite Hp in H. cbv zeta in H.
  o_head H Hfl; [|exfalso; eapply o_guarded_not_err; exact H]. rename a into flv.
  o_head H Ha; [|exfalso; eapply o_guarded_not_err; exact H]. rename a into ampls.
  o_head H Hper; [|exfalso; eapply o_guarded_not_err; exact H]. rename a into per.
  o_head H Hshort; [exfalso; eapply o_guarded_not_err; exact H|].
  apply o_guarded_inj in H as (_ & Hi).
  destruct (cast_positions s chans (seqx_seq_ok (Z.of_nat (length out))) (fun _ p => PPlan (pplan p)) out)
    as [[rows sq]|e] eqn:Hc; cbn [bind pv_of_result] in Hi; [|discriminate].
  injection Hi as <-.
  pose proof (mf_cast_rows _ _ _ _ _ _ _ Hc) as HR.
  assert (forall r, In r rows -> length r = length chans) as Hlen.
  { intros r Hr. destruct (In_nth_error _ _ Hr) as (j & Hj).
    destruct (mf_Forall2_nth_r _ _ _ HR j r Hj) as (l0 & _ & Hl). eapply o_mapM_length. exact Hl. }
  split.
  - eexists. split; [reflexivity|]. intros i k c row Hi Hk.
    destruct (mf_Forall2_nth _ _ _ HR k row Hk) as (crow & Hcrow & Hm).
    destruct (mf_cast_entry _ _ _ _ i c Hm Hi) as (_ & pc & m1 & m2 & Hpc & Hm1 & Hm2 & Hent).
    destruct (transpose_entry (fun x : pv * pv * pv => PList [fst (fst x); snd (fst x); snd x]) _ rows i k crow _
                Hlen Hcrow Hent) as (col & Hcol & Hcolk).
    exists pc, m1, m2, col. cbn [fst snd] in Hcolk. repeat split; assumption.
  - intros ->. exists flv. split; [reflexivity|]. intros i k c row Hi Hk.
    apply o_mapM_inv in Hfl.
    destruct (mf_Forall2_nth _ _ _ Hfl i c Hi) as (col & Hcol & Hm). apply o_mapM_inv in Hm.
    destruct (mf_Forall2_nth _ _ _ Hm k row Hk) as (y & Hy & Hv).
    apply mf_bind_ok in Hv as (pc & Hpc & Hv). injection Hv as <-.
    exists pc, col. repeat split; assumption.
Qed.

(* ---------- both back ends deliver what Sequence.forge reports ---------- *)
Lemma prepare_length : forall s chans out, prepare s = Ok (chans, out) -> length out = length (sdata s).
Proof.
  intros s chans out Hp. destruct (mf_prepare_inv s chans out Hp) as (_ & _ & _ & _ & delays & _ & _ & HF).
  rewrite <- (mf_Forall2_length _ _ _ HF). apply o_range1_length.
Qed.

Lemma mf_prepared_plan s chans out k row c pc :
  prepare s = Ok (chans, out) -> nth_error out k = Some row -> prep_find row c = Ok pc ->
  exists w0, chout_plan (pout pc) = Ok w0.
Proof.
  intros Hp Hk Hf. destruct (mf_prepare_inv s chans out Hp) as (_ & _ & _ & _ & delays & _ & _ & HF).
  destruct (mf_Forall2_nth_r _ _ _ HF k row Hk) as (pos & _ & Hrow).
  eapply mf_prep_row_plans; [exact Hrow|]. apply (mf_prep_find_in row c pc Hf).
Qed.

Theorem awg_mirrors_forge : forall s ranges p chans out,
  elems_nodup s -> delays_nonneg s ->
  output_awg s = Ok (ranges, Ok p) -> prepare s = Ok (chans, out) ->
  exists fo, seq_forge s true true false = Ok fo /\ a_channels p = chans /\
    forall i k c, nth_error chans i = Some c -> (k < length out)%nat ->
      exists w m1 m2 ampl off cw c1 c2,
        forge_lookup fo (Z.of_nat k + 1) c "wfm" = Some (PPlan w) /\
        forge_lookup fo (Z.of_nat k + 1) c "m1" = Some m1 /\
        forge_lookup fo (Z.of_nat k + 1) c "m2" = Some m2 /\
        spec_num s (key_amp c) EKey = Ok ampl /\ spec_num s (key_off c) EKey = Ok off /\
        nth_error (a_wfms p) i = Some cw /\ nth_error cw k = Some (PPlan (WScale ampl off w)) /\
        nth_error (a_m1s p) i = Some c1 /\ nth_error c1 k = Some m1 /\
        nth_error (a_m2s p) i = Some c2 /\ nth_error c2 k = Some m2.
Proof.
  intros s ranges p chans out Hnd Hnn Ho Hp.
  destruct (prepare_mirrors_forge s chans out Hnd Hnn Hp) as (sq & Hsq & Hfo).
  destruct (awg_package_content s ranges p chans out Ho Hp) as (Hch & Hcontent).
  assert (length sq = length out) as L by (rewrite (o_mapM_length _ _ _ Hsq); apply o_range1_length).
  exists (mirror_forge sq out). split; [exact Hfo|]. split; [exact Hch|].
  intros i k c Hi Hk. destruct (nth_error out k) as [row|] eqn:Er; [|apply nth_error_None in Er; lia].
  destruct (Hcontent i k c row Hi Er) as (pc & ampl & off & m1 & m2 & cw & c1 & c2 & Hpc & Ha & Hoff & Hm1 & Hm2 & R).
  destruct (mf_prepared_plan s chans out k row c pc Hp Er Hpc) as (w0 & Hw0).
  destruct (mirror_forge_lookup sq out k row c pc w0 m1 m2 L Er Hpc Hw0 Hm1 Hm2) as (F1 & F2 & F3).
  exists (pplan pc), m1, m2, ampl, off, cw, c1, c2. repeat split; try assumption; apply R.
Qed.

Theorem seqx_mirrors_forge : forall s fl ranges l chans out,
  elems_nodup s -> delays_nonneg s ->
  output_seqx s fl = guarded ranges (PTuple l) -> prepare s = Ok (chans, out) ->
  exists fo wfl, seq_forge s true true false = Ok fo /\ nth_error l 5 = Some (PList (map PList wfl)) /\
    forall i k c, nth_error chans i = Some c -> (k < length out)%nat ->
      exists w m1 m2 col,
        forge_lookup fo (Z.of_nat k + 1) c "wfm" = Some (PPlan w) /\
        forge_lookup fo (Z.of_nat k + 1) c "m1" = Some m1 /\
        forge_lookup fo (Z.of_nat k + 1) c "m2" = Some m2 /\
        nth_error wfl i = Some col /\ nth_error col k = Some (PList [PPlan w; m1; m2]).
Proof.
  intros s fl ranges l chans out Hnd Hnn Ho Hp.
  destruct (prepare_mirrors_forge s chans out Hnd Hnn Hp) as (sq & Hsq & Hfo).
  destruct (seqx_package_content s fl ranges l chans out Ho Hp) as ((wfl & Hwfl & Hcontent) & _).
  assert (length sq = length out) as L by (rewrite (o_mapM_length _ _ _ Hsq); apply o_range1_length).
  exists (mirror_forge sq out), wfl. split; [exact Hfo|]. split; [exact Hwfl|].
  intros i k c Hi Hk. destruct (nth_error out k) as [row|] eqn:Er; [|apply nth_error_None in Er; lia].
  destruct (Hcontent i k c row Hi Er) as (pc & m1 & m2 & col & Hpc & Hm1 & Hm2 & Hcol & Hcolk).
  destruct (mf_prepared_plan s chans out k row c pc Hp Er Hpc) as (w0 & Hw0).
  destruct (mirror_forge_lookup sq out k row c pc w0 m1 m2 L Er Hpc Hw0 Hm1 Hm2) as (F1 & F2 & F3).
  exists (pplan pc), m1, m2, col. repeat split; assumption.
Qed.

(* per position: the "data" dictionary of position k+1 is the prepared row *)
Theorem prepare_mirrors_forge_data : forall s chans out,
  elems_nodup s -> delays_nonneg s ->
  prepare s = Ok (chans, out) ->
  exists fo, seq_forge s true true false = Ok fo /\
    forall k row, nth_error out k = Some row ->
      forge_data fo (Z.of_nat k + 1) = Some (row_pv row) /\ Permutation (map pchan row) chans.
Proof.
  intros s chans out Hnd Hnn Hp.
  destruct (prepare_mirrors_forge s chans out Hnd Hnn Hp) as (sq & Hsq & Hfo).
  assert (length sq = length out) as L by (rewrite (o_mapM_length _ _ _ Hsq); apply o_range1_length).
  exists (mirror_forge sq out). split; [exact Hfo|]. intros k row Hk.
  split; [apply mirror_forge_data; assumption|].
  (* the channels of the row are those of the element at that position *)
  destruct (mf_prepare_inv s chans out Hp) as (Hc & Hfc & _ & _ & delays & Hdel & Hne & HF).
  destruct (mf_check_facts s Hc) as (_ & Hchs).
  destruct (mf_Forall2_nth_r _ _ _ HF k row Hk) as (pos & _ & (x & ep & arrs & Hx & Hpe & Hga & Hrow)).
  destruct x as [e|sb]; [|discriminate].
  unfold first_channels in Hfc. destruct (alookup Z.eqb 1%Z (sdata s)) as [x1|] eqn:E1; [|discriminate].
  destruct (Hchs _ _ (mf_alookup_in_vals _ _ _ _ Hx) (mf_alookup_in_vals _ _ _ _ E1)) as (cx & cy & Hcx & Hcy & Hperm).
  cbn [entry_channels] in Hcx. injection Hcx as <-. rewrite Hfc in Hcy. injection Hcy as <-.
  assert (map pchan row = map fst arrs) as ->.
  { eapply mapM_map_fst; [|exact Hrow]. intros a y Hy. unfold prep_item in Hy.
    apply mf_bind_ok in Hy as (w & _ & Hy). apply mf_bind_ok in Hy as (flt & _ & Hy).
    apply mf_bind_ok in Hy as (w' & _ & Hy). injection Hy as <-. reflexivity. }
  assert (map fst arrs = el_channels e) as ->.
  { cbn [prepare_elem] in Hpe. apply mf_bind_ok in Hpe as (ups & Hups & Hpe). injection Hpe as <-.
    rewrite mf_get_arrays_unfold in Hga. cbn [edata] in Hga.
    rewrite (mapM_map_fst _ fst fst (fun x y H => mf_chan_get_fst x y H) _ _ Hga).
    (* replace_chans keeps the keys *)
    clear Hga. assert (forall upd d, (forall c, In c (map fst upd) -> In c (map (@fst chan chentry) d)) ->
                        map fst (replace_chans d upd) = map fst d) as Hkeep.
    { induction upd as [|[c x] t IH]; intros d Hsub; [reflexivity|]. cbn [replace_chans].
      assert (map fst (aset chan_eqb c x d) = map fst d) as Ea.
      { assert (In c (map fst d)) as Hc0 by (apply Hsub; left; reflexivity). clear Hsub IH.
        induction d as [|[c' v'] d IHd]; [contradiction|]. cbn [aset]. destruct (chan_eqb c c') eqn:E.
        - apply chan_eqb_eq in E. subst c'. reflexivity.
        - cbn [map fst] in Hc0 |- *. f_equal. apply IHd. destruct Hc0 as [Hc0|Hc0]; [|exact Hc0].
          subst c'. rewrite mf_chan_eqb_refl in E. discriminate. }
      rewrite IH; [exact Ea|]. intros c' Hc'. rewrite Ea. apply Hsub. right. exact Hc'. }
    apply Hkeep. intros c Hc'.
    rewrite (mapM_map_fst _ fst fst (mf_prepare_chan_fst s e (qmax delays)) _ _ Hups) in Hc'.
    rewrite map_fst_combine in Hc' by (eapply o_mapM_length; exact Hdel).
    eapply Permutation_in; [apply Permutation_sym; exact Hperm | exact Hc']. }
  exact Hperm.
Qed.

(* ================= a worked example and the counterexamples behind the hypotheses ================= *)
Local Open Scope Z_scope.

Definition seq_of_prog0 (p : list op) : seq :=
  match getS (final_store store0 p) 0%nat with Ok s => s | Err _ => seq_empty end.

(* two blueprints (ramp + sine with a segment-bound and an absolute marker; ramp + gaussian), two elements over
   the integer channels 1 and 2 - inserted as 1, 2 in the first element and as 2, 1 in the second -, flags on one
   channel; SR, amplitudes, offsets, a delay of 3 samples on channel 2, a filter compensation on channel 1 *)
Definition mir_prog : list op :=
  [ BNew 0;
    BInsert 0 0 Framp [VNum 0; VNum 1] (VNum (1 # 10)) (Some (S_ "up"));
    BInsert 0 1 Fsine [VNum 10; VNum 1; VNum 0; VNum 0] (VNum (2 # 10)) (Some (S_ "osc"));
    BSetSegMarker 0 (S_ "osc") (1 # 100, 2 # 100)%Q 1;
    BSetMarker 0 2 [(0, 5 # 100)%Q];
    BSetSR 0 (VNum 100);
    BNew 1;
    BInsert 1 0 Framp [VNum 0; VNum 0] (VNum (1 # 10)) (Some (S_ "lo"));
    BInsert 1 1 Fgauss [VNum 1; VNum (1 # 100); VNum 0; VNum 0] (VNum (2 # 10)) (Some (S_ "bump"));
    BSetSR 1 (VNum 100);
    ENew 0; EAddBp 0 (CInt 1) 0; EAddBp 0 (CInt 2) 1;
    EAddFlags 0 (CInt 1) [VNum 0; VNum 1; VStr (S_ "L"); VNum 3];
    ENew 1; EAddBp 1 (CInt 2) 0; EAddBp 1 (CInt 1) 1;
    SNew 0; SSetSR 0 (VNum 100);
    SSetAmp 0 (CInt 1) (VNum 1); SSetOff 0 (CInt 1) (VNum 0);
    SSetAmp 0 (CInt 2) (VNum (1 # 2)); SSetOff 0 (CInt 2) (VNum (1 # 10));
    SSetDelay 0 (CInt 2) (VNum (3 # 100));
    SSetFilter 0 (CInt 1) (S_ "HP") (Some 1) (VNum 1000) VNone;
    SAddElement 0 1 0; SAddElement 0 2 1;
    SSetSequencing 0 2 FNrep 5; SSetSequencing 0 2 FGoto 1;
    SSetName 0 (S_ "demo") ].
Definition mir_seq : seq := seq_of_prog0 mir_prog.

Lemma mir_seq_nodup : elems_nodup mir_seq.
Proof.
  intros p e Hin. vm_compute in Hin. destruct Hin as [E|[E|[]]]; injection E as <- <-; vm_compute;
    (constructor; [intros [H|[]]; discriminate | constructor; [intros [] | constructor]]).
Qed.

Lemma mir_seq_nonneg : delays_nonneg mir_seq.
Proof.
  intros c q H. unfold spec_get in H. apply mf_alookup_in_vals in H. vm_compute in H.
  repeat (destruct H as [H|H]; [try discriminate H; injection H as <-; apply Qle_bool_iff; reflexivity|]).
  contradiction.
Qed.

(* negative delay: outputForAWGFile goes through (and delivers channels of different length), forge raises *)
Definition neg_prog : list op :=
  [ BNew 0; BInsert 0 0 Framp [VNum 0; VNum 1] (VNum (1 # 10)) None; BSetSR 0 (VNum 100);
    ENew 0; EAddBp 0 (CInt 1) 0; EAddBp 0 (CInt 2) 0;
    SNew 0; SSetSR 0 (VNum 100); SSetAmp 0 (CInt 1) (VNum 1); SSetAmp 0 (CInt 2) (VNum 1);
    SSetOff 0 (CInt 1) (VNum 0); SSetOff 0 (CInt 2) (VNum 0);
    SSetDelay 0 (CInt 2) (VNum (-3 # 100));
    SAddElement 0 1 0 ].
Definition neg_seq : seq := seq_of_prog0 neg_prog.

(* raw arrays recorded at 50 Sa/s in a sequence whose own SR setting is 100: both paths pad at the rate stored
   with the arrays, so the delay of 0.03 s becomes round(0.03 * 50) = 2 zeros in either *)
Definition arr_prog : list op :=
  [ ENew 0;
    EAddArray 0 (CInt 1) [((1 # 1)%Q, 10)] (VNum 50) [(S_ "m1", [((0 # 1)%Q, 10)]); (S_ "m2", [((0 # 1)%Q, 10)])];
    EAddArray 0 (CInt 2) [((2 # 1)%Q, 10)] (VNum 50) [(S_ "m1", [((0 # 1)%Q, 10)]); (S_ "m2", [((0 # 1)%Q, 10)])];
    SNew 0; SSetSR 0 (VNum 100); SSetAmp 0 (CInt 1) (VNum 1); SSetAmp 0 (CInt 2) (VNum 1);
    SSetDelay 0 (CInt 2) (VNum (3 # 100));
    SAddElement 0 1 0 ].
Definition arr_seq : seq := seq_of_prog0 arr_prog.

(* an element whose channel list holds the id 1 twice (no Python dict can; the model's list type can) *)
Definition dup_bp : bp :=
  mkBp [S_ "ramp"] [Framp] [[VNum 0; VNum 1]] [VNum (1 # 10)] [(0, 0)%Q] [(0, 0)%Q] [] [] (VNum 100).
Definition dup_seq : seq :=
  mkSeq [(1, EElem (mkEl [(CInt 1, mkCh (KBp dup_bp) None); (CInt 1, mkCh (KBp dup_bp) None)]))]
        [(1, sq_default)]
        [(key_sr, SVal (VNum 100)); (key_amp (CInt 1), SVal (VNum 1)); (key_delay (CInt 1), SVal (VNum (3 # 100)))] [].

Definition is_ok {A} (r : result A) : bool := match r with Ok _ => true | Err _ => false end.

Lemma mirror_example :
  run mir_prog = map (fun _ => PNone) mir_prog /\
  elems_nodup mir_seq /\ delays_nonneg mir_seq /\
  exists out sq,
    prepare mir_seq = Ok ([CInt 1; CInt 2], out) /\
    map (map pchan) out = [[CInt 1; CInt 2]; [CInt 2; CInt 1]] /\
    mapM (get_sq mir_seq) (range1 2) = Ok sq /\
    seq_forge mir_seq true true false = Ok (mirror_forge sq out) /\
    (* the delay is there: three samples of waiting in front of channel 2, three of padding behind channel 1 *)
    map (fun row => map (fun p => match pout p with OForged f _ _ _ => map bn (fblocks f) | _ => [] end) row) out
      = [[[10; 20; 3]; [3; 10; 20]]; [[3; 10; 20]; [10; 20; 3]]] /\
    (* the filter compensation wraps channel 1 and only channel 1 *)
    map (fun row => map (fun p => match pplan p with WFilt _ _ _ _ _ => true | _ => false end) row) out
      = [[true; false]; [false; true]] /\
    (* outputForAWGFile delivers a package *)
    (exists ranges p, output_awg mir_seq = Ok (ranges, Ok p) /\ a_channels p = [CInt 1; CInt 2] /\
                      map (@length pv) (a_wfms p) = [2; 2]%nat).
Proof.
  split; [vm_compute; reflexivity|].
  split; [exact mir_seq_nodup|]. split; [exact mir_seq_nonneg|].
  destruct (prepare mir_seq) as [[chans out]|e] eqn:Ep; [|vm_compute in Ep; discriminate].
  destruct (mapM (get_sq mir_seq) (range1 2)) as [sq|e] eqn:Es; [|vm_compute in Es; discriminate].
  vm_compute in Ep. injection Ep as <- <-. vm_compute in Es. injection Es as <-.
  eexists. eexists. split; [reflexivity|].
  split; [vm_compute; reflexivity|]. split; [reflexivity|].
  split; [vm_compute; reflexivity|]. split; [vm_compute; reflexivity|]. split; [vm_compute; reflexivity|].
  destruct (output_awg mir_seq) as [[ranges [p|e]]|e] eqn:Eo; try (vm_compute in Eo; discriminate).
  exists ranges, p. split; [reflexivity|]. vm_compute in Eo. injection Eo as <- <-. split; vm_compute; reflexivity.
Qed.

Lemma negative_delay_discrepancy :
  run neg_prog = map (fun _ => PNone) neg_prog /\
  elems_nodup neg_seq /\ ~ delays_nonneg neg_seq /\
  is_ok (prepare neg_seq) = true /\
  (exists ranges p, output_awg neg_seq = Ok (ranges, Ok p) /\
     a_wfms p = [[PPlan (WScale 1 0 (WBlocks [mkBlock Framp [VNum 0; VNum 1] 100 10]))];
                 [PPlan (WScale 1 0 (WBlocks [mkBlock Framp [VNum 0; VNum 1] 100 10;
                                              mkBlock Framp [VNum 0; VNum 0] 100 3]))]]) /\
  seq_forge neg_seq true true false = Err EValue.
Proof.
  split; [vm_compute; reflexivity|]. split; [|split; [|split; [|split]]].
  - intros p e Hin. vm_compute in Hin. destruct Hin as [E|[]]; injection E as <- <-; vm_compute;
      (constructor; [intros [H|[]]; discriminate | constructor; [intros [] | constructor]]).
  - intro H. specialize (H (CInt 2) (-3 # 100)%Q ltac:(vm_compute; reflexivity)).
    apply Qle_bool_iff in H. vm_compute in H. discriminate.
  - vm_compute. reflexivity.
  - destruct (output_awg neg_seq) as [[ranges [p|e]]|e] eqn:Eo; try (vm_compute in Eo; discriminate).
    exists ranges, p. split; [reflexivity|]. vm_compute in Eo. injection Eo as <- <-. vm_compute. reflexivity.
  - vm_compute. reflexivity.
Qed.

(* pre zeros, n samples of value v, post zeros *)
Definition padded (pre : Z) (v : Q) (n : Z) (post : Z) : rle := [(0%Q, pre); (v, n); (0%Q, post)].

Lemma array_rate_agreement :
  run arr_prog = map (fun _ => PNone) arr_prog /\
  elems_nodup arr_seq /\ delays_nonneg arr_seq /\
  seq_SR arr_seq = VNum 100 /\
  (exists e, alookup Z.eqb 1 (sdata arr_seq) = Some (EElem e) /\ el_sr e = Ok (VNum 50)) /\
  exists out sq,
    prepare arr_seq = Ok ([CInt 1; CInt 2], out) /\ mapM (get_sq arr_seq) (range1 1) = Ok sq /\
    seq_forge arr_seq true true false = Ok (mirror_forge sq out) /\
    map (map pplan) out = [[WRle (padded 0 1 10 2); WRle (padded 2 2 10 0)]] /\
    forge_lookup (mirror_forge sq out) 1 (CInt 1) "wfm" = Some (PPlan (WRle (padded 0 1 10 2))) /\
    forge_lookup (mirror_forge sq out) 1 (CInt 2) "wfm" = Some (PPlan (WRle (padded 2 2 10 0))).
Proof.
  split; [vm_compute; reflexivity|]. split; [|split; [|split; [|split]]].
  - intros p e Hin. vm_compute in Hin. destruct Hin as [E|[]]; injection E as <- <-; vm_compute;
      (constructor; [intros [H|[]]; discriminate | constructor; [intros [] | constructor]]).
  - intros c q H. unfold spec_get in H. apply mf_alookup_in_vals in H. vm_compute in H.
    repeat (destruct H as [H|H]; [try discriminate H; injection H as <-; apply Qle_bool_iff; reflexivity|]).
    contradiction.
  - vm_compute. reflexivity.
  - destruct (alookup Z.eqb 1 (sdata arr_seq)) as [[e|sb]|] eqn:E1; try (vm_compute in E1; discriminate).
    exists e. split; [reflexivity|]. vm_compute in E1. injection E1 as <-. vm_compute. reflexivity.
  - destruct (prepare arr_seq) as [[chans out]|e] eqn:Ep; [|vm_compute in Ep; discriminate].
    destruct (mapM (get_sq arr_seq) (range1 1)) as [sq|e] eqn:Es; [|vm_compute in Es; discriminate].
    vm_compute in Ep. injection Ep as <- <-. vm_compute in Es. injection Es as <-.
    eexists. eexists. split; [reflexivity|]. split; [reflexivity|].
    repeat split; vm_compute; reflexivity.
Qed.

Lemma duplicate_channel_discrepancy :
  delays_nonneg dup_seq /\ ~ elems_nodup dup_seq /\
  exists out sq fo,
    prepare dup_seq = Ok ([CInt 1; CInt 1], out) /\ mapM (get_sq dup_seq) (range1 1) = Ok sq /\
    seq_forge dup_seq true true false = Ok fo /\ fo <> mirror_forge sq out.
Proof.
  split; [|split].
  - intros c q H. unfold spec_get in H. apply mf_alookup_in_vals in H. vm_compute in H.
    repeat (destruct H as [H|H]; [try discriminate H; injection H as <-; apply Qle_bool_iff; reflexivity|]).
    contradiction.
  - intro H. specialize (H 1 _ (or_introl eq_refl)). cbn in H. inversion H as [|? ? Hni _]; subst.
    apply Hni. left. reflexivity.
  - destruct (prepare dup_seq) as [[chans out]|e] eqn:Ep; [|vm_compute in Ep; discriminate].
    destruct (mapM (get_sq dup_seq) (range1 1)) as [sq|e] eqn:Es; [|vm_compute in Es; discriminate].
    destruct (seq_forge dup_seq true true false) as [fo|e] eqn:Ef; [|vm_compute in Ef; discriminate].
    vm_compute in Ep. injection Ep as <- <-. vm_compute in Es. injection Es as <-.
    vm_compute in Ef. injection Ef as <-.
    eexists. eexists. eexists. split; [reflexivity|]. split; [reflexivity|]. split; [reflexivity|].
    vm_compute. discriminate.
Qed.
