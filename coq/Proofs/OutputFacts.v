(* Facts about the output back ends (Model/Output.v) behind Props/C14.v and Props/C15.v.
   Definitions used by the statements come first; lemmas follow. *)
From Coq Require Import String Ascii List Arith ZArith QArith Qabs Bool Lia Lqa.
From BB Require Import Base.Names Base.Num Base.PyList Model.Types Model.Blueprint Model.Forge Model.Element
  Model.PyVal Model.Sequence Model.Output.
Import ListNotations.

(* the AWG5014 normalisation on exact rationals: (v - off) / (ampl / 2) *)
Definition rescaleQ (v ampl off : Q) : Q := ((v - off) / (ampl / 2))%Q.

(* the channels of a package selected by a list of indices *)
Definition select {A} (l : list A) (idx : list Z) : result (list A) := mapM (nthZ l) idx.

(* ---- lemmas: to be proved (see Props/C14.v and Props/C15.v for the exact statements needed) ---- *)

(* ---------- generic helpers ---------- *)
Lemma o_bind_ok_inv {A B} (r : result A) (k : A -> result B) b :
  bind r k = Ok b -> exists a, r = Ok a /\ k a = Ok b.
Proof. destruct r as [a|e]; simpl; intro H; [exists a; auto | discriminate]. Qed.

Lemma o_mapM_inv {A B} (f : A -> result B) : forall l ys,
  mapM f l = Ok ys -> Forall2 (fun x y => f x = Ok y) l ys.
Proof.
  induction l as [|x t IH]; intros ys H.
  - cbn [mapM] in H. injection H as <-. constructor.
  - cbn [mapM] in H. apply o_bind_ok_inv in H as (y & Hy & H). cbv beta in H.
    apply o_bind_ok_inv in H as (r & Hr & H). cbv beta in H. injection H as <-.
    constructor; [exact Hy | apply IH; exact Hr].
Qed.

Lemma o_mapM_of_Forall2 {A B} (f : A -> result B) : forall l ys,
  Forall2 (fun x y => f x = Ok y) l ys -> mapM f l = Ok ys.
Proof.
  induction 1 as [|x y l ys Hxy HF IH]; [reflexivity|].
  cbn [mapM]. rewrite Hxy, IH. reflexivity.
Qed.

Lemma o_mapM_length {A B} (f : A -> result B) l ys : mapM f l = Ok ys -> length ys = length l.
Proof. intro H. apply o_mapM_inv in H. induction H; cbn [length]; congruence. Qed.

Lemma o_Forall2_in_l {A B} (R : A -> B -> Prop) : forall l ys x,
  Forall2 R l ys -> In x l -> exists y, In y ys /\ R x y.
Proof.
  induction 1 as [|a b l ys Hab HF IH]; intro Hin; [contradiction|].
  destruct Hin as [<- | Hin].
  - exists b. split; [left; reflexivity | exact Hab].
  - destruct (IH Hin) as (y & Hy & HR). exists y. split; [right; exact Hy | exact HR].
Qed.

Lemma o_Forall2_in_r {A B} (R : A -> B -> Prop) : forall l ys y,
  Forall2 R l ys -> In y ys -> exists x, In x l /\ R x y.
Proof.
  induction 1 as [|a b l ys Hab HF IH]; intro Hin; [contradiction|].
  destruct Hin as [<- | Hin].
  - exists a. split; [left; reflexivity | exact Hab].
  - destruct (IH Hin) as (x & Hx & HR). exists x. split; [right; exact Hx | exact HR].
Qed.

Lemma o_Forall2_nth_l {A B} (R : A -> B -> Prop) : forall l ys,
  Forall2 R l ys -> forall k x, nth_error l k = Some x -> exists y, nth_error ys k = Some y /\ R x y.
Proof.
  induction 1 as [|a b l ys Hab HF IH]; intros k x Hk.
  - destruct k; discriminate.
  - destruct k as [|k]; cbn [nth_error] in *.
    + injection Hk as <-. exists b. auto.
    + apply IH. exact Hk.
Qed.

(* the first failing item decides the exception *)
Lemma o_mapM_first_err {A B} (f : A -> result B) e : forall l k x,
  nth_error l k = Some x -> f x = Err e ->
  (forall j xj, (j < k)%nat -> nth_error l j = Some xj -> exists y, f xj = Ok y) ->
  mapM f l = Err e.
Proof.
  induction l as [|a t IH]; intros k x Hk Hx Hbefore.
  - destruct k; discriminate.
  - destruct k as [|k]; cbn [nth_error] in Hk.
    + injection Hk as <-. cbn [mapM]. rewrite Hx. reflexivity.
    + cbn [mapM]. destruct (Hbefore 0%nat a) as (y & Hy); [lia | reflexivity |].
      rewrite Hy. cbn [bind].
      rewrite (IH k x Hk Hx); [reflexivity|].
      intros j xj Hj Hn. apply (Hbefore (S j) xj); [lia | exact Hn].
Qed.

Lemma o_mapM_all_ok {A B} (f : A -> result B) : forall l,
  (forall x, In x l -> exists y, f x = Ok y) -> exists ys, mapM f l = Ok ys.
Proof.
  induction l as [|a t IH]; intro H.
  - exists []. reflexivity.
  - destruct (H a (or_introl eq_refl)) as (y & Hy).
    destruct IH as (ys & Hys); [intros x Hx; apply H; right; exact Hx|].
    exists (y :: ys). cbn [mapM]. rewrite Hy, Hys. reflexivity.
Qed.

(* ---------- C14: normalisation ---------- *)
Lemma normalised_range : forall v ampl off : Q,
  (0 < ampl)%Q ->
  ((off - ampl / 2 <= v /\ v <= off + ampl / 2) <-> (-1 <= rescaleQ v ampl off /\ rescaleQ v ampl off <= 1))%Q.
Proof.
  intros v ampl off Hpos. unfold rescaleQ.
  set (h := (ampl / 2)%Q).
  assert (h == ampl * (1 # 2))%Q as Eh by (unfold h; field).
  assert (0 < h)%Q as Hh by lra.
  assert (((v - off) / h) * h == v - off)%Q as Ht by (field; lra).
  split.
  - intros [H1 H2]. split.
    + apply Qle_shift_div_l; [exact Hh|]. lra.
    + apply Qle_shift_div_r; [exact Hh|]. lra.
  - intros [H1 H2].
    apply (Qmult_le_r _ _ h Hh) in H1. apply (Qmult_le_r _ _ h Hh) in H2.
    rewrite Ht in H1, H2. split; lra.
Qed.

(* ---------- sequencing ranges ---------- *)
Lemma awg_seq_ok_spec : forall n q,
  awg_seq_ok n q = true <->
  ((twait q = 0 \/ twait q = 1) /\ 0 <= nrep q <= 65536 /\ -1 <= jump_target q <= n /\ 0 <= goto q <= n)%Z.
Proof.
  intros n q. unfold awg_seq_ok, in_range.
  rewrite !andb_true_iff, orb_true_iff, !Z.eqb_eq, !Z.leb_le, !Z.ltb_lt. lia.
Qed.

Lemma seqx_seq_ok_spec : forall n q,
  seqx_seq_ok n q = true <->
  (0 <= twait q <= 3 /\ 0 <= jump_input q <= 3 /\ 0 <= nrep q <= 16383 /\ -1 <= jump_target q <= n /\ 0 <= goto q <= n)%Z.
Proof.
  intros n q. unfold seqx_seq_ok, in_range.
  rewrite !andb_true_iff, !Z.leb_le, !Z.ltb_lt. lia.
Qed.

(* ---------- flags ---------- *)
Lemma flag_aliases :
  flag_int (VStr []) = Some 0%Z /\ flag_int (VStr (S_ "H")) = Some 1%Z /\ flag_int (VStr (S_ "L")) = Some 2%Z /\
  flag_int (VStr (S_ "T")) = Some 3%Z /\ flag_int (VStr (S_ "P")) = Some 4%Z /\
  (forall z, (0 <= z <= 4)%Z -> flag_int (VNum (inject_Z z)) = Some z) /\
  (forall q, flag_int (VNum q) <> None -> exists z, (0 <= z <= 4)%Z /\ (q == inject_Z z)%Q).
Proof.
  repeat split; try (vm_compute; reflexivity).
  - intros z Hz.
    assert (z = 0 \/ z = 1 \/ z = 2 \/ z = 3 \/ z = 4)%Z as Hc by lia.
    destruct Hc as [->|[->|[->|[->| ->]]]]; reflexivity.
  - intros q Hq. cbn [flag_int] in Hq.
    destruct (Qeq_bool q 0) eqn:E0; [exists 0%Z; split; [lia | apply Qeq_bool_iff; exact E0]|].
    destruct (Qeq_bool q 1) eqn:E1; [exists 1%Z; split; [lia | apply Qeq_bool_iff; exact E1]|].
    destruct (Qeq_bool q 2) eqn:E2; [exists 2%Z; split; [lia | apply Qeq_bool_iff; exact E2]|].
    destruct (Qeq_bool q 3) eqn:E3; [exists 3%Z; split; [lia | apply Qeq_bool_iff; exact E3]|].
    destruct (Qeq_bool q 4) eqn:E4; [exists 4%Z; split; [lia | apply Qeq_bool_iff; exact E4]|].
    contradiction Hq; reflexivity.
Qed.

Lemma o_all_some_none {A} : forall (l : list (option A)), In None l -> all_some l = None.
Proof.
  induction l as [|a t IH]; intro H; [contradiction|].
  destruct H as [-> | H]; [reflexivity|].
  cbn [all_some]. destruct a as [a|]; [|reflexivity]. rewrite (IH H). reflexivity.
Qed.

Lemma add_flags_spec : forall e c fl,
  (length fl <> 4%nat -> snd (el_add_flags e c fl) = Some EValue) /\
  ((exists v, In v fl /\ flag_int v = None) -> snd (el_add_flags e c fl) = Some EValue) /\
  (forall ints ch, length fl = 4%nat -> all_some (map flag_int fl) = Some ints -> el_lookup e c = Some ch ->
     el_add_flags e c fl = (el_set e c (mkCh (ckind ch) (Some ints)), None)).
Proof.
  intros e c fl. unfold el_add_flags. repeat split.
  - intro Hl. apply Nat.eqb_neq in Hl. rewrite Hl. reflexivity.
  - intros (v & Hin & Hv).
    destruct (Nat.eqb (length fl) 4); cbn [negb]; [|reflexivity].
    rewrite o_all_some_none; [reflexivity|].
    rewrite <- Hv. apply in_map. exact Hin.
  - intros ints ch Hl Ha Hc. rewrite Hl, Ha, Hc. reflexivity.
Qed.

(* ---------- Python range with step 1 ---------- *)
Lemma o_py_range_aux1 : forall fuel cur stop,
  (Z.to_nat (stop - cur) + 1 <= fuel)%nat ->
  py_range_aux fuel cur stop 1 = map (fun k => (cur + Z.of_nat k)%Z) (List.seq 0 (Z.to_nat (stop - cur))).
Proof.
  induction fuel as [|f IH]; intros cur stop Hf; [lia|].
  cbn [py_range_aux]. change (0 <? 1)%Z with true. cbv iota.
  destruct (cur <? stop)%Z eqn:E.
  - apply Z.ltb_lt in E.
    replace (Z.to_nat (stop - cur)) with (S (Z.to_nat (stop - (cur + 1)))) by lia.
    cbn [List.seq map]. f_equal; [lia|].
    rewrite IH by lia. rewrite <- seq_shift, map_map.
    apply map_ext. intro k. lia.
  - apply Z.ltb_ge in E. replace (Z.to_nat (stop - cur)) with 0%nat by lia. reflexivity.
Qed.

Lemma py_range_step1 : forall a b,
  py_range a b 1 = map (fun k => (a + Z.of_nat k)%Z) (List.seq 0 (Z.to_nat (b - a))).
Proof. intros a b. unfold py_range. apply o_py_range_aux1. lia. Qed.

(* ---------- _AWGOutput.__getitem__ ---------- *)
Definition awg_sel (p : awgpkg) (idx : list Z) : result pv :=
  do w <- mapM (nthZ (a_wfms p)) idx; do a <- mapM (nthZ (a_m1s p)) idx; do b <- mapM (nthZ (a_m2s p)) idx;
  Ok (PTuple ([PList (map PList w); PList (map PList a); PList (map PList b)] ++ awg_tail p)).

Lemma o_getitem_int p i : awg_getitem p (IdxInt i) = awg_sel p [i].
Proof. reflexivity. Qed.

Lemma o_getitem_slice p st sp se :
  awg_getitem p (IdxSlice st sp se) =
  if (match se with Some z => z | None => 1 end =? 0)%Z then Err EValue
  else awg_sel p (py_range (match st with Some z => z | None => 0 end)
                           (match sp with Some z => z | None => Z.of_nat (length (a_wfms p)) end)
                           (match se with Some z => z | None => 1 end)).
Proof. reflexivity. Qed.

Lemma index_is_slice : forall p i, (0 <= i)%Z ->
  awg_getitem p (IdxInt i) = awg_getitem p (IdxSlice (Some i) (Some (i + 1)%Z) None).
Proof.
  intros p i _. rewrite o_getitem_int, o_getitem_slice. change (1 =? 0)%Z with false. cbv iota.
  rewrite py_range_step1. replace (Z.to_nat (i + 1 - i)) with 1%nat by lia.
  cbn [List.seq map]. replace (i + Z.of_nat 0)%Z with i by lia. reflexivity.
Qed.

Lemma o_select_all_aux {A} : forall (l pre : list A),
  mapM (nthZ (pre ++ l)) (map (fun k => (0 + Z.of_nat k)%Z) (List.seq (length pre) (length l))) = Ok l.
Proof.
  induction l as [|a l IH]; intro pre; [reflexivity|].
  cbn [length List.seq map mapM].
  assert (nthZ (pre ++ a :: l) (0 + Z.of_nat (length pre)) = Ok a) as E.
  { unfold nthZ. destruct (0 + Z.of_nat (length pre) <? 0)%Z eqn:El; [apply Z.ltb_lt in El; lia|].
    replace (Z.to_nat (0 + Z.of_nat (length pre))) with (length pre) by lia.
    rewrite nth_error_app2 by lia. rewrite Nat.sub_diag. reflexivity. }
  rewrite E. cbn [bind].
  specialize (IH (pre ++ [a])). rewrite <- app_assoc in IH. cbn [app] in IH.
  rewrite app_length in IH. cbn [length] in IH. rewrite Nat.add_1_r in IH.
  rewrite IH. reflexivity.
Qed.

Lemma o_select_all {A} (l : list A) : select l (py_range 0 (Z.of_nat (length l)) 1) = Ok l.
Proof.
  unfold select. rewrite py_range_step1.
  replace (Z.to_nat (Z.of_nat (length l) - 0)) with (length l) by lia.
  exact (o_select_all_aux l []).
Qed.

Lemma full_slice : forall p,
  length (a_m1s p) = length (a_wfms p) -> length (a_m2s p) = length (a_wfms p) ->
  awg_getitem p (IdxSlice None None None) =
  Ok (PTuple ([PList (map PList (a_wfms p)); PList (map PList (a_m1s p)); PList (map PList (a_m2s p))] ++ awg_tail p)).
Proof.
  intros p H1 H2. rewrite o_getitem_slice. change (1 =? 0)%Z with false. cbv iota.
  unfold awg_sel.
  pose proof (o_select_all (a_wfms p)) as Ew. pose proof (o_select_all (a_m1s p)) as Ea.
  pose proof (o_select_all (a_m2s p)) as Eb. rewrite H1 in Ea. rewrite H2 in Eb.
  unfold select in Ew, Ea, Eb. rewrite Ew, Ea, Eb. reflexivity.
Qed.

Lemma o_select_nth {A} (l : list A) i j w :
  (0 <= i)%Z -> select l (py_range i j 1) = Ok w ->
  length w = Z.to_nat (j - i) /\
  forall k, (k < Z.to_nat (j - i))%nat -> nth_error w k = nth_error l (Z.to_nat i + k).
Proof.
  intros Hi H. unfold select in H. rewrite py_range_step1 in H. split.
  - apply o_mapM_length in H. rewrite H, map_length, seq_length. reflexivity.
  - intros k Hk. apply o_mapM_inv in H.
    destruct (o_Forall2_nth_l _ _ _ H k (i + Z.of_nat k)%Z) as (y & Hy & Hn).
    { rewrite nth_error_map.
      assert (nth_error (List.seq 0 (Z.to_nat (j - i))) k = Some k) as Es.
      { rewrite (nth_error_nth' _ 0%nat) by (rewrite seq_length; exact Hk). rewrite seq_nth by exact Hk. reflexivity. }
      rewrite Es. reflexivity. }
    rewrite Hy. unfold nthZ in Hn.
    destruct (i + Z.of_nat k <? 0)%Z; [discriminate|].
    replace (Z.to_nat (i + Z.of_nat k)) with (Z.to_nat i + k)%nat in Hn by lia.
    destruct (nth_error l (Z.to_nat i + k)) as [a|]; [|discriminate]. injection Hn as ->. reflexivity.
Qed.

Lemma slice_selects : forall p st sp i j r,
  (0 <= i <= j)%Z -> st = Some i -> sp = Some j ->
  awg_getitem p (IdxSlice st sp None) = Ok r ->
  exists w a b, select (a_wfms p) (py_range i j 1) = Ok w /\ select (a_m1s p) (py_range i j 1) = Ok a /\
                select (a_m2s p) (py_range i j 1) = Ok b /\
                r = PTuple ([PList (map PList w); PList (map PList a); PList (map PList b)] ++ awg_tail p) /\
                length w = Z.to_nat (j - i) /\
                forall k, (k < Z.to_nat (j - i))%nat -> nth_error w k = nth_error (a_wfms p) (Z.to_nat i + k).
Proof.
  intros p st sp i j r Hij -> -> H. rewrite o_getitem_slice in H. change (1 =? 0)%Z with false in H. cbv iota in H.
  unfold awg_sel in H.
  apply o_bind_ok_inv in H as (w & Hw & H). cbv beta in H.
  apply o_bind_ok_inv in H as (a & Ha & H). cbv beta in H.
  apply o_bind_ok_inv in H as (b & Hb & H). cbv beta in H.
  injection H as <-.
  exists w, a, b. unfold select at 1 2 3. repeat split; try assumption.
  - apply (o_select_nth (a_wfms p) i j w); [lia | exact Hw].
  - apply (o_select_nth (a_wfms p) i j w); [lia | exact Hw].
Qed.

Lemma o_sel_tail p idx l : awg_sel p idx = Ok (PTuple l) -> skipn 3 l = awg_tail p.
Proof.
  unfold awg_sel. intro H.
  apply o_bind_ok_inv in H as (w & Hw & H). cbv beta in H.
  apply o_bind_ok_inv in H as (a & Ha & H). cbv beta in H.
  apply o_bind_ok_inv in H as (b & Hb & H). cbv beta in H.
  injection H as <-. reflexivity.
Qed.

Lemma slicing_keeps_sequencing : forall p ix l,
  awg_getitem p ix = Ok (PTuple l) -> skipn 3 l = awg_tail p.
Proof.
  intros p [i | st sp se] l H.
  - rewrite o_getitem_int in H. eapply o_sel_tail; exact H.
  - rewrite o_getitem_slice in H.
    destruct (match se with Some z => z | None => 1 end =? 0)%Z; [discriminate|].
    eapply o_sel_tail; exact H.
Qed.

(* ---------- the casting loop ---------- *)
Lemma o_nth_error_combine {A B} : forall (a : list A) (b : list B) k,
  nth_error (combine a b) k =
  match nth_error a k, nth_error b k with Some x, Some y => Some (x, y) | _, _ => None end.
Proof.
  induction a as [|x a IH]; intros b k.
  - cbn [combine]. destruct k; reflexivity.
  - destruct b as [|y b]; cbn [combine].
    + destruct k as [|k]; cbn [nth_error]; [reflexivity|]. destruct (nth_error a k); reflexivity.
    + destruct k as [|k]; cbn [nth_error]; [reflexivity|]. apply IH.
Qed.

Lemma o_map_fst_combine {A B} : forall (a : list A) (b : list B),
  length a = length b -> map fst (combine a b) = a.
Proof.
  induction a as [|x a IH]; intros [|y b] H; try discriminate; [reflexivity|].
  cbn [combine map fst]. f_equal. apply IH. injection H as H. exact H.
Qed.

Lemma o_in_combine_l {A B} : forall (a : list A) (b : list B) x,
  In x a -> length a = length b -> exists y, In (x, y) (combine a b).
Proof.
  induction a as [|x0 a IH]; intros [|y b] x Hin H; try discriminate; [contradiction|].
  destruct Hin as [<- | Hin].
  - exists y. left. reflexivity.
  - injection H as H. destruct (IH b x Hin H) as (y' & Hy). exists y'. right. exact Hy.
Qed.

Lemma o_range1_length n : length (range1 n) = n.
Proof. unfold range1. rewrite map_length, seq_length. reflexivity. Qed.

Lemma o_mapM_fst_snd {A A' B B'} (F : A * A' -> result (B * B')) (g : A -> result B') (P : B' -> Prop) :
  (forall x y, F x = Ok y -> g (fst x) = Ok (snd y) /\ P (snd y)) ->
  forall l per, mapM F l = Ok per -> mapM g (map fst l) = Ok (map snd per) /\ Forall P (map snd per).
Proof.
  intros HF l per H. apply o_mapM_inv in H.
  induction H as [|x y l per Hxy HF2 IH].
  - split; [reflexivity | constructor].
  - destruct (HF x y Hxy) as (Hg & HP). destruct IH as (IH1 & IH2).
    split.
    + cbn [map mapM]. rewrite Hg, IH1. reflexivity.
    + cbn [map]. constructor; assumption.
Qed.

Lemma o_cast_ok s chans okf wf els rows sq :
  cast_positions s chans okf wf els = Ok (rows, sq) ->
  mapM (get_sq s) (range1 (length els)) = Ok sq /\ Forall (fun q => okf q = true) sq /\ length sq = length els.
Proof.
  unfold cast_positions. intro H.
  apply o_bind_ok_inv in H as (per & Hper & H). injection H as _ <-.
  pose proof (o_mapM_length _ _ _ Hper) as Hlen.
  eapply (o_mapM_fst_snd _ (get_sq s) (fun q => okf q = true)) in Hper.
  - destruct Hper as (H1 & H2).
    rewrite o_map_fst_combine in H1 by apply o_range1_length.
    split; [exact H1|]. split; [exact H2|].
    rewrite map_length, Hlen, combine_length, o_range1_length. apply Nat.min_id.
  - intros [k l] y Hy. cbn [fst snd] in Hy.
    apply o_bind_ok_inv in Hy as (row & Hrow & Hy). cbv beta in Hy.
    apply o_bind_ok_inv in Hy as (q & Hq & Hy). cbv beta in Hy.
    destruct (okf q) eqn:Eq; [|discriminate]. injection Hy as <-.
    cbn [fst snd]. split; assumption.
Qed.

Lemma cast_sequencing_error : forall s chans okf wf els k q,
  nth_error (range1 (length els)) k = Some q -> (exists sqv, get_sq s q = Ok sqv /\ okf sqv = false) ->
  (forall j qj, (j < k)%nat -> nth_error (range1 (length els)) j = Some qj -> exists v, get_sq s qj = Ok v /\ okf v = true) ->
  (forall l c, In l els -> In c chans -> exists p a b, prep_find l c = Ok p /\ chout_marker (pout p) (S_ "m1") = Ok a /\
                                                         chout_marker (pout p) (S_ "m2") = Ok b) ->
  cast_positions s chans okf wf els = Err ESequencing.
Proof.
  intros s chans okf wf els k q Hk (sqv & Hsq & Hbad) Hbefore Hrows.
  assert (forall l, In l els -> exists row,
            mapM (fun c => do p <- prep_find l c;
                           do a <- chout_marker (pout p) (S_ "m1");
                           do b <- chout_marker (pout p) (S_ "m2");
                           Ok (wf c p, a, b)) chans = Ok row) as Hrow.
  { intros l Hl. apply o_mapM_all_ok. intros c Hc.
    destruct (Hrows l c Hl Hc) as (p & a & b & Hp & Ha & Hb).
    exists (wf c p, a, b). rewrite Hp. cbn [bind]. rewrite Ha. cbn [bind]. rewrite Hb. reflexivity. }
  assert (k < length els)%nat as Hlt.
  { rewrite <- (o_range1_length (length els)). apply nth_error_Some. rewrite Hk. discriminate. }
  destruct (nth_error els k) as [l|] eqn:El; [|apply nth_error_None in El; lia].
  unfold cast_positions.
  match goal with |- bind (mapM ?F ?L) _ = _ => assert (mapM F L = Err ESequencing) as E; [|rewrite E; reflexivity] end.
  apply (o_mapM_first_err _ ESequencing _ k (q, l)).
  - rewrite o_nth_error_combine, Hk, El. reflexivity.
  - cbn [fst snd]. destruct (Hrow l (nth_error_In _ _ El)) as (row & Er). rewrite Er. cbn [bind].
    rewrite Hsq. cbn [bind]. rewrite Hbad. reflexivity.
  - intros j [qj lj] Hj Hn. rewrite o_nth_error_combine in Hn.
    destruct (nth_error (range1 (length els)) j) as [qj'|] eqn:Eq; [|discriminate].
    destruct (nth_error els j) as [lj'|] eqn:Elj; [|discriminate].
    injection Hn as -> ->.
    destruct (Hbefore j qj Hj Eq) as (v & Hv & Hok).
    destruct (Hrow lj (nth_error_In _ _ Elj)) as (row & Er).
    exists (row, v). cbn [fst snd]. rewrite Er. cbn [bind]. rewrite Hv. cbn [bind]. rewrite Hok. reflexivity.
Qed.

(* ---------- outputForAWGFile ---------- *)
Lemma o_output_awg_inv s ranges r :
  output_awg s = Ok (ranges, r) ->
  exists chans els per,
    prepare s = Ok (chans, els) /\
    mapM (fun l : list prepch =>
              mapM (fun ch =>
                      do p <- prep_find l ch;
                      do ampl <- spec_num s (key_amp ch) EKey;
                      do off <- spec_num s (key_off ch) EKey;
                      Ok (ch, (p, ampl, off))) chans) els = Ok per /\
    ranges = flat_map (fun l : list (chan * (prepch * Q * Q)) =>
                  map (fun x : chan * (prepch * Q * Q) =>
                         let '(_, (p, ampl, off)) := x in
                         (pplan p, (- ampl / 2 + off)%Q, (ampl / 2 + off)%Q)) l) per /\
    exists wf,
    r = (do cs <- cast_positions s chans (awg_seq_ok (Z.of_nat (length els))) wf els;
      let '(rows, sq) := cs in
      let nc := length chans in
      do chs <- seq_channels s;
      Ok (mkAwg chs (transpose nc (map (map (fun x : pv * pv * pv => fst (fst x))) rows))
                (transpose nc (map (map (fun x : pv * pv * pv => snd (fst x))) rows))
                (transpose nc (map (map (fun x : pv * pv * pv => snd x)) rows))
                (map nrep sq) (map twait sq) (map goto sq) (map jump_target sq))).
Proof.
  unfold output_awg. intro H.
  apply o_bind_ok_inv in H as ([chans els] & Hp & H). cbv beta iota zeta in H.
  apply o_bind_ok_inv in H as (u & Hoff & H). cbv beta in H.
  apply o_bind_ok_inv in H as (per & Hper & H). cbv beta in H.
  injection H as Hr Hres.
  exists chans, els, per. split; [exact Hp|]. split; [exact Hper|]. split; [symmetry; exact Hr|].
  eexists. symmetry. exact Hres.
Qed.

Lemma ranges_and_scaling : forall s ranges p,
  output_awg s = Ok (ranges, Ok p) ->
  forall w lo hi, In (w, lo, hi) ranges ->
    exists ch ampl off, spec_num s (key_amp ch) EKey = Ok ampl /\ spec_num s (key_off ch) EKey = Ok off /\
                        lo = (- ampl / 2 + off)%Q /\ hi = (ampl / 2 + off)%Q.
Proof.
  intros s ranges p H w lo hi Hin.
  apply o_output_awg_inv in H as (chans & els & per & Hp & Hper & -> & _).
  apply in_flat_map in Hin as (row & Hrow & Hin).
  apply in_map_iff in Hin as (x & Hx & Hxin).
  apply o_mapM_inv in Hper.
  destruct (o_Forall2_in_r _ _ _ _ Hper Hrow) as (l & Hl & Hinner).
  apply o_mapM_inv in Hinner.
  destruct (o_Forall2_in_r _ _ _ _ Hinner Hxin) as (ch & Hch & Hb).
  apply o_bind_ok_inv in Hb as (pp & Hpp & Hb). cbv beta in Hb.
  apply o_bind_ok_inv in Hb as (ampl & Hampl & Hb). cbv beta in Hb.
  apply o_bind_ok_inv in Hb as (off & Hoff & Hb). cbv beta in Hb.
  injection Hb as <-. cbv beta iota in Hx. injection Hx as _ <- <-.
  exists ch, ampl, off. repeat split; assumption.
Qed.

Lemma awg_sequencing_lists : forall s ranges p,
  output_awg s = Ok (ranges, Ok p) ->
  exists sq, mapM (get_sq s) (range1 (length sq)) = Ok sq /\
    Forall (fun q => awg_seq_ok (Z.of_nat (length sq)) q = true) sq /\
    a_nreps p = map nrep sq /\ a_twaits p = map twait sq /\ a_gotos p = map goto sq /\ a_jumps p = map jump_target sq.
Proof.
  intros s ranges p H.
  apply o_output_awg_inv in H as (chans & els & per & Hp & Hper & _ & wf & Hres).
  symmetry in Hres.
  apply o_bind_ok_inv in Hres as ([rows sq] & Hc & Hres). cbv beta iota zeta in Hres.
  apply o_bind_ok_inv in Hres as (chs & Hchs & Hres). cbv beta in Hres.
  injection Hres as <-.
  apply o_cast_ok in Hc as (H1 & H2 & H3).
  exists sq. rewrite H3. repeat split; try reflexivity; assumption.
Qed.

(* ---------- outputForSEQXFile ---------- *)
Lemma o_map_inj {A B} (f : A -> B) : (forall x y, f x = f y -> x = y) ->
  forall l l', map f l = map f l' -> l = l'.
Proof.
  intros Hf. induction l as [|a l IH]; intros [|b l'] H; try discriminate; [reflexivity|].
  cbn [map] in H. injection H as H1 H2. f_equal; [apply Hf; exact H1 | apply IH; exact H2].
Qed.

Lemma o_guarded_inj r i r' i' : guarded r i = guarded r' i' -> r = r' /\ i = i'.
Proof.
  unfold guarded. intro H. injection H as H1 H2. split; [|exact H2].
  eapply o_map_inj; [|exact H1].
  intros [[w lo] hi] [[w' lo'] hi'] E. cbn [fst snd] in E. injection E as -> -> ->. reflexivity.
Qed.

Lemma o_guarded_not_err e r i : PErr e = guarded r i -> False.
Proof. unfold guarded. discriminate. Qed.

Ltac o_head H n := match type of H with (match ?X with _ => _ end) = _ => destruct X eqn:n end.

Lemma seqx_package_shape : forall s fl ranges l,
  output_seqx s fl = guarded ranges (PTuple l) ->
  length l = (if fl then 9 else 8)%nat /\
  nth_error l 7 = Some (PStr (sname s)) /\
  (exists chans els ampls, prepare s = Ok (chans, els) /\ mapM (fun ch => spec_num s (key_amp ch) EKey) chans = Ok ampls /\
     nth_error l 6 = Some (PList (match ampls with [a] => [PNum a; PInt 0] | _ => map PNum ampls end)) /\
     (forall w lo hi, In (w, lo, hi) ranges -> exists a, In a ampls /\ lo = (- a / 2)%Q /\ hi = (a / 2)%Q) /\
     exists sq, mapM (get_sq s) (range1 (length els)) = Ok sq /\
       Forall (fun q => seqx_seq_ok (Z.of_nat (length els)) q = true) sq /\
       nth_error l 0 = Some (PList (map (fun q => PInt (twait q)) sq)) /\
       nth_error l 1 = Some (PList (map (fun q => PInt (nrep q)) sq)) /\
       nth_error l 2 = Some (PList (map (fun q => PInt (jump_input q)) sq)) /\
       nth_error l 3 = Some (PList (map (fun q => PInt (jump_target q)) sq)) /\
       nth_error l 4 = Some (PList (map (fun q => PInt (goto q)) sq))).
Proof.
  intros s fl ranges l H. unfold output_seqx in H.
  destruct (prepare s) as [[chans els]|e] eqn:Hp; [|exfalso; eapply o_guarded_not_err; exact H].
  cbv zeta in H.
  o_head H Hfl; [|exfalso; eapply o_guarded_not_err; exact H].
  rename a into flv.
  o_head H Ha; [|exfalso; eapply o_guarded_not_err; exact H].
  rename a into ampls.
  o_head H Hper; [|exfalso; eapply o_guarded_not_err; exact H].
  rename a into per.
  o_head H Hshort; [exfalso; eapply o_guarded_not_err; exact H|].
  apply o_guarded_inj in H as (Hr & Hi).
  destruct (cast_positions s chans (seqx_seq_ok (Z.of_nat (length els))) (fun _ p => PPlan (pplan p)) els)
    as [[rows sq]|e] eqn:Hc; cbn [bind pv_of_result] in Hi; [|discriminate].
  injection Hi as <-.
  split; [destruct fl; reflexivity|].
  split; [destruct fl; reflexivity|].
  exists chans, els, ampls. split; [reflexivity|]. split; [exact Ha|]. split; [destruct fl; reflexivity|].
  split.
  - intros w lo hi Hin. subst ranges.
    apply in_flat_map in Hin as (row & Hrow & Hin).
    apply in_map_iff in Hin as (x & Hx & Hxin).
    apply o_mapM_inv in Hper.
    destruct (o_Forall2_in_r _ _ _ _ Hper Hrow) as (lp & Hl & Hinner).
    apply o_mapM_inv in Hinner.
    destruct (o_Forall2_in_r _ _ _ _ Hinner Hxin) as ([c a] & Hca & Hb).
    cbn [fst snd] in Hb.
    apply o_bind_ok_inv in Hb as (pp & Hpp & Hb). cbv beta in Hb.
    apply o_bind_ok_inv in Hb as (len & Hlen & Hb). cbv beta in Hb.
    injection Hb as <-. cbv beta iota in Hx. injection Hx as _ <- <-.
    exists a. split; [|split; reflexivity].
    eapply in_combine_r. exact Hca.
  - apply o_cast_ok in Hc as (H1 & H2 & H3).
    exists sq. split; [exact H1|]. split; [exact H2|]. repeat split; destruct fl; reflexivity.
Qed.

Lemma seqx_too_short : forall s fl chans els,
  prepare s = Ok (chans, els) ->
  (exists l c p n, In l els /\ In c chans /\ prep_find l c = Ok p /\ chout_len (pout p) = Ok n /\ (n < 2400)%Z) ->
  (forall l c, In l els -> In c chans -> exists p n, prep_find l c = Ok p /\ chout_len (pout p) = Ok n) ->
  (exists ampls, mapM (fun ch => spec_num s (key_amp ch) EKey) chans = Ok ampls) ->
  output_seqx s fl = PErr EValue \/ exists e, output_seqx s fl = PErr e.
Proof.
  intros s fl chans els Hp (l & c & p & n & Hl & Hc & Hpf & Hlen & Hn) _ (ampls & Ha).
  unfold output_seqx. rewrite Hp. cbv beta iota zeta.
  match goal with |- (match ?X with _ => _ end = _) \/ _ => destruct X as [flv|e] end;
    [|right; eexists; reflexivity].
  rewrite Ha.
  match goal with |- (match ?X with _ => _ end = _) \/ _ => destruct X as [per|e] eqn:Hper end;
    [|right; eexists; reflexivity].
  left.
  match goal with |- (if ?X then _ else _) = _ => assert (X = true) as E; [|rewrite E; reflexivity] end.
  apply o_mapM_inv in Hper.
  destruct (o_Forall2_in_l _ _ _ _ Hper Hl) as (row & Hrow & Hinner).
  apply o_mapM_inv in Hinner.
  destruct (o_in_combine_l chans ampls c Hc) as (a & Hca).
  { symmetry. eapply o_mapM_length. exact Ha. }
  destruct (o_Forall2_in_l _ _ _ _ Hinner Hca) as (x & Hx & Hb).
  cbn [fst snd] in Hb. rewrite Hpf in Hb. cbn [bind] in Hb. rewrite Hlen in Hb. cbn [bind] in Hb.
  injection Hb as <-.
  apply existsb_exists. exists row. split; [exact Hrow|].
  apply existsb_exists. exists (c, (p, a, n)). split; [exact Hx|].
  cbn [snd]. apply Z.ltb_lt. exact Hn.
Qed.
