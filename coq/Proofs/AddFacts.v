(* Facts about concatenation (Sequence.__add__, BluePrint.__add__) behind Props/C16.v.
   Definitions used by the statements come first; lemmas follow. *)
From Coq Require Import String Ascii List Arith ZArith QArith Bool Lia Permutation.
From BB Require Import Base.Names Base.Num Base.PyList Model.Types Model.Blueprint Model.Forge Model.Element
  Model.PyVal Model.Sequence.
Import ListNotations.

(* the sequencing entries belong to filled positions (true of every sequence built through the public API
   without the deprecated setSequenceSettings on unfilled positions) *)
Definition seq_keys_ok (s : seq) : Prop :=
  forall k, In k (akeys (sseq s)) -> (1 <= k <= Z.of_nat (length (sdata s)))%Z.

(* positions are exactly 1..N, each once *)
Definition positions_1N (s : seq) : Prop := Permutation (akeys (sdata s)) (range1 (length (sdata s))).

(* ---- lemmas: to be proved (see Props/C16.v for the exact statements needed) ---- *)
From Coq Require Import FinFun.
From BB Require Import Proofs.ForgeFacts Proofs.WaitFacts Proofs.SequenceFacts.

Local Open Scope Z_scope.

(* ================= the easy ones: definedness, retargeting ================= *)

Lemma seq_add_inv a b c :
  seq_add a b = Ok c ->
  seq_check a = Ok true /\ seq_check b = Ok true /\ specs_eqb (sspecs a) (sspecs b) = true /\
  c = mkSeq (merge_shift (Z.of_nat (length (sdata a))) (sdata a) (sdata b))
            (merge_shift (Z.of_nat (length (sdata a))) (sseq a)
               (map (fun p : Z * sqing => (fst p, shift_sq (Z.of_nat (length (sdata a))) (snd p))) (sseq b)))
            (sspecs b) [].
Proof.
  unfold seq_add. intro H.
  destruct (seq_check a) as [[|]|ea] eqn:Ea; cbn [bind negb] in H; try discriminate.
  destruct (seq_check b) as [[|]|eb] eqn:Eb; cbn [bind negb] in H; try discriminate.
  destruct (specs_eqb (sspecs a) (sspecs b)) eqn:Es; cbn [negb] in H; try discriminate.
  cbv zeta in H. injection H as <-. auto.
Qed.

Lemma add_defined : forall a b,
  seq_check a = Ok true -> seq_check b = Ok true ->
  (specs_eqb (sspecs a) (sspecs b) = true -> exists c, seq_add a b = Ok c) /\
  (specs_eqb (sspecs a) (sspecs b) = false -> seq_add a b = Err ESeqCompat).
Proof.
  intros a b Ha Hb. unfold seq_add. rewrite Ha, Hb. cbn [bind negb].
  split; intro Hs; rewrite Hs; cbn [negb]; [eexists; reflexivity|reflexivity].
Qed.

Lemma add_inconsistent : forall a b,
  (seq_check a = Ok false -> seq_add a b = Err ESeqConsistency) /\
  (seq_check a = Ok true -> seq_check b = Ok false -> seq_add a b = Err ESeqConsistency).
Proof.
  intros a b. unfold seq_add. split.
  - intro Ha. rewrite Ha. reflexivity.
  - intros Ha Hb. rewrite Ha, Hb. reflexivity.
Qed.

Lemma retarget : forall N q,
  twait (shift_sq N q) = twait q /\ nrep (shift_sq N q) = nrep q /\ jump_input (shift_sq N q) = jump_input q /\
  goto (shift_sq N q) = (if 0 <? goto q then goto q + N else goto q) /\
  jump_target (shift_sq N q) = (if 0 <? jump_target q then jump_target q + N else jump_target q) /\
  (goto q = 0 -> goto (shift_sq N q) = 0) /\ (jump_target q = -1 -> jump_target (shift_sq N q) = -1) /\
  (jump_target q = 0 -> jump_target (shift_sq N q) = 0).
Proof.
  intros N q. unfold shift_sq. cbn [twait nrep jump_input goto jump_target].
  repeat split; intro H; rewrite H; reflexivity.
Qed.

(* ================= blueprint concatenation ================= *)

Lemma starts_app : forall na nb acc, starts acc (na ++ nb) = starts acc na ++ starts (acc + sumZ na) nb.
Proof.
  induction na as [|n na IH]; intros nb acc.
  - cbn [app starts sumZ fold_right]. rewrite Z.add_0_r. reflexivity.
  - cbn [app starts]. rewrite IH. rewrite sumZ_cons. rewrite Z.add_assoc. reflexivity.
Qed.

Lemma seg_specs_app SR : forall sa sma sb smb,
  length sma = length sa ->
  seg_specs SR (sa ++ sb) (sma ++ smb) = seg_specs SR sa sma ++ seg_specs SR sb smb.
Proof.
  induction sa as [|s sa IH]; intros sma sb smb L.
  - destruct sma; [|discriminate]. cbn [app seg_specs]. reflexivity.
  - destruct sma as [|[dl ln] sma]; [discriminate|]. cbn [app seg_specs].
    injection L as L. rewrite (IH _ _ _ L). destruct (Qeq_bool ln 0); reflexivity.
Qed.

Lemma starts_length : forall ns acc, length (starts acc ns) = length ns.
Proof. induction ns as [|n ns IH]; intro acc; cbn [starts length]; [reflexivity|]. rewrite IH. reflexivity. Qed.

Lemma bp_add_segment_markers : forall SR na nb (sma smb : list mspec),
  length sma = length na -> length smb = length nb ->
  seg_specs SR (starts 0 (na ++ nb)) (sma ++ smb) =
  seg_specs SR (starts 0 na) sma ++ seg_specs SR (starts (sumZ na) nb) smb.
Proof.
  intros SR na nb sma smb La Lb. rewrite starts_app. rewrite Z.add_0_l.
  apply seg_specs_app. rewrite starts_length. exact La.
Qed.

Lemma fn_eqb_sym f g : fn_eqb f g = fn_eqb g f.
Proof. destruct f, g; reflexivity. Qed.

(* without waituntil the durations are returned as they are, whatever the elapsed time *)
Lemma resolve_nowait : forall fb ab db acc,
  existsb (fn_eqb Fwait) fb = false -> length ab = length fb -> length db = length fb ->
  resolve_waits_aux fb ab db acc = Ok db.
Proof.
  induction fb as [|f fb IH]; intros ab db acc Hw La Ld.
  - destruct db; [|discriminate]. destruct ab; reflexivity.
  - destruct ab as [|a ab]; [discriminate|]. destruct db as [|d db]; [discriminate|].
    cbn [existsb] in Hw. apply orb_false_iff in Hw as [Hf Hw].
    cbn [resolve_waits_aux]. rewrite fn_eqb_sym, Hf.
    injection La as La. injection Ld as Ld. rewrite (IH _ _ _ Hw La Ld). reflexivity.
Qed.

Lemma resolve_app : forall fa aa da acc rsa fb ab db,
  length aa = length fa -> length da = length fa ->
  resolve_waits_aux fa aa da acc = Ok rsa ->
  existsb (fn_eqb Fwait) fb = false -> length ab = length fb -> length db = length fb ->
  resolve_waits_aux (fa ++ fb) (aa ++ ab) (da ++ db) acc = Ok (rsa ++ db).
Proof.
  induction fa as [|f fa IH]; intros aa da acc rsa fb ab db La Ld H Hw Lab Ldb.
  - destruct aa; [|discriminate]. destruct da; [|discriminate].
    cbn [resolve_waits_aux] in H. injection H as <-. cbn [app]. apply resolve_nowait; assumption.
  - destruct aa as [|a aa]; [discriminate|]. destruct da as [|d da]; [discriminate|].
    injection La as La. injection Ld as Ld.
    cbn [app]. cbn [resolve_waits_aux] in *.
    destruct (fn_eqb f Fwait) eqn:Ef.
    + destruct acc as [el|]; [|discriminate].
      destruct a as [|[w|s|] a']; try discriminate.
      destruct (Qlt_le_dec (w - el) 0) as [L|L]; [discriminate|].
      apply bind_ok_inv in H as (r & Hr & Hk). injection Hk as <-.
      rewrite (IH _ _ _ _ _ _ _ La Ld Hr Hw Lab Ldb). reflexivity.
    + apply bind_ok_inv in H as (r & Hr & Hk). injection Hk as <-.
      rewrite (IH _ _ _ _ _ _ _ La Ld Hr Hw Lab Ldb). reflexivity.
Qed.

Lemma int_durs_app SR : forall ra rb na nb,
  int_durs SR ra = Ok na -> int_durs SR rb = Ok nb -> int_durs SR (ra ++ rb) = Ok (na ++ nb).
Proof.
  induction ra as [|d ra IH]; intros rb na nb Ha Hb.
  - cbn [int_durs] in Ha. injection Ha as <-. exact Hb.
  - cbn [app int_durs] in *. destruct d as [q|s|]; try discriminate.
    destruct (rnd (q * SR) <? 2); [discriminate|].
    apply bind_ok_inv in Ha as (r & Hr & Hk). injection Hk as <-.
    rewrite (IH _ _ _ Hr Hb). reflexivity.
Qed.

Lemma mk_blocks_app SR : forall fa aa na bla fb ab nb blb,
  length aa = length fa -> length na = length fa ->
  mk_blocks fa aa na SR = Ok bla -> mk_blocks fb ab nb SR = Ok blb ->
  mk_blocks (fa ++ fb) (aa ++ ab) (na ++ nb) SR = Ok (bla ++ blb).
Proof.
  induction fa as [|f fa IH]; intros aa na bla fb ab nb blb La Ln Ha Hb.
  - destruct aa; [|discriminate]. destruct na; [|discriminate].
    cbn [mk_blocks] in Ha. injection Ha as <-. exact Hb.
  - destruct aa as [|a aa]; [discriminate|]. destruct na as [|n na]; [discriminate|].
    injection La as La. injection Ln as Ln. cbn [app mk_blocks] in *.
    destruct (Nat.eqb (length a) (fn_arity f)); [|discriminate].
    apply bind_ok_inv in Ha as (r & Hr & Hk). injection Hk as <-.
    rewrite (IH _ _ _ _ _ _ _ La Ln Hr Hb). reflexivity.
Qed.

Lemma sumZ_app : forall a b, sumZ (a ++ b) = sumZ a + sumZ b.
Proof.
  induction a as [|x a IH]; intro b; [reflexivity|].
  cbn [app]. rewrite !sumZ_cons, IH. apply Z.add_assoc.
Qed.

Lemma bp_add_forge : forall a b SR fa fb,
  length (args a) = length (funs a) -> length (durs a) = length (funs a) ->
  length (args b) = length (funs b) -> length (durs b) = length (funs b) ->
  has_wait b = false ->
  forge_bp_with a SR (durs a) = Ok fa -> forge_bp_with b SR (durs b) = Ok fb ->
  exists f, forge_bp_with (bp_add a b) SR (durs (bp_add a b)) = Ok f /\
    fblocks f = fblocks fa ++ fblocks fb /\ fN f = fN fa + fN fb /\ fnewdurs f = fnewdurs fa ++ fnewdurs fb.
Proof.
  intros a b SR fa fb Laa Lda Lab Ldb Hw Ha Hb.
  destruct (forge_inv _ _ _ _ Ha) as (rsa & nsa & bla & Ra & Ia & Ma & ->).
  destruct (forge_inv _ _ _ _ Hb) as (rsb & nsb & blb & Rb & Ib & Mb & ->).
  unfold has_wait in Hw.
  rewrite (resolve_nowait _ _ _ _ Hw Lab Ldb) in Rb. injection Rb as <-.
  pose proof (resolve_app _ _ _ _ _ _ _ _ Laa Lda Ra Hw Lab Ldb) as Rab.
  pose proof (int_durs_app SR _ _ _ _ Ia Ib) as Iab.
  destruct (forge_inv_len _ _ _ _ _ Ra Ia) as (_ & _ & Lna).
  assert (length nsa = length (funs a)) as Lna' by lia.
  pose proof (mk_blocks_app SR _ _ _ _ _ _ _ _ Laa Lna' Ma Mb) as Mab.
  unfold forge_bp_with. cbn [bp_add funs args durs sm1 sm2 am1 am2].
  rewrite Rab. cbn [bind]. rewrite Iab. cbn [bind]. rewrite Mab. cbn [bind]. cbv zeta.
  eexists. split; [reflexivity|]. cbn [fblocks fN fnewdurs].
  split; [reflexivity|]. split; [apply sumZ_app|apply map_app].
Qed.

(* ================= forging one entry depends on the sequence through its settings only ================= *)

Lemma forge_entry_specs : forall (s s' : seq) f t x,
  sspecs s = sspecs s' -> forge_entry s f t x = forge_entry s' f t x.
Proof.
  intros [d q sp n] [d' q' sp' n'] f t x H. cbn [sspecs] in H. subst sp'. reflexivity.
Qed.

Lemma add_forge_entry : forall a b c f t x,
  seq_add a b = Ok c -> sspecs a = sspecs b ->
  forge_entry c f t x = forge_entry a f t x /\ forge_entry c f t x = forge_entry b f t x.
Proof.
  intros a b c f t x H Hs. destruct (seq_add_inv _ _ _ H) as (_ & _ & _ & ->).
  split; apply forge_entry_specs; cbn [sspecs]; congruence.
Qed.

(* ================= association lists keyed by Z ================= *)
Section AList.
Context {V : Type}.
Implicit Types (l a b : list (Z * V)).

Lemma alookup_aset_eq k v l : alookup Z.eqb k (aset Z.eqb k v l) = Some v.
Proof.
  induction l as [|[k' v'] l IH]; cbn [aset alookup].
  - rewrite Z.eqb_refl. reflexivity.
  - destruct (Z.eqb k k') eqn:E; cbn [alookup]; [rewrite Z.eqb_refl; reflexivity|]. rewrite E. exact IH.
Qed.

Lemma alookup_aset_neq k k' v l : k <> k' -> alookup Z.eqb k' (aset Z.eqb k v l) = alookup Z.eqb k' l.
Proof.
  intro Hn. induction l as [|[k0 v0] l IH]; cbn [aset alookup].
  - destruct (Z.eqb_spec k' k) as [->|_]; [contradiction Hn; reflexivity|reflexivity].
  - destruct (Z.eqb_spec k k0) as [->|Hk]; cbn [alookup].
    + destruct (Z.eqb_spec k' k0) as [->|_]; [contradiction Hn; reflexivity|reflexivity].
    + rewrite IH. reflexivity.
Qed.

Lemma aset_notin k v l : ~ In k (akeys l) -> aset Z.eqb k v l = l ++ [(k, v)].
Proof.
  induction l as [|[k' v'] l IH]; intro Hn; cbn [aset app]; [reflexivity|].
  cbn [akeys map fst In] in Hn.
  destruct (Z.eqb_spec k k') as [->|Hk]; [contradiction Hn; left; reflexivity|].
  rewrite IH; [reflexivity|]. intro Hi. apply Hn. right. exact Hi.
Qed.

Lemma alookup_notin k l : ~ In k (akeys l) -> alookup Z.eqb k l = None.
Proof.
  induction l as [|[k' v'] l IH]; intro Hn; cbn [alookup]; [reflexivity|].
  cbn [akeys map fst In] in Hn.
  destruct (Z.eqb_spec k k') as [->|Hk]; [contradiction Hn; left; reflexivity|].
  apply IH. intro Hi. apply Hn. right. exact Hi.
Qed.

Lemma alookup_app k l1 l2 :
  alookup Z.eqb k (l1 ++ l2) = match alookup Z.eqb k l1 with Some v => Some v | None => alookup Z.eqb k l2 end.
Proof.
  induction l1 as [|[k' v'] l1 IH]; cbn [app alookup]; [reflexivity|].
  destruct (Z.eqb k k'); [reflexivity|exact IH].
Qed.

Lemma akeys_app l1 l2 : akeys (l1 ++ l2) = akeys l1 ++ akeys l2.
Proof. unfold akeys. apply map_app. Qed.

Definition shiftk (N : Z) (b : list (Z * V)) : list (Z * V) := map (fun p => (fst p + N, snd p)) b.

Lemma akeys_shiftk N b : akeys (shiftk N b) = map (fun k => k + N) (akeys b).
Proof. unfold akeys, shiftk. rewrite !map_map. reflexivity. Qed.

(* dict.update with fresh, pairwise different keys appends *)
Lemma merge_shift_closed N : forall b a,
  NoDup (akeys b) -> (forall k, In k (akeys b) -> ~ In (k + N) (akeys a)) ->
  merge_shift N a b = a ++ shiftk N b.
Proof.
  unfold merge_shift.
  induction b as [|[k v] b IH]; intros a Hnd Hdis; cbn [fold_left shiftk map].
  - rewrite app_nil_r. reflexivity.
  - cbn [akeys map fst] in Hnd. inversion Hnd as [|k0 t0 Hk Hnd']; subst.
    cbn [fst snd]. rewrite aset_notin by (apply Hdis; left; reflexivity).
    rewrite IH.
    + rewrite <- app_assoc. reflexivity.
    + exact Hnd'.
    + intros k' Hk' Hin. rewrite akeys_app in Hin. apply in_app_or in Hin as [Hin|Hin].
      * revert Hin. apply Hdis. right. exact Hk'.
      * cbn [akeys map fst In] in Hin. destruct Hin as [Hin|[]].
        assert (k' = k) as -> by lia. apply Hk. exact Hk'.
Qed.
End AList.

Lemma alookup_shiftmap {V W} (f : V -> W) N p : forall b : list (Z * V),
  alookup Z.eqb p (map (fun x => (fst x + N, f (snd x))) b) = option_map f (alookup Z.eqb (p - N) b).
Proof.
  induction b as [|[k v] b IH]; cbn [map alookup fst snd]; [reflexivity|].
  destruct (Z.eqb_spec p (k + N)) as [E|E]; destruct (Z.eqb_spec (p - N) k) as [E'|E']; try lia.
  - reflexivity.
  - exact IH.
Qed.

Lemma alookup_shiftk {V} N p (b : list (Z * V)) : alookup Z.eqb p (shiftk N b) = alookup Z.eqb (p - N) b.
Proof.
  unfold shiftk. rewrite (alookup_shiftmap (fun v : V => v)).
  destruct (alookup Z.eqb (p - N) b); reflexivity.
Qed.

Lemma shiftk_shiftmap {V W} (f : V -> W) N (b : list (Z * V)) :
  shiftk N (map (fun p => (fst p, f (snd p))) b) = map (fun p => (fst p + N, f (snd p))) b.
Proof. unfold shiftk. rewrite map_map. reflexivity. Qed.

Lemma akeys_valmap {V W} (f : V -> W) (b : list (Z * V)) : akeys (map (fun p => (fst p, f (snd p))) b) = akeys b.
Proof. unfold akeys. rewrite map_map. reflexivity. Qed.

Lemma NoDup_app_intro {A} : forall l1 l2 : list A,
  NoDup l1 -> NoDup l2 -> (forall x, In x l1 -> ~ In x l2) -> NoDup (l1 ++ l2).
Proof.
  induction l1 as [|x l1 IH]; intros l2 H1 H2 Hd; cbn [app]; [exact H2|].
  inversion H1 as [|x0 t0 Hx H1']; subst. constructor.
  - intro Hin. apply in_app_or in Hin as [Hin|Hin]; [exact (Hx Hin)|]. exact (Hd x (or_introl eq_refl) Hin).
  - apply IH; [exact H1'|exact H2|]. intros y Hy. apply Hd. right. exact Hy.
Qed.

(* ================= positions 1..N ================= *)
Lemma range1_spec n k : In k (range1 n) <-> 1 <= k <= Z.of_nat n.
Proof.
  unfold range1. rewrite in_map_iff. split.
  - intros (i & <- & Hi). apply in_seq in Hi. lia.
  - intro H. exists (Z.to_nat (k - 1)). split; [lia|]. apply in_seq. lia.
Qed.

Lemma range1_NoDup n : NoDup (range1 n).
Proof.
  unfold range1. apply Injective_map_NoDup; [|apply seq_NoDup].
  intros x y H. lia.
Qed.

Lemma range1_shift n : forall m s,
  map (fun k => k + Z.of_nat n) (map (fun k => Z.of_nat k + 1) (List.seq s m)) =
  map (fun k => Z.of_nat k + 1) (List.seq (s + n) m).
Proof.
  induction m as [|m IH]; intro s; cbn [List.seq map]; [reflexivity|].
  f_equal; [lia|]. apply (IH (S s)).
Qed.

Lemma range1_app n m : range1 (n + m) = range1 n ++ map (fun k => k + Z.of_nat n) (range1 m).
Proof.
  unfold range1. rewrite seq_app, map_app. f_equal. rewrite range1_shift. reflexivity.
Qed.

Lemma positions_keys s : positions_1N s ->
  NoDup (akeys (sdata s)) /\ forall k, In k (akeys (sdata s)) <-> 1 <= k <= Z.of_nat (length (sdata s)).
Proof.
  unfold positions_1N. intro P. split.
  - apply (Permutation_NoDup (Permutation_sym P)). apply range1_NoDup.
  - intro k. rewrite <- range1_spec. split; apply Permutation_in; [exact P|apply Permutation_sym; exact P].
Qed.

(* ================= Sequence.__add__: closed forms ================= *)
Definition shift_entries (N : Z) (q : list (Z * sqing)) : list (Z * sqing) :=
  map (fun p => (fst p + N, shift_sq N (snd p))) q.

Lemma add_data_closed a b c :
  seq_add a b = Ok c -> positions_1N a -> positions_1N b ->
  sdata c = sdata a ++ shiftk (Z.of_nat (length (sdata a))) (sdata b).
Proof.
  intros H Pa Pb. destruct (seq_add_inv _ _ _ H) as (_ & _ & _ & ->). cbn [sdata].
  destruct (positions_keys _ Pa) as (_ & Ka). destruct (positions_keys _ Pb) as (NDb & Kb).
  apply merge_shift_closed; [exact NDb|].
  intros k Hk Hin. apply Kb in Hk. apply Ka in Hin. lia.
Qed.

Lemma merge_seq_closed N (qa qb : list (Z * sqing)) :
  (forall k, In k (akeys qa) -> 1 <= k <= N) -> (forall k, In k (akeys qb) -> 1 <= k) -> NoDup (akeys qb) ->
  merge_shift N qa (map (fun p : Z * sqing => (fst p, shift_sq N (snd p))) qb) = qa ++ shift_entries N qb.
Proof.
  intros Ka Kb NDb. rewrite merge_shift_closed.
  - rewrite shiftk_shiftmap. reflexivity.
  - rewrite akeys_valmap. exact NDb.
  - intros k Hk Hin. rewrite akeys_valmap in Hk. apply Kb in Hk. apply Ka in Hin. lia.
Qed.

Lemma add_seq_closed a b c :
  seq_add a b = Ok c -> seq_keys_ok a -> (forall k, In k (akeys (sseq b)) -> 1 <= k) -> NoDup (akeys (sseq b)) ->
  sseq c = sseq a ++ shift_entries (Z.of_nat (length (sdata a))) (sseq b).
Proof.
  intros H Ka Kb NDb. destruct (seq_add_inv _ _ _ H) as (_ & _ & _ & ->). cbn [sseq].
  apply merge_seq_closed; assumption.
Qed.

Lemma shiftk_length {V} N (b : list (Z * V)) : length (shiftk N b) = length b.
Proof. unfold shiftk. apply map_length. Qed.

Lemma add_positions : forall a b c,
  seq_add a b = Ok c -> positions_1N a -> positions_1N b ->
  let N := Z.of_nat (length (sdata a)) in
  length (sdata c) = (length (sdata a) + length (sdata b))%nat /\ positions_1N c /\
  (forall p, 1 <= p <= N -> alookup Z.eqb p (sdata c) = alookup Z.eqb p (sdata a)) /\
  (forall p, N < p -> alookup Z.eqb p (sdata c) = alookup Z.eqb (p - N) (sdata b)) /\
  sspecs c = sspecs b.
Proof.
  intros a b c H Pa Pb N.
  pose proof (add_data_closed _ _ _ H Pa Pb) as Hd. fold N in Hd.
  destruct (positions_keys _ Pa) as (_ & Ka). destruct (positions_keys _ Pb) as (_ & Kb).
  assert (length (sdata c) = (length (sdata a) + length (sdata b))%nat) as Hl.
  { rewrite Hd, app_length, shiftk_length. reflexivity. }
  split; [exact Hl|]. split; [|split; [|split]].
  - unfold positions_1N. rewrite Hl, range1_app, Hd, akeys_app, akeys_shiftk.
    apply Permutation_app; [exact Pa|]. apply Permutation_map. exact Pb.
  - intros p Hp. rewrite Hd, alookup_app.
    destruct (alookup Z.eqb p (sdata a)) as [v|]; [reflexivity|].
    apply alookup_notin. rewrite akeys_shiftk. intro Hin. apply in_map_iff in Hin as (k & Hk & Hin).
    apply Kb in Hin. lia.
  - intros p Hp. rewrite Hd, alookup_app. rewrite (alookup_notin p (sdata a)).
    + apply alookup_shiftk.
    + intro Hin. apply Ka in Hin. lia.
  - destruct (seq_add_inv _ _ _ H) as (_ & _ & _ & ->). reflexivity.
Qed.

(* the statement needs the sequencing keys of b to be positive (otherwise b's entry k <= 0 overwrites a's entry
   k + N <= N) and pairwise different (dict.update keeps the last entry, alookup finds the first) *)
Lemma add_sequencing : forall a b c,
  seq_add a b = Ok c -> seq_keys_ok a ->
  (forall k, In k (akeys (sseq b)) -> 1 <= k) -> NoDup (akeys (sseq b)) ->
  let N := Z.of_nat (length (sdata a)) in
  (forall p, 1 <= p <= N -> alookup Z.eqb p (sseq c) = alookup Z.eqb p (sseq a)) /\
  (forall p, N < p -> alookup Z.eqb p (sseq c) = option_map (shift_sq N) (alookup Z.eqb (p - N) (sseq b))).
Proof.
  intros a b c H Ka Kb NDb N.
  pose proof (add_seq_closed _ _ _ H Ka Kb NDb) as Hq. fold N in Hq. split.
  - intros p Hp. rewrite Hq, alookup_app.
    destruct (alookup Z.eqb p (sseq a)) as [v|]; [reflexivity|].
    apply alookup_notin. unfold shift_entries, akeys. rewrite map_map. cbn [fst].
    intro Hin. apply in_map_iff in Hin as (x & Hx & Hin).
    assert (In (fst x) (akeys (sseq b))) as Hk by (apply in_map; exact Hin).
    apply Kb in Hk. lia.
  - intros p Hp. rewrite Hq, alookup_app. rewrite (alookup_notin p (sseq a)).
    + apply alookup_shiftmap.
    + intro Hin. apply Ka in Hin. fold N in Hin. lia.
Qed.

(* ================= empty left operand ================= *)
Lemma shiftk_0 {V} (b : list (Z * V)) : shiftk 0 b = b.
Proof.
  unfold shiftk. induction b as [|[k v] b IH]; cbn [map fst snd]; [reflexivity|].
  rewrite IH, Z.add_0_r. reflexivity.
Qed.

Lemma add_empty_left : forall b c,
  seq_add (mkSeq [] [] (sspecs b) []) b = Ok c -> NoDup (akeys (sdata b)) -> NoDup (akeys (sseq b)) ->
  sdata c = sdata b /\ sseq c = map (fun p => (fst p + 0, shift_sq 0 (snd p))) (sseq b).
Proof.
  intros b c H NDd NDq. destruct (seq_add_inv _ _ _ H) as (_ & _ & _ & ->).
  cbn [sdata sseq length Z.of_nat]. split.
  - rewrite merge_shift_closed; [|exact NDd|intros k _ []]. cbn [app]. apply shiftk_0.
  - rewrite merge_shift_closed; [|rewrite akeys_valmap; exact NDq|intros k _ []].
    cbn [app]. apply shiftk_shiftmap.
Qed.

(* ================= associativity ================= *)
Lemma seq_eta_eq (l r : seq) :
  sdata l = sdata r -> sseq l = sseq r -> sspecs l = sspecs r -> sname l = sname r -> l = r.
Proof.
  destruct l as [d q s n], r as [d' q' s' n']. cbn [sdata sseq sspecs sname].
  intros -> -> -> ->. reflexivity.
Qed.

Lemma seq_add_fields a b c : seq_add a b = Ok c -> sspecs c = sspecs b /\ sname c = [].
Proof. intro H. destruct (seq_add_inv _ _ _ H) as (_ & _ & _ & ->). split; reflexivity. Qed.

Lemma akeys_shift_entries N q : akeys (shift_entries N q) = map (fun k => k + N) (akeys q).
Proof. unfold akeys, shift_entries. rewrite !map_map. reflexivity. Qed.

Lemma shiftk_app {V} N (x y : list (Z * V)) : shiftk N (x ++ y) = shiftk N x ++ shiftk N y.
Proof. unfold shiftk. apply map_app. Qed.

Lemma shift_entries_app N x y : shift_entries N (x ++ y) = shift_entries N x ++ shift_entries N y.
Proof. unfold shift_entries. apply map_app. Qed.

Lemma shiftk_compose {V} Na Nb (d : list (Z * V)) : shiftk Na (shiftk Nb d) = shiftk (Nb + Na) d.
Proof.
  unfold shiftk. rewrite map_map. apply map_ext. intros [k v]. cbn [fst snd]. f_equal. lia.
Qed.

Lemma shift_compose x Na Nb : 0 <= Nb ->
  (if 0 <? (if 0 <? x then x + Nb else x) then (if 0 <? x then x + Nb else x) + Na else (if 0 <? x then x + Nb else x))
  = if 0 <? x then x + (Nb + Na) else x.
Proof.
  intro H. destruct (0 <? x) eqn:E.
  - apply Z.ltb_lt in E. assert (0 <? x + Nb = true) as -> by (apply Z.ltb_lt; lia). lia.
  - rewrite E. reflexivity.
Qed.

Lemma shift_sq_compose Na Nb q : 0 <= Nb -> shift_sq Na (shift_sq Nb q) = shift_sq (Nb + Na) q.
Proof.
  intro H. destruct q as [w n ji jt g]. unfold shift_sq. cbn [twait nrep jump_input jump_target goto].
  f_equal; apply shift_compose; exact H.
Qed.

Lemma shift_entries_compose Na Nb q : 0 <= Nb -> shift_entries Na (shift_entries Nb q) = shift_entries (Nb + Na) q.
Proof.
  intro H. unfold shift_entries. rewrite map_map. apply map_ext. intros [k v]. cbn [fst snd].
  rewrite (shift_sq_compose _ _ _ H). f_equal. lia.
Qed.

Lemma add_assoc : forall a b c ab bc l r,
  positions_1N a -> positions_1N b -> positions_1N c -> seq_keys_ok a -> seq_keys_ok b -> seq_keys_ok c ->
  (forall k, In k (akeys (sseq b)) -> 1 <= k) -> (forall k, In k (akeys (sseq c)) -> 1 <= k) ->
  NoDup (akeys (sseq a)) -> NoDup (akeys (sseq b)) -> NoDup (akeys (sseq c)) ->
  seq_add a b = Ok ab -> seq_add ab c = Ok l -> seq_add b c = Ok bc -> seq_add a bc = Ok r -> l = r.
Proof.
  intros a b c ab bc l r Pa Pb Pc Ka Kb Kc Kb1 Kc1 NDa NDb NDc Hab Hl Hbc Hr.
  destruct (add_positions _ _ _ Hab Pa Pb) as (Lab & Pab & _).
  destruct (add_positions _ _ _ Hbc Pb Pc) as (Lbc & Pbc & _).
  pose proof (add_data_closed _ _ _ Hab Pa Pb) as Dab.
  pose proof (add_data_closed _ _ _ Hl Pab Pc) as Dl.
  pose proof (add_data_closed _ _ _ Hbc Pb Pc) as Dbc.
  pose proof (add_data_closed _ _ _ Hr Pa Pbc) as Dr.
  pose proof (add_seq_closed _ _ _ Hab Ka Kb1 NDb) as Qab.
  pose proof (add_seq_closed _ _ _ Hbc Kb Kc1 NDc) as Qbc.
  assert (seq_keys_ok ab) as Kab.
  { unfold seq_keys_ok. intros k Hk. rewrite Qab, akeys_app in Hk. rewrite Lab.
    apply in_app_or in Hk as [Hk|Hk].
    - apply Ka in Hk. lia.
    - rewrite akeys_shift_entries in Hk. apply in_map_iff in Hk as (k0 & <- & Hk). apply Kb in Hk. lia. }
  pose proof (add_seq_closed _ _ _ Hl Kab Kc1 NDc) as Ql.
  assert (forall k, In k (akeys (sseq bc)) -> 1 <= k) as Kbc1.
  { intros k Hk. rewrite Qbc, akeys_app in Hk. apply in_app_or in Hk as [Hk|Hk].
    - apply Kb1. exact Hk.
    - rewrite akeys_shift_entries in Hk. apply in_map_iff in Hk as (k0 & <- & Hk). apply Kc1 in Hk. lia. }
  assert (NoDup (akeys (sseq bc))) as NDbc.
  { rewrite Qbc, akeys_app, akeys_shift_entries. apply NoDup_app_intro.
    - exact NDb.
    - apply Injective_map_NoDup; [|exact NDc]. intros x y E. lia.
    - intros x Hx Hin. apply Kb in Hx. apply in_map_iff in Hin as (k0 & <- & Hk0). apply Kc1 in Hk0. lia. }
  pose proof (add_seq_closed _ _ _ Hr Ka Kbc1 NDbc) as Qr.
  destruct (seq_add_fields _ _ _ Hl) as (Sl & Nl). destruct (seq_add_fields _ _ _ Hr) as (Sr & Nr).
  destruct (seq_add_fields _ _ _ Hbc) as (Sbc & _).
  apply seq_eta_eq.
  - rewrite Dl, Dr, Lab, Dab, Dbc. rewrite shiftk_app, shiftk_compose, <- app_assoc.
    do 2 f_equal. f_equal. lia.
  - rewrite Ql, Qr, Lab, Qab, Qbc. rewrite shift_entries_app, shift_entries_compose by lia.
    rewrite <- app_assoc. do 2 f_equal. f_equal. lia.
  - congruence.
  - congruence.
Qed.

(* ================= why add_sequencing needs its two extra hypotheses (checked counterexamples) ================= *)
Definition cx_el (v : Q) : elem := mkEl [(CInt 1, mkCh (KArr [(S_ "wfm", [(v, 10)])] (Some (VNum 100))) None)].
Definition cx_specs : list (str * specval) := [(key_sr, SVal (VNum 100))].
Definition cx_a : seq :=
  mkSeq [(2, EElem (cx_el 1)); (1, EElem (cx_el 0))] [(1, mkSq 1 1 0 2 2); (2, mkSq 2 1 0 1 0)] cx_specs [].
(* a non-positive sequencing key in b overwrites a's entry 2 *)
Definition cx_b0 : seq := mkSeq [(1, EElem (cx_el 2))] [(0, mkSq 3 1 0 (-1) 1)] cx_specs [].
(* a duplicated sequencing key in b: update keeps the last entry, lookup finds the first *)
Definition cx_bd : seq := mkSeq [(1, EElem (cx_el 2))] [(1, mkSq 3 1 0 (-1) 1); (1, mkSq 2 1 0 1 0)] cx_specs [].

Lemma add_sequencing_counterexamples :
  seq_keys_ok cx_a /\
  (exists c, seq_add cx_a cx_b0 = Ok c /\ alookup Z.eqb 2 (sseq c) <> alookup Z.eqb 2 (sseq cx_a)) /\
  (exists c, seq_add cx_a cx_bd = Ok c /\ (forall k, In k (akeys (sseq cx_bd)) -> 1 <= k) /\
     alookup Z.eqb 3 (sseq c) <> option_map (shift_sq 2) (alookup Z.eqb (3 - 2) (sseq cx_bd))).
Proof.
  split; [|split].
  - intros k Hk. cbn in Hk. cbn. lia.
  - eexists. split; [vm_compute; reflexivity|]. vm_compute. discriminate.
  - eexists. split; [vm_compute; reflexivity|]. split.
    + intros k Hk. cbn in Hk. lia.
    + vm_compute. discriminate.
Qed.
