(* Reachability discharges the structural hypothesis of the mirror theorems: in every store reachable through the API
   no element lists a channel twice, so for every sequence a program can build, with non-negative delays, whatever
   the output path prepares is exactly what forge reports. *)
From Coq Require Import List ZArith QArith Bool.
From BB Require Import Base.Num Model.Types Model.Blueprint Model.Forge Model.Element Model.PyVal Model.Sequence
  Model.Output Model.Interp Proofs.BlueprintFacts Proofs.ReachFacts Proofs.MirrorFacts.
Import ListNotations.

Lemma seq_inv_elems_nodup : forall s, seq_inv s -> elems_nodup s.
Proof.
  intros s (_ & _ & _ & He) p e Hin.
  specialize (He p (EElem e) Hin). cbn [entry_inv] in He. destruct He as [Hn _].
  unfold el_channels, akeys. exact Hn.
Qed.

Lemma reachable_elems_nodup : forall prog r s,
  Forall api_op prog -> In (r, s) (sqs (final_store store0 prog)) -> elems_nodup s.
Proof.
  intros prog r s Hp Hin.
  pose proof (store_ok_reachable prog store0 Hp store_ok_initial) as (_ & _ & Hs).
  apply seq_inv_elems_nodup. exact (Hs r s Hin).
Qed.

Lemma reachable_prepare_mirrors_forge : forall prog r s chans out,
  Forall api_op prog -> In (r, s) (sqs (final_store store0 prog)) ->
  delays_nonneg s -> prepare s = Ok (chans, out) ->
  exists sq, mapM (get_sq s) (range1 (length out)) = Ok sq /\ seq_forge s true true false = Ok (mirror_forge sq out).
Proof.
  intros prog r s chans out Hp Hin Hd Hprep.
  exact (prepare_mirrors_forge s chans out (reachable_elems_nodup prog r s Hp Hin) Hd Hprep).
Qed.
