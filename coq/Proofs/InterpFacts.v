(* Observations of the op language are pure: they never change the store (Model/Interp.v). *)
From Coq Require Import String List ZArith QArith Bool.
From BB Require Import Base.Names Model.Types Model.Blueprint Model.Forge Model.Element Model.PyVal Model.Sequence
  Model.Output Model.Descr Model.Tools Model.Interp.
Import ListNotations.

Definition is_observation (o : op) : bool :=
  match o with
  | OBDescr _ | OBForge _ | OBDuration _ | OBPoints _ | OBLen _ | OBEq _ _
  | OEDescr _ | OEValidate _ | OEPoints _ | OEDuration _ | OESR _ | OEChannels _ | OEArrays _ _ | OEEq _ _
  | OSDescr _ | OSCheck _ | OSChannels _ | OSPoints _ | OSDuration _ | OSForge _ _ _ _ | OSAwg _ _ | OSSeqx _ _
  | OSEq _ _ | OSLen _ | OSSR _ => true
  | _ => false
  end.

Lemma observation_pure : forall st o, is_observation o = true -> fst (exec st o) = st.
Proof. intros st o H. destruct o; simpl in H; try discriminate; reflexivity. Qed.

(* hence an observation returns the same value however many other observations are interleaved before it *)
Lemma observations_commute : forall st os o,
  forallb is_observation os = true ->
  snd (exec (fold_left (fun s x => fst (exec s x)) os st) o) = snd (exec st o).
Proof.
  intros st os o. revert st. induction os as [|x os IH]; intros st H; simpl; [reflexivity|].
  simpl in H. apply andb_true_iff in H as [Hx Hos]. rewrite IH by exact Hos. now rewrite observation_pure.
Qed.
