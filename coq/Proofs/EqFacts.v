(* Facts about the three __eq__ models behind Props/C20.v.
   Definitions used by the statements come first; lemmas follow. *)
From Coq Require Import String Ascii List Arith ZArith QArith Qabs Qround Bool Lia Lqa.
From BB Require Import Base.Names Base.Num Base.PyList Model.Types Model.Blueprint Model.Forge Model.Element
  Model.PyVal Model.Sequence Model.Descr Proofs.BlueprintFacts.
Import ListNotations.

(* Python's == on the values: numbers compare numerically *)
Definition val_equiv (a b : val) : Prop := val_eqb a b = true.
Definition mspec_equiv (a b : mspec) : Prop := (fst a == fst b)%Q /\ (snd a == snd b)%Q.

(* two blueprints that agree on every component up to numeric equality *)
Definition bp_equiv (a b : bp) : Prop :=
  names a = names b /\ funs a = funs b /\ Forall2 (Forall2 val_equiv) (args a) (args b) /\
  Forall2 val_equiv (durs a) (durs b) /\ Forall2 mspec_equiv (sm1 a) (sm1 b) /\ Forall2 mspec_equiv (sm2 a) (sm2 b) /\
  Forall2 mspec_equiv (am1 a) (am1 b) /\ Forall2 mspec_equiv (am2 a) (am2 b).

(* forged results that are observably the same: same counts, same functions, numerically equal arguments and
   sample rate, identical marker arrays *)
Definition block_equiv (x y : block) : Prop :=
  bfn x = bfn y /\ Forall2 val_equiv (bargs x) (bargs y) /\ (bsr x == bsr y)%Q /\ bn x = bn y.
Definition forged_equiv (f g : forged) : Prop :=
  Forall2 block_equiv (fblocks f) (fblocks g) /\ fN f = fN g /\ fm1 f = fm1 g /\ fm2 f = fm2 g /\
  Forall2 Qeq (fnewdurs f) (fnewdurs g).

(* descriptions equal up to numeric equality of the numbers they contain *)
Inductive pv_equiv : pv -> pv -> Prop :=
| pe_num : forall p q, (p == q)%Q -> pv_equiv (PNum p) (PNum q)
| pe_int : forall z, pv_equiv (PInt z) (PInt z)
| pe_str : forall x, pv_equiv (PStr x) (PStr x)
| pe_none : pv_equiv PNone PNone
| pe_bool : forall b, pv_equiv (PBool b) (PBool b)
| pe_list : forall l l', Forall2 pv_equiv l l' -> pv_equiv (PList l) (PList l')
| pe_tuple : forall l l', Forall2 pv_equiv l l' -> pv_equiv (PTuple l) (PTuple l')
| pe_dict : forall l l', Forall2 (fun a b => pv_equiv (fst a) (fst b) /\ pv_equiv (snd a) (snd b)) l l' ->
                         pv_equiv (PDict l) (PDict l').

(* ---- lemmas: to be proved (see Props/C20.v for the exact statements needed) ---- *)

(* ---------- generic facts about list_eqb and Forall2 ---------- *)
Lemma list_eqb_Forall2 {A} (eqb : A -> A -> bool) : forall a b,
  list_eqb eqb a b = true <-> Forall2 (fun x y => eqb x y = true) a b.
Proof.
  induction a as [|x a IH]; intros [|y b]; cbn [list_eqb].
  - split; intro H; [constructor | reflexivity].
  - split; intro H; [discriminate | inversion H].
  - split; intro H; [discriminate | inversion H].
  - rewrite andb_true_iff, IH. split.
    + intros [H1 H2]. constructor; assumption.
    + intro H. inversion H; subst. split; assumption.
Qed.

Lemma Forall2_rel_iff {A B} (R S : A -> B -> Prop) :
  (forall x y, R x y <-> S x y) -> forall a b, Forall2 R a b <-> Forall2 S a b.
Proof.
  intros HRS a b. split; intro H; induction H; constructor; auto; apply HRS; assumption.
Qed.

Lemma Forall2_eq_iff {A} : forall a b : list A, Forall2 eq a b <-> a = b.
Proof.
  intros a b. split; intro H.
  - induction H; [reflexivity | subst; reflexivity].
  - subst b. induction a; constructor; auto.
Qed.

Lemma list_eqb_eq {A} (eqb : A -> A -> bool) :
  (forall x y, eqb x y = true <-> x = y) -> forall a b, list_eqb eqb a b = true <-> a = b.
Proof.
  intros Heq a b. rewrite list_eqb_Forall2, <- Forall2_eq_iff. apply Forall2_rel_iff. exact Heq.
Qed.

Lemma list_eqb_refl {A} (eqb : A -> A -> bool) :
  (forall x, eqb x x = true) -> forall a, list_eqb eqb a a = true.
Proof.
  intros Hr a. induction a as [|x a IH]; cbn [list_eqb]; [reflexivity|]. rewrite Hr, IH. reflexivity.
Qed.

Lemma list_eqb_sym {A} (eqb : A -> A -> bool) :
  (forall x y, eqb x y = eqb y x) -> forall a b, list_eqb eqb a b = list_eqb eqb b a.
Proof.
  intros Hs a. induction a as [|x a IH]; intros [|y b]; cbn [list_eqb]; try reflexivity.
  rewrite Hs, IH. reflexivity.
Qed.

Lemma Forall2_nth_error {A B} (R : A -> B -> Prop) : forall a b k x y,
  Forall2 R a b -> nth_error a k = Some x -> nth_error b k = Some y -> R x y.
Proof.
  intros a b k x y H. revert k. induction H as [|x0 y0 a b Hxy H IH]; intros [|k] Ha Hb; cbn in Ha, Hb; try discriminate.
  - inversion Ha; inversion Hb; subst. exact Hxy.
  - eapply IH; eassumption.
Qed.

Lemma Forall2_len {A B} (R : A -> B -> Prop) a b : Forall2 R a b -> length a = length b.
Proof. intro H. induction H; cbn; congruence. Qed.

(* ---------- the element equalities ---------- *)
Lemma fn_eqb_eq a b : fn_eqb a b = true <-> a = b.
Proof. destruct a, b; cbn; split; intro H; try reflexivity; try discriminate. Qed.

Lemma fn_eqb_refl a : fn_eqb a a = true.
Proof. destruct a; reflexivity. Qed.

Lemma fn_eqb_sym a b : fn_eqb a b = fn_eqb b a.
Proof. destruct a, b; reflexivity. Qed.

Lemma str_eqb_sym a b : str_eqb a b = str_eqb b a.
Proof.
  destruct (str_eqb a b) eqn:E1.
  - apply str_eqb_eq in E1. subst. symmetry. apply str_eqb_refl.
  - destruct (str_eqb b a) eqn:E2; [|reflexivity]. apply str_eqb_eq in E2. subst.
    rewrite str_eqb_refl in E1. discriminate.
Qed.

Lemma Qeq_bool_sym x y : Qeq_bool x y = Qeq_bool y x.
Proof.
  destruct (Qeq_bool x y) eqn:E1.
  - apply Qeq_bool_iff in E1. symmetry. apply Qeq_bool_iff. symmetry. exact E1.
  - destruct (Qeq_bool y x) eqn:E2; [|reflexivity]. apply Qeq_bool_iff in E2.
    assert (Qeq_bool x y = true) as E3 by (apply Qeq_bool_iff; symmetry; exact E2). congruence.
Qed.

Lemma val_eqb_refl a : val_eqb a a = true.
Proof. destruct a as [q|x|]; cbn; [apply Qeq_bool_refl | apply str_eqb_refl | reflexivity]. Qed.

Lemma val_eqb_sym a b : val_eqb a b = val_eqb b a.
Proof. destruct a as [q|x|], b as [q'|x'|]; cbn; try reflexivity; [apply Qeq_bool_sym | apply str_eqb_sym]. Qed.

Lemma mspec_eqb_refl a : mspec_eqb a a = true.
Proof. unfold mspec_eqb. rewrite !Qeq_bool_refl. reflexivity. Qed.

Lemma mspec_eqb_sym a b : mspec_eqb a b = mspec_eqb b a.
Proof. unfold mspec_eqb. rewrite (Qeq_bool_sym (fst a)), (Qeq_bool_sym (snd a)). reflexivity. Qed.

Lemma mspec_eqb_equiv a b : mspec_eqb a b = true <-> mspec_equiv a b.
Proof. unfold mspec_eqb, mspec_equiv. rewrite andb_true_iff, !Qeq_bool_iff. reflexivity. Qed.

(* ---------- sequencing entries ---------- *)
Lemma sqing_eq_iff : forall q q', sqing_eqb q q' = true <-> q = q'.
Proof.
  intros [a b c d e] [a' b' c' d' e']. unfold sqing_eqb. cbn.
  rewrite !andb_true_iff, !Z.eqb_eq. split.
  - intros [[[[-> ->] ->] ->] ->]. reflexivity.
  - intro H. inversion H. auto.
Qed.

(* ---------- blueprints ---------- *)
Lemma bp_eqb_true a b : bp_eqb a b = true <->
  list_eqb str_eqb (names a) (names b) = true /\ list_eqb fn_eqb (funs a) (funs b) = true /\
  list_eqb (list_eqb val_eqb) (args a) (args b) = true /\
  list_eqb mspec_eqb (am1 a) (am1 b) = true /\ list_eqb mspec_eqb (am2 a) (am2 b) = true /\
  list_eqb mspec_eqb (sm1 a) (sm1 b) = true /\ list_eqb mspec_eqb (sm2 a) (sm2 b) = true /\
  list_eqb val_eqb (durs a) (durs b) = true.
Proof. unfold bp_eqb. rewrite !andb_true_iff. tauto. Qed.

Lemma args_eqb_equiv x y : list_eqb (list_eqb val_eqb) x y = true <-> Forall2 (Forall2 val_equiv) x y.
Proof.
  rewrite list_eqb_Forall2. apply Forall2_rel_iff. intros u v. rewrite list_eqb_Forall2. reflexivity.
Qed.

Lemma mspecs_eqb_equiv x y : list_eqb mspec_eqb x y = true <-> Forall2 mspec_equiv x y.
Proof. rewrite list_eqb_Forall2. apply Forall2_rel_iff. exact mspec_eqb_equiv. Qed.

Lemma bp_eq_iff : forall a b, bp_eqb a b = true <-> bp_equiv a b.
Proof.
  intros a b. rewrite bp_eqb_true. unfold bp_equiv.
  rewrite (list_eqb_eq str_eqb str_eqb_eq), (list_eqb_eq fn_eqb fn_eqb_eq), args_eqb_equiv, !mspecs_eqb_equiv,
    (list_eqb_Forall2 val_eqb). unfold val_equiv. tauto.
Qed.

Lemma bp_eq_refl : forall a, bp_eqb a a = true.
Proof.
  intro a. unfold bp_eqb.
  rewrite (list_eqb_refl str_eqb str_eqb_refl), (list_eqb_refl fn_eqb fn_eqb_refl),
    (list_eqb_refl _ (list_eqb_refl val_eqb val_eqb_refl)), !(list_eqb_refl mspec_eqb mspec_eqb_refl),
    (list_eqb_refl val_eqb val_eqb_refl). reflexivity.
Qed.

Lemma bp_eq_sym : forall a b, bp_eqb a b = bp_eqb b a.
Proof.
  intros a b. unfold bp_eqb.
  rewrite (list_eqb_sym str_eqb str_eqb_sym (names a)), (list_eqb_sym fn_eqb fn_eqb_sym (funs a)),
    (list_eqb_sym _ (list_eqb_sym val_eqb val_eqb_sym) (args a)),
    (list_eqb_sym mspec_eqb mspec_eqb_sym (am1 a)), (list_eqb_sym mspec_eqb mspec_eqb_sym (am2 a)),
    (list_eqb_sym mspec_eqb mspec_eqb_sym (sm1 a)), (list_eqb_sym mspec_eqb mspec_eqb_sym (sm2 a)),
    (list_eqb_sym val_eqb val_eqb_sym (durs a)). reflexivity.
Qed.

Lemma bp_differs : forall a b,
  (names a <> names b \/ funs a <> funs b \/ length (durs a) <> length (durs b) \/
   (exists k x y, nth_error (durs a) k = Some x /\ nth_error (durs b) k = Some y /\ val_eqb x y = false) \/
   (exists k x y, nth_error (args a) k = Some x /\ nth_error (args b) k = Some y /\ list_eqb val_eqb x y = false) \/
   (exists k x y, nth_error (sm1 a) k = Some x /\ nth_error (sm1 b) k = Some y /\ mspec_eqb x y = false) \/
   (exists k x y, nth_error (sm2 a) k = Some x /\ nth_error (sm2 b) k = Some y /\ mspec_eqb x y = false) \/
   (exists k x y, nth_error (am1 a) k = Some x /\ nth_error (am1 b) k = Some y /\ mspec_eqb x y = false) \/
   (exists k x y, nth_error (am2 a) k = Some x /\ nth_error (am2 b) k = Some y /\ mspec_eqb x y = false)) ->
  bp_eqb a b = false.
Proof.
  intros a b H. destruct (bp_eqb a b) eqn:E; [exfalso | reflexivity].
  apply bp_eqb_true in E. destruct E as (En & Ef & Ea & Em1 & Em2 & Es1 & Es2 & Ed).
  apply (list_eqb_eq str_eqb str_eqb_eq) in En. apply (list_eqb_eq fn_eqb fn_eqb_eq) in Ef.
  apply list_eqb_Forall2 in Ea, Em1, Em2, Es1, Es2, Ed.
  destruct H as [H | [H | [H | [H | [H | [H | [H | [H | H]]]]]]]].
  - contradiction.
  - contradiction.
  - apply H. eapply Forall2_len. exact Ed.
  - destruct H as (k & x & y & Hx & Hy & Hxy).
    pose proof (Forall2_nth_error _ _ _ _ _ _ Ed Hx Hy) as C. cbv beta in C. congruence.
  - destruct H as (k & x & y & Hx & Hy & Hxy).
    pose proof (Forall2_nth_error _ _ _ _ _ _ Ea Hx Hy) as C. cbv beta in C. congruence.
  - destruct H as (k & x & y & Hx & Hy & Hxy).
    pose proof (Forall2_nth_error _ _ _ _ _ _ Es1 Hx Hy) as C. cbv beta in C. congruence.
  - destruct H as (k & x & y & Hx & Hy & Hxy).
    pose proof (Forall2_nth_error _ _ _ _ _ _ Es2 Hx Hy) as C. cbv beta in C. congruence.
  - destruct H as (k & x & y & Hx & Hy & Hxy).
    pose proof (Forall2_nth_error _ _ _ _ _ _ Em1 Hx Hy) as C. cbv beta in C. congruence.
  - destruct H as (k & x & y & Hx & Hy & Hxy).
    pose proof (Forall2_nth_error _ _ _ _ _ _ Em2 Hx Hy) as C. cbv beta in C. congruence.
Qed.

(* ---------- copy ---------- *)
Lemma map_basename_idem l : map basename (map basename l) = map basename l.
Proof. rewrite map_map. apply map_ext. intro s. apply basename_id, basename_no_digit. Qed.

Lemma copy_eq : forall b, Inv b -> bp_copy b = b /\ bp_eqb b (bp_copy b) = true.
Proof.
  intros b HI. assert (bp_copy b = b) as E.
  { destruct HI as (_ & _ & _ & _ & _ & Hn). unfold bp_copy.
    assert (uniquify (map basename (names b)) = names b) as En.
    { unfold uniquify. rewrite map_basename_idem.
      change (uniq_aux [] (map basename (names b))) with (uniquify (names b)). symmetry. exact Hn. }
    rewrite En. destruct b; reflexivity. }
  split; [exact E|]. rewrite E. apply bp_eq_refl.
Qed.

(* ---------- sequences ---------- *)
Lemma seq_eq_components : forall a b,
  seq_eqb a b = Ok true ->
  specs_eqb (sspecs a) (sspecs b) = true /\ length (sseq a) = length (sseq b) /\ length (sdata a) = length (sdata b) /\
  forall p q, In (p, q) (sseq a) -> exists q', alookup Z.eqb p (sseq b) = Some q' /\ sqing_eqb q q' = true.
Proof.
  intros a b H. unfold seq_eqb, seqT_eqb in H.
  destruct (Nat.eqb (length (sdata a)) (length (sdata b))) eqn:EL.
  2:{ cbn in H. discriminate. }
  destruct (data_eqb_aux entry_eqb (sdata a) (sdata b)) as [d|e] eqn:ED; unfold bind in H; [|discriminate].
  destruct d; cbn [negb] in H; [|discriminate].
  destruct (specs_eqb (sspecs a) (sspecs b)) eqn:ES; cbn [negb] in H; [|discriminate].
  injection H as H'. apply andb_true_iff in H' as [HL HF].
  apply Nat.eqb_eq in EL, HL. split; [reflexivity|]. split; [exact HL|]. split; [exact EL|].
  intros p q Hin. rewrite forallb_forall in HF. specialize (HF _ Hin). cbn [fst snd] in HF.
  destruct (alookup Z.eqb p (sseq b)) as [q'|]; [|discriminate]. exists q'. split; [reflexivity | exact HF].
Qed.

(* ---------- elements ---------- *)
Lemma flags_eqb_refl f : flags_eqb f f = true.
Proof. destruct f as [l|]; cbn; [apply list_eqb_refl, Z.eqb_refl | reflexivity]. Qed.

Lemma el_eqb_aux_iff b :
  (forall c ch, In (c, ch) (edata b) -> exists x, ckind ch = KBp x) -> forall l,
  (forall c ch, In (c, ch) l -> exists x, ckind ch = KBp x) ->
  (el_eqb_aux l b = Ok true <->
   forall c ch, In (c, ch) l ->
     exists ch' x y, el_lookup b c = Some ch' /\ ckind ch = KBp x /\ ckind ch' = KBp y /\ bp_eqb x y = true /\
                     flags_eqb (cflags ch) (cflags ch') = true).
Proof.
  intros Hb. induction l as [|[c ch] t IH]; intro Hl; cbn [el_eqb_aux].
  - split; [intros _ c ch [] | reflexivity].
  - destruct (Hl c ch (or_introl eq_refl)) as [x Hx].
    assert (IH' := IH (fun c0 ch0 Hin => Hl c0 ch0 (or_intror Hin))).
    destruct (el_lookup b c) as [ch2|] eqn:EL.
    + pose proof EL as EL'. unfold el_lookup in EL'. apply alookup_In in EL' as [c' Hin'].
      destruct (Hb _ _ Hin') as [y Hy].
      unfold ch_eqb. rewrite Hx, Hy. unfold bind.
      destruct (bp_eqb x y && flags_eqb (cflags ch) (cflags ch2)) eqn:EB.
      * rewrite IH'. apply andb_true_iff in EB as [EB1 EB2]. split.
        -- intros H c0 ch0 [E0|Hin].
           ++ inversion E0; subst. exists ch2, x, y. rewrite EL. auto.
           ++ apply H; exact Hin.
        -- intros H c0 ch0 Hin. apply H. right; exact Hin.
      * split; [discriminate|]. intro H.
        destruct (H c ch (or_introl eq_refl)) as (ch' & x' & y' & L & K1 & K2 & B & F).
        rewrite EL in L. inversion L; subst ch'. rewrite Hx in K1. rewrite Hy in K2.
        inversion K1; inversion K2; subst. rewrite B, F in EB. discriminate.
    + split; [discriminate|]. intro H.
      destruct (H c ch (or_introl eq_refl)) as (ch' & _ & _ & L & _). rewrite EL in L; discriminate.
Qed.

Lemma el_eq_iff : forall a b,
  (forall c ch, In (c, ch) (edata a) -> exists x, ckind ch = KBp x) ->
  (forall c ch, In (c, ch) (edata b) -> exists x, ckind ch = KBp x) ->
  NoDup (map fst (edata a)) -> NoDup (map fst (edata b)) ->
  (el_eqb a b = Ok true <->
   (length (edata a) = length (edata b) /\
    forall c ch, In (c, ch) (edata a) ->
      exists ch' x y, el_lookup b c = Some ch' /\ ckind ch = KBp x /\ ckind ch' = KBp y /\ bp_eqb x y = true /\
                      flags_eqb (cflags ch) (cflags ch') = true)).
Proof.
  intros a b Ha Hb _ _. unfold el_eqb.
  destruct (Nat.eqb (length (edata a)) (length (edata b))) eqn:E; cbn [negb].
  - apply Nat.eqb_eq in E. rewrite (el_eqb_aux_iff b Hb (edata a) Ha). split.
    + intro H. split; [exact E | exact H].
    + intros [_ H]. exact H.
  - apply Nat.eqb_neq in E. split; [discriminate|]. intros [L _]. contradiction.
Qed.

Lemma alookup_NoDup c (ch : chentry) : forall l,
  NoDup (map fst l) -> In (c, ch) l -> alookup chan_eqb c l = Some ch.
Proof.
  induction l as [|[c' ch'] t IH]; intros ND Hin; [destruct Hin|].
  cbn [map fst] in ND. inversion ND as [|? ? Hnin ND']; subst. cbn [alookup].
  destruct Hin as [E|Hin].
  - inversion E; subst. rewrite (proj2 (chan_eqb_eq c c) eq_refl). reflexivity.
  - destruct (chan_eqb c c') eqn:EC.
    + apply chan_eqb_eq in EC. subst c'. exfalso. apply Hnin.
      apply in_map_iff. exists (c, ch). split; [reflexivity | exact Hin].
    + apply IH; assumption.
Qed.

Lemma el_eq_refl : forall a,
  (forall c ch, In (c, ch) (edata a) -> exists x, ckind ch = KBp x) -> NoDup (map fst (edata a)) -> el_eqb a a = Ok true.
Proof.
  intros a Ha ND. apply (el_eq_iff a a Ha Ha ND ND). split; [reflexivity|].
  intros c ch Hin. destruct (Ha c ch Hin) as [x Hx]. exists ch, x, x.
  unfold el_lookup. rewrite (alookup_NoDup c ch (edata a) ND Hin).
  repeat split; try assumption; [apply bp_eq_refl | apply flags_eqb_refl].
Qed.

(* ---------- descriptions ---------- *)
Definition kvR (a b : pv * pv) : Prop := pv_equiv (fst a) (fst b) /\ pv_equiv (snd a) (snd b).

Lemma Forall2_map2 {A B C D} (R : A -> B -> Prop) (S : C -> D -> Prop) (f : A -> C) (g : B -> D) :
  (forall x y, R x y -> S (f x) (g y)) -> forall l l', Forall2 R l l' -> Forall2 S (map f l) (map g l').
Proof. intros H l l' HF. induction HF; cbn [map]; constructor; auto. Qed.

Lemma pv_of_val_equiv v v' : val_equiv v v' -> pv_equiv (pv_of_val v) (pv_of_val v').
Proof.
  unfold val_equiv. destruct v as [q|x|], v' as [q'|x'|]; cbn; intro H; try discriminate.
  - apply pe_num. apply Qeq_bool_iff. exact H.
  - apply str_eqb_eq in H. subst. apply pe_str.
  - apply pe_none.
Qed.

Lemma pv_of_mspec_equiv m m' : mspec_equiv m m' -> pv_equiv (pv_of_mspec m) (pv_of_mspec m').
Proof.
  intros [H1 H2]. unfold pv_of_mspec. apply pe_tuple.
  constructor; [apply pe_num; exact H1|]. constructor; [apply pe_num; exact H2|]. constructor.
Qed.

Lemma zipd_equiv : forall vs vs' ks, Forall2 val_equiv vs vs' -> Forall2 kvR (zipd ks vs) (zipd ks vs').
Proof.
  intros vs vs' ks H. revert ks. induction H as [|v v' vs vs' Hv H IH]; intros [|k ks]; unfold zipd; cbn [combine map];
    try constructor.
  - split; cbn [fst snd]; [apply pe_str | apply pv_of_val_equiv; exact Hv].
  - apply IH.
Qed.

Lemma descr_segs_equiv : forall ns fs ars ars' ds ds' k,
  Forall2 (Forall2 val_equiv) ars ars' -> Forall2 val_equiv ds ds' ->
  Forall2 kvR (bp_descr_segs k ns fs ars ds) (bp_descr_segs k ns fs ars' ds').
Proof.
  induction ns as [|n ns IH]; intros fs ars ars' ds ds' k Ha Hd; cbn [bp_descr_segs]; [constructor|].
  destruct fs as [|f fs]; [constructor|].
  destruct Ha as [|a a' ars ars' Haa Ha]; [constructor|].
  destruct Hd as [|d d' ds ds' Hdd Hd]; [constructor|].
  constructor; [|apply IH; assumption].
  split; cbn [fst snd]; [apply pe_str|].
  apply pe_dict. unfold pstr.
  constructor; [split; cbn [fst snd]; apply pe_str|].
  constructor; [split; cbn [fst snd]; apply pe_str|].
  constructor; [split; cbn [fst snd]; [apply pe_str | apply pv_of_val_equiv; exact Hdd]|].
  constructor; [|constructor].
  split; cbn [fst snd]; [apply pe_str|].
  destruct (fn_eqb f Fwait).
  - apply pe_dict. constructor; [|constructor]. split; cbn [fst snd]; [apply pe_str|]. apply pe_tuple.
    apply (Forall2_map2 val_equiv pv_equiv pv_of_val pv_of_val pv_of_val_equiv). exact Haa.
  - apply pe_dict. apply zipd_equiv. exact Haa.
Qed.

Lemma mspecs_descr_equiv l l' : Forall2 mspec_equiv l l' ->
  pv_equiv (PList (map pv_of_mspec l)) (PList (map pv_of_mspec l')).
Proof.
  intro H. apply pe_list. apply (Forall2_map2 mspec_equiv pv_equiv pv_of_mspec pv_of_mspec pv_of_mspec_equiv). exact H.
Qed.

Lemma bp_eq_descr : forall a b, bp_eqb a b = true -> pv_equiv (bp_descr a) (bp_descr b).
Proof.
  intros a b H. apply bp_eq_iff in H. destruct H as (Hn & Hf & Ha & Hd & Hs1 & Hs2 & Ha1 & Ha2).
  unfold bp_descr. rewrite <- Hn, <- Hf. apply pe_dict. apply Forall2_app.
  - apply descr_segs_equiv; assumption.
  - unfold pstr.
    constructor; [split; cbn [fst snd]; [apply pe_str | apply mspecs_descr_equiv; assumption]|].
    constructor; [split; cbn [fst snd]; [apply pe_str | apply mspecs_descr_equiv; assumption]|].
    constructor; [split; cbn [fst snd]; [apply pe_str | apply mspecs_descr_equiv; assumption]|].
    constructor; [split; cbn [fst snd]; [apply pe_str | apply mspecs_descr_equiv; assumption]|].
    constructor.
Qed.

(* ---------- forging: every stage respects numeric equality ---------- *)
Definition res_rel {A} (R : A -> A -> Prop) (r r' : result A) : Prop :=
  match r, r' with Ok x, Ok y => R x y | Err e, Err e' => e = e' | _, _ => False end.

Lemma res_rel_bind {A B} (R : A -> A -> Prop) (S : B -> B -> Prop) r r' f f' :
  res_rel R r r' -> (forall x y, R x y -> res_rel S (f x) (f' y)) -> res_rel S (bind r f) (bind r' f').
Proof.
  intros Hr Hf. destruct r as [x|e], r' as [y|e']; cbn [res_rel] in Hr; try contradiction; unfold bind.
  - apply Hf. exact Hr.
  - cbn [res_rel]. exact Hr.
Qed.

Definition oq_equiv (a b : option Q) : Prop :=
  match a, b with Some x, Some y => (x == y)%Q | None, None => True | _, _ => False end.

Lemma rnd_comp x y : (x == y)%Q -> rnd x = rnd y.
Proof.
  intro H. unfold rnd. rewrite (Qfloor_comp x y H).
  assert (x - inject_Z (Qfloor y) == y - inject_Z (Qfloor y))%Q as H' by (rewrite H; reflexivity).
  rewrite (Qcompare_comp _ _ H' _ _ (Qeq_refl (1 # 2))). reflexivity.
Qed.

Lemma resolve_waits_equiv : forall fs ars ars' ds ds' el el',
  Forall2 (Forall2 val_equiv) ars ars' -> Forall2 val_equiv ds ds' -> oq_equiv el el' ->
  res_rel (Forall2 val_equiv) (resolve_waits_aux fs ars ds el) (resolve_waits_aux fs ars' ds' el').
Proof.
  induction fs as [|f fs IH]; intros ars ars' ds ds' el el' Ha Hd He; cbn [resolve_waits_aux].
  - cbn [res_rel]. constructor.
  - destruct Ha as [|a a' ars ars' Haa Ha]; [cbn [res_rel]; constructor|].
    destruct Hd as [|d d' ds ds' Hdd Hd]; [cbn [res_rel]; constructor|].
    destruct (fn_eqb f Fwait).
    + destruct el as [q|], el' as [q'|]; cbn [oq_equiv] in He; try contradiction; [|cbn [res_rel]; reflexivity].
      destruct Haa as [|v v' a a' Hv Haa]; [cbn [res_rel]; reflexivity|].
      unfold val_equiv in Hv.
      destruct v as [w|x|], v' as [w'|x'|]; cbn [val_eqb] in Hv; try discriminate; try (cbn [res_rel]; reflexivity).
      apply Qeq_bool_iff in Hv.
      destruct (Qlt_le_dec (w - q) 0) as [L|L], (Qlt_le_dec (w' - q') 0) as [L'|L'].
      * cbn [res_rel]. reflexivity.
      * exfalso. lra.
      * exfalso. lra.
      * apply (res_rel_bind (Forall2 val_equiv)).
        -- apply IH; [exact Ha | exact Hd | cbn [oq_equiv]; exact Hv].
        -- intros r r' Hr. cbn [res_rel]. constructor; [|exact Hr].
           unfold val_equiv. cbn [val_eqb]. apply Qeq_bool_iff. lra.
    + apply (res_rel_bind (Forall2 val_equiv)).
      * apply IH; [exact Ha | exact Hd |].
        unfold val_equiv in Hdd.
        destruct el as [q|], el' as [q'|]; cbn [oq_equiv] in He; try contradiction;
          destruct d as [w|x|], d' as [w'|x'|]; cbn [val_eqb] in Hdd; try discriminate; cbn [oq_equiv]; try exact I.
        apply Qeq_bool_iff in Hdd. lra.
      * intros r r' Hr. cbn [res_rel]. constructor; [exact Hdd | exact Hr].
Qed.

Lemma int_durs_equiv SR SR' : (SR == SR')%Q -> forall ds ds',
  Forall2 val_equiv ds ds' -> res_rel eq (int_durs SR ds) (int_durs SR' ds').
Proof.
  intros HS ds ds' H. induction H as [|d d' ds ds' Hd H IH]; cbn [int_durs]; [cbn [res_rel]; reflexivity|].
  unfold val_equiv in Hd.
  destruct d as [w|x|], d' as [w'|x'|]; cbn [val_eqb] in Hd; try discriminate; try (cbn [res_rel]; reflexivity).
  apply Qeq_bool_iff in Hd. cbv zeta.
  assert (rnd (w * SR) = rnd (w' * SR')) as E by (apply rnd_comp; rewrite Hd, HS; reflexivity).
  rewrite <- E. destruct (rnd (w * SR) <? min_points)%Z; [cbn [res_rel]; reflexivity|].
  apply (res_rel_bind eq); [exact IH|]. intros r r' <-. cbn [res_rel]. reflexivity.
Qed.

Lemma mk_blocks_equiv SR SR' : (SR == SR')%Q -> forall fs ars ars' ns,
  Forall2 (Forall2 val_equiv) ars ars' ->
  res_rel (Forall2 block_equiv) (mk_blocks fs ars ns SR) (mk_blocks fs ars' ns SR').
Proof.
  intros HS. induction fs as [|f fs IH]; intros ars ars' ns Ha; cbn [mk_blocks]; [cbn [res_rel]; constructor|].
  destruct Ha as [|a a' ars ars' Haa Ha]; [cbn [res_rel]; constructor|].
  destruct ns as [|n ns]; [cbn [res_rel]; constructor|].
  rewrite <- (Forall2_len _ _ _ Haa).
  destruct (Nat.eqb (length a) (fn_arity f)); [|cbn [res_rel]; reflexivity].
  apply (res_rel_bind (Forall2 block_equiv)); [apply IH; exact Ha|].
  intros r r' Hr. cbn [res_rel]. constructor; [|exact Hr].
  unfold block_equiv. cbn [bfn bargs bsr bn]. repeat split; assumption.
Qed.

Lemma seg_specs_equiv SR SR' : (SR == SR')%Q -> forall sm sm' sts,
  Forall2 mspec_equiv sm sm' -> Forall2 mspec_equiv (seg_specs SR sts sm) (seg_specs SR' sts sm').
Proof.
  intros HS sm sm' sts H. revert sts.
  induction H as [|[dl ln] [dl' ln'] sm sm' Hm H IH]; intros [|st sts]; cbn [seg_specs]; try constructor.
  destruct Hm as [H1 H2]. cbn [fst snd] in H1, H2.
  assert (Qeq_bool ln 0 = Qeq_bool ln' 0) as E by (rewrite H2; reflexivity).
  rewrite <- E. destruct (Qeq_bool ln 0); [apply IH|].
  constructor; [|apply IH]. split; cbn [fst snd]; [|exact H2]. rewrite HS, H1. reflexivity.
Qed.

Lemma nearest_fast_comp N SR SR' t t' : (SR == SR')%Q -> (t == t')%Q -> nearest_fast N SR t = nearest_fast N SR' t'.
Proof.
  intros HS Ht. unfold nearest_fast. cbv zeta.
  assert (t * SR == t' * SR')%Q as Hx by (rewrite HS, Ht; reflexivity).
  rewrite (Qfloor_comp _ _ Hx).
  assert (Qle_bool (t * SR) 0 = Qle_bool (t' * SR') 0) as E1 by (rewrite Hx; reflexivity).
  assert (Qle_bool (t * SR - inject_Z (Qfloor (t' * SR'))) (1 # 2) =
          Qle_bool (t' * SR' - inject_Z (Qfloor (t' * SR'))) (1 # 2)) as E2 by (rewrite Hx; reflexivity).
  rewrite E1, E2. reflexivity.
Qed.

Lemma window_equiv N SR SR' m m' : (SR == SR')%Q -> mspec_equiv m m' -> window N SR m = window N SR' m'.
Proof.
  intros HS [H1 H2]. unfold window. cbv zeta.
  rewrite (nearest_fast_comp N SR SR' (fst m) (fst m') HS H1).
  assert (rnd (snd m * SR) = rnd (snd m' * SR')) as E by (apply rnd_comp; rewrite H2, HS; reflexivity).
  rewrite E. reflexivity.
Qed.

Lemma map_window_equiv N SR SR' l l' : (SR == SR')%Q -> Forall2 mspec_equiv l l' ->
  map (window N SR) l = map (window N SR') l'.
Proof.
  intros HS H. induction H as [|m m' l l' Hm H IH]; cbn [map]; [reflexivity|].
  rewrite (window_equiv N SR SR' m m' HS Hm), IH. reflexivity.
Qed.

Lemma newdurs_equiv SR SR' ns : (SR == SR')%Q ->
  Forall2 Qeq (map (fun n => (inject_Z n / SR)%Q) ns) (map (fun n => (inject_Z n / SR')%Q) ns).
Proof.
  intro HS. induction ns as [|n ns IH]; cbn [map]; constructor; [|exact IH]. rewrite HS. reflexivity.
Qed.

Lemma bp_eq_forge : forall a b SR SR',
  bp_eqb a b = true -> (SR == SR')%Q ->
  match forge_bp_with a SR (durs a), forge_bp_with b SR' (durs b) with
  | Ok f, Ok g => forged_equiv f g
  | Err e, Err e' => e = e'
  | _, _ => False
  end.
Proof.
  intros a b SR SR' H HS.
  change (res_rel forged_equiv (forge_bp_with a SR (durs a)) (forge_bp_with b SR' (durs b))).
  apply bp_eq_iff in H. destruct H as (Hn & Hf & Ha & Hd & Hs1 & Hs2 & Ha1 & Ha2).
  unfold forge_bp_with. rewrite <- Hf.
  apply (res_rel_bind (Forall2 val_equiv)).
  { apply resolve_waits_equiv; [exact Ha | exact Hd | cbn [oq_equiv]; reflexivity]. }
  intros ds ds' Hds.
  apply (res_rel_bind eq); [apply int_durs_equiv; assumption|]. intros ns ns' <-.
  apply (res_rel_bind (Forall2 block_equiv)); [apply mk_blocks_equiv; assumption|]. intros bl bl' Hbl.
  cbv zeta. cbn [res_rel]. unfold forged_equiv. cbn [fblocks fN fm1 fm2 fnewdurs].
  split; [exact Hbl|]. split; [reflexivity|].
  split.
  { f_equal. apply map_window_equiv; [exact HS|]. apply Forall2_app; [exact Ha1|]. apply seg_specs_equiv; assumption. }
  split.
  { f_equal. apply map_window_equiv; [exact HS|]. apply Forall2_app; [exact Ha2|]. apply seg_specs_equiv; assumption. }
  apply newdurs_equiv. exact HS.
Qed.
