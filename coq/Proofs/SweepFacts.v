(* Content theorems for the sweep tools makeLinearlyVaryingSequence and repeatAndVarySequence (Model/Tools.v)
   behind Props/C17b.v.  Definitions used by the statements come first in every part; lemmas follow. *)
From Coq Require Import String Ascii List Arith ZArith QArith Qabs Bool Lia Permutation FinFun.
From BB Require Import Base.Names Base.Num Base.PyList Model.Types Model.Blueprint Model.Forge Model.Element
  Model.PyVal Model.Sequence Model.Tools Proofs.BlueprintFacts Proofs.SequenceFacts Proofs.AddFacts
  Proofs.ToolsFacts Proofs.ReachFacts.
Import ListNotations.

(* ===================================================================================================== *)
(* Part 1: makeLinearlyVaryingSequence                                                                     *)
(* ===================================================================================================== *)

(* the values of the sweep: np.linspace(start, stop, round(|stop - start| / step) + 1) *)
Definition lin_vals (start stop stp : Q) : list Q := linspace start stop (rnd (Qabs (stop - start) / stp) + 1).

(* one step of the sweep: the one edit on (a copy of) the base element, then addElement's validation *)
Definition lin_step (base : elem) (c : chan) (n : str) (a : argref) (v : Q) : result elem :=
  match el_vary base c n a (VNum v) with
  | (e', None) => do _ <- el_validate e'; Ok e'
  | (_, Some er) => Err er
  end.

(* the sequence holding the elements es at positions 1..len(es), default sequencing everywhere, the sample rate the
   only setting, no name *)
Definition lin_seq (SR : val) (es : list elem) : seq :=
  mkSeq (combine (range1 (length es)) (map EElem es))
        (map (fun k : Z => (k, sq_default)) (range1 (length es)))
        [(key_sr, SVal SR)] [].

(* ---- generic list helpers ---- *)
Lemma mapM_length {A B} (f : A -> result B) : forall l ys, mapM f l = Ok ys -> length ys = length l.
Proof.
  induction l as [|x t IH]; intros ys H; cbn [mapM] in H.
  - injection H as <-. reflexivity.
  - destruct (f x) as [y|e]; cbn [bind] in H; [|discriminate].
    destruct (mapM f t) as [r|e] eqn:Et; cbn [bind] in H; [|discriminate].
    injection H as <-. cbn [length]. f_equal. apply IH. reflexivity.
Qed.

Lemma mapM_F2 {A B} (f : A -> result B) : forall l ys, mapM f l = Ok ys -> Forall2 (fun x y => f x = Ok y) l ys.
Proof.
  induction l as [|x t IH]; intros ys H; cbn [mapM] in H.
  - injection H as <-. constructor.
  - destruct (f x) as [y|e] eqn:Ex; cbn [bind] in H; [|discriminate].
    destruct (mapM f t) as [r|e] eqn:Et; cbn [bind] in H; [|discriminate].
    injection H as <-. constructor; [exact Ex|]. apply IH. reflexivity.
Qed.

(* mapM stops at the first failing item *)
Lemma mapM_first_err {A B} (f : A -> result B) : forall l k x er,
  nth_error l k = Some x -> f x = Err er ->
  (forall j w, (j < k)%nat -> nth_error l j = Some w -> exists y, f w = Ok y) ->
  mapM f l = Err er.
Proof.
  induction l as [|x0 t IH]; intros k x er Hn Hx Hbefore.
  - destruct k; discriminate.
  - destruct k as [|k]; cbn [nth_error] in Hn.
    + injection Hn as ->. cbn [mapM]. rewrite Hx. reflexivity.
    + cbn [mapM]. destruct (Hbefore 0%nat x0) as [y Hy]; [lia|reflexivity|].
      rewrite Hy. cbn [bind]. rewrite (IH k x er Hn Hx); [reflexivity|].
      intros j w Hj Hw. apply (Hbefore (S j) w); [lia|exact Hw].
Qed.

Lemma Forall2_nth_l {A B} (R : A -> B -> Prop) : forall l l' k x,
  Forall2 R l l' -> nth_error l k = Some x -> exists y, nth_error l' k = Some y /\ R x y.
Proof.
  intros l l' k x H. revert k x. induction H as [|a b l l' Hab H IH]; intros k x Hn.
  - destruct k; discriminate.
  - destruct k as [|k]; cbn [nth_error] in *.
    + injection Hn as ->. exists b. split; [reflexivity|exact Hab].
    + apply IH. exact Hn.
Qed.

Lemma Forall2_length' {A B} (R : A -> B -> Prop) l l' : Forall2 R l l' -> length l = length l'.
Proof. induction 1; cbn [length]; congruence. Qed.

Lemma Forall2_imp {A B} (R R' : A -> B -> Prop) l l' :
  (forall x y, R x y -> R' x y) -> Forall2 R l l' -> Forall2 R' l l'.
Proof. intros HR H. induction H; constructor; auto. Qed.

Lemma Forall2_Forall_r {A B} (R : A -> B -> Prop) (P : B -> Prop) l l' :
  Forall2 R l l' -> (forall x y, R x y -> P y) -> Forall P l'.
Proof. intros H HP. induction H; constructor; eauto. Qed.

Lemma nth_error_combine {A B} : forall (l1 : list A) (l2 : list B) k a b,
  nth_error l1 k = Some a -> nth_error l2 k = Some b -> nth_error (combine l1 l2) k = Some (a, b).
Proof.
  induction l1 as [|x l1 IH]; intros l2 k a b H1 H2; [destruct k; discriminate|].
  destruct l2 as [|y l2]; [destruct k; discriminate|].
  destruct k as [|k]; cbn [nth_error combine] in *.
  - injection H1 as ->. injection H2 as ->. reflexivity.
  - apply IH; assumption.
Qed.

Lemma map_snd_combine {A B} : forall (l1 : list A) (l2 : list B), length l1 = length l2 -> map snd (combine l1 l2) = l2.
Proof.
  induction l1 as [|x l1 IH]; intros [|y l2] H; cbn [combine map snd]; try reflexivity; try discriminate.
  f_equal. apply IH. cbn [length] in H. lia.
Qed.

Lemma alookup_combine_seq {B} : forall (xs : list B) a k x,
  nth_error xs k = Some x ->
  alookup Z.eqb (Z.of_nat (a + k) + 1)%Z (combine (map (fun j => (Z.of_nat j + 1)%Z) (List.seq a (length xs))) xs) = Some x.
Proof.
  induction xs as [|y xs IH]; intros a k x H; [destruct k; discriminate|].
  cbn [length List.seq map combine alookup]. destruct k as [|k]; cbn [nth_error] in H.
  - injection H as ->. rewrite Nat.add_0_r, Z.eqb_refl. reflexivity.
  - destruct (Z.eqb_spec (Z.of_nat (a + S k) + 1) (Z.of_nat a + 1)) as [E|_]; [lia|].
    replace (a + S k)%nat with (S a + k)%nat by lia. apply IH. exact H.
Qed.

Lemma alookup_combine_range1 {B} (xs : list B) k x :
  nth_error xs k = Some x -> alookup Z.eqb (Z.of_nat k + 1)%Z (combine (range1 (length xs)) xs) = Some x.
Proof. intro H. exact (alookup_combine_seq xs 0%nat k x H). Qed.

Lemma alookup_const_map {V} (d : V) : forall ks p, In p ks -> alookup Z.eqb p (map (fun k : Z => (k, d)) ks) = Some d.
Proof.
  induction ks as [|k ks IH]; intros p H; [contradiction|].
  cbn [map alookup]. destruct (Z.eqb_spec p k) as [_|Hne]; [reflexivity|].
  apply IH. destruct H as [H|H]; [congruence|exact H].
Qed.

Lemma nth_error_range1 n k : (k < n)%nat -> nth_error (range1 n) k = Some (Z.of_nat k + 1)%Z.
Proof. intro H. unfold range1. rewrite (nth_error_map_seq (fun j => (Z.of_nat j + 1)%Z) n 0 k H). reflexivity. Qed.

(* ---- the loop of make_linear, in closed form ---- *)
Lemma linear_loop_eq base c n a : forall ks vs acc,
  length ks = length vs -> NoDup ks ->
  (forall k, In k ks -> ~ In k (akeys (sdata acc)) /\ ~ In k (akeys (sseq acc))) ->
  linear_loop base c n a (combine ks vs) acc =
  (do es <- mapM (lin_step base c n a) vs;
   Ok (mkSeq (sdata acc ++ combine ks (map EElem es)) (sseq acc ++ map (fun k : Z => (k, sq_default)) ks)
             (sspecs acc) (sname acc))).
Proof.
  induction ks as [|k ks IH]; intros vs acc Hlen Hnd Hfresh.
  - destruct vs; [|discriminate]. cbn [combine linear_loop mapM bind map]. rewrite !app_nil_r.
    destruct acc; reflexivity.
  - destruct vs as [|v vs]; [discriminate|]. cbn [combine]. rewrite linear_loop_cons.
    cbn [mapM]. unfold lin_step at 1.
    destruct (el_vary base c n a (VNum v)) as [e' [er|]]; [reflexivity|].
    unfold seq_add_element. destruct (el_validate e') as [r|er]; [|reflexivity].
    cbn [ok step_res bind].
    destruct (Hfresh k (or_introl eq_refl)) as [Hk1 Hk2].
    inversion Hnd as [|k0 t0 Hnk Hnd']; subst.
    rewrite IH.
    + cbn [sdata sseq sspecs sname].
      rewrite (AddFacts.aset_notin k (EElem e') (sdata acc) Hk1), (AddFacts.aset_notin k sq_default (sseq acc) Hk2).
      destruct (mapM (lin_step base c n a) vs) as [es|er]; cbn [bind]; [|reflexivity].
      cbn [map combine]. rewrite <- !app_assoc. reflexivity.
    + cbn [length] in Hlen. lia.
    + exact Hnd'.
    + intros k' Hk'. cbn [sdata sseq].
      rewrite (AddFacts.aset_notin k (EElem e') (sdata acc) Hk1), (AddFacts.aset_notin k sq_default (sseq acc) Hk2).
      rewrite !AddFacts.akeys_app. cbn [akeys map fst].
      destruct (Hfresh k' (or_intror Hk')) as [H1 H2].
      split; intro Hin; apply in_app_or in Hin as [Hin|[Hin|[]]]; try contradiction; subst k'; contradiction.
Qed.

(* the complete behaviour of make_linear, errors included *)
Lemma make_linear_eq : forall base c n a start stop stp,
  make_linear base c n a start stop stp =
  (do SR <- el_sr base;
   if Qeq_bool stp 0 then Err EZeroDiv else
   if (rnd (Qabs (stop - start) / stp) + 1 <? 0)%Z then Err EValue else
   do es <- mapM (lin_step base c n a) (lin_vals start stop stp); Ok (lin_seq SR es)).
Proof.
  intros base c n a start stop stp. unfold make_linear.
  destruct (el_sr base) as [SR|er]; cbn [bind]; [|reflexivity].
  destruct (Qeq_bool stp 0); [reflexivity|].
  destruct (rnd (Qabs (stop - start) / stp) + 1 <? 0)%Z; [reflexivity|].
  fold (lin_vals start stop stp). set (vals := lin_vals start stop stp).
  change (linear_loop base c n a (combine (range1 (length vals)) vals) (seq_set_sr seq_empty SR) =
          (do es <- mapM (lin_step base c n a) vals; Ok (lin_seq SR es))).
  rewrite linear_loop_eq.
  - destruct (mapM (lin_step base c n a) vals) as [es|er] eqn:Em; cbn [bind]; [|reflexivity].
    unfold lin_seq. rewrite (mapM_length _ _ _ Em). reflexivity.
  - apply ToolsFacts.range1_length.
  - apply ToolsFacts.range1_NoDup.
  - intros k _. split; intros [].
Qed.

(* ---- one variation step keeps the element's channel ids and every channel's sample rate ---- *)
Lemma sr_change_arg_one b n a v : sr (fst (fst (change_arg_one b n a v))) = sr b.
Proof.
  unfold change_arg_one.
  destruct (name_idx n b) as [p|]; [|reflexivity].
  destruct (nth_error (funs b) p) as [f|]; [|reflexivity].
  destruct (nth_error (args b) p) as [larg|]; [|reflexivity].
  destruct (fn_eqb f Fwait); [reflexivity|]. cbv zeta.
  destruct a as [z|x].
  - destruct ((0 <=? z) && (z <? Z.of_nat (length (fn_params f)) - 2))%Z; [|reflexivity].
    destruct (Nat.ltb (Z.to_nat z) (length larg)); reflexivity.
  - destruct (index_of str_eqb x (fn_params f)) as [i|]; [|reflexivity].
    destruct (Nat.ltb i (length larg)); reflexivity.
Qed.

Lemma sr_change_arg b n a v : sr (fst (bp_change_arg b n a v false)) = sr b.
Proof.
  unfold bp_change_arg, replace_list.
  destruct (name_idx n b); [|reflexivity]. cbn [change_arg_loop].
  pose proof (sr_change_arg_one b n a v) as H.
  destruct (change_arg_one b n a v) as [[b' a'] [e|]]; cbn [fst] in *; exact H.
Qed.

Lemma sr_change_dur_one b n q : sr (fst (change_dur_one b n q)) = sr b.
Proof.
  unfold change_dur_one. destruct (name_idx n b) as [p|]; [|reflexivity].
  destruct (Qle_bool q 0); [reflexivity|].
  destruct (match sr b with VNum s => negb (Qle_bool 1 (q * s)) | _ => false end); reflexivity.
Qed.

Lemma sr_change_dur b n d : sr (fst (bp_change_dur b n d false)) = sr b.
Proof.
  unfold bp_change_dur, replace_list. destruct d as [q|x|]; try reflexivity.
  destruct (name_idx n b); [|reflexivity]. cbn [change_dur_loop].
  pose proof (sr_change_dur_one b n q) as H.
  destruct (change_dur_one b n q) as [b' [e|]]; cbn [fst] in *; exact H.
Qed.

(* a successful step rewrites the addressed channel's blueprint and nothing else of the element *)
Lemma el_vary_shape e c n a v e' :
  el_vary e c n a v = (e', None) ->
  exists ch b b', el_lookup e c = Some ch /\ ckind ch = KBp b /\ sr b' = sr b /\
                  e' = el_set e c (mkCh (KBp b') (cflags ch)).
Proof.
  unfold el_vary, el_change_dur, el_change_arg, el_on_bp. intro H.
  destruct (el_lookup e c) as [ch|] eqn:El; [|destruct (is_duration a); discriminate].
  destruct (ckind ch) as [b|arrs asr] eqn:Ek; [|destruct (is_duration a); discriminate].
  exists ch, b. destruct (is_duration a).
  - pose proof (sr_change_dur b n v) as Hs.
    destruct (bp_change_dur b n v false) as [b' r]. cbn [fst] in Hs. injection H as <- ->.
    exists b'. auto.
  - pose proof (sr_change_arg b n a v) as Hs.
    destruct (bp_change_arg b n a v false) as [b' r]. cbn [fst] in Hs. injection H as <- ->.
    exists b'. auto.
Qed.

Lemma akeys_aset_chan (x : chentry) c : forall l ch,
  alookup chan_eqb c l = Some ch -> akeys (aset chan_eqb c x l) = akeys l.
Proof.
  induction l as [|[k v] l IH]; intros ch H; cbn [alookup aset] in *; [discriminate|].
  destruct (chan_eqb c k) eqn:E; cbn [akeys map fst].
  - apply chan_eqb_spec in E. subst k. reflexivity.
  - f_equal. apply (IH ch). exact H.
Qed.

Lemma mapM_avals_aset_chan {B} (g : chentry -> result B) (x : chentry) c : forall l ch,
  alookup chan_eqb c l = Some ch -> g x = g ch ->
  mapM g (avals (aset chan_eqb c x l)) = mapM g (avals l).
Proof.
  induction l as [|[k v] l IH]; intros ch H Hg; cbn [alookup aset] in *; [discriminate|].
  destruct (chan_eqb c k) eqn:E; cbn [avals map snd mapM].
  - injection H as ->. rewrite Hg. reflexivity.
  - unfold avals in IH. rewrite (IH ch H Hg). reflexivity.
Qed.

Lemma el_vary_channels e c n a v e' : el_vary e c n a v = (e', None) -> el_channels e' = el_channels e.
Proof.
  intro H. apply el_vary_shape in H as (ch & b & b' & El & _ & _ & ->).
  unfold el_channels, el_set. cbn [edata]. apply (akeys_aset_chan _ c _ ch). exact El.
Qed.

Lemma el_vary_rates e c n a v e' :
  el_vary e c n a v = (e', None) -> mapM ch_sr (avals (edata e')) = mapM ch_sr (avals (edata e)).
Proof.
  intro H. apply el_vary_shape in H as (ch & b & b' & El & Ek & Hs & ->).
  unfold el_set. cbn [edata]. apply (mapM_avals_aset_chan ch_sr _ c _ ch El).
  unfold ch_sr. cbn [ckind]. rewrite Ek, Hs. reflexivity.
Qed.

Lemma validate_fst e r :
  el_validate e = Ok r -> exists SRs, mapM ch_sr (avals (edata e)) = Ok SRs /\ fst r = hd VNone SRs.
Proof.
  unfold el_validate. intro H.
  destruct (avals (edata e)) as [|ch0 chs]; [discriminate|].
  destruct (mapM ch_sr (ch0 :: chs)) as [SRs|er]; cbn [bind] in H; [|discriminate].
  exists SRs. split; [reflexivity|].
  destruct (negb (all_eq_first val_eqb SRs)); [discriminate|].
  destruct (mapM ch_duration (ch0 :: chs)) as [ds|er]; cbn [bind] in H; [|discriminate].
  destruct (if existsb val_is_none SRs then Ok (1 # 1000000000)%Q else min_sr SRs) as [atol|er];
    cbn [bind] in H; [|discriminate].
  destruct (negb (allclose ds atol)); [discriminate|].
  destruct (mapM ch_points (ch0 :: chs)) as [ns|er]; cbn [bind] in H; [|discriminate].
  destruct (negb (all_eq_first Z.eqb ns)); [discriminate|].
  injection H as <-. reflexivity.
Qed.

(* a varied element that validates reports the base element's sample rate *)
Lemma el_vary_sr e c n a v e' SR r :
  el_vary e c n a v = (e', None) -> el_sr e = Ok SR -> el_validate e' = Ok r -> el_sr e' = Ok SR.
Proof.
  intros Hv Hsr Hval. unfold el_sr in *.
  destruct (el_validate e) as [r0|er] eqn:Ev0; cbn [bind] in Hsr; [|discriminate]. injection Hsr as <-.
  rewrite Hval. cbn [bind]. f_equal.
  destruct (validate_fst _ _ Ev0) as (S0 & Hm0 & ->). destruct (validate_fst _ _ Hval) as (S1 & Hm1 & ->).
  rewrite (el_vary_rates _ _ _ _ _ _ Hv), Hm0 in Hm1. injection Hm1 as <-. reflexivity.
Qed.

(* ---- checkConsistency of a sequence of elements with one sample rate and one channel list ---- *)
Lemma val_eqb_rfl v : val_eqb v v = true.
Proof.
  destruct v as [q|x|]; cbn [val_eqb]; [apply Qeq_bool_iff; reflexivity|apply str_eqb_refl|reflexivity].
Qed.

Lemma mapM_const {A B} (f : A -> result B) (y : B) : forall l,
  Forall (fun x => f x = Ok y) l -> mapM f l = Ok (map (fun _ => y) l).
Proof.
  induction l as [|x l IH]; intro H; cbn [mapM map]; [reflexivity|].
  inversion H as [|x0 l0 Hx Hl]; subst. rewrite Hx. cbn [bind]. rewrite (IH Hl). reflexivity.
Qed.

Lemma forallb_const {A B} (P : B -> bool) (y : B) (l : list A) : P y = true -> forallb P (map (fun _ => y) l) = true.
Proof. intro H. induction l as [|x l IH]; cbn [map forallb]; [reflexivity|]. rewrite H, IH. reflexivity. Qed.

Lemma last_const {A B} (y d : B) (l : list A) : l <> [] -> last (map (fun _ => y) l) d = y.
Proof.
  intro Hne. pose proof (last_In (map (fun _ => y) l) d) as H.
  destruct l as [|x l]; [contradiction|]. specialize (H ltac:(discriminate)).
  apply in_map_iff in H as (x0 & H & _). symmetry. exact H.
Qed.

Lemma seq_check_uniform (SR : val) (chs : list chan) (es : list elem) (q : list (Z * sqing)) (nm : str) :
  Forall (fun e => el_sr e = Ok SR /\ el_channels e = chs) es ->
  seq_check (mkSeq (combine (range1 (length es)) (map EElem es)) q [(key_sr, SVal SR)] nm) = Ok true.
Proof.
  intro H. unfold seq_check, check_consistency, spec_get. cbn [sspecs sdata alookup].
  rewrite str_eqb_refl.
  assert (Hav : avals (combine (range1 (length es)) (map EElem es)) = map EElem es).
  { unfold avals. apply map_snd_combine. rewrite ToolsFacts.range1_length, map_length. reflexivity. }
  assert (Hak : akeys (combine (range1 (length es)) (map EElem es)) = range1 (length es)).
  { unfold akeys. apply map_fst_combine. rewrite ToolsFacts.range1_length, map_length. reflexivity. }
  rewrite Hav, Hak.
  rewrite (mapM_const entry_SR SR).
  2:{ rewrite Forall_map. eapply Forall_impl; [|exact H]. intros e [He _]. exact He. }
  cbn [bind].
  assert (Hall : all_eq_first val_eqb (map (fun _ : entry => SR) (map EElem es)) = true).
  { unfold all_eq_first. destruct (map (fun _ : entry => SR) (map EElem es)) eqn:E; [reflexivity|].
    rewrite <- E. apply forallb_const. destruct es; [discriminate|]. cbn [map] in E. injection E as <- _.
    apply val_eqb_rfl. }
  rewrite Hall. cbn [negb].
  rewrite (mapM_const (fun e => do c <- entry_channels e; Ok (sort_chans c)) (sort_chans chs)).
  2:{ rewrite Forall_map. eapply Forall_impl; [|exact H]. intros e [_ He]. cbn [entry_channels bind]. rewrite He. reflexivity. }
  cbn [bind]. cbv zeta.
  assert (Hfa : forallb (list_eqb chan_eqb (last (map (fun _ : entry => sort_chans chs) (map EElem es)) []))
                        (map (fun _ : entry => sort_chans chs) (map EElem es)) = true).
  { destruct es as [|e0 es']; [reflexivity|].
    rewrite last_const by discriminate. apply forallb_const.
    apply (list_eqb_spec chan_eqb chan_eqb_spec). reflexivity. }
  rewrite Hfa. cbn [negb]. f_equal.
  apply positions_ok_spec. right. unfold gap_free. rewrite ToolsFacts.range1_length. apply Permutation_refl.
Qed.

(* ---- the content theorem ---- *)
Definition lin_step_ok (base : elem) (c : chan) (n : str) (a : argref) (SR : val) (v : Q) (e' : elem) : Prop :=
  el_vary base c n a (VNum v) = (e', None) /\ (exists r, el_validate e' = Ok r) /\
  el_sr e' = Ok SR /\ el_channels e' = el_channels base.

Lemma lin_step_inv base c n a v e' :
  lin_step base c n a v = Ok e' -> el_vary base c n a (VNum v) = (e', None) /\ exists r, el_validate e' = Ok r.
Proof.
  unfold lin_step. destruct (el_vary base c n a (VNum v)) as [e1 [er|]]; [discriminate|].
  destruct (el_validate e1) as [r|er] eqn:Ev; cbn [bind]; [|discriminate].
  intro H. injection H as <-. split; [reflexivity|]. exists r. exact Ev.
Qed.

Lemma make_linear_closed : forall base c n a start stop stp s,
  make_linear base c n a start stop stp = Ok s ->
  exists SR es,
    el_sr base = Ok SR /\ Qeq_bool stp 0 = false /\ (0 <= rnd (Qabs (stop - start) / stp) + 1)%Z /\
    Forall2 (lin_step_ok base c n a SR) (lin_vals start stop stp) es /\
    s = lin_seq SR es /\ seq_check s = Ok true.
Proof.
  intros base c n a start stop stp s H. rewrite make_linear_eq in H.
  destruct (el_sr base) as [SR|er] eqn:Esr; cbn [bind] in H; [|discriminate].
  destruct (Qeq_bool stp 0) eqn:Ez; [discriminate|].
  destruct (rnd (Qabs (stop - start) / stp) + 1 <? 0)%Z eqn:Ec; [discriminate|].
  destruct (mapM (lin_step base c n a) (lin_vals start stop stp)) as [es|er] eqn:Em; cbn [bind] in H; [|discriminate].
  injection H as <-. exists SR, es.
  assert (HF : Forall2 (lin_step_ok base c n a SR) (lin_vals start stop stp) es).
  { apply mapM_F2 in Em. eapply Forall2_imp; [|exact Em].
    intros v e' Hs. apply lin_step_inv in Hs as [Hv [r Hr]].
    split; [exact Hv|]. split; [exists r; exact Hr|].
    split; [exact (el_vary_sr _ _ _ _ _ _ _ _ Hv Esr Hr)|exact (el_vary_channels _ _ _ _ _ _ Hv)]. }
  split; [reflexivity|]. split; [reflexivity|]. split; [apply Z.ltb_ge in Ec; exact Ec|].
  split; [exact HF|]. split; [reflexivity|].
  unfold lin_seq. apply (seq_check_uniform SR (el_channels base)).
  apply (Forall2_Forall_r _ _ _ _ HF). intros v e' (_ & _ & H1 & H2). split; assumption.
Qed.

Lemma make_linear_content : forall base c n a start stop stp s,
  make_linear base c n a start stop stp = Ok s ->
  let vals := lin_vals start stop stp in
  exists SR, el_sr base = Ok SR /\
  length (sdata s) = length vals /\
  map fst (sdata s) = range1 (length vals) /\
  (forall k v, nth_error vals k = Some v ->
     exists e', el_vary base c n a (VNum v) = (e', None) /\
       nth_error (sdata s) k = Some ((Z.of_nat k + 1)%Z, EElem e') /\
       alookup Z.eqb (Z.of_nat k + 1)%Z (sdata s) = Some (EElem e') /\
       (exists r, el_validate e' = Ok r) /\ el_sr e' = Ok SR /\ el_channels e' = el_channels base) /\
  sseq s = map (fun k : Z => (k, sq_default)) (range1 (length vals)) /\
  (forall p, (1 <= p <= Z.of_nat (length vals))%Z -> alookup Z.eqb p (sseq s) = Some sq_default) /\
  sspecs s = [(key_sr, SVal SR)] /\ seq_SR s = SR /\ sname s = [] /\
  seq_check s = Ok true.
Proof.
  intros base c n a start stop stp s H vals.
  destruct (make_linear_closed _ _ _ _ _ _ _ _ H) as (SR & es & Hsr & _ & _ & HF & -> & Hchk).
  fold vals in HF. pose proof (Forall2_length' _ _ _ HF) as Hlen.
  exists SR. split; [exact Hsr|]. unfold lin_seq. cbn [sdata sseq sspecs sname]. rewrite <- Hlen.
  assert (Hl2 : length (range1 (length vals)) = length (map EElem es)).
  { rewrite ToolsFacts.range1_length, map_length. exact Hlen. }
  split; [rewrite combine_length, Hl2, Nat.min_id, map_length; symmetry; exact Hlen|].
  split; [apply map_fst_combine; exact Hl2|].
  split; [|split; [reflexivity|split; [|split; [reflexivity|split; [|split; [reflexivity|]]]]]].
  - intros k v Hk. destruct (Forall2_nth_l _ _ _ _ _ HF Hk) as (e' & He' & Hv & Hr & Hs & Hc).
    exists e'. split; [exact Hv|].
    assert (Hk' : (k < length vals)%nat) by (apply nth_error_Some; congruence).
    assert (Hne : nth_error (map EElem es) k = Some (EElem e')) by (rewrite nth_error_map, He'; reflexivity).
    split; [apply nth_error_combine; [apply nth_error_range1; exact Hk'|exact Hne]|].
    split; [|auto].
    replace (length vals) with (length (map EElem es)) by (rewrite map_length; symmetry; exact Hlen).
    apply alookup_combine_range1. exact Hne.
  - intros p Hp. apply alookup_const_map. apply AddFacts.range1_spec. exact Hp.
  - unfold seq_SR, spec_get. cbn [sspecs alookup]. rewrite str_eqb_refl. reflexivity.
  - unfold lin_seq in Hchk. rewrite <- Hlen in Hchk. exact Hchk.
Qed.

(* the error clause: the first step whose edit or validation raises determines the result *)
Lemma lin_step_err base c n a v er :
  lin_step base c n a v = Err er <->
  ((exists e_, el_vary base c n a (VNum v) = (e_, Some er)) \/
   (exists e', el_vary base c n a (VNum v) = (e', None) /\ el_validate e' = Err er)).
Proof.
  unfold lin_step. destruct (el_vary base c n a (VNum v)) as [e1 [er1|]].
  - split.
    + intro H. injection H as ->. left. exists e1. reflexivity.
    + intros [[e_ H]|[e' [H _]]]; [injection H as _ ->; reflexivity|discriminate].
  - destruct (el_validate e1) as [r|er1] eqn:Ev; cbn [bind]; split.
    + discriminate.
    + intros [[e_ H]|[e' [H H']]]; [discriminate|]. injection H as <-. rewrite Ev in H'. discriminate.
    + intro H. injection H as ->. right. exists e1. split; [reflexivity|exact Ev].
    + intros [[e_ H]|[e' [H H']]]; [discriminate|]. injection H as <-. rewrite Ev in H'. injection H' as ->. reflexivity.
Qed.

Lemma make_linear_first_error : forall base c n a start stop stp SR k v er,
  el_sr base = Ok SR -> Qeq_bool stp 0 = false -> (0 <= rnd (Qabs (stop - start) / stp) + 1)%Z ->
  nth_error (lin_vals start stop stp) k = Some v ->
  lin_step base c n a v = Err er ->
  (forall j w, (j < k)%nat -> nth_error (lin_vals start stop stp) j = Some w -> exists e', lin_step base c n a w = Ok e') ->
  make_linear base c n a start stop stp = Err er.
Proof.
  intros base c n a start stop stp SR k v er Hsr Hz Hc Hk Hv Hbefore.
  rewrite make_linear_eq, Hsr. cbn [bind]. rewrite Hz.
  apply Z.ltb_ge in Hc. rewrite Hc.
  rewrite (mapM_first_err _ _ k v er Hk Hv Hbefore). reflexivity.
Qed.

(* ===================================================================================================== *)
(* Part 2: repeatAndVarySequence                                                                           *)
(* ===================================================================================================== *)

(* the variations of a repeatAndVarySequence call (the `vars` of Model/Tools.v and of C17_repeat) *)
Definition sweep_vars (ps : list Z) (cs : list chan) (ns : list str) (ars : list argref) (its : list (list val))
    : list variation :=
  map (fun x : Z * (chan * (str * (argref * list val))) => let '(p, (c, (n, (a, vs)))) := x in mkVar p c n a vs)
      (combine ps (combine cs (combine ns (combine ars its)))).

(* the variations addressing position p, in the order given, in the format of ToolsFacts.apply_steps *)
Definition steps_at (p : Z) (vars : list variation) : list (chan * (str * (argref * list val))) :=
  map (fun v => (v_chan v, (v_name v, (v_arg v, v_vals v)))) (filter (fun v => Z.eqb (v_pos v) p) vars).

(* tmp is sq with the m-th values of vars applied: same positions in the same order, same sequencing, settings and
   name; positions no variation addresses hold sq's entry unchanged; every addressed position holds an element
   (not a subsequence); the element at any position is sq's element with the m-th values of the variations
   addressing that position applied in order (apply_steps: a chain of el_vary, i.e. of C05 edits) *)
Definition varied_copy (sq : seq) (vars : list variation) (m : nat) (tmp : seq) : Prop :=
  akeys (sdata tmp) = akeys (sdata sq) /\ sseq tmp = sseq sq /\ sspecs tmp = sspecs sq /\ sname tmp = sname sq /\
  (forall p, ~ In p (map v_pos vars) -> alookup Z.eqb p (sdata tmp) = alookup Z.eqb p (sdata sq)) /\
  (forall p, In p (map v_pos vars) -> exists e, alookup Z.eqb p (sdata sq) = Some (EElem e)) /\
  (forall p e, alookup Z.eqb p (sdata sq) = Some (EElem e) ->
     exists e', apply_steps e (steps_at p vars) m = Ok e' /\ alookup Z.eqb p (sdata tmp) = Some (EElem e')).

Lemma av_loop_content m : forall vs acc tmp, av_loop m vs acc = Ok tmp -> varied_copy acc vs m tmp.
Proof.
  induction vs as [|v t IH]; intros acc tmp H.
  - cbn [av_loop] in H. injection H as <-. unfold varied_copy.
    split; [reflexivity|]. split; [reflexivity|]. split; [reflexivity|]. split; [reflexivity|].
    split; [reflexivity|]. split; [intros p []|].
    intros p e He. exists e. split; [reflexivity|exact He].
  - rewrite av_loop_cons in H.
    destruct (alookup Z.eqb (v_pos v) (sdata acc)) as [[e|sb]|] eqn:El; [|discriminate|discriminate].
    destruct (nth_error (v_vals v) m) as [x|] eqn:En; [|discriminate].
    destruct (el_vary e (v_chan v) (v_name v) (v_arg v) x) as [e' [er|]] eqn:Ev; [discriminate|].
    apply IH in H. destruct H as (Hk & Hq & Hs & Hn & Hun & Hel & Hst).
    cbn [set_sdata sdata sseq sspecs sname] in Hk, Hq, Hs, Hn, Hun, Hel, Hst.
    unfold varied_copy. split; [|split; [|split; [|split; [|split; [|split]]]]].
    + rewrite Hk. apply akeys_aset_in. apply (alookup_in_keys _ (EElem e)). exact El.
    + exact Hq.
    + exact Hs.
    + exact Hn.
    + intros p Hp. cbn [map] in Hp.
      rewrite Hun by (intro Hx; apply Hp; right; exact Hx).
      apply ToolsFacts.alookup_aset_neq. intro Hx. apply Hp. left. symmetry. exact Hx.
    + intros p [<-|Hp]; [exists e; exact El|].
      destruct (Hel p Hp) as [e1 He1].
      destruct (Z.eq_dec p (v_pos v)) as [->|Hne]; [exists e; exact El|].
      rewrite ToolsFacts.alookup_aset_neq in He1 by exact Hne. exists e1. exact He1.
    + intros p e0 He0. unfold steps_at. cbn [filter].
      destruct (Z.eqb_spec (v_pos v) p) as [E|E].
      * subst p. rewrite El in He0. injection He0 as <-. cbn [map apply_steps]. rewrite En, Ev.
        apply Hst. apply ToolsFacts.alookup_aset_eq.
      * apply Hst. rewrite ToolsFacts.alookup_aset_neq; [exact He0|]. intro Hx. apply E. symmetry. exact Hx.
Qed.

Lemma apply_variations_content sq vars m tmp : apply_variations sq vars m = Ok tmp -> varied_copy sq vars m tmp.
Proof. rewrite apply_variations_eq. apply av_loop_content. Qed.

(* a consistent sequence has the positions 1..N *)
Lemma seq_check_positions (s : seq) : seq_check s = Ok true -> positions_1N s.
Proof.
  unfold seq_check, check_consistency. intro H.
  destruct (spec_get s key_sr); [|discriminate].
  destruct (mapM entry_SR (avals (sdata s))) as [SRs|er]; cbn [bind] in H; [|discriminate].
  destruct (negb (all_eq_first val_eqb SRs)); [discriminate|].
  destruct (mapM (fun e => do c <- entry_channels e; Ok (sort_chans c)) (avals (sdata s))) as [chs|er];
    cbn [bind] in H; [|discriminate].
  cbv zeta in H.
  destruct (negb (forallb (list_eqb chan_eqb (last chs [])) chs)); [discriminate|].
  injection H as H. apply positions_ok_spec in H. unfold positions_1N.
  destruct H as [H|H].
  - apply akeys_nil in H. rewrite H. apply Permutation_refl.
  - unfold gap_free in H. unfold akeys in H at 2. rewrite map_length in H. exact H.
Qed.

Lemma length_akeys {K V} (l : list (K * V)) : length (akeys l) = length l.
Proof. unfold akeys. apply map_length. Qed.

Lemma repeat_loop_cons f m t acc :
  repeat_loop f (m :: t) acc = (do tmp <- f m; do acc' <- seq_add acc tmp; repeat_loop f t acc').
Proof. reflexivity. Qed.

(* induction over the loop of repeat_and_vary *)
Lemma repeat_loop_ind (f : nat -> result seq) (I : nat -> seq -> Prop) :
  (forall j acc tmp acc', I j acc -> f j = Ok tmp -> seq_add acc tmp = Ok acc' -> I (S j) acc') ->
  forall n j acc r, repeat_loop f (List.seq j n) acc = Ok r -> I j acc -> I (j + n)%nat r.
Proof.
  intro Hstep. induction n as [|n IH]; intros j acc r H HI.
  - cbn [List.seq repeat_loop] in H. injection H as <-. rewrite Nat.add_0_r. exact HI.
  - cbn [List.seq] in H. rewrite repeat_loop_cons in H.
    destruct (f j) as [tmp|er] eqn:Ef; cbn [bind] in H; [|discriminate].
    destruct (seq_add acc tmp) as [acc'|er] eqn:Ea; cbn [bind] in H; [|discriminate].
    replace (j + S n)%nat with (S j + n)%nat by lia.
    apply (IH (S j) acc' r H). exact (Hstep j acc tmp acc' HI Ef Ea).
Qed.

Section Rep.
Variable sq : seq.
Variable f : nat -> result seq.
Let L := length (sdata sq).
Hypothesis Hpos : positions_1N sq.
Hypothesis Hf : forall m tmp, f m = Ok tmp ->
  akeys (sdata tmp) = akeys (sdata sq) /\ sseq tmp = sseq sq /\ sspecs tmp = sspecs sq.

(* after j rounds: j copies *)
Definition data_inv (j : nat) (acc : seq) : Prop :=
  length (sdata acc) = (j * L)%nat /\ positions_1N acc /\ sspecs acc = sspecs sq /\
  akeys (sdata acc) = flat_map (fun m => map (fun k => (k + Z.of_nat (m * L))%Z) (akeys (sdata sq))) (List.seq 0 j) /\
  forall m, (m < j)%nat -> exists tmp, f m = Ok tmp /\ seq_check tmp = Ok true /\
    forall p, (1 <= p <= Z.of_nat L)%Z ->
      alookup Z.eqb (Z.of_nat (m * L) + p)%Z (sdata acc) = alookup Z.eqb p (sdata tmp).

Lemma tmp_shape m tmp : f m = Ok tmp -> length (sdata tmp) = L /\ positions_1N tmp.
Proof.
  intro Hm. destruct (Hf m tmp Hm) as (Tk & _ & _).
  assert (Tl : length (sdata tmp) = L).
  { unfold L. rewrite <- (length_akeys (sdata tmp)), Tk. apply length_akeys. }
  split; [exact Tl|]. unfold positions_1N. rewrite Tk, Tl. exact Hpos.
Qed.

Lemma data_step j acc tmp acc' :
  data_inv j acc -> f j = Ok tmp -> seq_add acc tmp = Ok acc' -> data_inv (S j) acc'.
Proof.
  intros (Hlen & Hpa & Hsp & Hkeys & Hpt) Hfj Hadd.
  destruct (Hf j tmp Hfj) as (Tk & _ & Ts). destruct (tmp_shape j tmp Hfj) as (Tl & Tpos).
  pose proof (add_positions acc tmp acc' Hadd Hpa Tpos) as HA. cbv zeta in HA.
  destruct HA as (Al & Ap & Alow & Ahigh & Asp).
  pose proof (add_data_closed _ _ _ Hadd Hpa Tpos) as Ad.
  destruct (seq_add_inv _ _ _ Hadd) as (_ & Tchk & _ & _).
  unfold data_inv. split; [|split; [|split; [|split]]].
  - rewrite Al, Hlen, Tl. cbn [Nat.mul]. lia.
  - exact Ap.
  - rewrite Asp. exact Ts.
  - rewrite Ad, AddFacts.akeys_app, akeys_shiftk, Hkeys, Tk, Hlen.
    rewrite seq_S, flat_map_app. cbn [flat_map Nat.add]. rewrite app_nil_r. reflexivity.
  - intros m Hm. destruct (Nat.eq_dec m j) as [->|Hne].
    + exists tmp. split; [exact Hfj|]. split; [exact Tchk|]. intros p Hp.
      rewrite Ahigh by (rewrite Hlen; lia). f_equal. rewrite Hlen. lia.
    + destruct (Hpt m ltac:(lia)) as (tm & Hfm & Hcm & Hpm).
      exists tm. split; [exact Hfm|]. split; [exact Hcm|]. intros p Hp.
      rewrite <- (Hpm p Hp). apply Alow. rewrite Hlen.
      assert (S m * L <= j * L)%nat by (apply Nat.mul_le_mono_r; lia). lia.
Qed.

Hypothesis Hkeys_ok : seq_keys_ok sq.
Hypothesis Hnodup : NoDup (akeys (sseq sq)).

Definition sq_inv (j : nat) (acc : seq) : Prop :=
  sseq acc = flat_map (fun m => shift_entries (Z.of_nat (m * L)) (sseq sq)) (List.seq 0 j) /\
  forall m p, (m < j)%nat -> (1 <= p <= Z.of_nat L)%Z ->
    alookup Z.eqb (Z.of_nat (m * L) + p)%Z (sseq acc) =
    option_map (shift_sq (Z.of_nat (m * L))) (alookup Z.eqb p (sseq sq)).

Lemma sq_inv_keys_ok j acc : length (sdata acc) = (j * L)%nat -> sq_inv j acc -> seq_keys_ok acc.
Proof.
  intros Hlen (Hq & _). unfold seq_keys_ok. intros k Hk. rewrite Hq in Hk. rewrite Hlen.
  unfold akeys in Hk. apply in_map_iff in Hk as ([k0 q0] & Hfst & Hin). cbn [fst] in Hfst. subst k0.
  apply in_flat_map in Hin as (m & Hm & Hin). apply in_seq in Hm.
  unfold shift_entries in Hin. apply in_map_iff in Hin as ([k1 q1] & Heq & Hin1). cbn [fst snd] in Heq.
  injection Heq as <- _.
  assert (Hk1 : In k1 (akeys (sseq sq))) by (unfold akeys; apply in_map_iff; exists (k1, q1); split; [reflexivity|exact Hin1]).
  apply Hkeys_ok in Hk1. fold L in Hk1.
  assert (S m * L <= j * L)%nat by (apply Nat.mul_le_mono_r; lia). lia.
Qed.

Lemma sq_step j acc tmp acc' :
  data_inv j acc -> sq_inv j acc -> f j = Ok tmp -> seq_add acc tmp = Ok acc' -> sq_inv (S j) acc'.
Proof.
  intros (Hlen & _) HS Hfj Hadd. pose proof (sq_inv_keys_ok j acc Hlen HS) as Kacc.
  destruct HS as (Hq & Hpt).
  destruct (Hf j tmp Hfj) as (_ & Tq & _).
  assert (K1 : forall k, In k (akeys (sseq tmp)) -> (1 <= k)%Z).
  { intros k Hk. rewrite Tq in Hk. apply Hkeys_ok in Hk. lia. }
  assert (ND : NoDup (akeys (sseq tmp))) by (rewrite Tq; exact Hnodup).
  pose proof (add_seq_closed _ _ _ Hadd Kacc K1 ND) as Ac.
  pose proof (add_sequencing _ _ _ Hadd Kacc K1 ND) as AS. cbv zeta in AS. destruct AS as (Alow & Ahigh).
  unfold sq_inv. split.
  - rewrite Ac, Hq, Tq, Hlen. rewrite seq_S, flat_map_app. cbn [flat_map Nat.add]. rewrite app_nil_r. reflexivity.
  - intros m p Hm Hp. destruct (Nat.eq_dec m j) as [->|Hne].
    + rewrite Ahigh by (rewrite Hlen; lia). rewrite Hlen, Tq. do 2 f_equal. lia.
    + rewrite <- (Hpt m p ltac:(lia) Hp). apply Alow. rewrite Hlen.
      assert (S m * L <= j * L)%nat by (apply Nat.mul_le_mono_r; lia). lia.
Qed.
End Rep.

(* ---- what a successful repeat_and_vary call went through ---- *)
Lemma repeat_unfold sq ps cs ns ars its r it0 :
  repeat_and_vary sq ps cs ns ars its = Ok r -> hd_error its = Some it0 ->
  seq_check sq = Ok true /\
  (length ps = length cs /\ length cs = length ns /\ length ns = length ars /\ length ars = length its) /\
  (forall it, In it its -> length it = length it0) /\
  repeat_loop (apply_variations sq (sweep_vars ps cs ns ars its)) (List.seq 0 (length it0))
              (mkSeq [] [] (sspecs sq) []) = Ok r.
Proof.
  intros H Hhd. unfold repeat_and_vary in H.
  destruct (seq_check sq) as [c|er] eqn:Ec; cbn [bind] in H; [|discriminate].
  destruct c; cbn [negb] in H; [|discriminate].
  destruct (same_len [length ps; length cs; length ns; length ars; length its]) eqn:Esl; cbn [negb] in H; [|discriminate].
  destruct its as [|it0' itt]; [discriminate|].
  cbn [hd_error] in Hhd. injection Hhd as ->.
  destruct (forallb (fun it => Nat.eqb (length it) (length it0)) (it0 :: itt)) eqn:Efa; cbn [negb] in H; [|discriminate].
  split; [reflexivity|]. split; [apply same_len5; exact Esl|]. split.
  - intros it Hit. rewrite forallb_forall in Efa. apply Nat.eqb_eq. exact (Efa it Hit).
  - exact H.
Qed.

Lemma sweep_vars_pos ps cs ns ars its :
  length ps = length cs -> length cs = length ns -> length ns = length ars -> length ars = length its ->
  map v_pos (sweep_vars ps cs ns ars its) = ps.
Proof.
  intros H1 H2 H3 H4. unfold sweep_vars. rewrite map_map.
  rewrite (map_ext _ fst) by (intros [p [c [n [a vs]]]]; reflexivity).
  apply map_fst_combine. rewrite !combine_length. lia.
Qed.

Lemma flat_map_range1 L : forall M,
  flat_map (fun m => map (fun k => (k + Z.of_nat (m * L))%Z) (range1 L)) (List.seq 0 M) = range1 (M * L).
Proof.
  induction M as [|M IH]; [reflexivity|].
  rewrite seq_S, flat_map_app, IH. cbn [flat_map Nat.add]. rewrite app_nil_r.
  replace (S M * L)%nat with (M * L + L)%nat by lia. rewrite range1_app. reflexivity.
Qed.

Lemma repeat_name f : forall ms acc r, repeat_loop f ms acc = Ok r -> sname acc = [] -> sname r = [].
Proof.
  induction ms as [|m t IH]; intros acc r H Hn.
  - cbn [repeat_loop] in H. injection H as <-. exact Hn.
  - rewrite repeat_loop_cons in H.
    destruct (f m) as [tmp|er]; cbn [bind] in H; [|discriminate].
    destruct (seq_add acc tmp) as [acc'|er] eqn:Ea; cbn [bind] in H; [|discriminate].
    apply (IH acc' r H). destruct (seq_add_fields _ _ _ Ea) as [_ Hx]. exact Hx.
Qed.

Lemma sweep_f_shape sq vars : forall m tmp, apply_variations sq vars m = Ok tmp ->
  akeys (sdata tmp) = akeys (sdata sq) /\ sseq tmp = sseq sq /\ sspecs tmp = sspecs sq.
Proof.
  intros m tmp H. apply apply_variations_content in H. destruct H as (H1 & H2 & H3 & _). auto.
Qed.

Lemma data_inv_0 sq f : data_inv sq f 0 (mkSeq [] [] (sspecs sq) []).
Proof.
  unfold data_inv. cbn [sdata sspecs length Nat.mul List.seq flat_map akeys map].
  split; [reflexivity|]. split; [apply Permutation_refl|]. split; [reflexivity|]. split; [reflexivity|].
  intros m Hm. lia.
Qed.

(* ---- the content theorem: data and settings ---- *)
Lemma repeat_content : forall sq ps cs ns ars its r it0,
  repeat_and_vary sq ps cs ns ars its = Ok r -> hd_error its = Some it0 ->
  let vars := sweep_vars ps cs ns ars its in
  let M := length it0 in
  let L := length (sdata sq) in
  seq_check sq = Ok true /\ map v_pos vars = ps /\
  length (sdata r) = (M * L)%nat /\ positions_1N r /\
  akeys (sdata r) = flat_map (fun m => map (fun k => (k + Z.of_nat (m * L))%Z) (akeys (sdata sq))) (List.seq 0 M) /\
  (akeys (sdata sq) = range1 L -> akeys (sdata r) = range1 (M * L)) /\
  sspecs r = sspecs sq /\ sname r = [] /\
  forall m, (m < M)%nat ->
    exists tmp, apply_variations sq vars m = Ok tmp /\ varied_copy sq vars m tmp /\ seq_check tmp = Ok true /\
      forall p, (1 <= p <= Z.of_nat L)%Z ->
        alookup Z.eqb (Z.of_nat (m * L) + p)%Z (sdata r) = alookup Z.eqb p (sdata tmp).
Proof.
  intros sq ps cs ns ars its r it0 H Hhd vars M L.
  destruct (repeat_unfold _ _ _ _ _ _ _ _ H Hhd) as (Hchk & (L1 & L2 & L3 & L4) & _ & Hloop).
  fold vars in Hloop. fold M in Hloop.
  pose proof (seq_check_positions sq Hchk) as Hpos.
  pose proof (repeat_loop_ind (apply_variations sq vars) (data_inv sq (apply_variations sq vars))
                (data_step sq (apply_variations sq vars) Hpos (sweep_f_shape sq vars))
                M 0%nat _ r Hloop (data_inv_0 sq _)) as HI.
  cbn [Nat.add] in HI. destruct HI as (Hlen & Hpr & Hsp & Hkeys & Hpt). fold L in Hlen, Hkeys, Hpt.
  split; [exact Hchk|]. split; [apply sweep_vars_pos; assumption|].
  split; [exact Hlen|]. split; [exact Hpr|]. split; [exact Hkeys|].
  split; [intro Hr; rewrite Hkeys, Hr; apply flat_map_range1|].
  split; [exact Hsp|]. split; [apply (repeat_name _ _ _ _ Hloop); reflexivity|].
  intros m Hm. destruct (Hpt m Hm) as (tmp & Ht & Hc & Hp).
  exists tmp. split; [exact Ht|]. split; [apply apply_variations_content; exact Ht|]. split; [exact Hc|exact Hp].
Qed.

(* the same without the intermediate copies: entry m*L + p of the result, from entry p of the input *)
Lemma repeat_entries : forall sq ps cs ns ars its r it0,
  repeat_and_vary sq ps cs ns ars its = Ok r -> hd_error its = Some it0 ->
  let vars := sweep_vars ps cs ns ars its in
  let L := length (sdata sq) in
  forall m p, (m < length it0)%nat -> (1 <= p <= Z.of_nat L)%Z ->
    (~ In p ps -> alookup Z.eqb (Z.of_nat (m * L) + p)%Z (sdata r) = alookup Z.eqb p (sdata sq)) /\
    (In p ps -> exists e, alookup Z.eqb p (sdata sq) = Some (EElem e)) /\
    (forall e, alookup Z.eqb p (sdata sq) = Some (EElem e) ->
       exists e', apply_steps e (steps_at p vars) m = Ok e' /\
                  alookup Z.eqb (Z.of_nat (m * L) + p)%Z (sdata r) = Some (EElem e')).
Proof.
  intros sq ps cs ns ars its r it0 H Hhd vars L m p Hm Hp.
  destruct (repeat_content _ _ _ _ _ _ _ _ H Hhd) as (_ & Hps & _ & _ & _ & _ & _ & _ & Hpt).
  fold vars in Hps, Hpt. fold L in Hpt.
  destruct (Hpt m Hm) as (tmp & _ & (_ & _ & _ & _ & Hun & Hel & Hst) & _ & Hp').
  rewrite Hps in Hun, Hel. rewrite (Hp' p Hp).
  split; [intro Hn; apply Hun; exact Hn|]. split; [intro Hi; apply Hel; exact Hi|].
  intros e He. apply Hst. exact He.
Qed.

Lemma sq_inv_0 sq : sq_inv sq 0 (mkSeq [] [] (sspecs sq) []).
Proof. unfold sq_inv. cbn [sseq List.seq flat_map]. split; [reflexivity|]. intros m p Hm. lia. Qed.

(* ---- the content theorem: sequencing ---- *)
Lemma repeat_sequencing : forall sq ps cs ns ars its r it0,
  repeat_and_vary sq ps cs ns ars its = Ok r -> hd_error its = Some it0 ->
  seq_keys_ok sq -> NoDup (akeys (sseq sq)) ->
  let M := length it0 in
  let L := length (sdata sq) in
  sseq r = flat_map (fun m => shift_entries (Z.of_nat (m * L)) (sseq sq)) (List.seq 0 M) /\
  seq_keys_ok r /\
  forall m p, (m < M)%nat -> (1 <= p <= Z.of_nat L)%Z ->
    alookup Z.eqb (Z.of_nat (m * L) + p)%Z (sseq r) =
    option_map (shift_sq (Z.of_nat (m * L))) (alookup Z.eqb p (sseq sq)).
Proof.
  intros sq ps cs ns ars its r it0 H Hhd Hko Hnd M L.
  destruct (repeat_unfold _ _ _ _ _ _ _ _ H Hhd) as (Hchk & _ & _ & Hloop).
  set (vars := sweep_vars ps cs ns ars its) in *. fold M in Hloop.
  pose proof (seq_check_positions sq Hchk) as Hpos.
  set (f := apply_variations sq vars) in *.
  assert (HI : data_inv sq f (0 + M) r /\ sq_inv sq (0 + M) r).
  { apply (repeat_loop_ind f (fun j acc => data_inv sq f j acc /\ sq_inv sq j acc)) with (acc := mkSeq [] [] (sspecs sq) []).
    - intros j acc tmp acc' [HD HS] Hfj Hadd. split.
      + exact (data_step sq f Hpos (sweep_f_shape sq vars) j acc tmp acc' HD Hfj Hadd).
      + exact (sq_step sq f (sweep_f_shape sq vars) Hko Hnd j acc tmp acc' HD HS Hfj Hadd).
    - exact Hloop.
    - split; [apply data_inv_0|apply sq_inv_0]. }
  cbn [Nat.add] in HI. destruct HI as ((Hlen & _) & HS).
  pose proof (sq_inv_keys_ok sq Hko M r Hlen HS) as Kr.
  destruct HS as (Hq & Hpt). fold L in Hq, Hpt.
  split; [exact Hq|]. split; [exact Kr|exact Hpt].
Qed.

(* ===================================================================================================== *)
(* Part 3: non-vacuity (inputs built through the op language of Model/Interp.v) and checked counterexamples  *)
(* ===================================================================================================== *)
From BB Require Import Model.Interp.

Definition seq_of_prog (p : list op) (r : nat) : seq :=
  match getS (final_store store0 p) r with Ok s => s | Err _ => seq_empty end.

(* the argument list of segment k of the blueprint on channel c of the element at position pos *)
Definition seg_args (s : seq) (pos : Z) (c : chan) (k : nat) : option (list val) :=
  match alookup Z.eqb pos (sdata s) with
  | Some (EElem e) =>
      match el_lookup e c with
      | Some ch => match ckind ch with KBp b => nth_error (args b) k | KArr _ _ => None end
      | None => None
      end
  | _ => None
  end.

(* a ramp + sine blueprint at SR = 100 on channels 1 and 2 of element 0 *)
Definition sweep_base_prog : list op :=
  [ BNew 0;
    BInsert 0 0 Framp [VNum 0; VNum 1] (VNum (1 # 10)) (Some (S_ "up"));
    BInsert 0 1 Fsine [VNum 10; VNum 1; VNum 0; VNum 0] (VNum (2 # 10)) (Some (S_ "osc"));
    BSetSR 0 (VNum 100);
    ENew 0; EAddBp 0 (CInt 1) 0; EAddBp 0 (CInt 2) 0 ].

(* makeLinearlyVaryingSequence(element 0, channel 1, 'up', 'start', 0, 0.3, 0.1) into sequence register 0 *)
Definition lin_prog : list op :=
  sweep_base_prog ++ [ TLinear 0 (CInt 1) (S_ "up") (AStr (S_ "start")) 0 (3 # 10) (1 # 10) 0 ].
Definition lin_result : seq := seq_of_prog lin_prog 0.

(* a two-position sequence (register 0) with goto 1 at position 2 and jump target 2 at position 1, one amplitude
   setting; repeatAndVarySequence(seq, [2], [1], ['up'], ['stop'], [[1, 2, 3]]) into register 1 *)
Definition rep_base_prog : list op :=
  sweep_base_prog ++
  [ SNew 0; SSetSR 0 (VNum 100); SSetAmp 0 (CInt 1) (VNum 1);
    SAddElement 0 1 0; SAddElement 0 2 0;
    SSetSequencing 0 2 FGoto 1; SSetSequencing 0 1 FJumpTarget 2 ].
Definition rep_prog : list op :=
  rep_base_prog ++ [ TRepeat 0 [2%Z] [CInt 1] [S_ "up"] [AStr (S_ "stop")] [[VNum 1; VNum 2; VNum 3]] 1 ].
Definition rep_input : seq := seq_of_prog rep_prog 0.
Definition rep_result : seq := seq_of_prog rep_prog 1.

Lemma rep_input_hyps :
  repeat_and_vary rep_input [2%Z] [CInt 1] [S_ "up"] [AStr (S_ "stop")] [[VNum 1; VNum 2; VNum 3]] = Ok rep_result /\
  seq_keys_ok rep_input /\ NoDup (akeys (sseq rep_input)).
Proof.
  split; [vm_compute; reflexivity|]. split.
  - intros k Hk. vm_compute in Hk. change (Z.of_nat (length (sdata rep_input))) with 2%Z.
    destruct Hk as [<-|[<-|[]]]; lia.
  - change (akeys (sseq rep_input)) with [1%Z; 2%Z].
    constructor; [intros [H|[]]; discriminate|]. constructor; [intros []|constructor].
Qed.

(* why repeat_sequencing needs seq_keys_ok: the deprecated setSequenceSettings on the unfilled position 0 (reachable
   through the API) leaves a sequencing entry with key 0; copy 1 shifts it onto position 1 of copy 0 *)
Definition keys_cx_prog : list op :=
  [ BNew 0; BInsert 0 0 Framp [VNum 0; VNum 1] (VNum (1 # 10)) (Some (S_ "up")); BSetSR 0 (VNum 100);
    ENew 0; EAddBp 0 (CInt 1) 0;
    SNew 0; SSetSR 0 (VNum 100); SAddElement 0 1 0; SSetSettings 0 0 7 1 0 0;
    TRepeat 0 [1%Z] [CInt 1] [S_ "up"] [AStr (S_ "stop")] [[VNum 1; VNum 2]] 1 ].

Lemma sequencing_needs_keys_ok :
  let sq := seq_of_prog keys_cx_prog 0 in
  let r := seq_of_prog keys_cx_prog 1 in
  run keys_cx_prog = map (fun _ => PNone) keys_cx_prog /\
  repeat_and_vary sq [1%Z] [CInt 1] [S_ "up"] [AStr (S_ "stop")] [[VNum 1; VNum 2]] = Ok r /\
  NoDup (akeys (sseq sq)) /\ ~ seq_keys_ok sq /\
  alookup Z.eqb (Z.of_nat (0 * length (sdata sq)) + 1)%Z (sseq r) <>
  option_map (shift_sq (Z.of_nat (0 * length (sdata sq)))) (alookup Z.eqb 1%Z (sseq sq)).
Proof.
  cbv zeta. split; [vm_compute; reflexivity|]. split; [vm_compute; reflexivity|]. split; [|split].
  - change (akeys (sseq (seq_of_prog keys_cx_prog 0))) with [1%Z; 0%Z].
    constructor; [intros [H|[]]; discriminate|]. constructor; [intros []|constructor].
  - intro H. specialize (H 0%Z). assert (Hin : In 0%Z (akeys (sseq (seq_of_prog keys_cx_prog 0)))).
    { vm_compute. right. left. reflexivity. }
    apply H in Hin. lia.
  - vm_compute. discriminate.
Qed.

(* why repeat_sequencing needs pairwise different sequencing keys (always true of a Python dict, not of a raw
   association list): dict.update keeps the last of two entries with one key, alookup finds the first *)
Definition dup_cx_input : seq :=
  set_sseq rep_input [(1, sq_default); (2, mkSq 0 1 0 0 1); (2, mkSq 5 1 0 0 0)]%Z.

Lemma sequencing_needs_nodup :
  exists r, repeat_and_vary dup_cx_input [2%Z] [CInt 1] [S_ "up"] [AStr (S_ "stop")] [[VNum 1; VNum 2; VNum 3]] = Ok r /\
  seq_keys_ok dup_cx_input /\ ~ NoDup (akeys (sseq dup_cx_input)) /\
  alookup Z.eqb (Z.of_nat (0 * length (sdata dup_cx_input)) + 2)%Z (sseq r) <>
  option_map (shift_sq (Z.of_nat (0 * length (sdata dup_cx_input)))) (alookup Z.eqb 2%Z (sseq dup_cx_input)).
Proof.
  eexists. split; [vm_compute; reflexivity|]. split; [|split].
  - intros k Hk. vm_compute in Hk. change (Z.of_nat (length (sdata dup_cx_input))) with 2%Z.
    destruct Hk as [<-|[<-|[<-|[]]]]; lia.
  - change (akeys (sseq dup_cx_input)) with [1%Z; 2%Z; 2%Z]. intro H.
    inversion H as [|x l Hx Hl]; subst. inversion Hl as [|y l' Hy Hl']; subst. apply Hy. left. reflexivity.
  - vm_compute. discriminate.
Qed.
