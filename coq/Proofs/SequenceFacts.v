(* Facts about the Sequence model (Model/Sequence.v, Model/Output.v, Model/Tools.v) behind Props/C07.v.
   Definitions used by the property statements come first; lemmas follow. *)
From Coq Require Import String Ascii List Arith ZArith QArith Bool Lia Permutation Sorting.Sorted.
From BB Require Import Base.Names Base.Num Base.PyList Model.Types Model.Blueprint Model.Forge Model.Element
  Model.PyVal Model.Sequence Model.Output Model.Tools.
Import ListNotations.

(* positions 1..N all filled, in whatever order they were added *)
Definition gap_free (ps : list Z) : Prop := Permutation ps (range1 (length ps)).

(* all entries report the same sample rate / the same set of channels *)
Definition rates_agree (SRs : list val) : Prop := forall x y, In x SRs -> In y SRs -> val_eqb x y = true.
Definition channels_agree (cs : list (list chan)) : Prop := forall a b, In a cs -> In b cs -> Permutation a b.

(* the values compared are numbers (so that == is an equivalence on them) *)
Definition numeric (SRs : list val) : Prop := Forall (fun v => exists q, v = VNum q) SRs.

(* ---- lemmas: to be proved (see Props/C07.v for the exact statements needed) ---- *)
