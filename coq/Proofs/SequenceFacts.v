(* Facts about the Sequence model (Model/Sequence.v, Model/Output.v, Model/Tools.v) behind Props/C07.v.
   Definitions used by the property statements come first; lemmas follow. *)
From Coq Require Import String Ascii List Arith ZArith QArith Bool Lia Permutation Sorting.Sorted.
From BB Require Import Base.Names Base.Num Base.PyList Model.Types Model.Blueprint Model.Forge Model.Element
  Model.PyVal Model.Sequence Model.Output Model.Tools.
Import ListNotations.

(* positions 1..N all filled, in whatever order they were added *)
Definition gap_free (ps : list Z) : Prop := Permutation ps (range1 (length ps)).

(* all entries report the same sample rate / the same set of channels *)
Definition rates_agree (SRs : list val) : Prop := forall x y, In x SRs -> In y SRs -> val_eqb x y = true.
Definition channels_agree (cs : list (list chan)) : Prop := forall a b, In a cs -> In b cs -> Permutation a b.

(* the values compared are numbers (so that == is an equivalence on them) *)
Definition numeric (SRs : list val) : Prop := Forall (fun v => exists q, v = VNum q) SRs.

(* ---- lemmas: to be proved (see Props/C07.v for the exact statements needed) ---- *)

(* ================= generic insertion sort under a total, transitive, antisymmetric boolean order ================= *)
Section GSort.
Context {A : Type} (leb : A -> A -> bool).

Fixpoint g_insert (x : A) (l : list A) : list A :=
  match l with [] => [x] | y :: t => if leb x y then x :: l else y :: g_insert x t end.
Definition g_sort (l : list A) : list A := fold_right g_insert [] l.

Hypothesis leb_total : forall a b, leb a b = true \/ leb b a = true.
Hypothesis leb_trans : forall a b c, leb a b = true -> leb b c = true -> leb a c = true.
Hypothesis leb_antisym : forall a b, leb a b = true -> leb b a = true -> a = b.

Let lt := fun a b => leb a b = true.

Lemma g_insert_perm x l : Permutation (x :: l) (g_insert x l).
Proof.
  induction l as [|y t IH]; cbn [g_insert]; [apply Permutation_refl|].
  destruct (leb x y) eqn:E; [apply Permutation_refl|].
  eapply perm_trans; [apply perm_swap|]. apply perm_skip. exact IH.
Qed.

Lemma g_sort_perm l : Permutation l (g_sort l).
Proof.
  induction l as [|x t IH]; cbn [g_sort fold_right]; [constructor|].
  eapply perm_trans; [apply perm_skip; exact IH|]. apply g_insert_perm.
Qed.

Lemma g_insert_sorted x l : StronglySorted lt l -> StronglySorted lt (g_insert x l).
Proof.
  induction l as [|y t IH]; intro S; cbn [g_insert].
  - constructor; constructor.
  - inversion S as [|y' t' St Fy]; subst.
    destruct (leb x y) eqn:E.
    + constructor; [exact S|]. constructor; [exact E|].
      eapply Forall_impl; [|exact Fy]. intros z Hz. unfold lt in *. eapply leb_trans; eauto.
    + constructor; [apply IH; exact St|].
      rewrite Forall_forall in *. intros z Hz.
      assert (In z (x :: t)) as Hz'.
      { eapply Permutation_in; [apply Permutation_sym; apply g_insert_perm|exact Hz]. }
      destruct Hz' as [<-|Hz'].
      * unfold lt. destruct (leb_total x y) as [H|H]; [congruence|exact H].
      * apply Fy. exact Hz'.
Qed.

Lemma g_sort_sorted l : StronglySorted lt (g_sort l).
Proof.
  induction l as [|x t IH]; cbn [g_sort fold_right]; [constructor|].
  apply g_insert_sorted. exact IH.
Qed.

Lemma sorted_perm_eq l : forall l', StronglySorted lt l -> StronglySorted lt l' -> Permutation l l' -> l = l'.
Proof.
  induction l as [|a l IH]; intros [|b l'] S S' P.
  - reflexivity.
  - apply Permutation_nil in P. discriminate.
  - apply Permutation_sym, Permutation_nil in P. discriminate.
  - inversion S as [|? ? Sl Fa]; subst. inversion S' as [|? ? Sl' Fb]; subst.
    assert (a = b) as Hab.
    { assert (In a (b :: l')) as Ia by (eapply Permutation_in; [exact P|left; reflexivity]).
      assert (In b (a :: l)) as Ib by (eapply Permutation_in; [apply Permutation_sym; exact P|left; reflexivity]).
      destruct Ia as [Ia|Ia]; [congruence|]. destruct Ib as [Ib|Ib]; [congruence|].
      rewrite Forall_forall in Fa, Fb. apply leb_antisym; [apply Fa; exact Ib| apply Fb; exact Ia]. }
    subst b. f_equal. apply IH; auto. eapply Permutation_cons_inv; exact P.
Qed.

Lemma g_sort_eq_iff l l' : g_sort l = g_sort l' <-> Permutation l l'.
Proof.
  split; intro H.
  - eapply perm_trans; [apply g_sort_perm|]. rewrite H. apply Permutation_sym, g_sort_perm.
  - apply sorted_perm_eq; try apply g_sort_sorted.
    eapply perm_trans; [apply Permutation_sym, g_sort_perm|].
    eapply perm_trans; [exact H|]. apply g_sort_perm.
Qed.

Lemma g_sort_eq_sorted l r : StronglySorted lt r -> (g_sort l = r <-> Permutation l r).
Proof.
  intro Sr. split; intro H.
  - rewrite <- H. apply g_sort_perm.
  - apply sorted_perm_eq; [apply g_sort_sorted|exact Sr|].
    eapply perm_trans; [apply Permutation_sym, g_sort_perm|exact H].
Qed.
End GSort.

(* ================= boolean equalities ================= *)
Lemma list_eqb_spec {A} (eqb : A -> A -> bool) (H : forall a b, eqb a b = true <-> a = b) :
  forall l l', list_eqb eqb l l' = true <-> l = l'.
Proof.
  induction l as [|x l IH]; intros [|y l']; cbn [list_eqb]; split; intro E; try reflexivity; try discriminate.
  - apply andb_true_iff in E as [E1 E2]. apply H in E1. apply IH in E2. congruence.
  - inversion E; subst. apply andb_true_iff. split; [apply H; reflexivity|apply IH; reflexivity].
Qed.

Lemma str_eqb_spec a b : str_eqb a b = true <-> a = b.
Proof.
  unfold str_eqb. destruct (list_eq_dec ascii_dec a b) as [e|n]; split; intro H; auto; try discriminate; try contradiction.
Qed.

Lemma chan_eqb_spec a b : chan_eqb a b = true <-> a = b.
Proof.
  destruct a as [x|x], b as [y|y]; cbn [chan_eqb]; split; intro H; try discriminate.
  - apply Z.eqb_eq in H. congruence.
  - inversion H; subst. apply Z.eqb_refl.
  - apply str_eqb_spec in H. congruence.
  - inversion H; subst. apply str_eqb_spec. reflexivity.
Qed.

(* ================= the string order ================= *)
Lemma nat_of_ascii_inj a b : nat_of_ascii a = nat_of_ascii b -> a = b.
Proof.
  intro H. rewrite <- (ascii_nat_embedding a), <- (ascii_nat_embedding b), H. reflexivity.
Qed.

Lemma str_ltb_asym : forall a b, str_ltb a b = true -> str_ltb b a = false.
Proof.
  induction a as [|x a IH]; intros [|y b] H; cbn [str_ltb] in *; try reflexivity; try discriminate.
  destruct (Nat.ltb_spec (nat_of_ascii x) (nat_of_ascii y)) as [L1|L1];
  destruct (Nat.ltb_spec (nat_of_ascii y) (nat_of_ascii x)) as [L2|L2]; try reflexivity; try discriminate; try lia.
  apply IH. exact H.
Qed.

Lemma str_ltb_antisym : forall a b, str_ltb a b = false -> str_ltb b a = false -> a = b.
Proof.
  induction a as [|x a IH]; intros [|y b] H1 H2; cbn [str_ltb] in *; try reflexivity; try discriminate.
  destruct (Nat.ltb_spec (nat_of_ascii x) (nat_of_ascii y)) as [L1|L1];
  destruct (Nat.ltb_spec (nat_of_ascii y) (nat_of_ascii x)) as [L2|L2]; try discriminate.
  assert (x = y) as -> by (apply nat_of_ascii_inj; lia).
  f_equal. apply IH; assumption.
Qed.

Lemma str_ltb_cotrans : forall a b c, str_ltb c a = true -> str_ltb b a = true \/ str_ltb c b = true.
Proof.
  induction a as [|x a IH]; intros b c H.
  - destruct c; discriminate.
  - destruct c as [|z c]; destruct b as [|y b]; cbn [str_ltb] in *; auto.
    destruct (Nat.ltb_spec (nat_of_ascii z) (nat_of_ascii x)) as [L1|L1];
    destruct (Nat.ltb_spec (nat_of_ascii x) (nat_of_ascii z)) as [L2|L2];
    destruct (Nat.ltb_spec (nat_of_ascii y) (nat_of_ascii x)) as [L3|L3];
    destruct (Nat.ltb_spec (nat_of_ascii x) (nat_of_ascii y)) as [L4|L4];
    destruct (Nat.ltb_spec (nat_of_ascii z) (nat_of_ascii y)) as [L5|L5];
    destruct (Nat.ltb_spec (nat_of_ascii y) (nat_of_ascii z)) as [L6|L6];
    auto; try discriminate; try lia.
Qed.

Lemma chan_leb_total a b : chan_leb a b = true \/ chan_leb b a = true.
Proof.
  destruct a as [x|x], b as [y|y]; cbn [chan_leb]; auto.
  - destruct (Z.leb_spec x y); [left; reflexivity|right; apply Z.leb_le; lia].
  - destruct (str_ltb y x) eqn:E; [right; rewrite (str_ltb_asym _ _ E); reflexivity|left; reflexivity].
Qed.

Lemma chan_leb_trans a b c : chan_leb a b = true -> chan_leb b c = true -> chan_leb a c = true.
Proof.
  destruct a as [x|x], b as [y|y], c as [z|z]; cbn [chan_leb]; intros H1 H2; auto; try discriminate.
  - apply Z.leb_le in H1, H2. apply Z.leb_le. lia.
  - apply negb_true_iff in H1, H2. apply negb_true_iff.
    destruct (str_ltb z x) eqn:E; [|reflexivity].
    destruct (str_ltb_cotrans x y z E) as [H|H]; congruence.
Qed.

Lemma chan_leb_antisym a b : chan_leb a b = true -> chan_leb b a = true -> a = b.
Proof.
  destruct a as [x|x], b as [y|y]; cbn [chan_leb]; intros H1 H2; try discriminate.
  - apply Z.leb_le in H1, H2. f_equal. lia.
  - apply negb_true_iff in H1, H2. f_equal. apply str_ltb_antisym; assumption.
Qed.

Lemma chan_insert_g c l : chan_insert c l = g_insert chan_leb c l.
Proof. induction l as [|d t IH]; cbn [chan_insert g_insert]; [reflexivity|]. rewrite IH. reflexivity. Qed.

Lemma sort_chans_g l : sort_chans l = g_sort chan_leb l.
Proof.
  induction l as [|c t IH]; [reflexivity|].
  unfold sort_chans, g_sort in *. cbn [fold_right]. rewrite IH. apply chan_insert_g.
Qed.

Lemma sort_chans_eq_iff a b : sort_chans a = sort_chans b <-> Permutation a b.
Proof.
  rewrite !sort_chans_g.
  apply (g_sort_eq_iff chan_leb chan_leb_total chan_leb_trans chan_leb_antisym).
Qed.

Lemma sorter_perm : forall a b,
  list_eqb chan_eqb (sort_chans a) (sort_chans b) = true <-> Permutation a b.
Proof.
  intros a b. rewrite (list_eqb_spec chan_eqb chan_eqb_spec). apply sort_chans_eq_iff.
Qed.

(* ================= positions ================= *)
Lemma Zleb_total a b : (a <=? b)%Z = true \/ (b <=? a)%Z = true.
Proof. destruct (Z.leb_spec a b); [left; reflexivity|right; apply Z.leb_le; lia]. Qed.
Lemma Zleb_trans a b c : (a <=? b)%Z = true -> (b <=? c)%Z = true -> (a <=? c)%Z = true.
Proof. intros H1 H2. apply Z.leb_le in H1, H2. apply Z.leb_le. lia. Qed.
Lemma Zleb_antisym a b : (a <=? b)%Z = true -> (b <=? a)%Z = true -> a = b.
Proof. intros H1 H2. apply Z.leb_le in H1, H2. lia. Qed.

Lemma z_insert_g c l : z_insert c l = g_insert Z.leb c l.
Proof. induction l as [|d t IH]; cbn [z_insert g_insert]; [reflexivity|]. rewrite IH. reflexivity. Qed.

Lemma sort_Z_g l : sort_Z l = g_sort Z.leb l.
Proof.
  induction l as [|c t IH]; [reflexivity|].
  unfold sort_Z, g_sort in *. cbn [fold_right]. rewrite IH. apply z_insert_g.
Qed.

Lemma range_sorted n : forall a,
  StronglySorted (fun x y => (x <=? y)%Z = true) (map (fun k => (Z.of_nat k + 1)%Z) (List.seq a n)).
Proof.
  induction n as [|n IH]; intro a; cbn [List.seq map]; constructor; [apply IH|].
  rewrite Forall_forall. intros z Hz. apply in_map_iff in Hz as (k & <- & Hk). apply in_seq in Hk.
  apply Z.leb_le. lia.
Qed.

Lemma sort_Z_range ps n : list_eqb Z.eqb (sort_Z ps) (range1 n) = true <-> Permutation ps (range1 n).
Proof.
  rewrite (list_eqb_spec Z.eqb Z.eqb_eq), sort_Z_g.
  apply (g_sort_eq_sorted Z.leb Zleb_total Zleb_trans Zleb_antisym). apply range_sorted.
Qed.

Lemma positions_ok_spec : forall ps, positions_ok ps = true <-> (ps = [] \/ gap_free ps).
Proof.
  intros [|p t].
  - split; intros _; [left|]; reflexivity.
  - unfold gap_free. cbn [positions_ok]. rewrite sort_Z_range. split.
    + intro H; right; exact H.
    + intros [H|H]; [discriminate|exact H].
Qed.

(* ================= checkConsistency ================= *)
Lemma mapM_sorted {E} (eChans : E -> result (list chan)) : forall l cs,
  mapM eChans l = Ok cs ->
  mapM (fun e => do c <- eChans e; Ok (sort_chans c)) l = Ok (map sort_chans cs).
Proof.
  induction l as [|x t IH]; intros cs H; cbn [mapM] in *.
  - inversion H; subst. reflexivity.
  - destruct (eChans x) as [c|e] eqn:Ex; cbn [bind] in *; [|discriminate].
    destruct (mapM eChans t) as [r|e] eqn:Et; cbn [bind] in *; [|discriminate].
    inversion H; subst. rewrite (IH r eq_refl). reflexivity.
Qed.

Lemma val_eqb_num_sym a b : val_eqb (VNum a) (VNum b) = true -> val_eqb (VNum b) (VNum a) = true.
Proof. cbn [val_eqb]. rewrite !Qeq_bool_iff. intro H. symmetry. exact H. Qed.
Lemma val_eqb_num_trans a b c :
  val_eqb (VNum a) (VNum b) = true -> val_eqb (VNum b) (VNum c) = true -> val_eqb (VNum a) (VNum c) = true.
Proof. cbn [val_eqb]. rewrite !Qeq_bool_iff. intros H1 H2. rewrite H1. exact H2. Qed.

Lemma rates_spec SRs : numeric SRs -> (all_eq_first val_eqb SRs = true <-> rates_agree SRs).
Proof.
  intro Hn. unfold rates_agree, numeric in *. destruct SRs as [|x l]; cbn [all_eq_first].
  - split; [intros _ a b []|reflexivity].
  - rewrite forallb_forall. rewrite Forall_forall in Hn. split.
    + intros H a b Ia Ib.
      destruct (Hn x (or_introl eq_refl)) as (qx & ->).
      destruct (Hn a Ia) as (qa & ->). destruct (Hn b Ib) as (qb & ->).
      eapply val_eqb_num_trans; [apply val_eqb_num_sym; apply H; exact Ia|apply H; exact Ib].
    + intros H y Iy. apply H; [left; reflexivity|exact Iy].
Qed.

Lemma last_In {A} (l : list A) d : l <> [] -> In (last l d) l.
Proof.
  induction l as [|x t IH]; intro H; [contradiction|].
  destruct t as [|y t']; [left; reflexivity|].
  right. change (last (x :: y :: t') d) with (last (y :: t') d). apply IH. discriminate.
Qed.

Lemma chans_spec cs :
  forallb (list_eqb chan_eqb (last (map sort_chans cs) [])) (map sort_chans cs) = true <-> channels_agree cs.
Proof.
  unfold channels_agree. rewrite forallb_forall. split.
  - intros H a b Ia Ib. apply sort_chans_eq_iff.
    assert (forall c, In c cs -> last (map sort_chans cs) [] = sort_chans c) as Hl.
    { intros c Ic. apply (list_eqb_spec chan_eqb chan_eqb_spec). apply H. apply in_map. exact Ic. }
    rewrite <- (Hl a Ia). apply Hl. exact Ib.
  - intros H x Ix. apply (list_eqb_spec chan_eqb chan_eqb_spec).
    assert (map sort_chans cs <> []) as Hne by (intro E; rewrite E in Ix; destruct Ix).
    pose proof (last_In (map sort_chans cs) [] Hne) as Il.
    apply in_map_iff in Il as (a & Ea & Ia). apply in_map_iff in Ix as (b & <- & Ib).
    rewrite <- Ea. apply sort_chans_eq_iff. apply H; assumption.
Qed.

Lemma akeys_nil {K V} (l : list (K * V)) : akeys l = [] <-> l = [].
Proof. destruct l; cbn; split; intro H; try reflexivity; discriminate. Qed.

Lemma pos_spec {E} (s : seqT E) :
  positions_ok (akeys (sdata s)) = true <-> (sdata s = [] \/ gap_free (akeys (sdata s))).
Proof. rewrite positions_ok_spec, akeys_nil. reflexivity. Qed.

Lemma check_iff : forall (E : Type) (eSR : E -> result val) (eChans : E -> result (list chan)) (s : seqT E) SRs cs b,
  mapM eSR (avals (sdata s)) = Ok SRs -> numeric SRs ->
  mapM eChans (avals (sdata s)) = Ok cs ->
  check_consistency eSR eChans s = Ok b ->
  (b = true <-> (rates_agree SRs /\ channels_agree cs /\ (sdata s = [] \/ gap_free (akeys (sdata s))))).
Proof.
  intros E eSR eChans s SRs cs b HSR Hnum HCh Hc.
  unfold check_consistency in Hc.
  destruct (spec_get s key_sr) as [v|] eqn:Esr; [|discriminate].
  rewrite HSR in Hc. cbn [bind] in Hc.
  rewrite (mapM_sorted eChans _ _ HCh) in Hc. cbn [bind] in Hc. cbv zeta in Hc.
  pose proof (rates_spec SRs Hnum) as HR. pose proof (chans_spec cs) as HC. pose proof (pos_spec s) as HP.
  destruct (all_eq_first val_eqb SRs) eqn:Er; cbn [negb] in Hc.
  - destruct (forallb (list_eqb chan_eqb (last (map sort_chans cs) [])) (map sort_chans cs)) eqn:Ec; cbn [negb] in Hc.
    + inversion Hc; subst. rewrite HP. split.
      * intro H. split; [apply HR; reflexivity|]. split; [apply HC; reflexivity|exact H].
      * intros (_ & _ & H). exact H.
    + inversion Hc; subst. split; [discriminate|]. intros (_ & H & _). apply HC in H. discriminate.
  - inversion Hc; subst. split; [discriminate|]. intros (H & _). apply HR in H. discriminate.
Qed.

Lemma check_returns : forall (E : Type) (eSR : E -> result val) (eChans : E -> result (list chan)) (s : seqT E) SRs cs,
  spec_get s key_sr <> None ->
  mapM eSR (avals (sdata s)) = Ok SRs -> mapM eChans (avals (sdata s)) = Ok cs ->
  exists b, check_consistency eSR eChans s = Ok b.
Proof.
  intros E eSR eChans s SRs cs Hsr HSR HCh. unfold check_consistency.
  destruct (spec_get s key_sr) as [v|] eqn:Esr; [|contradiction].
  rewrite HSR. cbn [bind]. rewrite (mapM_sorted eChans _ _ HCh). cbn [bind]. cbv zeta.
  destruct (negb (all_eq_first val_eqb SRs)); [eexists; reflexivity|].
  destruct (negb (forallb (list_eqb chan_eqb (last (map sort_chans cs) [])) (map sort_chans cs)));
    eexists; reflexivity.
Qed.

Lemma check_no_rate : forall (E : Type) (eSR : E -> result val) (eChans : E -> result (list chan)) (s : seqT E),
  spec_get s key_sr = None -> check_consistency eSR eChans s = Err EKey.
Proof. intros E eSR eChans s H. unfold check_consistency. rewrite H. reflexivity. Qed.

(* ================= the gate: producers behind seq_check ================= *)
Lemma prepare_check_false s : seq_check s = Ok false -> prepare s = Err EValue.
Proof. intro H. unfold prepare. rewrite H. reflexivity. Qed.
Lemma prepare_check_err s e : seq_check s = Err e -> prepare s = Err e.
Proof. intro H. unfold prepare. rewrite H. reflexivity. Qed.

Lemma pv_awg_prepare_err s e : prepare s = Err e -> forall ix, pv_awg s ix = PErr e.
Proof. intros H ix. unfold pv_awg, output_awg. rewrite H. reflexivity. Qed.
Lemma seqx_prepare_err s e : prepare s = Err e -> forall fl, output_seqx s fl = PErr e.
Proof. intros H fl. unfold output_seqx. rewrite H. reflexivity. Qed.

Lemma gate_inconsistent : forall s,
  seq_check s = Ok false ->
  (forall d f t, seq_forge s d f t = Err EValue) /\
  seq_channels s = Err ESeqConsistency /\
  (forall t, seq_add s t = Err ESeqConsistency) /\
  (forall t, seq_check t = Ok true -> seq_add t s = Err ESeqConsistency) /\
  (forall ps cs ns ars its, repeat_and_vary s ps cs ns ars its = Err ESeqConsistency) /\
  prepare s = Err EValue /\
  (forall ix, pv_awg s ix = PErr EValue) /\
  (forall fl, output_seqx s fl = PErr EValue).
Proof.
  intros s H. pose proof (prepare_check_false s H) as HP.
  repeat split.
  - intros d f t. unfold seq_forge. rewrite H. reflexivity.
  - unfold seq_channels. rewrite H. reflexivity.
  - intro t. unfold seq_add. rewrite H. reflexivity.
  - intros t Ht. unfold seq_add. rewrite Ht, H. reflexivity.
  - intros ps cs ns ars its. unfold repeat_and_vary. rewrite H. reflexivity.
  - exact HP.
  - apply pv_awg_prepare_err. exact HP.
  - apply seqx_prepare_err. exact HP.
Qed.

Lemma gate_error : forall s e,
  seq_check s = Err e ->
  (forall d f t, seq_forge s d f t = Err e) /\ seq_channels s = Err e /\ (forall t, seq_add s t = Err e) /\
  (forall ps cs ns ars its, repeat_and_vary s ps cs ns ars its = Err e) /\ prepare s = Err e /\
  (forall ix, pv_awg s ix = PErr e) /\ (forall fl, output_seqx s fl = PErr e).
Proof.
  intros s e H. pose proof (prepare_check_err s e H) as HP.
  repeat split.
  - intros d f t. unfold seq_forge. rewrite H. reflexivity.
  - unfold seq_channels. rewrite H. reflexivity.
  - intro t. unfold seq_add. rewrite H. reflexivity.
  - intros ps cs ns ars its. unfold repeat_and_vary. rewrite H. reflexivity.
  - exact HP.
  - apply pv_awg_prepare_err. exact HP.
  - apply seqx_prepare_err. exact HP.
Qed.

(* a mapM whose only failure is [er] fails with [er] as soon as one item fails *)
Lemma mapM_one_err {A B} (f : A -> result B) er : forall l x,
  (forall a e, f a = Err e -> e = er) -> In x l -> f x = Err er -> mapM f l = Err er.
Proof.
  induction l as [|a t IH]; intros x Hf Ix Hx; [destruct Ix|]. cbn [mapM].
  destruct (f a) as [y|e] eqn:Ea; cbn [bind].
  - destruct Ix as [->|Ix]; [congruence|]. rewrite (IH x Hf Ix Hx). reflexivity.
  - rewrite (Hf a e Ea). reflexivity.
Qed.

Lemma missing_amplitude : forall s chans ch,
  seq_check s = Ok true -> first_channels s = Ok chans ->
  list_eqb Z.eqb (sort_Z (akeys (sseq s))) (range1 (length (sdata s))) = true ->
  In ch chans -> spec_get s (key_amp ch) = None ->
  prepare s = Err EKey /\ (forall ix, pv_awg s ix = PErr EKey) /\ (forall fl, output_seqx s fl = PErr EKey).
Proof.
  intros s chans ch Hc Hf Hl Ich Hamp.
  assert (prepare s = Err EKey) as HP.
  { unfold prepare. rewrite Hc. cbn [bind negb]. rewrite Hf. cbn [bind]. cbv zeta. rewrite Hl. cbn [negb].
    rewrite (mapM_one_err (fun ch0 => match spec_get s (key_amp ch0) with Some _ => Ok tt | None => Err EKey end)
               EKey chans ch).
    - reflexivity.
    - intros a e. destruct (spec_get s (key_amp a)); congruence.
    - exact Ich.
    - rewrite Hamp. reflexivity. }
  split; [exact HP|]. split; [apply pv_awg_prepare_err; exact HP|apply seqx_prepare_err; exact HP].
Qed.

Lemma bad_sequencing_keys : forall s,
  seq_check s = Ok true -> (exists chans, first_channels s = Ok chans) ->
  list_eqb Z.eqb (sort_Z (akeys (sseq s))) (range1 (length (sdata s))) = false ->
  prepare s = Err EValue /\ (forall ix, pv_awg s ix = PErr EValue) /\ (forall fl, output_seqx s fl = PErr EValue).
Proof.
  intros s Hc (chans & Hf) Hl.
  assert (prepare s = Err EValue) as HP.
  { unfold prepare. rewrite Hc. cbn [bind negb]. rewrite Hf. cbn [bind]. cbv zeta. rewrite Hl. reflexivity. }
  split; [exact HP|]. split; [apply pv_awg_prepare_err; exact HP|apply seqx_prepare_err; exact HP].
Qed.

Lemma missing_offset : forall s chans els ch,
  prepare s = Ok (chans, els) -> In ch chans -> spec_get s (key_off ch) = None ->
  forall ix, pv_awg s ix = PErr EValue.
Proof.
  intros s chans els ch HP Ich Hoff ix. unfold pv_awg, output_awg. rewrite HP. cbn [bind]. cbv zeta.
  rewrite (mapM_one_err (fun ch0 => match spec_get s (key_off ch0) with Some _ => Ok tt | None => Err EValue end)
             EValue chans ch).
  - reflexivity.
  - intros a e. destruct (spec_get s (key_off a)); congruence.
  - exact Ich.
  - rewrite Hoff. reflexivity.
Qed.

Lemma consistency_example :
  positions_ok [2; 1]%Z = true /\ positions_ok [1; 3]%Z = false /\ gap_free [3; 1; 2]%Z /\
  list_eqb chan_eqb (sort_chans [CStr (S_ "A"); CInt 2; CInt 1]) (sort_chans [CInt 1; CStr (S_ "A"); CInt 2]) = true.
Proof.
  split; [vm_compute; reflexivity|]. split; [vm_compute; reflexivity|]. split.
  - assert (positions_ok [3; 1; 2]%Z = true) as H by (vm_compute; reflexivity).
    apply positions_ok_spec in H as [H|H]; [discriminate|exact H].
  - vm_compute. reflexivity.
Qed.
