(* What a half-failed replaceeverywhere edit leaves behind: exactly the edits of the matching segments before the one
   that was refused (the code applies the edit segment by segment; C05's atomicity clause is for single-segment edits). *)
From Coq Require Import String List ZArith QArith Bool.
From BB Require Import Base.Names Base.Num Base.PyList Model.Types Model.Blueprint.
Import ListNotations.

Lemma change_arg_one_ref : forall b n a v b1 a1 o, change_arg_one b n a v = ((b1, a1), o) -> a1 = a.
Proof.
  intros b n a v b1 a1 o H. unfold change_arg_one in H.
  repeat match type of H with
  | context [match ?x with _ => _ end] => destruct x
  | context [if ?x then _ else _] => destruct x
  end; inversion H; reflexivity.
Qed.

Lemma change_arg_one_fail : forall b n a v b1 a1 e, change_arg_one b n a v = ((b1, a1), Some e) -> b1 = b.
Proof.
  intros b n a v b1 a1 e H. unfold change_arg_one in H.
  repeat match type of H with
  | context [match ?x with _ => _ end] => destruct x
  | context [if ?x then _ else _] => destruct x
  end; inversion H; reflexivity.
Qed.

Lemma everywhere_arg_prefix : forall l b a v b' e,
  change_arg_loop b l a v = (b', Some e) ->
  exists l1 x l2, l = l1 ++ x :: l2 /\
    change_arg_loop b l1 a v = (b', None) /\
    snd (change_arg_one b' x a v) = Some e /\ fst (fst (change_arg_one b' x a v)) = b'.
Proof.
  induction l as [|n t IH]; intros b a v b' e H; cbn [change_arg_loop] in H.
  - discriminate H.
  - destruct (change_arg_one b n a v) as [[b1 a1] [e1|]] eqn:E.
    + unfold fail in H. inversion H; subst b' e.
      pose proof (change_arg_one_fail _ _ _ _ _ _ _ E) as ->.
      exists [], n, t. split; [reflexivity|]. split; [reflexivity|]. rewrite E. split; reflexivity.
    + pose proof (change_arg_one_ref _ _ _ _ _ _ _ E) as ->.
      destruct (IH _ _ _ _ _ H) as (l1 & x & l2 & -> & H1 & H2 & H3).
      exists (n :: l1), x, l2. split; [reflexivity|]. split; [|split; assumption].
      cbn [change_arg_loop]. rewrite E. exact H1.
Qed.

Lemma change_dur_one_fail : forall b n d b1 e, change_dur_one b n d = (b1, Some e) -> b1 = b.
Proof.
  intros b n d b1 e H. unfold change_dur_one, fail, ok in H.
  repeat match type of H with
  | context [match ?x with _ => _ end] => destruct x
  | context [if ?x then _ else _] => destruct x
  end; inversion H; reflexivity.
Qed.

Lemma everywhere_dur_prefix : forall l b d b' e,
  change_dur_loop b l d = (b', Some e) ->
  exists l1 x l2, l = l1 ++ x :: l2 /\
    change_dur_loop b l1 d = (b', None) /\
    change_dur_one b' x d = (b', Some e).
Proof.
  induction l as [|n t IH]; intros b d b' e H; cbn [change_dur_loop] in H.
  - discriminate H.
  - destruct (change_dur_one b n d) as [b1 [e1|]] eqn:E.
    + unfold fail in H. inversion H; subst b' e.
      pose proof (change_dur_one_fail _ _ _ _ _ E) as ->.
      exists [], n, t. split; [reflexivity|]. split; [reflexivity|]. exact E.
    + destruct (IH _ _ _ _ H) as (l1 & x & l2 & -> & H1 & H2).
      exists (n :: l1), x, l2. split; [reflexivity|]. split; [|exact H2].
      cbn [change_dur_loop]. rewrite E. exact H1.
Qed.
