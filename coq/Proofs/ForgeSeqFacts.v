(* Facts about Sequence.forge (Model/Sequence.v) behind Props/C18.v.
   Definitions used by the statements come first; lemmas follow. *)
From Coq Require Import String Ascii List Arith ZArith QArith Bool Lia.
From BB Require Import Base.Names Base.Num Base.PyList Model.Types Model.Blueprint Model.Forge Model.Element
  Model.PyVal Model.Sequence.
Import ListNotations.

(* broadbean.sequence.fs_schema transcribed on observable values:
   {int: {"type": Or("subsequence","element"),
          "content": {int: {"data": {Or(str,int): {str: ndarray}}, Optional("sequencing"): {Optional(str): int}}},
          "sequencing": {Optional(str): int}}} *)
Definition is_array (p : pv) : bool :=
  match p with PPlan _ | PBools _ | PRle _ | PList _ | PTuple _ => true | _ => false end.
Definition is_int (p : pv) : bool := match p with PInt _ => true | _ => false end.
Definition is_str (p : pv) : bool := match p with PStr _ => true | _ => false end.
Definition key_is (k : string) (p : pv) : bool := match p with PStr x => str_eqb x (S_ k) | _ => false end.
Definition dict_all (f : pv -> pv -> bool) (p : pv) : bool :=
  match p with PDict l => forallb (fun kv => f (fst kv) (snd kv)) l | _ => false end.
Definition dget (k : string) (p : pv) : option pv :=
  match p with PDict l => option_map snd (find (fun kv => key_is k (fst kv)) l) | _ => None end.

Definition sequencing_ok (p : pv) : bool := dict_all (fun k v => is_str k && is_int v) p.
Definition chan_arrays_ok (p : pv) : bool := dict_all (fun k v => is_str k && is_array v) p.
Definition data_ok (p : pv) : bool := dict_all (fun k v => (is_str k || is_int k) && chan_arrays_ok v) p.
Definition content_item_ok (p : pv) : bool :=
  dict_all (fun k _ => key_is "data" k || key_is "sequencing" k) p &&
  match dget "data" p with Some d => data_ok d | None => false end &&
  match dget "sequencing" p with Some q => sequencing_ok q | None => true end.
Definition position_ok (p : pv) : bool :=
  dict_all (fun k _ => key_is "type" k || key_is "content" k || key_is "sequencing" k) p &&
  match dget "type" p with Some t => key_is "subsequence" t || key_is "element" t | None => false end &&
  match dget "content" p with Some c => dict_all (fun k v => is_int k && content_item_ok v) c | None => false end &&
  match dget "sequencing" p with Some q => sequencing_ok q | None => false end.
Definition schema_ok (p : pv) : bool := dict_all (fun k v => is_int k && position_ok v) p.

(* ---- lemmas: to be proved (see Props/C18.v for the exact statements needed) ---- *)

(* ---- generic inversion lemmas ---- *)
Lemma bind_ok_inv {A B} (r : result A) (f : A -> result B) b :
  bind r f = Ok b -> exists a, r = Ok a /\ f a = Ok b.
Proof. destruct r as [a|e]; cbn [bind]; intros H; [exists a; split; [reflexivity|exact H]|discriminate]. Qed.

Lemma mapM_cons_inv {A B} (f : A -> result B) x t ys :
  mapM f (x :: t) = Ok ys -> exists y r, f x = Ok y /\ mapM f t = Ok r /\ ys = y :: r.
Proof.
  cbn [mapM]. intros H.
  apply bind_ok_inv in H. destruct H as [y [Hy H]].
  apply bind_ok_inv in H. destruct H as [r [Hr H]].
  inversion H. exists y, r. repeat split; assumption.
Qed.

Lemma mapM_Forall2 {A B} (f : A -> result B) : forall l ys,
  mapM f l = Ok ys -> Forall2 (fun x y => f x = Ok y) l ys.
Proof.
  induction l as [|x t IH]; intros ys H.
  - cbn [mapM] in H. inversion H. constructor.
  - apply mapM_cons_inv in H. destruct H as [y [r [Hy [Hr ->]]]]. constructor; [exact Hy|apply IH; exact Hr].
Qed.

Lemma mapM_In {A B} (f : A -> result B) : forall l ys y,
  mapM f l = Ok ys -> In y ys -> exists x, In x l /\ f x = Ok y.
Proof.
  induction l as [|x t IH]; intros ys y H Hin.
  - cbn [mapM] in H. inversion H; subst. destruct Hin.
  - apply mapM_cons_inv in H. destruct H as [y0 [r [Hy [Hr ->]]]]. destruct Hin as [<-|Hin].
    + exists x. split; [left; reflexivity|exact Hy].
    + destruct (IH _ _ Hr Hin) as [x' [Hx' Hf]]. exists x'. split; [right; exact Hx'|exact Hf].
Qed.

Lemma mapM_forallb {A B} (f : A -> result B) (P : B -> bool) : forall l ys,
  mapM f l = Ok ys -> (forall x y, f x = Ok y -> P y = true) -> forallb P ys = true.
Proof.
  induction l as [|x t IH]; intros ys H HP.
  - cbn [mapM] in H. inversion H. reflexivity.
  - apply mapM_cons_inv in H. destruct H as [y [r [Hy [Hr ->]]]]. cbn [forallb].
    rewrite (HP _ _ Hy), (IH _ Hr HP). reflexivity.
Qed.

Lemma mapM_map {A B C} (f : A -> result B) (g : B -> C) (h : A -> C) : forall l ys,
  mapM f l = Ok ys -> (forall x y, f x = Ok y -> g y = h x) -> map g ys = map h l.
Proof.
  induction l as [|x t IH]; intros ys H Hg.
  - cbn [mapM] in H. inversion H. reflexivity.
  - apply mapM_cons_inv in H. destruct H as [y [r [Hy [Hr ->]]]]. cbn [map].
    rewrite (Hg _ _ Hy), (IH _ Hr Hg). reflexivity.
Qed.

(* ---- points / duration ---- *)
Lemma points_spec : forall s, seq_points s = sumR entry_points (avals (sdata s)).
Proof. reflexivity. Qed.
Lemma points_sub : forall sb, entry_points (ESub sb) = sumR el_points (avals (sdata sb)).
Proof. reflexivity. Qed.
Lemma duration_step : forall (E : Type) (edur : E -> result Q) sq p x l q d r,
  alookup Z.eqb p sq = Some q -> edur x = Ok d -> dur_loop edur sq l = Ok r ->
  dur_loop edur sq ((p, x) :: l) = Ok (inject_Z (nrep q) * d + r)%Q.
Proof.
  intros E edur sq p x l q d r Hq Hd Hr. cbn [dur_loop]. rewrite Hq, Hd, Hr. reflexivity.
Qed.

(* ---- guards of addSubSequence ---- *)
Lemma subsequence_guards : forall s pos sub,
  (existsb (fun p : Z * entry => entry_is_sub (snd p)) (sdata sub) = true -> seq_add_sub s pos sub = (s, Some EValue)) /\
  (val_eqb (seq_SR sub) (seq_SR s) = false -> snd (seq_add_sub s pos sub) = Some EValue /\ fst (seq_add_sub s pos sub) = s).
Proof.
  intros s pos sub. unfold seq_add_sub. split.
  - intros H. rewrite H. reflexivity.
  - intros H. rewrite H. cbn [negb].
    destruct (existsb (fun p : Z * entry => entry_is_sub (snd p)) (sdata sub)); split; reflexivity.
Qed.

(* ---- entries ---- *)
Lemma element_entry : forall s f t e r,
  forge_entry s f t (EElem e) = Ok r ->
  exists dta, forge_elem_data s f t e = Ok dta /\ r = (pstr "element", PDict [(PInt 1, PDict [(pstr "data", dta)])]).
Proof.
  intros s f t e r H. cbn [forge_entry] in H. apply bind_ok_inv in H. destruct H as [d [Hd H]].
  inversion H. exists d. split; [exact Hd|reflexivity].
Qed.

Lemma subsequence_entry : forall s f t (sb : subseq) r,
  forge_entry s f t (ESub sb) = Ok r ->
  exists l, r = (pstr "subsequence", PDict l) /\ map fst l = map PInt (range1 (length (sdata sb))) /\
    forall k v, In (PInt k, v) l ->
      exists e q dta, alookup Z.eqb k (sdata sb) = Some e /\ alookup Z.eqb k (sseq sb) = Some q /\
        forge_elem_data s f t e = Ok dta /\
        v = PDict [(pstr "data", dta); (pstr "sequencing", pv_of_sqing q)] /\
        forge_entry s f t (EElem e) = Ok (pstr "element", PDict [(PInt 1, PDict [(pstr "data", dta)])]).
Proof.
  intros s f t sb r H. cbn [forge_entry] in H. apply bind_ok_inv in H. destruct H as [l [Hl H]].
  inversion H. exists l. split; [reflexivity|]. split.
  - apply (mapM_map _ fst PInt _ _ Hl). intros x y Hxy.
    destruct (alookup Z.eqb x (sdata sb)) as [e|]; [|discriminate].
    destruct (alookup Z.eqb x (sseq sb)) as [q|]; [|discriminate].
    apply bind_ok_inv in Hxy. destruct Hxy as [d [_ Hxy]]. inversion Hxy. reflexivity.
  - intros k v Hin. destruct (mapM_In _ _ _ _ Hl Hin) as [x [_ Hxy]].
    destruct (alookup Z.eqb x (sdata sb)) as [e|] eqn:Ee; [|discriminate].
    destruct (alookup Z.eqb x (sseq sb)) as [q|] eqn:Eq; [|discriminate].
    apply bind_ok_inv in Hxy. destruct Hxy as [d [Hd Hxy]]. inversion Hxy; subst.
    exists e, q, d. repeat split; try assumption.
    cbn [forge_entry]. rewrite Hd. reflexivity.
Qed.

(* ---- optional keys ---- *)
Lemma existsb_map_arrs (wfm : wplan) : forall arrs : list (str * rle),
  existsb (fun kv : pv * pv => key_is "time" (fst kv))
    (map (fun p : str * rle => (PStr (fst p), if str_eqb (fst p) (S_ "wfm") then PPlan wfm else PRle (snd p))) arrs)
  = existsb (fun p : str * rle => str_eqb (fst p) (S_ "time")) arrs.
Proof.
  induction arrs as [|a t IH]; [reflexivity|]. cbn [map existsb fst]. rewrite IH. reflexivity.
Qed.

Lemma optional_keys : forall o w,
  match pv_of_chout o w with
  | PDict l =>
      (match o with
       | OForged _ fl wt _ =>
           (existsb (fun kv => key_is "time" (fst kv)) l = wt) /\ (existsb (fun kv => key_is "newdurations" (fst kv)) l = wt) /\
           (existsb (fun kv => key_is "flags" (fst kv)) l = match fl with Some _ => true | None => false end)
       | OArr arrs tn => existsb (fun kv => key_is "time" (fst kv)) l =
                         (match tn with Some _ => true | None => false end || existsb (fun p => str_eqb (fst p) (S_ "time")) arrs)
       end)
  | _ => False
  end.
Proof.
  intros o w. destruct o as [arrs tn|fg fl wt SR]; cbn [pv_of_chout].
  - rewrite existsb_app, existsb_map_arrs. destruct tn as [n|].
    + rewrite orb_comm. reflexivity.
    + cbn [existsb]. rewrite orb_false_r. reflexivity.
  - destruct fl as [l|], wt; repeat split; reflexivity.
Qed.

(* ---- positions ---- *)
Lemma forge_positions : forall s d f t p,
  seq_forge s d f t = Ok p ->
  exists out, p = PDict out /\ map fst out = map PInt (range1 (length (sdata s))) /\
    forall k v, In (PInt k, v) out ->
      exists q ty c, alookup Z.eqb k (sseq s) = Some q /\
        v = PDict [(pstr "sequencing", pv_of_sqing q); (pstr "type", ty); (pstr "content", c)].
Proof.
  intros s d f t p H. unfold seq_forge in H.
  apply bind_ok_inv in H. destruct H as [c [_ H]].
  destruct (negb c); [discriminate|].
  apply bind_ok_inv in H. destruct H as [chans [_ H]].
  apply bind_ok_inv in H. destruct H as [data [Hdata H]].
  apply bind_ok_inv in H. destruct H as [out [Hout H]].
  inversion H. exists out. split; [reflexivity|].
  assert (Hkeys : map fst data = range1 (length (sdata s))).
  { destruct d.
    - apply bind_ok_inv in Hdata. destruct Hdata as [dl [_ Hdata]].
      rewrite <- (map_id (range1 (length (sdata s)))).
      apply (mapM_map _ fst (fun k => k) _ _ Hdata). intros x y Hxy.
      destruct (alookup Z.eqb x (sdata s)) as [e|]; [|discriminate].
      apply bind_ok_inv in Hxy. destruct Hxy as [x' [_ Hxy]]. inversion Hxy. reflexivity.
    - rewrite <- (map_id (range1 (length (sdata s)))).
      apply (mapM_map _ fst (fun k => k) _ _ Hdata). intros x y Hxy.
      destruct (alookup Z.eqb x (sdata s)) as [e|]; [|discriminate]. inversion Hxy. reflexivity. }
  split.
  - rewrite <- Hkeys, map_map.
    apply (mapM_map _ fst (fun x : Z * entry => PInt (fst x)) _ _ Hout). intros x y Hxy.
    destruct (alookup Z.eqb (fst x) (sseq s)) as [q|]; [|discriminate].
    apply bind_ok_inv in Hxy. destruct Hxy as [tc [_ Hxy]]. inversion Hxy. reflexivity.
  - intros k v Hin. destruct (mapM_In _ _ _ _ Hout Hin) as [x [_ Hxy]].
    destruct (alookup Z.eqb (fst x) (sseq s)) as [q|] eqn:Eq; [|discriminate].
    apply bind_ok_inv in Hxy. destruct Hxy as [tc [_ Hxy]]. inversion Hxy; subst.
    exists q, (fst tc), (snd tc). split; [exact Eq|reflexivity].
Qed.

(* ---- schema ---- *)
Lemma chan_arrays_ok_chout : forall o w, chan_arrays_ok (pv_of_chout o w) = true.
Proof.
  intros o w. destruct o as [arrs tn|fg fl wt SR]; cbn [pv_of_chout].
  - unfold chan_arrays_ok, dict_all. rewrite forallb_app. apply andb_true_intro. split.
    + induction arrs as [|a r IH]; [reflexivity|]. cbn [map forallb fst snd is_str andb]. rewrite IH.
      destruct (str_eqb (fst a) (S_ "wfm")); reflexivity.
    + destruct tn; reflexivity.
  - destruct fl as [l|], wt; reflexivity.
Qed.

Lemma data_ok_forge : forall s f t e d, forge_elem_data s f t e = Ok d -> data_ok d = true.
Proof.
  intros s f t e d H. unfold forge_elem_data in H.
  apply bind_ok_inv in H. destruct H as [arrs [_ H]].
  apply bind_ok_inv in H. destruct H as [chs [Hchs H]]. inversion H.
  unfold data_ok, dict_all.
  apply (mapM_forallb _ _ _ _ Hchs). intros x y Hxy.
  apply bind_ok_inv in Hxy. destruct Hxy as [w [_ Hxy]].
  apply bind_ok_inv in Hxy. destruct Hxy as [flt [_ Hxy]].
  apply bind_ok_inv in Hxy. destruct Hxy as [w' [_ Hxy]]. inversion Hxy. cbn [fst snd].
  rewrite chan_arrays_ok_chout. destruct (fst x); reflexivity.
Qed.

Lemma sequencing_ok_sqing : forall q, sequencing_ok (pv_of_sqing q) = true.
Proof. reflexivity. Qed.

Lemma content_item_ok_data : forall d, content_item_ok (PDict [(pstr "data", d)]) = data_ok d.
Proof.
  intros d. change (content_item_ok (PDict [(pstr "data", d)])) with (true && data_ok d && true).
  destruct (data_ok d); reflexivity.
Qed.

Lemma content_item_ok_data_seq : forall d q,
  content_item_ok (PDict [(pstr "data", d); (pstr "sequencing", pv_of_sqing q)]) = data_ok d.
Proof.
  intros d q.
  change (content_item_ok (PDict [(pstr "data", d); (pstr "sequencing", pv_of_sqing q)]))
    with (true && data_ok d && true).
  destruct (data_ok d); reflexivity.
Qed.

Lemma forge_entry_ok : forall s f t x ty c,
  forge_entry s f t x = Ok (ty, c) ->
  (key_is "subsequence" ty || key_is "element" ty) = true /\
  dict_all (fun k v => is_int k && content_item_ok v) c = true.
Proof.
  intros s f t x ty c H. destruct x as [e|sb]; cbn [forge_entry] in H.
  - apply bind_ok_inv in H. destruct H as [d [Hd H]]. inversion H. split; [reflexivity|].
    cbn [dict_all forallb fst snd is_int andb]. rewrite content_item_ok_data, (data_ok_forge _ _ _ _ _ Hd). reflexivity.
  - apply bind_ok_inv in H. destruct H as [l [Hl H]]. inversion H. split; [reflexivity|].
    cbn [dict_all]. apply (mapM_forallb _ _ _ _ Hl). intros k y Hy.
    destruct (alookup Z.eqb k (sdata sb)) as [e|]; [|discriminate].
    destruct (alookup Z.eqb k (sseq sb)) as [q|]; [|discriminate].
    apply bind_ok_inv in Hy. destruct Hy as [d [Hd Hy]]. inversion Hy. cbn [fst snd is_int andb].
    rewrite content_item_ok_data_seq. exact (data_ok_forge _ _ _ _ _ Hd).
Qed.

Lemma position_ok_intro : forall q ty c,
  (key_is "subsequence" ty || key_is "element" ty) = true ->
  dict_all (fun k v => is_int k && content_item_ok v) c = true ->
  position_ok (PDict [(pstr "sequencing", pv_of_sqing q); (pstr "type", ty); (pstr "content", c)]) = true.
Proof.
  intros q ty c Hty Hc.
  change (position_ok (PDict [(pstr "sequencing", pv_of_sqing q); (pstr "type", ty); (pstr "content", c)]))
    with (true && (key_is "subsequence" ty || key_is "element" ty)
          && dict_all (fun k v => is_int k && content_item_ok v) c && sequencing_ok (pv_of_sqing q)).
  rewrite Hty, Hc. reflexivity.
Qed.

Lemma forge_schema : forall s d f t p, seq_forge s d f t = Ok p -> schema_ok p = true.
Proof.
  intros s d f t p H. unfold seq_forge in H.
  apply bind_ok_inv in H. destruct H as [c [_ H]].
  destruct (negb c); [discriminate|].
  apply bind_ok_inv in H. destruct H as [chans [_ H]].
  apply bind_ok_inv in H. destruct H as [data [_ H]].
  apply bind_ok_inv in H. destruct H as [out [Hout H]].
  inversion H. unfold schema_ok, dict_all.
  apply (mapM_forallb _ _ _ _ Hout). intros x y Hxy.
  destruct (alookup Z.eqb (fst x) (sseq s)) as [q|]; [|discriminate].
  apply bind_ok_inv in Hxy. destruct Hxy as [tc [Htc Hxy]]. inversion Hxy. cbn [fst snd is_int andb].
  destruct tc as [ty cn]. destruct (forge_entry_ok _ _ _ _ _ _ Htc) as [Hty Hcn].
  apply position_ok_intro; assumption.
Qed.
