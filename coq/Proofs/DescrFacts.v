(* Facts about descriptions, the JSON round trip and the readers (Model/Descr.v) behind Props/C19.v.
   Definitions used by the statements come first; lemmas follow. *)
From Coq Require Import String Ascii List Arith ZArith QArith Bool Lia.
From BB Require Import Base.Names Base.Num Base.PyList Model.Types Model.Blueprint Model.Forge Model.Element
  Model.PyVal Model.Sequence Model.Descr Proofs.BlueprintFacts.
Import ListNotations.

(* values json.dump accepts: numbers, strings, None, booleans, lists/tuples, dicts with string keys *)
Fixpoint serialisable (p : pv) : bool :=
  match p with
  | PInt _ | PNum _ | PStr _ | PNone | PBool _ => true
  | PList l | PTuple l => forallb serialisable l
  | PDict l => forallb (fun kv => match fst kv with PStr _ => serialisable (snd kv) | _ => false end) l
  | PErr _ | PBools _ | PRle _ | PPlan _ => false
  end.

(* what json.load returns: no tuples *)
Fixpoint json_value (p : pv) : bool :=
  match p with
  | PInt _ | PNum _ | PStr _ | PNone | PBool _ => true
  | PList l => forallb json_value l
  | PDict l => forallb (fun kv => match fst kv with PStr _ => json_value (snd kv) | _ => false end) l
  | _ => false
  end.

Definition builtin_fn (f : fn) : bool := match f with Framp | Fsine | Fgauss | Fgsc | Fwait => true | _ => false end.

(* a blueprint over the built-in shapes as the public API builds them: waituntil segments carry their numeric
   target and no duration, the others their full argument tuple and a duration; names have a non-empty base *)
Definition seg_ok (f : fn) (a : list val) (d : val) : Prop :=
  builtin_fn f = true /\
  (if fn_eqb f Fwait then (exists w, a = [VNum w]) /\ d = VNone
   else length a = fn_arity f /\ exists q, d = VNum q).
Definition bp_json_ok (b : bp) : Prop :=
  Inv b /\ Forall (fun n => basename n <> []) (names b) /\
  (forall k f a d, nth_error (funs b) k = Some f -> nth_error (args b) k = Some a -> nth_error (durs b) k = Some d -> seg_ok f a d).

(* ---- lemmas: to be proved (see Props/C19.v for the exact statements needed) ---- *)

Local Open Scope Z_scope.

(* ---------- leaves ---------- *)
Lemma val_rt v : val_of_pv (json_rt (pv_of_val v)) = Ok v.
Proof. destruct v; reflexivity. Qed.

Lemma json_rt_val v : json_rt (pv_of_val v) = pv_of_val v.
Proof. destruct v; reflexivity. Qed.

Lemma val_of_pv_of_val v : val_of_pv (pv_of_val v) = Ok v.
Proof. destruct v; reflexivity. Qed.

Lemma mspec_rt m : mspec_of_pv (json_rt (pv_of_mspec m)) = Ok m.
Proof. destruct m as [x y]. reflexivity. Qed.

Lemma flags_mapM fl :
  mapM val_of_pv (map json_rt (map PInt fl)) = Ok (map (fun z => VNum (inject_Z z)) fl).
Proof.
  induction fl as [|z t IH]; [reflexivity|].
  cbn [map mapM json_rt val_of_pv bind]. rewrite IH. reflexivity.
Qed.

Lemma flag_int_small z : 0 <= z <= 4 -> flag_int (VNum (inject_Z z)) = Some z.
Proof.
  intro H.
  assert (z = 0 \/ z = 1 \/ z = 2 \/ z = 3 \/ z = 4) as C by lia.
  destruct C as [-> | [-> | [-> | [-> | ->]]]]; reflexivity.
Qed.

Lemma leaves_roundtrip : forall (v : val) (m : mspec) (fl : list Z),
  val_of_pv (json_rt (pv_of_val v)) = Ok v /\
  mspec_of_pv (json_rt (pv_of_mspec m)) = Ok m /\
  (Forall (fun z => (0 <= z <= 4)%Z) fl ->
   exists vs, flags_of_pv (json_rt (PList (map PInt fl))) = Ok vs /\ map flag_int vs = map Some fl).
Proof.
  intros v m fl. split; [apply val_rt|]. split; [apply mspec_rt|].
  intro HF. exists (map (fun z => VNum (inject_Z z)) fl). split.
  - unfold flags_of_pv. cbn [json_rt list_of_pv bind]. apply flags_mapM.
  - rewrite map_map. apply map_ext_in. intros z Hz.
    rewrite Forall_forall in HF. apply flag_int_small. apply HF. exact Hz.
Qed.

Lemma settings_roundtrip : forall v : specval,
  (match v with SVal (VStr _) => False | _ => True end) ->
  specval_of_pv (json_rt (pv_of_specval v)) = Ok v.
Proof.
  intros v H. destruct v as [x | k o f t].
  - destruct x; [reflexivity | contradiction | reflexivity].
  - destruct f, t; reflexivity.
Qed.

Lemma sequencing_roundtrip : forall q,
  let d := json_rt (sqing_descr q) in
  exists a b c e f, pd_get "Wait trigger" d = Ok (PInt a) /\ pd_get "Repeat" d = Ok (PInt b) /\
    pd_get "jump_input" d = Ok (PInt c) /\ pd_get "jump_target" d = Ok (PInt e) /\ pd_get "Go to" d = Ok (PInt f) /\
    q = mkSq a b c e f.
Proof.
  intros q d. destruct q as [a b c e f]. exists a, b, c, e, f.
  repeat split; reflexivity.
Qed.

(* ---------- the description is serialisable ---------- *)
Lemma ser_val v : serialisable (pv_of_val v) = true.
Proof. destruct v; reflexivity. Qed.

Lemma jv_val v : json_value (pv_of_val v) = true.
Proof. destruct v; reflexivity. Qed.

Lemma ser_vals a : forallb serialisable (map pv_of_val a) = true.
Proof. induction a as [|v t IH]; [reflexivity|]. cbn [map forallb]. now rewrite ser_val, IH. Qed.

Lemma jv_vals a : forallb json_value (map json_rt (map pv_of_val a)) = true.
Proof.
  induction a as [|v t IH]; [reflexivity|]. cbn [map forallb].
  now rewrite json_rt_val, jv_val, IH.
Qed.

Lemma ser_zipd ks vs :
  forallb (fun kv : pv * pv => match fst kv with PStr _ => serialisable (snd kv) | _ => false end) (zipd ks vs) = true.
Proof.
  unfold zipd. induction (combine ks vs) as [|p t IH]; [reflexivity|].
  cbn [map forallb fst snd]. now rewrite ser_val, IH.
Qed.

Lemma jv_zipd ks vs :
  forallb (fun kv : pv * pv => match fst kv with PStr _ => json_value (snd kv) | _ => false end)
    (map (fun kv : pv * pv => (json_rt (fst kv), json_rt (snd kv))) (zipd ks vs)) = true.
Proof.
  unfold zipd. induction (combine ks vs) as [|p t IH]; [reflexivity|].
  cbn [map forallb fst snd json_rt]. now rewrite json_rt_val, jv_val, IH.
Qed.

Lemma ser_mspecs l : forallb serialisable (map pv_of_mspec l) = true.
Proof. induction l as [|m t IH]; [reflexivity|]. cbn [map forallb]. rewrite IH. reflexivity. Qed.

Lemma jv_mspecs l : forallb json_value (map json_rt (map pv_of_mspec l)) = true.
Proof. induction l as [|m t IH]; [reflexivity|]. cbn [map forallb]. rewrite IH. reflexivity. Qed.

Lemma ser_segs ns : forall k fs ars ds,
  forallb (fun kv : pv * pv => match fst kv with PStr _ => serialisable (snd kv) | _ => false end)
    (bp_descr_segs k ns fs ars ds) = true.
Proof.
  induction ns as [|n ns IH]; intros k fs ars ds; [reflexivity|].
  destruct fs as [|f fs]; [reflexivity|]. destruct ars as [|a ars]; [reflexivity|].
  destruct ds as [|d ds]; [reflexivity|].
  cbn [bp_descr_segs forallb fst snd]. rewrite IH, andb_true_r.
  cbn [serialisable forallb fst snd pstr]. rewrite ser_val.
  destruct (fn_eqb f Fwait).
  - cbn [serialisable forallb fst snd pstr]. now rewrite ser_vals.
  - cbn [serialisable]. now rewrite ser_zipd.
Qed.

Lemma jv_segs ns : forall k fs ars ds,
  forallb (fun kv : pv * pv => match fst kv with PStr _ => json_value (snd kv) | _ => false end)
    (map (fun kv : pv * pv => (json_rt (fst kv), json_rt (snd kv))) (bp_descr_segs k ns fs ars ds)) = true.
Proof.
  induction ns as [|n ns IH]; intros k fs ars ds; [reflexivity|].
  destruct fs as [|f fs]; [reflexivity|]. destruct ars as [|a ars]; [reflexivity|].
  destruct ds as [|d ds]; [reflexivity|].
  cbn [bp_descr_segs map forallb fst snd]. rewrite IH, andb_true_r.
  cbn [json_rt map fst snd pstr json_value forallb]. rewrite json_rt_val, jv_val.
  destruct (fn_eqb f Fwait).
  - cbn [json_rt map fst snd pstr json_value forallb]. now rewrite jv_vals.
  - cbn [json_rt json_value]. now rewrite jv_zipd.
Qed.

Lemma bp_descr_serialisable : forall b,
  serialisable (bp_descr b) = true /\ json_value (json_rt (bp_descr b)) = true.
Proof.
  intro b. unfold bp_descr. split.
  - cbn [serialisable]. rewrite forallb_app, ser_segs.
    cbn [forallb fst snd pstr serialisable andb]. now rewrite !ser_mspecs.
  - cbn [json_rt json_value]. rewrite map_app, forallb_app, jv_segs.
    cbn [map forallb fst snd pstr json_rt json_value andb]. now rewrite !jv_mspecs.
Qed.

(* ---------- it lists every segment ---------- *)
Lemma descr_segs_length ns : forall k fs ars ds,
  length fs = length ns -> length ars = length ns -> length ds = length ns ->
  length (bp_descr_segs k ns fs ars ds) = length ns.
Proof.
  induction ns as [|n ns IH]; intros k fs ars ds Hf Ha Hd; [reflexivity|].
  destruct fs as [|f fs]; [discriminate|]. destruct ars as [|a ars]; [discriminate|].
  destruct ds as [|d ds]; [discriminate|].
  cbn [bp_descr_segs length]. f_equal. apply IH; cbn [length] in *; congruence.
Qed.

Lemma descr_segs_nth ns : forall k0 fs ars ds k n,
  length fs = length ns -> length ars = length ns -> length ds = length ns ->
  nth_error ns k = Some n ->
  exists v, nth_error (bp_descr_segs k0 ns fs ars ds) k = Some (PStr (seg_key (k0 + Z.of_nat k)), v) /\
            pd_get "name" v = Ok (PStr n).
Proof.
  induction ns as [|n0 ns IH]; intros k0 fs ars ds k n Hf Ha Hd Hn.
  - destruct k; discriminate.
  - destruct fs as [|f fs]; [discriminate|]. destruct ars as [|a ars]; [discriminate|].
    destruct ds as [|d ds]; [discriminate|].
    cbn [bp_descr_segs]. destruct k as [|k].
    + cbn [nth_error] in Hn. inversion Hn; subst n0. cbn [nth_error].
      eexists. split.
      * rewrite Z.add_0_r. reflexivity.
      * reflexivity.
    + cbn [nth_error] in Hn. cbn [nth_error].
      destruct (IH (k0 + 1) fs ars ds k n) as (v & Hv & Hg); cbn [length] in *; try congruence.
      exists v. split; [|exact Hg]. rewrite Hv. do 4 f_equal. lia.
Qed.

Lemma descr_lists_every_segment : forall b, Inv b ->
  exists segs, bp_descr b = PDict (segs ++ [(pstr "marker1_abs", PList (map pv_of_mspec (am1 b)));
                                            (pstr "marker2_abs", PList (map pv_of_mspec (am2 b)));
                                            (pstr "marker1_rel", PList (map pv_of_mspec (sm1 b)));
                                            (pstr "marker2_rel", PList (map pv_of_mspec (sm2 b)))]) /\
    length segs = length (names b) /\
    forall k n, nth_error (names b) k = Some n ->
      exists v, nth_error segs k = Some (PStr (seg_key (Z.of_nat k + 1)), v) /\ pd_get "name" v = Ok (PStr n).
Proof.
  intros b (Hf & Ha & Hd & _).
  exists (bp_descr_segs 1 (names b) (funs b) (args b) (durs b)). split; [reflexivity|]. split.
  - now apply descr_segs_length.
  - intros k n Hn. rewrite Z.add_comm. now apply descr_segs_nth.
Qed.

(* ---------- the blueprint reader, with its loop named ---------- *)
Definition read_one (i : Z) (sd : pv) : result bp :=
  do fnm <- pd_get "function" sd;
  do nm <- pd_get "name" sd;
  do ar <- pd_get "arguments" sd;
  do aritems <- pd_items ar;
  match nm with
  | PStr n =>
      (if pv_str_eqb fnm (S_ "waituntil") then
         match aritems with
         | (_, first) :: _ =>
             do l0 <- list_of_pv first;
             match l0 with
             | x :: _ => do v <- val_of_pv x;
                         step_res (bp_insert bp_empty i Fwait [v] VNone (Some (basename n)))
             | [] => Err EIndex
             end
         | [] => Err EIndex
         end
       else
         match fnm with
         | PStr fs =>
             do f <- known_function fs;
             do vs <- mapM (fun kv : pv * pv => val_of_pv (snd kv)) aritems;
             do du <- pd_get "durations" sd;
             do dv <- val_of_pv du;
             step_res (bp_insert bp_empty i f vs dv (Some (basename n)))
         | _ => Err EKey
         end)
  | _ => Err EValue
  end.

Fixpoint read_segs (i : Z) (l : list (pv * pv)) (acc : bp) : result bp :=
  match l with
  | [] => Ok acc
  | (_, sd) :: t => do one <- read_one i sd; read_segs (i + 1) t (bp_add acc one)
  end.

Definition seg_filter (kv : pv * pv) : bool :=
  match fst kv with PStr k => contains (S_ "segment") k | _ => false end.

Definition read_bp (d : pv) : result bp :=
  do items <- pd_items d;
  do b <- read_segs 0 (filter seg_filter items) bp_empty;
  do m1 <- pd_get "marker1_abs" d; do l1 <- list_of_pv m1; do a1 <- mapM mspec_of_pv l1;
  do m2 <- pd_get "marker2_abs" d; do l2 <- list_of_pv m2; do a2 <- mapM mspec_of_pv l2;
  do r1 <- pd_get "marker1_rel" d; do k1 <- list_of_pv r1; do s1 <- mapM mspec_of_pv k1;
  do r2 <- pd_get "marker2_rel" d; do k2 <- list_of_pv r2; do s2 <- mapM mspec_of_pv k2;
  Ok (set_sm2 (set_sm1 (set_am2 (set_am1 b a1) a2) s1) s2).

Definition go_loop :=
  fix go (i : Z) (l : list (pv * pv)) (acc : bp) : result bp :=
             match l with
             | [] => Ok acc
             | (_, sd) :: t =>
                 do fnm <- pd_get "function" sd;
                 do nm <- pd_get "name" sd;
                 do ar <- pd_get "arguments" sd;
                 do aritems <- pd_items ar;
                 match nm with
                 | PStr n =>
                   do one <-
                     (if pv_str_eqb fnm (S_ "waituntil") then
                        match aritems with
                        | (_, first) :: _ =>
                            do l0 <- list_of_pv first;
                            match l0 with
                            | x :: _ => do v <- val_of_pv x;
                                        step_res (bp_insert bp_empty i Fwait [v] VNone (Some (basename n)))
                            | [] => Err EIndex
                            end
                        | [] => Err EIndex
                        end
                      else
                        match fnm with
                        | PStr fs =>
                            do f <- known_function fs;
                            do vs <- mapM (fun kv : pv * pv => val_of_pv (snd kv)) aritems;
                            do du <- pd_get "durations" sd;
                            do dv <- val_of_pv du;
                            step_res (bp_insert bp_empty i f vs dv (Some (basename n)))
                        | _ => Err EKey
                        end);
                   go (i + 1) t (bp_add acc one)
                 | _ => Err EValue
                 end
             end.

Lemma go_loop_read_segs l : forall i acc, go_loop i l acc = read_segs i l acc.
Proof.
  induction l as [|[k sd] t IH]; intros i acc; [reflexivity|].
  cbn [go_loop read_segs]. fold go_loop. unfold read_one.
  destruct (pd_get "function" sd) as [fnm|e]; [|reflexivity]. cbn [bind].
  destruct (pd_get "name" sd) as [nm|e]; [|reflexivity]. cbn [bind].
  destruct (pd_get "arguments" sd) as [ar|e]; [|reflexivity]. cbn [bind].
  destruct (pd_items ar) as [aritems|e]; [|reflexivity]. cbn [bind].
  destruct nm; try reflexivity.
  match goal with |- bind ?X _ = bind ?X _ => destruct X as [one|e] end; [|reflexivity].
  cbn [bind]. apply IH.
Qed.

Lemma bp_from_descr_read d : bp_from_descr d = read_bp d.
Proof.
  unfold bp_from_descr, read_bp. fold go_loop.
  destruct (pd_items d) as [items|e]; [|reflexivity]. cbn [bind].
  fold seg_filter. rewrite go_loop_read_segs. reflexivity.
Qed.

(* ---------- names ---------- *)
Lemma basename_idem x : basename (basename x) = basename x.
Proof. apply basename_id. apply basename_no_digit. Qed.

Lemma map_basename_idem l : map basename (map basename l) = map basename l.
Proof. rewrite map_map. apply map_ext. intro x. apply basename_idem. Qed.

Lemma Forall_basename_no_digit l : Forall (fun b => ends_in_digit b = false) (map basename l).
Proof.
  rewrite Forall_forall. intros b Hb. apply in_map_iff in Hb as (s & <- & _). apply basename_no_digit.
Qed.

Lemma map_basename_uniquify l : map basename (uniquify l) = map basename l.
Proof. unfold uniquify. apply map_basename_uniq_aux. apply Forall_basename_no_digit. Qed.

Lemma uniquify_map_basename l : uniquify (map basename l) = uniquify l.
Proof. unfold uniquify. now rewrite map_basename_idem. Qed.

(* ---------- what json.load returns for a blueprint description ---------- *)
Definition args_rt (f : fn) (a : list val) : pv :=
  if fn_eqb f Fwait then PDict [(pstr "waittime", PList (map pv_of_val a))]
  else PDict (zipd (fn_params f) a).

Definition seg_rt (n : str) (f : fn) (a : list val) (d : val) : pv :=
  PDict [(pstr "name", PStr n); (pstr "function", PStr (fn_descr f)); (pstr "durations", pv_of_val d);
         (pstr "arguments", args_rt f a)].

Fixpoint segs_rt (k : Z) (ns : list str) (fs : list fn) (ars : list (list val)) (ds : list val)
  : list (pv * pv) :=
  match ns, fs, ars, ds with
  | n :: ns', f :: fs', a :: ars', d :: ds' =>
      (PStr (seg_key k), seg_rt n f a d) :: segs_rt (k + 1) ns' fs' ars' ds'
  | _, _, _, _ => []
  end.

Definition mspec_pl (m : mspec) : pv := PList [PNum (fst m); PNum (snd m)].

Definition markers_rt (b : bp) : list (pv * pv) :=
  [(pstr "marker1_abs", PList (map mspec_pl (am1 b))); (pstr "marker2_abs", PList (map mspec_pl (am2 b)));
   (pstr "marker1_rel", PList (map mspec_pl (sm1 b))); (pstr "marker2_rel", PList (map mspec_pl (sm2 b)))].

Lemma json_rt_vals a : map json_rt (map pv_of_val a) = map pv_of_val a.
Proof. rewrite map_map. apply map_ext. intro v. apply json_rt_val. Qed.

Lemma json_rt_zipd ks vs :
  map (fun kv : pv * pv => (json_rt (fst kv), json_rt (snd kv))) (zipd ks vs) = zipd ks vs.
Proof.
  unfold zipd. rewrite map_map. apply map_ext. intros [k v]. cbn [fst snd json_rt].
  now rewrite json_rt_val.
Qed.

Lemma json_rt_mspecs l : map json_rt (map pv_of_mspec l) = map mspec_pl l.
Proof. rewrite map_map. apply map_ext. intros [x y]. reflexivity. Qed.

Lemma json_rt_segs ns : forall k fs ars ds,
  map (fun kv : pv * pv => (json_rt (fst kv), json_rt (snd kv))) (bp_descr_segs k ns fs ars ds)
  = segs_rt k ns fs ars ds.
Proof.
  induction ns as [|n ns IH]; intros k fs ars ds; [reflexivity|].
  destruct fs as [|f fs]; [reflexivity|]. destruct ars as [|a ars]; [reflexivity|].
  destruct ds as [|d ds]; [reflexivity|].
  cbn [bp_descr_segs segs_rt map fst snd]. rewrite IH. f_equal. f_equal.
  unfold seg_rt, args_rt. cbn [json_rt map fst snd pstr]. rewrite json_rt_val.
  destruct (fn_eqb f Fwait).
  - cbn [json_rt map fst snd pstr]. now rewrite json_rt_vals.
  - cbn [json_rt]. now rewrite json_rt_zipd.
Qed.

Lemma json_rt_bp_descr b :
  json_rt (bp_descr b) = PDict (segs_rt 1 (names b) (funs b) (args b) (durs b) ++ markers_rt b).
Proof.
  unfold bp_descr. cbn [json_rt]. rewrite map_app, json_rt_segs.
  cbn [map fst snd json_rt pstr]. rewrite !json_rt_mspecs. reflexivity.
Qed.

(* ---------- the key filter ---------- *)
Lemma contains_prefix sub rest : contains sub (sub ++ rest) = true.
Proof.
  destruct (sub ++ rest) as [|c t] eqn:E.
  - apply app_eq_nil in E as [-> _]. reflexivity.
  - cbn [contains]. rewrite <- E.
    rewrite firstn_app, Nat.sub_diag, firstn_O, firstn_all, app_nil_r.
    now rewrite str_eqb_refl.
Qed.

Lemma contains_seg_key k : contains (S_ "segment") (seg_key k) = true.
Proof.
  unfold seg_key.
  change (S_ "segment_" ++ (if k <? 10 then S_ "0" else []) ++ str_of_Z k)
    with (S_ "segment" ++ (S_ "_" ++ (if k <? 10 then S_ "0" else []) ++ str_of_Z k)).
  apply contains_prefix.
Qed.

Lemma filter_segs_rt ns : forall k fs ars ds,
  filter seg_filter (segs_rt k ns fs ars ds) = segs_rt k ns fs ars ds.
Proof.
  induction ns as [|n ns IH]; intros k fs ars ds; [reflexivity|].
  destruct fs as [|f fs]; [reflexivity|]. destruct ars as [|a ars]; [reflexivity|].
  destruct ds as [|d ds]; [reflexivity|].
  cbn [segs_rt filter]. unfold seg_filter at 1. cbn [fst]. rewrite contains_seg_key.
  f_equal. apply IH.
Qed.

Lemma filter_markers_rt b : filter seg_filter (markers_rt b) = [].
Proof. reflexivity. Qed.

(* ---------- looking up the marker lists behind the segments ---------- *)
Lemma find_app {A} (p : A -> bool) l1 l2 :
  find p (l1 ++ l2) = match find p l1 with Some x => Some x | None => find p l2 end.
Proof. induction l1 as [|x t IH]; [reflexivity|]. cbn [app find]. destruct (p x); [reflexivity|exact IH]. Qed.

Lemma find_segs_rt_none (key : str) ns : forall k fs ars ds,
  (forall j, str_eqb key (seg_key j) = false) ->
  find (fun kv : pv * pv => pv_str_eqb (fst kv) key) (segs_rt k ns fs ars ds) = None.
Proof.
  induction ns as [|n ns IH]; intros k fs ars ds H; [reflexivity|].
  destruct fs as [|f fs]; [reflexivity|]. destruct ars as [|a ars]; [reflexivity|].
  destruct ds as [|d ds]; [reflexivity|].
  cbn [segs_rt find fst pv_str_eqb]. rewrite H. now apply IH.
Qed.

Lemma seg_key_head c rest j : c <> "s"%char -> str_eqb (c :: rest) (seg_key j) = false.
Proof.
  intro H. apply str_eqb_neq. unfold seg_key. intro E.
  change (S_ "segment_") with ("s"%char :: S_ "egment_") in E.
  cbn [app] in E. inversion E. contradiction.
Qed.

Lemma pd_get_behind_segs (key : string) k ns fs ars ds M :
  (forall j, str_eqb (S_ key) (seg_key j) = false) ->
  pd_get key (PDict (segs_rt k ns fs ars ds ++ M)) = pd_get key (PDict M).
Proof.
  intro H. unfold pd_get. rewrite find_app, find_segs_rt_none by exact H. reflexivity.
Qed.

Lemma mapM_mspec_pl l : mapM mspec_of_pv (map mspec_pl l) = Ok l.
Proof.
  induction l as [|[x y] t IH]; [reflexivity|].
  cbn [map mapM]. rewrite IH. reflexivity.
Qed.

(* ---------- reading one segment ---------- *)
Definition one_bp (n : str) (f : fn) (a : list val) (d : val) : bp :=
  mkBp (uniquify [basename n]) [f] [a] [d] [(0, 0)%Q] [(0, 0)%Q] [] [] VNone.

Lemma insert_one i n f a d : 0 <= i -> basename n <> [] ->
  step_res (bp_insert bp_empty i f a d (Some (basename n))) = Ok (one_bp n f a d).
Proof.
  intros Hi Hn. unfold bp_insert.
  assert (i <? -1 = false) as -> by (apply Z.ltb_ge; lia).
  assert (is_empty (basename n) = false) as E.
  { destruct (basename n); [contradiction|reflexivity]. }
  rewrite E. cbn [negb andb]. rewrite basename_no_digit.
  assert (i =? -1 = false) as -> by (apply Z.eqb_neq; lia).
  unfold bp_empty, ins. cbn [names funs args durs sm1 sm2 am1 am2 sr].
  rewrite !firstn_nil, !skipn_nil. reflexivity.
Qed.

Lemma pd_get_seg_name x1 x2 x3 x4 :
  pd_get "name" (PDict [(pstr "name", x1); (pstr "function", x2); (pstr "durations", x3); (pstr "arguments", x4)]) = Ok x1.
Proof. reflexivity. Qed.
Lemma pd_get_seg_function x1 x2 x3 x4 :
  pd_get "function" (PDict [(pstr "name", x1); (pstr "function", x2); (pstr "durations", x3); (pstr "arguments", x4)]) = Ok x2.
Proof. reflexivity. Qed.
Lemma pd_get_seg_durations x1 x2 x3 x4 :
  pd_get "durations" (PDict [(pstr "name", x1); (pstr "function", x2); (pstr "durations", x3); (pstr "arguments", x4)]) = Ok x3.
Proof. reflexivity. Qed.
Lemma pd_get_seg_arguments x1 x2 x3 x4 :
  pd_get "arguments" (PDict [(pstr "name", x1); (pstr "function", x2); (pstr "durations", x3); (pstr "arguments", x4)]) = Ok x4.
Proof. reflexivity. Qed.

Lemma mapM_zipd vs : forall ks, (length vs <= length ks)%nat ->
  mapM (fun kv : pv * pv => val_of_pv (snd kv)) (zipd ks vs) = Ok vs.
Proof.
  unfold zipd. induction vs as [|v vs IH]; intros ks H.
  - destruct ks; reflexivity.
  - destruct ks as [|k ks]; [cbn [length] in H; lia|].
    cbn [combine map mapM snd]. rewrite val_of_pv_of_val. cbn [bind].
    rewrite IH by (cbn [length] in H; lia). reflexivity.
Qed.

Lemma known_function_builtin f : builtin_fn f = true -> fn_eqb f Fwait = false ->
  known_function (fn_descr f) = Ok f.
Proof. destruct f; intros H1 H2; try discriminate; vm_compute; reflexivity. Qed.

Lemma not_waituntil f : builtin_fn f = true -> fn_eqb f Fwait = false ->
  pv_str_eqb (PStr (fn_descr f)) (S_ "waituntil") = false.
Proof. destruct f; intros H1 H2; try discriminate; vm_compute; reflexivity. Qed.

Lemma arity_le_params f : fn_eqb f Fwait = false -> (fn_arity f <= length (fn_params f))%nat.
Proof. destruct f; intro H; try discriminate; cbn; lia. Qed.

Lemma read_one_ok i n f a d : 0 <= i -> basename n <> [] -> seg_ok f a d ->
  read_one i (seg_rt n f a d) = Ok (one_bp n f a d).
Proof.
  intros Hi Hn [Hb Hs]. unfold read_one, seg_rt.
  rewrite pd_get_seg_function. cbn [bind]. rewrite pd_get_seg_name. cbn [bind].
  rewrite pd_get_seg_arguments. cbn [bind].
  unfold args_rt. destruct (fn_eqb f Fwait) eqn:EW.
  - destruct Hs as [[w ->] ->].
    assert (f = Fwait) as -> by (destruct f; try discriminate; reflexivity).
    cbn [pd_items bind map pv_of_val].
    change (pv_str_eqb (PStr (fn_descr Fwait)) (S_ "waituntil")) with true. cbv iota.
    cbn [list_of_pv bind val_of_pv].
    now apply insert_one.
  - destruct Hs as [Hl [q ->]].
    cbn [pd_items bind]. rewrite not_waituntil by assumption.
    rewrite known_function_builtin by assumption. cbn [bind].
    rewrite mapM_zipd by (rewrite Hl; now apply arity_le_params). cbn [bind].
    rewrite pd_get_seg_durations. cbn [bind pv_of_val val_of_pv].
    now apply insert_one.
Qed.

(* ---------- the loop ---------- *)
Lemma names_step l n ns :
  uniquify (uniquify (map basename l ++ map basename (uniquify [basename n])) ++ ns) = uniquify (l ++ n :: ns).
Proof.
  unfold uniquify at 1. rewrite map_app, map_basename_uniquify, map_app, !map_basename_idem.
  rewrite map_basename_uniquify. cbn [map]. rewrite basename_idem.
  unfold uniquify. rewrite map_app. cbn [map]. rewrite <- app_assoc. reflexivity.
Qed.

Lemma read_segs_rt ns : forall k i fs ars ds acc,
  0 <= i -> length fs = length ns -> length ars = length ns -> length ds = length ns ->
  Forall (fun n => basename n <> []) ns ->
  (forall j f a d, nth_error fs j = Some f -> nth_error ars j = Some a -> nth_error ds j = Some d -> seg_ok f a d) ->
  uniquify (names acc) = names acc ->
  exists s1 s2, read_segs i (segs_rt k ns fs ars ds) acc =
    Ok (mkBp (uniquify (names acc ++ ns)) (funs acc ++ fs) (args acc ++ ars) (durs acc ++ ds) s1 s2
             (am1 acc) (am2 acc) (sr acc)).
Proof.
  induction ns as [|n ns IH]; intros k i fs ars ds acc Hi Hf Ha Hd HN Hok Hu.
  - destruct fs; [|discriminate]. destruct ars; [|discriminate]. destruct ds; [|discriminate].
    exists (sm1 acc), (sm2 acc). cbn [segs_rt read_segs]. rewrite !app_nil_r, Hu.
    destruct acc; reflexivity.
  - destruct fs as [|f fs]; [discriminate|]. destruct ars as [|a ars]; [discriminate|].
    destruct ds as [|d ds]; [discriminate|].
    inversion HN as [|? ? Hn HN']; subst.
    assert (seg_ok f a d) as Hs by (apply (Hok 0%nat); reflexivity).
    cbn [segs_rt read_segs]. rewrite read_one_ok by assumption. cbn [bind].
    destruct (IH (k + 1) (i + 1) fs ars ds (bp_add acc (one_bp n f a d))) as (s1 & s2 & E).
    + lia.
    + cbn [length] in Hf; congruence.
    + cbn [length] in Ha; congruence.
    + cbn [length] in Hd; congruence.
    + exact HN'.
    + intros j f' a' d' H1 H2 H3. apply (Hok (S j)); assumption.
    + unfold bp_add. cbn [names]. apply uniquify_idem.
    + exists s1, s2. rewrite E. unfold bp_add, one_bp. cbn [names funs args durs sm1 sm2 am1 am2 sr].
      rewrite names_step, !app_nil_r, <- !app_assoc. reflexivity.
Qed.

Lemma marker_key_1a j : str_eqb (S_ "marker1_abs") (seg_key j) = false.
Proof. apply seg_key_head. discriminate. Qed.
Lemma marker_key_2a j : str_eqb (S_ "marker2_abs") (seg_key j) = false.
Proof. apply seg_key_head. discriminate. Qed.
Lemma marker_key_1r j : str_eqb (S_ "marker1_rel") (seg_key j) = false.
Proof. apply seg_key_head. discriminate. Qed.
Lemma marker_key_2r j : str_eqb (S_ "marker2_rel") (seg_key j) = false.
Proof. apply seg_key_head. discriminate. Qed.

Lemma bp_roundtrip : forall b,
  bp_json_ok b -> bp_from_descr (json_rt (bp_descr b)) = Ok (set_sr b VNone).
Proof.
  intros b ((Hf & Ha & Hd & H1 & H2 & Hu) & HN & Hok).
  rewrite bp_from_descr_read, json_rt_bp_descr. unfold read_bp.
  cbn [pd_items bind]. rewrite filter_app, filter_segs_rt, filter_markers_rt, app_nil_r.
  destruct (read_segs_rt (names b) 1 0 (funs b) (args b) (durs b) bp_empty) as (s1 & s2 & E);
    try assumption; try reflexivity; try lia.
  rewrite E. cbn [bind].
  rewrite pd_get_behind_segs by exact marker_key_1a.
  rewrite pd_get_behind_segs by exact marker_key_2a.
  rewrite pd_get_behind_segs by exact marker_key_1r.
  rewrite pd_get_behind_segs by exact marker_key_2r.
  change (pd_get "marker1_abs" (PDict (markers_rt b))) with (Ok (PList (map mspec_pl (am1 b)))).
  change (pd_get "marker2_abs" (PDict (markers_rt b))) with (Ok (PList (map mspec_pl (am2 b)))).
  change (pd_get "marker1_rel" (PDict (markers_rt b))) with (Ok (PList (map mspec_pl (sm1 b)))).
  change (pd_get "marker2_rel" (PDict (markers_rt b))) with (Ok (PList (map mspec_pl (sm2 b)))).
  cbn [bind list_of_pv]. rewrite !mapM_mspec_pl. cbn [bind].
  unfold set_sm2, set_sm1, set_am2, set_am1, set_sr, bp_empty.
  cbn [names funs args durs sm1 sm2 am1 am2 sr app]. rewrite <- Hu. reflexivity.
Qed.

(* ---------- consequences ---------- *)
Lemma list_eqb_refl {A} (eqb : A -> A -> bool) l : (forall x, eqb x x = true) -> list_eqb eqb l l = true.
Proof. intro H. induction l as [|x t IH]; [reflexivity|]. cbn [list_eqb]. now rewrite H, IH. Qed.

Lemma Qeq_bool_refl' q : Qeq_bool q q = true.
Proof. apply Qeq_bool_iff. reflexivity. Qed.

Lemma fn_eqb_refl f : fn_eqb f f = true.
Proof. destruct f; reflexivity. Qed.

Lemma val_eqb_refl v : val_eqb v v = true.
Proof. destruct v; cbn [val_eqb]; [apply Qeq_bool_refl' | apply str_eqb_refl | reflexivity]. Qed.

Lemma mspec_eqb_refl m : mspec_eqb m m = true.
Proof. unfold mspec_eqb. now rewrite !Qeq_bool_refl'. Qed.

Lemma bp_eqb_set_sr b v : bp_eqb b (set_sr b v) = true.
Proof.
  unfold bp_eqb, set_sr. cbn [names funs args durs sm1 sm2 am1 am2 sr].
  rewrite (list_eqb_refl str_eqb) by apply str_eqb_refl.
  rewrite (list_eqb_refl fn_eqb) by apply fn_eqb_refl.
  rewrite (list_eqb_refl (list_eqb val_eqb)) by (intro x; apply list_eqb_refl, val_eqb_refl).
  rewrite !(list_eqb_refl mspec_eqb) by apply mspec_eqb_refl.
  rewrite (list_eqb_refl val_eqb) by apply val_eqb_refl.
  reflexivity.
Qed.

Lemma roundtrip_observations : forall b b' s,
  bp_json_ok b -> bp_from_descr (json_rt (bp_descr b)) = Ok b' ->
  bp_eqb b b' = true /\ bp_descr b' = bp_descr b /\ forge_bp (set_sr b' s) = forge_bp (set_sr b s).
Proof.
  intros b b' s Hok E. rewrite (bp_roundtrip b Hok) in E. inversion E; subst b'.
  split; [apply bp_eqb_set_sr|]. split; reflexivity.
Qed.

Lemma roundtrip_example :
  let b := mkBp [S_ "pi2pulse"; S_ "wait"; S_ "pi2pulse2"] [Fsine; Fwait; Fgauss]
                [[VNum 1; VNum 2; VNum 0; VNum 0]; [VNum (3 # 10)]; [VNum 1; VNum (1 # 100); VNum 0; VNum 0]]
                [VNum (1 # 10); VNone; VNum (1 # 10)] [(0, 0); (0, 0); (1 # 100, 2 # 100)]%Q [(0, 0); (0, 0); (0, 0)]%Q
                [(0, 5 # 100)]%Q [] (VNum 100) in
  bp_json_ok b /\ bp_from_descr (json_rt (bp_descr b)) = Ok (set_sr b VNone).
Proof.
  intro b. split; [|vm_compute; reflexivity].
  split; [|split].
  - unfold Inv. repeat split; vm_compute; reflexivity.
  - repeat constructor; vm_compute; discriminate.
  - intros k f a d Hf Ha Hd.
    destruct k as [|[|[|k]]]; cbn in Hf, Ha, Hd; inversion Hf; inversion Ha; inversion Hd; subst.
    + split; [reflexivity|]. cbn. split; [reflexivity|]. eexists; reflexivity.
    + split; [reflexivity|]. cbn. split; [|reflexivity]. eexists; reflexivity.
    + split; [reflexivity|]. cbn. split; [reflexivity|]. eexists; reflexivity.
    + destruct k; discriminate.
Qed.
