(* Facts about the forging model (Model/Forge.v) behind Props/C01.v and Props/C03.v.
   Definitions used by the property statements come first; lemmas follow. *)
From Coq Require Import String Ascii List Arith ZArith QArith Qabs Qround Bool Lia Lqa.
From BB Require Import Base.Names Base.Num Base.PyList Model.Types Model.Blueprint Model.Forge.
Import ListNotations.

(* the abstract view of a blueprint that forging may depend on: everything but the names *)
Definition same_view (a b : bp) : Prop :=
  funs a = funs b /\ args a = args b /\ sm1 a = sm1 b /\ sm2 a = sm2 b /\ am1 a = am1 b /\ am2 a = am2 b.

(* resolved duration list paired with its sample counts *)
Definition counts_of (SR : Q) (rs : list val) (ns : list Z) : Prop :=
  Forall2 (fun d n => exists q, d = VNum q /\ n = rnd (q * SR)) rs ns.

Definition is_num (v : val) : Prop := exists q, v = VNum q.

(* ---- lemmas: to be proved (see Props/C01.v and Props/C03.v for the exact statements needed) ---- *)

Local Open Scope Q_scope.

(* ---------- the three stages of forging, one at a time ---------- *)

(* waituntil resolution yields one duration per segment of the shortest parallel list *)
Lemma resolve_waits_length : forall fs ars ds el rs,
  resolve_waits_aux fs ars ds el = Ok rs ->
  length rs = Nat.min (length fs) (Nat.min (length ars) (length ds)).
Proof.
  induction fs as [|f fs IH]; intros ars ds el rs H.
  - simpl in H. inversion H. reflexivity.
  - destruct ars as [|a ars]; [simpl in H; inversion H; reflexivity|].
    destruct ds as [|d ds]; [simpl in H; inversion H; simpl; lia|].
    cbn [resolve_waits_aux] in H.
    destruct (fn_eqb f Fwait) eqn:Ef.
    + destruct el as [el|]; [|discriminate].
      destruct a as [|[w|s|] a']; try discriminate.
      destruct (Qlt_le_dec (w - el) 0) as [L|L]; [discriminate|].
      unfold bind in H.
      destruct (resolve_waits_aux fs ars ds (Some w)) as [r|e] eqn:Er; [|discriminate].
      inversion H; subst. simpl. rewrite (IH _ _ _ _ Er). reflexivity.
    + unfold bind in H.
      destruct (resolve_waits_aux fs ars ds
                  match el with Some el0 => match d with VNum q => Some (el0 + q) | _ => None end | None => None end)
        as [r|e] eqn:Er; [|discriminate].
      inversion H; subst. simpl. rewrite (IH _ _ _ _ Er). reflexivity.
Qed.

Lemma int_durs_ok : forall SR rs ns,
  int_durs SR rs = Ok ns -> Forall is_num rs /\ Forall (fun n => 2 <= n)%Z ns /\ length ns = length rs.
Proof.
  intros SR rs. induction rs as [|d t IH]; intros ns H.
  - simpl in H. inversion H; subst. repeat split; constructor.
  - cbn [int_durs] in H. destruct d as [q|s|]; try discriminate.
    destruct (rnd (q * SR) <? 2)%Z eqn:E; [discriminate|].
    unfold bind in H. destruct (int_durs SR t) as [r|e] eqn:Er; [|discriminate].
    inversion H; subst. destruct (IH r eq_refl) as (A & B & C).
    repeat split.
    + constructor; [exists q; reflexivity | exact A].
    + constructor; [apply Z.ltb_ge in E; exact E | exact B].
    + simpl. rewrite C. reflexivity.
Qed.

Lemma int_durs_counts : forall SR rs ns, int_durs SR rs = Ok ns -> counts_of SR rs ns.
Proof.
  intros SR rs. induction rs as [|d t IH]; intros ns H.
  - simpl in H. inversion H; subst. constructor.
  - cbn [int_durs] in H. destruct d as [q|s|]; try discriminate.
    destruct (rnd (q * SR) <? 2)%Z eqn:E; [discriminate|].
    unfold bind in H. destruct (int_durs SR t) as [r|e] eqn:Er; [|discriminate].
    inversion H; subst. constructor; [exists q; split; reflexivity | apply IH; reflexivity].
Qed.

Lemma int_durs_short : forall SR rs,
  Forall is_num rs -> (exists q, In (VNum q) rs /\ (rnd (q * SR) < 2)%Z) -> int_durs SR rs = Err ESegDur.
Proof.
  intros SR rs. induction rs as [|d t IH]; intros Hnum (q & Hin & Hq).
  - contradiction.
  - inversion Hnum as [|d' t' [q0 Hd] Ht]; subst. cbn [int_durs].
    destruct (rnd (q0 * SR) <? 2)%Z eqn:E; [reflexivity|].
    apply Z.ltb_ge in E. destruct Hin as [Hin|Hin].
    + inversion Hin; subst. lia.
    + rewrite IH; [reflexivity | exact Ht | exists q; auto].
Qed.

(* mk_blocks stops at the shortest list; the counts are never longer than the blueprint lists *)
Lemma mk_blocks_spec : forall fs ars ns SR bl,
  mk_blocks fs ars ns SR = Ok bl ->
  (length ns <= length fs)%nat -> (length ns <= length ars)%nat ->
  map bn bl = ns /\ map bfn bl = firstn (length ns) fs /\ map bargs bl = firstn (length ns) ars /\
  Forall (fun k => bsr k = SR) bl.
Proof.
  induction fs as [|f fs IH]; intros ars ns SR bl H Lf La.
  - destruct ns; [|simpl in Lf; lia]. simpl in H. inversion H; subst. simpl. auto.
  - destruct ns as [|n ns].
    { destruct ars; simpl in H; inversion H; subst; simpl; auto. }
    destruct ars as [|a ars]; [simpl in La; lia|].
    cbn [mk_blocks] in H. destruct (Nat.eqb (length a) (fn_arity f)) eqn:E; [|discriminate].
    unfold bind in H. destruct (mk_blocks fs ars ns SR) as [r|e] eqn:Er; [|discriminate].
    inversion H; subst. simpl in Lf, La.
    destruct (IH ars ns SR r Er) as (A & B & C & D); [lia | lia |].
    simpl. rewrite A, B, C. repeat split; auto.
Qed.

(* inversion of a successful forge *)
Lemma forge_inv : forall b SR ds f,
  forge_bp_with b SR ds = Ok f ->
  exists rs ns bl,
    resolve_waits_aux (funs b) (args b) ds (Some 0) = Ok rs /\ int_durs SR rs = Ok ns /\
    mk_blocks (funs b) (args b) ns SR = Ok bl /\
    f = mkForged bl (sumZ ns)
          (paint (sumZ ns) (map (window (sumZ ns) SR) (am1 b ++ seg_specs SR (starts 0 ns) (sm1 b))))
          (paint (sumZ ns) (map (window (sumZ ns) SR) (am2 b ++ seg_specs SR (starts 0 ns) (sm2 b))))
          (map (fun n => inject_Z n / SR) ns).
Proof.
  intros b SR ds f H. unfold forge_bp_with in H.
  destruct (resolve_waits_aux (funs b) (args b) ds (Some 0)) as [rs|e] eqn:E1; cbn [bind] in H; [|discriminate].
  destruct (int_durs SR rs) as [ns|e] eqn:E2; cbn [bind] in H; [|discriminate].
  destruct (mk_blocks (funs b) (args b) ns SR) as [bl|e] eqn:E3; cbn [bind] in H; [|discriminate].
  inversion H; subst. exists rs, ns, bl. auto.
Qed.

Lemma forge_inv_len : forall b SR ds rs ns,
  resolve_waits_aux (funs b) (args b) ds (Some 0) = Ok rs -> int_durs SR rs = Ok ns ->
  (length ns <= length (funs b))%nat /\ (length ns <= length (args b))%nat /\
  length ns = Nat.min (length (funs b)) (Nat.min (length (args b)) (length ds)).
Proof.
  intros b SR ds rs ns H1 H2. apply resolve_waits_length in H1.
  destruct (int_durs_ok _ _ _ H2) as (_ & _ & L). lia.
Qed.

(* ---------- C01 ---------- *)

Lemma forge_counts : forall b SR ds f,
  forge_bp_with b SR ds = Ok f ->
  exists rs ns,
    resolve_waits_aux (funs b) (args b) ds (Some 0%Q) = Ok rs /\ int_durs SR rs = Ok ns /\
    counts_of SR rs ns /\ Forall (fun n => 2 <= n)%Z ns /\
    map bn (fblocks f) = ns /\ fN f = sumZ ns /\ fnewdurs f = map (fun n => (inject_Z n / SR)%Q) ns.
Proof.
  intros b SR ds f H. destruct (forge_inv _ _ _ _ H) as (rs & ns & bl & H1 & H2 & H3 & ->).
  exists rs, ns. cbn [fblocks fN fnewdurs].
  destruct (forge_inv_len _ _ _ _ _ H1 H2) as (Lf & La & _).
  destruct (mk_blocks_spec _ _ _ _ _ H3 Lf La) as (A & _).
  destruct (int_durs_ok _ _ _ H2) as (_ & B & _).
  repeat split; auto. apply int_durs_counts. exact H2.
Qed.

Lemma forge_blocks_in_order : forall b SR ds f,
  forge_bp_with b SR ds = Ok f ->
  length (args b) = length (funs b) -> length ds = length (funs b) ->
  map bfn (fblocks f) = funs b /\ map bargs (fblocks f) = args b /\
  Forall (fun k => bsr k = SR) (fblocks f) /\ length (fblocks f) = length (funs b).
Proof.
  intros b SR ds f H La Ld. destruct (forge_inv _ _ _ _ H) as (rs & ns & bl & H1 & H2 & H3 & ->).
  cbn [fblocks].
  destruct (forge_inv_len _ _ _ _ _ H1 H2) as (Lf & La' & Ln).
  destruct (mk_blocks_spec _ _ _ _ _ H3 Lf La') as (A & B & C & D).
  assert (length ns = length (funs b)) as Ln' by lia.
  rewrite B, C. rewrite Ln' at 1. rewrite firstn_all.
  replace (length ns) with (length (args b)) by lia. rewrite firstn_all.
  repeat split; auto. rewrite <- Ln', <- A. rewrite map_length. reflexivity.
Qed.

Lemma flat_map_length_blocks (V : Type) (I : block -> list V) :
  (forall k, length (I k) = Z.to_nat (bn k)) ->
  forall bl, Forall (fun n => 0 <= n)%Z (map bn bl) ->
  length (flat_map I bl) = Z.to_nat (sumZ (map bn bl)) /\ (0 <= sumZ (map bn bl))%Z.
Proof.
  intros HI. induction bl as [|k bl IH]; intro HF.
  - simpl. split; [reflexivity | lia].
  - simpl in HF. inversion HF as [|x l Hk Hl]; subst. destruct (IH Hl) as [A B].
    cbn [flat_map map sumZ fold_right]. fold (sumZ (map bn bl)).
    rewrite app_length, HI, A. split; [|lia]. rewrite Z2Nat.inj_add by lia. reflexivity.
Qed.

(* the Z-counted index list is the nat-counted one *)
Lemma zrange_spec : forall n s, zrange n s = map (fun k => (s + Z.of_nat k)%Z) (List.seq 0%nat n).
Proof.
  induction n as [|n IH]; intro s; [reflexivity|].
  cbn [zrange List.seq map]. rewrite IH. f_equal.
  - cbn [Z.of_nat]. rewrite Z.add_0_r. reflexivity.
  - rewrite <- seq_shift, map_map. apply map_ext. intro k.
    rewrite Nat2Z.inj_succ. unfold Z.succ. rewrite Z.add_assoc, <- (Z.add_assoc s 1), (Z.add_comm 1), Z.add_assoc. reflexivity.
Qed.

Lemma paint_unfold : forall N ws,
  paint N ws = map (fun k => existsb (in_window (Z.of_nat k)) ws) (List.seq 0%nat (Z.to_nat N)).
Proof.
  intros N ws. unfold paint. rewrite zrange_spec, map_map. apply map_ext. intro k.
  rewrite Z.add_0_l. reflexivity.
Qed.

Lemma paint_length : forall N ws, length (paint N ws) = Z.to_nat N.
Proof. intros N ws. rewrite paint_unfold. rewrite map_length, seq_length. reflexivity. Qed.

Lemma forge_lengths : forall (V : Type) (I : block -> list V) b SR ds f,
  (forall k, length (I k) = Z.to_nat (bn k)) ->
  forge_bp_with b SR ds = Ok f ->
  length (flat_map I (fblocks f)) = Z.to_nat (fN f) /\
  length (fm1 f) = Z.to_nat (fN f) /\ length (fm2 f) = Z.to_nat (fN f) /\
  length (fnewdurs f) = length (fblocks f).
Proof.
  intros V I b SR ds f HI H. destruct (forge_inv _ _ _ _ H) as (rs & ns & bl & H1 & H2 & H3 & ->).
  cbn [fblocks fN fm1 fm2 fnewdurs].
  destruct (forge_inv_len _ _ _ _ _ H1 H2) as (Lf & La & _).
  destruct (mk_blocks_spec _ _ _ _ _ H3 Lf La) as (A & _).
  destruct (int_durs_ok _ _ _ H2) as (_ & B & _).
  rewrite !paint_length. repeat split.
  - rewrite <- A. apply (flat_map_length_blocks V I HI). rewrite A.
    eapply Forall_impl; [|exact B]. intros z Hz. cbv beta in Hz. lia.
  - rewrite map_length. rewrite <- A at 1. rewrite map_length. reflexivity.
Qed.

Lemma forge_short : forall b SR ds rs,
  resolve_waits_aux (funs b) (args b) ds (Some 0%Q) = Ok rs ->
  Forall is_num rs ->
  (exists q, In (VNum q) rs /\ (rnd (q * SR) < 2)%Z) ->
  forge_bp_with b SR ds = Err ESegDur.
Proof.
  intros b SR ds rs H Hn Hq. unfold forge_bp_with. rewrite H. cbn [bind].
  rewrite (int_durs_short SR rs Hn Hq). reflexivity.
Qed.

Lemma forge_same_view : forall a b SR ds,
  same_view a b -> forge_bp_with a SR ds = forge_bp_with b SR ds.
Proof.
  intros a b SR ds (E1 & E2 & E3 & E4 & E5 & E6). unfold forge_bp_with.
  rewrite E1, E2, E3, E4, E5, E6. reflexivity.
Qed.

Lemma forge_example :
  let b := mkBp [] [Framp; Fwait; Fua] [[VNum 0; VNum 1]; [VNum (32 # 100)]; [VNum 1]]
                [VNum (29 # 1000); VNone; VNum (41 # 1000)] [(0,0); (0,0); (0,0)]%Q [(0,0); (0,0); (0,0)]%Q [] [] (VNum 100) in
  exists f, forge_bp_with b 100 (durs b) = Ok f /\ map bn (fblocks f) = [3; 29; 4]%Z /\ fN f = 36%Z.
Proof. intro b. eexists. split; [vm_compute; reflexivity|]. split; vm_compute; reflexivity. Qed.

(* ---------- C03: painting and windows ---------- *)

Lemma paint_spec : forall N ws k,
  (0 <= k < N)%Z ->
  (nth (Z.to_nat k) (paint N ws) false = true <-> exists w, In w ws /\ (fst w <= k < snd w)%Z).
Proof.
  intros N ws k Hk. rewrite paint_unfold.
  set (F := fun k0 : nat => existsb (in_window (Z.of_nat k0)) ws).
  assert (nth (Z.to_nat k) (map F (List.seq 0 (Z.to_nat N))) false = F (Z.to_nat k)) as ->.
  { rewrite (nth_indep _ false (F 0%nat)) by (rewrite map_length, seq_length; lia).
    rewrite map_nth. rewrite seq_nth by lia. reflexivity. }
  unfold F. rewrite Z2Nat.id by lia. rewrite existsb_exists.
  split; intros (w & Hin & Hw); exists w; split; auto.
  - unfold in_window in Hw. apply andb_true_iff in Hw as [A B].
    apply Z.leb_le in A. apply Z.ltb_lt in B. lia.
  - unfold in_window. apply andb_true_iff. split; [apply Z.leb_le | apply Z.ltb_lt]; lia.
Qed.

Lemma Qle_bool_false x y : Qle_bool x y = false -> y < x.
Proof.
  intro E. apply Qnot_le_lt. intro A. apply Qle_bool_iff in A. congruence.
Qed.

Lemma nearest_fast_nonneg N SR t : (0 <= nearest_fast N SR t)%Z.
Proof.
  unfold nearest_fast. destruct (Qle_bool (t * SR) 0); [lia|]. cbv zeta. lia.
Qed.

Lemma nearest_fast_round : forall (N : Z) SR t n,
  0 < SR -> (0 <= n < N)%Z -> Qabs (t * SR - inject_Z n) < 1#2 -> nearest_fast N SR t = n.
Proof.
  intros N SR t n HSR Hn Hnear. unfold nearest_fast. cbv zeta.
  remember (t * SR) as x eqn:Hx. clear Hx.
  apply Qabs_Qlt_condition in Hnear as [H1 H2].
  destruct (Qle_bool x 0) eqn:E0.
  - apply Qle_bool_iff in E0.
    destruct (Z.eq_dec n 0) as [->|Hne]; [reflexivity|]. exfalso.
    assert (0 <= n - 1)%Z as Hn1 by lia. rewrite Zle_Qle, inject_Z_minus1 in Hn1.
    change (inject_Z 0) with 0 in Hn1. lra.
  - apply Qle_bool_false in E0.
    destruct (floor_bounds x) as [F1 F2]. remember (Qfloor x) as k0 eqn:Hk0. clear Hk0.
    assert (k0 = n \/ k0 = (n - 1)%Z) as [-> | ->].
    { assert (inject_Z k0 < inject_Z (n + 1)) as A by (rewrite inject_Z_plus1; lra).
      assert (inject_Z (n - 1) < inject_Z (k0 + 1)) as B.
      { rewrite inject_Z_plus1, inject_Z_minus1. lra. }
      apply inject_Z_lt in A, B. lia. }
    + destruct (Qle_bool (x - inject_Z n) (1#2)) eqn:E1; [lia|].
      apply Qle_bool_false in E1. lra.
    + pose proof (inject_Z_minus1 n) as IZ.
      destruct (Qle_bool (x - inject_Z (n - 1)) (1#2)) eqn:E1; [|lia].
      apply Qle_bool_iff in E1. rewrite IZ in E1. lra.
Qed.

Lemma window_spec : forall (N : Z) SR t len n c,
  0 < SR -> (0 <= n < N)%Z -> Qabs (t * SR - inject_Z n) < 1#2 -> rnd (len * SR) = c -> (0 <= c)%Z ->
  window N SR (t, len) = (n, Z.min (n + c) N).
Proof.
  intros N SR t len n c HSR Hn Hnear Hc Hc0. unfold window. cbn [fst snd].
  rewrite (nearest_fast_round N SR t n HSR Hn Hnear), Hc.
  destruct (n + c <? 0)%Z eqn:E; [apply Z.ltb_lt in E; lia | reflexivity].
Qed.

Lemma zero_window : forall N SR m k, rnd (snd m * SR) = 0%Z -> in_window k (window N SR m) = false.
Proof.
  intros N SR m k H. unfold window, in_window. cbv zeta. rewrite H. cbn [fst snd].
  pose proof (nearest_fast_nonneg N SR (fst m)) as P.
  remember (nearest_fast N SR (fst m)) as ind eqn:Hi. clear Hi.
  rewrite Z.add_0_r. destruct (ind <? 0)%Z eqn:E; [apply Z.ltb_lt in E; lia|].
  apply andb_false_iff.
  destruct (ind <=? k)%Z eqn:E1; [right | left; reflexivity].
  apply Z.leb_le in E1. apply Z.ltb_ge. lia.
Qed.

Lemma forge_markers : forall b SR ds f,
  forge_bp_with b SR ds = Ok f ->
  let ns := map bn (fblocks f) in
  fm1 f = paint (fN f) (map (window (fN f) SR) (am1 b ++ seg_specs SR (starts 0 ns) (sm1 b))) /\
  fm2 f = paint (fN f) (map (window (fN f) SR) (am2 b ++ seg_specs SR (starts 0 ns) (sm2 b))).
Proof.
  intros b SR ds f H ns0. destruct (forge_inv _ _ _ _ H) as (rs & ns & bl & H1 & H2 & H3 & ->).
  subst ns0. cbn [fblocks fN fm1 fm2].
  destruct (forge_inv_len _ _ _ _ _ H1 H2) as (Lf & La & _).
  destruct (mk_blocks_spec _ _ _ _ _ H3 Lf La) as (A & _).
  rewrite A. split; reflexivity.
Qed.

Lemma starts_nth_acc : forall ns acc i, (i < length ns)%nat ->
  nth_error (starts acc ns) i = Some (acc + sumZ (firstn i ns))%Z.
Proof.
  induction ns as [|n ns IH]; intros acc i Hi; [simpl in Hi; lia|].
  destruct i as [|i].
  - simpl. f_equal. lia.
  - simpl in Hi. cbn [starts nth_error firstn]. rewrite IH by lia.
    f_equal. unfold sumZ. cbn [fold_right]. lia.
Qed.

Lemma starts_nth : forall ns i, (i < length ns)%nat ->
  nth_error (starts 0 ns) i = Some (sumZ (firstn i ns)).
Proof. intros ns i Hi. rewrite starts_nth_acc by exact Hi. reflexivity. Qed.

Lemma seg_specs_spec : forall SR sts sm t len,
  length sts = length sm ->
  (In (t, len) (seg_specs SR sts sm) <->
   exists i st dl, nth_error sts i = Some st /\ nth_error sm i = Some (dl, len) /\
                   Qeq_bool len 0 = false /\ t = (inject_Z st / SR + dl)%Q).
Proof.
  intros SR sts. induction sts as [|st sts IH]; intros sm t len L.
  - destruct sm; [|discriminate]. simpl. split; [contradiction|].
    intros (i & st & dl & A & _). destruct i; discriminate.
  - destruct sm as [|[dl ln] sm]; [discriminate|]. simpl in L. injection L as L.
    cbn [seg_specs]. destruct (Qeq_bool ln 0) eqn:E.
    + rewrite (IH sm t len L). split.
      * intros (i & st' & dl' & A & B & C & D). exists (S i), st', dl'. auto.
      * intros (i & st' & dl' & A & B & C & D). destruct i as [|i].
        -- simpl in A, B. inversion A; inversion B; subst. congruence.
        -- exists i, st', dl'. auto.
    + cbn [In]. rewrite (IH sm t len L). split.
      * intros [Heq | (i & st' & dl' & A & B & C & D)].
        -- inversion Heq; subst. exists 0%nat, st, dl. auto.
        -- exists (S i), st', dl'. auto.
      * intros (i & st' & dl' & A & B & C & D). destruct i as [|i].
        -- simpl in A, B. inversion A; inversion B; subst. left. reflexivity.
        -- right. exists i, st', dl'. auto.
Qed.

Lemma markers_noninterference : forall b SR ds x1 x2 y1 y2,
  let b' := mkBp (names b) (funs b) (args b) (durs b) x1 x2 y1 y2 (sr b) in
  match forge_bp_with b SR ds, forge_bp_with b' SR ds with
  | Ok f, Ok f' => fblocks f = fblocks f' /\ fN f = fN f' /\ fnewdurs f = fnewdurs f'
  | Err e, Err e' => e = e'
  | _, _ => False
  end.
Proof.
  intros b SR ds x1 x2 y1 y2 b'. subst b'. unfold forge_bp_with. cbn [funs args am1 am2 sm1 sm2].
  destruct (resolve_waits_aux (funs b) (args b) ds (Some 0)) as [rs|e]; cbn [bind]; [|reflexivity].
  destruct (int_durs SR rs) as [ns|e]; cbn [bind]; [|reflexivity].
  destruct (mk_blocks (funs b) (args b) ns SR) as [bl|e]; cbn [bind]; [|reflexivity].
  cbn [fblocks fN fnewdurs]. auto.
Qed.

Lemma marker_channels_independent : forall b SR ds x1 y1 f f',
  forge_bp_with b SR ds = Ok f ->
  forge_bp_with (mkBp (names b) (funs b) (args b) (durs b) x1 (sm2 b) y1 (am2 b) (sr b)) SR ds = Ok f' ->
  fm2 f = fm2 f'.
Proof.
  intros b SR ds x1 y1 f f' H H'.
  destruct (forge_inv _ _ _ _ H) as (rs & ns & bl & H1 & H2 & H3 & ->).
  destruct (forge_inv _ _ _ _ H') as (rs' & ns' & bl' & H1' & H2' & H3' & ->).
  cbn [funs args am1 am2 sm1 sm2] in *. cbn [fm2].
  rewrite H1 in H1'. inversion H1'; subst rs'. rewrite H2 in H2'. inversion H2'; subst ns'.
  reflexivity.
Qed.

(* ---------- C03: parallel lists move together ---------- *)

Lemma ins_clamp {A} p (x : A) l : ins p x l = ins (Nat.min p (length l)) x l.
Proof.
  destruct (Nat.le_gt_cases p (length l)) as [Hle|Hgt].
  - rewrite Nat.min_l by exact Hle. reflexivity.
  - rewrite Nat.min_r by lia. unfold ins.
    rewrite !firstn_all2 by lia. rewrite !skipn_all2 by lia. reflexivity.
Qed.

Lemma nth_error_ins_shift {A} p (x : A) l k :
  nth_error (ins p x l) (if Nat.ltb k (Nat.min p (length l)) then k else S k) = nth_error l k.
Proof.
  rewrite ins_clamp. remember (Nat.min p (length l)) as q eqn:Hq.
  assert (q <= length l)%nat as Hle by lia.
  destruct (Nat.ltb k q) eqn:E.
  - apply Nat.ltb_lt in E. apply nth_error_ins_lt; assumption.
  - apply Nat.ltb_ge in E. rewrite nth_error_ins_gt by lia. f_equal. lia.
Qed.

Lemma nth_error_del_shift {A} p (l : list A) k :
  (p < length l)%nat -> k <> p ->
  nth_error (del p l) (if Nat.ltb k p then k else Nat.pred k) = nth_error l k.
Proof.
  intros Hp Hk. destruct (Nat.ltb k p) eqn:E.
  - apply Nat.ltb_lt in E. apply nth_error_del_lt. exact E.
  - apply Nat.ltb_ge in E. rewrite nth_error_del_ge by lia. f_equal. lia.
Qed.

Lemma attached_insert : forall b pos f a d nm b' p,
  length (funs b) = length (names b) -> length (args b) = length (names b) -> length (durs b) = length (names b) ->
  length (sm1 b) = length (names b) -> length (sm2 b) = length (names b) ->
  bp_insert b pos f a d nm = (b', None) ->
  p = (if (pos =? -1)%Z then length (names b) else Nat.min (Z.to_nat pos) (length (names b))) ->
  forall k, let k' := if Nat.ltb k p then k else S k in
    nth_error (funs b') k' = nth_error (funs b) k /\ nth_error (args b') k' = nth_error (args b) k /\
    nth_error (durs b') k' = nth_error (durs b) k /\ nth_error (sm1 b') k' = nth_error (sm1 b) k /\
    nth_error (sm2 b') k' = nth_error (sm2 b) k.
Proof.
  intros b pos f a d nm b' p L1 L2 L3 L4 L5 H Hp k k'.
  unfold bp_insert in H. destruct (pos <? -1)%Z eqn:E1; [unfold fail in H; discriminate|].
  cbv zeta in H.
  match type of H with (if ?c then _ else _) = _ => destruct c eqn:E2 end; [unfold fail in H; discriminate|].
  unfold ok in H. inversion H; subst b'. clear H. cbn [funs args durs sm1 sm2].
  remember (if (pos =? -1)%Z then length (names b) else Z.to_nat pos) as p0 eqn:Hp0.
  assert (forall (A : Type) (x : A) (l : list A), length l = length (names b) ->
            nth_error (ins p0 x l) k' = nth_error l k) as G.
  { intros A x l Hl. subst k'.
    assert (p = Nat.min p0 (length l)) as -> .
    { rewrite Hl, Hp, Hp0. destruct (pos =? -1)%Z; [lia | reflexivity]. }
    apply nth_error_ins_shift. }
  repeat split; apply G; assumption.
Qed.

Lemma attached_remove : forall b n b' p,
  length (funs b) = length (names b) -> length (args b) = length (names b) -> length (durs b) = length (names b) ->
  length (sm1 b) = length (names b) -> length (sm2 b) = length (names b) ->
  bp_remove b n = (b', None) -> name_idx n b = Some p ->
  forall k, k <> p -> let k' := if Nat.ltb k p then k else Nat.pred k in
    nth_error (funs b') k' = nth_error (funs b) k /\ nth_error (args b') k' = nth_error (args b) k /\
    nth_error (durs b') k' = nth_error (durs b) k /\ nth_error (sm1 b') k' = nth_error (sm1 b) k /\
    nth_error (sm2 b') k' = nth_error (sm2 b) k.
Proof.
  intros b n b' p L1 L2 L3 L4 L5 H Hi k Hk k'.
  unfold bp_remove in H. rewrite Hi in H. unfold ok in H. inversion H; subst b'. clear H.
  cbn [funs args durs sm1 sm2].
  unfold name_idx in Hi. apply index_of_Some in Hi as [Hlt _].
  subst k'. repeat split; apply nth_error_del_shift; try exact Hk; lia.
Qed.

Lemma markers_example :
  let b := mkBp [] [Framp; Framp] [[VNum 0; VNum 1]; [VNum 0; VNum 1]] [VNum (1 # 10); VNum (1 # 10)]
                [(0, 0); ((-2) # 100, 5 # 100)]%Q [(0, 0); (0, 0)]%Q [(3 # 100, 4 # 100); (5 # 100, 1)]%Q [] (VNum 100) in
  exists f, forge_bp_with b 100 (durs b) = Ok f /\
    fm1 f = repeat false 3 ++ repeat true 17 /\ fm2 f = repeat false 20.
Proof. intro b. eexists. split; [vm_compute; reflexivity|]. split; vm_compute; reflexivity. Qed.

(* ---------- C03: the closed form of the nearest-sample index is numpy's argmin ---------- *)

(* first index of the minimum: strictly better than everything to its left, no worse than anything to its right *)
Lemma argmin_aux_first (g : nat -> Q) n : forall len bi i,
  (forall k, (k < n)%nat -> g n < g k) ->
  (forall k, (n < k < i + len)%nat -> g n <= g k) ->
  (bi < i)%nat ->
  ((bi = n) \/ (i <= n < i + len)%nat) ->
  argmin_aux bi (g bi) i (map g (List.seq i len)) = n.
Proof.
  induction len as [|len IH]; intros bi i Hlt Hle Hbi Hn; simpl.
  - destruct Hn as [-> | Hn]; [reflexivity | lia].
  - destruct (Qlt_le_dec (g i) (g bi)) as [Hl | Hl].
    + apply IH; auto.
      * intros k Hk. apply Hle. lia.
      * destruct Hn as [-> | Hn].
        -- exfalso. assert (g n <= g i) by (apply Hle; lia). lra.
        -- destruct (Nat.eq_dec i n); [left; assumption | right; lia].
    + apply IH; auto.
      * intros k Hk. apply Hle. lia.
      * destruct Hn as [-> | Hn]; [left; reflexivity|].
        destruct (Nat.eq_dec i n) as [-> | Hne]; [| right; lia].
        exfalso. assert (g n < g bi) by (apply Hlt; lia). lra.
Qed.

Lemma argmin_first (g : nat -> Q) N n :
  (n < N)%nat ->
  (forall k, (k < n)%nat -> g n < g k) ->
  (forall k, (n < k < N)%nat -> g n <= g k) ->
  argmin (map g (List.seq 0 N)) = n.
Proof.
  intros Hn Hlt Hle. destruct N as [|N]; [lia|]. simpl.
  apply (argmin_aux_first g n N 0%nat 1%nat Hlt); [intros k Hk; apply Hle; lia | lia |].
  destruct n; [left; reflexivity | right; lia].
Qed.

Lemma dist_scale SR t a : 0 < SR -> Qabs (a / SR - t) == Qabs (a - t * SR) / SR.
Proof.
  intro H. rewrite <- Qabs_scale by exact H.
  assert (a / SR - t == (a - t * SR) / SR) as R by (field; lra).
  rewrite R. reflexivity.
Qed.

Lemma dist_lt SR t a b :
  0 < SR -> Qabs (a - t * SR) < Qabs (b - t * SR) -> Qabs (a / SR - t) < Qabs (b / SR - t).
Proof.
  intros H L. rewrite !dist_scale by exact H.
  apply Qmult_lt_compat_r; [apply Qinv_lt_0_compat; exact H | exact L].
Qed.

Lemma dist_le SR t a b :
  0 < SR -> Qabs (a - t * SR) <= Qabs (b - t * SR) -> Qabs (a / SR - t) <= Qabs (b / SR - t).
Proof.
  intros H L. rewrite !dist_scale by exact H.
  apply Qmult_le_compat_r; [exact L | apply Qlt_le_weak, Qinv_lt_0_compat; exact H].
Qed.

Lemma Qabs_cases a : (0 <= a /\ Qabs a == a) \/ (a <= 0 /\ Qabs a == - a).
Proof.
  destruct (Qlt_le_dec a 0) as [L|L].
  - right. split; [lra | apply Qabs_neg; lra].
  - left. split; [lra | apply Qabs_pos; lra].
Qed.

Ltac qabs_lra :=
  match goal with
  | |- _ (Qabs ?A) (Qabs ?B) =>
      destruct (Qabs_cases A) as [[? ?]|[? ?]], (Qabs_cases B) as [[? ?]|[? ?]]; lra
  end.

Lemma Zle_Q1 a b : (a + 1 <= b)%Z -> inject_Z a + 1 <= inject_Z b.
Proof. intro H. rewrite Zle_Qle, inject_Z_plus1 in H. exact H. Qed.

Lemma nearest_fast_argmin : forall (N : nat) SR t,
  0 < SR -> (0 < N)%nat -> nearest_fast (Z.of_nat N) SR t = Z.of_nat (nearest N SR t).
Proof.
  intros N SR t HSR HN.
  assert (exists n, (n < N)%nat /\ nearest_fast (Z.of_nat N) SR t = Z.of_nat n /\
     (forall k, (k < n)%nat ->
        Qabs (inject_Z (Z.of_nat n) - t * SR) < Qabs (inject_Z (Z.of_nat k) - t * SR)) /\
     (forall k, (n < k < N)%nat ->
        Qabs (inject_Z (Z.of_nat n) - t * SR) <= Qabs (inject_Z (Z.of_nat k) - t * SR)))
    as (n & Hn & -> & Hlt & Hle).
  2: { f_equal. symmetry. unfold nearest. apply argmin_first; [exact Hn | |]; intros k Hk; cbv beta.
       - apply dist_lt; auto.
       - apply dist_le; auto. }
  unfold nearest_fast. cbv zeta. remember (t * SR) as x eqn:Hx. clear Hx.
  destruct (Qle_bool x 0) eqn:E0.
  - apply Qle_bool_iff in E0. exists 0%nat. split; [lia|]. split; [reflexivity|].
    split; [intros; lia|]. intros k Hk. change (inject_Z (Z.of_nat 0)) with 0.
    assert (0 <= inject_Z (Z.of_nat k)) as P by (change 0 with (inject_Z 0); rewrite <- Zle_Qle; lia).
    qabs_lra.
  - apply Qle_bool_false in E0. destruct (floor_bounds x) as [F1 F2].
    remember (Qfloor x) as k0 eqn:Hk0. clear Hk0.
    assert (0 <= k0)%Z as K0.
    { assert (inject_Z 0 < inject_Z (k0 + 1)) as A
        by (rewrite inject_Z_plus1; change (inject_Z 0) with 0; lra).
      apply inject_Z_lt in A. lia. }
    remember (Z.of_nat N - 1)%Z as M eqn:HM.
    destruct (Qle_bool (x - inject_Z k0) (1#2)) eqn:E1.
    + apply Qle_bool_iff in E1. destruct (Z_le_gt_dec k0 M) as [L|L].
      * exists (Z.to_nat k0). rewrite Z2Nat.id by lia. split; [lia|]. split; [lia|].
        split; intros k Hk.
        -- assert (Z.of_nat k + 1 <= k0)%Z as P by lia. apply Zle_Q1 in P. qabs_lra.
        -- assert (k0 + 1 <= Z.of_nat k)%Z as P by lia. apply Zle_Q1 in P. qabs_lra.
      * exists (Z.to_nat M). rewrite Z2Nat.id by lia. split; [lia|]. split; [lia|].
        split; intros k Hk; [|lia].
        assert (Z.of_nat k + 1 <= M)%Z as P by lia. assert (M + 1 <= k0)%Z as P' by lia.
        apply Zle_Q1 in P, P'. qabs_lra.
    + apply Qle_bool_false in E1. pose proof (inject_Z_plus1 k0) as IZ.
      destruct (Z_le_gt_dec (k0 + 1) M) as [L|L].
      * exists (Z.to_nat (k0 + 1)). rewrite Z2Nat.id by lia. split; [lia|]. split; [lia|].
        split; intros k Hk.
        -- assert (Z.of_nat k + 1 <= k0 + 1)%Z as P by lia. apply Zle_Q1 in P. qabs_lra.
        -- assert ((k0 + 1) + 1 <= Z.of_nat k)%Z as P by lia. apply Zle_Q1 in P. qabs_lra.
      * exists (Z.to_nat M). rewrite Z2Nat.id by lia. split; [lia|]. split; [lia|].
        split; intros k Hk; [|lia].
        assert (Z.of_nat k + 1 <= M)%Z as P by lia. assert (M <= k0)%Z as P' by lia.
        rewrite Zle_Qle in P'. apply Zle_Q1 in P. qabs_lra.
Qed.
