(* Facts about waituntil resolution (Model/Blueprint.v resolve_waits_aux, Model/Forge.v) behind Props/C04.v.
   Definitions used by the property statements come first; lemmas follow. *)
From Coq Require Import String Ascii List Arith ZArith QArith Qabs Qround Bool Lia Lqa.
From BB Require Import Base.Names Base.Num Base.PyList Model.Types Model.Blueprint Model.Forge.
Import ListNotations.
Open Scope Q_scope.

(* sum of the numeric entries of a duration list *)
Fixpoint sumQ (l : list val) : Q :=
  match l with
  | [] => 0
  | VNum q :: t => q + sumQ t
  | _ :: t => sumQ t
  end.

(* a duration that is a whole number of samples at rate SR *)
Definition whole_samples (SR : Q) (v : val) : Prop := exists q m, v = VNum q /\ q * SR == inject_Z m.

(* ---- lemmas: to be proved (see Props/C04.v for the exact statements needed) ---- *)

(* ---------- small helpers ---------- *)
Lemma fn_eqb_wait_true f : fn_eqb f Fwait = true -> f = Fwait.
Proof. destruct f; simpl; congruence. Qed.

Lemma fn_eqb_wait_refl : fn_eqb Fwait Fwait = true.
Proof. reflexivity. Qed.

Lemma sumZ_cons x l : sumZ (x :: l) = (x + sumZ l)%Z.
Proof. reflexivity. Qed.

Lemma bind_ok_inv {A B} (r : result A) (k : A -> result B) b :
  bind r k = Ok b -> exists a, r = Ok a /\ k a = Ok b.
Proof. destruct r as [a|e]; simpl; intro H; [exists a; auto | discriminate]. Qed.

(* once the elapsed time is unknown, a later waituntil makes resolution fail *)
Lemma resolve_none_no_wait : forall fs ars ds rs p,
  length ars = length fs -> length ds = length fs ->
  resolve_waits_aux fs ars ds None = Ok rs -> nth_error fs p = Some Fwait -> False.
Proof.
  induction fs as [|f fs IH]; intros ars ds rs p La Ld H Hp.
  - destruct p; discriminate.
  - destruct ars as [|a ars]; [discriminate|]. destruct ds as [|d ds]; [discriminate|].
    cbn [resolve_waits_aux] in H.
    destruct (fn_eqb f Fwait) eqn:Ef; [discriminate|].
    destruct p as [|p].
    + cbn in Hp. injection Hp as ->. discriminate.
    + cbn in Hp. apply bind_ok_inv in H as (r & Hr & _).
      cbn in La, Ld. eapply (IH ars ds r p); eauto.
Qed.

(* one step of the resolution, from a known elapsed time *)
Lemma resolve_cons_inv f fs a ars d ds el rs :
  resolve_waits_aux (f :: fs) (a :: ars) (d :: ds) (Some el) = Ok rs ->
  (f = Fwait /\ exists w rest r, a = VNum w :: rest /\ 0 <= w - el /\
      resolve_waits_aux fs ars ds (Some w) = Ok r /\ rs = VNum (w - el) :: r)
  \/ (fn_eqb f Fwait = false /\ exists r,
      resolve_waits_aux fs ars ds (match d with VNum q => Some (el + q) | _ => None end) = Ok r /\
      rs = d :: r).
Proof.
  intro H. cbn [resolve_waits_aux] in H.
  destruct (fn_eqb f Fwait) eqn:Ef.
  - left. split; [apply fn_eqb_wait_true; exact Ef|].
    destruct a as [|v rest]; [discriminate|]. destruct v as [w| |]; try discriminate.
    destruct (Qlt_le_dec (w - el) 0) as [L|L]; [discriminate|].
    apply bind_ok_inv in H as (r & Hr & Hk). injection Hk as <-.
    exists w, rest, r. auto.
  - right. split; [reflexivity|].
    apply bind_ok_inv in H as (r & Hr & Hk). injection Hk as <-.
    exists r. split; [|reflexivity]. destruct d; exact Hr.
Qed.

Lemma int_durs_cons_inv SR q r ns :
  int_durs SR (VNum q :: r) = Ok ns -> exists ns', int_durs SR r = Ok ns' /\ ns = rnd (q * SR) :: ns'.
Proof.
  cbn [int_durs]. intro H. destruct (rnd (q * SR) <? 2)%Z; [discriminate|].
  apply bind_ok_inv in H as (ns' & Hr & Hk). injection Hk as <-. exists ns'. auto.
Qed.

Lemma rnd_whole q SR m : q * SR == inject_Z m -> rnd (q * SR) = m.
Proof. intro H. apply rnd_near. apply Qabs_Qlt_condition. split; lra. Qed.

(* ---------- C04: a wait ends at its target ---------- *)
Lemma wait_ends_at_target : forall fs ars ds el rs p w rest,
  length ars = length fs -> length ds = length fs ->
  resolve_waits_aux fs ars ds (Some el) = Ok rs ->
  nth_error fs p = Some Fwait -> nth_error ars p = Some (VNum w :: rest) ->
  el + sumQ (firstn (S p) rs) == w.
Proof.
  induction fs as [|f fs IH]; intros ars ds el rs p w rest La Ld H Hf Ha.
  - destruct p; discriminate.
  - destruct ars as [|a ars]; [discriminate|]. destruct ds as [|d ds]; [discriminate|].
    cbn in La, Ld.
    apply resolve_cons_inv in H as [(-> & w0 & rest0 & r & -> & Hnn & Hr & ->) | (Ef & r & Hr & ->)].
    + rewrite firstn_cons. cbn [sumQ]. destruct p as [|p].
      * cbn in Ha. injection Ha as -> _. cbn [firstn sumQ]. lra.
      * cbn in Hf, Ha.
        assert (w0 + sumQ (firstn (S p) r) == w) as E by (eapply IH; eauto). lra.
    + destruct p as [|p].
      * cbn in Hf. injection Hf as ->. discriminate.
      * cbn in Hf, Ha. rewrite firstn_cons. destruct d as [q| |].
        -- cbn [sumQ].
           assert (el + q + sumQ (firstn (S p) r) == w) as E by (eapply IH; eauto). lra.
        -- exfalso. eapply (resolve_none_no_wait fs ars ds r p); eauto.
        -- exfalso. eapply (resolve_none_no_wait fs ars ds r p); eauto.
Qed.

(* ---------- C04: frame ---------- *)
Lemma resolution_frame_gen : forall fs ars ds oel rs,
  length ars = length fs -> length ds = length fs ->
  resolve_waits_aux fs ars ds oel = Ok rs ->
  length rs = length fs /\
  forall j f, nth_error fs j = Some f -> fn_eqb f Fwait = false -> nth_error rs j = nth_error ds j.
Proof.
  induction fs as [|f fs IH]; intros ars ds oel rs La Ld H.
  - destruct ars; [|discriminate]. destruct ds; [|discriminate]. cbn in H. injection H as <-.
    split; [reflexivity|]. intros j f Hj. destruct j; discriminate.
  - destruct ars as [|a ars]; [discriminate|]. destruct ds as [|d ds]; [discriminate|].
    cbn in La, Ld. cbn [resolve_waits_aux] in H.
    destruct (fn_eqb f Fwait) eqn:Ef.
    + destruct oel as [el|]; [|discriminate].
      destruct a as [|v rest]; [discriminate|]. destruct v as [w| |]; try discriminate.
      destruct (Qlt_le_dec (w - el) 0) as [L|L]; [discriminate|].
      apply bind_ok_inv in H as (r & Hr & Hk). injection Hk as <-.
      destruct (IH ars ds (Some w) r) as [Hl Hfr]; [lia | lia | exact Hr |].
      split; [cbn; lia|].
      intros j g Hj Hg. destruct j as [|j].
      * cbn in Hj. injection Hj as <-. congruence.
      * cbn in Hj |- *. eapply Hfr; eauto.
    + apply bind_ok_inv in H as (r & Hr & Hk). injection Hk as <-.
      destruct (IH ars ds _ r (eq_add_S _ _ La) (eq_add_S _ _ Ld) Hr) as [Hl Hfr].
      split; [cbn; lia|].
      intros j g Hj Hg. destruct j as [|j].
      * reflexivity.
      * cbn in Hj |- *. eapply Hfr; eauto.
Qed.

Lemma resolution_frame : forall fs ars ds el rs,
  length ars = length fs -> length ds = length fs ->
  resolve_waits_aux fs ars ds (Some el) = Ok rs ->
  length rs = length fs /\
  forall j f, nth_error fs j = Some f -> fn_eqb f Fwait = false -> nth_error rs j = nth_error ds j.
Proof. intros fs ars ds el rs. apply resolution_frame_gen. Qed.

(* ---------- C04: alignment ---------- *)
Lemma wait_alignment_gen : forall SR fs ars ds el M rs ns p w rest k,
  length ars = length fs -> length ds = length fs ->
  resolve_waits_aux fs ars ds (Some el) = Ok rs -> int_durs SR rs = Ok ns ->
  el * SR == inject_Z M ->
  nth_error fs p = Some Fwait -> nth_error ars p = Some (VNum w :: rest) ->
  (forall j v, (j < p)%nat -> nth_error rs j = Some v -> whole_samples SR v) ->
  Qabs (w * SR - inject_Z k) < 1 # 2 ->
  sumZ (firstn (S p) ns) = (k - M)%Z.
Proof.
  intros SR. induction fs as [|f fs IH]; intros ars ds el M rs ns p w rest k La Ld H Hi HM Hf Ha Hwh Hk.
  - destruct p; discriminate.
  - destruct ars as [|a ars]; [discriminate|]. destruct ds as [|d ds]; [discriminate|].
    cbn in La, Ld.
    apply resolve_cons_inv in H as [(-> & w0 & rest0 & r & -> & Hnn & Hr & ->) | (Ef & r & Hr & ->)].
    + apply int_durs_cons_inv in Hi as (ns' & Hi' & ->).
      rewrite firstn_cons, sumZ_cons. destruct p as [|p].
      * cbn in Ha. injection Ha as -> _. cbn [firstn]. change (sumZ []) with 0%Z.
        rewrite Z.add_0_r. apply rnd_near.
        apply Qabs_Qlt_condition in Hk as [K1 K2]. apply Qabs_Qlt_condition.
        unfold Z.sub. rewrite inject_Z_plus, inject_Z_opp. split; lra.
      * cbn in Hf, Ha.
        destruct (Hwh 0%nat (VNum (w0 - el))) as (q & m & Eq & Hq); [lia | reflexivity |].
        injection Eq as <-.
        rewrite (rnd_whole _ _ _ Hq).
        assert (sumZ (firstn (S p) ns') = (k - (M + m))%Z) as E.
        { eapply (IH ars ds w0 (M + m)%Z r ns' p w rest k); eauto; try lia.
          - rewrite inject_Z_plus. lra.
          - intros j v Hj Hv. apply (Hwh (S j) v); [lia | exact Hv]. }
        lia.
    + destruct p as [|p].
      * cbn in Hf. injection Hf as ->. discriminate.
      * cbn in Hf, Ha.
        destruct (Hwh 0%nat d) as (q & m & -> & Hq); [lia | reflexivity |].
        apply int_durs_cons_inv in Hi as (ns' & Hi' & ->).
        rewrite firstn_cons, sumZ_cons, (rnd_whole _ _ _ Hq).
        assert (sumZ (firstn (S p) ns') = (k - (M + m))%Z) as E.
        { eapply (IH ars ds (el + q) (M + m)%Z r ns' p w rest k); eauto; try lia.
          - rewrite inject_Z_plus. lra.
          - intros j v Hj Hv. apply (Hwh (S j) v); [lia | exact Hv]. }
        lia.
Qed.

Lemma wait_alignment : forall SR fs ars ds rs ns p w rest k,
  0 < SR -> length ars = length fs -> length ds = length fs ->
  resolve_waits_aux fs ars ds (Some 0) = Ok rs -> int_durs SR rs = Ok ns ->
  nth_error fs p = Some Fwait -> nth_error ars p = Some (VNum w :: rest) ->
  (forall j v, (j < p)%nat -> nth_error rs j = Some v -> whole_samples SR v) ->
  Qabs (w * SR - inject_Z k) < 1 # 2 ->
  sumZ (firstn (S p) ns) = k.
Proof.
  intros SR fs ars ds rs ns p w rest k _ La Ld H Hi Hf Ha Hwh Hk.
  rewrite (wait_alignment_gen SR fs ars ds 0 0%Z rs ns p w rest k); auto; [lia|].
  change (inject_Z 0) with 0. lra.
Qed.

Lemma wait_stable : forall SR fs ars ds ds' rs rs' ns ns' p w rest k,
  0 < SR -> length ars = length fs -> length ds = length fs -> length ds' = length fs ->
  resolve_waits_aux fs ars ds (Some 0) = Ok rs -> int_durs SR rs = Ok ns ->
  resolve_waits_aux fs ars ds' (Some 0) = Ok rs' -> int_durs SR rs' = Ok ns' ->
  nth_error fs p = Some Fwait -> nth_error ars p = Some (VNum w :: rest) ->
  (forall j v, (j < p)%nat -> nth_error rs j = Some v -> whole_samples SR v) ->
  (forall j v, (j < p)%nat -> nth_error rs' j = Some v -> whole_samples SR v) ->
  Qabs (w * SR - inject_Z k) < 1 # 2 ->
  sumZ (firstn (S p) ns) = sumZ (firstn (S p) ns').
Proof.
  intros SR fs ars ds ds' rs rs' ns ns' p w rest k HSR La Ld Ld' H Hi H' Hi' Hf Ha Hwh Hwh' Hk.
  rewrite (wait_alignment SR fs ars ds rs ns p w rest k); auto.
  rewrite (wait_alignment SR fs ars ds' rs' ns' p w rest k); auto.
Qed.

(* ---------- C04: overrun ---------- *)
Lemma overrun_detected : forall fs ars ds el p w rest,
  length ars = length fs -> length ds = length fs ->
  nth_error fs p = Some Fwait -> nth_error ars p = Some (VNum w :: rest) ->
  (forall j, (j < p)%nat -> nth_error fs j <> Some Fwait) ->
  (forall j, (j < p)%nat -> exists q, nth_error ds j = Some (VNum q)) ->
  w < el + sumQ (firstn p ds) ->
  resolve_waits_aux fs ars ds (Some el) = Err EValue.
Proof.
  induction fs as [|f fs IH]; intros ars ds el p w rest La Ld Hf Ha Hnw Hnum Hlt.
  - destruct p; discriminate.
  - destruct ars as [|a ars]; [discriminate|]. destruct ds as [|d ds]; [discriminate|].
    cbn in La, Ld. cbn [resolve_waits_aux]. destruct p as [|p].
    + cbn in Hf, Ha. injection Hf as ->. injection Ha as ->.
      rewrite fn_eqb_wait_refl. cbn [firstn sumQ] in Hlt.
      destruct (Qlt_le_dec (w - el) 0) as [L|L]; [reflexivity | lra].
    + cbn in Hf, Ha.
      destruct (fn_eqb f Fwait) eqn:Ef.
      { exfalso. apply (Hnw 0%nat); [lia|]. cbn. f_equal. apply fn_eqb_wait_true. exact Ef. }
      destruct (Hnum 0%nat) as (q & Hq); [lia|]. cbn in Hq. injection Hq as ->.
      rewrite firstn_cons in Hlt. cbn [sumQ] in Hlt.
      rewrite (IH ars ds (el + q) p w rest); auto; try lia.
      * intros j Hj. apply (Hnw (S j)). lia.
      * intros j Hj. apply (Hnum (S j)). lia.
      * lra.
Qed.

Lemma overrun_everywhere : forall b SR e,
  resolve_waits b = Err e ->
  forge_bp_with b SR (durs b) = Err e /\
  (has_wait b = true -> bp_duration b = Err e /\ forall s, sr b = VNum s -> bp_points b = Err e).
Proof.
  intros b SR e H. split.
  - unfold forge_bp_with. unfold resolve_waits in H. rewrite H. reflexivity.
  - intro Hw. assert (bp_duration b = Err e) as D.
    { unfold bp_duration. rewrite Hw, H. reflexivity. }
    split; [exact D|]. intros s Hs. unfold bp_points. rewrite Hs, D. reflexivity.
Qed.

Lemma duration_includes_fill : forall b rs,
  has_wait b = true -> resolve_waits b = Ok rs -> bp_duration b = sum_vals rs.
Proof. intros b rs Hw H. unfold bp_duration. rewrite Hw, H. reflexivity. Qed.

(* ---------- C04: points = forged length ---------- *)
Lemma points_gen SR : forall rs ns d,
  int_durs SR rs = Ok ns -> sum_vals rs = Ok d -> Forall (whole_samples SR) rs ->
  d * SR == inject_Z (sumZ ns).
Proof.
  induction rs as [|v rs IH]; intros ns d Hi Hs Hwh.
  - cbn in Hi, Hs. injection Hi as <-. injection Hs as <-. change (inject_Z (sumZ [])) with 0. lra.
  - inversion Hwh as [|v' rs' Hv Hrs]; subst.
    destruct Hv as (q & m & -> & Hq).
    apply int_durs_cons_inv in Hi as (ns' & Hi' & ->).
    cbn [sum_vals] in Hs. apply bind_ok_inv in Hs as (s & Hs' & Hk). injection Hk as <-.
    rewrite sumZ_cons, inject_Z_plus, (rnd_whole _ _ _ Hq).
    pose proof (IH ns' s Hi' Hs' Hrs) as E. lra.
Qed.

Lemma points_equal_length : forall SR rs ns d,
  0 < SR -> int_durs SR rs = Ok ns -> sum_vals rs = Ok d -> Forall (whole_samples SR) rs ->
  rnd (d * SR) = sumZ ns.
Proof.
  intros SR rs ns d _ Hi Hs Hwh. apply rnd_whole. eapply points_gen; eauto.
Qed.

(* ---------- C04: example ---------- *)
Lemma waits_example :
  let fs := [Fua; Fwait; Fua; Fua; Fwait; Fua] in
  let ars := [[VNum 1]; [VNum (20 # 100)]; [VNum 2]; [VNum 3]; [VNum (1 # 2)]; [VNum 4]] in
  let ds := [VNum (5 # 100); VNone; VNum (3 # 100); VNum (7 # 100); VNone; VNum (2 # 100)] in
  exists rs ns, resolve_waits_aux fs ars ds (Some 0) = Ok rs /\ int_durs 100 rs = Ok ns /\
                ns = [5; 15; 3; 7; 20; 2]%Z /\ sumZ (firstn 5 ns) = 50%Z.
Proof.
  intros fs ars ds. eexists. eexists. split; [vm_compute; reflexivity|].
  split; [vm_compute; reflexivity|]. split; reflexivity.
Qed.
