(* Canonical one-line printers: model value -> Python-literal text (evaluated by harness/lang.py). *)
From Coq Require Import String Ascii List ZArith QArith Bool DecimalString.
From BB Require Import Base.Names Base.Num Model.Types Model.Blueprint Model.Forge Model.PyVal.
Import ListNotations.
Open Scope string_scope.

Definition sh := string -> string.
Definition lit (x : string) : sh := fun k => x ++ k.
Definition cat (a b : sh) : sh := fun k => a (b k).
Infix "+++" := cat (at level 60, right associativity).

Definition sh_Z (z : Z) : sh := lit (NilZero.string_of_int (Z.to_int z)).
Definition sh_Q (q : Q) : sh :=
  let r := Qred q in
  if Pos.eqb (Qden r) 1 then lit "Q(" +++ sh_Z (Qnum r) +++ lit ",1)"
  else lit "Q(" +++ sh_Z (Qnum r) +++ lit "," +++ sh_Z (Zpos (Qden r)) +++ lit ")".
Definition sh_str (x : str) : sh := lit "'" +++ lit (string_of_list_ascii x) +++ lit "'".

Fixpoint sh_list {A} (f : A -> sh) (l : list A) : sh :=
  match l with
  | [] => lit ""
  | [x] => f x
  | x :: t => f x +++ lit "," +++ sh_list f t
  end.
Definition sh_brack {A} (f : A -> sh) (l : list A) : sh := lit "[" +++ sh_list f l +++ lit "]".

Definition sh_err (e : err) : sh :=
  lit match e with
      | EValue => "E('ValueError')" | EKey => "E('KeyError')" | EType => "E('TypeError')"
      | EIndex => "E('IndexError')" | EAttr => "E('AttributeError')" | EZeroDiv => "E('ZeroDivisionError')"
      | ESegDur => "E('SegmentDurationError')" | EElemDur => "E('ElementDurationError')"
      | ESequencing => "E('SequencingError')" | ESeqConsistency => "E('SequenceConsistencyError')"
      | ESeqCompat => "E('SequenceCompatibilityError')" | ESpecIncons => "E('SpecificationInconsistencyError')"
      | EMissingFreq => "E('MissingFrequenciesError')" | ENotImpl => "E('NotImplementedError')"
      end.

Definition sh_val (v : val) : sh :=
  match v with VNum q => sh_Q q | VStr x => sh_str x | VNone => lit "None" end.

(* run-length encoding of a boolean array: [(bit, count), ...] *)
Fixpoint rle_bools_aux (cur : bool) (cnt : Z) (l : list bool) : list (bool * Z) :=
  match l with
  | [] => [(cur, cnt)]
  | b :: t => if Bool.eqb b cur then rle_bools_aux cur (cnt + 1)%Z t else (cur, cnt) :: rle_bools_aux b 1%Z t
  end.
Definition rle_bools (l : list bool) : list (bool * Z) :=
  match l with [] => [] | b :: t => rle_bools_aux b 1%Z t end.

Definition sh_bools (l : list bool) : sh :=
  lit "M(" +++ sh_brack (fun p : bool * Z => lit "(" +++ lit (if fst p then "1" else "0") +++ lit "," +++ sh_Z (snd p) +++ lit ")") (rle_bools l) +++ lit ")".

Definition sh_rle (r : rle) : sh :=
  lit "R(" +++ sh_brack (fun p : Q * Z => lit "(" +++ sh_Q (fst p) +++ lit "," +++ sh_Z (snd p) +++ lit ")") r +++ lit ")".

Definition sh_block (b : block) : sh :=
  lit "(" +++ sh_str (fn_name (bfn b)) +++ lit "," +++ sh_brack sh_val (bargs b) +++ lit ","
  +++ sh_Q (bsr b) +++ lit "," +++ sh_Z (bn b) +++ lit ")".

Fixpoint sh_plan (w : wplan) : sh :=
  match w with
  | WBlocks bs => lit "B(" +++ sh_brack sh_block bs +++ lit ")"
  | WRle r => sh_rle r
  | WPad a b w' => lit "P(" +++ sh_Z a +++ lit "," +++ sh_Z b +++ lit "," +++ sh_plan w' +++ lit ")"
  | WFilt k o f s w' => lit "F(" +++ sh_str k +++ lit "," +++ sh_Z o +++ lit "," +++ sh_Q f +++ lit "," +++ sh_Q s
                        +++ lit "," +++ sh_plan w' +++ lit ")"
  | WScale a o w' => lit "S(" +++ sh_Q a +++ lit "," +++ sh_Q o +++ lit "," +++ sh_plan w' +++ lit ")"
  end.

Fixpoint sh_pv (p : pv) : sh :=
  let fix go (l : list pv) : sh :=
    match l with
    | [] => lit ""
    | [x] => sh_pv x
    | x :: t => sh_pv x +++ lit "," +++ go t
    end in
  let fix god (l : list (pv * pv)) : sh :=
    match l with
    | [] => lit ""
    | [(k, v)] => sh_pv k +++ lit ":" +++ sh_pv v
    | (k, v) :: t => sh_pv k +++ lit ":" +++ sh_pv v +++ lit "," +++ god t
    end in
  match p with
  | PInt z => sh_Z z
  | PNum q => sh_Q q
  | PStr x => sh_str x
  | PNone => lit "None"
  | PBool b => lit (if b then "True" else "False")
  | PList l => lit "[" +++ go l +++ lit "]"
  | PTuple l => lit "T(" +++ go l +++ lit ")"
  | PDict l => lit "{" +++ god l +++ lit "}"
  | PErr e => sh_err e
  | PBools l => sh_bools l
  | PRle r => sh_rle r
  | PPlan w => sh_plan w
  end.

Definition show_pv (p : pv) : string := sh_pv p "".
Definition show_all (l : list pv) : string := sh_brack sh_pv l "".
