(* Extraction of the executable model for the high-volume correspondence runs.
   ExtrOcamlBasic only (bool, option, unit, list, prod, sumbool -> OCaml natives); Z, positive, nat, Q,
   ascii and string stay the extracted inductive types.  Every check cross-validates the extracted
   runner against vm_compute on a sample of its cases. *)
From Coq Require Extraction.
From Coq Require Import ExtrOcamlBasic.
From Coq Require Import String List ZArith QArith.
From BB Require Import Base.Names Model.Types Model.PyVal Model.Interp Show Cases.
Extraction "model.ml" show_programs q S_ Z.add Z.mul Z.opp Pos.add Pos.mul.
