(* Executable model of Sequence._prepareForOutputting, outputForAWGFile, outputForSEQXFile(+WithFlags),
   and _AWGOutput.__getitem__ (definitions only). *)
From Coq Require Import String Ascii List ZArith QArith Bool Qabs Qround.
From BB Require Import Base.Names Base.Num Base.PyList Model.Types Model.Blueprint Model.Forge
  Model.Element Model.PyVal Model.Sequence.
Import ListNotations.
Open Scope Z_scope.

Definition spec_num (s : seq) (k : str) (missing : err) : result Q :=
  match spec_get s k with
  | None => Err missing
  | Some (SVal (VNum q)) => Ok q
  | Some _ => Err EType
  end.

(* one channel of one prepared element: the forged output and the final voltage plan *)
Record prepch := mkPrep { pchan : chan; pout : chout; pplan : wplan }.

Definition prepare_chan (s : seq) (e : elem) (maxdelay : Q) (p : chan * Q) : result (chan * chentry) :=
  let '(c, delay) := p in
  match el_lookup e c with
  | None => Err EKey
  | Some ch =>
      match ckind ch with
      | KBp b =>
          do b' <- delay_bp b delay maxdelay;
          if bp_has_empty_list b' then Err EValue else Ok (c, mkCh (KBp (bp_copy b')) (cflags ch))
      | KArr arrs asr =>
          (* padded at the rate the arrays were recorded at (element._data[chan]["SR"]), as _applyDelays does *)
          match asr with
          | Some (VNum sr) => Ok (c, mkCh (KArr (delay_arrays arrs delay maxdelay sr) asr) (cflags ch))
          | Some _ => Err EType
          | None => Err EKey
          end
      end
  end.

(* the delayed copy of one element: channels keep their own dict order; only the listed ones change *)
Fixpoint replace_chans (d : list (chan * chentry)) (upd : list (chan * chentry)) : list (chan * chentry) :=
  match upd with
  | [] => d
  | (c, x) :: t => replace_chans (aset chan_eqb c x d) t
  end.

Definition prepare_elem (s : seq) (chans : list chan) (delays : list Q) (x : entry) : result elem :=
  match x with
  | ESub _ => Err EAttr
  | EElem e =>
      do ups <- mapM (prepare_chan s e (qmax delays)) (combine chans delays);
      Ok (mkEl (replace_chans (edata e) ups))
  end.

Definition first_channels (s : seq) : result (list chan) :=
  match alookup Z.eqb 1 (sdata s) with
  | Some x => entry_channels x
  | None => Err EKey
  end.

(* Sequence._prepareForOutputting(): per position, per channel (in element dict order) *)
Definition prepare (s : seq) : result (list chan * list (list prepch)) :=
  do c <- seq_check s; if negb c then Err EValue else
  do chans <- first_channels s;
  let n := length (sdata s) in
  if negb (list_eqb Z.eqb (sort_Z (akeys (sseq s))) (range1 n)) then Err EValue else
  do _ <- mapM (fun ch => match spec_get s (key_amp ch) with Some _ => Ok tt | None => Err EKey end) chans;
  do delays <- mapM (fun ch => match spec_get s (key_delay ch) with
                               | None => Ok 0%Q
                               | Some (SVal (VNum q)) => Ok q
                               | Some _ => Err EType
                               end) chans;
  match delays with [] => Err EValue | _ =>
  do els <- mapM (fun k : Z => match alookup Z.eqb k (sdata s) with
                               | Some x => prepare_elem s chans delays x
                               | None => Err EKey
                               end) (range1 n);
  do forged <- mapM (fun e => el_get_arrays e false) els;
  do out <- mapM (fun arrs : list (chan * chout) =>
              mapM (fun p : chan * chout =>
                      do w <- chout_plan (snd p);
                      do flt <- (if existsb (chan_eqb (fst p)) chans then filter_of s (fst p) else Ok None);
                      do w' <- filt_wrap flt (seq_SR s) w;
                      Ok (mkPrep (fst p) (snd p) w')) arrs) forged;
  Ok (chans, out)
  end.

Definition prep_find (l : list prepch) (c : chan) : result prepch :=
  match find (fun p => chan_eqb (pchan p) c) l with Some p => Ok p | None => Err EKey end.

Definition chout_len (o : chout) : result Z :=
  match o with
  | OArr arrs _ => do w <- arr_wfm arrs; Ok (rle_len w)
  | OForged f _ _ _ => Ok (fN f)
  end.

Definition chout_marker (o : chout) (which : str) : result pv :=
  match o with
  | OArr arrs _ => match alookup str_eqb which arrs with Some r => Ok (PRle r) | None => Err EKey end
  | OForged f _ _ _ => Ok (PBools (if str_eqb which (S_ "m1") then fm1 f else fm2 f))
  end.

Definition in_range (lo hi v : Z) : bool := (lo <=? v) && (v <? hi).   (* v in range(lo, hi) *)

Definition get_sq (s : seq) (k : Z) : result sqing :=
  match alookup Z.eqb k (sseq s) with Some q => Ok q | None => Err EKey end.

(* a result that depends on the delivered sample values: if some plan leaves [lo, hi] the call
   raises ValueError, otherwise it continues with [inner] *)
Definition guarded (ranges : list (wplan * Q * Q)) (inner : pv) : pv :=
  PDict [(pstr "__guard__", PList (map (fun r : wplan * Q * Q =>
                                          PTuple [PPlan (fst (fst r)); PNum (snd (fst r)); PNum (snd r)]) ranges));
         (pstr "then", inner)].

(* the final casting loop shared by both back ends: per position, first the three arrays of every
   channel (KeyError when a raw-array channel lacks a marker), then that position's sequencing check *)
Definition cast_positions (s : seq) (chans : list chan) (okf : sqing -> bool) (wf : chan -> prepch -> pv)
    (els : list (list prepch)) : result (list (list (pv * pv * pv)) * list sqing) :=
  do per <- mapM (fun kl : Z * list prepch =>
              do row <- mapM (fun c => do p <- prep_find (snd kl) c;
                                       do a <- chout_marker (pout p) (S_ "m1");
                                       do b <- chout_marker (pout p) (S_ "m2");
                                       Ok (wf c p, a, b)) chans;
              do q <- get_sq s (fst kl);
              if okf q then Ok (row, q) else Err ESequencing)
            (combine (range1 (length els)) els);
  Ok (map fst per, map snd per).

(* rows are per position; the drivers want per channel *)
Fixpoint column {A} (i : nat) (rows : list (list A)) : list A :=
  match rows with
  | [] => []
  | r :: t => match nth_error r i with Some a => a :: column i t | None => column i t end
  end.
Definition transpose {A} (ncols : nat) (rows : list (list A)) : list (list A) :=
  map (fun i => column i rows) (List.seq 0 ncols).

(* ---- outputForAWGFile ---- *)
Record awgpkg := mkAwg {
  a_channels : list chan;
  a_wfms : list (list pv); a_m1s : list (list pv); a_m2s : list (list pv);
  a_nreps : list Z; a_twaits : list Z; a_gotos : list Z; a_jumps : list Z
}.

Definition awg_seq_ok (n : Z) (q : sqing) : bool :=
  ((twait q =? 0) || (twait q =? 1)) && in_range 0 65537 (nrep q)
  && in_range (-1) (n + 1) (jump_target q) && in_range 0 (n + 1) (goto q).

Definition output_awg (s : seq) : result (list (wplan * Q * Q) * result awgpkg) :=
  do pr <- prepare s;
  let '(chans, els) := pr in
  let n := Z.of_nat (length els) in
  do _ <- mapM (fun ch => match spec_get s (key_off ch) with Some _ => Ok tt | None => Err EValue end) chans;
  do per <- mapM (fun l : list prepch =>
              mapM (fun ch =>
                      do p <- prep_find l ch;
                      do ampl <- spec_num s (key_amp ch) EKey;
                      do off <- spec_num s (key_off ch) EKey;
                      Ok (ch, (p, ampl, off))) chans) els;
  let ranges := flat_map (fun l : list (chan * (prepch * Q * Q)) =>
                  map (fun x : chan * (prepch * Q * Q) =>
                         let '(_, (p, ampl, off)) := x in
                         (pplan p, (- ampl / 2 + off)%Q, (ampl / 2 + off)%Q)) l) per in
  let scale := map (fun l : list (chan * (prepch * Q * Q)) =>
                  map (fun x : chan * (prepch * Q * Q) => let '(c, (_, ampl, off)) := x in (c, (ampl, off))) l) per in
  Ok (ranges,
      do cs <- cast_positions s chans (awg_seq_ok n)
                 (fun c p => match alookup chan_eqb c (hd [] scale) with
                             | Some (ampl, off) => PPlan (WScale ampl off (pplan p))
                             | None => PNone end) els;
      let '(rows, sq) := cs in
      let nc := length chans in
      do chs <- seq_channels s;
      Ok (mkAwg chs (transpose nc (map (map (fun x : pv * pv * pv => fst (fst x))) rows))
                (transpose nc (map (map (fun x : pv * pv * pv => snd (fst x))) rows))
                (transpose nc (map (map (fun x : pv * pv * pv => snd x)) rows))
                (map nrep sq) (map twait sq) (map goto sq) (map jump_target sq))).

(* Python range(start, stop, step) *)
Fixpoint py_range_aux (fuel : nat) (cur stop step : Z) : list Z :=
  match fuel with
  | O => []
  | S f => if (if 0 <? step then cur <? stop else stop <? cur)
           then cur :: py_range_aux f (cur + step) stop step else []
  end.
Definition py_range (start stop step : Z) : list Z :=
  py_range_aux (Z.to_nat (Z.abs (stop - start)) + 1) start stop step.

Inductive index := IdxInt (i : Z) | IdxSlice (start stop step : option Z).

Definition nthZ {A} (l : list A) (i : Z) : result A :=
  if i <? 0 then Err EKey else match nth_error l (Z.to_nat i) with Some a => Ok a | None => Err EKey end.

Definition awg_tail (p : awgpkg) : list pv :=
  [PList (map PInt (a_nreps p)); PList (map PInt (a_twaits p)); PList (map PInt (a_gotos p));
   PList (map PInt (a_jumps p))].

(* _AWGOutput.__getitem__ *)
Definition awg_getitem (p : awgpkg) (ix : index) : result pv :=
  let sel (idx : list Z) : result pv :=
    do w <- mapM (nthZ (a_wfms p)) idx; do a <- mapM (nthZ (a_m1s p)) idx; do b <- mapM (nthZ (a_m2s p)) idx;
    Ok (PTuple ([PList (map PList w); PList (map PList a); PList (map PList b)] ++ awg_tail p)) in
  match ix with
  | IdxInt i => sel [i]
  | IdxSlice st sp se =>
      let start := match st with Some z => z | None => 0 end in
      let stop := match sp with Some z => z | None => Z.of_nat (length (a_wfms p)) end in
      let step := match se with Some z => z | None => 1 end in
      if step =? 0 then Err EValue else sel (py_range start stop step)
  end.

Definition pv_awg (s : seq) (ix : index) : pv :=
  match output_awg s with
  | Err e => PErr e
  | Ok (ranges, r) =>
      guarded ranges
        match r with
        | Err e => PErr e
        | Ok p => PDict [(pstr "channels", PList (map pv_of_chan (a_channels p)));
                         (pstr "item", pv_of_result (fun x => x) (awg_getitem p ix))]
        end
  end.

(* ---- outputForSEQXFile ---- *)
(* outputForSEQXFile: `if len(wfm) < 2400: raise ValueError` *)
Definition seqx_min_points : Z := 2400.

Definition seqx_seq_ok (n : Z) (q : sqing) : bool :=
  in_range 0 4 (twait q) && in_range 0 4 (jump_input q) && in_range 0 16384 (nrep q)
  && in_range (-1) (n + 1) (jump_target q) && in_range 0 (n + 1) (goto q).

Definition output_seqx (s : seq) (withflags : bool) : pv :=
  match prepare s with
  | Err e => PErr e
  | Ok (chans, els) =>
    let n := Z.of_nat (length els) in
    let flags :=                                   (* computed first by the WithFlags variant *)
      mapM (fun c => mapM (fun l => do p <- prep_find l c;
                                    Ok (match pout p with
                                        | OForged _ (Some fl) _ _ => PList (map PInt fl)
                                        | _ => PList [PInt 0; PInt 0; PInt 0; PInt 0]
                                        end)) els) chans in
    match (if withflags then flags else Ok []) with
    | Err e => PErr e
    | Ok fl =>
      match mapM (fun ch => spec_num s (key_amp ch) EKey) chans with
      | Err e => PErr e
      | Ok ampls =>
        let amplitudes := match ampls with [a] => [PNum a; PInt 0] | _ => map PNum ampls end in
        let per := mapM (fun l : list prepch =>
                     mapM (fun ca : chan * Q =>
                             do p <- prep_find l (fst ca);
                             do len <- chout_len (pout p);
                             Ok (fst ca, (p, snd ca, len))) (combine chans ampls)) els in
        match per with
        | Err e => PErr e
        | Ok per =>
          if existsb (fun l : list (chan * (prepch * Q * Z)) =>
                        existsb (fun x : chan * (prepch * Q * Z) => snd (snd x) <? seqx_min_points) l) per
          then PErr EValue else
          let ranges := flat_map (fun l : list (chan * (prepch * Q * Z)) =>
                          map (fun x : chan * (prepch * Q * Z) =>
                                 let '(_, (p, ampl, _)) := x in (pplan p, (- ampl / 2)%Q, (ampl / 2)%Q)) l) per in
          guarded ranges
            (pv_of_result (fun x => x)
              (do cs <- cast_positions s chans (seqx_seq_ok n) (fun _ p => PPlan (pplan p)) els;
               let '(rows, sq) := cs in
               let wf := transpose (length chans)
                           (map (map (fun x : pv * pv * pv => PList [fst (fst x); snd (fst x); snd x])) rows) in
               Ok (PTuple ([PList (map (fun q => PInt (twait q)) sq); PList (map (fun q => PInt (nrep q)) sq);
                            PList (map (fun q => PInt (jump_input q)) sq);
                            PList (map (fun q => PInt (jump_target q)) sq);
                            PList (map (fun q => PInt (goto q)) sq);
                            PList (map PList wf); PList amplitudes; PStr (sname s)]
                           ++ if withflags then [PList (map PList fl)] else []))))
        end
      end
    end
  end.
