(* Observable Python values: what an observation returns, in canonical tree form. *)
From Coq Require Import String Ascii List ZArith QArith Bool.
From BB Require Import Base.Names Base.Num Model.Types Model.Blueprint Model.Forge.
Import ListNotations.

(* a waveform plan: how the delivered samples are obtained from real library calls *)
Inductive wplan :=
| WBlocks (bs : list block)                                   (* concatenation of pulse-function calls *)
| WRle (r : rle)                                              (* stored raw array *)
| WPad (pre post : Z) (w : wplan)                             (* zeros before / after *)
| WFilt (kind : str) (order : Z) (fcut SR : Q) (w : wplan)    (* ripasso.applyInverseRCFilter(.., DCgain=1) *)
| WScale (ampl off : Q) (w : wplan).                          (* AWG5014 normalisation *)

Inductive pv :=
| PInt (z : Z) | PNum (q : Q) | PStr (x : str) | PNone | PBool (b : bool)
| PList (l : list pv) | PTuple (l : list pv) | PDict (l : list (pv * pv))
| PErr (e : err)
| PBools (l : list bool)
| PRle (r : rle)
| PPlan (w : wplan).

Definition pv_of_val (v : val) : pv :=
  match v with VNum q => PNum q | VStr x => PStr x | VNone => PNone end.
Definition pstr (x : string) : pv := PStr (S_ x).
Definition pv_of_result {A} (f : A -> pv) (r : result A) : pv :=
  match r with Ok a => f a | Err e => PErr e end.
Definition pv_of_chan (c : chan) : pv := match c with CInt z => PInt z | CStr x => PStr x end.
Definition pv_of_mspec (m : mspec) : pv := PTuple [PNum (fst m); PNum (snd m)].
