(* Effect / ownership model for C08 and C09 (a purely functional model makes independence vacuous).
   Mutable containers are abstracted to cell KINDS (paths with indices abstracted, Model/AliasTable.v,
   generated from alias/table.json and checked against the real objects by harness/alias.py on every run).
   A heap maps cells to contents; an operation may change only the cells in its write set; an observation
   depends only on the cells in its read set. *)
From Coq Require Import String List Bool.
From BB Require Import Model.AliasTable.
Import ListNotations.
Open Scope string_scope.

Definition kind := string.
(* a cell: which object (0 = source / receiver, 1 = derived object) and which kind *)
Definition cell := (nat * kind)%type.
Definition cell_eqb (a b : cell) : bool := Nat.eqb (fst a) (fst b) && String.eqb (snd a) (snd b).

Definition memb (x : cell) (l : list cell) : bool := existsb (cell_eqb x) l.
Definition disjointb (a b : list cell) : bool := forallb (fun x => negb (memb x b)) a.

Section Frame.
Context {V A : Type}.
Definition heap := cell -> V.

(* an event (one public call) with its write set *)
Record event := mkEvent { ev_writes : list cell; ev_run : heap -> heap }.
Definition respects (e : event) : Prop := forall h c, memb c (ev_writes e) = false -> ev_run e h c = h c.
Definition depends_only_on (o : heap -> A) (reads : list cell) : Prop :=
  forall h h', (forall c, memb c reads = true -> h c = h' c) -> o h = o h'.
Definition run_trace (tr : list event) (h : heap) : heap := fold_left (fun acc e => ev_run e acc) tr h.
End Frame.

(* ---- the table: cells written / read, with sharing taken into account ---- *)
Definition lookup3 {B} (name : string) (l : list (string * string * B)) : option (string * B) :=
  option_map (fun x => (snd (fst x), snd x)) (find (fun x => String.eqb (fst (fst x)) name) l).

(* the cell a kind of the DERIVED object denotes: the source's cell if the derive operation shares it *)
Definition res_cell (shared : list (string * string)) (k : kind) : cell :=
  match find (fun p => String.eqb (fst p) k) shared with
  | Some p => (0, snd p)
  | None => (1, k)
  end.
Definition src_cells (ks : list kind) : list cell := map (fun k => (0, k)) ks.
Definition res_cells (shared : list (string * string)) (ks : list kind) : list cell := map (res_cell shared) ks.

(* C09, one (derive op, mutator) pair: mutating either side never touches a cell the other side's observations read *)
Definition pair_ok (d : string * string * string * list (string * string)) (m : string * string * list string) : bool :=
  let '(_, src, res, shared) := d in
  let '(_, recv, ws) := m in
  (* mutator applied to the source *)
  (if String.eqb recv src then disjointb (src_cells ws) (res_cells shared (observed res)) else true) &&
  (* mutator applied to the derived object *)
  (if String.eqb recv res then disjointb (res_cells shared ws) (src_cells (observed src)) else true).

Definition c09_table_ok : bool := forallb (fun d => forallb (pair_ok d) mutators) derive_ops.

(* C08: no read-only operation writes a cell that any observation of that object reads *)
Definition readonly_ok (r : string * string * list string) : bool :=
  let '(_, recv, ws) := r in disjointb (src_cells ws) (src_cells (observed recv)).
Definition c08_table_ok : bool := forallb readonly_ok readonly_ops.

(* every write set only mentions kinds of the receiver's schema *)
Definition well_scoped : bool :=
  forallb (fun m : string * string * list string =>
             forallb (fun k => existsb (String.eqb k) (kinds_of (snd (fst m)))) (snd m)) (mutators ++ readonly_ops).
