(* Executable model of broadbean.tools (sweep helpers). *)
From Coq Require Import String Ascii List ZArith QArith Bool Qabs Qround.
From BB Require Import Base.Names Base.Num Base.PyList Model.Types Model.Blueprint Model.Forge
  Model.Element Model.PyVal Model.Sequence.
Import ListNotations.
Open Scope Z_scope.

(* the `arg` of a variation: 'duration' selects changeDuration *)
Definition is_duration (a : argref) : bool :=
  match a with AStr x => str_eqb x (S_ "duration") | AInt _ => false end.

Definition el_vary (e : elem) (c : chan) (n : str) (a : argref) (v : val) : step elem :=
  if is_duration a then el_change_dur e c n v false else el_change_arg e c n a v false.

Definition same_len (l : list nat) : bool := all_eq_first Nat.eqb l.

Record variation := mkVar { v_pos : Z; v_chan : chan; v_name : str; v_arg : argref; v_vals : list val }.

(* makeVaryingSequence(baseelement, channels, names, args, iters) *)
Definition make_varying (base : elem) (channels : list chan) (nms : list str) (ars : list argref)
    (iters : list (list val)) : result seq :=
  do _ <- el_validate base;
  if negb (same_len [length channels; length nms; length ars; length iters]) then Err EValue else
  match iters with
  | [] => Err EIndex
  | it0 :: _ =>
    if negb (forallb (fun it => Nat.eqb (length it) (length it0)) iters) then Err EValue else
    do SR <- el_sr base;
    let M := length it0 in
    do s0 <- (fix fill (ks : list Z) (acc : seq) : result seq :=
                match ks with
                | [] => Ok acc
                | k :: t => do a <- step_res (seq_add_element acc k base); fill t a
                end) (range1 M) (seq_set_sr seq_empty SR);
    do s1 <- (fix outer (vs : list (chan * (str * (argref * list val)))) (acc : seq) : result seq :=
                match vs with
                | [] => Ok acc
                | (c, (n, (a, vals))) :: t =>
                    do acc' <- (fix inner (kv : list (Z * val)) (sq : seq) : result seq :=
                                  match kv with
                                  | [] => Ok sq
                                  | (k, v) :: kt =>
                                      match alookup Z.eqb k (sdata sq) with
                                      | Some (EElem e) =>
                                          match el_vary e c n a v with
                                          | (e', None) => inner kt (set_sdata sq (aset Z.eqb k (EElem e') (sdata sq)))
                                          | (_, Some er) => Err er
                                          end
                                      | Some (ESub _) => Err EAttr
                                      | None => Err EKey
                                      end
                                  end) (combine (range1 (length vals)) vals) acc;
                    outer t acc'
                end) (combine channels (combine nms (combine ars iters))) s0;
    do c <- seq_check s1;
    if c then Ok s1 else Err ESeqConsistency
  end.

(* one step of a sweep over a sequence: apply the m-th value of every variation *)
Definition apply_variations (sq : seq) (vars : list variation) (m : nat) : result seq :=
  (fix go (vs : list variation) (acc : seq) : result seq :=
     match vs with
     | [] => Ok acc
     | v :: t =>
         match alookup Z.eqb (v_pos v) (sdata acc) with
         | None => Err EKey
         | Some (ESub _) => Err EAttr
         | Some (EElem e) =>
             match nth_error (v_vals v) m with
             | None => Err EIndex
             | Some x =>
                 match el_vary e (v_chan v) (v_name v) (v_arg v) x with
                 | (e', None) => go t (set_sdata acc (aset Z.eqb (v_pos v) (EElem e') (sdata acc)))
                 | (_, Some er) => Err er
                 end
             end
         end
     end) vars sq.

(* repeatAndVarySequence(seq, poss, channels, names, args, iters) *)
Definition repeat_and_vary (sq : seq) (poss : list Z) (channels : list chan) (nms : list str)
    (ars : list argref) (iters : list (list val)) : result seq :=
  do c <- seq_check sq; if negb c then Err ESeqConsistency else
  if negb (same_len [length poss; length channels; length nms; length ars; length iters]) then Err EValue else
  match iters with
  | [] => Err EIndex
  | it0 :: _ =>
    if negb (forallb (fun it => Nat.eqb (length it) (length it0)) iters) then Err EValue else
    let vars := map (fun x : Z * (chan * (str * (argref * list val))) =>
                       let '(p, (c, (n, (a, vs)))) := x in mkVar p c n a vs)
                    (combine poss (combine channels (combine nms (combine ars iters)))) in
    (fix go (ms : list nat) (acc : seq) : result seq :=
       match ms with
       | [] => Ok acc
       | m :: t => do tmp <- apply_variations sq vars m; do acc' <- seq_add acc tmp; go t acc'
       end) (List.seq 0 (length it0)) (mkSeq [] [] (sspecs sq) [])
  end.

(* np.linspace(start, stop, n) *)
Definition linspace (start stop : Q) (n : Z) : list Q :=
  if n <=? 1 then (if n =? 1 then [start] else [])
  else map (fun k => (start + inject_Z (Z.of_nat k) * ((stop - start) / inject_Z (n - 1)))%Q) (List.seq 0 (Z.to_nat n)).

(* makeLinearlyVaryingSequence(baseelement, channel, name, arg, start, stop, step) *)
Definition make_linear (base : elem) (c : chan) (n : str) (a : argref) (start stop stp : Q) : result seq :=
  do SR <- el_sr base;
  if Qeq_bool stp 0 then Err EZeroDiv else
  let cnt := rnd (Qabs (stop - start) / stp) + 1 in
  if cnt <? 0 then Err EValue else
  (fix go (kv : list (Z * Q)) (acc : seq) : result seq :=
     match kv with
     | [] => Ok acc
     | (k, v) :: t =>
         match el_vary base c n a (VNum v) with
         | (e', None) => do acc' <- step_res (seq_add_element acc k e'); go t acc'
         | (_, Some er) => Err er
         end
     end) (let vals := linspace start stop cnt in combine (range1 (length vals)) vals) (seq_set_sr seq_empty SR).
