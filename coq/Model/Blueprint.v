(* Executable model of broadbean.blueprint.BluePrint (definitions only; proofs in Proofs/). *)
From Coq Require Import String Ascii List ZArith QArith Bool Qround.
From BB Require Import Base.Names Base.Num Base.PyList Model.Types.
Import ListNotations.
Open Scope Z_scope.

Definition step (A : Type) := (A * option err)%type.   (* state after the call, exception if any *)
Definition ok {A} (a : A) : step A := (a, None).
Definition fail {A} (a : A) (e : err) : step A := (a, Some e).

Definition step_res {A} (s : step A) : result A :=
  match s with (a, None) => Ok a | (_, Some e) => Err e end.

Definition name_idx (n : str) (b : bp) : option nat := index_of str_eqb n (names b).

Definition is_empty (x : str) : bool := match x with [] => true | _ => false end.

(* BluePrint.insertSegment(pos, func, args, dur, name) *)
Definition bp_insert (b : bp) (pos : Z) (f : fn) (a : list val) (d : val) (nm : option str) : step bp :=
  if pos <? -1 then fail b EValue else
  let given := match nm with Some n => negb (is_empty n) | None => false end in
  let nm' := match nm with Some n => if is_empty n then fn_name f else n | None => fn_name f end in
  if given && ends_in_digit nm' then fail b EValue else
  let p := if pos =? -1 then length (names b) else Z.to_nat pos in
  ok (mkBp (uniquify (ins p nm' (names b))) (ins p f (funs b)) (ins p a (args b)) (ins p d (durs b))
           (ins p (0, 0)%Q (sm1 b)) (ins p (0, 0)%Q (sm2 b)) (am1 b) (am2 b) (sr b)).

(* BluePrint.removeSegment(name) *)
Definition bp_remove (b : bp) (n : str) : step bp :=
  match name_idx n b with
  | None => fail b EKey
  | Some p =>
      ok (mkBp (uniquify (del p (names b))) (del p (funs b)) (del p (args b)) (del p (durs b))
               (del p (sm1 b)) (del p (sm2 b)) (am1 b) (am2 b) (sr b))
  end.

Definition set_args (b : bp) (l : list (list val)) : bp :=
  mkBp (names b) (funs b) l (durs b) (sm1 b) (sm2 b) (am1 b) (am2 b) (sr b).
Definition set_durs (b : bp) (l : list val) : bp :=
  mkBp (names b) (funs b) (args b) l (sm1 b) (sm2 b) (am1 b) (am2 b) (sr b).
Definition set_sm1 (b : bp) (l : list mspec) : bp :=
  mkBp (names b) (funs b) (args b) (durs b) l (sm2 b) (am1 b) (am2 b) (sr b).
Definition set_sm2 (b : bp) (l : list mspec) : bp :=
  mkBp (names b) (funs b) (args b) (durs b) (sm1 b) l (am1 b) (am2 b) (sr b).
Definition set_am1 (b : bp) (l : list mspec) : bp :=
  mkBp (names b) (funs b) (args b) (durs b) (sm1 b) (sm2 b) l (am2 b) (sr b).
Definition set_am2 (b : bp) (l : list mspec) : bp :=
  mkBp (names b) (funs b) (args b) (durs b) (sm1 b) (sm2 b) (am1 b) l (sr b).
Definition set_sr (b : bp) (v : val) : bp :=
  mkBp (names b) (funs b) (args b) (durs b) (sm1 b) (sm2 b) (am1 b) (am2 b) v.

(* the names a name-addressed edit applies to *)
Definition replace_list (b : bp) (n : str) (everywhere : bool) : str * list str :=
  if everywhere then
    let base := basename n in
    (base, filter (fun m => str_eqb (basename m) base) (names b))
  else (n, [n]).

Inductive argref := AInt (z : Z) | AStr (x : str).

(* one iteration of the changeArg loop; the arg reference is resolved afresh in every matched segment *)
Definition change_arg_one (b : bp) (n : str) (a : argref) (v : val) : (bp * argref) * option err :=
  match name_idx n b with
  | None => ((b, a), Some EValue)
  | Some p =>
    match nth_error (funs b) p, nth_error (args b) p with
    | Some f, Some larg =>
        if fn_eqb f Fwait then ((b, a), Some EType) else
        let ps := fn_params f in
        let up := Z.of_nat (length ps) - 2 in
        let target :=
          match a with
          | AStr x => match index_of str_eqb x ps with Some i => Ok i | None => Err EValue end
          | AInt z => if (0 <=? z) && (z <? up) then Ok (Z.to_nat z) else Err EValue
          end in
        match target with
        | Err e => ((b, a), Some e)
        | Ok i =>
            if Nat.ltb i (length larg)
            then ((set_args b (upd p (upd i v larg) (args b)), a), None)
            else ((b, a), Some EIndex)
        end
    | _, _ => ((b, a), Some EIndex)
    end
  end.

Fixpoint change_arg_loop (b : bp) (l : list str) (a : argref) (v : val) : step bp :=
  match l with
  | [] => ok b
  | n :: t =>
      match change_arg_one b n a v with
      | ((b', a'), None) => change_arg_loop b' t a' v
      | ((b', _), Some e) => fail b' e
      end
  end.

(* BluePrint.changeArg(name, arg, value, replaceeverywhere) *)
Definition bp_change_arg (b : bp) (n : str) (a : argref) (v : val) (everywhere : bool) : step bp :=
  let '(n', l) := replace_list b n everywhere in
  match name_idx n' b with
  | None => fail b EValue
  | Some _ => change_arg_loop b l a v
  end.

Definition change_dur_one (b : bp) (n : str) (d : Q) : step bp :=
  match name_idx n b with
  | None => fail b EValue
  | Some p =>
      if Qle_bool d 0 then fail b EValue else
      let too_short := match sr b with
                       | VNum s => negb (Qle_bool 1 (d * s))
                       | _ => false
                       end in
      if too_short then fail b EValue else
      ok (set_durs b (upd p (VNum d) (durs b)))
  end.

Fixpoint change_dur_loop (b : bp) (l : list str) (d : Q) : step bp :=
  match l with
  | [] => ok b
  | n :: t =>
      match change_dur_one b n d with
      | (b', None) => change_dur_loop b' t d
      | (b', Some e) => fail b' e
      end
  end.

(* BluePrint.changeDuration(name, dur, replaceeverywhere) *)
Definition bp_change_dur (b : bp) (n : str) (d : val) (everywhere : bool) : step bp :=
  match d with
  | VNum q =>
      let '(n', l) := replace_list b n everywhere in
      match name_idx n' b with
      | None => fail b EValue
      | Some _ => change_dur_loop b l q
      end
  | _ => fail b EValue
  end.

(* BluePrint.setSegmentMarker(name, specs, markerID) *)
Definition bp_set_segmarker (b : bp) (n : str) (spec : mspec) (id : Z) : step bp :=
  if negb ((id =? 1) || (id =? 2)) then fail b EValue else
  match name_idx n b with
  | None => fail b EValue
  | Some p => if id =? 1 then ok (set_sm1 b (upd p spec (sm1 b))) else ok (set_sm2 b (upd p spec (sm2 b)))
  end.

(* BluePrint.removeSegmentMarker(name, markerID) *)
Definition bp_remove_segmarker (b : bp) (n : str) (id : Z) : step bp :=
  if negb ((id =? 1) || (id =? 2)) then fail b EValue else
  match name_idx n b with
  | None => fail b EKey
  | Some p => if id =? 1 then ok (set_sm1 b (upd p (0, 0)%Q (sm1 b))) else ok (set_sm2 b (upd p (0, 0)%Q (sm2 b)))
  end.

(* BluePrint.copy(): goes through __init__ with base names *)
Definition bp_copy (b : bp) : bp :=
  mkBp (uniquify (map basename (names b))) (funs b) (args b) (durs b) (sm1 b) (sm2 b) (am1 b) (am2 b) (sr b).

(* BluePrint.__add__ *)
Definition bp_add (a b : bp) : bp :=
  mkBp (uniquify (map basename (names a) ++ map basename (names b)))
       (funs a ++ funs b) (args a ++ args b) (durs a ++ durs b)
       (sm1 a ++ sm1 b) (sm2 a ++ sm2 b) (am1 a ++ am1 b) (am2 a ++ am2 b) (sr a).

(* ---- waituntil resolution (shared by _makeWaitDurations and _subelementBuilder) ---- *)
(* elapsed = None once a non-numeric duration has been summed over *)
Fixpoint resolve_waits_aux (fs : list fn) (ars : list (list val)) (ds : list val) (elapsed : option Q)
  : result (list val) :=
  match fs, ars, ds with
  | f :: fs', a :: ars', d :: ds' =>
      if fn_eqb f Fwait then
        match elapsed with
        | None => Err EType
        | Some el =>
            match a with
            | VNum w :: _ =>
                let dur := (w - el)%Q in
                if Qlt_le_dec dur 0 then Err EValue
                else do r <- resolve_waits_aux fs' ars' ds' (Some w); Ok (VNum dur :: r)
            | [] => Err EIndex
            | _ => Err EType
            end
        end
      else
        let el' := match elapsed, d with Some el, VNum q => Some (el + q)%Q | _, _ => None end in
        do r <- resolve_waits_aux fs' ars' ds' el'; Ok (d :: r)
  | _, _, _ => Ok []
  end.
Definition resolve_waits (b : bp) : result (list val) :=
  resolve_waits_aux (funs b) (args b) (durs b) (Some 0%Q).

Fixpoint sum_vals (l : list val) : result Q :=
  match l with
  | [] => Ok 0%Q
  | VNum q :: t => do s <- sum_vals t; Ok (q + s)%Q
  | _ :: _ => Err EType
  end.

Definition has_wait (b : bp) : bool := existsb (fn_eqb Fwait) (funs b).

(* BluePrint.duration *)
Definition bp_duration (b : bp) : result Q :=
  if has_wait b then do ds <- resolve_waits b; sum_vals ds else sum_vals (durs b).

(* BluePrint.points *)
Definition bp_points (b : bp) : result Z :=
  match sr b with
  | VNone => Err EValue
  | VNum s => do d <- bp_duration b; Ok (rnd (d * s))
  | _ => Err EType
  end.

(* BluePrint.__eq__ (after the durations fix) *)
Fixpoint list_eqb {A} (eqb : A -> A -> bool) (a b : list A) : bool :=
  match a, b with
  | [], [] => true
  | x :: a', y :: b' => eqb x y && list_eqb eqb a' b'
  | _, _ => false
  end.
Definition mspec_eqb (a b : mspec) : bool := Qeq_bool (fst a) (fst b) && Qeq_bool (snd a) (snd b).
Definition bp_eqb (a b : bp) : bool :=
  list_eqb str_eqb (names a) (names b) && list_eqb fn_eqb (funs a) (funs b)
  && list_eqb (list_eqb val_eqb) (args a) (args b)
  && list_eqb mspec_eqb (am1 a) (am1 b) && list_eqb mspec_eqb (am2 a) (am2 b)
  && list_eqb mspec_eqb (sm1 a) (sm1 b) && list_eqb mspec_eqb (sm2 a) (sm2 b)
  && list_eqb val_eqb (durs a) (durs b).
