(* Executable model of blueprint._subelementBuilder (definitions only). *)
From Coq Require Import String Ascii List ZArith QArith Bool Qround.
From BB Require Import Base.Names Base.Num Base.PyList Model.Types Model.Blueprint.
Import ListNotations.
Open Scope Z_scope.

(* one forged segment: which function is called with which arguments, SR and point count *)
Record block := mkBlock { bfn : fn; bargs : list val; bsr : Q; bn : Z }.

Record forged := mkForged {
  fblocks : list block;
  fN : Z;                       (* wf_length *)
  fm1 : list bool;
  fm2 : list bool;
  fnewdurs : list Q             (* int_dur / SR per segment *)
}.

(* integer sample counts: round(dur*SR), at least 2 each *)
Notation min_points := 2%Z (only parsing).   (* a notation, so the proofs about int_durs see the literal *)
Fixpoint int_durs (SR : Q) (ds : list val) : result (list Z) :=
  match ds with
  | [] => Ok []
  | VNum d :: t =>
      let n := rnd (d * SR) in
      if n <? min_points then Err ESegDur else do r <- int_durs SR t; Ok (n :: r)
  | _ :: _ => Err EType
  end.

Fixpoint mk_blocks (fs : list fn) (ars : list (list val)) (ns : list Z) (SR : Q) : result (list block) :=
  match fs, ars, ns with
  | f :: fs', a :: ars', n :: ns' =>
      if Nat.eqb (length a) (fn_arity f)
      then do r <- mk_blocks fs' ars' ns' SR; Ok (mkBlock f a SR n :: r)
      else Err EType
  | _, _, _ => Ok []
  end.

Definition sumZ (l : list Z) : Z := fold_right Z.add 0 l.

(* start sample of each segment *)
Fixpoint starts (acc : Z) (ns : list Z) : list Z :=
  match ns with [] => [] | n :: t => acc :: starts (acc + n) t end.

(* segment-bound specs with non-zero length become absolute specs at segment start + delay *)
Fixpoint seg_specs (SR : Q) (sts : list Z) (sm : list mspec) : list mspec :=
  match sts, sm with
  | st :: sts', (dl, ln) :: sm' =>
      if Qeq_bool ln 0 then seg_specs SR sts' sm'
      else ((inject_Z st / SR + dl)%Q, ln) :: seg_specs SR sts' sm'
  | _, _ => []
  end.

(* marker[ind : ind + chunk] = 1 with Python slice semantics *)
Definition window (N : Z) (SR : Q) (m : mspec) : Z * Z :=
  let ind := nearest_fast N SR (fst m) in
  let stop := ind + rnd (snd m * SR) in
  let stop' := if stop <? 0 then Z.max 0 (stop + N) else stop in
  (ind, Z.min stop' N).

Definition in_window (k : Z) (w : Z * Z) : bool := (fst w <=? k) && (k <? snd w).

(* the sample indices start, start+1, ... (n of them), counted in Z so that evaluation is linear in n *)
Fixpoint zrange (n : nat) (start : Z) : list Z :=
  match n with O => [] | S m => start :: zrange m (start + 1) end.

Definition paint (N : Z) (ws : list (Z * Z)) : list bool :=
  map (fun k => existsb (in_window k) ws) (zrange (Z.to_nat N) 0).

Definition forge_bp_with (b : bp) (SR : Q) (ds0 : list val) : result forged :=
  do ds <- resolve_waits_aux (funs b) (args b) ds0 (Some 0%Q);
  do ns <- int_durs SR ds;
  do bl <- mk_blocks (funs b) (args b) ns SR;
  let N := sumZ ns in
  let sts := starts 0 ns in
  let w1 := map (window N SR) (am1 b ++ seg_specs SR sts (sm1 b)) in
  let w2 := map (window N SR) (am2 b ++ seg_specs SR sts (sm2 b)) in
  Ok (mkForged bl N (paint N w1) (paint N w2) (map (fun n => (inject_Z n / SR)%Q) ns)).

(* _subelementBuilder(bp, bp.SR, bp.durations) as Element.getArrays calls it *)
Definition forge_bp (b : bp) : result forged :=
  match names b, sr b with
  | [], _ => Err EValue
  | _, VNum SR => forge_bp_with b SR (durs b)
  | _, _ => Err EType
  end.
