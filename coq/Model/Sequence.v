(* Executable model of broadbean.sequence.Sequence: state, settings, consistency, +, forge. *)
From Coq Require Import String Ascii List ZArith QArith Bool Qabs Qround DecimalString.
From BB Require Import Base.Names Base.Num Base.PyList Model.Types Model.Blueprint Model.Forge
  Model.Element Model.PyVal.
Import ListNotations.
Open Scope Z_scope.

(* ---- awgspecs keys: the literal f-strings of the implementation ---- *)
Definition str_of_Z (z : Z) : str := list_ascii_of_string (NilZero.string_of_int (Z.to_int z)).
Definition str_of_chan (c : chan) : str := match c with CInt z => str_of_Z z | CStr x => x end.
Definition key_sr : str := S_ "SR".
Definition key_amp (c : chan) : str := S_ "channel" ++ str_of_chan c ++ S_ "_amplitude".
Definition key_off (c : chan) : str := S_ "channel" ++ str_of_chan c ++ S_ "_offset".
Definition key_delay (c : chan) : str := S_ "channel" ++ str_of_chan c ++ S_ "_delay".
Definition key_filt (c : chan) : str := S_ "channel" ++ str_of_chan c ++ S_ "_filtercompensation".

Definition spec_get {E} (s : seqT E) (k : str) : option specval := alookup str_eqb k (sspecs s).
Definition spec_set {E} (s : seqT E) (k : str) (v : specval) : seqT E :=
  mkSeq (sdata s) (sseq s) (aset str_eqb k v (sspecs s)) (sname s).
Definition set_sdata {E} (s : seqT E) (d : list (Z * E)) : seqT E := mkSeq d (sseq s) (sspecs s) (sname s).
Definition set_sseq {E} (s : seqT E) (q : list (Z * sqing)) : seqT E := mkSeq (sdata s) q (sspecs s) (sname s).

(* Sequence.SR property: the setting or -1 *)
Definition seq_SR {E} (s : seqT E) : val :=
  match spec_get s key_sr with Some (SVal v) => v | _ => VNum (-1 # 1) end.

(* ---- settings ---- *)
Definition seq_set_sr (s : seq) (v : val) : seq := spec_set s key_sr (SVal v).
Definition seq_set_amp (s : seq) (c : chan) (v : val) : seq := spec_set s (key_amp c) (SVal v).
Definition seq_set_off (s : seq) (c : chan) (v : val) : seq := spec_set s (key_off c) (SVal v).
Definition seq_set_delay (s : seq) (c : chan) (v : val) : seq := spec_set s (key_delay c) (SVal v).

(* setChannelFilterCompensation(channel, kind, order, f_cut, tau); order = None models a non-int *)
Definition seq_set_filter (s : seq) (c : chan) (kind : str) (order : option Z) (f_cut tau : val) : step seq :=
  if negb (str_eqb kind (S_ "HP") || str_eqb kind (S_ "LP")) then fail s EValue else
  match order with
  | None => fail s EValue
  | Some o =>
      if negb (val_is_none f_cut) && negb (val_is_none tau) then fail s ESpecIncons
      else ok (spec_set s (key_filt c) (SFilt kind o f_cut tau))
  end.

Inductive sqfield := FTwait | FNrep | FJumpInput | FJumpTarget | FGoto.
Definition sq_update (q : sqing) (f : sqfield) (v : Z) : sqing :=
  match f with
  | FTwait => mkSq v (nrep q) (jump_input q) (jump_target q) (goto q)
  | FNrep => mkSq (twait q) v (jump_input q) (jump_target q) (goto q)
  | FJumpInput => mkSq (twait q) (nrep q) v (jump_target q) (goto q)
  | FJumpTarget => mkSq (twait q) (nrep q) (jump_input q) v (goto q)
  | FGoto => mkSq (twait q) (nrep q) (jump_input q) (jump_target q) v
  end.
(* setSequencingTriggerWait & co. *)
Definition seq_set_sequencing (s : seq) (pos : Z) (f : sqfield) (v : Z) : step seq :=
  match alookup Z.eqb pos (sseq s) with
  | None => fail s EKey
  | Some q => ok (set_sseq s (aset Z.eqb pos (sq_update q f v) (sseq s)))
  end.
(* the deprecated setSequenceSettings(pos, wait, nreps, jump, goto) *)
Definition seq_set_settings (s : seq) (pos w n j g : Z) : seq :=
  set_sseq s (aset Z.eqb pos (mkSq w n 0 j g) (sseq s)).

(* Sequence.addElement(position, element) *)
Definition seq_add_element (s : seq) (pos : Z) (e : elem) : step seq :=
  match el_validate e with
  | Err er => fail s er
  | Ok _ => ok (mkSeq (aset Z.eqb pos (EElem e) (sdata s)) (aset Z.eqb pos sq_default (sseq s)) (sspecs s) (sname s))
  end.

Definition entry_is_sub (x : entry) : bool := match x with ESub _ => true | EElem _ => false end.
Fixpoint to_sub_data (l : list (Z * entry)) : list (Z * elem) :=
  match l with
  | [] => []
  | (p, EElem e) :: t => (p, e) :: to_sub_data t
  | (_, ESub _) :: t => to_sub_data t
  end.
(* Sequence.addSubSequence(position, subsequence) *)
Definition seq_add_sub (s : seq) (pos : Z) (sub : seq) : step seq :=
  if existsb (fun p : Z * entry => entry_is_sub (snd p)) (sdata sub) then fail s EValue else
  if negb (val_eqb (seq_SR sub) (seq_SR s)) then fail s EValue else
  let sb : subseq := mkSeq (to_sub_data (sdata sub)) (sseq sub) (sspecs sub) (sname sub) in
  ok (mkSeq (aset Z.eqb pos (ESub sb) (sdata s)) (aset Z.eqb pos sq_default (sseq s)) (sspecs s) (sname s)).

(* ---- _channelListSorter ---- *)
Fixpoint str_ltb (a b : str) : bool :=
  match a, b with
  | [], [] => false
  | [], _ :: _ => true
  | _ :: _, [] => false
  | x :: a', y :: b' =>
      let nx := nat_of_ascii x in let ny := nat_of_ascii y in
      if Nat.ltb nx ny then true else if Nat.ltb ny nx then false else str_ltb a' b'
  end.
Definition chan_leb (a b : chan) : bool :=
  match a, b with
  | CInt x, CInt y => x <=? y
  | CInt _, CStr _ => true
  | CStr _, CInt _ => false
  | CStr x, CStr y => negb (str_ltb y x)
  end.
Fixpoint chan_insert (c : chan) (l : list chan) : list chan :=
  match l with
  | [] => [c]
  | d :: t => if chan_leb c d then c :: l else d :: chan_insert c t
  end.
Definition sort_chans (l : list chan) : list chan := fold_right chan_insert [] l.

(* positions filled = 1..n in any order *)
Fixpoint z_insert (z : Z) (l : list Z) : list Z :=
  match l with [] => [z] | y :: t => if z <=? y then z :: l else y :: z_insert z t end.
Definition sort_Z (l : list Z) : list Z := fold_right z_insert [] l.
Definition range1 (n : nat) : list Z := map (fun k => Z.of_nat k + 1) (List.seq 0 n).
Definition positions_ok (ps : list Z) : bool :=
  match ps with
  | [] => true
  | _ => list_eqb Z.eqb (sort_Z ps) (range1 (length ps))
  end.

(* checkConsistency on a generic sequence whose entries answer SR and channels *)
Section Check.
Context {E : Type} (eSR : E -> result val) (eChans : E -> result (list chan)).
Definition check_consistency (s : seqT E) : result bool :=
  match spec_get s key_sr with
  | None => Err EKey
  | Some _ =>
      do SRs <- mapM eSR (avals (sdata s));
      if negb (all_eq_first val_eqb SRs) then Ok false else
      do chs <- mapM (fun e => do c <- eChans e; Ok (sort_chans c)) (avals (sdata s));
      let lastc := last chs [] in
      if negb (forallb (list_eqb chan_eqb lastc) chs) then Ok false else
      Ok (positions_ok (akeys (sdata s)))
  end.
End Check.

Definition sub_check (s : subseq) : result bool :=
  check_consistency el_sr (fun e => Ok (el_channels e)) s.
(* Sequence.channels of a subsequence *)
Definition sub_channels (s : subseq) : result (list chan) :=
  do c <- sub_check s;
  if c then match alookup Z.eqb 1 (sdata s) with Some e => Ok (el_channels e) | None => Err EKey end
  else Err ESeqConsistency.
Definition entry_SR (x : entry) : result val :=
  match x with EElem e => el_sr e | ESub s => Ok (seq_SR s) end.
Definition entry_channels (x : entry) : result (list chan) :=
  match x with EElem e => Ok (el_channels e) | ESub s => sub_channels s end.
(* Sequence.checkConsistency() *)
Definition seq_check (s : seq) : result bool := check_consistency entry_SR entry_channels s.
(* Sequence.channels *)
Definition seq_channels (s : seq) : result (list chan) :=
  do c <- seq_check s;
  if c then match alookup Z.eqb 1 (sdata s) with Some x => entry_channels x | None => Err EKey end
  else Err ESeqConsistency.

(* Sequence.points / duration *)
Fixpoint sumR {A} (f : A -> result Z) (l : list A) : result Z :=
  match l with [] => Ok 0 | x :: t => do a <- f x; do r <- sumR f t; Ok (a + r) end.
Definition sub_points (s : subseq) : result Z := sumR el_points (avals (sdata s)).
Definition entry_points (x : entry) : result Z :=
  match x with EElem e => el_points e | ESub s => sub_points s end.
Definition seq_points (s : seq) : result Z := sumR entry_points (avals (sdata s)).

Section Dur.
Context {E : Type} (edur : E -> result Q).
Fixpoint dur_loop (sq : list (Z * sqing)) (l : list (Z * E)) : result Q :=
  match l with
  | [] => Ok 0%Q
  | (p, x) :: t =>
      match alookup Z.eqb p sq with
      | None => Err EKey
      | Some q => do d <- edur x; do r <- dur_loop sq t; Ok (inject_Z (nrep q) * d + r)%Q
      end
  end.
End Dur.
Definition sub_duration (s : subseq) : result Q := dur_loop el_duration (sseq s) (sdata s).
Definition entry_duration (x : entry) : result Q :=
  match x with EElem e => el_duration e | ESub s => sub_duration s end.
Definition seq_duration (s : seq) : result Q := dur_loop entry_duration (sseq s) (sdata s).

(* ---- Sequence.__add__ ---- *)
Definition specval_eqb (a b : specval) : bool :=
  match a, b with
  | SVal x, SVal y => val_eqb x y
  | SFilt k o f t, SFilt k' o' f' t' => str_eqb k k' && (o =? o') && val_eqb f f' && val_eqb t t'
  | _, _ => false
  end.
(* dict equality: same key set, equal values *)
Definition specs_eqb (a b : list (str * specval)) : bool :=
  Nat.eqb (length a) (length b) &&
  forallb (fun p : str * specval =>
             match alookup str_eqb (fst p) b with Some v => specval_eqb (snd p) v | None => false end) a.

Definition shift_sq (N : Z) (q : sqing) : sqing :=
  mkSq (twait q) (nrep q) (jump_input q)
       (if 0 <? jump_target q then jump_target q + N else jump_target q)
       (if 0 <? goto q then goto q + N else goto q).

(* dict.update semantics for merging b (keys shifted by N) into a *)
Definition merge_shift {V} (N : Z) (a b : list (Z * V)) : list (Z * V) :=
  fold_left (fun acc p => aset Z.eqb (fst p + N) (snd p) acc) b a.

Definition seq_add (a b : seq) : result seq :=
  do ca <- seq_check a; if negb ca then Err ESeqConsistency else
  do cb <- seq_check b; if negb cb then Err ESeqConsistency else
  if negb (specs_eqb (sspecs a) (sspecs b)) then Err ESeqCompat else
  let N := Z.of_nat (length (sdata a)) in
  Ok (mkSeq (merge_shift N (sdata a) (sdata b))
            (merge_shift N (sseq a) (map (fun p : Z * sqing => (fst p, shift_sq N (snd p))) (sseq b)))
            (sspecs b) []).

(* ---- Sequence.forge ---- *)
Definition delay_of (s : seq) (c : chan) : result Q :=
  match spec_get s (key_delay c) with
  | None => Ok 0%Q
  | Some (SVal (VNum q)) => Ok q
  | Some _ => Err EType
  end.

Definition apply_delays_elem (dl : list (chan * Q)) (e : elem) : result elem :=
  do ds <- mapM (fun c => match alookup chan_eqb c dl with Some q => Ok q | None => Err EKey end) (el_channels e);
  el_apply_delays e ds.

Definition apply_delays_entry (dl : list (chan * Q)) (x : entry) : result entry :=
  match x with
  | EElem e => do e' <- apply_delays_elem dl e; Ok (EElem e')
  | ESub sb =>
      do d <- mapM (fun p : Z * elem => do e' <- apply_delays_elem dl (snd p); Ok (fst p, e')) (sdata sb);
      Ok (ESub (set_sdata sb d))
  end.

(* the filter compensation of one channel, if declared: (kind, order, f_cut) *)
Definition filter_of (s : seq) (c : chan) : result (option (str * Z * Q)) :=
  match spec_get s (key_filt c) with
  | Some (SFilt k o fc tau) =>
      match fc, tau with
      | VNum f, _ => Ok (Some (k, o, f))
      | VNone, VNum t => if Qeq_bool t 0 then Err EZeroDiv else Ok (Some (k, o, (1 / t)%Q))
      | _, _ => Err EType
      end
  | _ => Ok None
  end.

Definition pv_of_sqing (q : sqing) : pv :=
  PDict [(pstr "twait", PInt (twait q)); (pstr "nrep", PInt (nrep q)); (pstr "jump_input", PInt (jump_input q));
         (pstr "jump_target", PInt (jump_target q)); (pstr "goto", PInt (goto q))].

(* the "wfm" plan of a channel output, before filtering *)
Definition chout_plan (o : chout) : result wplan :=
  match o with
  | OArr arrs _ => do w <- arr_wfm arrs; Ok (WRle w)
  | OForged f _ _ _ => Ok (WBlocks (fblocks f))
  end.

Definition filt_wrap (flt : option (str * Z * Q)) (SR : val) (w : wplan) : result wplan :=
  match flt with
  | None => Ok w
  | Some (k, o, f) =>
      match SR with
      | VNum s => Ok (WFilt k o f s w)
      | _ => Err EType
      end
  end.

(* one channel's arrays as a dict; wfm is the (possibly filtered) plan *)
Definition pv_of_chout (o : chout) (wfm : wplan) : pv :=
  match o with
  | OArr arrs timeN =>
      PDict (map (fun p : str * rle =>
                    (PStr (fst p), if str_eqb (fst p) (S_ "wfm") then PPlan wfm else PRle (snd p))) arrs
             ++ match timeN with Some n => [(pstr "time", PTuple [pstr "linspace_incl"; PInt n])] | None => [] end)
  | OForged f fl wt SR =>
      PDict ([(pstr "wfm", PPlan wfm); (pstr "m1", PBools (fm1 f)); (pstr "m2", PBools (fm2 f))]
             ++ match fl with Some l => [(pstr "flags", PList (map PInt l))] | None => [] end
             ++ if wt then [(pstr "time", PTuple [pstr "k_over_SR"; PInt (fN f); PNum SR]);
                            (pstr "newdurations", PList (map PNum (fnewdurs f)))] else [])
  end.

Definition forge_elem_data (s : seq) (filters includetime : bool) (e : elem) : result pv :=
  do arrs <- el_get_arrays e includetime;
  do chs <- mapM (fun p : chan * chout =>
              do w <- chout_plan (snd p);
              do flt <- (if filters then filter_of s (fst p) else Ok None);
              do w' <- filt_wrap flt (seq_SR s) w;
              Ok (pv_of_chan (fst p), pv_of_chout (snd p) w')) arrs;
  Ok (PDict chs).

Definition forge_entry (s : seq) (filters includetime : bool) (x : entry) : result (pv * pv) :=
  match x with
  | EElem e =>
      do d <- forge_elem_data s filters includetime e;
      Ok (pstr "element", PDict [(PInt 1, PDict [(pstr "data", d)])])
  | ESub sb =>
      do l <- mapM (fun k : Z =>
              match alookup Z.eqb k (sdata sb), alookup Z.eqb k (sseq sb) with
              | Some e, Some q =>
                  do d <- forge_elem_data s filters includetime e;
                  Ok (PInt k, PDict [(pstr "data", d); (pstr "sequencing", pv_of_sqing q)])
              | _, _ => Err EKey
              end) (range1 (length (sdata sb)));
      Ok (pstr "subsequence", PDict l)
  end.

(* Sequence.forge(apply_delays, apply_filters, includetime) *)
Definition seq_forge (s : seq) (delays filters includetime : bool) : result pv :=
  do c <- seq_check s; if negb c then Err EValue else
  do chans <- seq_channels s;
  do data <- (if delays then
                do dl <- mapM (fun ch => do q <- delay_of s ch; Ok (ch, q)) chans;
                mapM (fun k : Z =>
                        match alookup Z.eqb k (sdata s) with
                        | Some x => do x' <- apply_delays_entry dl x; Ok (k, x')
                        | None => Err EKey
                        end) (range1 (length (sdata s)))
              else mapM (fun k : Z =>
                        match alookup Z.eqb k (sdata s) with
                        | Some x => Ok (k, x)
                        | None => Err EKey
                        end) (range1 (length (sdata s))));
  do out <- mapM (fun p : Z * entry =>
              match alookup Z.eqb (fst p) (sseq s) with
              | None => Err EKey
              | Some q =>
                  do tc <- forge_entry s filters includetime (snd p);
                  Ok (PInt (fst p), PDict [(pstr "sequencing", pv_of_sqing q); (pstr "type", fst tc);
                                           (pstr "content", snd tc)])
              end) data;
  Ok (PDict out).

(* Sequence.__eq__ *)
Definition sqing_eqb (a b : sqing) : bool :=
  (twait a =? twait b) && (nrep a =? nrep b) && (jump_input a =? jump_input b)
  && (jump_target a =? jump_target b) && (goto a =? goto b).
Section SeqEq.
Context {E : Type} (eeq : E -> E -> result bool).
Fixpoint data_eqb_aux (l : list (Z * E)) (b : list (Z * E)) : result bool :=
  match l with
  | [] => Ok true
  | (p, x) :: t =>
      match alookup Z.eqb p b with
      | None => Ok false
      | Some y => do r <- eeq x y; if r then data_eqb_aux t b else Ok false
      end
  end.
Definition seqT_eqb (a b : seqT E) : result bool :=
  do d <- (if Nat.eqb (length (sdata a)) (length (sdata b)) then data_eqb_aux (sdata a) (sdata b) else Ok false);
  if negb d then Ok false else
  if negb (specs_eqb (sspecs a) (sspecs b)) then Ok false else
  Ok (Nat.eqb (length (sseq a)) (length (sseq b)) &&
      forallb (fun p : Z * sqing => match alookup Z.eqb (fst p) (sseq b) with
                                    | Some q => sqing_eqb (snd p) q | None => false end) (sseq a)).
End SeqEq.
Definition entry_eqb (a b : entry) : result bool :=
  match a, b with
  | EElem x, EElem y => el_eqb x y
  | ESub x, ESub y => seqT_eqb el_eqb x y
  | _, _ => Ok false
  end.
Definition seq_eqb (a b : seq) : result bool := seqT_eqb entry_eqb a b.
