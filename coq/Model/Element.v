(* Executable model of broadbean.element.Element (definitions only). *)
From Coq Require Import String Ascii List ZArith QArith Bool Qabs Qround.
From BB Require Import Base.Names Base.Num Base.PyList Model.Types Model.Blueprint Model.Forge.
Import ListNotations.
Open Scope Z_scope.

Definition rle_len (r : rle) : Z := fold_right (fun p acc => snd p + acc) 0 r.
Definition rle_pad (pre post : Z) (r : rle) : rle := (0%Q, pre) :: r ++ [(0%Q, post)].

Definition el_lookup (e : elem) (c : chan) : option chentry := alookup chan_eqb c (edata e).
Definition el_set (e : elem) (c : chan) (x : chentry) : elem := mkEl (aset chan_eqb c x (edata e)).
Definition el_channels (e : elem) : list chan := akeys (edata e).

Definition bp_has_empty_list (b : bp) : bool :=
  match funs b, args b, names b, durs b with
  | _ :: _, _ :: _, _ :: _, _ :: _ => false
  | _, _, _, _ => true
  end.

(* Element.addBluePrint(channel, blueprint) *)
Definition el_add_bp (e : elem) (c : chan) (b : bp) : step elem :=
  if bp_has_empty_list b then fail e EValue
  else ok (el_set e c (mkCh (KBp (bp_copy b)) None)).

Definition flag_int (v : val) : option Z :=
  match v with
  | VNum q => if Qeq_bool q 0 then Some 0 else if Qeq_bool q 1 then Some 1 else if Qeq_bool q 2 then Some 2
              else if Qeq_bool q 3 then Some 3 else if Qeq_bool q 4 then Some 4 else None
  | VStr x => if str_eqb x [] then Some 0 else if str_eqb x (S_ "H") then Some 1
              else if str_eqb x (S_ "L") then Some 2 else if str_eqb x (S_ "T") then Some 3
              else if str_eqb x (S_ "P") then Some 4 else None
  | VNone => None
  end.

Fixpoint all_some {A} (l : list (option A)) : option (list A) :=
  match l with
  | [] => Some []
  | Some a :: t => option_map (cons a) (all_some t)
  | None :: _ => None
  end.

(* Element.addFlags(channel, flags) *)
Definition el_add_flags (e : elem) (c : chan) (fl : list val) : step elem :=
  if negb (Nat.eqb (length fl) 4) then fail e EValue else
  match all_some (map flag_int fl) with
  | None => fail e EValue
  | Some ints =>
      match el_lookup e c with
      | None => fail e EKey
      | Some ch => ok (el_set e c (mkCh (ckind ch) (Some ints)))
      end
  end.

(* Element.addArray(channel, waveform, SR, **markers): the marker lengths are checked first (since the repair of
   D22; before it the entry was replaced first and a rejected call left a half-built entry without waveform and SR) *)
Fixpoint add_markers (N : Z) (ms : list (str * rle)) (acc : list (str * rle)) : list (str * rle) * bool :=
  match ms with
  | [] => (acc, true)
  | (n, a) :: t => if rle_len a =? N then add_markers N t (aset str_eqb n a acc) else (acc, false)
  end.
Definition el_add_array (e : elem) (c : chan) (w : rle) (SR : val) (ms : list (str * rle)) : step elem :=
  let '(arrs, good) := add_markers (rle_len w) ms [] in
  if good then ok (el_set e c (mkCh (KArr (aset str_eqb (S_ "wfm") w arrs) (Some SR)) None))
  else fail e EValue.

Fixpoint mapM {A B} (f : A -> result B) (l : list A) : result (list B) :=
  match l with
  | [] => Ok []
  | x :: t => do y <- f x; do r <- mapM f t; Ok (y :: r)
  end.

Definition ch_sr (ch : chentry) : result val :=
  match ckind ch with
  | KBp b => Ok (sr b)
  | KArr _ (Some v) => Ok v
  | KArr _ None => Err EKey
  end.

Definition arr_wfm (arrs : list (str * rle)) : result rle :=
  match alookup str_eqb (S_ "wfm") arrs with Some w => Ok w | None => Err EKey end.

Definition ch_duration (ch : chentry) : result Q :=
  match ckind ch with
  | KBp b => bp_duration b
  | KArr arrs asr =>
      do w <- arr_wfm arrs;
      match asr with
      | Some (VNum s) => if Qeq_bool s 0 then Err EZeroDiv else Ok (inject_Z (rle_len w) / s)%Q
      | Some _ => Err EType
      | None => Err EKey
      end
  end.

Definition ch_points (ch : chentry) : result Z :=
  match ckind ch with
  | KBp b => bp_points b
  | KArr arrs _ => do w <- arr_wfm arrs; Ok (rle_len w)
  end.

Definition val_is_none (v : val) : bool := match v with VNone => true | _ => false end.
Fixpoint min_sr (l : list val) : result Q :=
  match l with
  | [] => Err EValue
  | [VNum q] => Ok q
  | VNum q :: t => do m <- min_sr t; Ok (if Qle_bool q m then q else m)
  | _ => Err EType
  end.

(* np.allclose(durations, durations[0], atol=atol) with the default rtol = 1e-5 *)
Definition allclose (ds : list Q) (atol : Q) : bool :=
  match ds with
  | [] => true
  | d0 :: _ => forallb (fun d => Qle_bool (Qabs (d - d0)) (atol + (1 # 100000) * Qabs d0)) ds
  end.

(* Element.validateDurations(): returns the cached (SR, duration) *)
Definition el_validate (e : elem) : result (val * Q) :=
  let chs := avals (edata e) in
  match chs with
  | [] => Err EKey
  | _ =>
      do SRs <- mapM ch_sr chs;
      if negb (all_eq_first val_eqb SRs) then Err EElemDur else
      do ds <- mapM ch_duration chs;
      do atol <- (if existsb val_is_none SRs then Ok (1 # 1000000000)%Q else min_sr SRs);
      if negb (allclose ds atol) then Err EElemDur else
      do ns <- mapM ch_points chs;
      if negb (all_eq_first Z.eqb ns) then Err EElemDur else
      Ok (hd VNone SRs, hd 0%Q ds)
  end.

Definition el_sr (e : elem) : result val := do r <- el_validate e; Ok (fst r).
Definition el_duration (e : elem) : result Q := do r <- el_validate e; Ok (snd r).
Definition el_points (e : elem) : result Z :=
  do _ <- el_validate e;
  match avals (edata e) with
  | ch :: _ => ch_points ch
  | [] => Err EKey
  end.

(* one channel of Element.getArrays *)
Inductive chout :=
| OArr (arrs : list (str * rle)) (timeN : option Z)        (* stored arrays; time axis added when asked *)
| OForged (f : forged) (flags : option (list Z)) (withtime : bool) (SR : Q).

Definition ch_arrays (includetime : bool) (ch : chentry) : result chout :=
  match ckind ch with
  | KArr arrs asr =>
      if includetime && negb (match alookup str_eqb (S_ "time") arrs with Some _ => true | None => false end)
      then do w <- arr_wfm arrs;
           match asr with
           | Some (VNum s) => if Qeq_bool s 0 then Err EZeroDiv else Ok (OArr arrs (Some (rle_len w)))
           | Some _ => Err EType
           | None => Err EKey
           end
      else Ok (OArr arrs None)
  | KBp b =>
      do f <- forge_bp b;
      match sr b with
      | VNum s => Ok (OForged f (cflags ch) includetime s)
      | _ => Err EType
      end
  end.

(* Element.getArrays(includetime) *)
Definition el_get_arrays (e : elem) (includetime : bool) : result (list (chan * chout)) :=
  mapM (fun p : chan * chentry => do o <- ch_arrays includetime (snd p); Ok (fst p, o)) (edata e).

(* Element.changeArg / changeDuration *)
Definition el_on_bp (e : elem) (c : chan) (f : bp -> step bp) : step elem :=
  match el_lookup e c with
  | None => fail e EValue
  | Some ch =>
      match ckind ch with
      | KBp b => let '(b', r) := f b in (el_set e c (mkCh (KBp b') (cflags ch)), r)
      | KArr _ _ => fail e EValue
      end
  end.
Definition el_change_arg (e : elem) (c : chan) (n : str) (a : argref) (v : val) (ev : bool) : step elem :=
  el_on_bp e c (fun b => bp_change_arg b n a v ev).
Definition el_change_dur (e : elem) (c : chan) (n : str) (d : val) (ev : bool) : step elem :=
  el_on_bp e c (fun b => bp_change_dur b n d ev).

(* shifting the waituntil targets of a blueprint *)
Fixpoint shift_waits (fs : list fn) (ars : list (list val)) (d : Q) : result (list (list val)) :=
  match fs, ars with
  | f :: fs', a :: ars' =>
      do r <- shift_waits fs' ars' d;
      if fn_eqb f Fwait then
        match a with
        | VNum w :: _ => Ok ([VNum (w + d)%Q] :: r)
        | [] => Err EIndex
        | _ => Err EType
        end
      else Ok (a :: r)
  | _, _ => Ok ars
  end.

(* the blueprint part of a delay: shift waits, prepend waituntil(delay), append ramp(0,0) *)
Definition delay_bp (b : bp) (delay maxdelay : Q) : result bp :=
  do ars <- shift_waits (funs b) (args b) delay;
  let b1 := set_args b ars in
  let b2 := if Qlt_le_dec 0 delay
            then fst (bp_insert b1 0 Fwait [VNum delay] (VStr (S_ "waituntil")) None) else b1 in
  let b3 := if Qlt_le_dec 0 (maxdelay - delay)
            then fst (bp_insert b2 (-1) Framp [VNum 0; VNum 0] (VNum (maxdelay - delay)) None) else b2 in
  Ok b3.

Definition delay_arrays (arrs : list (str * rle)) (delay maxdelay SR : Q) : list (str * rle) :=
  map (fun p : str * rle => (fst p, rle_pad (rnd (delay * SR)) (rnd ((maxdelay - delay) * SR)) (snd p))) arrs.

Definition qmax (l : list Q) : Q :=
  match l with [] => 0%Q | x :: t => fold_left (fun m y => if Qle_bool m y then y else m) t x end.

(* Element._applyDelays(delays) *)
Definition el_apply_delays (e : elem) (delays : list Q) : result elem :=
  if negb (Nat.eqb (length delays) (length (edata e))) then Err EValue else
  if negb (forallb (fun d => Qle_bool 0 d) delays) then Err EValue else
  do SRv <- el_sr e;
  match delays with
  | [] => Err EValue
  | _ =>
    let maxdelay := qmax delays in
    do chs <- mapM (fun p : (chan * chentry) * Q =>
                 let '((c, ch), d) := p in
                 match ckind ch with
                 | KBp b => do b' <- delay_bp b d maxdelay; Ok (c, mkCh (KBp b') (cflags ch))
                 | KArr arrs asr =>
                     match SRv with
                     | VNum s => Ok (c, mkCh (KArr (delay_arrays arrs d maxdelay s) asr) (cflags ch))
                     | _ => Err EType
                     end
                 end) (combine (edata e) delays);
    Ok (mkEl chs)
  end.

(* Element.__eq__ (after the cache fix); raw-array channels make numpy raise on == *)
Definition flags_eqb (a b : option (list Z)) : bool :=
  match a, b with
  | None, None => true
  | Some x, Some y => list_eqb Z.eqb x y
  | _, _ => false
  end.
Definition ch_eqb (a b : chentry) : result bool :=
  match ckind a, ckind b with
  | KBp x, KBp y => Ok (bp_eqb x y && flags_eqb (cflags a) (cflags b))
  | KArr _ _, KArr _ _ => Err EValue
  | _, _ => Ok false
  end.
Fixpoint el_eqb_aux (l : list (chan * chentry)) (e2 : elem) : result bool :=
  match l with
  | [] => Ok true
  | (c, ch) :: t =>
      match el_lookup e2 c with
      | None => Ok false
      | Some ch2 => do r <- ch_eqb ch ch2; if r then el_eqb_aux t e2 else Ok false
      end
  end.
Definition el_eqb (a b : elem) : result bool :=
  if negb (Nat.eqb (length (edata a)) (length (edata b))) then Ok false else el_eqb_aux (edata a) b.
